package main

// E4: effects — who writes what, what aliases what (SSA, flow-insensitive per function,
// summaries propagated over the call graph to a fixpoint).
//
// A *root* names where an address or pointer-like value comes from: a parameter (memory
// reachable from it), a package-level variable, a fresh allocation of the current activation,
// a free variable, or unknown. "rd" roots stand for a reader object (bytes.Buffer / bytes.Reader)
// wrapped around memory of the underlying root: operations on the reader do not write the
// bytes unless the contract of the operation says so.

import (
	"fmt"
	"go/token"
	"go/types"
	"sort"
	"strings"

	"golang.org/x/tools/go/callgraph"
	"golang.org/x/tools/go/ssa"
)

type Root struct {
	Kind   string // param | global | fresh | freevar | unknown
	Idx    int    // param index
	Name   string // global name (pkg.var) / fresh site id
	Reader bool   // a reader object wrapped around the root's memory
}

func (r Root) String() string {
	s := r.Kind
	switch r.Kind {
	case "param":
		s = fmt.Sprintf("param%d", r.Idx)
	case "global":
		s = "global " + r.Name
	case "fresh":
		s = "fresh"
	}
	if r.Reader {
		s = "reader(" + s + ")"
	}
	return s
}

type RootSet map[Root]bool

func (s RootSet) add(r Root) bool {
	if s[r] {
		return false
	}
	s[r] = true
	return true
}
func (s RootSet) addAll(t RootSet) bool {
	ch := false
	for r := range t {
		if s.add(r) {
			ch = true
		}
	}
	return ch
}
func (s RootSet) list() []string {
	var l []string
	for r := range s {
		l = append(l, r.String())
	}
	sort.Strings(l)
	return l
}
func (s RootSet) hasParam(i int) bool {
	return s[Root{Kind: "param", Idx: i}]
}
func (s RootSet) hasParamAny(i int) bool {
	return s[Root{Kind: "param", Idx: i}] || s[Root{Kind: "param", Idx: i, Reader: true}]
}

type ModSite struct {
	Root Root
	Pos  token.Pos
	Fn   string
	What string
}

type Retain struct { // memory rooted at Dst gets a pointer-like value rooted at Src
	Dst, Src Root
	Pos      token.Pos
	Fn       string
}

type FnSummary struct {
	Fn       *ssa.Function
	Mods     map[Root]ModSite // first site per root
	Results  []RootSet        // per result: deep roots of returned pointer-like values
	Retains  map[[2]Root]Retain
	Ambient  map[string]token.Pos // non-deterministic / concurrency constructs used directly
	GlobalRd map[string]token.Pos // package-level variables read (repository globals only)
	Calls    map[string]token.Pos // stdlib callees (full names)
	ReaderOps map[string]ModSite  // operations applied to reader-wrapped roots: "op|root"
	WriteOps  map[string]ModSite  // contract calls that write an argument: "op|root of written arg"
}

type Effects struct {
	w    *World
	cg   *callgraph.Graph
	sums map[*ssa.Function]*FnSummary
	// per-function caches
	roots   map[ssa.Value]RootSet
	byFn    map[*ssa.Function][]ssa.Value
	content map[ssa.Value]RootSet // fresh alloc site -> roots of pointer-like values stored into it
	contentCache map[string]RootSet
	contentKeys  map[*ssa.Function][]string
	Unknown []string
}

// stdlib contracts for effects. writes: argument indices whose reachable memory is written;
// alias: argument indices the result may alias; retain: pairs (dst arg, src arg).
type effContract struct {
	writes []int
	alias  []int
	reader bool // result is a reader over alias args
	unwrap bool // result aliases the bytes underlying a reader receiver
	pure   bool
	readerWrite bool // writes the bytes underlying a reader receiver (arg 0)
}

var effContracts = map[string]effContract{
	"bytes.NewBuffer":                   {alias: []int{0}, reader: true},
	"bytes.NewReader":                   {alias: []int{0}, reader: true},
	"bytes.NewBufferString":             {pure: true},
	"(*bytes.Buffer).Len":               {pure: true},
	"(*bytes.Reader).Len":               {pure: true},
	"(*bytes.Buffer).Next":              {alias: []int{0}, unwrap: true},
	"(*bytes.Buffer).Bytes":             {alias: []int{0}, unwrap: true},
	"(*bytes.Buffer).String":            {pure: true},
	"(*bytes.Buffer).ReadByte":          {pure: true},
	"(*bytes.Reader).ReadByte":          {pure: true},
	"io.ReadFull":                       {writes: []int{1}}, // copies from the reader into its second argument; keeps neither
	"io.ReadAtLeast":                    {writes: []int{1}},
	"(*bytes.Buffer).Read":              {writes: []int{1}},
	"(*bytes.Reader).Read":              {writes: []int{1}},
	"(*bytes.Buffer).Write":             {writes: []int{0}, readerWrite: true},
	"(*bytes.Buffer).WriteByte":         {writes: []int{0}, readerWrite: true},
	"(*bytes.Buffer).WriteString":       {writes: []int{0}, readerWrite: true},
	"(*bytes.Buffer).Reset":             {writes: []int{0}, readerWrite: true},
	"(*bytes.Buffer).Truncate":          {writes: []int{0}, readerWrite: true},
	"(*bytes.Buffer).Grow":              {writes: []int{0}, readerWrite: true},
	"(*bytes.Buffer).UnreadByte":        {writes: []int{0}},
	"encoding/binary.Read":              {writes: []int{2}},
	"encoding/binary.Write":             {writes: []int{0}, readerWrite: true},
	"(encoding/binary.bigEndian).Uint16":    {pure: true},
	"(encoding/binary.bigEndian).Uint32":    {pure: true},
	"(encoding/binary.bigEndian).Uint64":    {pure: true},
	"(encoding/binary.bigEndian).PutUint16": {writes: []int{1}},
	"(encoding/binary.bigEndian).PutUint32": {writes: []int{1}},
	"(encoding/binary.bigEndian).PutUint64": {writes: []int{1}},
	"(encoding/binary.bigEndian).AppendUint16":    {writes: []int{1}, alias: []int{1}},
	"(encoding/binary.bigEndian).AppendUint32":    {writes: []int{1}, alias: []int{1}},
	"(encoding/binary.bigEndian).AppendUint64":    {writes: []int{1}, alias: []int{1}},
	"(encoding/binary.littleEndian).AppendUint16": {writes: []int{1}, alias: []int{1}},
	"(encoding/binary.littleEndian).AppendUint32": {writes: []int{1}, alias: []int{1}},
	"(encoding/binary.littleEndian).AppendUint64": {writes: []int{1}, alias: []int{1}},
	"(encoding/binary.littleEndian).Uint16":    {pure: true},
	"(encoding/binary.littleEndian).Uint32":    {pure: true},
	"(encoding/binary.littleEndian).Uint64":    {pure: true},
	"(encoding/binary.littleEndian).PutUint16": {writes: []int{1}},
	"(encoding/binary.littleEndian).PutUint32": {writes: []int{1}},
	"(encoding/binary.littleEndian).PutUint64": {writes: []int{1}},
	"fmt.Errorf":                        {pure: true},
	"fmt.Sprintf":                       {pure: true},
	"fmt.Sprint":                        {pure: true},
	"fmt.Sscanf":                        {writes: []int{2}},
	"errors.New":                        {pure: true},
	"encoding/hex.EncodeToString":       {pure: true},
	"encoding/hex.DecodeString":         {pure: true},
	"encoding/hex.Decode":               {writes: []int{0}},
	"strconv.Itoa":                      {pure: true},
	"strconv.Atoi":                      {pure: true},
	"strconv.ParseInt":                  {pure: true},
	"strconv.ParseUint":                 {pure: true},
	"strconv.FormatInt":                 {pure: true},
	"strconv.FormatUint":                {pure: true},
	"strings.Split":                     {pure: true},
	"strings.SplitN":                    {pure: true},
	"strings.Join":                      {pure: true},
	"strings.Repeat":                    {pure: true},
	"strings.TrimPrefix":                {pure: true},
	"strings.TrimSuffix":                {pure: true},
	"strings.TrimRight":                 {pure: true},
	"strings.HasPrefix":                 {pure: true},
	"strings.ToLower":                   {pure: true},
	"strings.ToUpper":                   {pure: true},
	"strings.Contains":                  {pure: true},
	"strings.Index":                     {pure: true},
	"strings.Fields":                    {pure: true},
	"strings.Compare":                   {pure: true},
	"strings.EqualFold":                 {pure: true},
	"reflect.DeepEqual":                 {pure: true},
	"math/bits.RotateLeft32":            {pure: true},
	"math/bits.Reverse8":                {pure: true},
	"crypto/aes.NewCipher":              {pure: true},
	"crypto/cipher.NewCTR":              {pure: true},
	"(crypto/cipher.Stream).XORKeyStream": {writes: []int{1}},
	"(*crypto/cipher.ctr).XORKeyStream":   {writes: []int{1}},
	"github.com/aead/cmac.Sum":          {pure: true},
	"github.com/aead/cmac.New":          {pure: true},
	"(hash.Hash).Write":                 {pure: true},
	"(hash.Hash).Sum":                   {alias: []int{1}},
	"(io.Writer).Write":                 {writes: []int{0}},
	"net.ParseIP":                       {pure: true},
	"(net.IP).To4":                      {alias: []int{0}},
	"(net.IP).To16":                     {alias: []int{0}},
	"(net.IP).String":                   {pure: true},
	"(net.IP).Equal":                    {pure: true},
	"(net.IPMask).String":               {pure: true},
	"net.IPv4":                          {pure: true},
	"net.IPv4Mask":                      {pure: true},
	"(time.Time).Year":                  {pure: true},
	"time.Date":                         {pure: true},
	"time.FixedZone":                    {pure: true},
	"sort.Slice":                        {writes: []int{0}},
	"math.Pow":                          {pure: true},
	"math.Floor":                        {pure: true},
	"(*regexp.Regexp).MatchString":      {pure: true},
	"regexp.MustCompile":                {pure: true},
	"regexp.MatchString":                {pure: true},
}

func isPure(name string) bool {
	if strings.HasPrefix(name, "(*github.com/sirupsen/logrus.Entry).") || strings.HasPrefix(name, "(*github.com/sirupsen/logrus.Logger).") {
		return true // contract: log methods lock the logger's mutex; they never touch caller memory
	}
	if strings.HasPrefix(name, "(time.Time).") || strings.HasPrefix(name, "(time.Month).") || strings.HasPrefix(name, "(time.Duration).") {
		return true
	}
	return false
}

func NewEffects(w *World) *Effects {
	return &Effects{w: w, cg: w.CallGraph(), sums: map[*ssa.Function]*FnSummary{}, roots: map[ssa.Value]RootSet{}, byFn: map[*ssa.Function][]ssa.Value{}, content: map[ssa.Value]RootSet{}, contentCache: map[string]RootSet{}, contentKeys: map[*ssa.Function][]string{}}
}

func pointerLike(t types.Type) bool {
	switch u := t.Underlying().(type) {
	case *types.Pointer, *types.Slice, *types.Map, *types.Chan, *types.Interface, *types.Signature:
		return true
	case *types.Struct:
		for i := 0; i < u.NumFields(); i++ {
			if pointerLike(u.Field(i).Type()) {
				return true
			}
		}
	case *types.Array:
		return pointerLike(u.Elem())
	case *types.Tuple:
		for i := 0; i < u.Len(); i++ {
			if pointerLike(u.At(i).Type()) {
				return true
			}
		}
	}
	return false
}

// Callees of a call instruction: static callee or the call-graph edges.
func (e *Effects) callees(site ssa.CallInstruction) []*ssa.Function {
	if f := site.Common().StaticCallee(); f != nil {
		return []*ssa.Function{f}
	}
	var out []*ssa.Function
	if n := e.cg.Nodes[site.Parent()]; n != nil {
		for _, ed := range n.Out {
			if ed.Site == site && ed.Callee.Func != nil {
				out = append(out, ed.Callee.Func)
			}
		}
	}
	return out
}

// Summaries computes summaries for every function reachable from the given entries.
func (e *Effects) Summaries(entries []*ssa.Function) []*ssa.Function {
	// reachable set
	seen := map[*ssa.Function]bool{}
	var order []*ssa.Function
	var visit func(f *ssa.Function)
	visit = func(f *ssa.Function) {
		if f == nil || seen[f] {
			return
		}
		seen[f] = true
		if f.Blocks == nil || !isRepoFunc(f) {
			return
		}
		for _, b := range f.Blocks {
			for _, ins := range b.Instrs {
				if ci, ok := ins.(ssa.CallInstruction); ok {
					for _, c := range e.callees(ci) {
						visit(c)
					}
				}
				// closures
				if mc, ok := ins.(*ssa.MakeClosure); ok {
					if fn, ok := mc.Fn.(*ssa.Function); ok {
						visit(fn)
					}
				}
			}
		}
		order = append(order, f) // post-order: callees first
	}
	for _, f := range entries {
		visit(f)
	}
	for _, f := range order {
		if e.sums[f] == nil {
			e.sums[f] = &FnSummary{Fn: f, Mods: map[Root]ModSite{}, Retains: map[[2]Root]Retain{}, Ambient: map[string]token.Pos{}, GlobalRd: map[string]token.Pos{}, Calls: map[string]token.Pos{}, ReaderOps: map[string]ModSite{}, WriteOps: map[string]ModSite{}}
		}
	}
	// fixpoint
	for iter := 0; iter < 50; iter++ {
		changed := false
		for _, f := range order {
			if e.analyse(f) {
				changed = true
			}
		}
		if !changed {
			break
		}
	}
	return order
}

func (e *Effects) Summary(f *ssa.Function) *FnSummary { return e.sums[f] }

// rootsOf computes the roots of a (pointer-like or address) value, within its function.
func (e *Effects) rootsOf(v ssa.Value, depth int) RootSet {
	if rs, ok := e.roots[v]; ok {
		return rs
	}
	rs := RootSet{}
	e.roots[v] = rs // break cycles (phi)
	if pf := v.Parent(); pf != nil {
		e.byFn[pf] = append(e.byFn[pf], v)
	}
	if depth > 200 {
		rs.add(Root{Kind: "unknown"})
		return rs
	}
	switch x := v.(type) {
	case *ssa.Parameter:
		for i, p := range x.Parent().Params {
			if p == x {
				rs.add(Root{Kind: "param", Idx: i})
			}
		}
	case *ssa.FreeVar:
		rs.add(Root{Kind: "freevar"})
	case *ssa.Global:
		if x.Pkg != nil && IsRepoPkg(x.Pkg.Pkg) {
			rs.add(Root{Kind: "global", Name: relPkg(x.Pkg.Pkg) + "." + x.Name()})
		} else {
			// package-level variable of another module (io.EOF, binary.BigEndian, ...)
			rs.add(Root{Kind: "extglobal", Name: relPkg(x.Pkg.Pkg) + "." + x.Name()})
		}
	case *ssa.Alloc:
		rs.add(Root{Kind: "fresh", Name: allocID(x)})
	case *ssa.MakeSlice, *ssa.MakeMap, *ssa.MakeChan:
		rs.add(Root{Kind: "fresh", Name: allocID(v)})
	case *ssa.MakeClosure:
		rs.add(Root{Kind: "fresh", Name: allocID(v)})
		for _, b := range x.Bindings {
			rs.addAll(e.rootsOf(b, depth+1))
		}
	case *ssa.MakeInterface:
		if pointerLike(x.X.Type()) {
			rs.addAll(e.rootsOf(x.X, depth+1))
		}
	case *ssa.FieldAddr:
		rs.addAll(e.rootsOf(x.X, depth+1))
	case *ssa.IndexAddr:
		rs.addAll(e.rootsOf(x.X, depth+1))
	case *ssa.Slice:
		rs.addAll(e.rootsOf(x.X, depth+1))
	case *ssa.ChangeType:
		rs.addAll(e.rootsOf(x.X, depth+1))
	case *ssa.ChangeInterface:
		rs.addAll(e.rootsOf(x.X, depth+1))
	case *ssa.Convert:
		if pointerLike(x.X.Type()) {
			rs.addAll(e.rootsOf(x.X, depth+1))
		} else if pointerLike(x.Type()) {
			rs.add(Root{Kind: "fresh", Name: allocID(v)}) // []byte(string)
		}
	case *ssa.TypeAssert:
		rs.addAll(e.rootsOf(x.X, depth+1))
	case *ssa.Field:
		rs.addAll(e.rootsOf(x.X, depth+1))
	case *ssa.Index:
		rs.addAll(e.rootsOf(x.X, depth+1))
	case *ssa.Lookup:
		rs.addAll(e.rootsOf(x.X, depth+1))
	case *ssa.Extract:
		if c, ok := x.Tuple.(*ssa.Call); ok {
			rs.addAll(e.callResultRoots(c, x.Index, depth+1))
		} else {
			rs.addAll(e.rootsOf(x.Tuple, depth+1))
		}
	case *ssa.Phi:
		for _, ed := range x.Edges {
			rs.addAll(e.rootsOf(ed, depth+1))
		}
	case *ssa.UnOp:
		if x.Op == token.MUL {
			// value loaded from memory: reachable from the address' roots; for fresh objects, what was stored there
			for r := range e.rootsOf(x.X, depth+1) {
				if r.Kind == "fresh" {
					if c := e.contentOf(r.Name, x.Parent()); c != nil {
						rs.addAll(c)
					}
				} else {
					rs.add(r)
				}
			}
		} else {
			rs.addAll(e.rootsOf(x.X, depth+1))
		}
	case *ssa.Call:
		rs.addAll(e.callResultRoots(x, 0, depth+1))
	case *ssa.Const:
	case *ssa.BinOp:
		// string concatenation etc.: fresh
	case *ssa.Next, *ssa.Range:
		var in ssa.Value
		if n, ok := x.(*ssa.Next); ok {
			in = n.Iter
		} else {
			in = x.(*ssa.Range).X
		}
		rs.addAll(e.rootsOf(in, depth+1))
	case *ssa.Function, *ssa.Builtin:
	default:
		rs.add(Root{Kind: "unknown"})
	}
	return rs
}

func allocID(v ssa.Value) string {
	return fmt.Sprintf("%s#%s", v.Parent().String(), v.Name())
}

// contentOf: roots of pointer-like values stored into a fresh allocation of fn (flow-insensitive).
func (e *Effects) contentOf(id string, fn *ssa.Function) RootSet {
	if c, ok := e.contentCache[id]; ok {
		return c
	}
	out := RootSet{}
	e.contentCache[id] = out
	e.contentKeys[fn] = append(e.contentKeys[fn], id)
	for _, b := range fn.Blocks {
		for _, ins := range b.Instrs {
			st, ok := ins.(*ssa.Store)
			if !ok || !pointerLike(st.Val.Type()) {
				continue
			}
			for r := range e.rootsOf(st.Addr, 0) {
				if r.Kind == "fresh" && r.Name == id {
					for q := range e.rootsOf(st.Val, 0) {
						if !(q.Kind == "fresh" && q.Name == id) {
							out.add(q)
						}
					}
				}
			}
		}
	}
	return out
}

func (e *Effects) calleeName(f *ssa.Function) string {
	return f.String()
}

// callResultRoots: roots of result idx of a call.
func (e *Effects) callResultRoots(c *ssa.Call, idx int, depth int) RootSet {
	rs := RootSet{}
	com := c.Common()
	if b, ok := com.Value.(*ssa.Builtin); ok {
		switch b.Name() {
		case "append":
			rs.addAll(e.rootsOf(com.Args[0], depth))
			rs.add(Root{Kind: "fresh", Name: allocID(c)})
		case "new", "make":
			rs.add(Root{Kind: "fresh", Name: allocID(c)})
		}
		return rs
	}
	args := e.callArgs(com)
	for _, callee := range e.callees(c) {
		name := e.calleeName(callee)
		if ct, ok := effContracts[name]; ok {
			for _, ai := range ct.alias {
				if ai < len(args) {
					for r := range e.rootsOf(args[ai], depth) {
						if ct.reader {
							r.Reader = true
						}
						if ct.unwrap {
							r.Reader = false
						}
						rs.add(r)
					}
				}
			}
			if len(ct.alias) == 0 || ct.reader {
				rs.add(Root{Kind: "fresh", Name: allocID(c)})
			}
			continue
		}
		if s := e.sums[callee]; s != nil {
			if idx < len(s.Results) {
				for r := range s.Results[idx] {
					switch r.Kind {
					case "param":
						if r.Idx < len(args) {
							for q := range e.rootsOf(args[r.Idx], depth) {
								if r.Reader {
									q.Reader = true
								}
								rs.add(q)
							}
						}
					case "fresh":
						rs.add(Root{Kind: "fresh", Name: allocID(c)})
					default:
						rs.add(r)
					}
				}
			}
			continue
		}
		if isPure(name) || callee.Blocks == nil && pureByPkg(callee) {
			rs.add(Root{Kind: "fresh", Name: allocID(c)})
			continue
		}
		rs.add(Root{Kind: "fresh", Name: allocID(c)})
		if pointerLike(c.Type()) {
			e.noteUnknown(name)
			// no contract and no body: the result may share memory with anything reachable
			// from a pointer-like argument
			for _, a := range args {
				if pointerLike(a.Type()) {
					rs.addAll(e.rootsOf(a, depth))
				}
			}
		}
	}
	if len(e.callees(c)) == 0 {
		rs.add(Root{Kind: "unknown"})
	}
	return rs
}

func pureByPkg(f *ssa.Function) bool {
	if f.Pkg == nil {
		return false
	}
	switch f.Pkg.Pkg.Path() {
	case "strconv", "strings", "unicode", "unicode/utf8", "math", "math/bits", "errors":
		return true
	}
	return false
}

func (e *Effects) noteUnknown(name string) {
	for _, u := range e.Unknown {
		if u == name {
			return
		}
	}
	e.Unknown = append(e.Unknown, name)
}

// callArgs returns the actual arguments including the receiver for invoke-mode calls.
func (e *Effects) callArgs(com *ssa.CallCommon) []ssa.Value {
	if com.IsInvoke() {
		return append([]ssa.Value{com.Value}, com.Args...)
	}
	return com.Args
}

// analyse (re)computes the summary of f; reports whether it changed.
func (e *Effects) analyse(f *ssa.Function) bool {
	s := e.sums[f]
	// invalidate cached roots of this function's call results (they depend on callee summaries)
	for _, v := range e.byFn[f] {
		delete(e.roots, v)
	}
	e.byFn[f] = nil
	for _, k := range e.contentKeys[f] {
		delete(e.contentCache, k)
	}
	e.contentKeys[f] = nil
	before := len(s.Mods) + len(s.Retains) + len(s.Ambient) + len(s.GlobalRd) + len(s.ReaderOps) + len(s.WriteOps) + len(s.Calls)
	for _, r := range s.Results {
		before += len(r)
	}
	fname := SSAFuncName(f)
	addMod := func(r Root, pos token.Pos, what string) {
		if r.Kind == "fresh" {
			return
		}
		if _, ok := s.Mods[r]; !ok {
			s.Mods[r] = ModSite{Root: r, Pos: pos, Fn: fname, What: what}
		}
	}
	addRetain := func(d, src Root, pos token.Pos) {
		if src.Kind == "fresh" || d.Kind == "fresh" && src.Kind == "fresh" {
			return
		}
		k := [2]Root{d, src}
		if _, ok := s.Retains[k]; !ok {
			s.Retains[k] = Retain{Dst: d, Src: src, Pos: pos, Fn: fname}
		}
	}
	nres := f.Signature.Results().Len()
	if len(s.Results) != nres {
		s.Results = make([]RootSet, nres)
		for i := range s.Results {
			s.Results[i] = RootSet{}
		}
	}
	for _, b := range f.Blocks {
		for _, ins := range b.Instrs {
			switch x := ins.(type) {
			case *ssa.Store:
				for r := range e.rootsOf(x.Addr, 0) {
					addMod(r, x.Pos(), "store")
					if pointerLike(x.Val.Type()) {
						for q := range e.deepRoots(x.Val, f) {
							addRetain(r, q, x.Pos())
						}
					}
				}
			case *ssa.MapUpdate:
				for r := range e.rootsOf(x.Map, 0) {
					addMod(r, x.Pos(), "map update")
					if pointerLike(x.Value.Type()) {
						for q := range e.deepRoots(x.Value, f) {
							addRetain(r, q, x.Pos())
						}
					}
				}
			case *ssa.Send:
				s.Ambient["channel send"] = x.Pos()
			case *ssa.Select:
				s.Ambient["select"] = x.Pos()
			case *ssa.Go:
				s.Ambient["go statement"] = x.Pos()
				e.applyCall(f, s, x, addMod, addRetain)
			case *ssa.Defer:
				e.applyCall(f, s, x, addMod, addRetain)
			case *ssa.Call:
				e.applyCall(f, s, x, addMod, addRetain)
			case *ssa.Range:
				if _, ok := x.X.Type().Underlying().(*types.Map); ok {
					s.Ambient["range over map"] = x.Pos()
				}
			case *ssa.UnOp:
				if x.Op == token.MUL {
					if g, ok := x.X.(*ssa.Global); ok && g.Pkg != nil && IsRepoPkg(g.Pkg.Pkg) {
						s.GlobalRd[relPkg(g.Pkg.Pkg)+"."+g.Name()] = x.Pos()
					}
				}
				if x.Op == token.ARROW {
					s.Ambient["channel receive"] = x.Pos()
				}
			case *ssa.Return:
				for i, rv := range x.Results {
					if pointerLike(rv.Type()) {
						for q := range e.deepRoots(rv, f) {
							s.Results[i].add(q)
						}
					}
				}
			}
			// reads of globals through address computations
			for _, op := range ins.Operands(nil) {
				if g, ok := (*op).(*ssa.Global); ok && g.Pkg != nil && IsRepoPkg(g.Pkg.Pkg) {
					if _, isStore := ins.(*ssa.Store); !isStore {
						s.GlobalRd[relPkg(g.Pkg.Pkg)+"."+g.Name()] = ins.Pos()
					}
				}
			}
		}
	}
	after := len(s.Mods) + len(s.Retains) + len(s.Ambient) + len(s.GlobalRd) + len(s.ReaderOps) + len(s.WriteOps) + len(s.Calls)
	for _, r := range s.Results {
		after += len(r)
	}
	return after != before
}

// deepRoots: roots of v plus, transitively, what fresh objects among them hold.
func (e *Effects) deepRoots(v ssa.Value, f *ssa.Function) RootSet {
	out := RootSet{}
	var work []Root
	for r := range e.rootsOf(v, 0) {
		if out.add(r) {
			work = append(work, r)
		}
	}
	for len(work) > 0 {
		r := work[len(work)-1]
		work = work[:len(work)-1]
		if r.Kind == "fresh" && strings.HasPrefix(r.Name, f.String()+"#") {
			for q := range e.contentOf(r.Name, f) {
				if out.add(q) {
					work = append(work, q)
				}
			}
		}
	}
	return out
}

func (e *Effects) applyCall(f *ssa.Function, s *FnSummary, site ssa.CallInstruction, addMod func(Root, token.Pos, string), addRetain func(Root, Root, token.Pos)) {
	com := site.Common()
	pos := site.Pos()
	if b, ok := com.Value.(*ssa.Builtin); ok {
		switch b.Name() {
		case "copy":
			for r := range e.rootsOf(com.Args[0], 0) {
				addMod(r, pos, "copy destination")
			}
		case "append":
			for r := range e.rootsOf(com.Args[0], 0) {
				addMod(r, pos, "append (may write in place)")
			}
		case "delete":
			for r := range e.rootsOf(com.Args[0], 0) {
				addMod(r, pos, "map delete")
			}
		case "panic":
			s.Ambient["panic"] = pos
		case "recover":
			s.Ambient["recover"] = pos
		}
		return
	}
	args := e.callArgs(com)
	callees := e.callees(site)
	if len(callees) == 0 {
		// dynamic call with no known target: conservatively writes everything it is given
		for _, a := range args {
			if pointerLike(a.Type()) {
				for r := range e.rootsOf(a, 0) {
					addMod(r, pos, "unresolved dynamic call")
				}
			}
		}
		e.noteUnknown("dynamic call in " + f.String())
		return
	}
	for _, callee := range callees {
		name := e.calleeName(callee)
		if !isRepoFunc(callee) {
			s.Calls[name] = pos
			if callee.Pkg != nil {
				switch callee.Pkg.Pkg.Path() {
				case "time":
					if callee.Name() == "Now" || callee.Name() == "Since" || callee.Name() == "Sleep" {
						s.Ambient["time."+callee.Name()] = pos
					}
				case "math/rand", "crypto/rand", "os", "runtime", "sync/atomic", "unsafe", "syscall":
					s.Ambient[callee.Pkg.Pkg.Path()+"."+callee.Name()] = pos
				}
			}
		}
		if ct, ok := effContracts[name]; ok {
			for _, wi := range ct.writes {
				if wi < len(args) {
					for r := range e.rootsOf(args[wi], 0) {
						if r.Reader && !ct.readerWrite {
							continue // advancing a reader does not write the bytes it wraps
						}
						if r.Reader {
							q := r
							q.Reader = false
							addMod(q, pos, name+" on a buffer wrapping this memory")
						} else {
							addMod(r, pos, name)
						}
						if k := name + "|" + r.String(); r.Kind != "fresh" {
							if _, ok := s.WriteOps[k]; !ok {
								s.WriteOps[k] = ModSite{Root: r, Pos: pos, Fn: SSAFuncName(f), What: name}
							}
						}
					}
				}
			}
			// record operations applied to reader-wrapped roots
			if len(args) > 0 {
				for r := range e.rootsOf(args[0], 0) {
					if r.Reader {
						k := name + "|" + r.String()
						if _, ok := s.ReaderOps[k]; !ok {
							s.ReaderOps[k] = ModSite{Root: r, Pos: pos, Fn: SSAFuncName(f), What: name}
						}
					}
				}
			}
			continue
		}
		if cs := e.sums[callee]; cs != nil {
			mapRoot := func(r Root) []Root {
				switch r.Kind {
				case "param":
					var out []Root
					if r.Idx < len(args) {
						for q := range e.rootsOf(args[r.Idx], 0) {
							if r.Reader {
								q.Reader = true
							}
							out = append(out, q)
						}
					}
					return out
				case "fresh":
					return nil
				case "freevar":
					// what a closure (or bound-method wrapper) reaches through its captured values is
					// what the function value called here was built from
					var out []Root
					if !com.IsInvoke() {
						for q := range e.rootsOf(com.Value, 0) {
							if q.Kind != "fresh" {
								out = append(out, q)
							}
						}
					}
					if len(out) == 0 {
						return []Root{r}
					}
					return out
				}
				return []Root{r}
			}
			for r, site := range cs.Mods {
				for _, q := range mapRoot(r) {
					if q.Kind == "fresh" {
						continue
					}
					if _, ok := s.Mods[q]; !ok {
						s.Mods[q] = ModSite{Root: q, Pos: site.Pos, Fn: site.Fn, What: site.What}
					}
				}
			}
			for k, rt := range cs.Retains {
				for _, d := range mapRoot(k[0]) {
					for _, q := range mapRoot(k[1]) {
						kk := [2]Root{d, q}
						if _, ok := s.Retains[kk]; !ok && q.Kind != "fresh" {
							s.Retains[kk] = Retain{Dst: d, Src: q, Pos: rt.Pos, Fn: rt.Fn}
						}
					}
				}
			}
			for k, p := range cs.Ambient {
				if _, ok := s.Ambient[k]; !ok {
					s.Ambient[k] = p
				}
			}
			for k, p := range cs.GlobalRd {
				if _, ok := s.GlobalRd[k]; !ok {
					s.GlobalRd[k] = p
				}
			}
			for k, p := range cs.Calls {
				if _, ok := s.Calls[k]; !ok {
					s.Calls[k] = p
				}
			}
			for k, op := range cs.WriteOps {
				parts := strings.SplitN(k, "|", 2)
				for _, q := range mapRoot(op.Root) {
					kk := parts[0] + "|" + q.String()
					if _, ok := s.WriteOps[kk]; !ok && q.Kind != "fresh" {
						s.WriteOps[kk] = ModSite{Root: q, Pos: op.Pos, Fn: op.Fn, What: op.What}
					}
				}
			}
			for k, op := range cs.ReaderOps {
				// re-key by mapped root
				parts := strings.SplitN(k, "|", 2)
				for _, q := range mapRoot(op.Root) {
					kk := parts[0] + "|" + q.String()
					if _, ok := s.ReaderOps[kk]; !ok {
						s.ReaderOps[kk] = ModSite{Root: q, Pos: op.Pos, Fn: op.Fn, What: op.What}
					}
				}
			}
			continue
		}
		if isPure(name) || pureByPkg(callee) {
			continue
		}
		// unknown external callee: assume it writes what it is given
		for _, a := range args {
			if pointerLike(a.Type()) {
				for r := range e.rootsOf(a, 0) {
					addMod(r, pos, "unmodelled callee "+name)
				}
			}
		}
		e.noteUnknown(name)
	}
}

// GlobalWrites lists every store whose address is rooted at a package-level variable, over
// all repository functions (not only reachable ones).
type GlobalWrite struct {
	Global string
	Fn     *ssa.Function
	Pos    token.Pos
	What   string
}

func (e *Effects) AllRepoFunctions() []*ssa.Function {
	var out []*ssa.Function
	for _, p := range e.w.Pkgs {
		sp := e.w.SSA[p]
		if sp == nil || strings.HasPrefix(relPkg(p.Types), "internal") {
			continue
		}
		for _, m := range sp.Members {
			switch x := m.(type) {
			case *ssa.Function:
				out = append(out, x)
				out = append(out, x.AnonFuncs...)
			case *ssa.Type:
				for _, t := range []types.Type{x.Type(), types.NewPointer(x.Type())} {
					ms := e.w.Prog.MethodSets.MethodSet(t)
					for i := 0; i < ms.Len(); i++ {
						if fn := e.w.Prog.MethodValue(ms.At(i)); fn != nil && fn.Pkg == sp && fn.Synthetic == "" {
							out = append(out, fn)
							out = append(out, fn.AnonFuncs...)
						}
					}
				}
			}
		}
	}
	// dedupe
	seen := map[*ssa.Function]bool{}
	var u []*ssa.Function
	for _, f := range out {
		if !seen[f] {
			seen[f] = true
			u = append(u, f)
		}
	}
	sort.Slice(u, func(i, j int) bool { return u[i].String() < u[j].String() })
	return u
}


// isRepoFunc: a function of this repository, or a synthetic wrapper (bound method, thunk,
// promoted-method wrapper) of one — the wrapper's body is analysed like any other.
func isRepoFunc(f *ssa.Function) bool {
	if f.Pkg != nil {
		return IsRepoPkg(f.Pkg.Pkg)
	}
	if o := f.Origin(); o != nil && o.Pkg != nil {
		return IsRepoPkg(o.Pkg.Pkg) // an instance of a generic function of this repository
	}
	if f.Synthetic != "" && f.Blocks != nil && f.Object() != nil && f.Object().Pkg() != nil {
		return IsRepoPkg(f.Object().Pkg())
	}
	return false
}
