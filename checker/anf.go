package main

// Algebraic normal form (Zhegalkin polynomials over GF(2)) of E2 bit terms.  The ANF is a
// canonical form, so two terms denote the same Boolean function iff their ANFs are equal.  It
// is used where a BDD is hopeless but the polynomial is small: the GF(2^64) multiplication of
// NIA1 is bilinear in its operands (at most 64*64 monomials per output bit).

import (
	"sort"
	"strconv"
	"strings"
)

type anfPoly map[string]struct{} // monomial: ascending variable ids joined by ','; "" is the constant 1

type anfCtx struct {
	vars  map[string]int
	memo  map[*Node]anfPoly
	limit int
	over  bool
	work  int // monomial operations so far (bounded by 100 x limit)
}

func (c *anfCtx) spend(n int) bool {
	c.work += n
	if c.work > 100*c.limit {
		c.over = true
	}
	return !c.over
}

func newANF(limit int) *anfCtx {
	return &anfCtx{vars: map[string]int{}, memo: map[*Node]anfPoly{}, limit: limit}
}

func (c *anfCtx) varID(k string) int {
	if i, ok := c.vars[k]; ok {
		return i
	}
	i := len(c.vars)
	c.vars[k] = i
	return i
}

func anfXor(a, b anfPoly) anfPoly {
	r := make(anfPoly, len(a)+len(b))
	for m := range a {
		r[m] = struct{}{}
	}
	for m := range b {
		if _, ok := r[m]; ok {
			delete(r, m)
		} else {
			r[m] = struct{}{}
		}
	}
	return r
}

func monoMul(a, b string) string {
	if a == "" {
		return b
	}
	if b == "" {
		return a
	}
	set := map[int]bool{}
	for _, s := range strings.Split(a, ",") {
		i, _ := strconv.Atoi(s)
		set[i] = true
	}
	for _, s := range strings.Split(b, ",") {
		i, _ := strconv.Atoi(s)
		set[i] = true
	}
	ids := make([]int, 0, len(set))
	for i := range set {
		ids = append(ids, i)
	}
	sort.Ints(ids)
	parts := make([]string, len(ids))
	for i, v := range ids {
		parts[i] = strconv.Itoa(v)
	}
	return strings.Join(parts, ",")
}

func (c *anfCtx) mul(a, b anfPoly) anfPoly {
	r := anfPoly{}
	if len(a)*len(b) > c.limit || !c.spend(len(a)*len(b)) {
		c.over = true
		return r
	}
	for x := range a {
		for y := range b {
			m := monoMul(x, y)
			if _, ok := r[m]; ok {
				delete(r, m)
			} else {
				r[m] = struct{}{}
			}
		}
	}
	return r
}

var anfOne = anfPoly{"": {}}

func (c *anfCtx) xor(a, b anfPoly) anfPoly {
	if !c.spend(len(a) + len(b)) {
		return anfPoly{}
	}
	return anfXor(a, b)
}

func (c *anfCtx) of(n *Node) (anfPoly, bool) {
	if r, ok := c.memo[n]; ok {
		return r, true
	}
	if c.over {
		return nil, false
	}
	var r anfPoly
	switch n.op {
	case opZero:
		r = anfPoly{}
	case opOne:
		r = anfOne
	case opSrc:
		r = anfPoly{strconv.Itoa(c.varID(srcKey(n.src, n.idx))): {}}
	case opTop, opApp:
		return nil, false
	case opNot:
		x, ok := c.of(n.a)
		if !ok {
			return nil, false
		}
		r = c.xor(x, anfOne)
	default:
		x, ok1 := c.of(n.a)
		y, ok2 := c.of(n.b)
		if !ok1 || !ok2 {
			return nil, false
		}
		switch n.op {
		case opAnd:
			r = c.mul(x, y)
		case opOr: // x|y = x^y^xy
			r = c.xor(c.xor(x, y), c.mul(x, y))
		case opXor:
			r = c.xor(x, y)
		case opMux: // c?x:y = y ^ c(x^y)
			cc, ok := c.of(n.c)
			if !ok {
				return nil, false
			}
			r = c.xor(y, c.mul(cc, c.xor(x, y)))
		}
	}
	if c.over || len(r) > c.limit {
		c.over = true
		return nil, false
	}
	c.memo[n] = r
	return r, true
}

func anfEqual(a, b anfPoly) bool {
	if len(a) != len(b) {
		return false
	}
	for m := range a {
		if _, ok := b[m]; !ok {
			return false
		}
	}
	return true
}

// EquivANF decides word equality through the canonical polynomial form.
func (t *TermTable) EquivANF(x, y BV, limit int) (eq, decided bool) {
	if x.W != y.W {
		return false, true
	}
	c := newANF(limit)
	eq = true
	for i := range x.B {
		px, ok1 := c.of(x.B[i])
		py, ok2 := c.of(y.B[i])
		if !ok1 || !ok2 {
			return false, false
		}
		if !anfEqual(px, py) {
			eq = false
		}
	}
	return eq, true
}
