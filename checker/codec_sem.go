package main

// Message codecs decided by evaluation (E2) at canonical wire images.
//
// For a message M of the frozen table (spec/ts24501_messages.json) and a choice of optional
// elements and lengths, the *wire image* is built from the table alone: mandatory elements in
// table order (V: value octets; LV / LV-E: length, value), then the chosen optional elements
// (TV1: identifier nibble + value nibble; TV: identifier + value; TLV / TLV-E: identifier, length,
// value).  Identifier, length and message-structure octets are concrete, every value octet is a
// distinct symbolic octet.  DecodeM is evaluated on the image into a zero message, EncodeM on the
// result into an empty buffer, and the obligations are
//
//	accept      the decoder returns a nil error on the image,
//	byte-exact  the encoder returns a nil error and writes the image back, octet for octet, for all
//	            values of the symbolic octets (this is C03's "byte-exact for canonical input"; and
//	            since the image comes from the table, a decoder/encoder pair that reproduces it
//	            frames every element as the table says),
//	bounds      with one element's length one below its minimum / one above its maximum the decoder
//	            returns a provably non-nil error,
//	last-wins   with one optional element given twice the message re-encodes to the image holding
//	            only the second occurrence.
//
// This does not depend on how the two functions are written, only on E2 being able to follow
// them.  It is used (a) in the thorough tier for every message, as a cross-check of the slot
// extractor E1, and (b) as the deciding rule for a message whose functions E1 cannot classify:
// when every image of that message is decided and agrees, the `codec.unclassified` findings of
// that message are withdrawn (the E1 rules that need the extracted slots have nothing to say
// about it; the images stand in for them at the lengths listed).

import (
	"fmt"
	"go/types"
	"strconv"
	"strings"
	"time"

	"golang.org/x/tools/go/ssa"
)

// imageBudget: wall-clock budget of one image evaluation (today's images take 2-3 ms each).  After
// imageLateMax evaluations ran out of it, the remaining images are reported undecided at once: a
// tree on which the codecs branch on unknown values at every statement is not evaluated for hours.
var imageBudget = 10 * time.Second
var imageLate = 0

const imageLateMax = 4

type imgElem struct {
	slot  SpecSlot
	l     int // value octets
	tag   string
	twice bool
}

type imgResult struct {
	what    string
	decided bool
	ok      bool
	why     string
}

func slotLens(s SpecSlot) []int {
	// the lengths the images use for a variable-length element: the smallest legal one and the next
	ls := s.LenSet()
	var out []int
	for _, iv := range ls.Iv {
		for v := iv[0]; v <= iv[1] && len(out) < 2; v++ {
			if v == 0 && len(out) == 0 && iv[1] > 0 && s.Format != "LV" && s.Format != "LV-E" && s.Format != "TLV" && s.Format != "TLV-E" {
				continue
			}
			out = append(out, v)
		}
		if len(out) >= 2 {
			break
		}
	}
	if len(out) == 0 {
		out = []int{s.Min}
	}
	return out
}

func ieiOf(s SpecSlot) (int, bool) {
	t := strings.TrimSuffix(strings.TrimPrefix(s.IEI, "0x"), "-")
	v, err := strconv.ParseInt(t, 16, 64)
	return int(v), err == nil
}

// buildImage lays the elements out; returns the octets.
func buildImage(it *Interp, name string, elems []imgElem) []BV {
	var out []BV
	sym := func(tag string, k int) BV { return it.SrcBV(fmt.Sprintf("%s.%s[%d]", name, tag, k), 8) }
	for _, e := range elems {
		s := e.slot
		iei, _ := ieiOf(s)
		switch s.Format {
		case "V":
			for k := 0; k < e.l; k++ {
				out = append(out, sym(e.tag, k))
			}
		case "LV":
			out = append(out, it.constBV(uint64(e.l), 8))
			for k := 0; k < e.l; k++ {
				out = append(out, sym(e.tag, k))
			}
		case "LV-E":
			out = append(out, it.constBV(uint64(e.l>>8), 8), it.constBV(uint64(e.l&255), 8))
			for k := 0; k < e.l; k++ {
				out = append(out, sym(e.tag, k))
			}
		case "TV1":
			v := sym(e.tag, 0)
			o := BV{W: 8, B: make([]*Node, 8)}
			for b := 0; b < 4; b++ {
				o.B[b] = v.B[b]
				o.B[4+b] = it.T.Const(iei>>b&1 == 1)
			}
			out = append(out, o)
		case "TV":
			out = append(out, it.constBV(uint64(iei), 8))
			for k := 0; k < e.l; k++ {
				out = append(out, sym(e.tag, k))
			}
		case "T":
			out = append(out, it.constBV(uint64(iei), 8))
		case "TLV":
			out = append(out, it.constBV(uint64(iei), 8), it.constBV(uint64(e.l), 8))
			for k := 0; k < e.l; k++ {
				out = append(out, sym(e.tag, k))
			}
		case "TLV-E":
			out = append(out, it.constBV(uint64(iei), 8), it.constBV(uint64(e.l>>8), 8), it.constBV(uint64(e.l&255), 8))
			for k := 0; k < e.l; k++ {
				out = append(out, sym(e.tag, k))
			}
		}
	}
	return out
}

// snapshotMsg flattens the decoded message (through its element pointers and octet strings) into
// path -> value, so that two decodes can be compared field by field.
func snapshotMsg(it *Interp, st *state, o *MemObj, prefix string, out map[string]Value, depth int) {
	if depth > 4 {
		return
	}
	for k, v := range st.mem[o] {
		switch x := v.(type) {
		case Ptr:
			if x.Obj != nil && x.Path == "" {
				snapshotMsg(it, st, x.Obj, prefix+k+"->", out, depth+1)
			} else {
				out[prefix+k] = "ptr"
			}
		case SliceV:
			if x.Nil {
				out[prefix+k+".len"] = it.constBV(0, 64)
				continue
			}
			out[prefix+k+".len"] = it.constBV(uint64(x.Len), 64)
			for i := 0; i < x.Len && i < 4096; i++ {
				out[fmt.Sprintf("%s%s[%d]", prefix, k, i)] = it.load(st, it.sliceElemPtr(x, i), u8T)
			}
		default:
			out[prefix+k] = v
		}
	}
}

func sameSnapshot(it *Interp, a, b map[string]Value) (bool, string) {
	for k, va := range a {
		vb, ok := b[k]
		if !ok {
			return false, "field " + k + " is set only in one of the two"
		}
		ba, isA := va.(BV)
		bb, isB := vb.(BV)
		if isA && isB {
			if same, _ := sameBV(it, ba, bb); !same {
				return false, "field " + k + " differs"
			}
			continue
		}
		if _, n1 := va.(NilV); n1 {
			if _, n2 := vb.(NilV); !n2 {
				return false, "field " + k + " is nil only in one of the two"
			}
		}
	}
	for k := range b {
		if _, ok := a[k]; !ok {
			return false, "field " + k + " is set only in one of the two"
		}
	}
	return true, ""
}

// runImage: decode the image, re-encode, compare with `want` (the image itself unless given).
func runImage(w *World, c *Codec, img, want []BV, it *Interp, expectReject bool) (decided, ok bool, why string) {
	d, o, y, _ := runImageSnap(w, c, img, want, it, expectReject)
	return d, o, y
}

func runImageSnap(w *World, c *Codec, img, want []BV, it *Interp, expectReject bool) (decided, ok bool, why string, snap map[string]Value) {
	dec, enc := w.SSAFunc(c.DecObj), w.SSAFunc(c.EncObj)
	if dec == nil || enc == nil {
		return false, false, "codec functions not resolvable", snap
	}
	st := it.NewState()
	seedIOErrors(it, st)
	data := it.NewObj("image", false)
	st.mem[data] = map[string]Value{}
	for i, b := range img {
		st.mem[data][fmt.Sprintf("[%d]", i)] = b
	}
	in := it.NewObj("in", false)
	st.mem[in] = map[string]Value{"": SliceV{Obj: data, Len: len(img)}}
	mo := it.NewObj("m", false)
	st.mem[mo] = map[string]Value{}
	if z, isAgg := it.zeroValue(c.Named).(AggV); isAgg {
		for k, v := range z.Cells {
			st.mem[mo][k] = v
		}
	} else {
		return false, false, "message type has no zero value in the interpreter", snap
	}
	res := it.Call(dec, []Value{Ptr{Obj: mo}, Ptr{Obj: in}}, st, 0)
	if len(it.Unsup) > 0 {
		return false, false, "decoder: " + strings.Join(it.Unsup, "; "), snap
	}
	n1, okE := it.errNil(res)
	if !okE {
		return false, false, "decoder result is not an error value", snap
	}
	if expectReject {
		if n1 == it.T.zero {
			return true, true, "", snap
		}
		return true, false, "the decoder does not reject it with an error", snap
	}
	if n1 != it.T.one {
		if n1 == it.T.zero {
			return true, false, "the decoder rejects the image", snap
		}
		return true, false, "the decoder rejects the image for some values of its octets", snap
	}
	snap = map[string]Value{}
	snapshotMsg(it, st, mo, "", snap, 0)
	bo := it.NewObj("out", false)
	bk := it.NewObj("outdata", false)
	st.mem[bk] = map[string]Value{}
	st.mem[bo] = map[string]Value{".data": SliceV{Obj: bk, Len: 0}, ".pos": it.constBV(0, 64)}
	res2 := it.Call(enc, []Value{Ptr{Obj: mo}, Ptr{Obj: bo}}, st, 0)
	if len(it.Unsup) > 0 {
		return false, false, "encoder: " + strings.Join(it.Unsup, "; "), snap
	}
	if n2, okE2 := it.errNil(res2); !okE2 || n2 != it.T.one {
		return true, false, "the encoder returns an error for the decoded message", snap
	}
	outS, _ := st.mem[bo][".data"].(SliceV)
	got, okB := sliceBytes(it, st, outS)
	if !okB {
		return false, false, "encoder output not resolvable", snap
	}
	if len(got) != len(want) {
		return true, false, fmt.Sprintf("%d octets re-encoded, the image has %d", len(got), len(want)), snap
	}
	for i := range want {
		if same, m := sameBV(it, got[i], want[i]); !same {
			return true, false, fmt.Sprintf("re-encoded octet %d differs from the image: %s", i, m), snap
		}
	}
	return true, true, "", snap
}

// semCodecImages evaluates the images of one message.
func semCodecImages(w *World, c *Codec, sm *SpecMessage, full bool) []imgResult {
	var mand, opt []SpecSlot
	for _, s := range sm.Slots {
		if s.Presence == "M" {
			mand = append(mand, s)
		} else {
			opt = append(opt, s)
		}
	}
	newIt := func() *Interp {
		it := NewInterp(w)
		it.Fuel = 400000
		it.CheckBounds = true
		it.Deadline = time.Now().Add(imageBudget)
		readerModels(it)
		return it
	}
	mandElems := func(pick int) []imgElem {
		var out []imgElem
		for _, s := range mand {
			ls := slotLens(s)
			l := ls[0]
			if pick < len(ls) {
				l = ls[pick]
			}
			if s.Format == "V" {
				l = s.Max
			}
			out = append(out, imgElem{slot: s, l: l, tag: s.IE})
		}
		return out
	}
	optElem := func(s SpecSlot, pick int, tag string) imgElem {
		ls := slotLens(s)
		l := ls[0]
		if pick < len(ls) {
			l = ls[pick]
		}
		if s.Format == "TV" {
			l = s.Max
		}
		if s.Format == "TV1" || s.Format == "T" {
			l = 0
		}
		return imgElem{slot: s, l: l, tag: tag}
	}
	var res []imgResult
	run := func(what string, elems, wantElems []imgElem, reject bool) {
		if imageLate >= imageLateMax {
			res = append(res, imgResult{what: what, decided: false, ok: false, why: "not evaluated: earlier image evaluations of this tree ran out of their time budget"})
			return
		}
		it := newIt()
		defer func() {
			if it.late {
				imageLate++
			}
		}()
		img := buildImage(it, c.Name, elems)
		want := img
		if wantElems != nil {
			want = buildImage(it, c.Name, wantElems)
		}
		d, ok, why, snap := runImageSnap(w, c, img, want, it, reject)
		if d && ok && wantElems != nil {
			// the message decoded from the longer image must be, field by field, the message decoded
			// from the image it is supposed to be equivalent to (nothing of the dropped occurrence survives)
			d2, ok2, why2, ref := runImageSnap(w, c, want, want, it, false)
			if !d2 {
				d, why = false, "reference decode: "+why2
			} else if !ok2 {
				ok, why = false, "reference decode: "+why2
			} else if same, m := sameSnapshot(it, snap, ref); !same {
				ok, why = false, "the decoded message is not the one decoded from the last occurrence alone: "+m
			}
		}
		res = append(res, imgResult{what: what, decided: d, ok: ok, why: why})
	}
	// mandatory part only, at the two smallest lengths
	run("mandatory elements only", mandElems(0), nil, false)
	if full {
		run("mandatory elements only, second length", mandElems(1), nil, false)
	}
	// every optional element present, table order
	if len(opt) > 0 {
		all := mandElems(0)
		for _, s := range opt {
			all = append(all, optElem(s, 0, s.IE))
		}
		run("every optional element present", all, nil, false)
	}
	if full {
		for _, s := range opt {
			e := append(mandElems(0), optElem(s, 1, s.IE))
			run("only "+s.IE+" (second length)", e, nil, false)
		}
	}
	// length bounds of each variable-length element
	for i, s := range sm.Slots {
		if s.Format == "V" || s.Format == "TV" || s.Format == "TV1" || s.Format == "T" {
			continue
		}
		if !full && i > 0 && len(res) > 6 {
			break
		}
		limit := 255
		if strings.HasSuffix(s.Format, "-E") {
			limit = 65535
		}
		for _, l := range []int{s.Min - 1, s.Max + 1} {
			if l < 0 || l > limit || l > 2100 {
				continue
			}
			var e []imgElem
			if s.Presence == "M" {
				for _, m := range mandElems(0) {
					if m.slot.IE == s.IE {
						m.l = l
					}
					e = append(e, m)
				}
			} else {
				o := optElem(s, 0, s.IE)
				o.l = l
				e = append(mandElems(0), o)
			}
			run(fmt.Sprintf("%s with %d value octets (table: %d..%d)", s.IE, l, s.Min, s.Max), e, nil, true)
		}
	}
	// an optional element given twice: the second occurrence is what the message holds — also when
	// the second is shorter than the first (nothing of the first may survive)
	ntw := 0
	for _, s := range opt {
		if s.Format != "TLV" && s.Format != "TLV-E" && s.Format != "TV" {
			continue
		}
		first, second := optElem(s, 0, s.IE+"#1"), optElem(s, 0, s.IE+"#2")
		run(s.IE+" given twice", append(append(mandElems(0), first), second), append(mandElems(0), second), false)
		if ls := slotLens(s); len(ls) > 1 && s.Format != "TV" {
			long := optElem(s, 1, s.IE+"#1")
			run(s.IE+" given twice, the second shorter", append(append(mandElems(0), long), second), append(mandElems(0), second), false)
		}
		ntw++
		if !full && ntw >= 1 {
			break
		}
	}
	// a length inside the table's range that the table's set does not contain (e.g. PDU address: 5, 9, 13)
	for _, s := range sm.Slots {
		if s.Lens == "" {
			continue
		}
		set := s.LenSet()
		for l := s.Min; l <= s.Max; l++ {
			in := false
			for _, iv := range set.Iv {
				if l >= iv[0] && l <= iv[1] {
					in = true
				}
			}
			if in {
				continue
			}
			var e []imgElem
			if s.Presence == "M" {
				for _, m := range mandElems(0) {
					if m.slot.IE == s.IE {
						m.l = l
					}
					e = append(e, m)
				}
			} else {
				o := optElem(s, 0, s.IE)
				o.l = l
				e = append(mandElems(0), o)
			}
			run(fmt.Sprintf("%s with %d value octets (table: %s)", s.IE, l, s.Lens), e, nil, true)
			break
		}
	}
	// truncation: the image cut one octet before its end, for every element with a value part
	ntr := 0
	for _, s := range sm.Slots {
		if s.Format == "TV1" || s.Format == "T" {
			continue
		}
		var e []imgElem
		// the elements take their second legal length where they have one: a value of at least two
		// octets cut by one still has octets to deliver, which is what tells a read that insists on all
		// of them from one that is content with some
		if s.Presence == "M" {
			// cut inside this mandatory element: drop everything after it
			for _, m := range mandElems(1) {
				e = append(e, m)
				if m.slot.IE == s.IE {
					break
				}
			}
			if len(e) > 0 && e[len(e)-1].l == 0 {
				continue
			}
		} else {
			o := optElem(s, 1, s.IE)
			if o.l == 0 {
				continue
			}
			e = append(mandElems(0), o)
		}
		if imageLate >= imageLateMax {
			res = append(res, imgResult{what: "input cut one octet before the end of " + s.IE, decided: false, ok: false, why: "not evaluated: earlier image evaluations of this tree ran out of their time budget"})
			continue
		}
		it := newIt()
		img := buildImage(it, c.Name, e)
		if len(img) < 2 {
			continue
		}
		d, ok, why := runImage(w, c, img[:len(img)-1], nil, it, true)
		if it.late {
			imageLate++
		}
		res = append(res, imgResult{what: "input cut one octet before the end of " + s.IE, decided: d, ok: ok, why: why})
		ntr++
		if !full && ntr >= 3 {
			break
		}
	}
	return res
}

// checkCodecImages: the rule codec.image for the given messages.  Returns, per message, whether
// every image was decided and agreed.
func checkCodecImages(w *World, r *Report, cs *CodecSet, spec *SpecMessages, only map[string]bool, full bool) map[string]bool {
	good := map[string]bool{}
	for i := range spec.Messages {
		sm := &spec.Messages[i]
		c := cs.ByName[sm.Name]
		if c == nil || c.EncObj == nil || c.DecObj == nil || (only != nil && !only[sm.Name]) {
			continue
		}
		all := true
		for _, x := range semCodecImages(w, c, sm, full) {
			r.Site("codec.image")
			switch {
			case !x.decided:
				all = false
				r.Fail("codec.image", "nasMessage."+c.Name, x.what, c.DecDecl.Pos(), "image not decided by evaluation ("+x.what+"): "+x.why, nil)
			case !x.ok:
				all = false
				r.Fail("codec.image", "nasMessage."+c.Name, x.what, c.DecDecl.Pos(), "the codec does not reproduce the table's wire image ("+x.what+"): "+x.why, nil)
			default:
				r.OK("codec.image")
			}
		}
		good[sm.Name] = all
	}
	return good
}

var _ = types.Typ
var _ ssa.Value
