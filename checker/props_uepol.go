package main

// C18 — UE policy container: totality (E3) of the message decoder and of every nested
// UnmarshalBinary / parse function, lengths recomputed on marshal (SSA rule), PLMN digit order
// (E2, sibling cross-check).

import (
	"fmt"
	"go/token"
	"go/types"
	"sort"
	"strings"

	"golang.org/x/tools/go/ssa"
)

func init() {
	register("C18", func(w *World, r *Report, tier string) {
		propC18(w, r, tier)
		importStateless(w, r, tier, []string{"uePolicyContainer/"}, "UE policy codec")
	})
}

func uePolEntries(w *World, r *Report) []entrySpec {
	p := w.Pkg("uePolicyContainer")
	var entries []entrySpec
	var names []string
	seen := map[string]*types.Func{}
	for _, fd := range w.FuncDecls(p) {
		n := fd.Obj.Name()
		if n == "UnmarshalBinary" || n == "UePolDeliverySerDecode" || strings.HasPrefix(n, "Decode") || strings.HasPrefix(n, "parse") {
			k := FuncName(fd.Obj)
			seen[k] = fd.Obj
			names = append(names, k)
		}
	}
	sort.Strings(names)
	for _, k := range names {
		f := seen[k]
		entries = append(entries, entrySpec{Fn: f, Name: k, Args: func(sa *Safe, fr *frame, st *State, fn *ssa.Function) []AVal {
			var args []AVal
			for i, prm := range fn.Params {
				if i == 0 && fn.Signature.Recv() != nil {
					args = append(args, nonNilPtrArg(sa, fr, st, prm.Type(), prm.Name()))
					continue
				}
				if isReaderType(prm.Type()) {
					// a non-nil buffer of unknown remaining length
					a := nonNilPtrArg(sa, fr, st, prm.Type(), prm.Name())
					args = append(args, a)
					continue
				}
				args = append(args, anyArg(sa, fr, st, prm.Type(), prm.Name()))
			}
			return args
		}})
	}
	return entries
}

func propC18(w *World, r *Report, tier string) {
	r.Explanation = "Totality: abstract interpretation (E3) of UePolDeliverySerDecode, the three message decoders and every nested UnmarshalBinary / parse* function of " +
		"uePolicyContainer, each entered with arbitrary bytes (or a non-nil buffer of unknown contents): Buffer.Next(n) needs n >= 0 (with wrap-around of Len-k " +
		"tracked), slices after make(Len), nil receivers, all loops ranked. Lengths recomputed on marshal: every length written by a MarshalBinary is derived from " +
		"the bytes written next (SSA rule). PLMN: the digit packing of SetPlmnDigit / parseUEPlc* is compared with nasConvert.PlmnIDToNas (E2 digit provenance)."
	r.Assumptions = []string{"arbitrary input bytes; non-nil receivers and buffers", "stdlib contracts of checker/safe_calls.go"}
	r.Trusted = []string{"go/ssa", "stdlib contracts", "prove() fragment"}
	entries := uePolEntries(w, r)
	sa := runEntries(w, r, entries)
	sa.report(r, "C18")
	r.Expect("safe.entries", 12)
	r.Extra["entry_points"] = len(entries)
	serialiserRuns(w, r, "uePolicyContainer", func(f *types.Func) bool {
		return f.Name() == "MarshalBinary" || strings.HasPrefix(f.Name(), "Encode") || f.Name() == "UePolDeliverySerEncode"
	})
	r.Expect("seq.len-covers", 1)
	uePolPairs := [][2]string{
		{"Instruction.MarshalBinary", "parseInstruction"},
		{"UEPolicyPart.MarshalBinary", "parseUEPolicyPart"},
		{"UEPolicySectionManagementSubList.MarshalBinary", "parseUEPlcSublist"},
		{"UEPolicySectionManagementSubResult.MarshalBinary", "parseUEPlcSubResult"},
		{"Result.MarshalBinary", "parseResult"},
		{"UEPolicySectionManagementList.MarshalBinary", "UEPolicySectionManagementList.UnmarshalBinary"},
		{"UEPolicySectionManagementResult.MarshalBinary", "UEPolicySectionManagementResult.UnmarshalBinary"},
	}
	semOK := checkPairRoundTrips(w, r, "uePolicyContainer", uePolPairs)
	for _, pr := range uePolPairs {
		seqDual(w, r, "uePolicyContainer", pr[0], pr[1], semOK[pr[0]])
	}
	checkParserSeqRules(w, r, "uePolicyContainer", nil)
	r.Expect("seq.fresh-elem", 1)
	checkSerialiserLoops(w, r, "uePolicyContainer", func(fn *ssa.Function) bool {
		return fn.Name() == "MarshalBinary" || strings.HasPrefix(fn.Name(), "Encode")
	})
	r.Expect("seq.all-items", 1)
	checkUePolShapes(w, r)
	checkUePolMessages(w, r)
	checkPointerFieldWrites(w, r, "uePolicyContainer")
	checkFreshDecodeTargets(w, r, "uePolicyContainer", "UePolDeliverySer.UePolDeliverySerDecode")
	r.Expect("dec.fresh-target", 1)
	// PLMN octets of the section-management sublists: same TS 24.008 digit order as every other PLMN encoder
	checkPlmnEncoders(w, r, map[string]bool{"uePolicyContainer.SubList": true, "uePolicyContainer.SubResult": true})
	lenFromContent(w, r, "uePolicyContainer", func(name string) bool {
		return strings.Contains(name, "MarshalBinary") || strings.HasPrefix(name, "Encode")
	}, []string{
		"UePolicyContainer_Instruction.go", "UePolicyContainer_UEPolicyParts.go", "UePolicyContainer_UEPolicySectionManagementSubList.go",
		"UePolicyContainer_UEPolicySectionManagementSubResult.go", "UePolicyContainer_UEPolicySectionManagementList.go", "UePolicyContainer_UEPolicySectionManagementResult.go",
		"UePolicyContainer_Result.go", "UePolicyContainer_ManageUEPolicyCommand.go", "UePolicyContainer_ManageUEPolicyComplete.go", "UePolicyContainer_ManageUEPolicyReject.go"})
}

// serialiserRuns analyses every selected serialiser with E3 in "write-log" mode and reports the
// length-covers obligations (panic obligations of serialisers are not part of these properties).
func serialiserRuns(w *World, r *Report, rel string, sel func(*types.Func) bool) {
	p := w.Pkg(rel)
	var entries []entrySpec
	for _, fd := range w.FuncDecls(p) {
		if !sel(fd.Obj) {
			continue
		}
		f := fd.Obj
		entries = append(entries, entrySpec{Fn: f, Name: FuncName(f), Args: func(sa *Safe, fr *frame, st *State, fn *ssa.Function) []AVal {
			var args []AVal
			for i, prm := range fn.Params {
				if i == 0 && fn.Signature.Recv() != nil {
					// element carriers with (Len, Buffer): well-formedness premise len(Buffer) == Len
					args = append(args, ieArg(sa, fr, st, prm.Type(), prm.Name()))
				} else if isReaderType(prm.Type()) {
					a := nonNilPtrArg(sa, fr, st, prm.Type(), prm.Name())
					args = append(args, a)
				} else {
					args = append(args, anyArg(sa, fr, st, prm.Type(), prm.Name()))
				}
			}
			return args
		}})
	}
	sa := NewSafe(w)
	sa.LenRule, sa.Quiet = true, true
	for _, e := range entries {
		fn := w.SSAFunc(e.Fn)
		if fn == nil {
			continue
		}
		sa.entry = e.Name
		root := sa.newFrame(fn, 0)
		st := newState(sa.u)
		root.at(nil)
		args := e.Args(sa, root, st, fn)
		sa.stack = []*ssa.Function{fn}
		sa.analyzeFunc(root, args, st)
		r.Site("seq.serialisers")
	}
	keys := append([]string{}, sa.order...)
	sort.Strings(keys)
	for _, k := range keys {
		o := sa.Obls[k]
		if o.Rule != "seq.len-covers" {
			continue
		}
		r.Site("seq.len-covers")
		if o.OK {
			r.OK("seq.len-covers")
			if len(r.Samples) < 16 {
				r.Sample(map[string]any{"rule": "seq.len-covers", "func": o.Fn, "construct": o.What})
			}
		} else {
			r.Fail("seq.len-covers", o.Fn, o.What, o.Pos, o.Detail, nil)
		}
	}
}

// fieldSeq lists, in program order, the struct fields a function serialises (binary.Write data)
// or parses (binary.Read targets). Only named fields are listed.
func fieldSeq(fn *ssa.Function, write bool) []string {
	var out []string
	if fn == nil {
		return nil
	}
	fieldOf := func(v ssa.Value) string {
		for depth := 0; depth < 8; depth++ {
			switch x := v.(type) {
			case *ssa.MakeInterface:
				v = x.X
			case *ssa.Convert:
				v = x.X
			case *ssa.ChangeType:
				v = x.X
			case *ssa.UnOp:
				if x.Op != token.MUL {
					return ""
				}
				v = x.X
			case *ssa.Slice:
				v = x.X
			case *ssa.FieldAddr:
				st := x.X.Type().Underlying().(*types.Pointer).Elem().Underlying().(*types.Struct)
				return st.Field(x.Field).Name()
			case *ssa.Field:
				st := x.X.Type().Underlying().(*types.Struct)
				return st.Field(x.Field).Name()
			default:
				return ""
			}
		}
		return ""
	}
	for _, b := range fn.Blocks {
		for _, ins := range b.Instrs {
			c, ok := ins.(*ssa.Call)
			if !ok || c.Call.StaticCallee() == nil {
				continue
			}
			switch c.Call.StaticCallee().String() {
			case "encoding/binary.Write":
				if write {
					if f := fieldOf(c.Call.Args[2]); f != "" {
						out = append(out, f)
					}
				}
			case "encoding/binary.Read":
				if !write {
					if f := fieldOf(c.Call.Args[2]); f != "" {
						out = append(out, f)
					}
				}
			}
		}
	}
	return out
}

// seqDual: the named fields written by the serialiser are exactly the named fields read by the
// parser, in the same order.
func seqDual(w *World, r *Report, rel, ser, par string, semOK bool) {
	fs, fp := w.LookupFunc(rel, ser), w.LookupFunc(rel, par)
	if fs == nil || fp == nil {
		r.Fail("anchor", rel+"."+ser+" / "+par, "missing", token.NoPos, "serialiser/parser pair not found", nil)
		return
	}
	r.Site("seq.dual")
	a, b := fieldSeq(w.SSAFunc(fs), true), fieldSeq(w.SSAFunc(fp), false)
	if semOK && (len(a) == 0 || len(b) == 0 || len(a) != len(b)) {
		// the pair is not written with binary.Write / binary.Read field by field: the call-shape rule
		// has nothing to compare; pair.roundtrip has decided the pair by evaluation
		r.OK("seq.dual")
		r.Note("seq.dual %s / %s: call shapes not comparable (%v vs %v); decided by pair.roundtrip", ser, par, a, b)
	} else if strings.Join(a, ",") != strings.Join(b, ",") || len(a) == 0 {
		r.Fail("seq.dual", FuncName(fs), "vs "+par, fs.Pos(), "serialiser writes fields ["+strings.Join(a, ", ")+"] but the parser reads ["+strings.Join(b, ", ")+"]", nil)
	} else {
		r.OK("seq.dual")
		if len(r.Samples) < 18 {
			r.Sample(map[string]any{"rule": "seq.dual", "serialiser": FuncName(fs), "parser": FuncName(fp), "fields": a})
		}
	}
}

// checkUePolShapes (walk.uepol): the section-management list parser interpreted by E2 (buffer
// reader models) on inputs with concrete length / PLMN / type octets and symbolic UPSCs and part
// contents returns exactly the nested structure laid out in the octets: sublists, their
// instructions and their policy parts, each with the lengths, codes and contents at the offsets
// the layout (TS 24.501 Annex D.6.2) assigns.
func checkUePolShapes(w *World, r *Report) {
	f := w.LookupFunc("uePolicyContainer", "UEPolicySectionManagementListContent.UnmarshalBinary")
	if f == nil {
		r.Fail("anchor", "uePolicyContainer.UEPolicySectionManagementListContent.UnmarshalBinary", "missing", token.NoPos, "parser not found", nil)
		return
	}
	fname := FuncName(f)
	// a shape: sublists -> instructions -> part content lengths
	shapes := [][][][]int{
		{{{2}}},
		{{{1}, {3, 0}}},
		{{{2}}, {{1}}},
		{{{0}}, {{1}, {1}}, {{2, 2}}},
		{{}, {{4}}},
		{{{1, 1, 1}}, {}},
		// instructions without a UE policy part (a bare instruction is a complete one: length 2, UPSC)
		{{{}}},
		{{{1}, {}}},
		{{{}, {2}}, {{}}},
	}
	u16 := func(it *Interp, v int) []BV { return []BV{it.constBV(uint64(v>>8), 8), it.constBV(uint64(v&0xff), 8)} }
	for _, shape := range shapes {
		r.Site("walk.uepol")
		it := NewInterp(w)
		it.Fuel = 300000
		it.UseInitValues = true
		readerModels(it)
		st := it.NewState()
		seedIOErrors(it, st)
		bo := it.NewObj("in", true)
		st.mem[bo] = map[string]Value{}
		off := 0
		put := func(bs ...BV) {
			for _, b := range bs {
				st.mem[bo][fmt.Sprintf("[%d]", off)] = b
				off++
			}
		}
		sym := func() BV { // leave the cell symbolic (lazy source in[off])
			b := it.SrcBV(fmt.Sprintf("in[%d]", off), 8)
			off++
			return b
		}
		type partW struct {
			length int
			cont   []BV
		}
		type instrW struct {
			length int
			upsc   BV
			parts  []partW
		}
		type subW struct {
			length int
			instrs []instrW
		}
		var want []subW
		for _, sub := range shape {
			slen := 3
			for _, ins := range sub {
				ilen := 2
				for _, pl := range ins {
					ilen += 2 + 1 + pl
				}
				slen += 2 + ilen
			}
			sw := subW{length: slen}
			put(u16(it, slen)...)
			put(it.constBV(0x02, 8), it.constBV(0xf8, 8), it.constBV(0x39, 8))
			for _, ins := range sub {
				ilen := 2
				for _, pl := range ins {
					ilen += 2 + 1 + pl
				}
				iw := instrW{length: ilen}
				put(u16(it, ilen)...)
				hi, lo := sym(), sym()
				iw.upsc = bvCat(hi, lo)
				for _, pl := range ins {
					pw := partW{length: 1 + pl}
					put(u16(it, 1+pl)...)
					put(it.constBV(0x01, 8))
					for k := 0; k < pl; k++ {
						pw.cont = append(pw.cont, sym())
					}
					iw.parts = append(iw.parts, pw)
				}
				sw.instrs = append(sw.instrs, iw)
			}
			want = append(want, sw)
		}
		ro, recv := it.SymbolicObj("list")
		st.mem[ro] = map[string]Value{"": SliceV{Nil: true, Len: 0}}
		res := it.Call(w.SSAFunc(f), []Value{recv, SliceV{Obj: bo, Len: off}}, st, 0)
		what := fmt.Sprintf("sublists/instructions/part content lengths %v", shape)
		good, why := true, ""
		if len(it.Unsup) > 0 {
			good, why = false, fmt.Sprintf("undecided: %v", it.Unsup)
		}
		if _, isNil := res.(NilV); good && !isNil {
			good, why = false, fmt.Sprintf("a well-formed list is rejected (%T)", res)
		}
		sliceAt := func(o *MemObj, path string) (SliceV, int) {
			s, _ := st.mem[o][path].(SliceV)
			n := s.Len
			if s.Nil || s.Obj == nil {
				n = 0
			}
			return s, n
		}
		word := func(o *MemObj, path string, wd int) BV {
			v, _ := st.mem[o][path].(BV)
			if v.W != wd {
				return it.topBV(wd)
			}
			return v
		}
		if good {
			subs, n := sliceAt(ro, "")
			if n != len(want) {
				good, why = false, fmt.Sprintf("%d sublists returned, the octets hold %d", n, len(want))
			}
			for si := 0; good && si < len(want); si++ {
				sp := fmt.Sprintf("%s[%d]", subs.Path, subs.Lo+si)
				if ok, m := sameBV(it, word(subs.Obj, sp+".Len", 16), it.constBV(uint64(want[si].length), 16)); !ok {
					good, why = false, fmt.Sprintf("sublist %d length: %s", si, m)
					break
				}
				ins, ni := sliceAt(subs.Obj, sp+".UEPolicySectionManagementSubListContents")
				if ni != len(want[si].instrs) {
					good, why = false, fmt.Sprintf("sublist %d: %d instructions returned, the octets hold %d", si, ni, len(want[si].instrs))
					break
				}
				for ii := 0; good && ii < ni; ii++ {
					ip := fmt.Sprintf("%s[%d]", ins.Path, ins.Lo+ii)
					wi := want[si].instrs[ii]
					if ok, m := sameBV(it, word(ins.Obj, ip+".Len", 16), it.constBV(uint64(wi.length), 16)); !ok {
						good, why = false, fmt.Sprintf("sublist %d instruction %d length: %s", si, ii, m)
						break
					}
					if ok, m := sameBV(it, word(ins.Obj, ip+".Upsc", 16), wi.upsc); !ok {
						good, why = false, fmt.Sprintf("sublist %d instruction %d UPSC: %s", si, ii, m)
						break
					}
					parts, np := sliceAt(ins.Obj, ip+".UEPolicySectionContents")
					if np != len(wi.parts) {
						good, why = false, fmt.Sprintf("sublist %d instruction %d: %d policy parts returned, the octets hold %d", si, ii, np, len(wi.parts))
						break
					}
					for pi := 0; good && pi < np; pi++ {
						pp := fmt.Sprintf("%s[%d]", parts.Path, parts.Lo+pi)
						if ok, m := sameBV(it, word(parts.Obj, pp+".Len", 16), it.constBV(uint64(wi.parts[pi].length), 16)); !ok {
							good, why = false, fmt.Sprintf("policy part %d/%d/%d length: %s", si, ii, pi, m)
							break
						}
						cs, _ := st.mem[parts.Obj][pp+".UEPolicyPartContents"].(SliceV)
						bs, okb := sliceBytes(it, st, cs)
						if !okb || len(bs) != len(wi.parts[pi].cont) {
							good, why = false, fmt.Sprintf("policy part %d/%d/%d contents are not %d octets", si, ii, pi, len(wi.parts[pi].cont))
							break
						}
						for k := range bs {
							if ok, m := sameBV(it, bs[k], wi.parts[pi].cont[k]); !ok {
								good, why = false, fmt.Sprintf("policy part %d/%d/%d content octet %d: %s", si, ii, pi, k, m)
								break
							}
						}
					}
				}
			}
		}
		if good {
			r.OK("walk.uepol")
		} else {
			r.Fail("walk.uepol", fname, what, f.Pos(), "the parser does not return the structure laid out in the input: "+why, nil)
		}
	}
	r.Expect("walk.uepol", 9)
}

const symOctet = ^uint64(0) // in a message image: an octet that takes every value

// checkUePolMessages (msg.reencode): the three messages of the UE policy delivery service decoded
// from their shortest wire form (symbolic PTI) and encoded again give the octets that were decoded:
// the header octets (PTI, message type) reach the body that the encoder writes them from.
func checkUePolMessages(w *World, r *Report) {
	fd := w.LookupFunc("uePolicyContainer", "UePolDeliverySer.UePolDeliverySerDecode")
	fe := w.LookupFunc("uePolicyContainer", "UePolDeliverySer.UePolDeliverySerEncode")
	if fd == nil || fe == nil {
		r.Fail("anchor", "uePolicyContainer.UePolDeliverySer", "Decode/Encode", token.NoPos, "entry points not found", nil)
		return
	}
	fname := FuncName(fd)
	for _, m := range []struct {
		name string
		typ  uint64
		tail []uint64
	}{
		{"MANAGE UE POLICY COMMAND", 1, []uint64{0x01, 0, 0}},
		// with the optional UE policy network classmark (identifier, length, NSSUI, spare: all values)
		{"MANAGE UE POLICY COMMAND with network classmark", 1, []uint64{0x01, 0, 0, symOctet, symOctet, symOctet, symOctet}},
		{"MANAGE UE POLICY COMPLETE", 2, nil},
		{"MANAGE UE POLICY REJECT", 3, []uint64{0x02, 0, 0}},
	} {
		r.Site("msg.reencode")
		it := NewInterp(w)
		it.Fuel = 300000
		it.UseInitValues = true
		readerModels(it)
		st := it.NewState()
		seedIOErrors(it, st)
		bo := it.NewObj("in", false)
		st.mem[bo] = map[string]Value{}
		in := []BV{it.SrcBV("pti", 8), it.constBV(m.typ, 8)}
		for i, t := range m.tail {
			if t == symOctet {
				in = append(in, it.SrcBV(fmt.Sprintf("in[%d]", 2+i), 8))
				continue
			}
			in = append(in, it.constBV(t, 8))
		}
		for i, b := range in {
			st.mem[bo][fmt.Sprintf("[%d]", i)] = b
		}
		ro, recv := it.SymbolicObj("msg")
		st.mem[ro] = map[string]Value{}
		zero := it.zeroValue(fd.Type().(*types.Signature).Recv().Type().(*types.Pointer).Elem())
		if ag, ok := zero.(AggV); ok {
			for k, v := range ag.Cells {
				st.mem[ro][k] = v
			}
		}
		res := it.Call(w.SSAFunc(fd), []Value{recv, SliceV{Obj: bo, Len: len(in)}}, st, 0)
		good, why := true, ""
		if len(it.Unsup) > 0 {
			good, why = false, fmt.Sprintf("undecided (decode): %v", it.Unsup)
		} else if n, ok := it.errNil(res); !ok || n != it.T.one {
			good, why = false, "the shortest well-formed message is not accepted"
		}
		if good {
			res2 := it.Call(w.SSAFunc(fe), []Value{recv}, st, 0)
			tv, isT := res2.(TupleV)
			switch {
			case len(it.Unsup) > 0 || !isT || len(tv) != 2:
				good, why = false, fmt.Sprintf("undecided (encode): %v", it.Unsup)
			default:
				if n, ok := it.errNil(tv[1]); !ok || n != it.T.one {
					good, why = false, "the decoded message is not encoded without error"
					break
				}
				out, okB := sliceBytes(it, st, tv[0])
				if !okB {
					good, why = false, "the encoded octets are not resolvable"
					break
				}
				if ok, msg := sameOctets(it, m.name, out, in); !ok {
					good, why = false, "encoding the decoded message does not give the octets that were decoded: "+msg
				}
			}
		}
		if good {
			r.OK("msg.reencode")
		} else {
			r.Fail("msg.reencode", fname, m.name, fd.Pos(), why, nil)
		}
	}
	r.Expect("msg.reencode", 4)
}
