package main

// Patch-based variants for the self-test: the confirmed seeded changes (/verif/seeded/*/patch.diff,
// each must still be reported by a check of the property named in its meta.json) and the
// behaviour-preserving variants (/verif/neutral/*/patch.diff, each check listed in its meta.json
// must stay silent).  The unified diff is applied in memory and handed to go/packages as an
// overlay; /repo is not touched.

import (
	"bytes"
	"encoding/json"
	"fmt"
	"os"
	"os/exec"
	"path/filepath"
	"regexp"
	"sort"
	"strings"
	"sync"
)

// applyUnifiedDiff applies a git unified diff to the files under root and returns the new contents.
func applyUnifiedDiff(root string, diff []byte) (map[string][]byte, error) {
	out := map[string][]byte{}
	lines := strings.Split(string(diff), "\n")
	i := 0
	for i < len(lines) {
		if !strings.HasPrefix(lines[i], "--- ") {
			i++
			continue
		}
		if i+1 >= len(lines) || !strings.HasPrefix(lines[i+1], "+++ ") {
			return nil, fmt.Errorf("malformed diff at line %d", i+1)
		}
		oldName := strings.TrimSpace(strings.TrimPrefix(lines[i], "--- "))
		newName := strings.TrimSpace(strings.TrimPrefix(lines[i+1], "+++ "))
		if k := strings.IndexByte(newName, '\t'); k >= 0 {
			newName = newName[:k]
		}
		i += 2
		if newName == "/dev/null" {
			return nil, fmt.Errorf("diff deletes %s: not supported", oldName)
		}
		rel := strings.TrimPrefix(newName, "b/")
		path := filepath.Join(root, rel)
		var src []string
		if oldName != "/dev/null" {
			b, ok := out[path]
			if !ok {
				var err error
				b, err = os.ReadFile(path)
				if err != nil {
					return nil, fmt.Errorf("anchor: %v", err)
				}
			}
			src = strings.Split(string(b), "\n")
		}
		var res []string
		pos := 0 // next unconsumed line of src
		for i < len(lines) && strings.HasPrefix(lines[i], "@@") {
			var os_, ol, ns, nl int
			ol, nl = 1, 1
			hdr := lines[i]
			if m := hunkRe.FindStringSubmatch(hdr); m != nil {
				fmt.Sscan(m[1], &os_)
				if m[2] != "" {
					fmt.Sscan(m[2], &ol)
				}
				fmt.Sscan(m[3], &ns)
				if m[4] != "" {
					fmt.Sscan(m[4], &nl)
				}
			} else {
				return nil, fmt.Errorf("malformed hunk header %q", hdr)
			}
			i++
			// collect the hunk body
			var oldBlk, newBlk []string
			seenOld, seenNew := 0, 0
			for i < len(lines) && (seenOld < ol || seenNew < nl) {
				ln := lines[i]
				switch {
				case strings.HasPrefix(ln, "\\"):
				case strings.HasPrefix(ln, "-"):
					oldBlk = append(oldBlk, ln[1:])
					seenOld++
				case strings.HasPrefix(ln, "+"):
					newBlk = append(newBlk, ln[1:])
					seenNew++
				default:
					t := strings.TrimPrefix(ln, " ")
					oldBlk = append(oldBlk, t)
					newBlk = append(newBlk, t)
					seenOld++
					seenNew++
				}
				i++
			}
			// place it: at the stated line if the old block is there, otherwise at the nearest place
			// after the previous hunk where it occurs (the tree may have moved since the diff was made,
			// as `git apply` tolerates)
			start := os_ - 1
			if ol == 0 {
				start = os_
			}
			matchAt := func(at int) bool {
				if at < pos || at+len(oldBlk) > len(src) {
					return false
				}
				for k, l := range oldBlk {
					if src[at+k] != l {
						return false
					}
				}
				return true
			}
			if !matchAt(start) {
				found := -1
				for d := 1; d < len(src) && found < 0; d++ {
					if matchAt(start - d) {
						found = start - d
					} else if matchAt(start + d) {
						found = start + d
					}
				}
				if found < 0 || len(oldBlk) == 0 {
					return nil, fmt.Errorf("anchor: hunk %q of %s does not match the tree", hdr, rel)
				}
				start = found
			}
			res = append(res, src[pos:start]...)
			res = append(res, newBlk...)
			pos = start + len(oldBlk)
			for i < len(lines) && strings.HasPrefix(lines[i], "\\") {
				i++
			}
		}
		res = append(res, src[pos:]...)
		out[path] = []byte(strings.Join(res, "\n"))
	}
	if len(out) == 0 {
		return nil, fmt.Errorf("anchor: the diff changes no file")
	}
	return out, nil
}

var hunkRe = regexp.MustCompile(`^@@ -(\d+)(?:,(\d+))? \+(\d+)(?:,(\d+))? @@`)

func patchOverlay(patch string) (map[string][]byte, error) {
	b, err := os.ReadFile(patch)
	if err != nil {
		return nil, fmt.Errorf("anchor: %v", err)
	}
	return applyUnifiedDiff(repoDir, b)
}

type patchCase struct {
	Name  string
	Patch string
	Props []string
	Keep  bool // behaviour-preserving: every listed check must stay silent
	// KnownAlarm: properties whose check is known to alarm on this behaviour-preserving variant
	// (a limitation recorded in DESIGN.md 12.4); the other listed checks must still stay silent
	KnownAlarm map[string]bool
	KnownWhy   string
}

var propIDRe = regexp.MustCompile(`\bC\d\d\b`)

func loadPatchCases(dir string, keep bool) []patchCase {
	var out []patchCase
	ms, _ := filepath.Glob(filepath.Join(verifDir, dir, "*", "meta.json"))
	sort.Strings(ms)
	for _, mf := range ms {
		var m struct {
			Property   string   `json:"property"`
			DetectedBy string   `json:"detected_by"`
			Props      []string `json:"props"`
			Known      *struct {
				Props []string `json:"props"`
				Why   string   `json:"why"`
			} `json:"known_false_alarm"`
		}
		b, err := os.ReadFile(mf)
		if err != nil || json.Unmarshal(b, &m) != nil {
			continue
		}
		c := patchCase{Name: filepath.Base(filepath.Dir(mf)), Patch: filepath.Join(filepath.Dir(mf), "patch.diff"), Keep: keep}
		if keep {
			c.Props = m.Props
			if m.Known != nil {
				c.KnownAlarm = map[string]bool{}
				for _, p := range m.Known.Props {
					c.KnownAlarm[p] = true
				}
				c.KnownWhy = m.Known.Why
			}
		} else {
			seen := map[string]bool{}
			for _, p := range propIDRe.FindAllString(m.DetectedBy, -1) {
				if !seen[p] {
					seen[p] = true
					c.Props = append(c.Props, p)
				}
			}
		}
		out = append(out, c)
	}
	return out
}

func runPatchCase(c patchCase) (status, detail string) {
	if _, err := patchOverlay(c.Patch); err != nil {
		return "skipped", err.Error()
	}
	if len(c.Props) == 0 {
		return "skipped", "no property listed"
	}
	var known []string
	for _, p := range c.Props {
		cmd := exec.Command(os.Args[0], "check", p, "--tier", "quick", "--patch", c.Patch)
		cmd.Env = append(os.Environ(), "NASVERIF_NO_SELFTEST=1")
		var out bytes.Buffer
		cmd.Stdout = &out
		cmd.Stderr = &out
		err := cmd.Run()
		code := 0
		if ee, ok := err.(*exec.ExitError); ok {
			code = ee.ExitCode()
		} else if err != nil {
			return "nocompile", err.Error()
		}
		s := out.String()
		if code == 3 || code == 2 {
			return "nocompile", p + ": " + lastLines(s, 4)
		}
		first := ""
		for _, ln := range strings.Split(s, "\n") {
			if strings.Contains(ln, ": [") {
				first = strings.TrimSpace(ln)
				if len(first) > 220 {
					first = first[:220]
				}
				break
			}
		}
		if c.Keep {
			if code != 0 && c.KnownAlarm[p] {
				known = append(known, p)
				continue
			}
			if code != 0 {
				return "false-alarm", p + ": " + first
			}
			if c.KnownAlarm[p] {
				return "stale-limit", p + " no longer alarms on this variant: remove it from known_false_alarm in meta.json"
			}
			continue
		}
		if code == 1 {
			return "caught", p + ": " + first
		}
	}
	if c.Keep && len(known) > 0 {
		return "known-limit", strings.Join(known, ",") + " alarm(s) as recorded: " + c.KnownWhy
	}
	if c.Keep {
		return "clean", strings.Join(c.Props, ",")
	}
	return "missed", "no violation reported by " + strings.Join(c.Props, ",")
}

// cmdPatchSelftest: selftest --seeds [filter] | --neutral [filter]
func cmdPatchSelftest(dir string, keep bool, filter string) int {
	cases := loadPatchCases(dir, keep)
	var run []patchCase
	for _, c := range cases {
		if filter == "" || strings.Contains(c.Name, filter) {
			run = append(run, c)
		}
	}
	type res struct{ status, detail string }
	rs := make([]res, len(run))
	var wg sync.WaitGroup
	sem := make(chan struct{}, 10)
	for i := range run {
		wg.Add(1)
		go func(i int) {
			defer wg.Done()
			sem <- struct{}{}
			s, d := runPatchCase(run[i])
			rs[i] = res{s, d}
			<-sem
		}(i)
	}
	wg.Wait()
	fail := 0
	for i, c := range run {
		fmt.Printf("%-12s %-10s %s\n", rs[i].status, c.Name, rs[i].detail)
		switch rs[i].status {
		case "missed", "false-alarm", "nocompile", "skipped", "stale-limit":
			fail++
		}
	}
	fmt.Printf("%d patches, %d failures\n", len(run), fail)
	if fail > 0 {
		return 2
	}
	return 0
}


// runPatchesFor (thorough tier): the confirmed seeded changes whose first-named detecting
// property is id must still be reported by this check, and the behaviour-preserving variants
// that list id must leave it silent.  Returns 0 when that holds.
func runPatchesFor(id string, r *Report) int {
	var run []patchCase
	for _, c := range loadPatchCases("seeded", false) {
		if len(c.Props) > 0 && c.Props[0] == id {
			c.Props = []string{id}
			run = append(run, c)
		}
	}
	nSeeds := len(run)
	for _, c := range loadPatchCases("neutral", true) {
		for _, p := range c.Props {
			if p == id {
				c.Props = []string{id}
				run = append(run, c)
			}
		}
	}
	if len(run) == 0 {
		return 0
	}
	type res struct{ status, detail string }
	rs := make([]res, len(run))
	var wg sync.WaitGroup
	sem := make(chan struct{}, 8)
	for i := range run {
		wg.Add(1)
		go func(i int) {
			defer wg.Done()
			sem <- struct{}{}
			s, d := runPatchCase(run[i])
			rs[i] = res{s, d}
			<-sem
		}(i)
	}
	wg.Wait()
	counts := map[string]int{}
	var bad []string
	var rows []map[string]string
	for i, c := range run {
		counts[rs[i].status]++
		kind := "seeded change"
		if c.Keep {
			kind = "behaviour-preserving variant"
		}
		rows = append(rows, map[string]string{"patch": c.Name, "kind": kind, "status": rs[i].status, "detail": rs[i].detail})
		switch rs[i].status {
		case "missed", "false-alarm", "nocompile", "stale-limit":
			bad = append(bad, c.Name+": "+rs[i].status+" — "+rs[i].detail)
		}
	}
	r.Extra["patch_regression"] = map[string]any{"seeded_changes": nSeeds, "behaviour_preserving_variants": len(run) - nSeeds, "counts": counts, "results": rows}
	r.Note("patch regression: %d seeded changes (must be reported), %d behaviour-preserving variants (must stay silent): %v", nSeeds, len(run)-nSeeds, counts)
	if len(bad) > 0 {
		sort.Strings(bad)
		for _, b := range bad {
			fmt.Fprintln(os.Stderr, "SELFTEST-FAIL", id, b)
		}
		return 2
	}
	return 0
}
