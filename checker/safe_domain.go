package main

// E3 (part 1): abstract domain of the `safe` prover.
//
// Integers are linear expressions over immutable *atoms* (unknown quantities: loaded values,
// parameters, lengths, phi values) with per-state interval refinements and a set of linear
// facts (e <= 0) collected from dominating branch conditions. Pointer-like values carry an
// immutable symbol whose nil-ness is refined per state. Memory is an access-path store.
// Proving `e <= 0` uses interval evaluation and one- or two-step combination with known
// facts (a weak but sound fragment of Fourier–Motzkin elimination); no solver is involved.

import (
	"golang.org/x/tools/go/ssa"
	"fmt"
	"go/types"
	"sort"
	"strings"
)

type atomID int
type symID int

const (
	negInf int64 = -(1 << 60)
	posInf int64 = 1 << 60
)

type Itv struct{ Lo, Hi int64 }

func (i Itv) String() string {
	lo, hi := fmt.Sprint(i.Lo), fmt.Sprint(i.Hi)
	if i.Lo <= negInf {
		lo = "-inf"
	}
	if i.Hi >= posInf {
		hi = "+inf"
	}
	return "[" + lo + "," + hi + "]"
}

func sat(x int64) int64 {
	if x > posInf {
		return posInf
	}
	if x < negInf {
		return negInf
	}
	return x
}

func satAdd(a, b int64) int64 {
	if a >= posInf || b >= posInf {
		if a <= negInf || b <= negInf {
			return 0
		}
		return posInf
	}
	if a <= negInf || b <= negInf {
		return negInf
	}
	return sat(a + b)
}

func satMul(a, b int64) int64 {
	if a == 0 || b == 0 {
		return 0
	}
	neg := (a < 0) != (b < 0)
	ua, ub := a, b
	if ua < 0 {
		ua = -ua
	}
	if ub < 0 {
		ub = -ub
	}
	if ua >= posInf || ub >= posInf || ua > posInf/ub {
		if neg {
			return negInf
		}
		return posInf
	}
	return a * b
}

func (i Itv) join(j Itv) Itv {
	r := i
	if j.Lo < r.Lo {
		r.Lo = j.Lo
	}
	if j.Hi > r.Hi {
		r.Hi = j.Hi
	}
	return r
}

func (i Itv) meet(j Itv) Itv {
	r := i
	if j.Lo > r.Lo {
		r.Lo = j.Lo
	}
	if j.Hi < r.Hi {
		r.Hi = j.Hi
	}
	return r
}

func (i Itv) empty() bool { return i.Lo > i.Hi }

// Lin: c + Σ k_i * atom_i. Treated as immutable.
type Lin struct {
	C int64
	T map[atomID]int64
}

func linConst(c int64) *Lin { return &Lin{C: c} }
func linAtom(a atomID) *Lin { return &Lin{T: map[atomID]int64{a: 1}} }

func (l *Lin) isConst() (int64, bool) {
	if len(l.T) == 0 {
		return l.C, true
	}
	return 0, false
}

func (l *Lin) add(m *Lin, k int64) *Lin { // l + k*m
	r := &Lin{C: l.C + k*m.C, T: map[atomID]int64{}}
	for a, c := range l.T {
		r.T[a] = c
	}
	for a, c := range m.T {
		r.T[a] += k * c
		if r.T[a] == 0 {
			delete(r.T, a)
		}
	}
	return r
}

func (l *Lin) scale(k int64) *Lin {
	r := &Lin{C: l.C * k, T: map[atomID]int64{}}
	if k == 0 {
		return r
	}
	for a, c := range l.T {
		r.T[a] = c * k
	}
	return r
}

func (l *Lin) addConst(c int64) *Lin { return l.add(linConst(c), 1) }

func (l *Lin) key() string {
	var ids []int
	for a := range l.T {
		ids = append(ids, int(a))
	}
	sort.Ints(ids)
	var sb strings.Builder
	fmt.Fprintf(&sb, "%d", l.C)
	for _, a := range ids {
		fmt.Fprintf(&sb, "|%d*%d", l.T[atomID(a)], a)
	}
	return sb.String()
}

type AtomInfo struct {
	Desc  string
	Range Itv
	Where interface{} // creating ssa.Instruction (nil: entry / join / shared memo)
	Deps  []atomID    // unknowns this one is a function of (shared quotient / remainder / wrap unknowns)
}

type SymInfo struct {
	Desc string
}

type nilness uint8

const (
	nilMaybe nilness = iota
	nilYes
	nilNo
)

func (n nilness) String() string { return [...]string{"maybe-nil", "nil", "non-nil"}[n] }

// Universe holds the immutable entities shared by all states of one analysis.
type Universe struct {
	atoms    []AtomInfo
	syms     []SymInfo
	objs     int
	joinSite string
	jAtoms   map[string]atomID
	jSyms    map[string]symID
	jSeq     int
}

// joinAtom / joinSym: stable identities for values created by joins at one program point.
func (u *Universe) joinAtom(key, desc string, r Itv) atomID {
	if u.jAtoms == nil {
		u.jAtoms = map[string]atomID{}
	}
	k := u.joinSite + "|" + key
	if a, ok := u.jAtoms[k]; ok {
		return a
	}
	a := u.newAtom(desc, r)
	u.jAtoms[k] = a
	return a
}

func (u *Universe) joinSym(key string) symID {
	if u.jSyms == nil {
		u.jSyms = map[string]symID{}
	}
	k := u.joinSite + "|" + key
	if a, ok := u.jSyms[k]; ok {
		return a
	}
	a := u.newSym("join@" + u.joinSite)
	u.jSyms[k] = a
	return a
}

func (u *Universe) newAtom(desc string, r Itv) atomID {
	u.atoms = append(u.atoms, AtomInfo{Desc: desc, Range: r})
	return atomID(len(u.atoms) - 1)
}

func (u *Universe) newSym(desc string) symID {
	u.syms = append(u.syms, SymInfo{desc})
	return symID(len(u.syms) - 1)
}

func (u *Universe) linString(l *Lin) string {
	if l == nil {
		return "?"
	}
	var ids []int
	for a := range l.T {
		ids = append(ids, int(a))
	}
	sort.Ints(ids)
	var p []string
	for _, a := range ids {
		k := l.T[atomID(a)]
		d := u.atoms[a].Desc
		switch k {
		case 1:
			p = append(p, d)
		case -1:
			p = append(p, "-"+d)
		default:
			p = append(p, fmt.Sprintf("%d*%s", k, d))
		}
	}
	if l.C != 0 || len(p) == 0 {
		p = append(p, fmt.Sprint(l.C))
	}
	return strings.Join(p, " + ")
}

// AObj: abstract memory object.
type AObj struct {
	id      int
	Desc    string
	Summary bool // stands for several concrete objects: weak updates only
}

type avKind uint8

const (
	avUnknown avKind = iota
	avInt
	avBool
	avPtr
	avSlice
	avStr
	avIface
	avStruct
	avTuple
	avFunc
	avMap
)

type Cond struct {
	Op    string // "le0" (Lin <= 0) | "eq0" | "ne0" | "nil" (sym is nil) | "not" | "const" | "and" | "or"
	L     *Lin
	Sym   symID
	A, B  *Cond
	Const bool
}

type AVal struct {
	Kind   avKind
	Lin    *Lin
	Cond   *Cond
	Sym    symID
	HasSym bool
	Obj    *AObj  // avPtr: pointee base; avSlice: backing object
	Path   string // avPtr: path inside Obj; avSlice: path of the element aggregate
	Len    *Lin   // avSlice / avStr
	Elts   []AVal // avTuple
	Fields map[string]AVal
	DynT   []types.Type // avIface: possible dynamic types (nil = unknown)
	Inner  *AVal        // avIface: boxed value when a single one is known
	Type   types.Type
	NonNil bool // pointer-like value known non-nil without a symbol
	Clo    *aClosure // avFunc: the closure (function and captured values) when it is known
}

// aClosure: a function value built by MakeClosure (a closure or a bound method value).
type aClosure struct {
	fn   *ssa.Function
	bind []AVal
}

// Guard: refinements that become valid when an error symbol is learnt to be nil / non-nil.
type Guard struct {
	WhenNil, WhenNonNil *Partial
}

type Partial struct {
	itv   map[atomID]Itv
	nils  map[symID]nilness
	facts map[string]*Lin
	dead  bool // this outcome cannot happen
}

type logEntry struct {
	Size *Lin   // octets written (nil: unknown)
	Val  *Lin   // integer value written (nil: not an integer / unknown)
	Desc string
	Pos  int
}

type State struct {
	u      *Universe
	logs   map[*AObj][]logEntry // per modelled bytes.Buffer: what was written, in order (nil entry list = unknown)
	written map[*AObj]bool      // objects some element/field of which has been written since allocation
	first   map[*AObj]logEntry  // first item written to each modelled bytes.Buffer
	itv    map[atomID]Itv
	nils   map[symID]nilness
	facts  map[string]*Lin
	mem    map[*AObj]map[string]AVal
	guards map[symID]*Guard
	dead   bool
}

func newState(u *Universe) *State {
	return &State{u: u, first: map[*AObj]logEntry{}, written: map[*AObj]bool{}, logs: map[*AObj][]logEntry{}, itv: map[atomID]Itv{}, nils: map[symID]nilness{}, facts: map[string]*Lin{}, mem: map[*AObj]map[string]AVal{}, guards: map[symID]*Guard{}}
}

func (s *State) clone() *State {
	n := newState(s.u)
	n.dead = s.dead
	for k, v := range s.itv {
		n.itv[k] = v
	}
	for k, v := range s.nils {
		n.nils[k] = v
	}
	for k, v := range s.facts {
		n.facts[k] = v
	}
	for o, m := range s.mem {
		c := make(map[string]AVal, len(m))
		for k, v := range m {
			c[k] = v
		}
		n.mem[o] = c
	}
	for k, v := range s.guards {
		n.guards[k] = v
	}
	for k, v := range s.logs {
		n.logs[k] = v // entries are append-only copies (see appendLog)
	}
	for k := range s.written {
		n.written[k] = true
	}
	for k, v := range s.first {
		n.first[k] = v
	}
	return n
}

func (s *State) appendLog(o *AObj, e logEntry) {
	old, ok := s.logs[o]
	if ok && len(old) == 0 {
		s.first[o] = e
	}
	if !ok {
		return // unknown log stays unknown
	}
	n := make([]logEntry, len(old)+1)
	copy(n, old)
	n[len(old)] = e
	s.logs[o] = n
}

func sameLog(a, b []logEntry) bool {
	if len(a) != len(b) {
		return false
	}
	for i := range a {
		if (a[i].Size == nil) != (b[i].Size == nil) || (a[i].Val == nil) != (b[i].Val == nil) {
			return false
		}
		if a[i].Size != nil && a[i].Size.key() != b[i].Size.key() {
			return false
		}
		if a[i].Val != nil && a[i].Val.key() != b[i].Val.key() {
			return false
		}
	}
	return true
}

func (s *State) atomItv(a atomID) Itv {
	r := s.u.atoms[a].Range
	if i, ok := s.itv[a]; ok {
		r = r.meet(i)
	}
	return r
}

func (s *State) linItv(l *Lin) Itv {
	lo, hi := l.C, l.C
	for a, k := range l.T {
		i := s.atomItv(a)
		if k > 0 {
			lo = satAdd(lo, satMul(k, i.Lo))
			hi = satAdd(hi, satMul(k, i.Hi))
		} else {
			lo = satAdd(lo, satMul(k, i.Hi))
			hi = satAdd(hi, satMul(k, i.Lo))
		}
	}
	return Itv{lo, hi}
}

func (s *State) nilOf(y symID) nilness {
	if n, ok := s.nils[y]; ok {
		return n
	}
	return nilMaybe
}

// assume adds the fact l <= 0.
func (s *State) assume(l *Lin) {
	if c, ok := l.isConst(); ok {
		if c > 0 {
			s.dead = true
		}
		return
	}
	// single-atom facts tighten the interval
	if len(l.T) == 1 {
		for a, k := range l.T {
			i := s.atomItv(a)
			// k*a + C <= 0
			if k > 0 {
				// a <= floor(-C/k)
				b := floorDiv(-l.C, k)
				if b < i.Hi {
					i.Hi = b
				}
			} else {
				// a >= ceil(C/(-k))
				b := ceilDiv(l.C, -k)
				if b > i.Lo {
					i.Lo = b
				}
			}
			s.itv[a] = i
			if i.empty() {
				s.dead = true
			}
		}
		return
	}
	if s.linItv(l).Lo > 0 {
		s.dead = true
		return
	}
	if len(s.facts) < 200 {
		s.facts[l.key()] = l
	}
}

func floorDiv(a, b int64) int64 {
	q := a / b
	if (a%b != 0) && ((a < 0) != (b < 0)) {
		q--
	}
	return q
}

func ceilDiv(a, b int64) int64 {
	q := a / b
	if (a%b != 0) && ((a < 0) == (b < 0)) {
		q++
	}
	return q
}

// prove tries to show l <= 0 in state s.
func (s *State) prove(l *Lin) bool {
	if s.dead {
		return true
	}
	if s.linItv(l).Hi <= 0 {
		return true
	}
	var fs []*Lin
	for _, f := range s.facts {
		fs = append(fs, f)
	}
	sort.Slice(fs, func(i, j int) bool { return fs[i].key() < fs[j].key() })
	abs := func(x int64) int64 {
		if x < 0 {
			return -x
		}
		return x
	}
	// Depth-limited elimination. Goal: T <= S (all unknowns are integers).
	// Step with a fact g <= 0 cancelling an unknown a (coefficients kb in T, kg in g, same sign):
	//   T*|kg| - g*|kb| <= S'  and  g <= 0  give  T <= floor(S'/|kg|), so S' = S*|kg| + |kg| - 1 suffices.
	budget := 4000
	var search func(T *Lin, S int64, used uint64, depth int) bool
	search = func(T *Lin, S int64, used uint64, depth int) bool {
		if s.linItv(T).Hi <= S {
			return true
		}
		if depth == 0 {
			return false
		}
		for gi, g := range fs {
			if gi < 64 && used&(1<<uint(gi)) != 0 {
				continue
			}
			for a, kb := range T.T {
				kg, ok := g.T[a]
				if !ok || (kb > 0) != (kg > 0) || abs(kg) > 1<<16 || abs(kb) > 1<<16 || abs(S) > 1<<40 {
					continue
				}
				budget--
				if budget < 0 {
					return false
				}
				T2 := T.scale(abs(kg)).add(g, -abs(kb))
				S2 := S*abs(kg) + abs(kg) - 1
				u2 := used
				if gi < 64 {
					u2 |= 1 << uint(gi)
				}
				if search(T2, S2, u2, depth-1) {
					return true
				}
			}
		}
		return false
	}
	if len(fs) <= 150 {
		for d := 1; d <= 4; d++ {
			if search(l, 0, 0, d) {
				return true
			}
			if budget < 0 {
				break
			}
		}
	}
	return false
}

// join (least upper bound, in place on a copy)
func joinStates(a, b *State) *State {
	if a == nil || a.dead {
		if b == nil {
			return nil
		}
		return b.clone()
	}
	if b == nil || b.dead {
		return a.clone()
	}
	n := newState(a.u)
	for k, ia := range a.itv {
		ib := b.atomItv(k)
		n.itv[k] = ia.join(ib)
	}
	for k, ib := range b.itv {
		if _, ok := a.itv[k]; !ok {
			n.itv[k] = ib.join(a.atomItv(k))
		}
	}
	for k, na := range a.nils {
		if nb, ok := b.nils[k]; ok && nb == na {
			n.nils[k] = na
		}
	}
	for k, f := range a.facts {
		if _, ok := b.facts[k]; ok || b.prove(f) {
			n.facts[k] = f
		}
	}
	for k, f := range b.facts {
		if _, ok := n.facts[k]; !ok && a.prove(f) {
			n.facts[k] = f
		}
	}
	for o, ma := range a.mem {
		mb := b.mem[o]
		if mb == nil {
			continue
		}
		out := map[string]AVal{}
		for p, va := range ma {
			if vb, ok := mb[p]; ok {
				if j, ok := joinValsK(n, a, b, va, vb, fmt.Sprintf("o%d%s", o.id, p)); ok {
					out[p] = j
				}
			}
		}
		n.mem[o] = out
	}
	for k, g := range a.guards {
		if h := b.guards[k]; h == g {
			n.guards[k] = g
		} else if h != nil {
			// the same symbol guarded in both states (a call re-analysed on a later fixpoint
			// iteration): what holds under each outcome in both
			n.guards[k] = &Guard{WhenNil: joinPartial(g.WhenNil, h.WhenNil), WhenNonNil: joinPartial(g.WhenNonNil, h.WhenNonNil)}
		}
	}
	for o, la := range a.logs {
		if lb, ok := b.logs[o]; ok && sameLog(la, lb) {
			n.logs[o] = la
		}
	}
	for o, fa := range a.first {
		if fb, ok := b.first[o]; ok && sameLog([]logEntry{fa}, []logEntry{fb}) {
			n.first[o] = fa
		}
	}
	for o := range a.written {
		n.written[o] = true
	}
	for o := range b.written {
		n.written[o] = true
	}
	return n
}

// joinVals joins two abstract values; ok=false means "forget" (unknown).
func joinVals(n, a, b *State, x, y AVal) (AVal, bool) { return joinValsK(n, a, b, x, y, "") }

func joinValsK(n, a, b *State, x, y AVal, key string) (AVal, bool) {
	if x.Kind != y.Kind {
		return AVal{}, false
	}
	switch x.Kind {
	case avInt:
		if x.Lin != nil && y.Lin != nil && x.Lin.key() == y.Lin.key() {
			return x, true
		}
		if x.Lin == nil || y.Lin == nil {
			return AVal{}, false
		}
		ia, ib := a.linItv(x.Lin), b.linItv(y.Lin)
		full := Itv{negInf, posInf}
		if x.Type != nil {
			if r, ok := intRangeOf(x.Type); ok {
				full = r
			}
		}
		at := n.u.joinAtom(key+"|int", "join", full)
		n.itv[at] = ia.join(ib).meet(full)
		return AVal{Kind: avInt, Lin: linAtom(at), Type: x.Type}, true
	case avPtr:
		if x.Obj == y.Obj && x.Path == y.Path && x.HasSym && y.HasSym && x.Sym == y.Sym {
			return x, true
		}
		if x.Obj == y.Obj && x.Path == y.Path && !x.HasSym && !y.HasSym && x.NonNil && y.NonNil {
			return x, true
		}
		if x.Obj == y.Obj && x.Path == y.Path && x.Obj != nil {
			// same target, different symbols: new symbol with joined nil-ness
			sy := n.u.joinSym(key + "|ptr")
			na, nb := a.valNil(x), b.valNil(y)
			delete(n.nils, sy)
			if na == nb {
				n.nils[sy] = na
			}
			r := x
			r.Sym, r.HasSym, r.NonNil = sy, true, false
			return r, true
		}
		// different targets: keep only nil-ness
		sy := n.u.joinSym(key + "|ptr")
		na, nb := a.valNil(x), b.valNil(y)
		delete(n.nils, sy)
		if na == nb {
			n.nils[sy] = na
		}
		r := AVal{Kind: avPtr, Sym: sy, HasSym: true, Type: x.Type}
		if na == nilYes && nb != nilYes {
			r.Obj, r.Path = y.Obj, y.Path
		} else if nb == nilYes && na != nilYes {
			r.Obj, r.Path = x.Obj, x.Path
		}
		return r, true
	case avSlice, avStr:
		if x.HasSym && y.HasSym && x.Sym == y.Sym && x.Len != nil && y.Len != nil && x.Len.key() == y.Len.key() && x.Obj == y.Obj {
			return x, true
		}
		r := AVal{Kind: x.Kind, Type: x.Type}
		if x.Obj == y.Obj && x.Path == y.Path {
			r.Obj, r.Path = x.Obj, x.Path
		}
		if x.Len != nil && y.Len != nil {
			if x.Len.key() == y.Len.key() {
				r.Len = x.Len
			} else {
				ia, ib := a.linItv(x.Len), b.linItv(y.Len)
				at := n.u.joinAtom(key+"|len", "len-join", Itv{0, posInf})
				n.itv[at] = ia.join(ib).meet(Itv{0, posInf})
				r.Len = linAtom(at)
			}
		}
		sy := n.u.joinSym(key + "|sl")
		na, nb := a.valNil(x), b.valNil(y)
		delete(n.nils, sy)
		if na == nb {
			n.nils[sy] = na
		}
		r.Sym, r.HasSym = sy, true
		return r, true
	case avIface:
		if x.HasSym && y.HasSym && x.Sym == y.Sym {
			return x, true
		}
		sy := n.u.joinSym(key + "|if")
		na, nb := a.valNil(x), b.valNil(y)
		delete(n.nils, sy)
		if na == nb {
			n.nils[sy] = na
		}
		r := AVal{Kind: avIface, Sym: sy, HasSym: true, Type: x.Type}
		if x.DynT != nil && y.DynT != nil {
			r.DynT = unionTypes(x.DynT, y.DynT)
		}
		if na == nilNo && nb == nilNo && !x.HasSym && !y.HasSym {
			r.HasSym, r.NonNil = false, true
		}
		if x.Inner != nil && y.Inner != nil && len(r.DynT) == 1 {
			if iv, ok := joinValsK(n, a, b, *x.Inner, *y.Inner, key+"|inner"); ok {
				r.Inner = &iv
			}
		}
		return r, true
	case avBool:
		if x.Cond != nil && y.Cond != nil && x.Cond.Op == "const" && y.Cond.Op == "const" && x.Cond.Const == y.Cond.Const {
			return x, true
		}
		return AVal{Kind: avBool, Type: x.Type}, true
	case avStruct:
		r := AVal{Kind: avStruct, Fields: map[string]AVal{}, Type: x.Type}
		for k, fx := range x.Fields {
			if fy, ok := y.Fields[k]; ok {
				if j, ok := joinValsK(n, a, b, fx, fy, key+"."+k); ok {
					r.Fields[k] = j
				}
			}
		}
		return r, true
	case avTuple:
		if len(x.Elts) != len(y.Elts) {
			return AVal{}, false
		}
		r := AVal{Kind: avTuple, Type: x.Type}
		for i := range x.Elts {
			j, ok := joinValsK(n, a, b, x.Elts[i], y.Elts[i], fmt.Sprintf("%s#%d", key, i))
			if !ok {
				j = AVal{Kind: avUnknown}
			}
			r.Elts = append(r.Elts, j)
		}
		return r, true
	case avFunc, avMap, avUnknown:
		return x, true
	}
	return AVal{}, false
}

func (s *State) valNil(v AVal) nilness {
	if v.NonNil {
		return nilNo
	}
	if !v.HasSym {
		return nilMaybe
	}
	return s.nilOf(v.Sym)
}

func intRangeOf(t types.Type) (Itv, bool) { return intRange(t) }

// equalStates: cheap convergence test for the fixpoint.
func equalStates(a, b *State) bool {
	if a == nil || b == nil {
		return a == b
	}
	if a.dead != b.dead || len(a.facts) != len(b.facts) {
		return false
	}
	for k := range a.facts {
		if _, ok := b.facts[k]; !ok {
			return false
		}
	}
	keys := map[atomID]bool{}
	for k := range a.itv {
		keys[k] = true
	}
	for k := range b.itv {
		keys[k] = true
	}
	for k := range keys {
		if a.atomItv(k) != b.atomItv(k) {
			return false
		}
	}
	nk := map[symID]bool{}
	for k := range a.nils {
		nk[k] = true
	}
	for k := range b.nils {
		nk[k] = true
	}
	for k := range nk {
		if a.nilOf(k) != b.nilOf(k) {
			return false
		}
	}
	if len(a.mem) != len(b.mem) {
		return false
	}
	for o, ma := range a.mem {
		mb, ok := b.mem[o]
		if !ok || len(ma) != len(mb) {
			return false
		}
		for p, va := range ma {
			vb, ok := mb[p]
			if !ok || !sameVal(va, vb) {
				return false
			}
		}
	}
	return true
}

func sameVal(x, y AVal) bool {
	if x.Kind != y.Kind || x.NonNil != y.NonNil || x.HasSym != y.HasSym || (x.HasSym && x.Sym != y.Sym) || x.Obj != y.Obj || x.Path != y.Path {
		return false
	}
	if (x.Lin == nil) != (y.Lin == nil) || (x.Lin != nil && x.Lin.key() != y.Lin.key()) {
		return false
	}
	if (x.Len == nil) != (y.Len == nil) || (x.Len != nil && x.Len.key() != y.Len.key()) {
		return false
	}
	if len(x.Fields) != len(y.Fields) || len(x.Elts) != len(y.Elts) {
		return false
	}
	for k, fx := range x.Fields {
		fy, ok := y.Fields[k]
		if !ok || !sameVal(fx, fy) {
			return false
		}
	}
	for i := range x.Elts {
		if !sameVal(x.Elts[i], y.Elts[i]) {
			return false
		}
	}
	return true
}

// widen: intervals that grew since `old` jump to the atom's declared range.
// widenStateOnly widens the atoms in `own` (the header variables of the loop being widened) as
// widenState does and leaves the others as they are: an atom that belongs to an enclosing loop grows
// at an inner loop head only because the enclosing loop iterates, and is widened at its own head —
// jumping it to its declared range here would throw away the bound its own exit test gives it
// (`for i := range b[:2] { for bit := 0; bit < 8; bit++ { a[8*i+bit] ...`).
func widenStateOnly(old, cur *State, own map[atomID]bool) *State {
	if old == nil {
		return cur
	}
	n := cur.clone()
	for k := range n.facts {
		if _, ok := old.facts[k]; !ok {
			delete(n.facts, k)
		}
	}
	for k := range n.itv {
		if !own[k] {
			continue
		}
		o, c := old.atomItv(k), n.atomItv(k)
		r := c
		full := n.u.atoms[k].Range
		if c.Lo < o.Lo {
			r.Lo = full.Lo
		}
		if c.Hi > o.Hi {
			r.Hi = full.Hi
		}
		n.itv[k] = r
	}
	return n
}

func widenState(old, cur *State) *State {
	if old == nil {
		return cur
	}
	n := cur.clone()
	// facts: only those already present before (prevents infinite ascending chains of shifted facts)
	for k := range n.facts {
		if _, ok := old.facts[k]; !ok {
			delete(n.facts, k)
		}
	}
	for k := range n.itv {
		o, c := old.atomItv(k), n.atomItv(k)
		r := c
		full := n.u.atoms[k].Range
		if c.Lo < o.Lo {
			r.Lo = full.Lo
		}
		if c.Hi > o.Hi {
			r.Hi = full.Hi
		}
		n.itv[k] = r
	}
	return n
}

// applyPartial meets the state with a partial (guarded) refinement.
func (s *State) applyPartial(p *Partial) {
	if p == nil {
		return
	}
	if p.dead {
		s.dead = true
		return
	}
	for a, i := range p.itv {
		m := s.atomItv(a).meet(i)
		s.itv[a] = m
		if m.empty() {
			s.dead = true
		}
	}
	for y, n := range p.nils {
		if cur, ok := s.nils[y]; ok && cur != n && cur != nilMaybe && n != nilMaybe {
			s.dead = true
		}
		if n != nilMaybe {
			s.nils[y] = n
		}
	}
	for _, f := range p.facts {
		s.assume(f)
	}
}

// partialOf extracts the immutable-entity part of a state.
// joinPartial: the facts common to two partial states (an outcome that cannot happen in one of
// them contributes nothing).
func joinPartial(p, q *Partial) *Partial {
	if p == nil || q == nil {
		return nil
	}
	if p.dead {
		return q
	}
	if q.dead {
		return p
	}
	r := &Partial{itv: map[atomID]Itv{}, nils: map[symID]nilness{}, facts: map[string]*Lin{}}
	for a, i := range p.itv {
		if j, ok := q.itv[a]; ok {
			r.itv[a] = i.join(j)
		}
	}
	for y, n := range p.nils {
		if m, ok := q.nils[y]; ok && m == n {
			r.nils[y] = n
		}
	}
	for k, f := range p.facts {
		if _, ok := q.facts[k]; ok {
			r.facts[k] = f
		}
	}
	return r
}

func partialOf(s *State) *Partial {
	if s == nil || s.dead {
		return &Partial{dead: true}
	}
	p := &Partial{itv: map[atomID]Itv{}, nils: map[symID]nilness{}, facts: map[string]*Lin{}}
	for a := range s.itv {
		p.itv[a] = s.atomItv(a)
	}
	for y, n := range s.nils {
		p.nils[y] = n
	}
	for k, f := range s.facts {
		p.facts[k] = f
	}
	return p
}

// renameAtom: the atom is about to denote a new value (loop phi on a back edge). shift != nil
// means new = old + shift (constant), so facts and stored values are rewritten; otherwise
// everything mentioning the atom is forgotten.
func (s *State) renameAtom(a atomID, shift *int64) {
	nf := map[string]*Lin{}
	for k, f := range s.facts {
		c, ok := f.T[a]
		if !ok {
			nf[k] = f
			continue
		}
		if shift != nil {
			g := f.addConst(-c * *shift)
			nf[g.key()] = g
		}
	}
	s.facts = nf
	if iv, ok := s.itv[a]; ok {
		if shift != nil {
			s.itv[a] = Itv{satAdd(iv.Lo, *shift), satAdd(iv.Hi, *shift)}
		} else {
			delete(s.itv, a)
		}
	}
	fix := func(l *Lin) (*Lin, bool) {
		if l == nil {
			return l, true
		}
		c, ok := l.T[a]
		if !ok {
			return l, true
		}
		if shift != nil {
			return l.addConst(-c * *shift), true
		}
		return nil, false
	}
	for _, m := range s.mem {
		for p, v := range m {
			l1, ok1 := fix(v.Lin)
			l2, ok2 := fix(v.Len)
			if !ok1 || !ok2 {
				delete(m, p)
				continue
			}
			if l1 != v.Lin || l2 != v.Len {
				v.Lin, v.Len = l1, l2
				m[p] = v
			}
		}
	}
}

func unionTypes(a, b []types.Type) []types.Type {
	out := append([]types.Type{}, a...)
	for _, t := range b {
		dup := false
		for _, u := range out {
			if types.Identical(t, u) {
				dup = true
				break
			}
		}
		if !dup {
			out = append(out, t)
		}
	}
	return out
}
