package main

// Semantic decision of the dispatch functions (C05, and the dispatch rules of C01-C04).
//
// The shape extractor in dispatch.go recognises the generated form of PlainNasDecode/Encode and of
// the four family functions.  A behaviour-preserving edit (an if-chain instead of the switch, the
// tag kept in a local, a body kept in a local before it is stored) leaves that form, and reporting
// it would be a false alarm.  This file decides the same obligations from the SSA form with the
// E2 abstract interpreter instead: the dispatching octet takes each of its 256 values in turn
// (a concrete octet makes the interpreter follow exactly the path the compiled code follows),
// every other input octet stays symbolic, the per-message codecs / family functions are replaced
// by recording models that return a fresh symbolic error, and the obligations are read off the
// recorded calls, the returned value and the final memory.  A call recorded under a symbolic
// branch means the routing depends on something else than the dispatching octet and is reported.
//
// The semantic result is authoritative when it is decided; the shape extractor's result is used
// when the interpreter leaves its modelled fragment (then its `unclassified` problems stand).

import (
	"fmt"
	"go/token"
	"go/types"
	"sort"
	"strings"

	"golang.org/x/tools/go/ssa"
)

type semCall struct {
	Callee string // method name, e.g. DecodeRegistrationRequest
	Recv   Value
	Arg    Value
	Ret    ErrV
	Nested bool // made under a symbolic branch condition
}

type semRec struct{ calls []semCall }

// recordModel registers a recording model for fn: the call is not entered; it returns a fresh
// symbolic error.
func (s *semRec) recordModel(it *Interp, fn *ssa.Function) {
	if fn == nil {
		return
	}
	name := fn.Name()
	it.Models[fn.String()] = func(it *Interp, st *state, call *ssa.CallCommon, args []Value) (Value, bool) {
		c := semCall{Callee: name, Nested: it.nest > 0}
		if len(args) > 0 {
			c.Recv = args[0]
		}
		if len(args) > 1 {
			c.Arg = args[1]
		}
		c.Ret = ErrV{it.T.Src(fmt.Sprintf("ret%d:%s", len(s.calls), name), 0)}
		s.calls = append(s.calls, c)
		return c.Ret, true
	}
}

func samePtr(a Value, o *MemObj, path string) bool {
	p, ok := a.(Ptr)
	return ok && p.Obj == o && p.Path == path && p.Sym == nil
}

// sameErr: v is exactly the error value the recording model returned.
func sameErr(v Value, c semCall) bool {
	e, ok := v.(ErrV)
	return ok && e.Nil == c.Ret.Nil
}

func (it *Interp) errNonNil(v Value) bool {
	n, ok := it.errNil(v)
	return ok && n == it.T.zero
}

// familyLayout: the header field and the body fields (embedded *nasMessage.T) of nas.GmmMessage / GsmMessage.
func familyLayout(w *World, family string) (st *types.Struct, hdr *types.Named, bodies []string) {
	tn, _ := w.Pkg("").Types.Scope().Lookup(family).(*types.TypeName)
	if tn == nil {
		return nil, nil, nil
	}
	st, _ = tn.Type().Underlying().(*types.Struct)
	if st == nil {
		return nil, nil, nil
	}
	for i := 0; i < st.NumFields(); i++ {
		f := st.Field(i)
		if p, ok := f.Type().(*types.Pointer); ok {
			if n, ok := p.Elem().(*types.Named); ok && f.Embedded() {
				bodies = append(bodies, n.Obj().Name())
			}
		} else if n, ok := f.Type().(*types.Named); ok && strings.HasSuffix(n.Obj().Name(), "Header") {
			hdr = n
		}
	}
	return
}

// semHeaderIndex decides which header octet GetMessageType returns, by evaluating the getter on a
// symbolic header.
func semHeaderIndex(w *World, hdr *types.Named) (idx, n int) {
	idx, n = -1, -1
	s, _ := hdr.Underlying().(*types.Struct)
	if s == nil || s.NumFields() != 1 || s.Field(0).Name() != "Octet" {
		return
	}
	a, ok := s.Field(0).Type().(*types.Array)
	if !ok {
		return
	}
	n = int(a.Len())
	fn := w.SSAFunc(w.LookupFunc("", hdr.Obj().Name()+".GetMessageType"))
	if fn == nil {
		return
	}
	it := NewInterp(w)
	it.UseInitValues = true
	st := it.NewState()
	_, recv := it.SymbolicObj("hdr")
	res := it.Call(fn, []Value{recv}, st, 0)
	if len(it.Unsup) > 0 {
		return
	}
	for k := 0; k < n; k++ {
		if ok, _ := sameBV(it, res, it.SrcBV(fmt.Sprintf("hdr.Octet[%d]", k), 8)); ok {
			return k, n
		}
	}
	return
}

type semFamily struct {
	w       *World
	fn      *ssa.Function
	name    string
	family  string // GmmMessage
	decode  bool
	st      *types.Struct
	hdr     *types.Named
	bodies  []string
	idx, n  int
	undecided []string
}

// runDecode evaluates the family decoder on an input of length L whose message-type octet is v.
func (f *semFamily) runDecode(v, L int, reuse bool) (rec *semRec, it *Interp, st *state, res Value, msg, in, data *MemObj) {
	it = NewInterp(f.w)
	it.UseInitValues = true
	it.Fuel = 60000
	it.CheckBounds = true
	readerModels(it)
	rec = &semRec{}
	for _, b := range f.bodies {
		rec.recordModel(it, f.w.SSAFunc(f.w.LookupFunc("nasMessage", b+".Decode"+b)))
	}
	st = it.NewState()
	seedIOErrors(it, st)
	var recv Ptr
	msg, recv = it.SymbolicObj("msg")
	st.mem[msg] = map[string]Value{".GmmMessage": NilV{}, ".GsmMessage": NilV{}}
	if reuse {
		// a Message that already holds a decoded message of this family: every body pointer set
		old := it.NewObj("oldfam", true)
		st.mem[old] = map[string]Value{}
		for _, b := range f.bodies {
			st.mem[old]["."+b] = Ptr{Obj: it.NewObj("old:"+b, true)}
		}
		st.mem[msg]["."+f.family] = Ptr{Obj: old}
	}
	in = it.NewObj("in", false)
	data = it.NewObj("data", true)
	st.mem[data] = map[string]Value{}
	if f.idx < L {
		st.mem[data][fmt.Sprintf("[%d]", f.idx)] = it.constBV(uint64(v), 8)
	}
	st.mem[in] = map[string]Value{"": SliceV{Obj: data, Len: L}}
	res = it.Call(f.fn, []Value{recv, Ptr{Obj: in}}, st, 0)
	return
}

func (f *semFamily) fieldType(name string) types.Type {
	for i := 0; i < f.st.NumFields(); i++ {
		if f.st.Field(i).Name() == name {
			return f.st.Field(i).Type()
		}
	}
	return nil
}

// semDecodeFunc fills a DispFunc for a family decoder from the 256 evaluations.
func (f *semFamily) semDecodeFunc(d *DispFunc) bool {
	const L = 12
	famT := types.NewPointer(f.st)
	d.Arms = nil
	d.DefaultErr, d.TagOK, d.InitOK, d.AllReturn = true, true, true, true
	for vv := 0; vv < 512; vv++ {
		v, reuse := vv&255, vv >= 256
		rec, it, st, res, msg, in, data := f.runDecode(v, L, reuse)
		if len(it.Unsup) > 0 {
			f.undecided = append(f.undecided, fmt.Sprintf("message type %#02x: %s", v, strings.Join(it.Unsup, "; ")))
			return false
		}
		for _, c := range rec.calls {
			if c.Nested {
				d.TagOK = false
			}
		}
		fam, ok := it.load(st, Ptr{Obj: msg, Path: "." + f.family}, famT).(Ptr)
		if !ok || !strings.HasPrefix(fam.Obj.Name, "alloc") {
			d.InitOK = false
		}
		if ok {
			for k := 0; k < f.n; k++ {
				got := it.load(st, Ptr{Obj: fam.Obj, Path: fmt.Sprintf("%s.%s.Octet[%d]", fam.Path, f.hdr.Obj().Name(), k)}, u8T)
				want := it.SrcBV(fmt.Sprintf("data[%d]", k), 8)
				if k == f.idx {
					want = it.constBV(uint64(v), 8)
				}
				if same, _ := sameBV(it, got, want); !same {
					d.InitOK = false
				}
			}
		}
		_ = data
		if len(rec.calls) == 0 {
			if !it.errNonNil(res) {
				d.DefaultErr = false
				if !reuse {
					d.Arms = append(d.Arms, DispArm{Value: int64(v), Pos: f.fn.Pos(), Bad: []string{"no body is decoded and the result is not a provably non-nil error"}})
				}
			}
			if reuse {
				for i := range d.Arms {
					if d.Arms[i].Value == int64(v) && d.Arms[i].Body != "" {
						d.Arms[i].CallOK = false
						d.Arms[i].Bad = append(d.Arms[i].Bad, "no body is decoded when the Message already holds a message")
					}
				}
			}
			continue
		}
		arm := DispArm{Value: int64(v), Pos: f.fn.Pos(), StoreOK: true, CallOK: true}
		c := rec.calls[0]
		arm.Body = strings.TrimPrefix(c.Callee, "Decode")

		if len(rec.calls) != 1 {
			arm.CallOK = false
			arm.Bad = append(arm.Bad, fmt.Sprintf("%d body decoders are called", len(rec.calls)))
		}
		if !samePtr(c.Arg, in, "") {
			arm.CallOK = false
			arm.Bad = append(arm.Bad, "the body decoder is not given the function's own input")
		}
		if !sameErr(res, c) {
			arm.CallOK = false
			arm.Bad = append(arm.Bad, "the result is not the body decoder's result")
		}
		if ok {
			set := []string{}
			for _, b := range f.bodies {
				bv := it.load(st, Ptr{Obj: fam.Obj, Path: fam.Path + "." + b}, f.fieldType(b))
				if _, isNil := bv.(NilV); isNil {
					continue
				}
				set = append(set, b)
				if b == arm.Body {
					bp, isPtr := bv.(Ptr)
					rp, isRecv := c.Recv.(Ptr)
					if !isPtr || !isRecv || bp.Obj != rp.Obj || bp.Path != rp.Path {
						arm.StoreOK = false
						arm.Bad = append(arm.Bad, "the decoded body is not the one stored in the message")
					} else if !strings.HasPrefix(bp.Obj.Name, "alloc") {
						arm.StoreOK = false
						arm.Bad = append(arm.Bad, "the stored body is not freshly allocated")
					}
				}
			}
			if len(set) != 1 || set[0] != arm.Body {
				arm.StoreOK = false
				arm.Bad = append(arm.Bad, fmt.Sprintf("bodies populated: %v", set))
			}
		} else {
			arm.StoreOK = false
			arm.Bad = append(arm.Bad, "family struct not resolvable")
		}
		if !reuse {
			d.Arms = append(d.Arms, arm)
			continue
		}
		// second pass (a Message that already holds a message): must behave as the first
		found := false
		for i := range d.Arms {
			if d.Arms[i].Value != int64(v) {
				continue
			}
			found = true
			if d.Arms[i].Body != arm.Body || !arm.StoreOK || !arm.CallOK {
				d.Arms[i].StoreOK = d.Arms[i].StoreOK && arm.StoreOK && d.Arms[i].Body == arm.Body
				d.Arms[i].CallOK = d.Arms[i].CallOK && arm.CallOK
				for _, b := range arm.Bad {
					d.Arms[i].Bad = append(d.Arms[i].Bad, "when the Message already holds a message: "+b)
				}
			}
		}
		if !found {
			arm.StoreOK = false
			arm.Bad = append(arm.Bad, "a body is decoded only when the Message already holds a message")
			d.Arms = append(d.Arms, arm)
		}
	}
	// inputs shorter than a header
	for l := 0; l < f.n; l++ {
		rec, it, _, res, _, _, _ := f.runDecode(0x41, l, false)
		if len(it.Unsup) > 0 {
			f.undecided = append(f.undecided, fmt.Sprintf("input of %d octets: %s", l, strings.Join(it.Unsup, "; ")))
			return false
		}
		if len(rec.calls) != 0 || !it.errNonNil(res) {
			d.InitOK = false
		}
	}
	return true
}

// semEncodeFunc fills a DispFunc for a family encoder.
func (f *semFamily) semEncodeFunc(d *DispFunc) bool {
	d.Arms = nil
	d.DefaultErr, d.TagOK, d.InitOK, d.AllReturn = true, true, true, true
	for v := 0; v < 256; v++ {
		it := NewInterp(f.w)
		it.UseInitValues = true
		it.Fuel = 60000
	it.CheckBounds = true
		rec := &semRec{}
		for _, b := range f.bodies {
			rec.recordModel(it, f.w.SSAFunc(f.w.LookupFunc("nasMessage", b+".Encode"+b)))
		}
		st := it.NewState()
		msg, recv := it.SymbolicObj("msg")
		fam := it.NewObj("fam", true)
		st.mem[fam] = map[string]Value{fmt.Sprintf(".%s.Octet[%d]", f.hdr.Obj().Name(), f.idx): it.constBV(uint64(v), 8)}
		bodyObj := map[string]*MemObj{}
		for _, b := range f.bodies {
			bodyObj[b] = it.NewObj("body:"+b, true)
			st.mem[fam]["."+b] = Ptr{Obj: bodyObj[b]}
		}
		st.mem[msg] = map[string]Value{".GmmMessage": NilV{}, ".GsmMessage": NilV{}}
		st.mem[msg]["."+f.family] = Ptr{Obj: fam}
		buf := it.NewObj("buf", true)
		res := it.Call(f.fn, []Value{recv, Ptr{Obj: buf}}, st, 0)
		if len(it.Unsup) > 0 {
			f.undecided = append(f.undecided, fmt.Sprintf("message type %#02x: %s", v, strings.Join(it.Unsup, "; ")))
			return false
		}
		for _, c := range rec.calls {
			if c.Nested {
				d.TagOK = false
			}
		}
		if len(rec.calls) == 0 {
			if !it.errNonNil(res) {
				d.DefaultErr = false
				d.Arms = append(d.Arms, DispArm{Value: int64(v), Pos: f.fn.Pos(), Bad: []string{"no body is encoded and the result is not a provably non-nil error"}})
			}
			continue
		}
		c := rec.calls[0]
		arm := DispArm{Value: int64(v), Pos: f.fn.Pos(), StoreOK: true, CallOK: true, Body: strings.TrimPrefix(c.Callee, "Encode")}
		if len(rec.calls) != 1 {
			arm.CallOK = false
			arm.Bad = append(arm.Bad, fmt.Sprintf("%d body encoders are called", len(rec.calls)))
		}
		if !samePtr(c.Recv, bodyObj[arm.Body], "") {
			arm.CallOK = false
			arm.Bad = append(arm.Bad, "the encoder is not applied to the message's own body of that name")
		}
		if !samePtr(c.Arg, buf, "") {
			arm.CallOK = false
			arm.Bad = append(arm.Bad, "the encoder is not given the function's own buffer")
		}
		if !sameErr(res, c) {
			arm.CallOK = false
			arm.Bad = append(arm.Bad, "the result is not the body encoder's result")
		}
		if w := f.w.Writes(it, "msg", "fam"); len(w) > 0 {
			arm.CallOK = false
			arm.Bad = append(arm.Bad, "the dispatcher writes the message: "+strings.Join(w, ","))
		}
		d.Arms = append(d.Arms, arm)
	}
	return true
}

// Writes lists the cells of the named objects the run wrote.
func (w *World) Writes(it *Interp, objs ...string) []string {
	var out []string
	for k := range it.Writes {
		for _, o := range objs {
			if strings.HasPrefix(k, o+".") || k == o {
				out = append(out, k)
			}
		}
	}
	sort.Strings(out)
	return out
}

func newSemFamily(w *World, d *DispFunc) *semFamily {
	f := &semFamily{w: w, name: d.Name, family: d.Family, decode: d.Decode, idx: -1}
	short := d.Family + map[bool]string{true: "Decode", false: "Encode"}[d.Decode]
	f.fn = w.SSAFunc(w.LookupFunc("", "Message."+short))
	f.st, f.hdr, f.bodies = familyLayout(w, d.Family)
	if f.fn == nil || f.st == nil || f.hdr == nil || len(f.bodies) == 0 {
		f.undecided = append(f.undecided, "family struct layout not resolvable")
		return f
	}
	f.idx, f.n = semHeaderIndex(w, f.hdr)
	if f.idx < 0 {
		f.undecided = append(f.undecided, "GetMessageType does not return one header octet")
	}
	return f
}

// semPlainDecode decides PlainNasDecode.
func semPlainDecode(w *World, pd *PlainDecode) (decided bool, why []string) {
	fn := w.SSAFunc(w.LookupFunc("", "Message.PlainNasDecode"))
	gmm := w.SSAFunc(w.LookupFunc("", "Message.GmmMessageDecode"))
	gsm := w.SSAFunc(w.LookupFunc("", "Message.GsmMessageDecode"))
	if fn == nil || gmm == nil || gsm == nil {
		return false, []string{"PlainNasDecode or a family decoder is missing"}
	}
	run := func(v, L int, nilPtr, nilSlice bool) (*semRec, *Interp, Value, *MemObj, *MemObj) {
		it := NewInterp(w)
		it.UseInitValues = true
		it.Fuel = 20000
		it.CheckBounds = true
		rec := &semRec{}
		rec.recordModel(it, gmm)
		rec.recordModel(it, gsm)
		st := it.NewState()
		msg, recv := it.SymbolicObj("msg")
		in := it.NewObj("in", false)
		data := it.NewObj("data", true)
		st.mem[data] = map[string]Value{}
		if L > 0 {
			st.mem[data]["[0]"] = it.constBV(uint64(v), 8)
		}
		sl := SliceV{Obj: data, Len: L}
		if nilSlice {
			sl = SliceV{Nil: true, Len: 0}
		}
		st.mem[in] = map[string]Value{"": sl}
		var arg Value = Ptr{Obj: in}
		if nilPtr {
			arg = NilV{}
		}
		res := it.Call(fn, []Value{recv, arg}, st, 0)
		return rec, it, res, msg, in
	}
	out := PlainDecode{Arms: map[int64]string{}, ArmsArgOK: true, TailErr: true, EPDFromFirstOctet: true, GuardsDominate: true}
	// nil pointer, nil slice, empty slice
	rec, it, res, _, _ := run(0, 0, true, false)
	if len(it.Unsup) > 0 {
		out.GuardsDominate = false
	}
	out.NilGuard = len(it.Unsup) == 0 && len(rec.calls) == 0 && it.errNonNil(res)
	out.EmptyGuard = true
	for _, nilSlice := range []bool{true, false} {
		rec, it, res, _, _ = run(0, 0, false, nilSlice)
		if len(it.Unsup) > 0 {
			out.GuardsDominate = false
		}
		if len(it.Unsup) > 0 || len(rec.calls) != 0 || !it.errNonNil(res) {
			out.EmptyGuard = false
		}
	}
	for _, L := range []int{1, 6} {
		for v := 0; v < 256; v++ {
			rec, it, res, msg, in := run(v, L, false, false)
			if len(it.Unsup) > 0 {
				return false, []string{fmt.Sprintf("discriminator %#02x, %d octets: %s", v, L, strings.Join(it.Unsup, "; "))}
			}
			if len(rec.calls) == 0 {
				if !it.errNonNil(res) {
					out.TailErr = false
				}
				continue
			}
			c := rec.calls[0]
			if prev, seen := out.Arms[int64(v)]; seen && prev != c.Callee {
				out.EPDFromFirstOctet = false
			}
			out.Arms[int64(v)] = c.Callee
			if len(rec.calls) != 1 || c.Nested {
				out.EPDFromFirstOctet = false
			}
			if !samePtr(c.Recv, msg, "") || !samePtr(c.Arg, in, "") || !sameErr(res, c) {
				out.ArmsArgOK = false
			}
		}
	}
	out.Problems = nil
	*pd = out
	return true, nil
}

// semPlainEncode decides PlainNasEncode.
func semPlainEncode(w *World, pe *PlainEncode) (decided bool, why []string) {
	fn := w.SSAFunc(w.LookupFunc("", "Message.PlainNasEncode"))
	gmm := w.SSAFunc(w.LookupFunc("", "Message.GmmMessageEncode"))
	gsm := w.SSAFunc(w.LookupFunc("", "Message.GsmMessageEncode"))
	if fn == nil || gmm == nil || gsm == nil {
		return false, []string{"PlainNasEncode or a family encoder is missing"}
	}
	out := PlainEncode{CallOK: true}
	for _, sh := range []struct{ gmm, gsm bool }{{true, false}, {false, true}, {false, false}, {true, true}} {
		it := NewInterp(w)
		it.UseInitValues = true
		it.Fuel = 20000
		it.CheckBounds = true
		rec := &semRec{}
		rec.recordModel(it, gmm)
		rec.recordModel(it, gsm)
		it.Models["(*bytes.Buffer).Bytes"] = func(it *Interp, st *state, call *ssa.CallCommon, args []Value) (Value, bool) {
			p, ok := args[0].(Ptr)
			if !ok {
				return nil, false
			}
			return HandleV{"bytes-of", p.Obj.id}, true
		}
		st := it.NewState()
		msg, recv := it.SymbolicObj("msg")
		st.mem[msg] = map[string]Value{".GmmMessage": NilV{}, ".GsmMessage": NilV{}}
		if sh.gmm {
			st.mem[msg][".GmmMessage"] = Ptr{Obj: it.NewObj("gmm", true)}
		}
		if sh.gsm {
			st.mem[msg][".GsmMessage"] = Ptr{Obj: it.NewObj("gsm", true)}
		}
		res := it.Call(fn, []Value{recv}, st, 0)
		if len(it.Unsup) > 0 {
			return false, []string{fmt.Sprintf("gmm=%v gsm=%v: %s", sh.gmm, sh.gsm, strings.Join(it.Unsup, "; "))}
		}
		tup, _ := res.(TupleV)
		if len(tup) != 2 {
			return false, []string{"result is not a (bytes, error) pair"}
		}
		switch {
		case !sh.gmm && !sh.gsm:
			out.TailErr = len(rec.calls) == 0 && it.errNonNil(tup[1])
		default:
			good := len(rec.calls) == 1
			if good {
				c := rec.calls[0]
				want := map[string]bool{}
				if sh.gmm {
					want["GmmMessageEncode"] = true
				}
				if sh.gsm {
					want["GsmMessageEncode"] = true
				}
				bp, isPtr := c.Arg.(Ptr)
				h, isH := tup[0].(HandleV)
				good = want[c.Callee] && !c.Nested && samePtr(c.Recv, msg, "") && sameErr(tup[1], c) &&
					isPtr && isH && h.Kind == "bytes-of" && h.ID == bp.Obj.id && strings.HasPrefix(bp.Obj.Name, "alloc")
				if good && sh.gmm != sh.gsm {
					out.Branches = append(out.Branches, strings.TrimSuffix(c.Callee, "Encode"))
				}
			}
			if !good {
				out.CallOK = false
			}
		}
	}
	*pe = out
	return true, nil
}

// refineDispatch replaces the shape extractor's records by the semantic decision where that is decided.
func refineDispatch(w *World, d *Dispatch) {
	d.Semantic = map[string]string{}
	names := make([]string, 0, len(d.Funcs))
	for n := range d.Funcs {
		names = append(names, n)
	}
	sort.Strings(names)
	for _, n := range names {
		df := d.Funcs[n]
		f := newSemFamily(w, df)
		ok := len(f.undecided) == 0
		var nd DispFunc
		if ok {
			nd = *df
			nd.HeaderIdx, nd.HeaderLen = f.idx, f.n
			if df.Decode {
				ok = f.semDecodeFunc(&nd)
			} else {
				ok = f.semEncodeFunc(&nd)
			}
		}
		if ok {
			nd.Problems = nil
			// keep the shape extractor's positions and constant names for the arms it also found
			byVal := map[int64]DispArm{}
			for _, a := range df.Arms {
				byVal[a.Value] = a
			}
			for i := range nd.Arms {
				if a, ok := byVal[nd.Arms[i].Value]; ok {
					nd.Arms[i].Pos, nd.Arms[i].ConstName = a.Pos, a.ConstName
				}
			}
			*df = nd
			d.Semantic[n] = "decided by evaluation of all 256 message-type values"
		} else {
			d.Semantic[n] = "evaluation undecided (" + strings.Join(f.undecided, "; ") + "); shape extractor's result used"
			if why := strings.Join(f.undecided, "; "); len(df.Problems) > 0 || strings.Contains(why, "run-time panic") {
				df.problem(df.Decl.Pos(), "abstract evaluation of the 256 message-type values is undecided: "+why)
			}
		}
	}
	if d.Plain != nil {
		if ok, why := semPlainDecode(w, d.Plain); ok {
			d.Semantic["PlainNasDecode"] = "decided by evaluation of all 256 discriminator values, nil and empty inputs"
		} else {
			d.Semantic["PlainNasDecode"] = "evaluation undecided (" + strings.Join(why, "; ") + "); shape extractor's result used"
			if y := strings.Join(why, "; "); len(d.Plain.Problems) > 0 || strings.Contains(y, "run-time panic") {
				d.Plain.Problems = append(d.Plain.Problems, Problem{Func: "nas.(*Message).PlainNasDecode", Pos: token.NoPos, Msg: "abstract evaluation of the 256 discriminator values is undecided: " + y})
			}
		}
	}
	if d.PEnc != nil {
		if ok, why := semPlainEncode(w, d.PEnc); ok {
			d.Semantic["PlainNasEncode"] = "decided by evaluation of the four family-pointer states"
		} else {
			d.Semantic["PlainNasEncode"] = "evaluation undecided (" + strings.Join(why, "; ") + "); shape extractor's result used"
			if y := strings.Join(why, "; "); len(d.PEnc.Problems) > 0 || strings.Contains(y, "run-time panic") {
				d.PEnc.Problems = append(d.PEnc.Problems, Problem{Func: "nas.(*Message).PlainNasEncode", Pos: token.NoPos, Msg: "abstract evaluation is undecided: " + y})
			}
		}
	}
}
