package main

// E3 (part 5): calls — builtins, repository callees (analysed in the caller's context),
// dynamic calls (VTA callees), stdlib contracts.

import (
	"fmt"
	"go/token"
	"go/types"
	"strings"

	"golang.org/x/tools/go/ssa"
)

func (sa *Safe) setState(dst, src *State) {
	dst.itv, dst.nils, dst.facts, dst.mem, dst.guards, dst.dead, dst.logs, dst.written, dst.first = src.itv, src.nils, src.facts, src.mem, src.guards, src.dead, src.logs, src.written, src.first
}

func (sa *Safe) bindResult(fr *frame, x *ssa.Call, vals []AVal) {
	switch len(vals) {
	case 0:
	case 1:
		fr.regs[x] = vals[0]
	default:
		fr.regs[x] = AVal{Kind: avTuple, Elts: vals, Type: x.Type()}
	}
}

func (sa *Safe) call(fr *frame, st *State, x *ssa.Call) {
	com := x.Common()
	if b, ok := com.Value.(*ssa.Builtin); ok {
		sa.builtin(fr, st, x, b)
		return
	}
	var args []AVal
	if com.IsInvoke() {
		recv := sa.val(fr, st, com.Value)
		sa.needNonNil(fr, st, recv, exprText(com.Value), x.Pos())
		args = append(args, recv)
	}
	if !com.IsInvoke() {
		// a call through a function value (table slot, field, parameter): calling nil panics
		switch com.Value.(type) {
		case *ssa.Function, *ssa.MakeClosure, *ssa.Builtin:
		default:
			fv := sa.val(fr, st, com.Value)
			sa.needNonNil(fr, st, fv, exprText(com.Value), x.Pos())
		}
	}
	for _, a := range com.Args {
		args = append(args, sa.val(fr, st, a))
	}
	callees := sa.eff.callees(x)
	if com.IsInvoke() && len(callees) > 0 {
		// a single known dynamic type: use exactly its method
		recv := args[0]
		if recv.Inner != nil && len(recv.DynT) == 1 {
			if m := sa.w.Prog.LookupMethod(recv.DynT[0], com.Method.Pkg(), com.Method.Name()); m != nil {
				callees = []*ssa.Function{m}
			}
		}
	}
	if len(callees) == 0 {
		if fv, ok := com.Value.(*ssa.Function); ok {
			callees = []*ssa.Function{fv}
		}
	}
	if len(callees) == 0 {
		sa.unsup(x.Pos(), "call with no resolvable callee in %s: %s", fr.fn.String(), exprText(x))
		sa.havocArgs(st, args)
		sa.bindFresh(fr, st, x)
		return
	}
	if len(callees) == 1 {
		res := sa.callOne(fr, st, x, callees[0], args, 0)
		if res.none {
			st.dead = true
			sa.bindFresh(fr, st, x)
			return
		}
		sa.setState(st, res.st)
		sa.bindResult(fr, x, res.vals)
		return
	}
	var cases []retCase
	for i, c := range callees {
		res := sa.callOne(fr, st.clone(), x, c, args, i+1)
		if !res.none && !res.st.dead {
			cases = append(cases, retCase{res.st, res.vals})
		}
	}
	fr.at(x)
	sig := com.Signature()
	res := sa.joinCases(fr, sig, exprText(x), cases)
	if res.none {
		st.dead = true
		sa.bindFresh(fr, st, x)
		return
	}
	sa.setState(st, res.st)
	sa.bindResult(fr, x, res.vals)
}

func (sa *Safe) bindFresh(fr *frame, st *State, x *ssa.Call) {
	t := x.Type()
	if tv, ok := t.(*types.Tuple); ok {
		var el []AVal
		for i := 0; i < tv.Len(); i++ {
			el = append(el, sa.freshM(fr, st, tv.At(i).Type(), fmt.Sprintf("%s#%d", exprText(x), i), nilMaybe))
		}
		fr.regs[x] = AVal{Kind: avTuple, Elts: el, Type: t}
		return
	}
	fr.regs[x] = sa.freshM(fr, st, t, exprText(x), nilMaybe)
}

func (sa *Safe) havocArgs(st *State, args []AVal) {
	for _, a := range args {
		switch a.Kind {
		case avPtr:
			sa.havoc(st, a.Obj, a.Path)
		case avSlice:
			sa.havocElems(st, a)
		}
	}
}

// callOne analyses one callee in the current context. st may be mutated / replaced.
func (sa *Safe) callOne(fr *frame, st *State, x *ssa.Call, callee *ssa.Function, args []AVal, alt int) callResult {
	name := callee.String()
	// invoke: adapt the receiver (interface value -> concrete receiver)
	if x.Common().IsInvoke() && len(args) > 0 {
		recv := args[0]
		if recv.Inner != nil && len(recv.DynT) == 1 {
			args = append([]AVal{*recv.Inner}, args[1:]...)
		} else if callee.Signature.Recv() != nil {
			fr.at(x)
			fr.slot = 500 + 20*alt
			r := sa.freshM(fr, st, callee.Signature.Recv().Type(), "receiver of "+callee.Name(), nilNo)
			r.NonNil = true
			args = append([]AVal{r}, args[1:]...)
		}
	}
	if repoFn(callee) {
		for _, f := range sa.stack {
			if f == callee {
				if fr.fn == callee && rankedSelfRecursion(callee, x) {
					// R-rec: the recursive call passes param-1 of an unsigned parameter under the guard param != 0
					sa.havocArgs(st, args)
					fr.at(x)
					li := sa.Loops[SSAFuncName(callee)+"#rec"]
					if li == nil {
						sa.Loops[SSAFuncName(callee)+"#rec"] = &LoopInfo{Fn: SSAFuncName(callee), Pos: x.Pos(), Rule: "R-rec", OK: true}
					}
					return sa.unknownResult(fr, st, callee.Signature)
				}
				sa.unsup(x.Pos(), "recursion through %s is not supported by the ranking rules", callee.String())
				sa.havocArgs(st, args)
				fr.at(x)
				return sa.unknownResult(fr, st, callee.Signature)
			}
		}
		if len(sa.stack) >= sa.maxDepth {
			sa.unsup(x.Pos(), "call depth limit reached at %s", callee.String())
			sa.havocArgs(st, args)
			fr.at(x)
			return sa.unknownResult(fr, st, callee.Signature)
		}
		k := memoKey{x, alt, name}
		child := fr.child[k]
		if child == nil {
			child = sa.newFrame(callee, fr.depth+1)
			fr.child[k] = child
		}
		// captured values of a closure called here
		if !x.Common().IsInvoke() && len(callee.FreeVars) > 0 {
			if fv := sa.val(fr, st, x.Common().Value); fv.Clo != nil && fv.Clo.fn == callee {
				for i, v := range callee.FreeVars {
					if i < len(fv.Clo.bind) {
						child.regs[v] = fv.Clo.bind[i]
					}
				}
			}
		}
		sa.stack = append(sa.stack, callee)
		res := sa.analyzeFunc(child, args, st)
		sa.stack = sa.stack[:len(sa.stack)-1]
		if !res.none && res.st != nil {
			sa.pruneFacts(res.st, res.vals)
		}
		return res
	}
	fr.at(x)
	fr.slot = 100 + 50*alt
	return sa.stdlib(fr, st, x, callee, name, args)
}

func (sa *Safe) unknownResult(fr *frame, st *State, sig *types.Signature) callResult {
	var vals []AVal
	for i := 0; i < sig.Results().Len(); i++ {
		vals = append(vals, sa.freshM(fr, st, sig.Results().At(i).Type(), fmt.Sprintf("result#%d", i), nilMaybe))
	}
	return callResult{st: st, vals: vals}
}

func (sa *Safe) builtin(fr *frame, st *State, x *ssa.Call, b *ssa.Builtin) {
	com := x.Common()
	var args []AVal
	for _, a := range com.Args {
		args = append(args, sa.val(fr, st, a))
	}
	switch b.Name() {
	case "len", "cap":
		v := args[0]
		switch t := com.Args[0].Type().Underlying().(type) {
		case *types.Array:
			fr.regs[x] = AVal{Kind: avInt, Lin: linConst(t.Len()), Type: x.Type()}
			return
		case *types.Pointer:
			if a, ok := t.Elem().Underlying().(*types.Array); ok {
				fr.regs[x] = AVal{Kind: avInt, Lin: linConst(a.Len()), Type: x.Type()}
				return
			}
		}
		if v.Len != nil && b.Name() == "len" {
			fr.regs[x] = AVal{Kind: avInt, Lin: v.Len, Type: x.Type()}
			return
		}
		if v.Len != nil { // cap >= len
			c := sa.boundedAtom(fr, st, x.Type(), exprText(x), Itv{0, posInf})
			st.assume(v.Len.add(c.Lin, -1))
			fr.regs[x] = c
			return
		}
		fr.regs[x] = sa.boundedAtom(fr, st, x.Type(), exprText(x), Itv{0, posInf})
	case "copy":
		sa.havocElems(st, args[0])
		n := sa.boundedAtom(fr, st, x.Type(), exprText(x), Itv{0, posInf})
		if args[0].Len != nil {
			st.assume(n.Lin.add(args[0].Len, -1))
		}
		if args[1].Len != nil {
			st.assume(n.Lin.add(args[1].Len, -1))
		}
		fr.regs[x] = n
	case "append":
		base := args[0]
		var ln *Lin
		if base.Len != nil && len(args) > 1 && args[1].Len != nil {
			ln = base.Len.add(args[1].Len, 1)
		} else {
			ln = linAtom(sa.mAtom(fr, "len("+exprText(x)+")", Itv{0, posInf}))
		}
		o := sa.mObj(fr, exprText(x), true)
		r := AVal{Kind: avSlice, Obj: o, Len: ln, Type: x.Type()}
		if len(args) > 1 && args[1].Len != nil && st.linItv(args[1].Len).Lo >= 1 {
			r.NonNil = true
		} else if sa.nilOfVal(st, base) == nilNo {
			r.NonNil = true
		} else {
			r.Sym, r.HasSym = sa.mSym(fr, exprText(x)), true
		}
		sa.addAlloc(AllocSite{Fn: SSAFuncName(fr.fn), Pos: x.Pos(), What: "append", Size: sa.u.linString(ln), Max: st.linItv(ln).Hi})
		fr.regs[x] = r
	case "delete", "print", "println":
	case "min", "max":
		// integers: the result is bounded by every argument (min: r <= a_i and r >= the least lower
		// bound; max: mirrored); a provably smallest / largest argument is the result itself
		allInt := len(args) > 0
		for _, a := range args {
			if a.Kind != avInt || a.Lin == nil {
				allInt = false
			}
		}
		if !allInt {
			fr.regs[x] = sa.freshM(fr, st, x.Type(), exprText(x), nilMaybe)
			return
		}
		isMin := b.Name() == "min"
		for i, a := range args {
			best := true
			for j, o := range args {
				if i == j {
					continue
				}
				d := a.Lin.add(o.Lin, -1) // a - o
				if !isMin {
					d = d.scale(-1)
				}
				if !st.prove(d) {
					best = false
				}
			}
			if best {
				fr.regs[x] = AVal{Kind: avInt, Lin: a.Lin, Type: x.Type()}
				return
			}
		}
		iv := st.linItv(args[0].Lin)
		for _, a := range args[1:] {
			ai := st.linItv(a.Lin)
			if isMin {
				iv = Itv{minI64(iv.Lo, ai.Lo), minI64(iv.Hi, ai.Hi)}
			} else {
				iv = Itv{maxI64(iv.Lo, ai.Lo), maxI64(iv.Hi, ai.Hi)}
			}
		}
		r := sa.boundedAtom(fr, st, x.Type(), exprText(x), iv)
		for _, a := range args {
			d := r.Lin.add(a.Lin, -1) // r - a <= 0 for min
			if !isMin {
				d = d.scale(-1)
			}
			st.assume(d)
		}
		fr.regs[x] = r
	default:
		sa.unsup(x.Pos(), "builtin %s in %s", b.Name(), fr.fn.String())
		sa.bindFresh(fr, st, x)
	}
}

// ---------------------------------------------------------------------------------------------
// stdlib contracts (panic preconditions, result facts, writes). Each entry rests on the
// documented behaviour of the function (see spec/stdlib_contracts.json for the sentences).

func (sa *Safe) errResult(fr *frame, st *State, desc string) AVal {
	sy := sa.mSym(fr, desc)
	return AVal{Kind: avIface, Sym: sy, HasSym: true, Type: types.Universe.Lookup("error").Type()}
}

func (sa *Safe) nonNilErr() AVal {
	return AVal{Kind: avIface, NonNil: true, Type: types.Universe.Lookup("error").Type()}
}

func (sa *Safe) sliceResult(fr *frame, st *State, t types.Type, desc string, ln *Lin, nonNil bool) AVal {
	o := sa.mObj(fr, desc, false)
	r := AVal{Kind: avSlice, Obj: o, Len: ln, Type: t, NonNil: nonNil}
	if !nonNil {
		r.Sym, r.HasSym = sa.mSym(fr, desc), true
	}
	if ln == nil {
		r.Len = linAtom(sa.mAtom(fr, "len("+desc+")", Itv{0, posInf}))
	}
	return r
}

// bufPtr unwraps an argument that is (an interface holding) a pointer to a modelled bytes.Buffer.
func bufPtr(v AVal) (AVal, bool) {
	if v.Kind == avIface && v.Inner != nil {
		v = *v.Inner
	}
	if v.Kind == avPtr && v.Obj != nil && isReaderType(v.Type) {
		return v, true
	}
	return v, false
}

func (sa *Safe) bufLen(fr *frame, st *State, b AVal) *Lin {
	if m := st.mem[b.Obj]; m != nil {
		if v, ok := m[b.Path+".len"]; ok && v.Lin != nil {
			return v.Lin
		}
	}
	return nil
}

func (sa *Safe) setBufLen(st *State, b AVal, l *Lin) {
	if st.mem[b.Obj] == nil {
		st.mem[b.Obj] = map[string]AVal{}
	}
	if l == nil {
		delete(st.mem[b.Obj], b.Path+".len")
		return
	}
	st.mem[b.Obj][b.Path+".len"] = AVal{Kind: avInt, Lin: l, Type: types.Typ[types.Int]}
}

// bufShrink: after a read the remaining length is some value in [0, old].
func (sa *Safe) bufShrink(fr *frame, st *State, b AVal) {
	old := sa.bufLen(fr, st, b)
	n := sa.boundedAtom(fr, st, types.Typ[types.Int], "remaining("+b.Obj.Desc+")", Itv{0, posInf})
	if old != nil {
		st.assume(n.Lin.add(old, -1))
	}
	sa.setBufLen(st, b, n.Lin)
}

// wireSize: number of octets binary.Write emits for a value (nil if unknown).
func (sa *Safe) wireSize(st *State, v AVal, t types.Type) *Lin {
	if v.Kind == avIface && v.Inner != nil {
		return sa.wireSize(st, *v.Inner, v.DynT[0])
	}
	switch u := t.Underlying().(type) {
	case *types.Basic:
		if u.Info()&(types.IsInteger|types.IsBoolean) != 0 && u.Kind() != types.Int && u.Kind() != types.Uint {
			return linConst(sa.w.sizeOf(t))
		}
	case *types.Slice:
		if v.Len != nil {
			if b, ok := u.Elem().Underlying().(*types.Basic); ok && b.Info()&types.IsInteger != 0 {
				return v.Len.scale(sa.w.sizeOf(u.Elem()))
			}
		}
	case *types.Pointer:
		switch e := u.Elem().Underlying().(type) {
		case *types.Basic:
			if e.Info()&(types.IsInteger|types.IsBoolean) != 0 && e.Kind() != types.Int && e.Kind() != types.Uint {
				return linConst(sa.w.sizeOf(u.Elem()))
			}
		case *types.Array, *types.Struct:
			if n, ok := fixedWireSize(u.Elem()); ok {
				return linConst(n)
			}
		case *types.Slice:
			// *[]byte: length of the pointed-to slice
			if v.Kind == avPtr && v.Obj != nil {
				if m := st.mem[v.Obj]; m != nil {
					if sv, ok := m[v.Path]; ok && sv.Len != nil {
						return sv.Len
					}
				}
			}
		}
	case *types.Array:
		if n, ok := fixedWireSize(t); ok {
			return linConst(n)
		}
	case *types.Struct:
		if n, ok := fixedWireSize(t); ok {
			return linConst(n)
		}
	}
	return nil
}

// fixedWireSize: encoding/binary size of a fixed-size value (no padding): sized integers,
// booleans, arrays and structs of those.
func fixedWireSize(t types.Type) (int64, bool) {
	switch u := t.Underlying().(type) {
	case *types.Basic:
		switch u.Kind() {
		case types.Bool, types.Int8, types.Uint8:
			return 1, true
		case types.Int16, types.Uint16:
			return 2, true
		case types.Int32, types.Uint32, types.Float32:
			return 4, true
		case types.Int64, types.Uint64, types.Float64:
			return 8, true
		}
	case *types.Array:
		if e, ok := fixedWireSize(u.Elem()); ok {
			return e * u.Len(), true
		}
	case *types.Struct:
		var n int64
		for i := 0; i < u.NumFields(); i++ {
			e, ok := fixedWireSize(u.Field(i).Type())
			if !ok {
				return 0, false
			}
			n += e
		}
		return n, true
	}
	return 0, false
}

func (sa *Safe) stdlib(fr *frame, st *State, x *ssa.Call, callee *ssa.Function, name string, args []AVal) callResult {
	desc := exprText(x)
	sig := callee.Signature
	one := func(v AVal) callResult { return callResult{st: st, vals: []AVal{v}} }
	none := func() callResult { return callResult{st: st} }
	need := func(rule string, a, b *Lin, msg string) { sa.needLE(fr, st, rule, a, b, desc, x.Pos(), msg) }
	switch name {
	case "bytes.NewBuffer", "bytes.NewReader", "bytes.NewBufferString":
		o := sa.mObj(fr, desc, false)
		v := AVal{Kind: avPtr, Obj: o, NonNil: true, Type: sig.Results().At(0).Type()}
		sa.havoc(st, o, "")
		delete(st.logs, o)
		if args[0].Len != nil {
			sa.setBufLen(st, v, args[0].Len)
			if c, ok := constOf(st, args[0].Len); ok && c == 0 {
				st.logs[o] = []logEntry{}
				sa.noteBuffer(fr, o)
			}
		}
		return one(v)
	case "(*bytes.Buffer).Len", "(*bytes.Reader).Len":
		sa.needNonNil(fr, st, args[0], exprText(x.Call.Args[0]), x.Pos())
		if b, ok := bufPtr(args[0]); ok {
			if l := sa.bufLen(fr, st, b); l != nil {
				return one(AVal{Kind: avInt, Lin: l, Type: types.Typ[types.Int]})
			}
		}
		return one(sa.boundedAtom(fr, st, types.Typ[types.Int], desc, Itv{0, posInf}))
	case "(*bytes.Buffer).Next":
		sa.needNonNil(fr, st, args[0], exprText(x.Call.Args[0]), x.Pos())
		need("safe.stdlib-pre", linConst(0), args[1].Lin, "bytes.Buffer.Next panics for a negative count")
		if b, ok := bufPtr(args[0]); ok && args[1].Lin != nil {
			// Next(n) returns min(n, unread) octets: exactly n when the buffer provably holds n
			if l := sa.bufLen(fr, st, b); l != nil && st.prove(args[1].Lin.add(l, -1)) {
				sa.setBufLen(st, b, l.add(args[1].Lin, -1))
				return one(sa.sliceResult(fr, st, sig.Results().At(0).Type(), desc, args[1].Lin, false))
			}
		}
		ln := sa.boundedAtom(fr, st, types.Typ[types.Int], "len("+desc+")", Itv{0, posInf})
		if args[1].Lin != nil {
			st.assume(ln.Lin.add(args[1].Lin, -1))
		}
		if b, ok := bufPtr(args[0]); ok {
			if l := sa.bufLen(fr, st, b); l != nil {
				st.assume(ln.Lin.add(l, -1))
			}
			sa.bufShrink(fr, st, b)
		}
		return one(sa.sliceResult(fr, st, sig.Results().At(0).Type(), desc, ln.Lin, false))
	case "(*bytes.Buffer).Bytes":
		sa.needNonNil(fr, st, args[0], exprText(x.Call.Args[0]), x.Pos())
		if b, ok := bufPtr(args[0]); ok {
			if l := sa.bufLen(fr, st, b); l != nil {
				return one(sa.sliceResult(fr, st, sig.Results().At(0).Type(), desc, l, false))
			}
		}
		return one(sa.sliceResult(fr, st, sig.Results().At(0).Type(), desc, nil, false))
	case "(*bytes.Buffer).String":
		return one(sa.freshM(fr, st, types.Typ[types.String], desc, nilMaybe))
	case "(*bytes.Buffer).ReadByte", "(*bytes.Reader).ReadByte":
		sa.needNonNil(fr, st, args[0], exprText(x.Call.Args[0]), x.Pos())
		return callResult{st: st, vals: []AVal{sa.freshM(fr, st, types.Typ[types.Uint8], desc, nilMaybe), sa.errResult(fr, st, desc+".err")}}
	case "io.ReadFull", "io.ReadAtLeast":
		// reads into its second argument from a reader; never more than len(buf), error if fewer
		sa.havocElems(st, args[1])
		if b, ok := bufPtr(args[0]); ok {
			sa.bufShrink(fr, st, b)
		}
		n := sa.boundedAtom(fr, st, types.Typ[types.Int], desc, Itv{0, posInf})
		if args[1].Len != nil {
			st.assume(n.Lin.add(args[1].Len, -1))
		}
		return callResult{st: st, vals: []AVal{n, sa.errResult(fr, st, desc+".err")}}
	case "(*bytes.Buffer).Write", "(*bytes.Buffer).WriteString", "(*bytes.Buffer).Read", "(*bytes.Reader).Read":
		sa.needNonNil(fr, st, args[0], exprText(x.Call.Args[0]), x.Pos())
		if strings.HasSuffix(name, ".Read") {
			sa.havocElems(st, args[1])
			if b, ok := bufPtr(args[0]); ok {
				sa.bufShrink(fr, st, b)
			}
		} else if b, ok := bufPtr(args[0]); ok {
			if l := sa.bufLen(fr, st, b); l != nil && args[1].Len != nil {
				sa.setBufLen(st, b, l.add(args[1].Len, 1))
			} else {
				sa.setBufLen(st, b, nil)
			}
			st.appendLog(b.Obj, logEntry{Size: args[1].Len, Desc: exprText(x.Call.Args[1]), Pos: int(x.Pos())})
		}
		return callResult{st: st, vals: []AVal{sa.boundedAtom(fr, st, types.Typ[types.Int], desc, Itv{0, posInf}), sa.errResult(fr, st, desc+".err")}}
	case "(*bytes.Buffer).WriteByte":
		sa.needNonNil(fr, st, args[0], exprText(x.Call.Args[0]), x.Pos())
		if b, ok := bufPtr(args[0]); ok {
			if l := sa.bufLen(fr, st, b); l != nil {
				sa.setBufLen(st, b, l.addConst(1))
			}
			st.appendLog(b.Obj, logEntry{Size: linConst(1), Val: args[1].Lin, Desc: exprText(x.Call.Args[1]), Pos: int(x.Pos())})
		}
		return one(sa.errResult(fr, st, desc+".err"))
	case "(*bytes.Buffer).ReadFrom":
		sa.needNonNil(fr, st, args[0], exprText(x.Call.Args[0]), x.Pos())
		if b, ok := bufPtr(args[0]); ok {
			l := sa.bufLen(fr, st, b)
			if src, ok2 := bufPtr(args[1]); ok2 && l != nil && sa.bufLen(fr, st, src) != nil {
				st.appendLog(b.Obj, logEntry{Size: sa.bufLen(fr, st, src), Desc: "contents of " + exprText(x.Call.Args[1]), Pos: int(x.Pos())})
				sa.setBufLen(st, b, l.add(sa.bufLen(fr, st, src), 1))
				sa.setBufLen(st, src, linConst(0))
			} else {
				st.appendLog(b.Obj, logEntry{Desc: "ReadFrom", Pos: int(x.Pos())})
				sa.setBufLen(st, b, nil)
			}
		}
		return callResult{st: st, vals: []AVal{sa.boundedAtom(fr, st, types.Typ[types.Int64], desc, Itv{0, posInf}), sa.errResult(fr, st, desc+".err")}}
	case "(*bytes.Buffer).Reset":
		return none()
	case "encoding/binary.Read":
		// writes *data (by copy); never panics for fixed-size targets and byte slices, returns an error instead
		d := args[2]
		if d.Inner != nil {
			d = *d.Inner
		}
		switch d.Kind {
		case avPtr:
			sa.needNonNil(fr, st, d, exprText(x.Call.Args[2]), x.Pos())
			sa.havoc(st, d.Obj, d.Path)
		case avSlice:
			sa.havocElems(st, d)
		default:
			sa.unsup(x.Pos(), "binary.Read into an untracked target in %s", fr.fn.String())
		}
		if b, ok := bufPtr(args[0]); ok {
			sa.bufShrink(fr, st, b)
		}
		return one(sa.errResult(fr, st, desc))
	case "encoding/binary.Write":
		if b, ok := bufPtr(args[0]); ok {
			l := sa.bufLen(fr, st, b)
			var sz *Lin
			if l != nil {
				sz = sa.wireSize(st, args[2], x.Call.Args[2].Type())
			}
			if l != nil && sz != nil {
				sa.setBufLen(st, b, l.add(sz, 1))
			} else {
				sa.setBufLen(st, b, nil)
			}
			d := args[2]
			if d.Kind == avIface && d.Inner != nil {
				d = *d.Inner
			}
			if sz == nil {
				sz = sa.wireSize(st, args[2], x.Call.Args[2].Type())
			}
			var val *Lin
			if d.Kind == avInt {
				val = d.Lin
			} else if d.Kind == avPtr && d.Obj != nil {
				// a pointer to an integer: the value written is the pointee
				if m := st.mem[d.Obj]; m != nil {
					if pv, ok := m[d.Path]; ok && pv.Kind == avInt {
						val = pv.Lin
					}
				}
			}
			st.appendLog(b.Obj, logEntry{Size: sz, Val: val, Desc: exprText(x.Call.Args[2]), Pos: int(x.Pos())})
		}
		return one(sa.errResult(fr, st, desc))
	case "(encoding/binary.bigEndian).Uint16", "(encoding/binary.bigEndian).Uint32", "(encoding/binary.bigEndian).Uint64",
		"(encoding/binary.littleEndian).Uint16", "(encoding/binary.littleEndian).Uint32", "(encoding/binary.littleEndian).Uint64":
		n := map[string]int64{"16": 2, "32": 4, "64": 8}[name[len(name)-2:]]
		b := args[len(args)-1]
		need("safe.stdlib-pre", linConst(n), b.Len, fmt.Sprintf("%s needs at least %d octets", callee.Name(), n))
		return one(sa.freshM(fr, st, sig.Results().At(0).Type(), desc, nilMaybe))
	case "(encoding/binary.bigEndian).PutUint16", "(encoding/binary.bigEndian).PutUint32", "(encoding/binary.bigEndian).PutUint64",
		"(encoding/binary.littleEndian).PutUint16", "(encoding/binary.littleEndian).PutUint32", "(encoding/binary.littleEndian).PutUint64":
		n := map[string]int64{"16": 2, "32": 4, "64": 8}[name[len(name)-2:]]
		b := args[len(args)-2]
		need("safe.stdlib-pre", linConst(n), b.Len, fmt.Sprintf("%s needs at least %d octets", callee.Name(), n))
		sa.havocElems(st, b)
		return none()
	case "(encoding/binary.bigEndian).AppendUint16", "(encoding/binary.bigEndian).AppendUint32", "(encoding/binary.bigEndian).AppendUint64",
		"(encoding/binary.littleEndian).AppendUint16", "(encoding/binary.littleEndian).AppendUint32", "(encoding/binary.littleEndian).AppendUint64":
		n := map[string]int64{"16": 2, "32": 4, "64": 8}[name[len(name)-2:]]
		b := args[len(args)-2]
		var ln *Lin
		if b.Len != nil {
			ln = b.Len.addConst(n)
		}
		return one(sa.sliceResult(fr, st, sig.Results().At(0).Type(), desc, ln, true))
	case "fmt.Errorf", "errors.New":
		return one(sa.nonNilErr())
	case "encoding/hex.EncodeToString":
		// allocates two characters per octet of its argument
		if args[0].Len != nil {
			if blockInCycle(x.Block()) {
				// executed once it is linear in the input (allowed); in a loop over the input it is not
				sa.addAlloc(AllocSite{Fn: SSAFuncName(fr.fn), Pos: x.Pos(), What: "hex.EncodeToString(" + exprText(x.Call.Args[0]) + ") inside a loop", Size: sa.u.linString(args[0].Len.scale(2)), Max: satMul(st.linItv(args[0].Len).Hi, 2)})
			}
			return one(AVal{Kind: avStr, Len: args[0].Len.scale(2), Type: types.Typ[types.String]})
		}
		if blockInCycle(x.Block()) {
			sa.addAlloc(AllocSite{Fn: SSAFuncName(fr.fn), Pos: x.Pos(), What: "hex.EncodeToString(" + exprText(x.Call.Args[0]) + ") inside a loop", Size: "unknown", Max: posInf})
		}
		return one(sa.freshM(fr, st, types.Typ[types.String], desc, nilMaybe))
	case "encoding/hex.DecodeString":
		ln := sa.boundedAtom(fr, st, types.Typ[types.Int], "len("+desc+")", Itv{0, posInf})
		if args[0].Len != nil {
			st.assume(ln.Lin.scale(2).add(args[0].Len, -1)) // 2*len(result) <= len(s)
		}
		res := sa.sliceResult(fr, st, sig.Results().At(0).Type(), desc, ln.Lin, false)
		er := sa.errResult(fr, st, desc+".err")
		// on success the whole string was decoded: len(s) == 2*len(result)
		if args[0].Len != nil {
			p := &Partial{itv: map[atomID]Itv{}, nils: map[symID]nilness{}, facts: map[string]*Lin{}}
			f := args[0].Len.add(ln.Lin, -2)
			p.facts[f.key()] = f
			st.guards[er.Sym] = &Guard{WhenNil: p}
		}
		return callResult{st: st, vals: []AVal{res, er}}
	case "encoding/hex.Decode":
		// hex.Decode(dst, src) writes len(src)/2 octets into dst without checking its size: it
		// panics (index out of range) unless 2*len(dst) >= len(src) - 1
		if args[0].Len != nil && args[1].Len != nil {
			need("safe.stdlib-pre", args[1].Len.addConst(-1), args[0].Len.scale(2), "hex.Decode panics when dst is shorter than len(src)/2")
		} else {
			sa.unsup(x.Pos(), "hex.Decode with unknown operand lengths in %s", fr.fn.String())
		}
		sa.havocElems(st, args[0])
		n := sa.boundedAtom(fr, st, types.Typ[types.Int], desc+".n", Itv{0, posInf})
		if args[0].Len != nil {
			st.assume(n.Lin.add(args[0].Len, -1)) // n <= len(dst)
		}
		return callResult{st: st, vals: []AVal{n, sa.errResult(fr, st, desc+".err")}}
	case "crypto/aes.NewCipher":
		blk := AVal{Kind: avIface, Sym: sa.mSym(fr, desc), HasSym: true, Type: sig.Results().At(0).Type()}
		er := sa.errResult(fr, st, desc+".err")
		p := &Partial{itv: map[atomID]Itv{}, nils: map[symID]nilness{blk.Sym: nilNo}, facts: map[string]*Lin{}}
		st.guards[er.Sym] = &Guard{WhenNil: p}
		return callResult{st: st, vals: []AVal{blk, er}}
	case "crypto/cipher.NewCTR":
		need("safe.stdlib-pre", args[1].Len, linConst(16), "cipher.NewCTR panics unless len(iv) == block size (16)")
		need("safe.stdlib-pre", linConst(16), args[1].Len, "cipher.NewCTR panics unless len(iv) == block size (16)")
		sa.needNonNil(fr, st, args[0], exprText(x.Call.Args[0]), x.Pos())
		return one(AVal{Kind: avIface, NonNil: true, Type: sig.Results().At(0).Type()})
	case "(crypto/cipher.Stream).XORKeyStream", "(*crypto/cipher.ctr).XORKeyStream":
		need("safe.stdlib-pre", args[2].Len, args[1].Len, "XORKeyStream panics if dst is shorter than src")
		sa.havocElems(st, args[1])
		return none()
	case "github.com/aead/cmac.Sum":
		need("safe.stdlib-pre", linConst(0), args[2].Lin, "tag size")
		res := sa.sliceResult(fr, st, sig.Results().At(0).Type(), desc, nil, false)
		er := sa.errResult(fr, st, desc+".err")
		if args[2].Lin != nil {
			a := onlyAtom(res.Len)
			st.itv[a] = Itv{0, posInf}
			p := &Partial{itv: map[atomID]Itv{}, nils: map[symID]nilness{res.Sym: nilNo}, facts: map[string]*Lin{}}
			f1 := res.Len.add(args[2].Lin, -1)
			f2 := f1.scale(-1)
			p.facts[f1.key()], p.facts[f2.key()] = f1, f2
			st.guards[er.Sym] = &Guard{WhenNil: p}
		}
		return callResult{st: st, vals: []AVal{res, er}}
	case "strings.Repeat":
		need("safe.stdlib-pre", linConst(0), args[1].Lin, "strings.Repeat panics for a negative count")
		return one(sa.freshM(fr, st, types.Typ[types.String], desc, nilMaybe))
	case "strings.Index", "strings.IndexByte", "strings.LastIndex", "strings.IndexRune", "strings.IndexAny", "bytes.Index", "bytes.IndexByte":
		v := sa.boundedAtom(fr, st, types.Typ[types.Int], desc, Itv{-1, posInf})
		if args[0].Len != nil {
			st.assume(v.Lin.add(args[0].Len, -1).addConst(1)) // result <= len - 1
		}
		return one(v)
	case "strings.TrimSuffix", "strings.TrimPrefix":
		// the result is s or s without the affix: len(s) - len(affix) <= len(result) <= len(s)
		v := sa.freshM(fr, st, types.Typ[types.String], desc, nilMaybe)
		if args[0].Len != nil {
			st.assume(v.Len.add(args[0].Len, -1)) // len(result) <= len(s)
			if args[1].Len != nil {
				st.assume(args[0].Len.add(args[1].Len, -1).add(v.Len, -1)) // len(s) - len(affix) <= len(result)
			}
		}
		return one(v)
	case "strings.Split", "strings.SplitN":
		lo := int64(1)
		if name == "strings.SplitN" {
			// SplitN(s, sep, 0) returns nil: at least one part only for a provably non-zero count
			lo = 0
			if len(args) > 2 && args[2].Lin != nil {
				if iv := st.linItv(args[2].Lin); iv.Lo > 0 || iv.Hi < 0 {
					lo = 1
				}
			}
		}
		ln := sa.boundedAtom(fr, st, types.Typ[types.Int], "len("+desc+")", Itv{lo, posInf})
		return one(sa.sliceResult(fr, st, sig.Results().At(0).Type(), desc, ln.Lin, true))
	case "strconv.Itoa", "strconv.FormatInt", "strconv.FormatUint":
		v := sa.freshM(fr, st, types.Typ[types.String], desc, nilMaybe)
		st.itv[onlyAtom(v.Len)] = Itv{1, 66}
		return one(v)
	case "strconv.ParseInt", "strconv.ParseUint":
		// result lies in the range of bitSize when the error is nil
		v := sa.freshM(fr, st, sig.Results().At(0).Type(), desc, nilMaybe)
		er := sa.errResult(fr, st, desc+".err")
		if bs, ok := constOf(st, args[2].Lin); ok && bs > 0 && bs < 63 {
			p := &Partial{itv: map[atomID]Itv{}, nils: map[symID]nilness{}, facts: map[string]*Lin{}}
			if name == "strconv.ParseInt" {
				p.itv[onlyAtom(v.Lin)] = Itv{-(1 << uint(bs-1)), 1<<uint(bs-1) - 1}
			} else {
				p.itv[onlyAtom(v.Lin)] = Itv{0, 1<<uint(bs) - 1}
			}
			st.guards[er.Sym] = &Guard{WhenNil: p}
		}
		return callResult{st: st, vals: []AVal{v, er}}
	case "strconv.Atoi":
		return callResult{st: st, vals: []AVal{sa.freshM(fr, st, types.Typ[types.Int], desc, nilMaybe), sa.errResult(fr, st, desc+".err")}}
	}
	if strings.HasPrefix(name, "(*github.com/sirupsen/logrus.Entry).") || strings.HasPrefix(name, "(*github.com/sirupsen/logrus.Logger).") {
		if len(args) > 0 {
			sa.needNonNil(fr, st, args[0], exprText(x.Call.Args[0]), x.Pos())
		}
		return sa.unknownResult(fr, st, sig)
	}
	if safePureCallee(callee) {
		return sa.unknownResult(fr, st, sig)
	}
	sa.unsup(x.Pos(), "stdlib callee without a contract: %s", name)
	sa.havocArgs(st, args)
	return sa.unknownResult(fr, st, sig)
}

// safePureCallee: functions documented not to panic for any argument and not to write their
// arguments (result unknown).
func safePureCallee(f *ssa.Function) bool {
	if f.Pkg == nil {
		// methods of instantiated/synthetic: use the receiver's package
		return false
	}
	switch f.Pkg.Pkg.Path() {
	case "strconv", "unicode", "unicode/utf8", "errors", "math", "math/bits":
		return true
	case "strings":
		switch f.Name() {
		case "Repeat", "Split", "Index", "IndexByte", "LastIndex", "IndexRune", "IndexAny": // handled
			return false
		}
		return true
	case "fmt":
		switch f.Name() {
		case "Sprintf", "Sprint", "Sprintln", "Errorf":
			return true
		}
	case "encoding/hex":
		switch f.Name() {
		case "EncodeToString", "DecodeString", "Decode":
			return true
		}
	case "net":
		switch f.Name() {
		case "ParseIP", "String", "To4", "To16", "Equal", "IPv4", "IPv4Mask", "CIDRMask":
			return true
		}
	case "time":
		switch f.Name() {
		case "Date", "FixedZone", "Year", "Month", "Day", "Hour", "Minute", "Second", "UTC", "In", "Zone", "String", "Unix", "Format":
			return true
		}
	case "reflect":
		return f.Name() == "DeepEqual"
	case "log":
		return f.Name() == "Printf" || f.Name() == "Println"
	}
	return false
}

// rankedSelfRecursion: call f(..., p-1, ...) inside f, where p is an unsigned parameter and the
// call is dominated by the false edge of `p == 0` (or true edge of p != 0 / p > 0).
func rankedSelfRecursion(fn *ssa.Function, call *ssa.Call) bool {
	for i, a := range call.Call.Args {
		sub, ok := a.(*ssa.BinOp)
		if !ok || sub.Op != token.SUB || i >= len(fn.Params) || sub.X != ssa.Value(fn.Params[i]) {
			continue
		}
		c, ok := sub.Y.(*ssa.Const)
		if !ok || c.Value == nil || c.Int64() != 1 {
			continue
		}
		if b, ok := fn.Params[i].Type().Underlying().(*types.Basic); !ok || b.Info()&types.IsUnsigned == 0 {
			continue
		}
		// guard
		for _, b := range fn.Blocks {
			iff, ok := b.Instrs[len(b.Instrs)-1].(*ssa.If)
			if !ok {
				continue
			}
			cond, ok := iff.Cond.(*ssa.BinOp)
			if !ok || cond.X != ssa.Value(fn.Params[i]) {
				continue
			}
			z, ok := cond.Y.(*ssa.Const)
			if !ok || z.Value == nil || z.Int64() != 0 {
				continue
			}
			var stay *ssa.BasicBlock
			switch cond.Op {
			case token.EQL:
				stay = b.Succs[1]
			case token.NEQ, token.GTR:
				stay = b.Succs[0]
			}
			if stay != nil && stay.Dominates(call.Block()) && len(stay.Preds) == 1 {
				return true
			}
		}
	}
	return false
}

// pruneFacts drops linear facts that mention unknowns local to activations that have returned
// (they can no longer be related to anything the caller sees), except unknowns occurring in
// the returned values.
func (sa *Safe) pruneFacts(st *State, vals []AVal) {
	keep := map[atomID]bool{}
	var mark func(v AVal)
	mark = func(v AVal) {
		for _, l := range []*Lin{v.Lin, v.Len} {
			if l != nil {
				for a := range l.T {
					keep[a] = true
				}
			}
		}
		for _, e := range v.Elts {
			mark(e)
		}
		for _, f := range v.Fields {
			mark(f)
		}
		if v.Inner != nil {
			mark(*v.Inner)
		}
	}
	for _, v := range vals {
		mark(v)
	}
	onStack := map[*ssa.Function]bool{}
	for _, f := range sa.stack {
		onStack[f] = true
	}
	for k, f := range st.facts {
		for a := range f.T {
			if keep[a] {
				continue
			}
			if wi, ok := sa.u.atoms[a].Where.(ssa.Instruction); ok && wi != nil && wi.Parent() != nil && !onStack[wi.Parent()] {
				delete(st.facts, k)
				break
			}
		}
	}
}


func minI64(a, b int64) int64 {
	if a < b {
		return a
	}
	return b
}

func maxI64(a, b int64) int64 {
	if a > b {
		return a
	}
	return b
}


// blockInCycle: the block lies on a cycle of its function's control flow graph (it is in a loop).
func blockInCycle(b *ssa.BasicBlock) bool {
	seen := map[*ssa.BasicBlock]bool{}
	stack := append([]*ssa.BasicBlock{}, b.Succs...)
	for len(stack) > 0 {
		n := stack[len(stack)-1]
		stack = stack[:len(stack)-1]
		if n == b {
			return true
		}
		if seen[n] {
			continue
		}
		seen[n] = true
		stack = append(stack, n.Succs...)
	}
	return false
}
