package main

// C20, inter-procedural form of the freshness argument.
//
// The per-method rules of props_alloc.go look for the lookup, the mark and the returned sum in the
// body of Allocate / Allocate_inRange themselves.  When those are moved into helper methods of the
// same receiver the facts are the same but live in several functions.  This file decides them by a
// small forward analysis over the SSA form with same-receiver helpers analysed in place (depth <= 3):
//
//	values   off(v)  a load of recv.offset made while the offset had version v
//	         ok(v)   the presence flag of a lookup usedMap[off(v)]
//	         id(v)   off(v) + recv.minValue
//	state    ver     the current version of recv.offset (every store to it makes a new one)
//	         miss    "usedMap[off(ver)] was looked up and found absent, and neither the offset nor
//	                 the map has been written since"
//	         marked  the version whose slot was marked used on this path (-1: none)
//
// A branch on ok(v) establishes miss on its false edge when v is the current version.  The
// obligations are (1) every store usedMap[k] = x has k = off(ver), x = true and miss, (2) every
// successful return of an allocating method returns id(marked) with marked set on every path
// to it.  Joins intersect; loops are iterated to a fixed point (the lattice is finite).

import (
	"fmt"
	"go/constant"
	"go/token"
	"go/types"

	"golang.org/x/tools/go/ssa"
)

type aKind int

const (
	akOther aKind = iota
	akOff
	akOK
	akNotOK
	akID
	akEqEntry   // offset(current) == offset(at entry of the allocating method), compared at version ver
	akNeEntry   // its negation
	akEqNever   // offset == a negative constant: never true (offsets are >= 0, alloc.bounds)
	akNeNever   // its negation: always true
	akCallBool  // the boolean result of an analysed helper call (ver = call index*8 + result index)
	akNotCallBool
	akTrue
	akFalse
	akNegConst // a negative integer constant (never equal to an offset)
)

type aVal struct {
	k   aKind
	ver int
}

type aState struct {
	ver    int
	miss   bool
	marked int
	dead   bool
	// for "plain allocation fails only when every identifier is live":
	hit     bool // usedMap[off(ver)] was looked up and found PRESENT, nothing written since
	skipped bool // the offset was advanced at a point where the current offset had not just been found in use
	cycle   bool // the branch "offset == offset at entry" was taken on its true edge (after an advance)
	adv     bool // the last thing that happened was a legitimate advance of the offset (several stores make one advance)
}

func joinA(a, b aState, site int) aState {
	if a.dead {
		return b
	}
	if b.dead {
		return a
	}
	r := aState{ver: a.ver, miss: a.miss && b.miss, marked: a.marked, hit: a.hit && b.hit, skipped: a.skipped || b.skipped, cycle: a.cycle && b.cycle, adv: a.adv && b.adv}
	if a.ver != b.ver {
		r.ver = 100000 + site // a version of its own: nothing known about it
		r.miss = false
		r.hit = false
	}
	if a.marked != b.marked {
		r.marked = -2
	}
	return r
}

type allocSem struct {
	w        *World
	problems []string
	nextVer  int
	verOf    map[string]int // (context, instruction) -> version: stable across fixpoint passes
	ctx      string
	marks    int
	succ     int
	leaks    []string
	mapVals  map[ssa.Value]bool
	notFull  []string
	entryVer int
	calls    []*ssa.Call
}

func (a *allocSem) callIndex(c *ssa.Call) int {
	for i, x := range a.calls {
		if x == c {
			return i
		}
	}
	a.calls = append(a.calls, c)
	return len(a.calls) - 1
}

func (a *allocSem) fail(pos token.Pos, format string, args ...any) {
	m := a.w.Pos(pos) + ": " + fmt.Sprintf(format, args...)
	for _, p := range a.problems {
		if p == m {
			return
		}
	}
	a.problems = append(a.problems, m)
}

type aRet struct {
	st     aState
	vals   []aVal
	ins    *ssa.Return
	errNil int // last result: 1 = the constant nil error, -1 = some error value, 0 = no error result / unknown
}

var errorType = types.Universe.Lookup("error").Type()

// forwarded: the return hands on, unchanged and in order, the results of one call made in the same
// block with nothing but the extractions in between; returns that call.
func forwarded(ret *ssa.Return, b *ssa.BasicBlock) *ssa.Call {
	if len(ret.Results) == 0 {
		return nil
	}
	var call *ssa.Call
	if len(ret.Results) == 1 {
		c, ok := ret.Results[0].(*ssa.Call)
		if !ok {
			return nil
		}
		call = c
	} else {
		for i, r := range ret.Results {
			ex, ok := r.(*ssa.Extract)
			if !ok || ex.Index != i {
				return nil
			}
			c, ok := ex.Tuple.(*ssa.Call)
			if !ok || (call != nil && c != call) {
				return nil
			}
			call = c
		}
	}
	if call == nil || call.Block() != b {
		return nil
	}
	after := false
	for _, ins := range b.Instrs {
		if ins == ssa.Instruction(call) {
			after = true
			continue
		}
		if !after {
			continue
		}
		switch ins.(type) {
		case *ssa.Extract, *ssa.Return, *ssa.DebugRef:
		default:
			return nil
		}
	}
	return call
}

// run analyses fn with the receiver value recv (fn.Params[0]) from state st0; args are the tags of
// the other parameters.  It returns the return sites.
func (a *allocSem) run(fn *ssa.Function, st0 aState, args []aVal, depth int, top bool) []aRet {
	if fn.Blocks == nil || depth > 3 {
		return []aRet{{st: aState{ver: a.fresh(fn), marked: st0.marked}}}
	}
	recv := ssa.Value(fn.Params[0])
	isMapVal := func(v ssa.Value) bool { return fieldLoad(v, recv, "usedMap") || a.mapVals[v] }
	vals := map[ssa.Value]aVal{}
	tup := map[ssa.Value][]aVal{}
	helperRets := map[*ssa.Call][]aRet{}
	postCall := map[*ssa.Call]aState{}
	fwd := map[*ssa.Return][]aRet{}
	for i, p := range fn.Params[1:] {
		if i < len(args) {
			vals[p] = args[i]
		}
	}
	in := make([]aState, len(fn.Blocks))
	seen := make([]bool, len(fn.Blocks))
	for i := range in {
		in[i].dead = true
	}
	in[0] = st0
	seen[0] = true
	edges := map[[2]int]aState{}
	work := []int{0}
	var rets map[*ssa.Return]aRet
	rets = map[*ssa.Return]aRet{}
	steps := 0
	for len(work) > 0 && steps < 2000 {
		steps++
		bi := work[0]
		work = work[1:]
		b := fn.Blocks[bi]
		st := in[bi]
		if st.dead {
			continue
		}
		val := func(v ssa.Value) aVal {
			if x, ok := vals[v]; ok {
				return x
			}
			if c, isC := v.(*ssa.Const); isC && c.Value != nil && c.Value.Kind() == constant.Int && constant.Sign(c.Value) < 0 {
				return aVal{k: akNegConst}
			}
			if c, isC := v.(*ssa.Const); isC && c.Value != nil && c.Value.Kind() == constant.Bool {
				if constant.BoolVal(c.Value) {
					return aVal{k: akTrue}
				}
				return aVal{k: akFalse}
			}
			return aVal{}
		}
		prop := func(to *ssa.BasicBlock, s aState) {
			// the in-state of a block is the join of what its predecessors send NOW (an edge's
			// contribution replaces its earlier one; it is not accumulated)
			edges[[2]int{b.Index, to.Index}] = s
			var n aState
			n.dead = true
			for _, p := range to.Preds {
				if es, ok := edges[[2]int{p.Index, to.Index}]; ok {
					n = joinA(n, es, to.Index)
				}
			}
			if !seen[to.Index] || n != in[to.Index] {
				in[to.Index] = n
				seen[to.Index] = true
				work = append(work, to.Index)
			}
		}
		done := false
		for _, ins := range b.Instrs {
			switch x := ins.(type) {
			case *ssa.Phi:
				var r aVal
				first := true
				// a value that describes the CURRENT offset on every incoming path (a lookup of, or a load
				// of, the offset as it is when control leaves that predecessor) describes the current
				// offset of the joined state
				current := len(x.Edges) == len(b.Preds)
				var kind aKind
				for i, e := range x.Edges {
					v := val(e)
					if first {
						r, first = v, false
					} else if v != r {
						r = aVal{}
					}
					if current {
						es, has := edges[[2]int{b.Preds[i].Index, b.Index}]
						switch {
						case !has || es.dead:
							// no state has come along this edge (yet): it does not constrain the value
						case (v.k == akOK || v.k == akNotOK || v.k == akOff || v.k == akID) && v.ver == es.ver && (kind == 0 || kind == v.k):
							kind = v.k
						default:
							current = false
						}
					}
				}
				if current && kind != 0 && r.k == akOther {
					r = aVal{kind, st.ver}
				}
				vals[x] = r
			case *ssa.UnOp:
				switch {
				case x.Op == token.MUL && fieldAddr(x.X, recv, "offset"):
					vals[x] = aVal{akOff, st.ver}
				case x.Op == token.NOT:
					switch v := val(x.X); v.k {
					case akOK:
						vals[x] = aVal{akNotOK, v.ver}
					case akNotOK:
						vals[x] = aVal{akOK, v.ver}
					case akEqEntry:
						vals[x] = aVal{akNeEntry, v.ver}
					case akNeEntry:
						vals[x] = aVal{akEqEntry, v.ver}
					case akEqNever:
						vals[x] = aVal{akNeNever, v.ver}
					case akNeNever:
						vals[x] = aVal{akEqNever, v.ver}
					case akTrue:
						vals[x] = aVal{k: akFalse}
					case akFalse:
						vals[x] = aVal{k: akTrue}
					case akCallBool:
						vals[x] = aVal{akNotCallBool, v.ver}
					case akNotCallBool:
						vals[x] = aVal{akCallBool, v.ver}
					}
				}
			case *ssa.Lookup:
				if isMapVal(x.X) {
					if k := val(x.Index); k.k == akOff {
						if x.CommaOk {
							vals[x] = aVal{akOther, k.ver} // the tuple; Extract #1 picks the flag
						} else {
							vals[x] = aVal{akOK, k.ver} // only `true` is ever stored: the value is the presence
						}
					}
				}
			case *ssa.Extract:
				if lk, ok := x.Tuple.(*ssa.Lookup); ok && x.Index == 1 && isMapVal(lk.X) {
					if k := val(lk.Index); k.k == akOff {
						vals[x] = aVal{akOK, k.ver}
					}
				} else if c, ok := x.Tuple.(*ssa.Call); ok {
					// tuple of an analysed helper: its elements were recorded separately
					if t, has := tup[c]; has && x.Index < len(t) {
						vals[x] = t[x.Index]
					}
				}
			case *ssa.BinOp:
				if x.Op == token.EQL || x.Op == token.NEQ {
					l, r := val(x.X), val(x.Y)
					other, otherV := x.Y, r
					cur := l
					if !(l.k == akOff && l.ver == st.ver) {
						cur, other, otherV = r, x.X, l
					}
					if cur.k == akOff && cur.ver == st.ver {
						k := akOther
						if otherV.k == akOff && otherV.ver == a.entryVer && a.entryVer != st.ver {
							k = akEqEntry
						} else if otherV.k == akNegConst {
							k = akEqNever
						}
						_ = other
						if k != akOther {
							if x.Op == token.NEQ {
								k++ // the negated kind follows its positive one
							}
							vals[x] = aVal{k, st.ver}
						}
					}
				}
				if x.Op == token.ADD {
					l, r := val(x.X), val(x.Y)
					if l.k == akOff && fieldLoad(x.Y, recv, "minValue") {
						vals[x] = aVal{akID, l.ver}
					} else if r.k == akOff && fieldLoad(x.X, recv, "minValue") {
						vals[x] = aVal{akID, r.ver}
					}
				}
			case *ssa.Store:
				if fieldAddr(x.Addr, recv, "offset") {
					if !st.hit && !st.adv && !a.preScan(x) {
						st.skipped = true
					} else {
						st.adv = true
					}
					st.ver = a.fresh(x)
					st.miss = false
					st.hit = false
					st.cycle = false
				} else if fieldAddr(x.Addr, recv, "usedMap") {
					st.miss = false
					st.hit = false
				}
			case *ssa.MapUpdate:
				if isMapVal(x.Map) {
					a.marks++
					k := val(x.Key)
					okVal := false
					if c, isC := x.Value.(*ssa.Const); isC && c.Value != nil && c.Value.Kind() == constant.Bool && constant.BoolVal(c.Value) {
						okVal = true
					}
					if stt, isSt := x.Value.Type().Underlying().(*types.Struct); isSt && stt.NumFields() == 0 {
						okVal = true // a set (map[K]struct{}): presence is the mark
					}
					switch {
					case k.k != akOff || k.ver != st.ver || !okVal:
						a.fail(x.Pos(), "%s: the identifier is not marked as used[offset] = true for the current offset", fn.Name())
					case !st.miss:
						a.fail(x.Pos(), "%s: the slot is marked used without a preceding lookup of the same offset that found it free (or the offset / the map changed in between): a live identifier can be handed out", fn.Name())
					}
					st.miss = false
					st.hit = false
					st.marked = st.ver
				}
			case *ssa.Call:
				if bi, isB := x.Call.Value.(*ssa.Builtin); isB {
					if bi.Name() == "delete" && isMapVal(x.Call.Args[0]) {
						st.miss = false
						st.hit = false
					}
					continue
				}
				callee := x.Call.StaticCallee()
				mapArg := false
				if callee != nil && callee.Blocks != nil {
					for i, ar := range x.Call.Args {
						if isMapVal(ar) && i < len(callee.Params) {
							// a helper that works on the set itself (a method of a named map type): analysed
							// in place, its parameter standing for the set
							if a.mapVals == nil {
								a.mapVals = map[ssa.Value]bool{}
							}
							a.mapVals[callee.Params[i]] = true
							mapArg = true
						}
					}
				}
				if callee != nil && len(x.Call.Args) > 0 && (x.Call.Args[0] == recv || mapArg) && callee.Blocks != nil && len(callee.Params) > 0 {
					var cargs []aVal
					for _, ar := range x.Call.Args[1:] {
						cargs = append(cargs, val(ar))
					}
					saved := a.ctx
					a.ctx = fmt.Sprintf("%s>%p", a.ctx, x)
					rs := a.run(callee, st, cargs, depth+1, false)
					a.ctx = saved
					helperRets[x] = rs
					// join the helper's returns
					var js aState
					js.dead = true
					var jv []aVal
					for i, r := range rs {
						js = joinA(js, r.st, b.Index)
						if i == 0 {
							jv = append([]aVal{}, r.vals...)
						} else {
							for k := range jv {
								if k >= len(r.vals) || r.vals[k] != jv[k] {
									jv[k] = aVal{}
								}
							}
						}
					}
					if !js.dead {
						st = js
					}
					postCall[x] = st
					boolAt := -1
					for k := 0; k < callee.Signature.Results().Len(); k++ {
						if bt, isB := callee.Signature.Results().At(k).Type().Underlying().(*types.Basic); isB && bt.Kind() == types.Bool {
							boolAt = k
						}
					}
					if boolAt >= 0 && len(jv) > 1 {
						// (value, ok): the other results are what the returns with ok != false deliver; using
						// them after ok == false meets a state (the join of those returns) in which nothing is
						// known to be free, so a mark made there is reported
						for k := range jv {
							if k == boolAt {
								continue
							}
							var v aVal
							first := true
							for _, r := range rs {
								if boolAt < len(r.vals) && r.vals[boolAt].k == akFalse {
									continue
								}
								if k >= len(r.vals) {
									v = aVal{}
									break
								}
								if first {
									v, first = r.vals[k], false
								} else if v != r.vals[k] {
									v = aVal{}
								}
							}
							jv[k] = v
						}
					}
					for k := range jv {
						if k < callee.Signature.Results().Len() {
							if bt, isB := callee.Signature.Results().At(k).Type().Underlying().(*types.Basic); isB && bt.Kind() == types.Bool && jv[k].k == akOther {
								jv[k] = aVal{akCallBool, a.callIndex(x)*8 + k}
							}
						}
					}
					switch len(jv) {
					case 1:
						vals[x] = jv[0]
					default:
						tup[x] = jv
					}
				} else if callee == nil || passes(x, recv) {
					// the receiver escapes into something not analysed: nothing is known afterwards
					st.ver = a.fresh(x)
					st.miss = false
					st.hit = false
					st.skipped = true
				}
			case *ssa.If:
				c := val(x.Cond)
				sT, sF := st, st
				switch c.k {
				case akOK:
					if c.ver == st.ver {
						sF.miss = true
					}
				case akNotOK:
					if c.ver == st.ver {
						sT.miss = true
					}
				case akEqEntry:
					if c.ver == st.ver {
						sT.cycle = true
					}
				case akNeEntry:
					if c.ver == st.ver {
						sF.cycle = true
					}
				case akEqNever, akFalse:
					sT.dead = true
				case akNeNever, akTrue:
					sF.dead = true
				case akCallBool, akNotCallBool:
					// the outcomes of the helper are kept apart by the boolean it returned
					ci, ri := c.ver/8, c.ver%8
					if ci < len(a.calls) {
						call := a.calls[ci]
						if rs, ok := helperRets[call]; ok && postCall[call] == st {
							var jt, jf aState
							jt.dead, jf.dead = true, true
							for _, r := range rs {
								k := akOther
								if ri < len(r.vals) {
									k = r.vals[ri].k
								}
								if k != akFalse {
									jt = joinA(jt, r.st, b.Index)
								}
								if k != akTrue {
									jf = joinA(jf, r.st, b.Index)
								}
							}
							if c.k == akNotCallBool {
								jt, jf = jf, jt
							}
							sT, sF = jt, jf
						}
					}
				}
				switch c.k {
				case akOK:
					sT.adv, sF.adv = false, false
					if c.ver == st.ver {
						sT.hit = true
					}
				case akNotOK:
					sT.adv, sF.adv = false, false
					if c.ver == st.ver {
						sF.hit = true
					}
				}
				prop(b.Succs[0], sT)
				prop(b.Succs[1], sF)
				done = true
			case *ssa.Jump:
				prop(b.Succs[0], st)
				done = true
			case *ssa.Return:
				// `return helper(...)` / `id, err := helper(...); return id, err`: every outcome of the
				// helper is an outcome of this function (kept apart, not joined)
				if fw := forwarded(x, b); fw != nil {
					if hr, ok := helperRets[fw]; ok {
						delete(rets, x)
						fwd[x] = nil
						for _, r := range hr {
							fwd[x] = append(fwd[x], aRet{st: r.st, vals: r.vals, ins: x, errNil: r.errNil})
						}
						done = true
						break
					}
				}
				var rv []aVal
				for _, r := range x.Results {
					v := val(r)
					if c, isC := r.(*ssa.Const); isC && c.Value != nil && c.Value.Kind() == constant.Bool {
						if constant.BoolVal(c.Value) {
							v = aVal{k: akTrue}
						} else {
							v = aVal{k: akFalse}
						}
					}
					rv = append(rv, v)
				}
				ar := aRet{st: st, vals: rv, ins: x}
				if n := len(x.Results); n > 0 {
					if c, isC := x.Results[n-1].(*ssa.Const); isC && c.Value == nil && types.Identical(c.Type(), errorType) {
						ar.errNil = 1
					} else if !isC {
						ar.errNil = -1
					}
				}
				rets[x] = ar
				done = true
			case *ssa.Panic:
				done = true
			}
			if done {
				break
			}
		}
	}
	var out []aRet
	for _, b := range fn.Blocks {
		if r, ok := b.Instrs[len(b.Instrs)-1].(*ssa.Return); ok {
			if f, has := fwd[r]; has && f != nil {
				out = append(out, f...)
			} else if rr, has := rets[r]; has {
				out = append(out, rr)
			}
		}
	}
	return out
}

func passes(c *ssa.Call, recv ssa.Value) bool {
	for _, a := range c.Call.Args {
		if a == recv {
			return true
		}
	}
	return false
}

// fresh: the version a write site creates — the same number every time the site is visited in
// the same calling context, so that the fixed-point iteration converges.
func (a *allocSem) fresh(site any) int {
	k := fmt.Sprintf("%s|%p", a.ctx, site)
	if a.verOf == nil {
		a.verOf = map[string]int{}
	}
	if v, ok := a.verOf[k]; ok {
		return v
	}
	a.nextVer++
	a.verOf[k] = a.nextVer
	return a.nextVer
}

// checkAllocFresh analyses an allocating method (results: id, error); returns the problems found
// (empty: the freshness discipline holds on every path).
func checkAllocFresh(w *World, fn *ssa.Function) (problems []string, marks, successes int) {
	problems, marks, successes, _ = checkAllocFreshLeaks(w, fn)
	return
}

func checkAllocFreshLeaks(w *World, fn *ssa.Function) (problems []string, marks, successes int, leaks []string) {
	problems, marks, successes, leaks, _ = checkAllocSem(w, fn)
	return
}

func checkAllocSem(w *World, fn *ssa.Function) (problems []string, marks, successes int, leaks, notFull []string) {
	a := &allocSem{w: w}
	a.entryVer = a.fresh(fn)
	rs := a.run(fn, aState{ver: a.entryVer, marked: -1}, nil, 0, true)
	for _, r := range rs {
		if r.ins == nil || len(r.ins.Results) != 2 {
			continue
		}
		if r.errNil != 1 {
			if r.errNil == 0 {
				if c, isC := r.ins.Results[1].(*ssa.Const); !isC || c.Value != nil {
					continue
				}
			} else {
				// an error return: no slot may have been marked on a path to it - a slot marked used and
				// not handed out is live for ever (the caller got no identifier to free), so allocation
				// fails although not all identifiers are live
				if _, isPhi := r.ins.Results[1].(*ssa.Phi); !isPhi && r.st.marked != -1 {
					m := a.w.Pos(r.ins.Pos()) + ": " + fmt.Sprintf("%s: a slot is marked used on a path that ends in an error return: the identifier is never handed out and can never be allocated or freed again", fn.Name())
					a.leaks = append(a.leaks, m)
				}
				if _, isPhi := r.ins.Results[1].(*ssa.Phi); !isPhi && (!r.st.cycle || r.st.skipped) {
					why := "the scan has not come back to the offset it started from"
					if r.st.cycle {
						why = "an offset was stepped over without having been found in use"
					}
					a.notFull = append(a.notFull, a.w.Pos(r.ins.Pos())+": "+fmt.Sprintf("%s: failure is reported on a path where %s: allocation can fail although a free identifier exists", fn.Name(), why))
				}
				continue
			}
		}
		a.succ++
		switch {
		case r.st.marked < 0:
			a.fail(r.ins.Pos(), "%s: a successful return is not preceded, on every path, by marking the identifier as used", fn.Name())
		case len(r.vals) < 1 || r.vals[0].k != akID || r.vals[0].ver != r.st.marked:
			a.fail(r.ins.Pos(), "%s: the returned identifier is not offset + minValue of the slot that was marked", fn.Name())
		}
	}
	if a.marks == 0 {
		a.fail(fn.Pos(), "%s: no store into usedMap on any path", fn.Name())
	}
	if a.succ == 0 {
		a.fail(fn.Pos(), "%s: no successful return", fn.Name())
	}
	return a.problems, a.marks, a.succ, a.leaks, a.notFull
}

// preScan: a store to offset that is not an advance of the scan - none on today's tree (Allocate
// starts scanning where the last allocation stopped).
func (a *allocSem) preScan(s *ssa.Store) bool { return false }
