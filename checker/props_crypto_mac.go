package main

// C07: NIA1 / NIA2 / NIA3 against 128-EIA1/2/3 (mac.*), the GF(2^64) multiplication
// (step.gf64) and NASMacCalculate (wrap.args).

import (
	"fmt"

	"golang.org/x/tools/go/ssa"
)

// every residue modulo 8 of the bit length, every octet count modulo 8 of the last 64-bit block, the 32/64-bit borders
var niaLengthsQuick = []int{0, 1, 2, 3, 4, 5, 6, 7, 8, 9, 15, 16, 17, 24, 31, 32, 33, 40, 41, 47, 48, 56, 57, 63, 64, 65, 72, 104, 128}

func niaLengths(tier string) []int {
	if tier != "thorough" {
		return niaLengthsQuick
	}
	var out []int
	for l := 0; l <= 72; l++ {
		out = append(out, l)
	}
	return append(out, 127, 128, 129, 130, 191, 192, 193)
}

// refGF64Mul: V * P in GF(2^64) modulo x^64 + x^4 + x^3 + x + 1 (c = 0x1b), as the standard's
// MUL64: the xor over the set bits i of P of MUL64xPOW(V, i, c).
func refGF64Mul(it *Interp, V, P BV, c uint64) BV {
	r := it.constBV(0, 64)
	x := V
	for i := 0; i < 64; i++ {
		r = bvMux(it, P.B[i], bvXor(it, r, x), r)
		x = refMULx(it, x, c)
	}
	return r
}

func checkGF64(c *cryptoCtx) {
	fn, fname := c.fn("security", "mul")
	if fn == nil {
		return
	}
	c.r.Site("step.gf64")
	it := newCryptoInterp(c.w)
	st := it.NewState()
	V, P := it.SrcBV("V", 64), it.SrcBV("P", 64)
	got := it.Call(fn, []Value{V, P, it.constBV(0x1b, 64)}, st, 0)
	want := refGF64Mul(it, V, P, 0x1b)
	ok, msg := false, ""
	if g, isBV := got.(BV); !isBV || g.HasTop() {
		msg = "mul(V, P, 0x1b) leaves the modelled fragment"
	} else if eq, dec := it.T.EquivANF(g, want, 400000); !dec {
		msg = "the polynomial form of mul(V, P, 0x1b) exceeds the budget (not a bilinear map of V and P?)"
	} else if !eq {
		msg = "mul(V, P, 0x1b) is not the GF(2^64) product V*P modulo x^64+x^4+x^3+x+1 (canonical polynomial forms differ)"
	} else {
		ok = true
	}
	c.verdict("step.gf64", fname, "mul", fn.Pos(), it, ok, msg)
}

func msgBit(s *secSym, j int) *Node { return s.inBit(j) }

func checkNIA(c *cryptoCtx, tier string) {
	w := c.w
	// NIA1 ---------------------------------------------------------------------------------
	if fn, fname := c.fn("security", "NIA1"); fn != nil {
		ivDone := false
		for _, L := range niaLengths(tier) {
			nb := cdiv(L, 8)
			s := newSecSym(w, nb)
			it := s.it
			pc := &primCall{}
			s.modelKeystream(pc)
			type mulEv struct{ V, P, C Value }
			var muls []mulEv
			it.Models[secPkg+".mul"] = func(it *Interp, st *state, call *ssa.CallCommon, args []Value) (Value, bool) {
				muls = append(muls, mulEv{args[0], args[1], args[2]})
				return it.SrcBV(fmt.Sprintf("mul%d", len(muls)), 64), true
			}
			args, ok := s.args(fn, L)
			if !ok {
				c.r.Fail("anchor", fname, "params", fn.Pos(), "unexpected parameter list", nil)
				break
			}
			res := it.Call(fn, args, s.st, 0)
			if !ivDone {
				ivDone = true
				c.r.Site("iv.nia")
				ok, msg := pc.ok && pc.calls == 1 && pc.n == 5, "the keystream generator is not called exactly once for 5 words with resolvable key and IV"
				if ok {
					if ok, msg = c.sameList(it, "key word k", pc.key, s.snowKey()); ok {
						// IV3 = COUNT, IV2 = FRESH, IV1 = COUNT xor DIR<<31, IV0 = FRESH xor DIR<<15; FRESH = BEARER || 0^27
						fresh := bvShl(it, bvZext(it, s.bearer, 32), 27)
						d := bvZext(it, s.dir, 32)
						ok, msg = c.sameList(it, "IV word", pc.iv, []BV{bvXor(it, fresh, bvShl(it, d, 15)), bvXor(it, s.count, bvShl(it, d, 31)), fresh, s.count})
					}
				}
				c.verdict("iv.nia", fname, "key/IV", fn.Pos(), it, ok, msg)
			}
			c.r.Site("mac.nia")
			z := func(i int) BV { return it.SrcBV(fmt.Sprintf("ks[%d]", i), 32) }
			P, Q := bvCat(z(0), z(1)), bvCat(z(2), z(3))
			D := cdiv(L, 64) + 1
			ok, msg := true, ""
			if len(muls) != D {
				ok, msg = false, fmt.Sprintf("LENGTH=%d: %d GF(2^64) multiplications, the standard has D = %d (D-1 message blocks and the length block)", L, len(muls), D)
			}
			eval := it.constBV(0, 64)
			for i := 0; ok && i < D; i++ {
				var m BV
				pq := P
				what := fmt.Sprintf("message block M%d", i)
				if i < D-1 {
					m = BV{W: 64, B: make([]*Node, 64)}
					for t := 0; t < 64; t++ {
						if j := 64*i + t; j < L {
							m.B[63-t] = msgBit(s, j)
						} else {
							m.B[63-t] = it.T.Const(false)
						}
					}
				} else {
					m = it.constBV(uint64(L), 64)
					pq = Q
					what = "length block"
				}
				if ok, msg = sameBV(it, muls[i].V, bvXor(it, eval, m)); !ok {
					msg = fmt.Sprintf("LENGTH=%d: multiplicand of step %d (EVAL xor %s): %s", L, i, what, msg)
					break
				}
				if ok, msg = sameBV(it, muls[i].P, pq); !ok {
					msg = fmt.Sprintf("LENGTH=%d: multiplier of step %d (%s): %s", L, i, what, msg)
					break
				}
				if ok, msg = sameBV(it, muls[i].C, it.constBV(0x1b, 64)); !ok {
					msg = fmt.Sprintf("LENGTH=%d: reduction constant of step %d: %s", L, i, msg)
					break
				}
				eval = it.SrcBV(fmt.Sprintf("mul%d", i+1), 64)
			}
			if ok {
				out, m := s.resultBytes(res, 4)
				if m != "" {
					ok, msg = false, m
				} else {
					mac := bvXor(it, bvBits(eval, 32, 32), z(4))
					for k := 0; ok && k < 4; k++ {
						if ok, msg = sameBV(it, out[k], byteOf(mac, k)); !ok {
							msg = fmt.Sprintf("LENGTH=%d: MAC octet %d (high half of EVAL xor z5): %s", L, k, msg)
						}
					}
				}
			}
			c.verdict("mac.nia", fname, fmt.Sprintf("LENGTH=%d", L), fn.Pos(), it, ok, msg)
		}
	}
	// NIA2 ---------------------------------------------------------------------------------
	if fn, fname := c.fn("security", "NIA2"); fn != nil {
		for _, nb := range []int{0, 1, 8, 9, 17} {
			c.r.Site("mac.nia")
			s := newSecSym(w, nb)
			it := s.it
			ac := &aesCalls{}
			s.modelAES(ac)
			args, ok := s.args(fn, 0)
			if !ok {
				c.r.Fail("anchor", fname, "params", fn.Pos(), "unexpected parameter list", nil)
				break
			}
			res := it.Call(fn, args, s.st, 0)
			ok, msg := ac.keyOK && ac.msgOK && ac.sumBlk && ac.block == 1, "CMAC is not computed once over a resolvable message with the AES block of the key"
			if ok {
				ok, msg = c.sameList(it, "AES key octet", ac.key, s.key[:])
			}
			if ok && ac.tagSize != 16 {
				ok, msg = false, fmt.Sprintf("CMAC tag size %d, the standard truncates the full 128-bit tag", ac.tagSize)
			}
			if ok {
				cb := s.countBytes()
				zz := it.constBV(0, 8)
				want := []BV{cb[0], cb[1], cb[2], cb[3], s.bearerDirOctet(), zz, zz, zz}
				for i := 0; i < nb; i++ {
					want = append(want, it.SrcBV(fmt.Sprintf("in[%d]", i), 8))
				}
				ok, msg = c.sameList(it, "CMAC input octet", ac.msg, want)
			}
			if ok {
				out, m := s.resultBytes(res, 4)
				if m != "" {
					ok, msg = false, m
				}
				for k := 0; ok && k < 4; k++ {
					if ok, msg = sameBV(it, out[k], it.SrcBV(fmt.Sprintf("cmac[%d]", k), 8)); !ok {
						msg = fmt.Sprintf("MAC octet %d is not octet %d of the CMAC tag: %s", k, k, msg)
					}
				}
			}
			c.verdict("mac.nia", fname, fmt.Sprintf("octets=%d", nb), fn.Pos(), it, ok, msg)
		}
	}
	// NIA3 ---------------------------------------------------------------------------------
	if fn, fname := c.fn("security", "NIA3"); fn != nil {
		ivDone := false
		for _, L := range niaLengths(tier) {
			nb := cdiv(L, 8)
			s := newSecSym(w, nb)
			it := s.it
			pc := &primCall{}
			s.modelKeystream(pc)
			args, ok := s.args(fn, L)
			if !ok {
				c.r.Fail("anchor", fname, "params", fn.Pos(), "unexpected parameter list", nil)
				break
			}
			res := it.Call(fn, args, s.st, 0)
			if !ivDone {
				ivDone = true
				c.r.Site("iv.nia")
				ok, msg := pc.ok && pc.calls == 1, "the keystream generator is not called exactly once with resolvable key and IV"
				if ok {
					if ok, msg = c.sameList(it, "key octet", pc.key, s.key[:]); ok {
						cb := s.countBytes()
						zz := it.constBV(0, 8)
						b := bvShl(it, bvZext(it, s.bearer, 8), 3)
						d7 := bvShl(it, bvZext(it, s.dir, 8), 7)
						iv := []BV{cb[0], cb[1], cb[2], cb[3], b, zz, zz, zz}
						iv = append(iv, bvXor(it, cb[0], d7), cb[1], cb[2], cb[3], b, zz, d7, zz)
						ok, msg = c.sameList(it, "IV octet", pc.iv, iv)
					}
				}
				c.verdict("iv.nia", fname, "key/IV", fn.Pos(), it, ok, msg)
			}
			c.r.Site("mac.nia")
			Lw := cdiv(L, 32) + 2
			ok, msg := true, ""
			if !pc.ok || pc.n != Lw {
				ok, msg = false, fmt.Sprintf("LENGTH=%d: %d keystream words requested, the standard needs ceil(LENGTH/32)+2 = %d", L, pc.n, Lw)
			}
			if ok {
				sbit := func(t int) *Node { return it.SrcBV(fmt.Sprintf("ks[%d]", t/32), 32).B[31-t%32] }
				word := func(i int) BV {
					r := BV{W: 32, B: make([]*Node, 32)}
					for b := 0; b < 32; b++ {
						r.B[31-b] = sbit(i + b)
					}
					return r
				}
				T := it.constBV(0, 32)
				for i := 0; i < L; i++ {
					T = bvMux(it, msgBit(s, i), bvXor(it, T, word(i)), T)
				}
				T = bvXor(it, T, word(L))
				mac := bvXor(it, T, word(32*(Lw-1)))
				out, m := s.resultBytes(res, 4)
				if m != "" {
					ok, msg = false, m
				}
				for k := 0; ok && k < 4; k++ {
					g := out[k]
					wv := byteOf(mac, k)
					eq, dec := it.T.EquivANF(g, wv, 100000)
					if !dec {
						ok, msg = sameBV(it, g, wv)
					} else if !eq {
						ok, msg = false, "differs from the universal hash of the message bits under the keystream"
					}
					if !ok {
						msg = fmt.Sprintf("LENGTH=%d: MAC octet %d: %s", L, k, msg)
					}
				}
			}
			c.verdict("mac.nia", fname, fmt.Sprintf("LENGTH=%d", L), fn.Pos(), it, ok, msg)
		}
	}
}

func propC07(w *World, r *Report, tier string) {
	c := &cryptoCtx{w: w, r: r}
	cryptoMeta(r)
	defer func() {
		r.Expect("tab.values", 5)
		r.Expect("step.gf64", 1)
		r.Expect("step.snow3g", 3)
		r.Expect("drv.snow3g", 1)
		r.Expect("drv.zuc", 1)
		r.Expect("pure.no-state", 6)
		r.Expect("iv.nia", 2)
		r.Expect("mac.nia", 23)
		r.Expect("wrap.args", 12)
	}()
	// the MAC functions rest on the same tables, steps and drivers as C06 (n = 5 words for NIA1)
	checkCryptoTables(w, r, map[string]bool{"security/snow3g": true, "security/zuc": true})
	checkSnowSteps(c)
	checkZucSteps(c)
	checkSnowDriver(c, 5)
	checkZucDriver(c, 4)
	checkCipherCallers(c)
	checkDriverLength(c)
	checkCipherPurity(c, [][2]string{{"security", "NASMacCalculate"}, {"security", "NIA1"}, {"security", "NIA2"}, {"security", "NIA3"}, {"security/snow3g", "GetKeyStream"}, {"security/zuc", "Zuc"}})
	checkGF64(c)
	checkNIA(c, tier)
	checkWrapper(c, "NASMacCalculate", map[int]string{1: "NIA1", 2: "NIA2", 3: "NIA3"}, 4)
}
