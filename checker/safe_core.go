package main

// E3 (part 2): analyser skeleton, value construction, memory (access-path store).

import (
	"fmt"
	"go/constant"
	"go/token"
	"go/types"
	"strings"

	"golang.org/x/tools/go/ssa"
)

type Obligation struct {
	Rule   string
	Fn     string
	What   string // construct (stable: expression text, no line numbers)
	Pos    token.Pos
	OK     bool
	Detail string
	Entry  string
	Path   []string // call path from the entry point
}

type Safe struct {
	tableMemo map[*ssa.Global]bool
	intTableMemo map[*ssa.Global]*Itv
	tableInfo   map[*ssa.Global]map[string]Itv
	tableByPath map[string]*ssa.Global
	w        *World
	u        *Universe
	eff      *Effects // for callee resolution
	Obls     map[string]*Obligation
	order    []string
	Unsup    map[string]token.Pos
	stack    []*ssa.Function
	entry    string
	Funcs    map[string]bool
	Loops    map[string]*LoopInfo
	maxDepth int
	work     int
	Allocs   []AllocSite
	allocIdx map[string]int
	wrapAtoms map[string]atomID
	wrapSrc   map[atomID]*Lin
	divMemo   map[string][2]atomID
	curSel    *selCtx
	initialising bool // zero-initialisation of a fresh allocation in progress (not a program write)
	fullyInit map[*AObj]bool // objects every element of which has been stored (composite literals)
	LenRule   bool // evaluate the length-covers rule at returns of serialisers
	Quiet     bool // do not record panic obligations (serialiser runs)
	// configuration
	AssumeTree bool
	noPaths    bool // disable the path-sensitive re-analysis (safe_paths.go)
}

type AllocSite struct {
	Fn   string
	Pos  token.Pos
	What string
	Size string // bound on the size expression
	Max  int64
}

func NewSafe(w *World) *Safe {
	return &Safe{w: w, u: &Universe{}, eff: NewEffects(w), Obls: map[string]*Obligation{}, Unsup: map[string]token.Pos{}, Funcs: map[string]bool{}, Loops: map[string]*LoopInfo{}, maxDepth: 12}
}

func (sa *Safe) unsup(pos token.Pos, format string, a ...any) {
	m := fmt.Sprintf(format, a...)
	if _, ok := sa.Unsup[m]; !ok {
		sa.Unsup[m] = pos
	}
}

func (sa *Safe) callPath() []string {
	var p []string
	for _, f := range sa.stack {
		p = append(p, SSAFuncName(f))
	}
	return p
}

// oblige records the outcome of a proof obligation. An obligation key seen in several
// contexts is discharged only if it is discharged in all of them.
func (sa *Safe) oblige(rule string, fn *ssa.Function, what string, pos token.Pos, ok bool, detail string) {
	if sa.Quiet && strings.HasPrefix(rule, "safe.") {
		return
	}
	name := SSAFuncName(fn)
	key := rule + " / " + name + " / " + what
	o := sa.Obls[key]
	if o == nil {
		o = &Obligation{Rule: rule, Fn: name, What: what, Pos: pos, OK: true, Entry: sa.entry}
		sa.Obls[key] = o
		sa.order = append(sa.order, key)
	}
	if !ok && o.OK {
		o.OK = false
		o.Detail = detail
		o.Entry = sa.entry
		o.Path = sa.callPath()
	}
}

// ---------------------------------------------------------------------------------------------
// value construction

func intRange(t types.Type) (Itv, bool) {
	b, ok := t.Underlying().(*types.Basic)
	if !ok {
		return Itv{}, false
	}
	switch b.Kind() {
	case types.Uint8:
		return Itv{0, 255}, true
	case types.Int8:
		return Itv{-128, 127}, true
	case types.Uint16:
		return Itv{0, 65535}, true
	case types.Int16:
		return Itv{-32768, 32767}, true
	case types.Uint32:
		return Itv{0, 1<<32 - 1}, true
	case types.Int32, types.UntypedRune:
		return Itv{-(1 << 31), 1<<31 - 1}, true
	case types.Uint64, types.Uint, types.Uintptr:
		return Itv{0, posInf}, true
	case types.Int64, types.Int, types.UntypedInt:
		return Itv{negInf, posInf}, true
	}
	return Itv{}, false
}

func isBoolType(t types.Type) bool {
	b, ok := t.Underlying().(*types.Basic)
	return ok && b.Info()&types.IsBoolean != 0
}

func isStringType(t types.Type) bool {
	b, ok := t.Underlying().(*types.Basic)
	return ok && b.Info()&types.IsString != 0
}

func (sa *Safe) newObj(desc string, summary bool) *AObj {
	sa.u.objs++
	return &AObj{id: sa.u.objs, Desc: desc, Summary: summary}
}

// fresh builds an unknown value of type t. nn: pointers/slices known non-nil.
func (sa *Safe) fresh(st *State, t types.Type, desc string, nn nilness) AVal {
	if r, ok := intRange(t); ok {
		return AVal{Kind: avInt, Lin: linAtom(sa.u.newAtom(desc, r)), Type: t}
	}
	if isBoolType(t) {
		return AVal{Kind: avBool, Type: t}
	}
	if isStringType(t) {
		return AVal{Kind: avStr, Len: linAtom(sa.u.newAtom("len("+desc+")", Itv{0, posInf})), Type: t}
	}
	switch u := t.Underlying().(type) {
	case *types.Pointer:
		sy := sa.u.newSym(desc)
		if nn != nilMaybe {
			st.nils[sy] = nn
		}
		return AVal{Kind: avPtr, Sym: sy, HasSym: true, Obj: sa.newObj("*"+desc, true), Type: t}
	case *types.Slice:
		sy := sa.u.newSym(desc)
		if nn != nilMaybe {
			st.nils[sy] = nn
		}
		return AVal{Kind: avSlice, Sym: sy, HasSym: true, Obj: sa.newObj("elems("+desc+")", true), Len: linAtom(sa.u.newAtom("len("+desc+")", Itv{0, posInf})), Type: t}
	case *types.Interface:
		sy := sa.u.newSym(desc)
		if nn != nilMaybe {
			st.nils[sy] = nn
		}
		return AVal{Kind: avIface, Sym: sy, HasSym: true, Type: t}
	case *types.Map:
		sy := sa.u.newSym(desc)
		if nn != nilMaybe {
			st.nils[sy] = nn
		}
		return AVal{Kind: avMap, Sym: sy, HasSym: true, Type: t}
	case *types.Struct:
		v := AVal{Kind: avStruct, Fields: map[string]AVal{}, Type: t}
		for i := 0; i < u.NumFields(); i++ {
			v.Fields[u.Field(i).Name()] = sa.fresh(st, u.Field(i).Type(), desc+"."+u.Field(i).Name(), nilMaybe)
		}
		return v
	case *types.Signature:
		return AVal{Kind: avFunc, Type: t}
	}
	return AVal{Kind: avUnknown, Type: t}
}

func (sa *Safe) zero(st *State, t types.Type) AVal {
	if _, ok := intRange(t); ok {
		return AVal{Kind: avInt, Lin: linConst(0), Type: t}
	}
	if isBoolType(t) {
		return AVal{Kind: avBool, Cond: &Cond{Op: "const", Const: false}, Type: t}
	}
	if isStringType(t) {
		return AVal{Kind: avStr, Len: linConst(0), Type: t}
	}
	switch u := t.Underlying().(type) {
	case *types.Pointer:
		sy := sa.u.newSym("nil")
		st.nils[sy] = nilYes
		return AVal{Kind: avPtr, Sym: sy, HasSym: true, Type: t}
	case *types.Slice:
		sy := sa.u.newSym("nil")
		st.nils[sy] = nilYes
		return AVal{Kind: avSlice, Sym: sy, HasSym: true, Len: linConst(0), Type: t}
	case *types.Interface:
		sy := sa.u.newSym("nil")
		st.nils[sy] = nilYes
		return AVal{Kind: avIface, Sym: sy, HasSym: true, Type: t}
	case *types.Map:
		sy := sa.u.newSym("nil")
		st.nils[sy] = nilYes
		return AVal{Kind: avMap, Sym: sy, HasSym: true, Type: t}
	case *types.Struct:
		v := AVal{Kind: avStruct, Fields: map[string]AVal{}, Type: t}
		for i := 0; i < u.NumFields(); i++ {
			v.Fields[u.Field(i).Name()] = sa.zero(st, u.Field(i).Type())
		}
		return v
	}
	return AVal{Kind: avUnknown, Type: t}
}

func (sa *Safe) constVal(st *State, c *ssa.Const) AVal {
	t := c.Type()
	if c.Value == nil {
		return sa.zero(st, t)
	}
	switch c.Value.Kind() {
	case constant.Bool:
		return AVal{Kind: avBool, Cond: &Cond{Op: "const", Const: constant.BoolVal(c.Value)}, Type: t}
	case constant.Int:
		if v, ok := constant.Int64Val(c.Value); ok {
			return AVal{Kind: avInt, Lin: linConst(v), Type: t}
		}
		if _, ok := constant.Uint64Val(c.Value); ok {
			return AVal{Kind: avInt, Lin: linConst(posInf), Type: t}
		}
	case constant.String:
		return AVal{Kind: avStr, Len: linConst(int64(len(constant.StringVal(c.Value)))), Type: t}
	case constant.Float:
		return AVal{Kind: avUnknown, Type: t}
	}
	return AVal{Kind: avUnknown, Type: t}
}

// ---------------------------------------------------------------------------------------------
// memory

func (sa *Safe) loadPath(st *State, o *AObj, path string, t types.Type, desc string) AVal {
	if o == nil {
		return sa.fresh(st, t, desc, nilMaybe)
	}
	if m := st.mem[o]; m != nil {
		if v, ok := m[path]; ok {
			return v
		}
	}
	// struct: assemble from sub-paths
	if s, ok := t.Underlying().(*types.Struct); ok {
		v := AVal{Kind: avStruct, Fields: map[string]AVal{}, Type: t}
		for i := 0; i < s.NumFields(); i++ {
			f := s.Field(i)
			v.Fields[f.Name()] = sa.loadPath(st, o, path+"."+f.Name(), f.Type(), desc+"."+f.Name())
		}
		return v
	}
	if _, ok := t.Underlying().(*types.Array); ok {
		return AVal{Kind: avUnknown, Type: t}
	}
	v := sa.fresh(st, t, desc, nilMaybe)
	if !o.Summary && !strings.Contains(path, "[*]") {
		if st.mem[o] == nil {
			st.mem[o] = map[string]AVal{}
		}
		st.mem[o][path] = v
	}
	return v
}

func (sa *Safe) storePath(st *State, o *AObj, path string, v AVal) {
	if o == nil {
		return
	}
	if !sa.initialising {
		st.written[o] = true
	}
	if st.mem[o] == nil {
		st.mem[o] = map[string]AVal{}
	}
	m := st.mem[o]
	// kill extensions of the path
	for p := range m {
		if p != path && strings.HasPrefix(p, path) && (strings.HasPrefix(p[len(path):], ".") || strings.HasPrefix(p[len(path):], "[")) {
			delete(m, p)
		}
	}
	// writing a prefix-held aggregate value: drop stale aggregate copies of ancestors
	for p := range m {
		if p != path && strings.HasPrefix(path, p) && (strings.HasPrefix(path[len(p):], ".") || strings.HasPrefix(path[len(p):], "[")) {
			delete(m, p)
		}
	}
	weak := o.Summary || strings.Contains(path, "[*]") || strings.Contains(path, "[+")
	if i := strings.Index(path, "[+"); i >= 0 || strings.Contains(path, "[*]") {
		if i < 0 {
			i = strings.Index(path, "[*]")
		}
		// a write through a shifted / summarised element view may hit any element of the aggregate
		pre := path[:i]
		for p := range m {
			if strings.HasPrefix(p, pre+"[") {
				delete(m, p)
			}
		}
	}
	if v.Kind == avStruct {
		delete(m, path)
		for k, f := range v.Fields {
			sa.storePath(st, o, path+"."+k, f)
		}
		return
	}
	if weak {
		delete(m, path)
		return
	}
	m[path] = v
}

// havoc forgets everything stored at or below path.
func (sa *Safe) havoc(st *State, o *AObj, path string) {
	if o == nil {
		return
	}
	if !sa.initialising {
		st.written[o] = true
	}
	m := st.mem[o]
	for p := range m {
		if p == path || (strings.HasPrefix(p, path) && (strings.HasPrefix(p[len(path):], ".") || strings.HasPrefix(p[len(path):], "["))) {
			delete(m, p)
		}
		if strings.HasPrefix(path, p) && p != path {
			delete(m, p)
		}
	}
}

// havocElems forgets the element values of a slice's backing store (not its length).
func (sa *Safe) havocElems(st *State, v AVal) {
	if v.Obj == nil {
		return
	}
	st.written[v.Obj] = true
	m := st.mem[v.Obj]
	for p := range m {
		if strings.HasPrefix(p, v.Path+"[") {
			delete(m, p)
		}
	}
}

func exprText(v ssa.Value) string {
	switch x := v.(type) {
	case *ssa.Const:
		if x.Value != nil {
			return x.Value.ExactString()
		}
		return "nil"
	case *ssa.Parameter:
		return x.Name()
	case *ssa.FieldAddr:
		st := x.X.Type().Underlying().(*types.Pointer).Elem().Underlying().(*types.Struct)
		return exprText(x.X) + "." + st.Field(x.Field).Name()
	case *ssa.Field:
		st := x.X.Type().Underlying().(*types.Struct)
		return exprText(x.X) + "." + st.Field(x.Field).Name()
	case *ssa.IndexAddr:
		return exprText(x.X) + "[" + exprText(x.Index) + "]"
	case *ssa.Index:
		return exprText(x.X) + "[" + exprText(x.Index) + "]"
	case *ssa.UnOp:
		if x.Op == token.MUL {
			return exprText(x.X)
		}
		return x.Op.String() + exprText(x.X)
	case *ssa.BinOp:
		return "(" + exprText(x.X) + " " + x.Op.String() + " " + exprText(x.Y) + ")"
	case *ssa.Convert:
		return exprText(x.X)
	case *ssa.ChangeType:
		return exprText(x.X)
	case *ssa.Slice:
		lo, hi := "", ""
		if x.Low != nil {
			lo = exprText(x.Low)
		}
		if x.High != nil {
			hi = exprText(x.High)
		}
		return exprText(x.X) + "[" + lo + ":" + hi + "]"
	case *ssa.Call:
		if f := x.Call.StaticCallee(); f != nil {
			if len(x.Call.Args) > 0 && f.Signature.Recv() != nil {
				return exprText(x.Call.Args[0]) + "." + f.Name() + "()"
			}
			return f.Name() + "()"
		}
		if x.Call.IsInvoke() {
			return exprText(x.Call.Value) + "." + x.Call.Method.Name() + "()"
		}
		if b, ok := x.Call.Value.(*ssa.Builtin); ok {
			if len(x.Call.Args) > 0 {
				return b.Name() + "(" + exprText(x.Call.Args[0]) + ")"
			}
			return b.Name() + "()"
		}
		return "call"
	case *ssa.Alloc:
		if x.Comment != "" {
			return x.Comment
		}
		return "local"
	case *ssa.Phi:
		if x.Comment != "" {
			return x.Comment
		}
		return "phi"
	case *ssa.Extract:
		return exprText(x.Tuple) + "#" + fmt.Sprint(x.Index)
	case *ssa.Global:
		return x.Name()
	case *ssa.MakeInterface:
		return exprText(x.X)
	case *ssa.TypeAssert:
		return exprText(x.X)
	case *ssa.Lookup:
		return exprText(x.X) + "[" + exprText(x.Index) + "]"
	case *ssa.MakeSlice:
		return "make(" + exprText(x.Len) + ")"
	}
	return v.Name()
}

func (sa *Safe) addAlloc(a AllocSite) {
	if sa.allocIdx == nil {
		sa.allocIdx = map[string]int{}
	}
	k := a.Fn + "|" + a.What
	if i, ok := sa.allocIdx[k]; ok {
		if a.Max > sa.Allocs[i].Max {
			sa.Allocs[i] = a
		}
		return
	}
	sa.allocIdx[k] = len(sa.Allocs)
	sa.Allocs = append(sa.Allocs, a)
}

func (sa *Safe) noteBuffer(fr *frame, o *AObj) {
	for _, b := range fr.bufs {
		if b == o {
			return
		}
	}
	fr.bufs = append(fr.bufs, o)
}

// unwrap replaces wrap atoms (possible truncation) by the expression they were computed from.
func (sa *Safe) unwrap(l *Lin) *Lin {
	if l == nil {
		return nil
	}
	out := linConst(l.C)
	for a, k := range l.T {
		if src, ok := sa.wrapSrc[a]; ok {
			out = out.add(sa.unwrap(src), k)
		} else {
			out = out.add(linAtom(a), k)
		}
	}
	return out
}

// checkLenCovers: in the write log of each buffer created by this activation, a non-constant
// integer that shares an unknown with the sizes of later items is a length field and must equal
// the total size of the next k items for some k >= 1.
func (sa *Safe) checkLenCovers(fr *frame, st *State, pos token.Pos) {
	for _, o := range fr.bufs {
		log, ok := st.logs[o]
		if !ok {
			continue
		}
		for i, e := range log {
			if e.Val == nil {
				continue
			}
			v := sa.unwrap(e.Val)
			if _, isC := v.isConst(); isC && i+1 < len(log) {
				// a constant is a legitimate length only if it equals the (constant) size of what follows: checked below
				if !(strings.HasSuffix(e.Desc, ".Len") || strings.HasSuffix(e.Desc, ".GetLen()")) {
					continue
				}
			} else if isC {
				continue
			}
			shares := false
			for _, later := range log[i+1:] {
				if later.Size == nil {
					continue
				}
				for a := range sa.unwrap(later.Size).T {
					if _, ok := v.T[a]; ok {
						shares = true
					}
				}
			}
			// a field called Len / a GetLen() result is a length field by declaration
			named := strings.HasSuffix(e.Desc, ".Len") || strings.HasSuffix(e.Desc, ".GetLen()") || strings.HasSuffix(e.Desc, "Length")
			if !shares && !named {
				continue
			}
			sum := linConst(0)
			covered := false
			var sizes []string
			for _, later := range log[i+1:] {
				if later.Size == nil {
					sizes = append(sizes, "?")
					break
				}
				sum = sum.add(sa.unwrap(later.Size), 1)
				sizes = append(sizes, sa.u.linString(later.Size))
				d := v.add(sum, -1)
				if c, ok := d.isConst(); ok && c == 0 {
					covered = true
					break
				}
			}
			what := "length field " + e.Desc
			detail := ""
			if !covered {
				detail = "the value written as " + e.Desc + " (" + sa.u.linString(v) + ") does not equal the total size of any run of the items written after it (sizes: " + strings.Join(sizes, ", ") + ")"
			}
			save := sa.Quiet
			sa.Quiet = false
			sa.oblige("seq.len-covers", fr.fn, what, token.Pos(e.Pos), covered, detail)
			sa.Quiet = save
		}
	}
}
