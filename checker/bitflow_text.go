package main

// E2 extensions: decimal-digit values, hexadecimal text, and the few stdlib functions the
// identity converters use (strconv.Atoi on one digit, hex.EncodeToString / DecodeString).

import (
	"fmt"
	"strconv"
	"strings"
	"os"
	"go/token"
	"go/types"

	"golang.org/x/tools/go/ssa"
)

func pow10(k int) uint64 {
	r := uint64(1)
	for i := 0; i < k; i++ {
		r *= 10
	}
	return r
}

func isPow10(c uint64) (int, bool) {
	k := 0
	for c > 1 && c%10 == 0 {
		c /= 10
		k++
	}
	return k, c == 1 && k > 0
}

// SymbolicDecimal: an n-digit decimal number with digit sources name.d0 (most significant) ...
func (it *Interp) SymbolicDecimal(name string, n int) DecV {
	d := DecV{LeadNZ: true}
	for i := 0; i < n; i++ {
		d.D = append(d.D, it.SrcBV(fmt.Sprintf("%s.d%d", name, i), 4))
		it.assumeDecimal(d.D[i])
	}
	return d
}

// assumeDecimal adds "this nibble is 0..9" to the premise under which branches are decided.
func (it *Interp) assumeDecimal(d BV) {
	it.AndPremise(it.T.Not(it.T.And(d.B[3], it.T.Or(d.B[2], d.B[1]))))
}

func (it *Interp) AndPremise(n *Node) {
	if it.Premise == nil {
		it.Premise = n
	} else {
		it.Premise = it.T.And(it.Premise, n)
	}
}

// DigitString: a string of n decimal digit characters; digit i has sources name.d<i>.
func (it *Interp) DigitString(name string, n int) StrV {
	s := StrV{Sym: true}
	for i := 0; i < n; i++ {
		d := it.SrcBV(fmt.Sprintf("%s.d%d", name, i), 4)
		it.assumeDecimal(d)
		c := it.constBV(0x30, 8)
		copy(c.B[0:4], d.B)
		s.Chars = append(s.Chars, c)
	}
	return s
}

// HexString: a string of n lowercase hexadecimal characters; character i denotes nibble name.h<i>.
func (it *Interp) HexString(name string, n int) StrV {
	s := StrV{Sym: true}
	for i := 0; i < n; i++ {
		nb := it.SrcBV(fmt.Sprintf("%s.h%d", name, i), 4)
		c := it.topBV(8)
		c.Hex = nb.B
		s.Chars = append(s.Chars, c)
	}
	return s
}

// digitOfChar: the 4-bit digit/nibble a character stands for (decimal digit char or hex char).
func (it *Interp) nibbleOfChar(c BV) ([]*Node, bool) {
	if c.Hex != nil {
		return c.Hex, true
	}
	if c.W == 8 {
		// '0'..'9': high nibble constant 3
		hi, ok := BV{W: 4, B: c.B[4:8]}.IsConst()
		if ok && hi == 3 {
			return c.B[0:4], true
		}
		// constant hex letter
		if v, ok := c.IsConst(); ok {
			var n uint64 = 255
			switch {
			case v >= 'a' && v <= 'f':
				n = v - 'a' + 10
			case v >= 'A' && v <= 'F':
				n = v - 'A' + 10
			}
			if n < 16 {
				return it.constBV(n, 4).B, true
			}
		}
	}
	return nil, false
}

func (it *Interp) decBinop(x *ssa.BinOp, a, b Value) (Value, bool) {
	d, ok := a.(DecV)
	if !ok {
		return nil, false
	}
	bv, ok := b.(BV)
	if !ok {
		return nil, false
	}
	c, isC := bv.IsConst()
	if !isC {
		return nil, false
	}
	n := len(d.D)
	switch x.Op {
	case token.REM:
		if k, ok := isPow10(c); ok {
			if k >= n {
				return d, true
			}
			return DecV{D: d.D[n-k:]}, true
		}
	case token.QUO:
		if k, ok := isPow10(c); ok {
			if k >= n {
				return it.constBV(0, 64).signed(), true
			}
			return DecV{D: d.D[:n-k], LeadNZ: d.LeadNZ}, true
		}
	case token.LSS, token.LEQ, token.GTR, token.GEQ, token.EQL, token.NEQ:
		lo, hi := uint64(0), pow10(n)-1
		if d.LeadNZ && n > 0 {
			lo = pow10(n - 1)
		}
		dec := func(v bool) (Value, bool) { return it.constBV(uint64(b2i(v)), 1), true }
		switch x.Op {
		case token.LSS:
			if hi < c {
				return dec(true)
			}
			if lo >= c {
				return dec(false)
			}
		case token.LEQ:
			if hi <= c {
				return dec(true)
			}
			if lo > c {
				return dec(false)
			}
		case token.GTR:
			if lo > c {
				return dec(true)
			}
			if hi <= c {
				return dec(false)
			}
		case token.GEQ:
			if lo >= c {
				return dec(true)
			}
			if hi < c {
				return dec(false)
			}
		case token.EQL:
			if c < lo || c > hi {
				return dec(false)
			}
		case token.NEQ:
			if c < lo || c > hi {
				return dec(true)
			}
		}
		return BV{W: 1, B: []*Node{it.T.Top()}}, true
	}
	return nil, false
}

// decToBV: a one-digit decimal as an integer of width w.
func (it *Interp) decToBV(d DecV, w int, signed bool) (BV, bool) {
	if len(d.D) != 1 {
		return BV{}, false
	}
	r := it.constBV(0, w)
	copy(r.B[0:4], d.D[0].B)
	r.Signed = signed
	return r, true
}

// cannotBe: the character provably differs from c (some constant bit disagrees).
func cannotBe(ch BV, c byte) bool {
	if ch.Hex != nil {
		return !((c >= '0' && c <= '9') || (c >= 'a' && c <= 'f'))
	}
	for i := 0; i < 8 && i < len(ch.B); i++ {
		switch ch.B[i].op {
		case opZero:
			if c>>uint(i)&1 == 1 {
				return true
			}
		case opOne:
			if c>>uint(i)&1 == 0 {
				return true
			}
		}
	}
	return false
}

// textModel: stdlib functions over text.
func (it *Interp) textModel(st *state, name string, c *ssa.CallCommon, args []Value) (Value, bool) {
	switch name {
	case "strconv.Atoi":
		s, ok := args[0].(StrV)
		if !ok {
			return nil, false
		}
		if s.Sym && len(s.Chars) == 1 && s.Chars[0].Hex == nil && !s.Chars[0].HasTop() {
			// one character c: a decimal digit iff its high nibble is 3 and its low nibble is at most 9;
			// the value is the low nibble then, and (0, error) otherwise
			c := s.Chars[0]
			hi3 := it.T.And(it.T.And(it.T.Not(c.B[7]), it.T.Not(c.B[6])), it.T.And(c.B[5], c.B[4]))
			le9 := it.T.Not(it.T.And(c.B[3], it.T.Or(c.B[2], c.B[1])))
			isd := it.T.And(hi3, le9)
			r := it.constBV(0, 64)
			for i := 0; i < 4; i++ {
				r.B[i] = it.T.And(isd, c.B[i])
			}
			r.Signed = true
			if isd == it.T.one {
				return TupleV{r, NilV{}}, true
			}
			return TupleV{r, ErrV{isd}}, true
		}
		if s.Sym && len(s.Chars) == 1 && s.Chars[0].Hex != nil {
			// the lowercase hexadecimal character of a nibble: a decimal digit iff the nibble is at most 9
			nb := s.Chars[0].Hex
			isd := it.T.Not(it.T.And(nb[3], it.T.Or(nb[2], nb[1])))
			r := it.constBV(0, 64)
			for i := 0; i < 4; i++ {
				r.B[i] = it.T.And(isd, nb[i])
			}
			r.Signed = true
			if isd == it.T.one || it.EquivUnderPremise(isd, it.T.one) {
				return TupleV{r, NilV{}}, true
			}
			return TupleV{r, ErrV{isd}}, true
		}
		if s.Known && len(s.S) == 1 && s.S[0] >= '0' && s.S[0] <= '9' {
			return TupleV{it.constBV(uint64(s.S[0]-'0'), 64).signed(), NilV{}}, true
		}
		if (s.Sym && len(s.Chars) > 1) || (s.Known && len(s.S) > 1) {
			return it.textModel(st, "strconv.Atoi#multi", c, args)
		}
		return nil, false
	case "encoding/hex.EncodeToString":
		sl, ok := args[0].(SliceV)
		if !ok || sl.Len < 0 || sl.Nil {
			if ok && sl.Nil {
				return StrV{Known: true}, true
			}
			return nil, false
		}
		out := StrV{Sym: true}
		for i := 0; i < sl.Len; i++ {
			b, ok := it.load(st, it.sliceElemPtr(sl, i), types.Typ[types.Uint8]).(BV)
			if !ok {
				return nil, false
			}
			hi := it.topBV(8)
			hi.Hex = b.B[4:8]
			lo := it.topBV(8)
			lo.Hex = b.B[0:4]
			out.Chars = append(out.Chars, hi, lo)
		}
		return out, true
	case "encoding/hex.DecodeString":
		s, ok := args[0].(StrV)
		if ok && s.Known && s.S == "" {
			s = StrV{Sym: true}
		}
		if !ok || !s.Sym {
			return nil, false
		}
		odd := len(s.Chars)%2 != 0 // an odd number of characters: the octets decoded so far and hex.ErrLength
		o := it.NewObj(fmt.Sprintf("hexdec%d", it.nobj+1), false)
		st.mem[o] = map[string]Value{}
		n := len(s.Chars) / 2
		for i := 0; i < n; i++ {
			h, ok1 := it.nibbleOfChar(s.Chars[2*i])
			l, ok2 := it.nibbleOfChar(s.Chars[2*i+1])
			if !ok1 || !ok2 {
				return nil, false
			}
			b := BV{W: 8, B: make([]*Node, 8)}
			copy(b.B[0:4], l)
			copy(b.B[4:8], h)
			st.mem[o][fmt.Sprintf("[%d]", i)] = b
		}
		if odd {
			if _, okLast := it.nibbleOfChar(s.Chars[len(s.Chars)-1]); !okLast {
				return nil, false
			}
			return TupleV{SliceV{Obj: o, Len: n}, ErrV{it.T.zero}}, true
		}
		return TupleV{SliceV{Obj: o, Len: n}, NilV{}}, true
	case "strings.Split", "strings.SplitN":
		// split a string whose separator positions are decidable (constant characters or digits);
		// SplitN(s, sep, n > 0): at most n parts, the last one holding the unsplit remainder
		limit := -1
		if name == "strings.SplitN" {
			n, okN := it.concreteInt(args[2])
			if !okN || n == 0 {
				return nil, false
			}
			limit = n
		}
		s, ok1 := args[0].(StrV)
		sep, ok2 := args[1].(StrV)
		if !ok1 || !ok2 || !sep.Known || len(sep.S) != 1 {
			if os.Getenv("NASVERIF_DEBUG") != "" {
				fmt.Fprintf(os.Stderr, "[e2] strings.Split args %T %v / %T %v\n", args[0], args[0], args[1], args[1])
			}
			return nil, false
		}
		var chars []BV
		if s.Known {
			for i := 0; i < len(s.S); i++ {
				chars = append(chars, it.constBV(uint64(s.S[i]), 8))
			}
		} else if s.Sym {
			chars = s.Chars
		} else {
			return nil, false
		}
		var parts [][]BV
		cur := []BV{}
		for _, ch := range chars {
			if limit > 0 && len(parts) == limit-1 {
				cur = append(cur, ch) // the last permitted part takes the rest as it is
				continue
			}
			if v, isC := ch.IsConst(); isC && ch.Hex == nil {
				if byte(v) == sep.S[0] {
					parts = append(parts, cur)
					cur = []BV{}
					continue
				}
			} else if !cannotBe(ch, sep.S[0]) {
				return nil, false // cannot tell whether this character is the separator
			}
			cur = append(cur, ch)
		}
		parts = append(parts, cur)
		o := it.NewObj(fmt.Sprintf("split%d", it.nobj+1), false)
		st.mem[o] = map[string]Value{}
		for i, p := range parts {
			allConst := true
			var sb []byte
			for _, ch := range p {
				v, isC := ch.IsConst()
				if !isC || ch.Hex != nil {
					allConst = false
					break
				}
				sb = append(sb, byte(v))
			}
			if allConst {
				st.mem[o][fmt.Sprintf("[%d]", i)] = StrV{Known: true, S: string(sb)}
			} else {
				st.mem[o][fmt.Sprintf("[%d]", i)] = StrV{Sym: true, Chars: p}
			}
		}
		return SliceV{Obj: o, Len: len(parts)}, true
	case "strconv.ParseInt", "strconv.ParseUint", "strconv.Atoi#multi":
		// a string of decimal digit characters, base 10: the value by multiply-and-add; the error
		// is nil iff every character is a digit and the value fits the bit size
		s, ok := args[0].(StrV)
		base, okB := 10, true
		size, okS := 64, true
		if name != "strconv.Atoi#multi" {
			base, okB = it.concreteInt(args[1])
			size, okS = it.concreteInt(args[2])
		}
		if ok && okB && okS && base == 16 && (s.Sym || s.Known) && size >= 1 && size <= 64 {
			// base 16 over hexadecimal characters (tagged nibbles or constant hex digits): the value is
			// the concatenation of the nibbles; the error is nil iff there is at least one character and
			// the value fits the bit size (on a range error the maximum is returned)
			hc, okC := toCharsOf(it, s)
			if !okC || len(hc) > 16 {
				return nil, false
			}
			if len(hc) == 0 {
				return TupleV{it.constBV(0, 64).signedIf(name != "strconv.ParseUint"), ErrV{it.T.zero}}, true
			}
			val := it.constBV(0, 64)
			for i, c := range hc {
				nb, okN := it.nibbleOfChar(c)
				if !okN {
					return nil, false
				}
				sh := 4 * (len(hc) - 1 - i)
				copy(val.B[sh:sh+4], nb)
			}
			max := uint64(1)<<uint(size) - 1
			if name == "strconv.ParseInt" {
				max = uint64(1)<<uint(size-1) - 1
			}
			if size == 64 && name == "strconv.ParseUint" {
				max = ^uint64(0)
			}
			fits := it.T.Not(it.ult(it.constBV(max, 64), val))
			res := BV{W: 64, B: make([]*Node, 64), Signed: name != "strconv.ParseUint"}
			mx := it.constBV(max, 64)
			for k := 0; k < 64; k++ {
				res.B[k] = it.T.Mux(fits, val.B[k], mx.B[k])
			}
			if fits == it.T.one {
				return TupleV{res, NilV{}}, true
			}
			return TupleV{res, ErrV{fits}}, true
		}
		if !ok || !okB || !okS || base != 10 || !(s.Sym || s.Known) || size < 1 || size > 64 {
			return nil, false
		}
		chars := s.Chars
		if s.Known {
			chars = nil
			for i := 0; i < len(s.S); i++ {
				chars = append(chars, it.constBV(uint64(s.S[i]), 8))
			}
		}
		if len(chars) == 0 || len(chars) > 18 {
			return nil, false
		}
		// n decimal digits need at most 4n bits: the higher bits of the value are constant zero
		vw := 4*len(chars) + 1
		if vw > 64 {
			vw = 64
		}
		val := it.constBV(0, vw)
		allDigits := it.T.one
		for _, c := range chars {
			if c.Hex != nil || c.HasTop() {
				return nil, false
			}
			hi3 := it.T.And(it.T.And(it.T.Not(c.B[7]), it.T.Not(c.B[6])), it.T.And(c.B[5], c.B[4]))
			le9 := it.T.Not(it.T.And(c.B[3], it.T.Or(c.B[2], c.B[1])))
			allDigits = it.T.And(allDigits, it.T.And(hi3, le9))
			// val = val*10 + digit
			x8 := BV{W: vw, B: make([]*Node, vw)}
			x2 := BV{W: vw, B: make([]*Node, vw)}
			for k := 0; k < vw; k++ {
				x8.B[k], x2.B[k] = it.T.zero, it.T.zero
				if k >= 3 {
					x8.B[k] = val.B[k-3]
				}
				if k >= 1 {
					x2.B[k] = val.B[k-1]
				}
			}
			dg := it.constBV(0, vw)
			copy(dg.B[0:4], c.B[0:4])
			val = it.add(it.add(x8, x2, it.T.zero), dg, it.T.zero)
		}
		{
			wide := it.constBV(0, 64)
			copy(wide.B[0:vw], val.B)
			val = wide
		}
		max := uint64(1)<<uint(size) - 1
		if name == "strconv.ParseInt" || name == "strconv.Atoi#multi" {
			max = uint64(1)<<uint(size-1) - 1
		}
		if size == 64 && name == "strconv.ParseUint" {
			max = ^uint64(0)
		}
		fits := it.T.Not(it.ult(it.constBV(max, 64), val))
		okN := it.T.And(allDigits, fits)
		// on a range error the functions return the maximum value; on a syntax error 0
		res := BV{W: 64, B: make([]*Node, 64), Signed: name != "strconv.ParseUint"}
		mx := it.constBV(max, 64)
		for k := 0; k < 64; k++ {
			res.B[k] = it.T.Mux(okN, val.B[k], it.T.And(allDigits, mx.B[k]))
		}
		if okN == it.T.one {
			return TupleV{res, NilV{}}, true
		}
		return TupleV{res, ErrV{okN}}, true
	case "(*strings.Builder).Grow":
		return TupleV{}, true
	case "(*strings.Builder).WriteString", "(*strings.Builder).WriteByte", "(*strings.Builder).WriteRune", "(*strings.Builder).Write":
		bp, ok := args[0].(Ptr)
		if !ok {
			return nil, false
		}
		cur, _ := st.mem[bp.Obj][bp.Path+".#text"].(StrV)
		cs, okC := toCharsOf(it, cur)
		if !okC {
			cs = nil // a new builder holds the empty text
		}
		var add []BV
		switch a := args[1].(type) {
		case StrV:
			ac, okA := toCharsOf(it, a)
			if !okA {
				return nil, false
			}
			add = ac
		case BV:
			if a.W > 8 {
				if v, isC := a.IsConst(); !isC || v > 127 {
					return nil, false
				}
				a = it.constBV(func() uint64 { v, _ := a.IsConst(); return v }(), 8)
			}
			add = []BV{a}
		case SliceV:
			if a.Len < 0 {
				return nil, false
			}
			for i := 0; i < a.Len; i++ {
				b, okB := it.load(st, it.sliceElemPtr(a, i), types.Typ[types.Uint8]).(BV)
				if !okB {
					return nil, false
				}
				add = append(add, b)
			}
		default:
			return nil, false
		}
		if st.mem[bp.Obj] == nil {
			st.mem[bp.Obj] = map[string]Value{}
		}
		st.mem[bp.Obj][bp.Path+".#text"] = StrV{Sym: true, Chars: append(append([]BV{}, cs...), add...)}
		n := it.constBV(uint64(len(add)), 64).signed()
		switch name {
		case "(*strings.Builder).WriteByte":
			return NilV{}, true
		}
		return TupleV{n, NilV{}}, true
	case "(*strings.Builder).String", "(*strings.Builder).Len":
		bp, ok := args[0].(Ptr)
		if !ok {
			return nil, false
		}
		cur, has := st.mem[bp.Obj][bp.Path+".#text"].(StrV)
		if !has {
			cur = StrV{Known: true}
		}
		if name == "(*strings.Builder).Len" {
			cs, _ := toCharsOf(it, cur)
			return it.constBV(uint64(len(cs)), 64).signed(), true
		}
		return cur, true
	case "strings.Cut":
		s, ok1 := args[0].(StrV)
		sep, ok2 := args[1].(StrV)
		if !ok1 || !ok2 || !sep.Known || len(sep.S) != 1 {
			return nil, false
		}
		cs, okC := toCharsOf(it, s)
		if !okC {
			return nil, false
		}
		mk := func(c []BV) StrV {
			if len(c) == 0 {
				return StrV{Known: true}
			}
			return StrV{Sym: true, Chars: c}
		}
		for i, ch := range cs {
			must, cannot := it.charIs(ch, sep.S[0])
			if must {
				return TupleV{mk(cs[:i]), mk(cs[i+1:]), it.constBV(1, 1)}, true
			}
			if !cannot {
				return nil, false
			}
		}
		return TupleV{s, StrV{Known: true}, it.constBV(0, 1)}, true
	case "strings.Join":
		// Join of a slice whose elements are known or symbolic strings, with a known separator
		sl, ok1 := args[0].(SliceV)
		sep, ok2 := args[1].(StrV)
		if !ok1 || !ok2 || !sep.Known || sl.Len < 0 {
			return OpaqueV{"formatted text"}, true
		}
		out := StrV{Sym: true}
		allKnown := true
		var sb []byte
		for i := 0; i < sl.Len; i++ {
			e, ok := it.load(st, it.sliceElemPtr(sl, i), types.Typ[types.String]).(StrV)
			if !ok {
				return OpaqueV{"formatted text"}, true
			}
			cs, ok := toCharsOf(it, e)
			if !ok {
				return OpaqueV{"formatted text"}, true
			}
			if i > 0 {
				for k := 0; k < len(sep.S); k++ {
					out.Chars = append(out.Chars, it.constBV(uint64(sep.S[k]), 8))
					sb = append(sb, sep.S[k])
				}
			}
			out.Chars = append(out.Chars, cs...)
			if e.Known {
				sb = append(sb, e.S...)
			} else {
				allKnown = false
			}
		}
		if allKnown {
			return StrV{Known: true, S: string(sb)}, true
		}
		return out, true
	case "strings.Index":
		s, ok1 := args[0].(StrV)
		sub, ok2 := args[1].(StrV)
		if ok1 && ok2 && s.Known && sub.Known {
			return it.constBV(uint64(int64(strings.Index(s.S, sub.S))), 64).signed(), true
		}
		// a symbolic text: decidable when, in order, every character either cannot be the one looked
		// for (also under the premise on the sources: a decimal digit is never the filler 'f') or is it
		if ok1 && ok2 && s.Sym && sub.Known && len(sub.S) == 1 {
			for i, ch := range s.Chars {
				if cannotBe(ch, sub.S[0]) {
					continue
				}
				if eq, ok := it.compareHexChar(ch, uint64(sub.S[0])); ok {
					if eq == it.T.one {
						return it.constBV(uint64(i), 64).signed(), true
					}
					if it.EquivUnderPremise(eq, it.T.zero) {
						continue
					}
				}
				return it.topBV(64).signed(), true
			}
			return it.constBV(^uint64(0), 64).signed(), true
		}
		return it.topBV(64).signed(), true
	case "strings.TrimSuffix", "strings.TrimPrefix", "strings.TrimRight", "strings.TrimLeft", "strings.Trim":
		s, ok1 := args[0].(StrV)
		cut, ok2 := args[1].(StrV)
		if ok1 && ok2 && s.Known && cut.Known {
			switch name {
			case "strings.TrimSuffix":
				return StrV{Known: true, S: strings.TrimSuffix(s.S, cut.S)}, true
			case "strings.TrimPrefix":
				return StrV{Known: true, S: strings.TrimPrefix(s.S, cut.S)}, true
			}
		}
		if name == "strings.TrimSuffix" && ok1 && ok2 && cut.Known && (s.Sym || s.Known) {
			// symbolic text, constant suffix: decided when every one of the last characters either must
			// or cannot be the suffix character (a character made from a nibble is 'f' iff the nibble is 15,
			// which the premise on the sources may exclude)
			cs, okC := toCharsOf(it, s)
			k := len(cut.S)
			if okC && k > 0 && len(cs) >= k {
				must, cannot, open := true, false, false
				for i := 0; i < k; i++ {
					ch, c := cs[len(cs)-k+i], cut.S[i]
					if v, isC := ch.IsConst(); isC && ch.Hex == nil {
						if byte(v) != c {
							cannot = true
						}
						continue
					}
					if ch.Hex != nil && ((c >= '0' && c <= '9') || (c >= 'a' && c <= 'f')) {
						nv := int(c - '0')
						if c >= 'a' {
							nv = int(c-'a') + 10
						}
						eq := it.T.one
						for b := 0; b < 4; b++ {
							bit := ch.Hex[b]
							if nv>>b&1 == 0 {
								bit = it.T.Not(bit)
							}
							eq = it.T.And(eq, bit)
						}
						switch {
						case it.EquivUnderPremise(eq, it.T.zero):
							cannot = true
						case it.EquivUnderPremise(eq, it.T.one):
						default:
							open = true
						}
						must = must && !cannot
						continue
					}
					if cannotBe(ch, c) {
						cannot = true
					} else {
						open = true
					}
				}
				if cannot {
					return s, true
				}
				if must && !open {
					if s.Known {
						return StrV{Known: true, S: s.S[:len(s.S)-k]}, true
					}
					return StrV{Sym: true, Chars: cs[:len(cs)-k]}, true
				}
			} else if okC && len(cs) < k {
				return s, true
			}
		}
		if (name == "strings.TrimRight" || name == "strings.TrimLeft" || name == "strings.Trim") && ok1 && ok2 && cut.Known && (s.Sym || s.Known) {
			// cutset trimming: from either end, a character is dropped when it must be one of the cutset
			// and trimming stops when it can be none of them (under the premise); anything else is open
			if cs, okC := toCharsOf(it, s); okC {
				inSet := func(ch BV) (must, cannot bool) {
					cannot = true
					for i := 0; i < len(cut.S); i++ {
						m, c := it.charIs(ch, cut.S[i])
						if m {
							return true, false
						}
						cannot = cannot && c
					}
					return false, cannot
				}
				lo, hi, decided := 0, len(cs), true
				if name != "strings.TrimLeft" {
					for hi > lo {
						m, c := inSet(cs[hi-1])
						if m {
							hi--
							continue
						}
						decided = c
						break
					}
				}
				if decided && name != "strings.TrimRight" {
					for lo < hi {
						m, c := inSet(cs[lo])
						if m {
							lo++
							continue
						}
						decided = c
						break
					}
				}
				if decided {
					if s.Known {
						return StrV{Known: true, S: s.S[lo:hi]}, true
					}
					return StrV{Sym: true, Chars: cs[lo:hi]}, true
				}
			}
		}
		it.unsup("%s of a text whose length would depend on its symbolic contents", name)
		return OpaqueV{"trimmed text"}, true
	case "strings.HasSuffix", "strings.HasPrefix", "strings.Contains", "strings.EqualFold":
		a, ok1 := args[0].(StrV)
		b, ok2 := args[1].(StrV)
		if ok1 && ok2 && a.Known && b.Known {
			var r bool
			switch name {
			case "strings.HasSuffix":
				r = strings.HasSuffix(a.S, b.S)
			case "strings.HasPrefix":
				r = strings.HasPrefix(a.S, b.S)
			case "strings.Contains":
				r = strings.Contains(a.S, b.S)
			case "strings.EqualFold":
				r = strings.EqualFold(a.S, b.S)
			}
			return it.constBV(uint64(b2i(r)), 1), true
		}
		if ok1 && ok2 && b.Known && (a.Sym || a.Known) && (name == "strings.HasSuffix" || name == "strings.HasPrefix") {
			// symbolic text, constant affix: decided when every compared character must or cannot be the
			// affix character (under the premise)
			cs, okC := toCharsOf(it, a)
			if okC {
				if len(cs) < len(b.S) {
					return it.constBV(0, 1), true
				}
				off := 0
				if name == "strings.HasSuffix" {
					off = len(cs) - len(b.S)
				}
				all := true
				for i := 0; i < len(b.S); i++ {
					must, cannot := it.charIs(cs[off+i], b.S[i])
					if cannot {
						return it.constBV(0, 1), true
					}
					all = all && must
				}
				if all {
					return it.constBV(1, 1), true
				}
			}
		}
		return nil, false
	case "strings.IndexByte", "strings.IndexRune":
		a, ok1 := args[0].(StrV)
		c, ok2 := args[1].(BV)
		if cv, isC := c.IsConst(); ok1 && ok2 && a.Known && isC {
			return it.constBV(uint64(int64(strings.IndexByte(a.S, byte(cv)))), 64).signed(), true
		}
		if cv, isC := c.IsConst(); ok1 && ok2 && a.Sym && isC {
			// as strings.Index with a one-character pattern
			for i, ch := range a.Chars {
				must, cannot := it.charIs(ch, byte(cv))
				if must {
					return it.constBV(uint64(i), 64).signed(), true
				}
				if !cannot {
					return it.topBV(64).signed(), true
				}
			}
			return it.constBV(^uint64(0), 64).signed(), true
		}
		return nil, false
	case "strings.ToLower", "strings.ToUpper", "strings.TrimSpace":
		if a, ok := args[0].(StrV); ok && a.Known {
			switch name {
			case "strings.ToLower":
				return StrV{Known: true, S: strings.ToLower(a.S)}, true
			case "strings.ToUpper":
				return StrV{Known: true, S: strings.ToUpper(a.S)}, true
			}
			return StrV{Known: true, S: strings.TrimSpace(a.S)}, true
		}
		return nil, false
	case "strings.LastIndex":
		s, ok1 := args[0].(StrV)
		sub, ok2 := args[1].(StrV)
		if !ok1 || !ok2 || !sub.Known || len(sub.S) != 1 {
			return nil, false
		}
		chars, ok := toCharsOf(it, s)
		if !ok {
			return nil, false
		}
		last := -1
		for i := len(chars) - 1; i >= 0; i-- {
			ch := chars[i]
			if v, isC := ch.IsConst(); isC && ch.Hex == nil {
				if byte(v) == sub.S[0] {
					last = i
					break
				}
				continue
			}
			if !cannotBe(ch, sub.S[0]) {
				return nil, false // this character may or may not be the one looked for
			}
		}
		return it.constBV(uint64(int64(last)), 64).signed(), true
	case "fmt.Sprintf":
		// formats made of literal text and %d verbs with the flags '+', '0' and a width: each
		// number is printed with exactly (width - sign) digits; the model records the obligations
		// that it has no more digits than that and, without '+', that it is not negative
		f, ok := args[0].(StrV)
		if !ok || !f.Known {
			return OpaqueV{"formatted text"}, true
		}
		va, ok := args[1].(SliceV)
		if !ok {
			return OpaqueV{"formatted text"}, true
		}
		// every operand a constant integer: format it here
		if va.Len >= 0 && strings.Count(f.S, "%") == va.Len && !strings.ContainsAny(f.S, "svqTpw") {
			var vals []any
			all := true
			for i := 0; i < va.Len; i++ {
				v, ok := it.load(st, it.sliceElemPtr(va, i), types.Typ[types.Int]).(BV)
				cv, isC := v.IsConst()
				if !ok || !isC || v.HasTop() {
					all = false
					break
				}
				if v.Signed {
					vals = append(vals, toSigned(cv, v))
				} else {
					vals = append(vals, cv)
				}
			}
			if all {
				return StrV{Known: true, S: fmt.Sprintf(f.S, vals...)}, true
			}
		}
		out := StrV{Sym: true}
		argi := 0
		for i := 0; i < len(f.S); i++ {
			if f.S[i] != '%' {
				out.Chars = append(out.Chars, it.constBV(uint64(f.S[i]), 8))
				continue
			}
			j := i + 1
			plus, zero, width := false, false, 0
			if j < len(f.S) && f.S[j] == '+' {
				plus = true
				j++
			}
			if j < len(f.S) && f.S[j] == '0' {
				zero = true
				j++
			}
			for j < len(f.S) && f.S[j] >= '1' && f.S[j] <= '9' {
				width = width*10 + int(f.S[j]-'0')
				j++
			}
			if j < len(f.S) && f.S[j] == 'x' && zero && width > 0 && width <= 16 && !plus && argi < va.Len {
				// %0Nx: exactly N lowercase hexadecimal characters, provided the value is below 16^N
				v, ok := it.load(st, it.sliceElemPtr(va, argi), types.Typ[types.Int]).(BV)
				argi++
				if !ok || v.HasTop() {
					return OpaqueV{"formatted text"}, true
				}
				for k := 4 * width; k < v.W; k++ {
					it.Obligations = append(it.Obligations, it.T.Not(v.B[k]))
				}
				for d := width - 1; d >= 0; d-- {
					ch := it.topBV(8)
					nb := make([]*Node, 4)
					for b := 0; b < 4; b++ {
						if 4*d+b < v.W {
							nb[b] = v.B[4*d+b]
						} else {
							nb[b] = it.T.zero
						}
					}
					ch.Hex = nb
					out.Chars = append(out.Chars, ch)
				}
				i = j
				continue
			}
			if j < len(f.S) && f.S[j] == 'x' && !zero && width == 0 && !plus && argi < va.Len {
				// %x of a value whose bits above the low nibble are zero: exactly one hexadecimal character
				if v, ok := it.load(st, it.sliceElemPtr(va, argi), types.Typ[types.Int]).(BV); ok && !v.HasTop() && v.W >= 4 {
					small := true
					for k := 4; k < v.W; k++ {
						small = small && v.B[k] == it.T.zero
					}
					if small {
						argi++
						ch := it.topBV(8)
						ch.Hex = append([]*Node{}, v.B[0:4]...)
						out.Chars = append(out.Chars, ch)
						i = j
						continue
					}
				}
			}
			if j >= len(f.S) || f.S[j] != 'd' || !zero || width == 0 || argi >= va.Len {
				return OpaqueV{"formatted text"}, true
			}
			v, ok := it.load(st, it.sliceElemPtr(va, argi), types.Typ[types.Int]).(BV)
			argi++
			if !ok || v.HasTop() {
				return OpaqueV{"formatted text"}, true
			}
			sgn := v.B[v.W-1]
			digits := width
			mag := BV{W: v.W, B: v.B}
			if plus {
				digits--
				neg := it.sub(it.constBV(0, v.W), mag)
				m2 := BV{W: v.W, B: make([]*Node, v.W)}
				sc := it.constBV(0, 8)
				pc, mc := it.constBV('+', 8), it.constBV('-', 8)
				for k := range m2.B {
					m2.B[k] = it.T.Mux(sgn, neg.B[k], mag.B[k])
				}
				for k := 0; k < 8; k++ {
					sc.B[k] = it.T.Mux(sgn, mc.B[k], pc.B[k])
				}
				mag = m2
				out.Chars = append(out.Chars, sc)
			} else {
				it.Obligations = append(it.Obligations, it.T.Not(sgn))
			}
			if digits < 1 || digits > 6 {
				return OpaqueV{"formatted text"}, true
			}
			it.Obligations = append(it.Obligations, it.ult(mag, it.constBV(pow10(digits), mag.W)))
			var ds []BV
			rest := mag
			for k := 0; k < digits; k++ {
				q, r := it.udivConst(rest, 10)
				ds = append([]BV{r}, ds...)
				rest = q
			}
			for _, d := range ds {
				ch := it.constBV(0x30, 8)
				copy(ch.B[0:4], d.B[0:4])
				out.Chars = append(out.Chars, ch)
			}
			i = j
		}
		return out, true
	case "strconv.FormatUint", "strconv.Itoa", "strconv.FormatInt":
		if v, ok := args[0].(BV); ok {
			if cv, isC := v.IsConst(); isC {
				base := 10
				if name != "strconv.Itoa" {
					if b, ok := it.concreteInt(args[1]); ok {
						base = b
					}
				}
				if name == "strconv.FormatUint" {
					return StrV{Known: true, S: strconv.FormatUint(cv, base)}, true
				}
				return StrV{Known: true, S: strconv.FormatInt(toSigned(cv, v), base)}, true
			}
		}
		it.unsup("%s of a symbolic value: the number of characters depends on the value (no fixed width, no zero padding)", name)
		return OpaqueV{"formatted text"}, true
	}
	return nil, false
}

// charIs: whether the abstract character must be / cannot be the constant c, on every assignment of
// the sources that satisfies the premise.
func (it *Interp) charIs(ch BV, c byte) (must, cannot bool) {
	if v, isC := ch.IsConst(); isC && ch.Hex == nil {
		return byte(v) == c, byte(v) != c
	}
	if cannotBe(ch, c) {
		return false, true
	}
	var eq *Node
	if ch.Hex != nil {
		eq, _ = it.compareHexChar(ch, uint64(c))
	} else if ch.W == 8 && !ch.HasTop() {
		eq = it.T.one
		for i := 0; i < 8; i++ {
			bit := ch.B[i]
			if c>>uint(i)&1 == 0 {
				bit = it.T.Not(bit)
			}
			eq = it.T.And(eq, bit)
		}
	}
	if eq == nil {
		return false, false
	}
	if it.EquivUnderPremise(eq, it.T.one) {
		return true, false
	}
	if it.EquivUnderPremise(eq, it.T.zero) {
		return false, true
	}
	return false, false
}

// compareChar: c == constant character, for hex-tagged characters.
func (it *Interp) compareHexChar(c BV, k uint64) (*Node, bool) {
	if c.Hex == nil {
		return nil, false
	}
	var n uint64 = 255
	switch {
	case k >= '0' && k <= '9':
		n = k - '0'
	case k >= 'a' && k <= 'f':
		n = k - 'a' + 10
	}
	if n > 15 {
		return it.T.zero, true
	}
	eq := it.T.one
	for i := 0; i < 4; i++ {
		bit := c.Hex[i]
		if n&(1<<uint(i)) == 0 {
			bit = it.T.Not(bit)
		}
		eq = it.T.And(eq, bit)
	}
	return eq, true
}


// EquivUnderPremise: x and y agree on every assignment of the sources that satisfies the premise.
func (it *Interp) EquivUnderPremise(x, y *Node) bool {
	if x == y {
		return true
	}
	if it.Premise == nil {
		return it.T.Equiv(x, y)
	}
	return it.T.Equiv(it.T.And(it.Premise, it.T.Xor(x, y)), it.T.zero)
}


func (v BV) signedIf(b bool) BV {
	v.Signed = b
	return v
}
