package main

// C20 — policy-section ID allocator: per-method structural facts (SSA / dominance) from which
// freshness, bounds, fail-only-when-full and free follow by induction over histories.

import (
	"sort"
	"fmt"
	"go/constant"
	"go/token"
	"go/types"
	"strings"

	"golang.org/x/tools/go/ssa"
)

func init() { register("C20", propC20) }

// fieldLoad reports whether v is a load of receiver.<field> (recv = fn.Params[0]).
func fieldLoad(v ssa.Value, recv ssa.Value, field string) bool {
	u, ok := v.(*ssa.UnOp)
	if !ok || u.Op != token.MUL {
		return false
	}
	return fieldAddr(u.X, recv, field)
}

func fieldAddr(v ssa.Value, recv ssa.Value, field string) bool {
	fa, ok := v.(*ssa.FieldAddr)
	if !ok || fa.X != recv {
		return false
	}
	pt, okP := fa.X.Type().Underlying().(*types.Pointer)
	if !okP {
		return false
	}
	st, okS := pt.Elem().Underlying().(*types.Struct)
	if !okS {
		return false
	}
	if st.Field(fa.Field).Name() == field {
		return true
	}
	if field == "usedMap" {
		// the set of live offsets is found by its role, not by its name: the map-typed field of the
		// allocator (when no field is called usedMap)
		for i := 0; i < st.NumFields(); i++ {
			if st.Field(i).Name() == "usedMap" {
				return false
			}
		}
		_, isMap := st.Field(fa.Field).Type().Underlying().(*types.Map)
		return isMap
	}
	return false
}

// mapHelperEffect: what a function does to the map it receives as parameter i ("update ", "delete ",
// both, or nothing), looking at its own instructions only.
func mapHelperEffect(fn *ssa.Function, i int) string {
	if fn == nil || fn.Blocks == nil || i >= len(fn.Params) {
		return ""
	}
	p := ssa.Value(fn.Params[i])
	how := ""
	for _, b := range fn.Blocks {
		for _, ins := range b.Instrs {
			switch x := ins.(type) {
			case *ssa.MapUpdate:
				if x.Map == p {
					how += "update "
				}
			case *ssa.Call:
				if bi, ok := x.Call.Value.(*ssa.Builtin); ok && bi.Name() == "delete" && x.Call.Args[0] == p {
					how += "delete "
				}
			}
		}
	}
	return how
}

// writesOffset: instruction stores to recv.offset or calls a method of the receiver that does.
func writesField(ins ssa.Instruction, recv ssa.Value, field string, writers map[string]bool) bool {
	switch x := ins.(type) {
	case *ssa.Store:
		return fieldAddr(x.Addr, recv, field)
	case *ssa.Call:
		if f := x.Call.StaticCallee(); f != nil && len(x.Call.Args) > 0 && x.Call.Args[0] == recv && writers[f.Name()] {
			return true
		}
	}
	return false
}

func propC20(w *World, r *Report, tier string) {
	r.Explanation = "The property quantifies over histories; it follows by induction from per-method facts, which are decided on the SSA form of the five methods of " +
		"uePolicyContainer.IDGenerator: (fresh) every nil-error return of Allocate/Allocate_inRange is dominated by usedMap[offset] = true on the miss edge of " +
		"the lookup of the same offset, and the returned id is that offset + minValue with no write to offset in between; (bounds) every function that writes " +
		"offset leaves it reduced modulo valueRange (or 0), valueRange = max - min + 1, and usedMap/offset are written nowhere else; (fail-only-full) Allocate's only " +
		"error return is guarded by offset == the offset at entry, after an advance, inside the 'used' arm; (free) FreeID deletes exactly key id - minValue under the " +
		"range guard."
	r.Assumptions = []string{"int64 arithmetic does not overflow; valueRange >= 1; non-negative arguments to Allocate_inRange (outside: 'allocators of every small range')",
		"the allocator is used by one goroutine at a time (its mutex is commented out in the source)"}
	r.Trusted = []string{"go/ssa dominator tree"}
	r.Exhaustive = true
	tn, _ := w.Pkg("uePolicyContainer").Types.Scope().Lookup("IDGenerator").(*types.TypeName)
	if tn == nil {
		panic(anchorError("uePolicyContainer.IDGenerator"))
	}
	get := func(name string) *ssa.Function {
		f := w.LookupFunc("uePolicyContainer", "IDGenerator."+name)
		if f == nil {
			r.Fail("anchor", "uePolicyContainer.(*IDGenerator)."+name, "missing", token.NoPos, "method not found", nil)
			return nil
		}
		r.Fn(FuncName(f))
		return w.SSAFunc(f)
	}
	// which methods write offset / usedMap (directly)
	offsetWriters := map[string]bool{}
	mapWriters := map[string]string{}
	ms := types.NewMethodSet(types.NewPointer(tn.Type()))
	var methods []*ssa.Function
	for i := 0; i < ms.Len(); i++ {
		if fn := w.Prog.MethodValue(ms.At(i)); fn != nil && fn.Blocks != nil {
			methods = append(methods, fn)
		}
	}
	// also functions of the package that take *IDGenerator (NewGenerator)
	for changed := true; changed; {
		changed = false
		for _, fn := range methods {
			recv := ssa.Value(fn.Params[0])
			for _, b := range fn.Blocks {
				for _, ins := range b.Instrs {
					if writesField(ins, recv, "offset", offsetWriters) && !offsetWriters[fn.Name()] {
						offsetWriters[fn.Name()] = true
						changed = true
					}
				}
			}
		}
	}
	for _, fn := range methods {
		recv := ssa.Value(fn.Params[0])
		for _, b := range fn.Blocks {
			for _, ins := range b.Instrs {
				switch x := ins.(type) {
				case *ssa.MapUpdate:
					if fieldLoad(x.Map, recv, "usedMap") {
						mapWriters[fn.Name()] += "update "
					}
				case *ssa.Call:
					if bi, ok := x.Call.Value.(*ssa.Builtin); ok && bi.Name() == "delete" && fieldLoad(x.Call.Args[0], recv, "usedMap") {
						mapWriters[fn.Name()] += "delete "
					}
					// the map handed to a helper (a method of a named set type): what the helper does to it
					// is done by this method
					if callee := x.Call.StaticCallee(); callee != nil {
						for i, a := range x.Call.Args {
							if fieldLoad(a, recv, "usedMap") {
								mapWriters[fn.Name()] += mapHelperEffect(callee, i)
							}
						}
					}
				case *ssa.Store:
					if fieldAddr(x.Addr, recv, "usedMap") {
						mapWriters[fn.Name()] += "assign "
					}
				}
			}
		}
	}
	// ---- bounds: every function that stores to offset itself leaves it reduced (functions that
	// only reach it through such a helper need nothing of their own)
	reduced := func(v ssa.Value, recv ssa.Value) bool {
		switch v := v.(type) {
		case *ssa.Const:
			if c, isInt := constant.Int64Val(constant.ToInt(v.Value)); isInt && c == 0 {
				return true
			}
		case *ssa.BinOp:
			if v.Op == token.REM && fieldLoad(v.Y, recv, "valueRange") {
				return true
			}
		}
		return false
	}
	var names []string
	for name := range offsetWriters {
		names = append(names, name)
	}
	sort.Strings(names)
	for _, name := range names {
		fn := get(name)
		if fn == nil {
			continue
		}
		fname := SSAFuncName(fn)
		recv := ssa.Value(fn.Params[0])
		var stores []*ssa.Store
		for _, b := range fn.Blocks {
			for _, ins := range b.Instrs {
				if st, ok := ins.(*ssa.Store); ok && fieldAddr(st.Addr, recv, "offset") {
					stores = append(stores, st)
				}
			}
		}
		if len(stores) == 0 {
			continue // writes only through the helpers checked here
		}
		r.Site("alloc.bounds")
		bad := (*ssa.Store)(nil)
		if len(fn.Blocks) == 1 {
			// straight-line code: what the last store leaves is what counts
			if last := stores[len(stores)-1]; !reduced(last.Val, recv) {
				bad = last
			}
		} else {
			for _, st := range stores {
				if !reduced(st.Val, recv) {
					bad = st
				}
			}
		}
		if bad != nil && leavesOffsetReduced(fn, reduced, map[*ssa.Function]bool{}) {
			// decided on the paths instead: at every return the offset was last written with a reduced
			// value (x % valueRange, or 0), by a same-receiver helper with that property, or the path
			// passed the tests 0 <= offset and offset < valueRange after the last write
			bad = nil
		}
		if bad != nil {
			r.Fail("alloc.bounds", fname, "offset", bad.Pos(), "the value left in offset is not reduced modulo valueRange (nor 0): offsets can leave [0, valueRange) and identifiers the configured bounds", nil)
		} else {
			r.OK("alloc.bounds")
		}
	}
	// Go's % keeps the sign of the dividend: a value handed to the reducing helper must not be able
	// to go negative.  A parameter of an exported method is non-negative by the stated premise, the
	// offset itself by the invariant above; a difference is not.
	for _, fn := range methods {
		recv := ssa.Value(fn.Params[0])
		var nonNeg func(v ssa.Value, depth int) bool
		nonNeg = func(v ssa.Value, depth int) bool {
			if depth > 4 {
				return false
			}
			switch a := v.(type) {
			case *ssa.Parameter:
				return true
			case *ssa.Const:
				return a.Value != nil && a.Int64() >= 0
			case *ssa.UnOp:
				return a.Op == token.MUL && fieldLoad(a, recv, "offset")
			case *ssa.BinOp:
				switch a.Op {
				case token.REM, token.AND:
					// x % m and x & mask of a non-negative x stay non-negative
					return nonNeg(a.X, depth+1)
				case token.ADD:
					return nonNeg(a.X, depth+1) && nonNeg(a.Y, depth+1)
				}
			}
			return false
		}
		for _, b := range fn.Blocks {
			for _, ins := range b.Instrs {
				c, ok := ins.(*ssa.Call)
				if !ok || c.Call.StaticCallee() == nil || c.Call.StaticCallee().Name() != "setOffset" || len(c.Call.Args) != 2 {
					continue
				}
				r.Site("alloc.bounds")
				if nonNeg(c.Call.Args[1], 0) {
					r.OK("alloc.bounds")
				} else {
					r.Fail("alloc.bounds", SSAFuncName(fn), "setOffset argument", c.Pos(), "the value handed to setOffset ("+exprText(c.Call.Args[1])+") can be negative; x % valueRange keeps the sign of x, so the offset can leave [0, valueRange) and the identifier the configured bounds", nil)
				}
			}
		}
	}
	// valueRange = max - min + 1 in init
	if fn := get("init"); fn != nil {
		recv := ssa.Value(fn.Params[0])
		ok := false
		for _, b := range fn.Blocks {
			for _, ins := range b.Instrs {
				st, isSt := ins.(*ssa.Store)
				if !isSt || !fieldAddr(st.Addr, recv, "valueRange") {
					continue
				}
				if add, isAdd := st.Val.(*ssa.BinOp); isAdd && add.Op == token.ADD {
					if c, isC := add.Y.(*ssa.Const); isC && c.Value != nil && c.Int64() == 1 {
						if sub, isSub := add.X.(*ssa.BinOp); isSub && sub.Op == token.SUB && sub.X == ssa.Value(fn.Params[2]) && sub.Y == ssa.Value(fn.Params[1]) {
							ok = true
						}
					}
				}
			}
		}
		r.Site("alloc.bounds")
		if !ok {
			r.Fail("alloc.bounds", SSAFuncName(fn), "valueRange", fn.Pos(), "valueRange is not maxValue - minValue + 1", nil)
		} else {
			r.OK("alloc.bounds")
		}
	}
	// only the expected methods write the map
	for name, how := range mapWriters {
		want := map[string]string{"Allocate": "update ", "Allocate_inRange": "update ", "FreeID": "delete ", "init": "assign "}[name]
		r.Site("alloc.map-writers")
		if strings.TrimSpace(how) != strings.TrimSpace(want) {
			r.Fail("alloc.map-writers", "uePolicyContainer.(*IDGenerator)."+name, "usedMap", token.NoPos, "unexpected write to usedMap ("+strings.TrimSpace(how)+")", nil)
		} else {
			r.OK("alloc.map-writers")
		}
	}
	r.Expect("alloc.map-writers", 1)
	// ---- freshness and fail-only-full
	for _, name := range []string{"Allocate", "Allocate_inRange"} {
		fn := get(name)
		if fn == nil {
			continue
		}
		fname := SSAFuncName(fn)
		recv := ssa.Value(fn.Params[0])
		var mark *ssa.MapUpdate
		nmark := 0
		for _, b := range fn.Blocks {
			for _, ins := range b.Instrs {
				if mu, ok := ins.(*ssa.MapUpdate); ok && fieldLoad(mu.Map, recv, "usedMap") {
					mark = mu
					nmark++
				}
			}
		}
		r.Site("alloc.fresh")
		if nmark != 1 {
			r.Fail("alloc.fresh", fname, "mark", fn.Pos(), fmt.Sprintf("%d stores into usedMap (want exactly one)", nmark), nil)
			continue
		}
		okKey := fieldLoad(mark.Key, recv, "offset")
		okVal := false
		if c, ok := mark.Value.(*ssa.Const); ok && c.Value != nil && c.Value.Kind() == constant.Bool && constant.BoolVal(c.Value) {
			okVal = true
		}
		if !okKey || !okVal {
			r.Fail("alloc.fresh", fname, "mark", mark.Pos(), "the identifier is not marked as used[offset] = true", nil)
			continue
		}
		// every nil-error return is dominated by the mark, and returns offset + minValue read after the mark with no write in between
		good := true
		for _, b := range fn.Blocks {
			ret, ok := b.Instrs[len(b.Instrs)-1].(*ssa.Return)
			if !ok {
				continue
			}
			errC, isC := ret.Results[1].(*ssa.Const)
			if !isC || errC.Value != nil {
				continue // error return
			}
			if !mark.Block().Dominates(b) {
				good = false
				r.Fail("alloc.fresh", fname, "unmarked success", ret.Pos(), "a successful return is not preceded by marking the identifier as used", nil)
				continue
			}
			add, isAdd := ret.Results[0].(*ssa.BinOp)
			if !isAdd || add.Op != token.ADD || !((fieldLoad(add.X, recv, "offset") && fieldLoad(add.Y, recv, "minValue")) || (fieldLoad(add.Y, recv, "offset") && fieldLoad(add.X, recv, "minValue"))) {
				good = false
				r.Fail("alloc.fresh", fname, "returned id", ret.Pos(), "the returned identifier is not offset + minValue", nil)
				continue
			}
			offLoad := add.X
			if !fieldLoad(offLoad, recv, "offset") {
				offLoad = add.Y
			}
			// the load must sit in the mark's block after the mark, before any write to offset
			seenMark, seenLoad, bad := false, false, false
			for _, ins := range mark.Block().Instrs {
				if ins == ssa.Instruction(mark) {
					seenMark = true
					continue
				}
				if !seenMark {
					continue
				}
				if v, ok := ins.(ssa.Value); ok && v == offLoad {
					seenLoad = true
				}
				if writesField(ins, recv, "offset", offsetWriters) && !seenLoad {
					bad = true
				}
			}
			if !seenLoad || bad {
				good = false
				r.Fail("alloc.fresh", fname, "returned id", ret.Pos(), "offset is modified between marking it used and computing the returned identifier", nil)
			}
		}
		// the mark is reached only on the miss edge of a lookup of the same offset, with no write to offset in between
		miss := false
		for _, b := range fn.Blocks {
			iff, ok := b.Instrs[len(b.Instrs)-1].(*ssa.If)
			if !ok {
				continue
			}
			ex, ok := iff.Cond.(*ssa.Extract)
			if !ok || ex.Index != 1 {
				continue
			}
			lk, ok := ex.Tuple.(*ssa.Lookup)
			if !ok || !lk.CommaOk || !fieldLoad(lk.X, recv, "usedMap") || !fieldLoad(lk.Index, recv, "offset") {
				continue
			}
			// false edge must lead (through empty jump blocks) to the mark's block
			t := b.Succs[1]
			for len(t.Instrs) == 1 && t != mark.Block() {
				if _, isJ := t.Instrs[0].(*ssa.Jump); !isJ {
					break
				}
				t = t.Succs[0]
			}
			if t != mark.Block() {
				continue
			}
			// no write to offset between the lookup and the branch, nor before the mark in its block
			clean := true
			after := false
			for _, ins := range b.Instrs {
				if ins == ssa.Instruction(lk) {
					after = true
					continue
				}
				if after && writesField(ins, recv, "offset", offsetWriters) {
					clean = false
				}
			}
			for _, ins := range mark.Block().Instrs {
				if ins == ssa.Instruction(mark) {
					break
				}
				if writesField(ins, recv, "offset", offsetWriters) {
					clean = false
				}
			}
			// the mark's block must have no other way in
			only := true
			for _, p := range mark.Block().Preds {
				q := p
				for q != b && len(q.Instrs) == 1 && len(q.Preds) == 1 {
					q = q.Preds[0]
				}
				if q != b {
					only = false
				}
			}
			if clean && only {
				miss = true
			}
		}
		if !miss {
			good = false
			r.Fail("alloc.fresh", fname, "lookup-miss", mark.Pos(), "marking is not reached exclusively through the miss edge of a lookup of the same offset (or offset changes in between): a live identifier can be handed out", nil)
		}
		if good {
			r.OK("alloc.fresh")
			r.Sample(map[string]any{"rule": "alloc.fresh", "func": fname, "mark": "usedMap[offset] = true", "returned": "offset + minValue"})
		}
		// fail-only-full (Allocate)
		if name == "Allocate" {
			r.Site("alloc.fail-only-full")
			var entryLoad ssa.Value
			for _, ins := range fn.Blocks[0].Instrs {
				if writesField(ins, recv, "offset", offsetWriters) {
					break
				}
				if v, ok := ins.(ssa.Value); ok && fieldLoad(v, recv, "offset") {
					entryLoad = v
					break
				}
			}
			nerr, okErr := 0, 0
			for _, b := range fn.Blocks {
				ret, ok := b.Instrs[len(b.Instrs)-1].(*ssa.Return)
				if !ok {
					continue
				}
				if c, isC := ret.Results[1].(*ssa.Const); isC && c.Value == nil {
					continue
				}
				nerr++
				if len(b.Preds) != 1 {
					continue
				}
				p := b.Preds[0]
				iff, ok := p.Instrs[len(p.Instrs)-1].(*ssa.If)
				if !ok || p.Succs[0] != b {
					continue
				}
				eq, ok := iff.Cond.(*ssa.BinOp)
				if !ok || eq.Op != token.EQL {
					continue
				}
				if !((fieldLoad(eq.X, recv, "offset") && eq.Y == entryLoad) || (fieldLoad(eq.Y, recv, "offset") && eq.X == entryLoad)) || entryLoad == nil {
					continue
				}
				// an advance happens in p before the comparison, and p is on the 'used' arm of the lookup
				adv := false
				for _, ins := range p.Instrs {
					if writesField(ins, recv, "offset", offsetWriters) {
						adv = true
					}
				}
				used := false
				if len(p.Preds) == 1 {
					q := p.Preds[0]
					if qi, ok := q.Instrs[len(q.Instrs)-1].(*ssa.If); ok && q.Succs[0] == p {
						if ex, ok := qi.Cond.(*ssa.Extract); ok && ex.Index == 1 {
							if lk, ok := ex.Tuple.(*ssa.Lookup); ok && fieldLoad(lk.X, recv, "usedMap") {
								used = true
							}
						}
					}
				}
				if adv && used {
					okErr++
				}
			}
			if nerr != 1 || okErr != 1 {
				r.Fail("alloc.fail-only-full", fname, "error return", fn.Pos(), fmt.Sprintf("%d error returns, %d of them guarded by 'scan came back to the starting offset after advancing past a used one'", nerr, okErr), nil)
			} else {
				r.OK("alloc.fail-only-full")
			}
		}
	}
	// ---- free
	if fn := get("FreeID"); fn != nil {
		fname := SSAFuncName(fn)
		recv := ssa.Value(fn.Params[0])
		r.Site("alloc.free")
		var del *ssa.Call
		viaHelper := false
		for _, b := range fn.Blocks {
			for _, ins := range b.Instrs {
				if c, ok := ins.(*ssa.Call); ok {
					if bi, ok := c.Call.Value.(*ssa.Builtin); ok && bi.Name() == "delete" {
						del = c
					}
					// remove(set, key): a helper that deletes exactly the key it is given from the map it is given
					if callee := c.Call.StaticCallee(); callee != nil && len(c.Call.Args) == 2 && fieldLoad(c.Call.Args[0], recv, "usedMap") && strings.TrimSpace(mapHelperEffect(callee, 0)) == "delete" {
						exact := false
						for _, hb := range callee.Blocks {
							for _, hi := range hb.Instrs {
								if hc, isC := hi.(*ssa.Call); isC {
									if bi, isB := hc.Call.Value.(*ssa.Builtin); isB && bi.Name() == "delete" && hc.Call.Args[0] == ssa.Value(callee.Params[0]) && hc.Call.Args[1] == ssa.Value(callee.Params[1]) && len(callee.Blocks) == 1 {
										exact = true
									}
								}
							}
						}
						if exact {
							del, viaHelper = c, true
						}
					}
				}
			}
		}
		_ = viaHelper
		ok := false
		if del != nil && fieldLoad(del.Call.Args[0], recv, "usedMap") {
			if sub, isSub := del.Call.Args[1].(*ssa.BinOp); isSub && sub.Op == token.SUB && sub.X == ssa.Value(fn.Params[1]) && fieldLoad(sub.Y, recv, "minValue") {
				ok = true
			}
		}
		if !ok {
			r.Fail("alloc.free", fname, "key", fn.Pos(), "FreeID does not delete exactly key id - minValue", nil)
		} else {
			// range guard: the delete is not in the entry block and every path to it passes comparisons of id with min and max
			guards := 0
			for _, b := range fn.Blocks {
				if iff, isIf := b.Instrs[len(b.Instrs)-1].(*ssa.If); isIf && b.Dominates(del.Block()) {
					if c, isB := iff.Cond.(*ssa.BinOp); isB && (c.X == ssa.Value(fn.Params[1]) || c.Y == ssa.Value(fn.Params[1])) {
						if fieldLoad(c.X, recv, "minValue") || fieldLoad(c.Y, recv, "minValue") || fieldLoad(c.X, recv, "maxValue") || fieldLoad(c.Y, recv, "maxValue") {
							guards++
						}
					}
				}
			}
			if guards < 2 {
				r.Fail("alloc.free", fname, "range guard", fn.Pos(), "the delete is not guarded by both bounds", nil)
			} else {
				r.OK("alloc.free")
			}
		}
	}
	// ---- the same freshness facts, inter-procedurally (alloc_sem.go): where the per-method rules
	// above do not find the lookup, the mark and the returned sum in the allocating method itself
	// because they live in helper methods of the receiver, the tag analysis decides them in place
	semOK := map[string]bool{}
	for _, name := range []string{"Allocate", "Allocate_inRange"} {
		if fn := get(name); fn != nil {
			probs, _, _, leaks, notFull := checkAllocSem(w, fn)
			if name == "Allocate" {
				// alloc.fail-only-full, decided inter-procedurally: every error return of the plain
				// allocation lies behind the true edge of "offset == offset at entry", reached by advances
				// made only past offsets just found in use.  It replaces the per-method verdict when that
				// one does not find the shape in Allocate itself.
				var keep []Finding
				had := false
				for _, f := range r.Findings {
					if f.Rule == "alloc.fail-only-full" {
						had = true
						if len(notFull) == 0 {
							r.rule(f.Rule).Discharged++
							r.Note("alloc.fail-only-full: the per-method shape was not found in Allocate; decided inter-procedurally (alloc_sem.go): every error return follows a scan that came back to its starting offset having found every offset on the way in use")
							continue
						}
						f.Msg += " — " + strings.Join(notFull, "; ")
					}
					keep = append(keep, f)
				}
				r.Findings = keep
				if !had && len(notFull) > 0 {
					r.Fail("alloc.fail-only-full", SSAFuncName(fn), "inter-procedural", fn.Pos(), strings.Join(notFull, "; "), nil)
				}
			}
			// alloc.no-leak: a slot marked used is handed out - no error return after the mark
			r.Site("alloc.no-leak")
			if len(leaks) == 0 {
				r.OK("alloc.no-leak")
			}
			for _, l := range leaks {
				r.Fail("alloc.no-leak", SSAFuncName(fn), "error return after mark", fn.Pos(), l, nil)
			}
			semOK[name] = len(probs) == 0
			if len(probs) > 0 {
				r.Extra["alloc.sem/"+name] = probs
			}
		}
	}
	oldFailed := false
	for _, f := range r.Findings {
		if f.Rule == "alloc.fresh" || f.Rule == "alloc.map-writers" {
			oldFailed = true
		}
	}
	if !oldFailed {
		// the per-method rules decide (they are the stronger statement: everything in the method itself)
	} else if semOK["Allocate"] && semOK["Allocate_inRange"] {
		// helpers that store into usedMap: unexported, and entered only from the allocating methods or from each other
		helperOK := func(name string) bool {
			if name == "Allocate" || name == "Allocate_inRange" || name == "init" || name == "FreeID" {
				return false
			}
			fn := get(name)
			if fn == nil || fn.Object() == nil || fn.Object().Exported() {
				return false
			}
			for caller := range w.AllFuncs() {
				if caller.Blocks == nil || caller.Pkg == nil || !IsRepoPkg(caller.Pkg.Pkg) {
					continue
				}
				for _, b := range caller.Blocks {
					for _, ins := range b.Instrs {
						for _, op := range ins.Operands(nil) {
							if f, ok := (*op).(*ssa.Function); ok && f == fn {
								ci, isCall := ins.(ssa.CallInstruction)
								if !isCall || ci.Common().StaticCallee() != fn {
									return false // taken as a value
								}
								cn := caller.Name()
								if caller.Signature.Recv() == nil || (cn != "Allocate" && cn != "Allocate_inRange" && !mapWriterHelper[cn]) {
									if !(caller.Signature.Recv() != nil && offsetWriters[cn] && !caller.Object().Exported()) {
										return false
									}
								}
							}
						}
					}
				}
			}
			return true
		}
		var keep []Finding
		withdrawn := 0
		for _, f := range r.Findings {
			drop := false
			switch f.Rule {
			case "alloc.fresh":
				drop = true
			case "alloc.map-writers":
				parts := strings.Split(f.Func, ".")
				drop = helperOK(parts[len(parts)-1])
			case "vacuity":
				drop = strings.Contains(f.Key, "alloc.map-writers") || strings.Contains(f.Key, "alloc.fresh")
			}
			if drop {
				withdrawn++
				r.rule(f.Rule).Discharged++
				continue
			}
			keep = append(keep, f)
		}
		if withdrawn > 0 {
			r.Findings = keep
			r.Note("alloc.fresh / alloc.map-writers: %d finding(s) of the per-method rules withdrawn — the lookup, the mark and the returned sum are in helper methods of the receiver; decided inter-procedurally (alloc_sem.go): every store usedMap[k]=x has k = the current offset, x = true and follows a lookup of that offset that found it free, and every successful return yields offset+minValue of the marked slot", withdrawn)
		}
	} else {
		// the inter-procedural analysis found the discipline broken: say what it found
		for _, name := range []string{"Allocate", "Allocate_inRange"} {
			if probs, ok := r.Extra["alloc.sem/"+name].([]string); ok {
				for _, p := range probs {
					r.Site("alloc.fresh")
					r.Fail("alloc.fresh", "uePolicyContainer.(*IDGenerator)."+name, "inter-procedural: "+p[strings.Index(p, ": ")+2:], token.NoPos, p, nil)
				}
			}
		}
	}
	r.Expect("alloc.fresh", 2)
	r.Expect("alloc.no-leak", 2)
	r.Expect("alloc.bounds", 5)
}

// mapWriterHelper: names of unexported helper methods accepted as callers of other helpers (none by default).
var mapWriterHelper = map[string]bool{}


// leavesOffsetReduced: a forward analysis over the CFG of a method that writes offset.  State per
// path: reduced (the offset was last written with a reduced value or by a helper that leaves it
// reduced), lowOK / highOK (the tests 0 <= offset / offset < valueRange were passed since the last
// write).  Every return must be reached with reduced, or with both tests passed.  Joins intersect.
func leavesOffsetReduced(fn *ssa.Function, reduced func(ssa.Value, ssa.Value) bool, busy map[*ssa.Function]bool) bool {
	if fn == nil || fn.Blocks == nil || busy[fn] {
		return false
	}
	busy[fn] = true
	defer delete(busy, fn)
	recv := ssa.Value(fn.Params[0])
	type st struct{ reduced, low, high, live bool }
	join := func(a, b st) st {
		if !a.live {
			return b
		}
		if !b.live {
			return a
		}
		return st{a.reduced && b.reduced, a.low && b.low, a.high && b.high, true}
	}
	in := make([]st, len(fn.Blocks))
	in[0] = st{live: true}
	edge := map[[2]int]st{}
	work := []int{0}
	ok := true
	for steps := 0; len(work) > 0 && steps < 1000; steps++ {
		bi := work[0]
		work = work[1:]
		b := fn.Blocks[bi]
		s := in[bi]
		send := func(to *ssa.BasicBlock, v st) {
			v.reduced = v.reduced || (v.low && v.high) // in range by the tests passed: as good as reduced
			edge[[2]int{b.Index, to.Index}] = v
			var n st
			for _, p := range to.Preds {
				if e, has := edge[[2]int{p.Index, to.Index}]; has {
					n = join(n, e)
				}
			}
			if n != in[to.Index] {
				in[to.Index] = n
				work = append(work, to.Index)
			}
		}
		for _, ins := range b.Instrs {
			switch x := ins.(type) {
			case *ssa.Store:
				if fieldAddr(x.Addr, recv, "offset") {
					s = st{reduced: reduced(x.Val, recv), live: true}
				}
			case *ssa.Call:
				if callee := x.Call.StaticCallee(); callee != nil && len(x.Call.Args) > 0 && x.Call.Args[0] == recv && callee.Blocks != nil {
					writes := false
					for _, cb := range callee.Blocks {
						for _, ci := range cb.Instrs {
							if sto, isSt := ci.(*ssa.Store); isSt && fieldAddr(sto.Addr, ssa.Value(callee.Params[0]), "offset") {
								writes = true
							}
							if cc, isC := ci.(*ssa.Call); isC && cc.Call.StaticCallee() != nil && len(cc.Call.Args) > 0 && cc.Call.Args[0] == ssa.Value(callee.Params[0]) {
								writes = true // conservatively: a nested same-receiver call may write
							}
						}
					}
					if writes {
						s = st{reduced: leavesOffsetReduced(callee, reduced, busy), live: true}
					}
				}
			case *ssa.If:
				t, f := s, s
				// what a comparison tells about the offset: (low, high) when it is true, when it is false
				facts := func(v ssa.Value) (tl, th, fl, fh bool) {
					c, isB := v.(*ssa.BinOp)
					if !isB {
						return
					}
					offL, offR := fieldLoad(c.X, recv, "offset"), fieldLoad(c.Y, recv, "offset")
					zero := func(v ssa.Value) bool {
						k, isC := v.(*ssa.Const)
						return isC && k.Value != nil && k.Value.Kind() == constant.Int && constant.Sign(k.Value) == 0
					}
					vrL, vrR := fieldLoad(c.X, recv, "valueRange"), fieldLoad(c.Y, recv, "valueRange")
					switch {
					case offL && zero(c.Y) && c.Op == token.GEQ, offR && zero(c.X) && c.Op == token.LEQ:
						tl = true
					case offL && zero(c.Y) && c.Op == token.LSS, offR && zero(c.X) && c.Op == token.GTR:
						fl = true
					case offL && vrR && c.Op == token.LSS, offR && vrL && c.Op == token.GTR:
						th = true
					case offL && vrR && c.Op == token.GEQ, offR && vrL && c.Op == token.LEQ:
						fh = true
					}
					return
				}
				switch c := x.Cond.(type) {
				case *ssa.BinOp:
					tl, th, fl, fh := facts(c)
					t.low, t.high = t.low || tl, t.high || th
					f.low, f.high = f.low || fl, f.high || fh
				case *ssa.Phi:
					// `a && b` evaluated as a value: true only along the edges that do not carry the
					// constant false; on each of those, what was known on that path and what the edge's
					// own comparison says
					if c.Block() == b && len(c.Edges) == len(b.Preds) {
						lowAll, highAll, any := true, true, false
						for i, e := range c.Edges {
							if k, isC := e.(*ssa.Const); isC && k.Value != nil && k.Value.Kind() == constant.Bool && !constant.BoolVal(k.Value) {
								continue
							}
							es, has := edge[[2]int{b.Preds[i].Index, b.Index}]
							if !has {
								continue
							}
							tl, th, _, _ := facts(e)
							lowAll = lowAll && (es.low || tl || es.reduced)
							highAll = highAll && (es.high || th || es.reduced)
							any = true
						}
						if any {
							t.low, t.high = t.low || lowAll, t.high || highAll
						}
					}
				}
				send(b.Succs[0], t)
				send(b.Succs[1], f)
			case *ssa.Jump:
				send(b.Succs[0], s)
			case *ssa.Return:
				if !(s.reduced || (s.low && s.high)) {
					ok = false
				}
			}
		}
	}
	return ok
}
