package main

// C20 — policy-section ID allocator: per-method structural facts (SSA / dominance) from which
// freshness, bounds, fail-only-when-full and free follow by induction over histories.

import (
	"sort"
	"fmt"
	"go/constant"
	"go/token"
	"go/types"
	"strings"

	"golang.org/x/tools/go/ssa"
)

func init() { register("C20", propC20) }

// fieldLoad reports whether v is a load of receiver.<field> (recv = fn.Params[0]).
func fieldLoad(v ssa.Value, recv ssa.Value, field string) bool {
	u, ok := v.(*ssa.UnOp)
	if !ok || u.Op != token.MUL {
		return false
	}
	return fieldAddr(u.X, recv, field)
}

func fieldAddr(v ssa.Value, recv ssa.Value, field string) bool {
	fa, ok := v.(*ssa.FieldAddr)
	if !ok || fa.X != recv {
		return false
	}
	st := fa.X.Type().Underlying().(*types.Pointer).Elem().Underlying().(*types.Struct)
	return st.Field(fa.Field).Name() == field
}

// writesOffset: instruction stores to recv.offset or calls a method of the receiver that does.
func writesField(ins ssa.Instruction, recv ssa.Value, field string, writers map[string]bool) bool {
	switch x := ins.(type) {
	case *ssa.Store:
		return fieldAddr(x.Addr, recv, field)
	case *ssa.Call:
		if f := x.Call.StaticCallee(); f != nil && len(x.Call.Args) > 0 && x.Call.Args[0] == recv && writers[f.Name()] {
			return true
		}
	}
	return false
}

func propC20(w *World, r *Report, tier string) {
	r.Explanation = "The property quantifies over histories; it follows by induction from per-method facts, which are decided on the SSA form of the five methods of " +
		"uePolicyContainer.IDGenerator: (fresh) every nil-error return of Allocate/Allocate_inRange is dominated by usedMap[offset] = true on the miss edge of " +
		"the lookup of the same offset, and the returned id is that offset + minValue with no write to offset in between; (bounds) every function that writes " +
		"offset leaves it reduced modulo valueRange (or 0), valueRange = max - min + 1, and usedMap/offset are written nowhere else; (fail-only-full) Allocate's only " +
		"error return is guarded by offset == the offset at entry, after an advance, inside the 'used' arm; (free) FreeID deletes exactly key id - minValue under the " +
		"range guard."
	r.Assumptions = []string{"int64 arithmetic does not overflow; valueRange >= 1; non-negative arguments to Allocate_inRange (outside: 'allocators of every small range')",
		"the allocator is used by one goroutine at a time (its mutex is commented out in the source)"}
	r.Trusted = []string{"go/ssa dominator tree"}
	r.Exhaustive = true
	tn, _ := w.Pkg("uePolicyContainer").Types.Scope().Lookup("IDGenerator").(*types.TypeName)
	if tn == nil {
		panic(anchorError("uePolicyContainer.IDGenerator"))
	}
	get := func(name string) *ssa.Function {
		f := w.LookupFunc("uePolicyContainer", "IDGenerator."+name)
		if f == nil {
			r.Fail("anchor", "uePolicyContainer.(*IDGenerator)."+name, "missing", token.NoPos, "method not found", nil)
			return nil
		}
		r.Fn(FuncName(f))
		return w.SSAFunc(f)
	}
	// which methods write offset / usedMap (directly)
	offsetWriters := map[string]bool{}
	mapWriters := map[string]string{}
	ms := types.NewMethodSet(types.NewPointer(tn.Type()))
	var methods []*ssa.Function
	for i := 0; i < ms.Len(); i++ {
		if fn := w.Prog.MethodValue(ms.At(i)); fn != nil && fn.Blocks != nil {
			methods = append(methods, fn)
		}
	}
	// also functions of the package that take *IDGenerator (NewGenerator)
	for changed := true; changed; {
		changed = false
		for _, fn := range methods {
			recv := ssa.Value(fn.Params[0])
			for _, b := range fn.Blocks {
				for _, ins := range b.Instrs {
					if writesField(ins, recv, "offset", offsetWriters) && !offsetWriters[fn.Name()] {
						offsetWriters[fn.Name()] = true
						changed = true
					}
				}
			}
		}
	}
	for _, fn := range methods {
		recv := ssa.Value(fn.Params[0])
		for _, b := range fn.Blocks {
			for _, ins := range b.Instrs {
				switch x := ins.(type) {
				case *ssa.MapUpdate:
					if fieldLoad(x.Map, recv, "usedMap") {
						mapWriters[fn.Name()] += "update "
					}
				case *ssa.Call:
					if bi, ok := x.Call.Value.(*ssa.Builtin); ok && bi.Name() == "delete" && fieldLoad(x.Call.Args[0], recv, "usedMap") {
						mapWriters[fn.Name()] += "delete "
					}
				case *ssa.Store:
					if fieldAddr(x.Addr, recv, "usedMap") {
						mapWriters[fn.Name()] += "assign "
					}
				}
			}
		}
	}
	// ---- bounds: every function that stores to offset itself leaves it reduced (functions that
	// only reach it through such a helper need nothing of their own)
	reduced := func(v ssa.Value, recv ssa.Value) bool {
		switch v := v.(type) {
		case *ssa.Const:
			if c, isInt := constant.Int64Val(constant.ToInt(v.Value)); isInt && c == 0 {
				return true
			}
		case *ssa.BinOp:
			if v.Op == token.REM && fieldLoad(v.Y, recv, "valueRange") {
				return true
			}
		}
		return false
	}
	var names []string
	for name := range offsetWriters {
		names = append(names, name)
	}
	sort.Strings(names)
	for _, name := range names {
		fn := get(name)
		if fn == nil {
			continue
		}
		fname := SSAFuncName(fn)
		recv := ssa.Value(fn.Params[0])
		var stores []*ssa.Store
		for _, b := range fn.Blocks {
			for _, ins := range b.Instrs {
				if st, ok := ins.(*ssa.Store); ok && fieldAddr(st.Addr, recv, "offset") {
					stores = append(stores, st)
				}
			}
		}
		if len(stores) == 0 {
			continue // writes only through the helpers checked here
		}
		r.Site("alloc.bounds")
		bad := (*ssa.Store)(nil)
		if len(fn.Blocks) == 1 {
			// straight-line code: what the last store leaves is what counts
			if last := stores[len(stores)-1]; !reduced(last.Val, recv) {
				bad = last
			}
		} else {
			for _, st := range stores {
				if !reduced(st.Val, recv) {
					bad = st
				}
			}
		}
		if bad != nil {
			r.Fail("alloc.bounds", fname, "offset", bad.Pos(), "the value left in offset is not reduced modulo valueRange (nor 0): offsets can leave [0, valueRange) and identifiers the configured bounds", nil)
		} else {
			r.OK("alloc.bounds")
		}
	}
	// Go's % keeps the sign of the dividend: a value handed to the reducing helper must not be able
	// to go negative.  A parameter of an exported method is non-negative by the stated premise, the
	// offset itself by the invariant above; a difference is not.
	for _, fn := range methods {
		recv := ssa.Value(fn.Params[0])
		var nonNeg func(v ssa.Value, depth int) bool
		nonNeg = func(v ssa.Value, depth int) bool {
			if depth > 4 {
				return false
			}
			switch a := v.(type) {
			case *ssa.Parameter:
				return true
			case *ssa.Const:
				return a.Value != nil && a.Int64() >= 0
			case *ssa.UnOp:
				return a.Op == token.MUL && fieldLoad(a, recv, "offset")
			case *ssa.BinOp:
				switch a.Op {
				case token.REM, token.AND:
					// x % m and x & mask of a non-negative x stay non-negative
					return nonNeg(a.X, depth+1)
				case token.ADD:
					return nonNeg(a.X, depth+1) && nonNeg(a.Y, depth+1)
				}
			}
			return false
		}
		for _, b := range fn.Blocks {
			for _, ins := range b.Instrs {
				c, ok := ins.(*ssa.Call)
				if !ok || c.Call.StaticCallee() == nil || c.Call.StaticCallee().Name() != "setOffset" || len(c.Call.Args) != 2 {
					continue
				}
				r.Site("alloc.bounds")
				if nonNeg(c.Call.Args[1], 0) {
					r.OK("alloc.bounds")
				} else {
					r.Fail("alloc.bounds", SSAFuncName(fn), "setOffset argument", c.Pos(), "the value handed to setOffset ("+exprText(c.Call.Args[1])+") can be negative; x % valueRange keeps the sign of x, so the offset can leave [0, valueRange) and the identifier the configured bounds", nil)
				}
			}
		}
	}
	// valueRange = max - min + 1 in init
	if fn := get("init"); fn != nil {
		recv := ssa.Value(fn.Params[0])
		ok := false
		for _, b := range fn.Blocks {
			for _, ins := range b.Instrs {
				st, isSt := ins.(*ssa.Store)
				if !isSt || !fieldAddr(st.Addr, recv, "valueRange") {
					continue
				}
				if add, isAdd := st.Val.(*ssa.BinOp); isAdd && add.Op == token.ADD {
					if c, isC := add.Y.(*ssa.Const); isC && c.Value != nil && c.Int64() == 1 {
						if sub, isSub := add.X.(*ssa.BinOp); isSub && sub.Op == token.SUB && sub.X == ssa.Value(fn.Params[2]) && sub.Y == ssa.Value(fn.Params[1]) {
							ok = true
						}
					}
				}
			}
		}
		r.Site("alloc.bounds")
		if !ok {
			r.Fail("alloc.bounds", SSAFuncName(fn), "valueRange", fn.Pos(), "valueRange is not maxValue - minValue + 1", nil)
		} else {
			r.OK("alloc.bounds")
		}
	}
	// only the expected methods write the map
	for name, how := range mapWriters {
		want := map[string]string{"Allocate": "update ", "Allocate_inRange": "update ", "FreeID": "delete ", "init": "assign "}[name]
		r.Site("alloc.map-writers")
		if strings.TrimSpace(how) != strings.TrimSpace(want) {
			r.Fail("alloc.map-writers", "uePolicyContainer.(*IDGenerator)."+name, "usedMap", token.NoPos, "unexpected write to usedMap ("+strings.TrimSpace(how)+")", nil)
		} else {
			r.OK("alloc.map-writers")
		}
	}
	r.Expect("alloc.map-writers", 4)
	// ---- freshness and fail-only-full
	for _, name := range []string{"Allocate", "Allocate_inRange"} {
		fn := get(name)
		if fn == nil {
			continue
		}
		fname := SSAFuncName(fn)
		recv := ssa.Value(fn.Params[0])
		var mark *ssa.MapUpdate
		nmark := 0
		for _, b := range fn.Blocks {
			for _, ins := range b.Instrs {
				if mu, ok := ins.(*ssa.MapUpdate); ok && fieldLoad(mu.Map, recv, "usedMap") {
					mark = mu
					nmark++
				}
			}
		}
		r.Site("alloc.fresh")
		if nmark != 1 {
			r.Fail("alloc.fresh", fname, "mark", fn.Pos(), fmt.Sprintf("%d stores into usedMap (want exactly one)", nmark), nil)
			continue
		}
		okKey := fieldLoad(mark.Key, recv, "offset")
		okVal := false
		if c, ok := mark.Value.(*ssa.Const); ok && c.Value != nil && c.Value.Kind() == constant.Bool && constant.BoolVal(c.Value) {
			okVal = true
		}
		if !okKey || !okVal {
			r.Fail("alloc.fresh", fname, "mark", mark.Pos(), "the identifier is not marked as used[offset] = true", nil)
			continue
		}
		// every nil-error return is dominated by the mark, and returns offset + minValue read after the mark with no write in between
		good := true
		for _, b := range fn.Blocks {
			ret, ok := b.Instrs[len(b.Instrs)-1].(*ssa.Return)
			if !ok {
				continue
			}
			errC, isC := ret.Results[1].(*ssa.Const)
			if !isC || errC.Value != nil {
				continue // error return
			}
			if !mark.Block().Dominates(b) {
				good = false
				r.Fail("alloc.fresh", fname, "unmarked success", ret.Pos(), "a successful return is not preceded by marking the identifier as used", nil)
				continue
			}
			add, isAdd := ret.Results[0].(*ssa.BinOp)
			if !isAdd || add.Op != token.ADD || !((fieldLoad(add.X, recv, "offset") && fieldLoad(add.Y, recv, "minValue")) || (fieldLoad(add.Y, recv, "offset") && fieldLoad(add.X, recv, "minValue"))) {
				good = false
				r.Fail("alloc.fresh", fname, "returned id", ret.Pos(), "the returned identifier is not offset + minValue", nil)
				continue
			}
			offLoad := add.X
			if !fieldLoad(offLoad, recv, "offset") {
				offLoad = add.Y
			}
			// the load must sit in the mark's block after the mark, before any write to offset
			seenMark, seenLoad, bad := false, false, false
			for _, ins := range mark.Block().Instrs {
				if ins == ssa.Instruction(mark) {
					seenMark = true
					continue
				}
				if !seenMark {
					continue
				}
				if v, ok := ins.(ssa.Value); ok && v == offLoad {
					seenLoad = true
				}
				if writesField(ins, recv, "offset", offsetWriters) && !seenLoad {
					bad = true
				}
			}
			if !seenLoad || bad {
				good = false
				r.Fail("alloc.fresh", fname, "returned id", ret.Pos(), "offset is modified between marking it used and computing the returned identifier", nil)
			}
		}
		// the mark is reached only on the miss edge of a lookup of the same offset, with no write to offset in between
		miss := false
		for _, b := range fn.Blocks {
			iff, ok := b.Instrs[len(b.Instrs)-1].(*ssa.If)
			if !ok {
				continue
			}
			ex, ok := iff.Cond.(*ssa.Extract)
			if !ok || ex.Index != 1 {
				continue
			}
			lk, ok := ex.Tuple.(*ssa.Lookup)
			if !ok || !lk.CommaOk || !fieldLoad(lk.X, recv, "usedMap") || !fieldLoad(lk.Index, recv, "offset") {
				continue
			}
			// false edge must lead (through empty jump blocks) to the mark's block
			t := b.Succs[1]
			for len(t.Instrs) == 1 && t != mark.Block() {
				if _, isJ := t.Instrs[0].(*ssa.Jump); !isJ {
					break
				}
				t = t.Succs[0]
			}
			if t != mark.Block() {
				continue
			}
			// no write to offset between the lookup and the branch, nor before the mark in its block
			clean := true
			after := false
			for _, ins := range b.Instrs {
				if ins == ssa.Instruction(lk) {
					after = true
					continue
				}
				if after && writesField(ins, recv, "offset", offsetWriters) {
					clean = false
				}
			}
			for _, ins := range mark.Block().Instrs {
				if ins == ssa.Instruction(mark) {
					break
				}
				if writesField(ins, recv, "offset", offsetWriters) {
					clean = false
				}
			}
			// the mark's block must have no other way in
			only := true
			for _, p := range mark.Block().Preds {
				q := p
				for q != b && len(q.Instrs) == 1 && len(q.Preds) == 1 {
					q = q.Preds[0]
				}
				if q != b {
					only = false
				}
			}
			if clean && only {
				miss = true
			}
		}
		if !miss {
			good = false
			r.Fail("alloc.fresh", fname, "lookup-miss", mark.Pos(), "marking is not reached exclusively through the miss edge of a lookup of the same offset (or offset changes in between): a live identifier can be handed out", nil)
		}
		if good {
			r.OK("alloc.fresh")
			r.Sample(map[string]any{"rule": "alloc.fresh", "func": fname, "mark": "usedMap[offset] = true", "returned": "offset + minValue"})
		}
		// fail-only-full (Allocate)
		if name == "Allocate" {
			r.Site("alloc.fail-only-full")
			var entryLoad ssa.Value
			for _, ins := range fn.Blocks[0].Instrs {
				if writesField(ins, recv, "offset", offsetWriters) {
					break
				}
				if v, ok := ins.(ssa.Value); ok && fieldLoad(v, recv, "offset") {
					entryLoad = v
					break
				}
			}
			nerr, okErr := 0, 0
			for _, b := range fn.Blocks {
				ret, ok := b.Instrs[len(b.Instrs)-1].(*ssa.Return)
				if !ok {
					continue
				}
				if c, isC := ret.Results[1].(*ssa.Const); isC && c.Value == nil {
					continue
				}
				nerr++
				if len(b.Preds) != 1 {
					continue
				}
				p := b.Preds[0]
				iff, ok := p.Instrs[len(p.Instrs)-1].(*ssa.If)
				if !ok || p.Succs[0] != b {
					continue
				}
				eq, ok := iff.Cond.(*ssa.BinOp)
				if !ok || eq.Op != token.EQL {
					continue
				}
				if !((fieldLoad(eq.X, recv, "offset") && eq.Y == entryLoad) || (fieldLoad(eq.Y, recv, "offset") && eq.X == entryLoad)) || entryLoad == nil {
					continue
				}
				// an advance happens in p before the comparison, and p is on the 'used' arm of the lookup
				adv := false
				for _, ins := range p.Instrs {
					if writesField(ins, recv, "offset", offsetWriters) {
						adv = true
					}
				}
				used := false
				if len(p.Preds) == 1 {
					q := p.Preds[0]
					if qi, ok := q.Instrs[len(q.Instrs)-1].(*ssa.If); ok && q.Succs[0] == p {
						if ex, ok := qi.Cond.(*ssa.Extract); ok && ex.Index == 1 {
							if lk, ok := ex.Tuple.(*ssa.Lookup); ok && fieldLoad(lk.X, recv, "usedMap") {
								used = true
							}
						}
					}
				}
				if adv && used {
					okErr++
				}
			}
			if nerr != 1 || okErr != 1 {
				r.Fail("alloc.fail-only-full", fname, "error return", fn.Pos(), fmt.Sprintf("%d error returns, %d of them guarded by 'scan came back to the starting offset after advancing past a used one'", nerr, okErr), nil)
			} else {
				r.OK("alloc.fail-only-full")
			}
		}
	}
	// ---- free
	if fn := get("FreeID"); fn != nil {
		fname := SSAFuncName(fn)
		recv := ssa.Value(fn.Params[0])
		r.Site("alloc.free")
		var del *ssa.Call
		for _, b := range fn.Blocks {
			for _, ins := range b.Instrs {
				if c, ok := ins.(*ssa.Call); ok {
					if bi, ok := c.Call.Value.(*ssa.Builtin); ok && bi.Name() == "delete" {
						del = c
					}
				}
			}
		}
		ok := false
		if del != nil && fieldLoad(del.Call.Args[0], recv, "usedMap") {
			if sub, isSub := del.Call.Args[1].(*ssa.BinOp); isSub && sub.Op == token.SUB && sub.X == ssa.Value(fn.Params[1]) && fieldLoad(sub.Y, recv, "minValue") {
				ok = true
			}
		}
		if !ok {
			r.Fail("alloc.free", fname, "key", fn.Pos(), "FreeID does not delete exactly key id - minValue", nil)
		} else {
			// range guard: the delete is not in the entry block and every path to it passes comparisons of id with min and max
			guards := 0
			for _, b := range fn.Blocks {
				if iff, isIf := b.Instrs[len(b.Instrs)-1].(*ssa.If); isIf && b.Dominates(del.Block()) {
					if c, isB := iff.Cond.(*ssa.BinOp); isB && (c.X == ssa.Value(fn.Params[1]) || c.Y == ssa.Value(fn.Params[1])) {
						if fieldLoad(c.X, recv, "minValue") || fieldLoad(c.Y, recv, "minValue") || fieldLoad(c.X, recv, "maxValue") || fieldLoad(c.Y, recv, "maxValue") {
							guards++
						}
					}
				}
			}
			if guards < 2 {
				r.Fail("alloc.free", fname, "range guard", fn.Pos(), "the delete is not guarded by both bounds", nil)
			} else {
				r.OK("alloc.free")
			}
		}
	}
	// ---- the same freshness facts, inter-procedurally (alloc_sem.go): where the per-method rules
	// above do not find the lookup, the mark and the returned sum in the allocating method itself
	// because they live in helper methods of the receiver, the tag analysis decides them in place
	semOK := map[string]bool{}
	for _, name := range []string{"Allocate", "Allocate_inRange"} {
		if fn := get(name); fn != nil {
			probs, _, _, leaks, notFull := checkAllocSem(w, fn)
			if name == "Allocate" {
				// alloc.fail-only-full, decided inter-procedurally: every error return of the plain
				// allocation lies behind the true edge of "offset == offset at entry", reached by advances
				// made only past offsets just found in use.  It replaces the per-method verdict when that
				// one does not find the shape in Allocate itself.
				var keep []Finding
				had := false
				for _, f := range r.Findings {
					if f.Rule == "alloc.fail-only-full" {
						had = true
						if len(notFull) == 0 {
							r.rule(f.Rule).Discharged++
							r.Note("alloc.fail-only-full: the per-method shape was not found in Allocate; decided inter-procedurally (alloc_sem.go): every error return follows a scan that came back to its starting offset having found every offset on the way in use")
							continue
						}
						f.Msg += " — " + strings.Join(notFull, "; ")
					}
					keep = append(keep, f)
				}
				r.Findings = keep
				if !had && len(notFull) > 0 {
					r.Fail("alloc.fail-only-full", SSAFuncName(fn), "inter-procedural", fn.Pos(), strings.Join(notFull, "; "), nil)
				}
			}
			// alloc.no-leak: a slot marked used is handed out - no error return after the mark
			r.Site("alloc.no-leak")
			if len(leaks) == 0 {
				r.OK("alloc.no-leak")
			}
			for _, l := range leaks {
				r.Fail("alloc.no-leak", SSAFuncName(fn), "error return after mark", fn.Pos(), l, nil)
			}
			semOK[name] = len(probs) == 0
			if len(probs) > 0 {
				r.Extra["alloc.sem/"+name] = probs
			}
		}
	}
	oldFailed := false
	for _, f := range r.Findings {
		if f.Rule == "alloc.fresh" || f.Rule == "alloc.map-writers" {
			oldFailed = true
		}
	}
	if !oldFailed {
		// the per-method rules decide (they are the stronger statement: everything in the method itself)
	} else if semOK["Allocate"] && semOK["Allocate_inRange"] {
		// helpers that store into usedMap: unexported, and entered only from the allocating methods or from each other
		helperOK := func(name string) bool {
			if name == "Allocate" || name == "Allocate_inRange" || name == "init" || name == "FreeID" {
				return false
			}
			fn := get(name)
			if fn == nil || fn.Object() == nil || fn.Object().Exported() {
				return false
			}
			for caller := range w.AllFuncs() {
				if caller.Blocks == nil || caller.Pkg == nil || !IsRepoPkg(caller.Pkg.Pkg) {
					continue
				}
				for _, b := range caller.Blocks {
					for _, ins := range b.Instrs {
						for _, op := range ins.Operands(nil) {
							if f, ok := (*op).(*ssa.Function); ok && f == fn {
								ci, isCall := ins.(ssa.CallInstruction)
								if !isCall || ci.Common().StaticCallee() != fn {
									return false // taken as a value
								}
								cn := caller.Name()
								if caller.Signature.Recv() == nil || (cn != "Allocate" && cn != "Allocate_inRange" && !mapWriterHelper[cn]) {
									if !(caller.Signature.Recv() != nil && offsetWriters[cn] && !caller.Object().Exported()) {
										return false
									}
								}
							}
						}
					}
				}
			}
			return true
		}
		var keep []Finding
		withdrawn := 0
		for _, f := range r.Findings {
			drop := false
			switch f.Rule {
			case "alloc.fresh":
				drop = true
			case "alloc.map-writers":
				parts := strings.Split(f.Func, ".")
				drop = helperOK(parts[len(parts)-1])
			case "vacuity":
				drop = strings.Contains(f.Key, "alloc.map-writers") || strings.Contains(f.Key, "alloc.fresh")
			}
			if drop {
				withdrawn++
				r.rule(f.Rule).Discharged++
				continue
			}
			keep = append(keep, f)
		}
		if withdrawn > 0 {
			r.Findings = keep
			r.Note("alloc.fresh / alloc.map-writers: %d finding(s) of the per-method rules withdrawn — the lookup, the mark and the returned sum are in helper methods of the receiver; decided inter-procedurally (alloc_sem.go): every store usedMap[k]=x has k = the current offset, x = true and follows a lookup of that offset that found it free, and every successful return yields offset+minValue of the marked slot", withdrawn)
		}
	} else {
		// the inter-procedural analysis found the discipline broken: say what it found
		for _, name := range []string{"Allocate", "Allocate_inRange"} {
			if probs, ok := r.Extra["alloc.sem/"+name].([]string); ok {
				for _, p := range probs {
					r.Site("alloc.fresh")
					r.Fail("alloc.fresh", "uePolicyContainer.(*IDGenerator)."+name, "inter-procedural: "+p[strings.Index(p, ": ")+2:], token.NoPos, p, nil)
				}
			}
		}
	}
	r.Expect("alloc.fresh", 2)
	r.Expect("alloc.no-leak", 2)
	r.Expect("alloc.bounds", 5)
}

// mapWriterHelper: names of unexported helper methods accepted as callers of other helpers (none by default).
var mapWriterHelper = map[string]bool{}
