package main

import (
	"encoding/json"
	"flag"
	"fmt"
	"os"
	"os/exec"
	"runtime/debug"
	"sort"
	"strconv"
	"time"
)

type PropFunc func(w *World, r *Report, tier string)

var props = map[string]PropFunc{}

func register(id string, f PropFunc) { props[id] = f }

func usage() {
	fmt.Fprintln(os.Stderr, "usage: nasverif check <Cxx> [--tier quick|thorough] | explain --replay <file> | list | dump-codecs | freeze <what>")
	os.Exit(2)
}

func main() {
	if len(os.Args) < 2 {
		usage()
	}
	switch os.Args[1] {
	case "check":
		os.Exit(cmdCheck(os.Args[2:]))
	case "list":
		var ids []string
		for id := range props {
			ids = append(ids, id)
		}
		sort.Strings(ids)
		for _, id := range ids {
			fmt.Println(id)
		}
	case "explain":
		fs := flag.NewFlagSet("explain", flag.ExitOnError)
		rp := fs.String("replay", "", "replay file")
		fs.Parse(os.Args[2:])
		b, err := os.ReadFile(*rp)
		if err != nil {
			fmt.Fprintln(os.Stderr, err)
			os.Exit(2)
		}
		var doc struct {
			Property string  `json:"property"`
			Finding  Finding `json:"finding"`
		}
		if err := json.Unmarshal(b, &doc); err != nil {
			fmt.Fprintln(os.Stderr, err)
			os.Exit(2)
		}
		fmt.Printf("replaying %s: %s\n", doc.Property, doc.Finding.Key)
		os.Setenv("NASVERIF_ONLY_KEY", doc.Finding.Key)
		os.Exit(cmdCheck([]string{doc.Property, "--tier", "quick", "--no-evidence"}))
	case "dump-codecs":
		cmdDumpCodecs()
	case "freeze":
		cmdFreeze(os.Args[2:])
	case "selftest":
		os.Exit(cmdSelftest(os.Args[2:]))
	case "images":
		// debugging aid: evaluate the wire images of the message codecs (codec_sem.go); images [--full] [--patch f] [Message...]
		os.Exit(cmdImages(os.Args[2:]))
	default:
		usage()
	}
}

func cmdCheck(args []string) (status int) {
	if len(args) < 1 {
		usage()
	}
	id := args[0]
	fs := flag.NewFlagSet("check", flag.ExitOnError)
	tier := fs.String("tier", envOr("VERIF_TIER", "quick"), "quick|thorough")
	noEv := fs.Bool("no-evidence", false, "do not write evidence")
	mutant := fs.String("mutant", "", "self-test: apply overlay mutant by name (no evidence written)")
	arch := fs.String("arch", "", "GOARCH override")
	patch := fs.String("patch", "", "self-test: apply a unified diff in memory (no evidence written)")
	fs.Parse(args[1:])
	if *tier != "quick" && *tier != "thorough" {
		*tier = "quick"
	}
	seed, _ := strconv.Atoi(os.Getenv("VERIF_SEED"))
	f := props[id]
	if f == nil {
		fmt.Fprintln(os.Stderr, "unknown property", id)
		return 2
	}
	start := time.Now()
	var overlay map[string][]byte
	if *mutant != "" {
		var err error
		overlay, err = mutantOverlay(*mutant)
		if err != nil {
			fmt.Fprintln(os.Stderr, "mutant:", err)
			return 3
		}
		*noEv = true
	}
	if *patch != "" {
		var err error
		overlay, err = patchOverlay(*patch)
		if err != nil {
			fmt.Fprintln(os.Stderr, "patch:", err)
			return 3
		}
		*noEv = true
		*mutant = "patch:" + *patch
	}
	w, err := LoadWorld(*arch, overlay)
	if err != nil {
		fmt.Fprintln(os.Stderr, "nasverif: no verdict:", err)
		if *mutant != "" {
			return 3
		}
		// a tree that does not load cannot be said to hold the property
		fmt.Printf("VIOLATION property=%s replay=evidence/replay/%s-load.json\n", id, id)
		return 1
	}
	r := NewReport(id, w)
	defer func() {
		if e := recover(); e != nil {
			if ae, ok := e.(anchorError); ok {
				r.Fail("anchor", "-", string(ae), 0, "anchor missing: "+string(ae), nil)
				status = r.Emit(*tier, seed, start, *noEv)
				return
			}
			// an analysis that breaks down on this tree has not decided the property for it: that is a
			// failed obligation (never reached on the unchanged tree), not a silent exit
			fmt.Fprintf(os.Stderr, "nasverif: checker failure: %v\n%s\n", e, debug.Stack())
			r.Fail("internal", "-", "analysis failure", 0, fmt.Sprintf("the analysis broke down on this tree (%v): no verdict, which counts as not shown", e), nil)
			status = r.Emit(*tier, seed, start, *noEv)
		}
	}()
	f(w, r, *tier)
	if only := os.Getenv("NASVERIF_ONLY_KEY"); only != "" {
		var keep []Finding
		for _, fd := range r.Findings {
			if fd.Key == only {
				keep = append(keep, fd)
			}
		}
		r.Findings = keep
	}
	if *tier == "thorough" && *mutant == "" && *arch == "" && os.Getenv("NASVERIF_NO_SELFTEST") == "" {
		// the same rules on a 32-bit target (int and uintptr are 32 bits wide: matters for
		// int(uint16)-2, uint32(len)*8, ...): the verdict must not differ
		cmd := exec.Command(os.Args[0], "check", id, "--tier", "quick", "--arch", "386", "--no-evidence")
		cmd.Env = append(os.Environ(), "NASVERIF_NO_SELFTEST=1")
		out, err := cmd.CombinedOutput()
		r.rule("arch.386").Sites++
		code := 0
		if ee, ok := err.(*exec.ExitError); ok {
			code = ee.ExitCode()
		} else if err != nil {
			code = 2
		}
		want := 0
		if r.Unlisted() > 0 {
			want = 1
		}
		if code != want {
			r.Fail("arch.386", "-", "GOARCH=386", 0, fmt.Sprintf("the verdict under GOARCH=386 differs (exit %d, expected %d): %s", code, want, lastLines(string(out), 4)), nil)
		} else {
			r.OK("arch.386")
		}
	}
	if *tier == "thorough" && *mutant == "" && os.Getenv("NASVERIF_NO_SELFTEST") == "" {
		st := runSelftestFor(id, r)
		if st2 := runPatchesFor(id, r); st2 != 0 {
			st = st2
		}
		if st != 0 && len(r.Findings) == 0 {
			r.Emit(*tier, seed, start, *noEv)
			return st
		}
	}
	return r.Emit(*tier, seed, start, *noEv)
}

func cmdDumpCodecs() {
	w, err := LoadWorld("", nil)
	if err != nil {
		fmt.Fprintln(os.Stderr, err)
		os.Exit(2)
	}
	cs := ExtractCodecs(w)
	nslots := 0
	for _, c := range cs.Codecs {
		fmt.Printf("== %s fields=%d enc=%d mand=%d", c.Name, len(c.Fields), len(c.Enc), len(c.DecMand))
		if c.DecLoop != nil {
			fmt.Printf(" cases=%d default=%v mapOK=%v", len(c.DecLoop.Cases), c.DecLoop.HasDefault, c.DecLoop.MapOK)
		}
		fmt.Println()
		for _, s := range c.DecMand {
			g := "-"
			if s.Guard != nil {
				g = s.Guard.String()
			}
			fmt.Printf("   M %-40s %v guard=%s setlen=%v\n", s.IE, s.Items, g, s.SetLen)
			nslots++
		}
		if c.DecLoop != nil {
			for _, cse := range c.DecLoop.Cases {
				s := cse.Slot
				g := "-"
				if s.Guard != nil {
					g = s.Guard.String()
				}
				fmt.Printf("   O %#02x %-40s %v guard=%s new=%v octet=%v\n", cse.Consts, s.IE, s.Items, g, s.New, s.StoreOctet)
				nslots++
			}
		}
		for _, p := range c.Problems {
			fmt.Printf("   PROBLEM %s %s: %s\n", w.Pos(p.Pos), p.Func, p.Msg)
		}
	}
	fmt.Println("codecs", len(cs.Codecs), "decoder slots", nslots)
}


func cmdImages(args []string) int {
	full := false
	var overlay map[string][]byte
	only := map[string]bool{}
	for i := 0; i < len(args); i++ {
		switch args[i] {
		case "--full":
			full = true
		case "--patch":
			i++
			var err error
			overlay, err = patchOverlay(args[i])
			if err != nil {
				fmt.Fprintln(os.Stderr, err)
				return 3
			}
		default:
			only[args[i]] = true
		}
	}
	if len(only) == 0 {
		only = nil
	}
	w, err := LoadWorld("", overlay)
	if err != nil {
		fmt.Fprintln(os.Stderr, err)
		return 2
	}
	start := time.Now()
	cs := ExtractCodecs(w)
	spec, err := loadSpecMessages()
	if err != nil {
		fmt.Fprintln(os.Stderr, err)
		return 2
	}
	r := NewReport("images", w)
	good := checkCodecImages(w, r, cs, spec, only, full)
	nGood := 0
	for _, g := range good {
		if g {
			nGood++
		}
	}
	for _, f := range r.Findings {
		fmt.Printf("  %s: %s\n", f.Key, f.Msg)
	}
	fmt.Printf("%d messages, %d images, %d with every image decided and reproduced, %d findings, %.1fs\n", len(good), r.rule("codec.image").Sites, nGood, len(r.Findings), time.Since(start).Seconds())
	return 0
}
