package main

// E2: bit provenance abstract interpreter over go/ssa.
//
// Integers are vectors of bit terms over named input sources; control flow is followed
// concretely wherever the branch condition folds to a constant (so loops with compile-time
// trip counts unroll by constant propagation) and is if-converted (both arms executed up to
// the immediate post-dominator, state merged with mux terms) where it does not. No path
// constraints are collected and no solver is involved: this is constant propagation over a
// per-bit term lattice with gated joins. Anything outside the modelled fragment (symbolic
// index, unmodelled callee, exhausted fuel) marks the run "unsupported" with the reason;
// callers treat that as undecided (= reported), never as success.

import (
	"fmt"
	"go/constant"
	"go/token"
	"go/types"
	"math/big"
	"os"
	"sort"
	"strings"
	"time"

	"golang.org/x/tools/go/ssa"
)

// ---------------------------------------------------------------------------------------------
// Bit terms (hash-consed DAG)

type nodeOp uint8

const (
	opZero nodeOp = iota
	opOne
	opSrc
	opNot
	opAnd
	opOr
	opXor
	opMux
	opTop
	opApp // bit idx of an uninterpreted table lookup src[kids]; kids = index bits, LSB first
)

type Node struct {
	op      nodeOp
	a, b, c *Node
	src     string
	idx     int
	id      int
	kids    []*Node
}

type TermTable struct {
	tab  map[string]*Node
	Max  int  // node budget (0 = unlimited); beyond it every new term is unknown
	Over bool // the budget was exhausted
	next int
	zero *Node
	one  *Node
}

func NewTermTable() *TermTable {
	t := &TermTable{tab: map[string]*Node{}}
	t.zero = t.mk(&Node{op: opZero})
	t.one = t.mk(&Node{op: opOne})
	return t
}

func (t *TermTable) mk(n *Node) *Node {
	var k string
	switch n.op {
	case opZero, opOne:
		k = fmt.Sprint(n.op)
	case opSrc:
		k = fmt.Sprintf("s|%s|%d", n.src, n.idx)
	case opTop:
		k = fmt.Sprintf("t|%d", t.next)
	case opApp:
		var sb strings.Builder
		fmt.Fprintf(&sb, "a|%s|%d", n.src, n.idx)
		for _, c := range n.kids {
			fmt.Fprintf(&sb, "|%d", c.id)
		}
		k = sb.String()
	default:
		ai, bi, ci := -1, -1, -1
		if n.a != nil {
			ai = n.a.id
		}
		if n.b != nil {
			bi = n.b.id
		}
		if n.c != nil {
			ci = n.c.id
		}
		k = fmt.Sprintf("%d|%d|%d|%d", n.op, ai, bi, ci)
	}
	if e, ok := t.tab[k]; ok {
		return e
	}
	if t.Max > 0 && t.next > t.Max && n.op != opTop {
		t.Over = true
		return t.Top()
	}
	n.id = t.next
	t.next++
	t.tab[k] = n
	return n
}

func (t *TermTable) Src(name string, idx int) *Node { return t.mk(&Node{op: opSrc, src: name, idx: idx}) }
func (t *TermTable) Top() *Node                     { return t.mk(&Node{op: opTop}) }

// App is bit `bit` of the table `table` read at the index whose bits are idx (an uninterpreted
// function of the index; the table contents are checked separately).
func (t *TermTable) App(table string, bit int, idx []*Node) *Node {
	return t.mk(&Node{op: opApp, src: table, idx: bit, kids: append([]*Node(nil), idx...)})
}
func (t *TermTable) Const(b bool) *Node {
	if b {
		return t.one
	}
	return t.zero
}

func (t *TermTable) Not(x *Node) *Node {
	switch x.op {
	case opZero:
		return t.one
	case opOne:
		return t.zero
	case opNot:
		return x.a
	case opTop:
		return t.Top()
	}
	return t.mk(&Node{op: opNot, a: x})
}

func order(x, y *Node) (*Node, *Node) {
	if x.id > y.id {
		return y, x
	}
	return x, y
}

func (t *TermTable) isNotOf(x, y *Node) bool {
	return (x.op == opNot && x.a == y) || (y.op == opNot && y.a == x)
}

func (t *TermTable) And(x, y *Node) *Node {
	if x.op == opZero || y.op == opZero {
		return t.zero
	}
	if x.op == opOne {
		return y
	}
	if y.op == opOne {
		return x
	}
	if x == y {
		return x
	}
	if t.isNotOf(x, y) {
		return t.zero
	}
	if x.op == opTop || y.op == opTop {
		return t.Top()
	}
	x, y = order(x, y)
	return t.mk(&Node{op: opAnd, a: x, b: y})
}

func (t *TermTable) Or(x, y *Node) *Node {
	if x.op == opOne || y.op == opOne {
		return t.one
	}
	if x.op == opZero {
		return y
	}
	if y.op == opZero {
		return x
	}
	if x == y {
		return x
	}
	if t.isNotOf(x, y) {
		return t.one
	}
	if x.op == opTop || y.op == opTop {
		return t.Top()
	}
	x, y = order(x, y)
	return t.mk(&Node{op: opOr, a: x, b: y})
}

func (t *TermTable) Xor(x, y *Node) *Node {
	if x.op == opZero {
		return y
	}
	if y.op == opZero {
		return x
	}
	if x.op == opOne {
		return t.Not(y)
	}
	if y.op == opOne {
		return t.Not(x)
	}
	if x == y {
		return t.zero
	}
	if t.isNotOf(x, y) {
		return t.one
	}
	if x.op == opTop || y.op == opTop {
		return t.Top()
	}
	x, y = order(x, y)
	return t.mk(&Node{op: opXor, a: x, b: y})
}

func (t *TermTable) Mux(c, a, b *Node) *Node {
	if c.op == opOne {
		return a
	}
	if c.op == opZero {
		return b
	}
	if a == b {
		return a
	}
	if c.op == opTop {
		return t.Top()
	}
	if a.op == opOne && b.op == opZero {
		return c
	}
	if a.op == opZero && b.op == opOne {
		return t.Not(c)
	}
	if a.op == opOne {
		return t.Or(c, b)
	}
	if b.op == opZero {
		return t.And(c, a)
	}
	if a.op == opZero {
		return t.And(t.Not(c), b)
	}
	if b.op == opOne {
		return t.Or(t.Not(c), a)
	}
	if a.op == opTop || b.op == opTop {
		return t.Top()
	}
	return t.mk(&Node{op: opMux, a: a, b: b, c: c})
}

// orLeaves: c is a disjunction of source bits (a tree of opOr over opSrc leaves, at most 128);
// then c = 0 exactly when every leaf is 0.
func orLeaves(c *Node) map[*Node]bool {
	out := map[*Node]bool{}
	var walk func(n *Node) bool
	walk = func(n *Node) bool {
		switch n.op {
		case opSrc:
			out[n] = true
			return len(out) <= 128
		case opOr:
			return walk(n.a) && walk(n.b)
		}
		return false
	}
	if c.op != opOr && c.op != opSrc {
		return nil
	}
	if !walk(c) {
		return nil
	}
	return out
}

// subst0 rebuilds n with the source bits in zeros replaced by 0 (folding through the constructors).
func (t *TermTable) subst0(n *Node, zeros map[*Node]bool, memo map[*Node]*Node) *Node {
	if r, ok := memo[n]; ok {
		return r
	}
	var r *Node
	switch n.op {
	case opSrc:
		if zeros[n] {
			r = t.zero
		} else {
			r = n
		}
	case opZero, opOne, opTop:
		r = n
	case opNot:
		r = t.Not(t.subst0(n.a, zeros, memo))
	case opAnd:
		r = t.And(t.subst0(n.a, zeros, memo), t.subst0(n.b, zeros, memo))
	case opOr:
		r = t.Or(t.subst0(n.a, zeros, memo), t.subst0(n.b, zeros, memo))
	case opXor:
		r = t.Xor(t.subst0(n.a, zeros, memo), t.subst0(n.b, zeros, memo))
	case opMux:
		r = t.Mux(t.subst0(n.c, zeros, memo), t.subst0(n.a, zeros, memo), t.subst0(n.b, zeros, memo))
	default:
		r = n // uninterpreted applications: left as they are (sound: only used to find equal arms)
		if n.op == opApp {
			for _, k := range n.kids {
				if t.subst0(k, zeros, memo) != k {
					r = t.Top()
					break
				}
			}
		}
	}
	memo[n] = r
	return r
}

// MuxCofactor: c ? a : b, where the mux is dropped when the two arms agree wherever c is false
// (a with c's leaves forced to 0 is b) or wherever c is true.  This is what makes a loop with an
// early exit on "no bits left" (`for ; p != 0; p >>= 1`) evaluate to the same term as the loop
// that runs over all bit positions.
func (t *TermTable) MuxCofactor(c, a, b *Node, cof *cofactorCache) *Node {
	if a == b || c.op == opOne || c.op == opZero {
		return t.Mux(c, a, b)
	}
	if zs, memo := cof.of(c); zs != nil {
		if t.subst0(a, zs, memo) == b {
			return a
		}
	} else if c.op == opNot {
		if zs, memo := cof.of(c.a); zs != nil {
			if t.subst0(b, zs, memo) == a {
				return b
			}
		}
	}
	return t.Mux(c, a, b)
}

type cofactorCache struct {
	zeros map[*Node]map[*Node]bool
	memo  map[*Node]map[*Node]*Node
}

func (cc *cofactorCache) of(c *Node) (map[*Node]bool, map[*Node]*Node) {
	if cc.zeros == nil {
		cc.zeros = map[*Node]map[*Node]bool{}
		cc.memo = map[*Node]map[*Node]*Node{}
	}
	zs, seen := cc.zeros[c]
	if !seen {
		zs = orLeaves(c)
		cc.zeros[c] = zs
		cc.memo[c] = map[*Node]*Node{}
	}
	return zs, cc.memo[c]
}

// Short prints the term down to the given depth (the DAG printed as a tree can be exponential).
func (n *Node) Short(depth int) string {
	if depth <= 0 && n.op != opZero && n.op != opOne && n.op != opSrc {
		return "…"
	}
	switch n.op {
	case opNot:
		return "¬" + n.a.Short(depth)
	case opAnd:
		return "(" + n.a.Short(depth-1) + "&" + n.b.Short(depth-1) + ")"
	case opOr:
		return "(" + n.a.Short(depth-1) + "|" + n.b.Short(depth-1) + ")"
	case opXor:
		return "(" + n.a.Short(depth-1) + "^" + n.b.Short(depth-1) + ")"
	case opMux:
		return "mux(" + n.c.Short(depth-1) + "," + n.a.Short(depth-1) + "," + n.b.Short(depth-1) + ")"
	case opApp:
		var ks []string
		for i := len(n.kids) - 1; i >= 0; i-- {
			ks = append(ks, n.kids[i].Short(depth-1))
		}
		return fmt.Sprintf("%s[%s].%d", n.src, strings.Join(ks, " "), n.idx)
	}
	return n.String()
}

// String prints the term down to depth 7 (the DAG printed as a tree can be exponential).
func (n *Node) String() string {
	switch n.op {
	case opZero:
		return "0"
	case opOne:
		return "1"
	case opSrc:
		return fmt.Sprintf("%s.%d", n.src, n.idx)
	case opTop:
		return "⊤"
	}
	return n.Short(7)
}

// ---------------------------------------------------------------------------------------------
// Values

type BV struct {
	W      int
	B      []*Node // B[0] = least significant bit
	Signed bool
	Hex    []*Node // when set (4 nodes, LSB first): this octet is the lowercase hexadecimal character of that nibble
}

// DecV: a non-negative decimal integer known digit by digit (D[0] = most significant digit,
// each a 4-bit vector with value 0..9). LeadNZ: the leading digit is not zero.
type DecV struct {
	D      []BV
	LeadNZ bool
}

func (v BV) IsConst() (uint64, bool) {
	var x uint64
	for i, b := range v.B {
		switch b.op {
		case opOne:
			if i < 64 {
				x |= 1 << uint(i)
			}
		case opZero:
		default:
			return 0, false
		}
	}
	return x, true
}

func (v BV) HasTop() bool {
	for _, b := range v.B {
		if b.op == opTop {
			return true
		}
	}
	return false
}

// String renders MSB first, grouping runs of bits from one source: e.g. "0000|v[3:0]".
func (v BV) String() string {
	if c, ok := v.IsConst(); ok {
		return fmt.Sprintf("%#x/%d", c, v.W)
	}
	var parts []string
	for i := v.W - 1; i >= 0; i-- {
		parts = append(parts, v.B[i].String())
	}
	return strings.Join(parts, " ")
}

type MemObj struct {
	MadeLen *BV // make([]T, n) with a symbolic n: the length term
	Name  string
	Lazy  bool   // cells are created on first read as sources named Name+path
	Havoc bool   // contents unknown after an unmodelled bulk write
	id    int
}

type Ptr struct {
	Obj  *MemObj
	Path string
	Sym  *symIdx // when set: Path ends in "[?]" and Sym holds the index bits (read-only table lookup)
}

type symIdx struct {
	bits    []*Node
	mux     bool   // the table's entries are known constants: the lookup is their multiplexer
	muxBase string // path of the table inside the object
	cells   map[string]uint64
}

type SliceV struct {
	Obj  *MemObj
	Path string // path of the backing array aggregate inside Obj
	Lo   int
	Len  int // -1 = unknown
	Nil  bool
}

type AggV struct { // struct or array value
	Cells map[string]Value // relative path -> value
}

type StrV struct {
	Known bool
	S     string
	// symbolic string: sequence of abstract characters (for the digit domain)
	Chars []BV
	Sym   bool
}

type TupleV []Value

// MapV: a map whose keys are constants (a lookup table built by a composite literal or by
// constant-key stores); its entries are the cells "k:<key>" of Obj.  Obj == nil: the nil map.
type MapV struct{ Obj *MemObj }

// mapKey: the cell name of a constant map key (a known string or a constant integer).
func (it *Interp) mapKey(v Value) (string, bool) {
	switch k := v.(type) {
	case StrV:
		if k.Known {
			return "k:s:" + k.S, true
		}
		if k.Sym {
			// a text all of whose characters are constants
			b := make([]byte, 0, len(k.Chars))
			for _, c := range k.Chars {
				cv, isC := c.IsConst()
				if !isC || c.Hex != nil {
					return "", false
				}
				b = append(b, byte(cv))
			}
			return "k:s:" + string(b), true
		}
	case BV:
		if cv, isC := k.IsConst(); isC && !k.HasTop() {
			return fmt.Sprintf("k:i:%d", cv), true
		}
	}
	return "", false
}
type OpaqueV struct{ Why string }
// FuncV: a function value; Bind holds the captured values of a closure (bound receiver of a method value).
type FuncV struct {
	Fn   *ssa.Function
	Bind []Value
}
type NilV struct{}

// ErrV: an error value whose nil-ness is a bit term (Nil = 1: the error is nil).
type ErrV struct{ Nil *Node }

// errNil: the nil-ness term of an error-like value.
func (it *Interp) errNil(v Value) (*Node, bool) {
	switch x := v.(type) {
	case NilV:
		return it.T.one, true
	case ErrV:
		return x.Nil, true
	case HandleV:
		return it.T.zero, true
	}
	return nil, false
}

// HandleV: an opaque non-nil object produced by a model (a cipher block, a stream, ...).
type HandleV struct {
	Kind string
	ID   int
}

type Value interface{}

// ---------------------------------------------------------------------------------------------
// Interpreter

type Interp struct {
	T        *TermTable
	w        *World
	Fuel     int
	MaxDepth int
	Unsup    []string        // reasons the run left the modelled fragment
	Effects  []string        // notable events (bulk copies etc.)
	Writes   map[string]bool // cells written: obj.Name+path
	nobj     int
	Premise  *Node // assumption about the sources (e.g. "this nibble is a decimal digit"); used to decide branches
	nest     int // current if-conversion nesting
	pdom     map[*ssa.Function]map[*ssa.BasicBlock]*ssa.BasicBlock
	Models   map[string]func(it *Interp, st *state, call *ssa.CallCommon, args []Value) (Value, bool)
	// UseInitValues: read-only package-level variables (no store outside init, checked on the
	// whole program) are given the values their package initialiser stores into them.
	UseInitValues bool
	initDone      map[*ssa.Package]bool
	inInit        bool
	// PreferNonNilSlice: merging a nil slice with a non-nil one yields the non-nil one (for
	// (value, error) results inspected only under the premise that the error is nil).
	PreferNonNilSlice bool
	// Obligations: side conditions a model relied on (e.g. "this number has two decimal digits");
	// the property code must show each of them valid under its premise.
	Obligations []*Node
	// ReadOnlyTables names the global objects ("global:sr") that may be read at a symbolic index;
	// such a read is an uninterpreted function of the index bits (opApp).
	ReadOnlyTables map[string]bool
	// CheckBounds: an index at a concrete position outside a slice of known length (a run-time
	// panic on that path) leaves the modelled fragment instead of reading a fresh cell.
	CheckBounds bool
	pendingBind []Value // captured values for the closure about to be entered
	cof         cofactorCache
	// Deadline: wall-clock budget of this evaluation.  An evaluation that branches on unknown values
	// at every statement grows exponentially before the fuel is gone; such a run ends as "time budget
	// exhausted" (= undecided = a failed obligation), never as a pass.  On the unchanged tree no
	// evaluation comes within two orders of magnitude of the default.
	Deadline time.Time
	LastIfaceType types.Type
	anyTableLen   bool
	InitFuel int // fuel for the evaluation of a package initialiser (0: the default)
	// DerivedTables: cells of package-level tables that only their initialiser writes read as the
	// constants it stores - except the tables named in ReadOnlyTables / SymbolicGlobals, which the
	// property code compares symbolically with a reference
	DerivedTables   bool
	SymbolicGlobals map[string]bool
	ticks    int
	late     bool
}

// InterpBudget is the default wall-clock budget of one evaluation.
var InterpBudget = 120 * time.Second

// expired reports (and records once) that the evaluation ran out of time.
func (it *Interp) expired() bool {
	if it.late {
		return true
	}
	it.ticks++
	if it.ticks&63 != 0 {
		return false
	}
	if !it.Deadline.IsZero() && time.Now().After(it.Deadline) {
		it.late = true
		it.Fuel = 0
		it.unsup("time budget exhausted (the evaluation branches on unknown values at too many points)")
	}
	return it.late
}

func NewInterp(w *World) *Interp {
	return &Interp{T: NewTermTable(), w: w, Fuel: 200000, MaxDepth: 10, Deadline: time.Now().Add(InterpBudget), Writes: map[string]bool{}, pdom: map[*ssa.Function]map[*ssa.BasicBlock]*ssa.BasicBlock{},
		Models: map[string]func(it *Interp, st *state, call *ssa.CallCommon, args []Value) (Value, bool){}}
}

func (it *Interp) unsup(format string, a ...any) {
	m := fmt.Sprintf(format, a...)
	for _, u := range it.Unsup {
		if u == m {
			return
		}
	}
	it.Unsup = append(it.Unsup, m)
}

func (it *Interp) NewObj(name string, lazy bool) *MemObj {
	it.nobj++
	return &MemObj{Name: name, Lazy: lazy, id: it.nobj}
}

type state struct {
	mem  map[*MemObj]map[string]Value
	regs map[ssa.Value]Value
}

func (s *state) clone() *state {
	n := &state{mem: make(map[*MemObj]map[string]Value, len(s.mem)), regs: make(map[ssa.Value]Value, len(s.regs))}
	for o, cells := range s.mem {
		c := make(map[string]Value, len(cells))
		for k, v := range cells {
			c[k] = v
		}
		n.mem[o] = c
	}
	for k, v := range s.regs {
		n.regs[k] = v
	}
	return n
}

func (it *Interp) constBV(x uint64, w int) BV {
	b := make([]*Node, w)
	for i := 0; i < w; i++ {
		if i < 64 && x&(1<<uint(i)) != 0 {
			b[i] = it.T.one
		} else {
			b[i] = it.T.zero
		}
	}
	return BV{W: w, B: b}
}

func (it *Interp) SrcBV(name string, w int) BV {
	b := make([]*Node, w)
	for i := range b {
		b[i] = it.T.Src(name, i)
	}
	return BV{W: w, B: b}
}

func (it *Interp) topBV(w int) BV {
	b := make([]*Node, w)
	for i := range b {
		b[i] = it.T.Top()
	}
	return BV{W: w, B: b}
}

func typeWidth(t types.Type) (int, bool, bool) { // width, signed, ok
	b, ok := t.Underlying().(*types.Basic)
	if !ok {
		return 0, false, false
	}
	switch b.Kind() {
	case types.Bool, types.UntypedBool:
		return 1, false, true
	case types.Uint8:
		return 8, false, true
	case types.Int8:
		return 8, true, true
	case types.Uint16:
		return 16, false, true
	case types.Int16:
		return 16, true, true
	case types.Uint32:
		return 32, false, true
	case types.Int32, types.UntypedRune:
		return 32, true, true
	case types.Uint64, types.Uint, types.Uintptr:
		return 64, false, true
	case types.Int64, types.Int, types.UntypedInt:
		return 64, true, true
	}
	return 0, false, false
}

// zeroValue builds the zero value of a type.
func (it *Interp) zeroValue(t types.Type) Value {
	if w, sg, ok := typeWidth(t); ok {
		v := it.constBV(0, w)
		v.Signed = sg
		return v
	}
	switch u := t.Underlying().(type) {
	case *types.Array:
		a := AggV{Cells: map[string]Value{}}
		for i := 0; i < int(u.Len()); i++ {
			it.putAgg(a, fmt.Sprintf("[%d]", i), it.zeroValue(u.Elem()))
		}
		return a
	case *types.Struct:
		a := AggV{Cells: map[string]Value{}}
		for i := 0; i < u.NumFields(); i++ {
			it.putAgg(a, "."+u.Field(i).Name(), it.zeroValue(u.Field(i).Type()))
		}
		return a
	case *types.Slice:
		return SliceV{Nil: true, Len: 0}
	case *types.Pointer, *types.Interface, *types.Map, *types.Signature, *types.Chan:
		return NilV{}
	case *types.Basic:
		if u.Info()&types.IsString != 0 {
			return StrV{Known: true}
		}
	}
	return OpaqueV{"zero of " + t.String()}
}

func (it *Interp) putAgg(a AggV, path string, v Value) {
	if sub, ok := v.(AggV); ok {
		for k, x := range sub.Cells {
			a.Cells[path+k] = x
		}
		return
	}
	a.Cells[path] = v
}

// load reads a value of type t at obj/path.
func (it *Interp) load(st *state, p Ptr, t types.Type) Value {
	if p.Sym != nil && p.Sym.mux {
		// an element of a table of structs at a symbolic index: field by field
		if stt, isStruct := t.Underlying().(*types.Struct); isStruct {
			a := AggV{Cells: map[string]Value{}}
			for i := 0; i < stt.NumFields(); i++ {
				it.putAgg(a, "."+stt.Field(i).Name(), it.load(st, Ptr{Obj: p.Obj, Path: p.Path + "." + stt.Field(i).Name(), Sym: p.Sym}, stt.Field(i).Type()))
			}
			return a
		}
	}
	if p.Sym != nil && p.Sym.mux {
		w, sg, ok := typeWidth(t)
		if !ok {
			it.unsup("table lookup of a non-integer element in %s", p.Obj.Name)
			return OpaqueV{"table"}
		}
		n := 1 << uint(len(p.Sym.bits))
		suffix := strings.TrimPrefix(p.Path, p.Sym.muxBase+"[?]")
		vals := make([]uint64, n)
		for k := 0; k < n; k++ {
			cv, isC := p.Sym.cells[fmt.Sprintf("%s[%d]%s", p.Sym.muxBase, k, suffix)]
			if !isC && len(p.Sym.cells) > 0 {
				cv, isC = 0, true // an entry the initialiser never stores holds the zero value
			}
			if !isC {
				it.unsup("lookup at a symbolic index into %s: entry %d is not a constant the package initialiser stored", strings.TrimPrefix(p.Obj.Name, "global:"), k)
				return OpaqueV{"table"}
			}
			vals[k] = cv
		}
		r := BV{W: w, B: make([]*Node, w), Signed: sg}
		for i := 0; i < w; i++ {
			// multiplexer tree over the index bits, least significant bit innermost
			level := make([]*Node, n)
			for k := 0; k < n; k++ {
				level[k] = it.T.Const(vals[k]>>uint(i)&1 == 1)
			}
			for b := 0; b < len(p.Sym.bits); b++ {
				next := make([]*Node, len(level)/2)
				for k := range next {
					next[k] = it.T.Mux(p.Sym.bits[b], level[2*k+1], level[2*k])
				}
				level = next
			}
			r.B[i] = level[0]
		}
		return r
	}
	if p.Sym != nil {
		w, sg, ok := typeWidth(t)
		if !ok {
			it.unsup("table lookup of a non-integer element in %s", p.Obj.Name)
			return OpaqueV{"table"}
		}
		r := BV{W: w, B: make([]*Node, w), Signed: sg}
		for i := range r.B {
			r.B[i] = it.T.App(p.Obj.Name+p.Path, i, p.Sym.bits)
		}
		return r
	}
	switch u := t.Underlying().(type) {
	case *types.Array:
		a := AggV{Cells: map[string]Value{}}
		for i := 0; i < int(u.Len()); i++ {
			it.putAgg(a, fmt.Sprintf("[%d]", i), it.load(st, Ptr{Obj: p.Obj, Path: p.Path + fmt.Sprintf("[%d]", i)}, u.Elem()))
		}
		return a
	case *types.Struct:
		a := AggV{Cells: map[string]Value{}}
		for i := 0; i < u.NumFields(); i++ {
			it.putAgg(a, "."+u.Field(i).Name(), it.load(st, Ptr{Obj: p.Obj, Path: p.Path + "." + u.Field(i).Name()}, u.Field(i).Type()))
		}
		return a
	}
	cells := st.mem[p.Obj]
	if v, ok := cells[p.Path]; ok {
		return v
	}
	if it.DerivedTables && strings.HasPrefix(p.Obj.Name, "global:") && !it.ReadOnlyTables[p.Obj.Name] && !it.SymbolicGlobals[p.Obj.Name] {
		// a cell of a package-level table that only the package initialiser writes, with a constant
		if dt := it.derivedTable(p.Obj); dt != nil {
			if cv, ok := dt[p.Path]; ok {
				if w, sg, okW := typeWidth(t); okW {
					r := it.constBV(cv, w)
					r.Signed = sg
					return r
				}
			}
		}
	}
	if p.Obj.Havoc {
		if w, _, ok := typeWidth(t); ok {
			return it.topBV(w)
		}
		return OpaqueV{"havoc"}
	}
	if p.Obj.Lazy {
		var v Value
		if w, sg, ok := typeWidth(t); ok {
			bv := it.SrcBV(p.Obj.Name+p.Path, w)
			bv.Signed = sg
			v = bv
		} else if _, ok := t.Underlying().(*types.Slice); ok {
			// a slice field of a lazy object: backing store is a lazy object of unknown length
			bo := it.NewObj(p.Obj.Name+p.Path, true)
			v = SliceV{Obj: bo, Path: "", Lo: 0, Len: -1}
		} else if _, ok := t.Underlying().(*types.Pointer); ok {
			v = OpaqueV{"pointer field of symbolic object"}
		} else {
			v = it.zeroValue(t)
		}
		if st.mem[p.Obj] == nil {
			st.mem[p.Obj] = map[string]Value{}
		}
		st.mem[p.Obj][p.Path] = v
		return v
	}
	return it.zeroValue(t)
}

func (it *Interp) store(st *state, p Ptr, v Value) {
	if p.Sym != nil {
		it.unsup("store through a symbolic table index into %s", p.Obj.Name)
		return
	}
	if st.mem[p.Obj] == nil {
		st.mem[p.Obj] = map[string]Value{}
	}
	if a, ok := v.(AggV); ok {
		for k, x := range a.Cells {
			st.mem[p.Obj][p.Path+k] = x
			it.Writes[p.Obj.Name+p.Path+k] = true
		}
		return
	}
	st.mem[p.Obj][p.Path] = v
	it.Writes[p.Obj.Name+p.Path] = true
}

// storeQuiet: store (aggregates decomposed into their cells) without recording a write event.
func (it *Interp) storeQuiet(st *state, p Ptr, v Value) {
	if st.mem[p.Obj] == nil {
		st.mem[p.Obj] = map[string]Value{}
	}
	if a, ok := v.(AggV); ok {
		for k, x := range a.Cells {
			st.mem[p.Obj][p.Path+k] = x
		}
		return
	}
	st.mem[p.Obj][p.Path] = v
}

// ---------------------------------------------------------------------------------------------
// post-dominators (for if-conversion joins)

func (it *Interp) ipdom(fn *ssa.Function) map[*ssa.BasicBlock]*ssa.BasicBlock {
	if m, ok := it.pdom[fn]; ok {
		return m
	}
	// iterative data-flow on the reverse CFG with a virtual exit (nil)
	n := len(fn.Blocks)
	idx := map[*ssa.BasicBlock]int{}
	for i, b := range fn.Blocks {
		idx[b] = i
	}
	// pdom sets as bitsets over n+1 (n = virtual exit)
	full := new(big.Int).Sub(new(big.Int).Lsh(big.NewInt(1), uint(n+1)), big.NewInt(1))
	sets := make([]*big.Int, n+1)
	for i := 0; i < n; i++ {
		sets[i] = new(big.Int).Set(full)
	}
	sets[n] = new(big.Int).SetBit(new(big.Int), n, 1)
	changed := true
	for changed {
		changed = false
		for i := n - 1; i >= 0; i-- {
			b := fn.Blocks[i]
			var acc *big.Int
			succs := []int{}
			for _, s := range b.Succs {
				succs = append(succs, idx[s])
			}
			if len(b.Succs) == 0 {
				succs = append(succs, n)
			}
			for _, s := range succs {
				if acc == nil {
					acc = new(big.Int).Set(sets[s])
				} else {
					acc.And(acc, sets[s])
				}
			}
			acc.SetBit(acc, i, 1)
			if acc.Cmp(sets[i]) != 0 {
				sets[i] = acc
				changed = true
			}
		}
	}
	res := map[*ssa.BasicBlock]*ssa.BasicBlock{}
	for i, b := range fn.Blocks {
		// immediate post-dominator: the strict post-dominator that is post-dominated by all other strict ones
		var best = -1
		for j := 0; j <= n; j++ {
			if j == i || sets[i].Bit(j) == 0 {
				continue
			}
			// j strictly post-dominates i; it is immediate if every other strict pdom k of i post-dominates j
			ok := true
			for k := 0; k <= n; k++ {
				if k == i || k == j || sets[i].Bit(k) == 0 {
					continue
				}
				if sets[j].Bit(k) == 0 {
					ok = false
					break
				}
			}
			if ok {
				best = j
				break
			}
		}
		if best >= 0 && best < n {
			res[b] = fn.Blocks[best]
		} else {
			res[b] = nil // virtual exit
		}
	}
	it.pdom[fn] = res
	return res
}

// ---------------------------------------------------------------------------------------------
// execution

type frameResult struct {
	st       *state
	returned bool
	ret      Value
	prev     *ssa.BasicBlock // block from which `until` was entered
	phisDone bool            // the phis of `until` were already evaluated (merged) into st
}

// Call interprets fn with the given arguments on state st (mutated in place); returns result.
func (it *Interp) Call(fn *ssa.Function, args []Value, st *state, depth int) Value {
	if fn.Blocks == nil {
		it.unsup("function %s has no body", fn.String())
		return OpaqueV{"no body"}
	}
	if depth > it.MaxDepth {
		it.unsup("call depth exceeded at %s", fn.String())
		return OpaqueV{"depth"}
	}
	// fresh register file for the callee, shared memory
	saved := st.regs
	st.regs = map[ssa.Value]Value{}
	for i, p := range fn.Params {
		if i < len(args) {
			st.regs[p] = args[i]
		}
	}
	for i, fv := range fn.FreeVars {
		if i < len(it.pendingBind) {
			st.regs[fv] = it.pendingBind[i]
		}
	}
	it.pendingBind = nil
	res := it.run(fn, fn.Blocks[0], nil, nil, st, depth)
	st.mem = res.st.mem
	st.regs = saved
	if !res.returned {
		it.unsup("function %s did not reach a return", fn.String())
		return OpaqueV{"no return"}
	}
	return res.ret
}

// run executes from block b (entered from prev) until block `until` is reached (not executed)
// or the function returns.
func (it *Interp) run(fn *ssa.Function, b, prev, until *ssa.BasicBlock, st *state, depth int) frameResult {
	skipPhis := false
	for {
		if b == until && until != nil {
			return frameResult{st: st, prev: prev}
		}
		if b == nil {
			it.unsup("fell off the CFG in %s", fn.String())
			return frameResult{st: st, returned: true, ret: OpaqueV{"cfg"}}
		}
		it.Fuel--
		if it.expired() {
			return frameResult{st: st, returned: true, ret: OpaqueV{"time"}}
		}
		if it.T.Over {
			it.unsup("term budget exhausted in %s (an unmodelled primitive is being expanded bit by bit)", fn.String())
			return frameResult{st: st, returned: true, ret: OpaqueV{"budget"}}
		}
		if it.Fuel <= 0 {
			it.unsup("fuel exhausted in %s (loop whose trip count is not a compile-time constant?)", fn.String())
			return frameResult{st: st, returned: true, ret: OpaqueV{"fuel"}}
		}
		nphi := 0
		for _, ins := range b.Instrs {
			if _, ok := ins.(*ssa.Phi); ok {
				nphi++
			} else {
				break
			}
		}
		if !skipPhis {
			it.evalPhis(b, prev, st)
		}
		skipPhis = false
		next := (*ssa.BasicBlock)(nil)
		done := false
		for _, ins := range b.Instrs[nphi:] {
			switch x := ins.(type) {
			case *ssa.Return:
				var ret Value
				switch len(x.Results) {
				case 0:
				case 1:
					ret = it.val(st, x.Results[0])
				default:
					var tv TupleV
					for _, r := range x.Results {
						tv = append(tv, it.val(st, r))
					}
					ret = tv
				}
				return frameResult{st: st, returned: true, ret: ret}
			case *ssa.Jump:
				next = b.Succs[0]
				done = true
			case *ssa.If:
				c := it.val(st, x.Cond)
				cb, ok := c.(BV)
				if !ok || cb.W != 1 {
					it.unsup("non-boolean branch condition in %s", fn.String())
					return frameResult{st: st, returned: true, ret: OpaqueV{"cond"}}
				}
				if it.Premise != nil && cb.B[0].op != opOne && cb.B[0].op != opZero {
					if it.T.Equiv(it.T.And(it.Premise, cb.B[0]), it.T.zero) {
						cb.B[0] = it.T.zero
					} else if it.T.Equiv(it.T.And(it.Premise, it.T.Not(cb.B[0])), it.T.zero) {
						cb.B[0] = it.T.one
					}
				}
				switch cb.B[0].op {
				case opOne:
					next = b.Succs[0]
				case opZero:
					next = b.Succs[1]
				default:
					if os.Getenv("NASVERIF_DEBUG") == "branch" {
						fmt.Fprintf(os.Stderr, "[e2] symbolic branch in %s block %d on %s = %s\n", fn.Name(), b.Index, x.Cond.Name(), cb.B[0].Short(5))
					}
					j := it.ipdom(fn)[b]
					it.nest++
					if it.nest > 72 {
						it.nest--
						it.unsup("if-conversion nesting too deep in %s (data-dependent loop?)", fn.String())
						return frameResult{st: st, returned: true, ret: OpaqueV{"nest"}}
					}
					// copying the state for the second arm is the expensive part of if-conversion: charge
					// it to the fuel, so that a run that keeps branching on unknown values over a large
					// memory ends as "fuel exhausted" instead of taking minutes
					cells := 0
					for _, m := range st.mem {
						cells += len(m)
					}
					it.Fuel -= cells / 16
					sT := st.clone()
					rT := it.run(fn, b.Succs[0], b, j, sT, depth)
					rF := it.run(fn, b.Succs[1], b, j, st, depth)
					it.nest--
					if rT.returned != rF.returned {
						it.unsup("if-conversion: one arm returns and the other does not in %s", fn.String())
						return frameResult{st: st, returned: true, ret: OpaqueV{"join"}}
					}
					if rT.returned {
						m := it.mergeStates(cb.B[0], rT.st, rF.st)
						return frameResult{st: m, returned: true, ret: it.mux(cb.B[0], rT.ret, rF.ret)}
					}
					if !rT.phisDone {
						it.evalPhis(j, rT.prev, rT.st)
					}
					if !rF.phisDone {
						it.evalPhis(j, rF.prev, rF.st)
					}
					st = it.mergeStates(cb.B[0], rT.st, rF.st)
					if j == until && until != nil {
						return frameResult{st: st, prev: rT.prev, phisDone: true}
					}
					// continue at the join with its phis already evaluated; `prev` is irrelevant
					prev, b = rT.prev, j
					skipPhis = true
					next = nil
				}
				done = true
			case *ssa.Panic:
				it.unsup("explicit panic reachable in %s", fn.String())
				return frameResult{st: st, returned: true, ret: OpaqueV{"panic"}}
			default:
				it.step(st, ins, depth)
			}
			if done {
				break
			}
		}
		if !done {
			it.unsup("block without terminator in %s", fn.String())
			return frameResult{st: st, returned: true}
		}
		if next != nil {
			prev, b = b, next
		}
	}
}

func (it *Interp) evalPhis(j *ssa.BasicBlock, prev *ssa.BasicBlock, st *state) {
	if j == nil {
		return
	}
	var vals []Value
	var phis []*ssa.Phi
	for _, ins := range j.Instrs {
		phi, ok := ins.(*ssa.Phi)
		if !ok {
			break
		}
		pi := -1
		for k, p := range j.Preds {
			if p == prev {
				pi = k
			}
		}
		if pi < 0 {
			it.unsup("phi without matching predecessor in %s", j.Parent().String())
			vals = append(vals, OpaqueV{"phi"})
		} else {
			vals = append(vals, it.val(st, phi.Edges[pi]))
		}
		phis = append(phis, phi)
	}
	for i, p := range phis {
		st.regs[p] = vals[i]
	}
}

func (it *Interp) mux(c *Node, a, b Value) Value {
	if it.expired() {
		return OpaqueV{"time"}
	}
	// two error-like values (nil, a symbolic error, an opaque non-nil error object): only the
	// nil-ness survives the merge
	{
		_, ha := a.(HandleV)
		_, hb := b.(HandleV)
		_, na := a.(NilV)
		_, nb := b.(NilV)
		if (ha && (nb || hb) && a != b) || (hb && na) {
			x, _ := it.errNil(a)
			y, _ := it.errNil(b)
			return ErrV{it.T.Mux(c, x, y)}
		}
	}
	if _, isErr := a.(ErrV); isErr {
		if nb, ok := it.errNil(b); ok {
			na, _ := it.errNil(a)
			return ErrV{it.T.Mux(c, na, nb)}
		}
	}
	if _, isErr := b.(ErrV); isErr {
		if na, ok := it.errNil(a); ok {
			nb, _ := it.errNil(b)
			return ErrV{it.T.Mux(c, na, nb)}
		}
	}
	switch x := a.(type) {
	case nil:
		return b
	case BV:
		y, ok := b.(BV)
		if !ok || y.W != x.W {
			return OpaqueV{"mux of unlike values"}
		}
		r := BV{W: x.W, B: make([]*Node, x.W), Signed: x.Signed}
		for i := range r.B {
			r.B[i] = it.T.MuxCofactor(c, x.B[i], y.B[i], &it.cof)
		}
		return r
	case AggV:
		y, ok := b.(AggV)
		if !ok {
			return OpaqueV{"mux of unlike values"}
		}
		r := AggV{Cells: map[string]Value{}}
		for k, v := range x.Cells {
			if w, ok := y.Cells[k]; ok {
				r.Cells[k] = it.mux(c, v, w)
			} else {
				r.Cells[k] = OpaqueV{"mux"}
			}
		}
		return r
	case TupleV:
		y, ok := b.(TupleV)
		if !ok || len(y) != len(x) {
			return OpaqueV{"mux of unlike tuples"}
		}
		r := make(TupleV, len(x))
		for i := range x {
			r[i] = it.mux(c, x[i], y[i])
		}
		return r
	case SliceV:
		if y, ok := b.(SliceV); ok && x == y {
			return x
		}
		// (value, error) results: on the error arm the slice is nil.  When the caller only looks at
		// the value under the premise "no error", the non-nil arm is the value.
		if y, ok := b.(SliceV); ok && it.PreferNonNilSlice {
			if x.Nil && !y.Nil {
				return y
			}
			if y.Nil && !x.Nil {
				return x
			}
		}
	case Ptr:
		if y, ok := b.(Ptr); ok && x == y {
			return x
		}
		if _, ok := b.(NilV); ok && it.PreferNonNilSlice {
			return x // (pointer, error) results looked at only under the premise "no error"
		}
	case NilV:
		if _, ok := b.(NilV); ok {
			return x
		}
		if y, ok := b.(Ptr); ok && it.PreferNonNilSlice {
			return y
		}
	case StrV:
		if y, ok := b.(StrV); ok && x.Known && y.Known && x.S == y.S {
			return x
		}
		if y, ok := b.(StrV); ok && (x.Known || x.Sym) && (y.Known || y.Sym) {
			cx, _ := toCharsOf(it, x)
			cy, _ := toCharsOf(it, y)
			x, y = StrV{Sym: true, Chars: cx}, StrV{Sym: true, Chars: cy}
			_ = y
		}
		if y, ok := b.(StrV); ok && (y.Known || y.Sym) {
			cy, _ := toCharsOf(it, y)
			b = StrV{Sym: true, Chars: cy}
		}
		if y, ok := b.(StrV); ok && x.Sym && y.Sym && len(x.Chars) == len(y.Chars) {
			// character-wise mux of two symbolic strings of the same length
			out := StrV{Sym: true}
			for i := range x.Chars {
				cx, cy := x.Chars[i], y.Chars[i]
				if (cx.Hex == nil) != (cy.Hex == nil) {
					return OpaqueV{"mux of unlike characters"}
				}
				m, okm := it.mux(c, BV{W: cx.W, B: cx.B}, BV{W: cy.W, B: cy.B}).(BV)
				if !okm {
					return OpaqueV{"mux of unlike characters"}
				}
				if cx.Hex != nil {
					h, okh := it.mux(c, BV{W: 4, B: cx.Hex}, BV{W: 4, B: cy.Hex}).(BV)
					if !okh {
						return OpaqueV{"mux of unlike characters"}
					}
					m.Hex = h.B
				}
				out.Chars = append(out.Chars, m)
			}
			return out
		}
	}
	return OpaqueV{"mux of distinct non-scalar values"}
}

func (it *Interp) mergeStates(c *Node, a, b *state) *state {
	if it.expired() {
		return a
	}
	if it.Fuel > 0 {
		// merging is linear in the memory: charged like the copy (see run)
		cells := 0
		for _, m := range a.mem {
			cells += len(m)
		}
		it.Fuel -= cells / 16
	}
	m := &state{mem: map[*MemObj]map[string]Value{}, regs: map[ssa.Value]Value{}}
	objs := map[*MemObj]bool{}
	for o := range a.mem {
		objs[o] = true
	}
	for o := range b.mem {
		objs[o] = true
	}
	for o := range objs {
		ca, cb := a.mem[o], b.mem[o]
		out := map[string]Value{}
		keys := map[string]bool{}
		for k := range ca {
			keys[k] = true
		}
		for k := range cb {
			keys[k] = true
		}
		for k := range keys {
			va, oka := ca[k]
			vb, okb := cb[k]
			switch {
			case oka && okb:
				if bvEqual(va, vb) {
					out[k] = va
				} else {
					out[k] = it.mux(c, va, vb)
				}
			case oka:
				// only one side materialised/wrote the cell: the other side holds the initial content
				out[k] = it.mux(c, va, it.initialCell(o, k, va))
			default:
				out[k] = it.mux(c, it.initialCell(o, k, vb), vb)
			}
		}
		m.mem[o] = out
	}
	for k, v := range a.regs {
		if w, ok := b.regs[k]; ok {
			if bvEqual(v, w) {
				m.regs[k] = v
			} else {
				m.regs[k] = it.mux(c, v, w)
			}
		} else {
			m.regs[k] = v
		}
	}
	for k, v := range b.regs {
		if _, ok := m.regs[k]; !ok {
			m.regs[k] = v
		}
	}
	return m
}

func (it *Interp) initialCell(o *MemObj, path string, like Value) Value {
	bv, ok := like.(BV)
	if !ok {
		return OpaqueV{"unmaterialised cell"}
	}
	if o.Lazy && !o.Havoc {
		r := it.SrcBV(o.Name+path, bv.W)
		r.Signed = bv.Signed
		return r
	}
	if o.Havoc {
		return it.topBV(bv.W)
	}
	r := it.constBV(0, bv.W)
	r.Signed = bv.Signed
	return r
}

func bvEqual(a, b Value) bool {
	x, ok1 := a.(BV)
	y, ok2 := b.(BV)
	if ok1 && ok2 {
		if x.W != y.W {
			return false
		}
		for i := range x.B {
			if x.B[i] != y.B[i] {
				return false
			}
		}
		return true
	}
	switch p := a.(type) {
	case Ptr:
		q, ok := b.(Ptr)
		return ok && p == q
	case SliceV:
		q, ok := b.(SliceV)
		return ok && p == q
	case NilV:
		_, ok := b.(NilV)
		return ok
	case HandleV:
		q, ok := b.(HandleV)
		return ok && p == q
	case ErrV:
		q, ok := b.(ErrV)
		return ok && p.Nil == q.Nil
	case StrV:
		q, ok := b.(StrV)
		return ok && p.Known && q.Known && p.S == q.S
	}
	return false
}

// val evaluates an SSA operand.
func (it *Interp) val(st *state, v ssa.Value) Value {
	switch x := v.(type) {
	case *ssa.Const:
		return it.constVal(x)
	case *ssa.Global:
		o := it.globalObj(x)
		if it.UseInitValues {
			it.initPackage(st, x)
		}
		return Ptr{Obj: o}
	case *ssa.Function:
		return FuncV{Fn: x}
	case *ssa.Builtin:
		return OpaqueV{"builtin"}
	}
	if r, ok := st.regs[v]; ok {
		return r
	}
	it.unsup("use of undefined SSA value %s", v.Name())
	return OpaqueV{"undef"}
}

var globalObjs = map[*ssa.Global]*MemObj{}

// writtenGlobals: package-level variables stored to (directly or through a derived address)
// outside their package initialiser, computed once per program.
var writtenGlobalsCache = map[*ssa.Program]map[*ssa.Global]bool{}

func writtenGlobals(w *World) map[*ssa.Global]bool {
	if m, ok := writtenGlobalsCache[w.Prog]; ok {
		return m
	}
	m := map[*ssa.Global]bool{}
	for fn := range w.AllFuncs() {
		if fn.Blocks == nil || fn.Name() == "init" || strings.HasPrefix(fn.Name(), "init#") {
			continue
		}
		for _, b := range fn.Blocks {
			for _, ins := range b.Instrs {
				mark := func(v ssa.Value) {
					// follow address arithmetic and loads: memory reached through the value of a
					// global (slice backing array, pointee) counts as the global's
					for i := 0; i < 32; i++ {
						v = addrBase(v)
						if u, ok := v.(*ssa.UnOp); ok && u.Op == token.MUL {
							v = u.X
							continue
						}
						break
					}
					if g, ok := v.(*ssa.Global); ok {
						m[g] = true
					}
				}
				switch x := ins.(type) {
				case *ssa.Store:
					mark(x.Addr)
				case ssa.CallInstruction:
					// the address (or a slice) of a global handed to a callee may be written there
					args := x.Common().Args
					if b, isB := x.Common().Value.(*ssa.Builtin); isB {
						switch b.Name() {
						case "copy", "append":
							args = args[:1] // only the destination can be written
						default:
							args = nil // len, cap, ... read only
						}
					}
					for _, a := range args {
						switch a.Type().Underlying().(type) {
						case *types.Pointer, *types.Slice, *types.Map:
							mark(a)
						}
					}
				}
			}
		}
	}
	writtenGlobalsCache[w.Prog] = m
	return m
}

// initPackage runs the initialiser of g's package once per interpreter, in the current state, so
// that constant tables and other read-only variables have their initial contents.  Variables
// written outside init keep their unknown (lazy) contents.
func (it *Interp) initPackage(st *state, g *ssa.Global) {
	p := g.Pkg
	if p == nil || it.initDone[p] || !IsRepoPkg(p.Pkg) {
		return
	}
	if it.initDone == nil {
		it.initDone = map[*ssa.Package]bool{}
	}
	it.initDone[p] = true
	initFn := p.Func("init")
	if initFn == nil || initFn.Blocks == nil {
		return
	}
	saveUnsup, saveFuel, saveWrites := it.Unsup, it.Fuel, it.Writes
	it.Writes = map[string]bool{}
	it.Fuel = 200000
	if it.InitFuel > 0 {
		it.Fuel = it.InitFuel
	}
	if guard, ok := p.Members["init$guard"].(*ssa.Global); ok {
		o := it.globalObj(guard)
		if st.mem[o] == nil {
			st.mem[o] = map[string]Value{}
		}
		st.mem[o][""] = it.constBV(0, 1)
	}
	prev := it.Models["#init"]
	it.inInit = true
	it.Call(initFn, nil, st, 0)
	it.inInit = false
	_ = prev
	// variables that are written elsewhere do not keep their initial contents
	wr := writtenGlobals(it.w)
	for _, m := range p.Members {
		if gv, ok := m.(*ssa.Global); ok && wr[gv] {
			o := it.globalObj(gv)
			delete(st.mem, o)
		}
	}
	if os.Getenv("NASVERIF_DEBUG") == "init" {
		fmt.Fprintf(os.Stderr, "[e2] init of %s: unsup=%v\n", p.Pkg.Path(), it.Unsup)
		for _, m := range p.Members {
			if gv, ok := m.(*ssa.Global); ok {
				fmt.Fprintf(os.Stderr, "   %s = %v (written=%v)\n", gv.Name(), st.mem[it.globalObj(gv)], wr[gv])
			}
		}
	}
	it.Unsup, it.Fuel, it.Writes = saveUnsup, saveFuel, saveWrites
}

// derivedTables: per package-level variable, the constant cells its package initialiser leaves in
// it (nil: not a table of constants, or written outside init).
var derivedTables = map[*MemObj]map[string]uint64{}
var derivedTablesDone = map[*MemObj]bool{}

// derivedTable evaluates the initialiser of the variable's package in an interpreter of its own
// and returns the integer constants it stores into the variable.
func (it *Interp) derivedTable(o *MemObj) map[string]uint64 {
	if derivedTablesDone[o] {
		return derivedTables[o]
	}
	derivedTablesDone[o] = true
	var g *ssa.Global
	for gg, oo := range globalObjs {
		if oo == o {
			g = gg
		}
	}
	if g == nil || g.Pkg == nil || !IsRepoPkg(g.Pkg.Pkg) || writtenGlobals(it.w)[g] {
		return nil
	}
	sub := NewInterp(it.w)
	sub.UseInitValues = true
	sub.InitFuel = 20000000 // a table computed by loops (256 entries of a few hundred steps each)
	sub.MaxDepth = 400
	st := sub.NewState()
	sub.initPackage(st, g)
	cells := map[string]uint64{}
	for path, v := range st.mem[o] {
		if bv, ok := v.(BV); ok && !bv.HasTop() {
			if cv, isC := bv.IsConst(); isC {
				cells[path] = cv
			}
		}
	}
	if len(cells) == 0 {
		return nil
	}
	derivedTables[o] = cells
	return cells
}

func (it *Interp) globalObj(g *ssa.Global) *MemObj {
	if o, ok := globalObjs[g]; ok {
		return o
	}
	o := it.NewObj("global:"+g.Name(), true)
	globalObjs[g] = o
	return o
}

func (it *Interp) constVal(c *ssa.Const) Value {
	t := c.Type()
	if c.Value == nil {
		return it.zeroValue(t)
	}
	if w, sg, ok := typeWidth(t); ok {
		if c.Value.Kind() == constant.Bool {
			if constant.BoolVal(c.Value) {
				return it.constBV(1, 1)
			}
			return it.constBV(0, 1)
		}
		iv := constant.ToInt(c.Value)
		var u uint64
		if x, ok := constant.Uint64Val(iv); ok {
			u = x
		} else if x, ok := constant.Int64Val(iv); ok {
			u = uint64(x)
		}
		r := it.constBV(u, w)
		r.Signed = sg
		return r
	}
	if c.Value.Kind() == constant.String {
		return StrV{Known: true, S: constant.StringVal(c.Value)}
	}
	return OpaqueV{"const " + c.String()}
}

// step executes one non-terminator instruction.
func (it *Interp) step(st *state, ins ssa.Instruction, depth int) {
	switch x := ins.(type) {
	case *ssa.DebugRef:
	case *ssa.Alloc:
		o := it.NewObj(fmt.Sprintf("alloc%d", it.nobj+1), false)
		elem := x.Type().(*types.Pointer).Elem()
		if st.mem[o] == nil {
			st.mem[o] = map[string]Value{}
		}
		z := it.zeroValue(elem)
		if a, ok := z.(AggV); ok {
			for k, v := range a.Cells {
				st.mem[o][k] = v
			}
		} else {
			st.mem[o][""] = z
		}
		st.regs[x] = Ptr{Obj: o}
	case *ssa.FieldAddr:
		p, ok := it.val(st, x.X).(Ptr)
		if !ok {
			it.unsup("field address of a non-pointer value (%s)", x.String())
			st.regs[x] = OpaqueV{"fieldaddr"}
			return
		}
		stt := x.X.Type().Underlying().(*types.Pointer).Elem().Underlying().(*types.Struct)
		st.regs[x] = Ptr{Obj: p.Obj, Path: p.Path + "." + stt.Field(x.Field).Name()}
	case *ssa.Field:
		a, ok := it.val(st, x.X).(AggV)
		if !ok {
			st.regs[x] = OpaqueV{"field"}
			return
		}
		stt := x.X.Type().Underlying().(*types.Struct)
		st.regs[x] = subAgg(a, "."+stt.Field(x.Field).Name(), x.Type(), it)
	case *ssa.IndexAddr:
		idx, ok := it.concreteInt(it.val(st, x.Index))
		if !ok {
			if p, isPtr := it.val(st, x.X).(Ptr); isPtr && p.Sym == nil && it.ReadOnlyTables[p.Obj.Name] {
				if bits, ok := it.tableIndex(st, x); ok {
					st.regs[x] = Ptr{Obj: p.Obj, Path: p.Path + "[?]", Sym: &symIdx{bits: bits}}
					return
				}
			}
			if p, isPtr := it.val(st, x.X).(Ptr); isPtr && p.Sym == nil && strings.HasPrefix(p.Obj.Name, "global:") {
				// a table the package initialiser filled with constants and nothing else writes (a
				// derived lookup table): the element at a symbolic index is the multiplexer over its entries
				if cells := it.derivedTable(p.Obj); cells != nil {
					// (a table whose length is not a power of two: an index past its end is a run-time panic,
					// which the bounds obligations of E3 are about; here such an entry reads as zero)
					it.anyTableLen = true
					bits, ok := it.tableIndex(st, x)
					it.anyTableLen = false
					if ok && len(bits) <= 8 {
						st.regs[x] = Ptr{Obj: p.Obj, Path: p.Path + "[?]", Sym: &symIdx{bits: bits, muxBase: p.Path, mux: true, cells: cells}}
						return
					}
				}
			}
			if p, isPtr := it.val(st, x.X).(Ptr); isPtr && strings.HasPrefix(p.Obj.Name, "global:") {
				it.unsup("lookup at a symbolic index into %s, which is not one of the verified constant tables, in %s", strings.TrimPrefix(p.Obj.Name, "global:"), x.Parent().String())
			} else {
				it.unsup("symbolic index in %s", x.Parent().String())
			}
			st.regs[x] = OpaqueV{"symbolic index"}
			return
		}
		switch b := it.val(st, x.X).(type) {
		case Ptr: // pointer to array
			st.regs[x] = Ptr{Obj: b.Obj, Path: b.Path + fmt.Sprintf("[%d]", idx)}
		case SliceV:
			if b.Nil || b.Obj == nil {
				it.unsup("index of nil slice in %s", x.Parent().String())
				st.regs[x] = OpaqueV{"nil slice"}
				return
			}
			if it.CheckBounds && b.Len >= 0 && (idx < 0 || idx >= b.Len) {
				it.unsup("index %d is out of range for a slice of %d elements in %s (run-time panic)", idx, b.Len, x.Parent().String())
			}
			st.regs[x] = Ptr{Obj: b.Obj, Path: b.Path + fmt.Sprintf("[%d]", b.Lo+idx)}
		default:
			it.unsup("index of unsupported value in %s", x.Parent().String())
			st.regs[x] = OpaqueV{"indexaddr"}
		}
	case *ssa.Index:
		idx, ok := it.concreteInt(it.val(st, x.Index))
		a, ok2 := it.val(st, x.X).(AggV)
		if !ok || !ok2 {
			if s, isStr := it.val(st, x.X).(StrV); isStr && ok && (s.Known || s.Sym) && (idx < 0 || (s.Known && idx >= len(s.S)) || (s.Sym && idx >= len(s.Chars))) {
				it.unsup("index %d is out of range for the text in %s (run-time panic)", idx, x.Parent().String())
				st.regs[x] = OpaqueV{"index"}
				return
			}
			if s, isStr := it.val(st, x.X).(StrV); isStr && ok && s.Known && idx < len(s.S) {
				st.regs[x] = it.constBV(uint64(s.S[idx]), 8)
				return
			}
			if s, isStr := it.val(st, x.X).(StrV); isStr && ok && s.Sym && idx < len(s.Chars) {
				st.regs[x] = s.Chars[idx]
				return
			}
			// the digit table "0123456789abcdef" at a symbolic index below 16: the lowercase hexadecimal
			// character of that nibble (what encoding/hex produces)
			if s, isStr := it.val(st, x.X).(StrV); isStr && s.Known && s.S == "0123456789abcdef" {
				if iv, isBV := it.val(st, x.Index).(BV); isBV && !iv.HasTop() && iv.W >= 4 {
					small := true
					for k := 4; k < iv.W; k++ {
						if iv.B[k] != it.T.zero {
							small = false
						}
					}
					if small {
						c := it.topBV(8)
						c.Hex = append([]*Node{}, iv.B[0:4]...)
						st.regs[x] = c
						return
					}
				}
			}
			it.unsup("symbolic index (value) in %s", x.Parent().String())
			st.regs[x] = OpaqueV{"index"}
			return
		}
		st.regs[x] = subAgg(a, fmt.Sprintf("[%d]", idx), x.Type(), it)
	case *ssa.UnOp:
		switch x.Op {
		case token.MUL: // load
			p, ok := it.val(st, x.X).(Ptr)
			if !ok {
				it.unsup("load through a non-pointer value in %s", x.Parent().String())
				st.regs[x] = OpaqueV{"load"}
				return
			}
			st.regs[x] = it.load(st, p, x.Type())
		case token.NOT:
			b, ok := it.val(st, x.X).(BV)
			if !ok {
				st.regs[x] = OpaqueV{"not"}
				return
			}
			st.regs[x] = BV{W: 1, B: []*Node{it.T.Not(b.B[0])}}
		case token.XOR:
			b, ok := it.val(st, x.X).(BV)
			if !ok {
				st.regs[x] = OpaqueV{"compl"}
				return
			}
			r := BV{W: b.W, B: make([]*Node, b.W), Signed: b.Signed}
			for i := range r.B {
				r.B[i] = it.T.Not(b.B[i])
			}
			st.regs[x] = r
		case token.SUB:
			b, ok := it.val(st, x.X).(BV)
			if !ok {
				st.regs[x] = OpaqueV{"neg"}
				return
			}
			neg := it.sub(it.constBV(0, b.W), b)
			neg.Signed = b.Signed
			st.regs[x] = neg
		default:
			it.unsup("unary op %s", x.Op)
			st.regs[x] = OpaqueV{"unop"}
		}
	case *ssa.BinOp:
		st.regs[x] = it.binop(x, it.val(st, x.X), it.val(st, x.Y))
	case *ssa.Convert:
		v := it.val(st, x.X)
		// string([]byte) of known length: one character per octet
		if sl, ok := v.(SliceV); ok && isStringT(x.Type()) && sl.Len >= 0 && !sl.Nil {
			out := StrV{Sym: true}
			for i := 0; i < sl.Len; i++ {
				if b, ok := it.load(st, it.sliceElemPtr(sl, i), types.Typ[types.Uint8]).(BV); ok {
					out.Chars = append(out.Chars, b)
				}
			}
			if len(out.Chars) == sl.Len {
				st.regs[x] = out
				return
			}
		}
		// []byte(string)
		if s, ok := v.(StrV); ok {
			if _, isSl := x.Type().Underlying().(*types.Slice); isSl && (s.Sym || s.Known) {
				o := it.NewObj(fmt.Sprintf("bytes%d", it.nobj+1), false)
				st.mem[o] = map[string]Value{}
				n := len(s.Chars)
				if s.Known {
					n = len(s.S)
				}
				for i := 0; i < n; i++ {
					if s.Known {
						st.mem[o][fmt.Sprintf("[%d]", i)] = it.constBV(uint64(s.S[i]), 8)
					} else {
						st.mem[o][fmt.Sprintf("[%d]", i)] = s.Chars[i]
					}
				}
				st.regs[x] = SliceV{Obj: o, Len: n}
				return
			}
		}
		st.regs[x] = it.convert(v, x.X.Type(), x.Type())
	case *ssa.ChangeType:
		st.regs[x] = it.val(st, x.X)
	case *ssa.ChangeInterface:
		st.regs[x] = it.val(st, x.X)
	case *ssa.Store:
		p, ok := it.val(st, x.Addr).(Ptr)
		if !ok {
			it.unsup("store through a non-pointer value in %s", x.Parent().String())
			return
		}
		it.store(st, p, it.val(st, x.Val))
	case *ssa.Slice:
		st.regs[x] = it.slice(st, x)
	case *ssa.MakeSlice:
		n, ok := it.concreteInt(it.val(st, x.Len))
		o := it.NewObj(fmt.Sprintf("make%d", it.nobj+1), false)
		if !ok {
			o.Havoc = false
			o.Lazy = false
			if lv, isBV := it.val(st, x.Len).(BV); isBV {
				o.MadeLen = &lv
			}
			st.regs[x] = SliceV{Obj: o, Len: -1}
			return
		}
		st.mem[o] = map[string]Value{}
		el := x.Type().Underlying().(*types.Slice).Elem()
		for i := 0; i < n && i < 4096; i++ {
			st.mem[o][fmt.Sprintf("[%d]", i)] = it.zeroValue(el)
		}
		st.regs[x] = SliceV{Obj: o, Len: n}
	case *ssa.Call:
		st.regs[x] = it.call(st, x, &x.Call, depth)
	case *ssa.Extract:
		if t, ok := it.val(st, x.Tuple).(TupleV); ok && x.Index < len(t) {
			st.regs[x] = t[x.Index]
		} else {
			st.regs[x] = OpaqueV{"extract"}
		}
	case *ssa.MakeInterface:
		st.regs[x] = it.val(st, x.X)
		it.LastIfaceType = x.X.Type() // the dynamic type of the interface value made last (factory evaluation)
	case *ssa.SliceToArrayPointer:
		// (*[n]T)(s): the array at the start of the slice (panics when len(s) < n)
		sl, ok := it.val(st, x.X).(SliceV)
		n := int(x.Type().(*types.Pointer).Elem().Underlying().(*types.Array).Len())
		if !ok || sl.Nil || sl.Obj == nil || (sl.Len >= 0 && sl.Len < n) {
			it.unsup("slice-to-array conversion of a slice that may be shorter than the array in %s", x.Parent().String())
			st.regs[x] = OpaqueV{"slice2array"}
			return
		}
		if sl.Lo != 0 {
			// element i of the array is element Lo+i of the backing store: materialise a view object
			o := it.NewObj(fmt.Sprintf("view%d", it.nobj+1), false)
			st.mem[o] = map[string]Value{}
			el := x.Type().(*types.Pointer).Elem().Underlying().(*types.Array).Elem()
			for i := 0; i < n; i++ {
				st.mem[o][fmt.Sprintf("[%d]", i)] = it.load(st, it.sliceElemPtr(sl, i), el)
			}
			st.regs[x] = Ptr{Obj: o}
			return
		}
		st.regs[x] = Ptr{Obj: sl.Obj, Path: sl.Path}
	case *ssa.MakeClosure:
		fv := FuncV{}
		fv.Fn, _ = x.Fn.(*ssa.Function)
		for _, b := range x.Bindings {
			fv.Bind = append(fv.Bind, it.val(st, b))
		}
		st.regs[x] = fv
	case *ssa.Phi:
		// handled by run
	case *ssa.MakeMap:
		o := it.NewObj(fmt.Sprintf("map%d", it.nobj+1), false)
		st.mem[o] = map[string]Value{}
		st.regs[x] = MapV{Obj: o}
	case *ssa.MapUpdate:
		m, okM := it.val(st, x.Map).(MapV)
		k, okK := it.mapKey(it.val(st, x.Key))
		if !okM || m.Obj == nil || !okK {
			it.unsup("map update with a key that is not a constant in %s", x.Parent().String())
			return
		}
		if st.mem[m.Obj] == nil {
			st.mem[m.Obj] = map[string]Value{}
		}
		st.mem[m.Obj][k] = it.val(st, x.Value)
	case *ssa.Lookup:
		if m, isMap := it.val(st, x.X).(MapV); isMap {
			// a map with constant keys (a lookup table): present key -> its value, absent key -> zero value
			k, okK := it.mapKey(it.val(st, x.Index))
			mt, _ := x.X.Type().Underlying().(*types.Map)
			if kb, isBV := it.val(st, x.Index).(BV); !okK && isBV && !kb.HasTop() && mt != nil && m.Obj != nil && len(st.mem[m.Obj]) <= 64 {
				// an integer key that is not a constant, a small table with constant integer keys and
				// integer values: the value is selected by comparing the key with every entry
				if ew, esg, isInt := typeWidth(mt.Elem()); isInt {
					res := it.constBV(0, ew)
					res.Signed = esg
					found := it.T.zero
					okAll := true
					for cell, v := range st.mem[m.Obj] {
						var kv uint64
						if _, err := fmt.Sscanf(cell, "k:i:%d", &kv); err != nil {
							okAll = false
							break
						}
						vb, isV := v.(BV)
						if !isV || vb.W != ew {
							okAll = false
							break
						}
						eq := it.T.one
						for b := 0; b < kb.W; b++ {
							bit := kb.B[b]
							if b >= 64 || kv>>uint(b)&1 == 0 {
								bit = it.T.Not(bit)
							}
							eq = it.T.And(eq, bit)
						}
						found = it.T.Or(found, eq)
						for b := 0; b < ew; b++ {
							res.B[b] = it.T.Or(res.B[b], it.T.And(eq, vb.B[b]))
						}
					}
					if okAll {
						if x.CommaOk {
							st.regs[x] = TupleV{res, BV{W: 1, B: []*Node{found}}}
						} else {
							st.regs[x] = res
						}
						return
					}
				}
			}
			if !okK || mt == nil {
				it.unsup("lookup in a map with a key that is not a constant in %s", x.Parent().String())
				st.regs[x] = OpaqueV{"lookup"}
				return
			}
			var v Value
			found := false
			if m.Obj != nil {
				v, found = st.mem[m.Obj][k]
			}
			if !found {
				v = it.zeroValue(mt.Elem())
			}
			if x.CommaOk {
				st.regs[x] = TupleV{v, it.constBV(uint64(b2i(found)), 1)}
			} else {
				st.regs[x] = v
			}
			return
		}
		s, ok1 := it.val(st, x.X).(StrV)
		idx, ok2 := it.concreteInt(it.val(st, x.Index))
		if ok1 && ok2 && s.Known && idx < len(s.S) {
			st.regs[x] = it.constBV(uint64(s.S[idx]), 8)
		} else if ok1 && ok2 && s.Sym && idx < len(s.Chars) {
			st.regs[x] = s.Chars[idx]
		} else {
			it.unsup("lookup in %s", x.Parent().String())
			st.regs[x] = OpaqueV{"lookup"}
		}
	default:
		it.unsup("unsupported instruction %T in %s", ins, ins.Parent().String())
		if v, ok := ins.(ssa.Value); ok {
			st.regs[v] = OpaqueV{"unsupported"}
		}
	}
}

func subAgg(a AggV, prefix string, t types.Type, it *Interp) Value {
	if v, ok := a.Cells[prefix]; ok {
		return v
	}
	r := AggV{Cells: map[string]Value{}}
	for k, v := range a.Cells {
		if strings.HasPrefix(k, prefix) {
			r.Cells[k[len(prefix):]] = v
		}
	}
	if len(r.Cells) == 0 {
		return it.zeroValue(t)
	}
	return r
}

func (it *Interp) concreteInt(v Value) (int, bool) {
	b, ok := v.(BV)
	if !ok {
		return 0, false
	}
	c, ok := b.IsConst()
	if !ok {
		return 0, false
	}
	if b.Signed && b.W < 64 && c&(1<<uint(b.W-1)) != 0 {
		return int(int64(c) - (1 << uint(b.W))), true
	}
	return int(int64(c)), true
}

func (it *Interp) slice(st *state, x *ssa.Slice) Value {
	lo, hi := 0, -1
	if x.Low != nil {
		v, ok := it.concreteInt(it.val(st, x.Low))
		if !ok {
			it.unsup("symbolic slice bound in %s", x.Parent().String())
			return OpaqueV{"slice"}
		}
		lo = v
	}
	if x.High != nil {
		v, ok := it.concreteInt(it.val(st, x.High))
		if !ok {
			// unknown upper bound: keep the length unknown
			hi = -2
		} else {
			hi = v
		}
	}
	switch b := it.val(st, x.X).(type) {
	case Ptr: // pointer to array
		n := int(x.X.Type().Underlying().(*types.Pointer).Elem().Underlying().(*types.Array).Len())
		if hi == -1 {
			hi = n
		}
		if hi == -2 {
			return SliceV{Obj: b.Obj, Path: b.Path, Lo: lo, Len: -1}
		}
		return SliceV{Obj: b.Obj, Path: b.Path, Lo: lo, Len: hi - lo}
	case SliceV:
		if b.Nil {
			return b
		}
		if hi == -1 {
			if b.Len < 0 {
				return SliceV{Obj: b.Obj, Path: b.Path, Lo: b.Lo + lo, Len: -1}
			}
			hi = b.Len
		}
		if it.CheckBounds && hi >= 0 && lo > hi {
			it.unsup("slice bounds [%d:%d] are out of order in %s (run-time panic)", lo, hi, x.Parent().String())
		}
		if hi == -2 {
			return SliceV{Obj: b.Obj, Path: b.Path, Lo: b.Lo + lo, Len: -1}
		}
		return SliceV{Obj: b.Obj, Path: b.Path, Lo: b.Lo + lo, Len: hi - lo}
	case StrV:
		if b.Known {
			if hi < 0 {
				hi = len(b.S)
			}
			if lo <= hi && hi <= len(b.S) {
				return StrV{Known: true, S: b.S[lo:hi]}
			}
		}
		if b.Sym {
			if hi < 0 {
				hi = len(b.Chars)
			}
			if lo <= hi && hi <= len(b.Chars) {
				return StrV{Sym: true, Chars: b.Chars[lo:hi]}
			}
		}
	}
	it.unsup("slice of unsupported value in %s", x.Parent().String())
	return OpaqueV{"slice"}
}

func (it *Interp) convert(v Value, from, to types.Type) Value {
	if d, ok := v.(DecV); ok {
		if w, sg, okT := typeWidth(to); okT {
			if len(d.D) == 1 {
				if bvd, ok := it.decToBV(d, w, sg); ok {
					return bvd
				}
			}
			if w >= 16 {
				return d // value-preserving widening/narrowing of a small decimal
			}
		}
		return OpaqueV{"convert decimal"}
	}
	// string(byte) and string([]byte)
	if isStringT(to) {
		if bv, ok := v.(BV); ok && bv.W == 8 {
			return StrV{Sym: true, Chars: []BV{bv}}
		}
	}
	b, ok := v.(BV)
	w, sg, ok2 := typeWidth(to)
	if ok && ok2 {
		r := BV{W: w, B: make([]*Node, w), Signed: sg}
		for i := 0; i < w; i++ {
			switch {
			case i < b.W:
				r.B[i] = b.B[i]
			case b.Signed:
				r.B[i] = b.B[b.W-1]
			default:
				r.B[i] = it.T.zero
			}
		}
		return r
	}
	// string(byteslice), []byte(string) etc.
	if s, ok := v.(StrV); ok {
		return s
	}
	return OpaqueV{"convert"}
}

func (it *Interp) add(x, y BV, carryIn *Node) BV {
	r := BV{W: x.W, B: make([]*Node, x.W), Signed: x.Signed}
	c := carryIn
	for i := 0; i < x.W; i++ {
		a, b := x.B[i], y.B[i]
		axb := it.T.Xor(a, b)
		r.B[i] = it.T.Xor(axb, c)
		// carry = (a&b) | (c & (a^b))
		c = it.T.Or(it.T.And(a, b), it.T.And(c, axb))
	}
	return r
}

func (it *Interp) sub(x, y BV) BV {
	ny := BV{W: y.W, B: make([]*Node, y.W)}
	for i := range ny.B {
		ny.B[i] = it.T.Not(y.B[i])
	}
	return it.add(x, ny, it.T.one)
}

func (it *Interp) orReduce(x BV) *Node {
	r := it.T.zero
	for _, b := range x.B {
		r = it.T.Or(r, b)
	}
	return r
}

func (it *Interp) binop(x *ssa.BinOp, a, b Value) Value {
	if v, ok := it.decBinop(x, a, b); ok {
		return v
	}
	// a single decimal digit behaves as a small integer
	if d, ok := a.(DecV); ok {
		if w, sg, okT := typeWidth(x.X.Type()); okT {
			if bvd, ok := it.decToBV(d, w, sg); ok {
				a = bvd
			}
		}
	}
	if d, ok := b.(DecV); ok {
		if w, sg, okT := typeWidth(x.Y.Type()); okT {
			if bvd, ok := it.decToBV(d, w, sg); ok {
				b = bvd
			}
		}
	}
	av, ok1 := a.(BV)
	bv, ok2 := b.(BV)
	// hexadecimal characters compared with a constant character
	if ok1 && ok2 && (x.Op == token.EQL || x.Op == token.NEQ) {
		var r *Node
		var okH bool
		if av.Hex != nil {
			if k, isC := bv.IsConst(); isC {
				r, okH = it.compareHexChar(av, k)
			}
		} else if bv.Hex != nil {
			if k, isC := av.IsConst(); isC {
				r, okH = it.compareHexChar(bv, k)
			}
		}
		if okH {
			if x.Op == token.NEQ {
				r = it.T.Not(r)
			}
			return BV{W: 1, B: []*Node{r}}
		}
	}
	// string concatenation of symbolic / known text
	if x.Op == token.ADD {
		if sa, ok := a.(StrV); ok {
			if sb, ok := b.(StrV); ok {
				toChars := func(s StrV) ([]BV, bool) {
					if s.Sym {
						return s.Chars, true
					}
					if s.Known {
						var cs []BV
						for i := 0; i < len(s.S); i++ {
							cs = append(cs, it.constBV(uint64(s.S[i]), 8))
						}
						return cs, true
					}
					return nil, false
				}
				ca, ok1 := toChars(sa)
				cb, ok2 := toChars(sb)
				if ok1 && ok2 && (sa.Sym || sb.Sym) {
					return StrV{Sym: true, Chars: append(append([]BV{}, ca...), cb...)}
				}
			}
		}
	}
	w, sg, okT := typeWidth(x.Type())
	if !ok1 || !ok2 {
		// pointer / nil comparisons
		switch x.Op {
		case token.EQL, token.NEQ:
			if _, isAgg := a.(AggV); isAgg {
				// struct / array values: equal iff all their cells are
				if n, ok := it.valEq(a, b); ok {
					if x.Op == token.NEQ {
						n = it.T.Not(n)
					}
					return BV{W: 1, B: []*Node{n}}
				}
			}
			_, an := a.(NilV)
			_, bn := b.(NilV)
			if sa, ok := a.(SliceV); ok && sa.Nil && sa.Obj == nil {
				an = true
			}
			if sb, ok := b.(SliceV); ok && sb.Nil && sb.Obj == nil {
				bn = true
			}
			eq := -1
			if an && bn {
				eq = 1
			} else if an || bn {
				o := a
				if an {
					o = b
				}
				switch q := o.(type) {
				case ErrV:
					n := q.Nil
					if x.Op == token.NEQ {
						n = it.T.Not(n)
					}
					return BV{W: 1, B: []*Node{n}}
				case Ptr, HandleV:
					eq = 0
				case FuncV:
					if q.Fn != nil {
						eq = 0 // a function value is not nil
					}
				case SliceV:
					if q.Nil {
						eq = 1
					} else {
						eq = 0
					}
				}
			} else if bvEqual(a, b) {
				eq = 1
			} else if ha, ok := a.(HandleV); ok {
				if hb, ok := b.(HandleV); ok {
					eq = b2i(ha == hb) // two opaque objects: the same one or not
				}
			} else if pa, ok := a.(Ptr); ok {
				// two pointers: equal iff they designate the same cell (distinct objects have distinct addresses)
				if pb, ok := b.(Ptr); ok && pa.Sym == nil && pb.Sym == nil {
					eq = b2i(pa == pb)
				}
			}
			if sa, ok := a.(StrV); ok {
				if sb, ok := b.(StrV); ok && sa.Known && sb.Known {
					eq = b2i(sa.S == sb.S)
				} else if ok && (sa.Known || sa.Sym) && (sb.Known || sb.Sym) {
					// strings of known but different lengths are different
					la, lb := len(sa.S), len(sb.S)
					if sa.Sym {
						la = len(sa.Chars)
					}
					if sb.Sym {
						lb = len(sb.Chars)
					}
					if la != lb {
						eq = 0
					} else {
						// same length: character-wise equality
						ca, okA := toCharsOf(it, sa)
						cb2, okB := toCharsOf(it, sb)
						if okA && okB {
							all := it.T.one
							decided := true
							for i := range ca {
								if ca[i].Hex != nil || cb2[i].Hex != nil || ca[i].HasTop() || cb2[i].HasTop() {
									decided = false
									break
								}
								for k := 0; k < 8; k++ {
									all = it.T.And(all, it.T.Not(it.T.Xor(ca[i].B[k], cb2[i].B[k])))
								}
							}
							if decided {
								if x.Op == token.NEQ {
									all = it.T.Not(all)
								}
								return BV{W: 1, B: []*Node{all}}
							}
						}
					}
				}
			}
			if eq >= 0 {
				if x.Op == token.NEQ {
					eq = 1 - eq
				}
				return it.constBV(uint64(eq), 1)
			}
		case token.ADD:
			if sa, ok := a.(StrV); ok {
				if sb, ok := b.(StrV); ok && sa.Known && sb.Known {
					return StrV{Known: true, S: sa.S + sb.S}
				}
			}
		}
		if okT {
			return it.topBV(w)
		}
		return OpaqueV{"binop"}
	}
	ca, aConst := av.IsConst()
	cb, bConst := bv.IsConst()
	res := func(v BV) Value { v.Signed = sg; return v }
	switch x.Op {
	case token.AND, token.OR, token.XOR, token.AND_NOT:
		r := BV{W: av.W, B: make([]*Node, av.W)}
		for i := range r.B {
			switch x.Op {
			case token.AND:
				r.B[i] = it.T.And(av.B[i], bv.B[i])
			case token.OR:
				r.B[i] = it.T.Or(av.B[i], bv.B[i])
			case token.XOR:
				r.B[i] = it.T.Xor(av.B[i], bv.B[i])
			case token.AND_NOT:
				r.B[i] = it.T.And(av.B[i], it.T.Not(bv.B[i]))
			}
		}
		return res(r)
	case token.ADD:
		return res(it.add(av, bv, it.T.zero))
	case token.SUB:
		return res(it.sub(av, bv))
	case token.SHL, token.SHR:
		if !bConst {
			return it.topBV(av.W)
		}
		n := int(cb)
		if cb > 1000 {
			n = 1000
		}
		r := BV{W: av.W, B: make([]*Node, av.W)}
		for i := range r.B {
			var src int
			if x.Op == token.SHL {
				src = i - n
			} else {
				src = i + n
			}
			switch {
			case src >= 0 && src < av.W:
				r.B[i] = av.B[src]
			case x.Op == token.SHR && av.Signed:
				r.B[i] = av.B[av.W-1]
			default:
				r.B[i] = it.T.zero
			}
		}
		return res(r)
	case token.MUL, token.QUO, token.REM:
		if aConst && bConst {
			ai, bi := toSigned(ca, av), toSigned(cb, bv)
			var r int64
			switch x.Op {
			case token.MUL:
				r = ai * bi
			case token.QUO:
				if bi == 0 {
					it.unsup("division by zero")
					return it.topBV(w)
				}
				if av.Signed {
					r = ai / bi
				} else {
					r = int64(ca / cb)
				}
			case token.REM:
				if bi == 0 {
					it.unsup("division by zero")
					return it.topBV(w)
				}
				if av.Signed {
					r = ai % bi
				} else {
					r = int64(ca % cb)
				}
			}
			return res(it.constBV(uint64(r), w))
		}
		nonNeg := func(v BV) bool { return !v.Signed || v.B[v.W-1].op == opZero }
		// multiplication by a constant: shift and add
		if x.Op == token.MUL && (aConst || bConst) && !av.HasTop() && !bv.HasTop() {
			v, c := av, cb
			if aConst {
				v, c = bv, ca
			}
			acc := it.constBV(0, v.W)
			for i := 0; i < v.W && i < 64; i++ {
				if c>>uint(i)&1 == 1 {
					sh := BV{W: v.W, B: make([]*Node, v.W)}
					for k := range sh.B {
						if k-i >= 0 {
							sh.B[k] = v.B[k-i]
						} else {
							sh.B[k] = it.T.zero
						}
					}
					acc = it.add(acc, sh, it.T.zero)
				}
			}
			return res(acc)
		}
		// division / remainder of a non-negative value by a positive constant: restoring division
		if (x.Op == token.QUO || x.Op == token.REM) && bConst && cb != 0 && cb&(cb-1) != 0 && nonNeg(av) && !av.HasTop() &&
			(!bv.Signed || toSigned(cb, bv) > 0) {
			q, rm := it.udivConst(av, cb)
			if x.Op == token.QUO {
				return res(q)
			}
			return res(rm)
		}
		// signed dividend of unknown sign, positive constant divisor: Go truncates toward zero
		if (x.Op == token.QUO || x.Op == token.REM) && bConst && cb != 0 && av.Signed && !av.HasTop() && toSigned(cb, bv) > 0 {
			sgn := av.B[av.W-1]
			neg := it.sub(it.constBV(0, av.W), av)
			abs := BV{W: av.W, B: make([]*Node, av.W)}
			for i := range abs.B {
				abs.B[i] = it.T.Mux(sgn, neg.B[i], av.B[i])
			}
			q, rm := it.udivConst(abs, cb)
			pick := q
			if x.Op == token.REM {
				pick = rm
			}
			np := it.sub(it.constBV(0, av.W), pick)
			out := BV{W: av.W, B: make([]*Node, av.W)}
			for i := range out.B {
				out.B[i] = it.T.Mux(sgn, np.B[i], pick.B[i])
			}
			return res(out)
		}
		// multiplication / division by a power of two
		if bConst && cb != 0 && cb&(cb-1) == 0 && (nonNeg(av) || x.Op == token.MUL) {
			sh := 0
			for (uint64(1) << uint(sh)) != cb {
				sh++
			}
			r := BV{W: av.W, B: make([]*Node, av.W)}
			for i := range r.B {
				var src int
				switch x.Op {
				case token.MUL:
					src = i - sh
				case token.QUO:
					src = i + sh
				case token.REM:
					src = i
					if i >= sh {
						src = -1
					}
				}
				if src >= 0 && src < av.W {
					r.B[i] = av.B[src]
				} else {
					r.B[i] = it.T.zero
				}
			}
			return res(r)
		}
		return it.topBV(w)
	case token.EQL, token.NEQ, token.LSS, token.LEQ, token.GTR, token.GEQ:
		if aConst && bConst {
			var r bool
			if av.Signed {
				ai, bi := toSigned(ca, av), toSigned(cb, bv)
				r = cmpInt(x.Op, ai < bi, ai == bi)
			} else {
				r = cmpInt(x.Op, ca < cb, ca == cb)
			}
			return it.constBV(uint64(b2i(r)), 1)
		}
		// bitwise equality
		if x.Op == token.EQL || x.Op == token.NEQ {
			diff := it.T.zero
			for i := range av.B {
				diff = it.T.Or(diff, it.T.Xor(av.B[i], bv.B[i]))
			}
			if x.Op == token.EQL {
				diff = it.T.Not(diff)
			}
			return BV{W: 1, B: []*Node{diff}}
		}
		// unsigned comparison with zero
		if !av.Signed {
			if bConst && cb == 0 {
				switch x.Op {
				case token.GTR:
					return BV{W: 1, B: []*Node{it.orReduce(av)}}
				case token.LEQ:
					return BV{W: 1, B: []*Node{it.T.Not(it.orReduce(av))}}
				case token.GEQ:
					return it.constBV(1, 1)
				case token.LSS:
					return it.constBV(0, 1)
				}
			}
			if aConst && ca == 0 {
				switch x.Op {
				case token.LSS:
					return BV{W: 1, B: []*Node{it.orReduce(bv)}}
				case token.GEQ:
					return BV{W: 1, B: []*Node{it.T.Not(it.orReduce(bv))}}
				case token.LEQ:
					return it.constBV(1, 1)
				case token.GTR:
					return it.constBV(0, 1)
				}
			}
		}
		// general ordering comparison: ripple comparator (signed: compare with the sign bits flipped)
		if len(av.B) == len(bv.B) && len(av.B) > 0 && !av.HasTop() && !bv.HasTop() {
			a2, b2 := av, bv
			if av.Signed {
				a2 = BV{W: av.W, B: append([]*Node(nil), av.B...)}
				b2 = BV{W: bv.W, B: append([]*Node(nil), bv.B...)}
				a2.B[av.W-1] = it.T.Not(a2.B[av.W-1])
				b2.B[bv.W-1] = it.T.Not(b2.B[bv.W-1])
			}
			var r *Node
			switch x.Op {
			case token.LSS:
				r = it.ult(a2, b2)
			case token.GTR:
				r = it.ult(b2, a2)
			case token.LEQ:
				r = it.T.Not(it.ult(b2, a2))
			case token.GEQ:
				r = it.T.Not(it.ult(a2, b2))
			}
			if r != nil {
				return BV{W: 1, B: []*Node{r}}
			}
		}
		return BV{W: 1, B: []*Node{it.T.Top()}}
	}
	it.unsup("binary op %s", x.Op)
	if okT {
		return it.topBV(w)
	}
	return OpaqueV{"binop"}
}

// udivConst: quotient and remainder of the unsigned value a by the constant c > 0.
func (it *Interp) udivConst(a BV, c uint64) (BV, BV) {
	n := 0
	for i := 0; i < a.W; i++ {
		if a.B[i].op != opZero {
			n = i + 1
		}
	}
	kb := 0
	for c>>uint(kb) != 0 {
		kb++
	}
	w := kb + 1
	C := it.constBV(c, w)
	rem := it.constBV(0, w)
	q := it.constBV(0, a.W)
	for i := n - 1; i >= 0; i-- {
		sh := BV{W: w, B: make([]*Node, w)}
		sh.B[0] = a.B[i]
		for k := 1; k < w; k++ {
			sh.B[k] = rem.B[k-1]
		}
		ge := it.T.Not(it.ult(sh, C))
		d := it.sub(sh, C)
		rem = BV{W: w, B: make([]*Node, w)}
		for k := 0; k < w; k++ {
			rem.B[k] = it.T.Mux(ge, d.B[k], sh.B[k])
		}
		q.B[i] = ge
	}
	r := it.constBV(0, a.W)
	for k := 0; k < w && k < a.W; k++ {
		r.B[k] = rem.B[k]
	}
	return q, r
}

// toCharsOf: the characters of a known or symbolic string as octet words.
func toCharsOf(it *Interp, s StrV) ([]BV, bool) {
	if s.Sym {
		return s.Chars, true
	}
	if s.Known {
		var out []BV
		for i := 0; i < len(s.S); i++ {
			out = append(out, it.constBV(uint64(s.S[i]), 8))
		}
		return out, true
	}
	return nil, false
}

// ult: a < b, unsigned.
func (it *Interp) ult(a, b BV) *Node {
	lt := it.T.zero
	for i := 0; i < a.W; i++ {
		eq := it.T.Not(it.T.Xor(a.B[i], b.B[i]))
		lt = it.T.Or(it.T.And(it.T.Not(a.B[i]), b.B[i]), it.T.And(eq, lt))
	}
	return lt
}

func toSigned(c uint64, v BV) int64 {
	if v.Signed && v.W < 64 && c&(1<<uint(v.W-1)) != 0 {
		return int64(c) - (1 << uint(v.W))
	}
	return int64(c)
}

func cmpInt(op token.Token, lt, eq bool) bool {
	switch op {
	case token.EQL:
		return eq
	case token.NEQ:
		return !eq
	case token.LSS:
		return lt
	case token.LEQ:
		return lt || eq
	case token.GTR:
		return !lt && !eq
	case token.GEQ:
		return !lt
	}
	return false
}

// call handles builtins, modelled stdlib functions and repository functions.
func (it *Interp) call(st *state, x *ssa.Call, c *ssa.CallCommon, depth int) Value {
	var args []Value
	for _, a := range c.Args {
		args = append(args, it.val(st, a))
	}
	if b, ok := c.Value.(*ssa.Builtin); ok {
		switch b.Name() {
		case "len", "cap":
			switch v := args[0].(type) {
			case SliceV:
				if v.Len >= 0 {
					return it.constBV(uint64(v.Len), 64).signed()
				}
				r := it.topBV(64)
				r.Signed = true
				return r
			case StrV:
				if v.Known {
					return it.constBV(uint64(len(v.S)), 64).signed()
				}
				if v.Sym {
					return it.constBV(uint64(len(v.Chars)), 64).signed()
				}
			case AggV:
				if a, ok := c.Args[0].Type().Underlying().(*types.Array); ok {
					return it.constBV(uint64(a.Len()), 64).signed()
				}
			case Ptr:
				if p, ok := c.Args[0].Type().Underlying().(*types.Pointer); ok {
					if a, ok := p.Elem().Underlying().(*types.Array); ok {
						return it.constBV(uint64(a.Len()), 64).signed()
					}
				}
			}
			r := it.topBV(64)
			r.Signed = true
			return r
		case "copy":
			return it.copyBuiltin(st, args, x)
		case "append":
			return it.appendBuiltin(st, args, x)
		case "min", "max":
			// integers: fold pairwise with the ordering comparison
			acc, ok := args[0].(BV)
			for _, a := range args[1:] {
				nb, okb := a.(BV)
				if !ok || !okb || nb.W != acc.W {
					ok = false
					break
				}
				var lt *Node // acc < nb
				if acc.Signed {
					fa, fb := acc, nb
					fa.B = append([]*Node{}, acc.B...)
					fb.B = append([]*Node{}, nb.B...)
					fa.B[acc.W-1] = it.T.Not(acc.B[acc.W-1])
					fb.B[nb.W-1] = it.T.Not(nb.B[nb.W-1])
					lt = it.ult(fa, fb)
				} else {
					lt = it.ult(acc, nb)
				}
				pick := lt // min: keep acc when acc < nb
				if b.Name() == "max" {
					pick = it.T.Not(lt)
				}
				m, okm := it.mux(pick, acc, nb).(BV)
				if !okm {
					ok = false
					break
				}
				m.Signed = acc.Signed
				acc = m
			}
			if ok {
				return acc
			}
		}
		it.unsup("builtin %s", b.Name())
		return OpaqueV{"builtin"}
	}
	if c.IsInvoke() {
		// interface method call: only through a registered model
		if m, ok := it.Models["invoke:"+c.Method.FullName()]; ok {
			if v, ok := m(it, st, c, append([]Value{it.val(st, c.Value)}, args...)); ok {
				return v
			}
		}
	}
	callee := c.StaticCallee()
	var bind []Value
	if callee != nil && !c.IsInvoke() && len(callee.FreeVars) > 0 {
		// a closure called directly: its captured values come with the function value
		if fv, ok := it.val(st, c.Value).(FuncV); ok && fv.Fn == callee {
			bind = fv.Bind
		}
	}
	if callee == nil && !c.IsInvoke() {
		// a call through a function value that resolves to one function (closure or method value)
		if fv, ok := it.val(st, c.Value).(FuncV); ok && fv.Fn != nil {
			callee, bind = fv.Fn, fv.Bind
		}
	}
	if callee == nil {
		it.unsup("dynamic call in %s", x.Parent().String())
		return OpaqueV{"dynamic call"}
	}
	name := callee.String()
	if it.inInit && (callee.Name() == "init" || strings.HasPrefix(callee.Name(), "init#")) && callee.Pkg != nil && callee != x.Parent() {
		if callee.Name() == "init" {
			return nil // imported package initialisers: not needed for this package's own tables
		}
	}
	if m, ok := it.Models[name]; ok {
		if v, ok := m(it, st, c, args); ok {
			return v
		}
	}
	if v, ok := it.stdModel(st, name, c, args); ok {
		return v
	}
	if v, ok := it.textModel(st, name, c, args); ok {
		return v
	}
	if callee.Pkg != nil && IsRepoPkg(callee.Pkg.Pkg) && callee.Blocks != nil {
		it.pendingBind = bind
		return it.Call(callee, args, st, depth+1)
	}
	if o := callee.Origin(); callee.Pkg == nil && o != nil && o.Pkg != nil && IsRepoPkg(o.Pkg.Pkg) && callee.Blocks != nil {
		// an instance of a generic function of this repository
		it.pendingBind = bind
		return it.Call(callee, args, st, depth+1)
	}
	if callee.Pkg == nil && callee.Synthetic != "" && callee.Blocks != nil && callee.Object() != nil && callee.Object().Pkg() != nil && IsRepoPkg(callee.Object().Pkg()) {
		// bound-method / thunk wrapper of a repository method
		it.pendingBind = bind
		return it.Call(callee, args, st, depth+1)
	}
	it.unsup("call to unmodelled function %s", name)
	sig := callee.Signature
	if sig.Results().Len() == 1 {
		if w, _, ok := typeWidth(sig.Results().At(0).Type()); ok {
			return it.topBV(w)
		}
	}
	return OpaqueV{"unmodelled " + name}
}

func (v BV) signed() BV { v.Signed = true; return v }

// valEq: the bit term of `a == b` for comparable values (integers, strings of known length,
// pointers, nil, and structs / arrays of those); ok=false when it is not decided.
func (it *Interp) valEq(a, b Value) (*Node, bool) {
	b2n := func(c bool) *Node {
		if c {
			return it.T.one
		}
		return it.T.zero
	}
	switch x := a.(type) {
	case BV:
		y, ok := b.(BV)
		if !ok || x.W != y.W || x.Hex != nil || y.Hex != nil || x.HasTop() || y.HasTop() {
			return nil, false
		}
		all := it.T.one
		for i := range x.B {
			all = it.T.And(all, it.T.Not(it.T.Xor(x.B[i], y.B[i])))
		}
		return all, true
	case AggV:
		y, ok := b.(AggV)
		if !ok || len(x.Cells) != len(y.Cells) {
			return nil, false
		}
		keys := make([]string, 0, len(x.Cells))
		for k := range x.Cells {
			keys = append(keys, k)
		}
		sort.Strings(keys)
		all := it.T.one
		for _, k := range keys {
			yv, ok := y.Cells[k]
			if !ok {
				return nil, false
			}
			n, ok := it.valEq(x.Cells[k], yv)
			if !ok {
				return nil, false
			}
			all = it.T.And(all, n)
		}
		return all, true
	case NilV:
		switch y := b.(type) {
		case NilV:
			return it.T.one, true
		case Ptr, HandleV:
			return it.T.zero, true
		case ErrV:
			return y.Nil, true
		}
	case Ptr:
		switch y := b.(type) {
		case NilV:
			return it.T.zero, true
		case Ptr:
			if x.Sym == nil && y.Sym == nil {
				return b2n(x == y), true
			}
		}
	case HandleV:
		switch y := b.(type) {
		case NilV:
			return it.T.zero, true
		case HandleV:
			return b2n(x == y), true
		}
	case ErrV:
		if _, ok := b.(NilV); ok {
			return x.Nil, true
		}
	case StrV:
		y, ok := b.(StrV)
		if !ok {
			return nil, false
		}
		if x.Known && y.Known {
			return b2n(x.S == y.S), true
		}
		ca, okA := toCharsOf(it, x)
		cb, okB := toCharsOf(it, y)
		if !okA || !okB {
			return nil, false
		}
		if len(ca) != len(cb) {
			return it.T.zero, true
		}
		all := it.T.one
		for i := range ca {
			n, ok := it.valEq(BV{W: 8, B: ca[i].B, Hex: ca[i].Hex}, BV{W: 8, B: cb[i].B, Hex: cb[i].Hex})
			if !ok {
				return nil, false
			}
			all = it.T.And(all, n)
		}
		return all, true
	}
	return nil, false
}

func (it *Interp) sliceElemPtr(s SliceV, i int) Ptr {
	return Ptr{Obj: s.Obj, Path: s.Path + fmt.Sprintf("[%d]", s.Lo+i)}
}

func (it *Interp) copyBuiltin(st *state, args []Value, x *ssa.Call) Value {
	dst, ok1 := args[0].(SliceV)
	if !ok1 {
		it.unsup("copy into unsupported destination")
		return it.topBV(64).signed()
	}
	el := x.Call.Args[0].Type().Underlying().(*types.Slice).Elem()
	switch src := args[1].(type) {
	case SliceV:
		n := -1
		if dst.Len >= 0 && src.Len >= 0 {
			n = dst.Len
			if src.Len < n {
				n = src.Len
			}
		}
		srcName := "?"
		if src.Obj != nil {
			srcName = fmt.Sprintf("%s%s[%d:]", src.Obj.Name, src.Path, src.Lo)
		}
		dstName := "?"
		if dst.Obj != nil {
			dstName = fmt.Sprintf("%s%s[%d:]", dst.Obj.Name, dst.Path, dst.Lo)
		}
		if n < 0 {
			// bulk copy of unknown extent: record the effect, havoc the destination
			it.Effects = append(it.Effects, fmt.Sprintf("copy dst=%s dstlen=%d src=%s srclen=%d", dstName, dst.Len, srcName, src.Len))
			if dst.Obj != nil {
				it.Writes[dst.Obj.Name+dst.Path+fmt.Sprintf("[%d:]", dst.Lo)] = true
				dst.Obj.Havoc = true
				// forget materialised cells at or after dst.Lo
				for k := range st.mem[dst.Obj] {
					if strings.HasPrefix(k, dst.Path+"[") {
						delete(st.mem[dst.Obj], k)
					}
				}
			}
			return it.topBV(64).signed()
		}
		it.Effects = append(it.Effects, fmt.Sprintf("copy dst=%s src=%s n=%d", dstName, srcName, n))
		vals := make([]Value, n)
		for i := 0; i < n; i++ {
			vals[i] = it.load(st, it.sliceElemPtr(src, i), el)
		}
		for i := 0; i < n; i++ {
			it.store(st, it.sliceElemPtr(dst, i), vals[i])
		}
		return it.constBV(uint64(n), 64).signed()
	case StrV:
		if src.Known && dst.Len >= 0 {
			n := len(src.S)
			if dst.Len < n {
				n = dst.Len
			}
			for i := 0; i < n; i++ {
				it.store(st, it.sliceElemPtr(dst, i), it.constBV(uint64(src.S[i]), 8))
			}
			return it.constBV(uint64(n), 64).signed()
		}
	}
	it.unsup("copy with unsupported source")
	return it.topBV(64).signed()
}

func (it *Interp) appendBuiltin(st *state, args []Value, x *ssa.Call) Value {
	base, ok := args[0].(SliceV)
	if !ok {
		it.unsup("append to unsupported slice")
		return OpaqueV{"append"}
	}
	el := x.Call.Args[0].Type().Underlying().(*types.Slice).Elem()
	var add []Value
	switch s := args[1].(type) {
	case SliceV:
		if s.Nil {
			return base
		}
		if s.Len < 0 {
			if !base.Nil && base.Len == 0 && s.Obj != nil {
				// append(empty, src...) with src of unknown extent: a fresh slice holding exactly src's
				// elements — the same effect as make + copy of the whole of src
				o := it.NewObj(fmt.Sprintf("append%d", it.nobj+1), false)
				o.Havoc = true
				st.mem[o] = map[string]Value{}
				it.Effects = append(it.Effects, fmt.Sprintf("copy dst=%s[0:] dstlen=-1 src=%s%s[%d:] srclen=-1", o.Name, s.Obj.Name, s.Path, s.Lo))
				return SliceV{Obj: o, Len: -1}
			}
			it.unsup("append of a slice of unknown length")
			return OpaqueV{"append"}
		}
		for i := 0; i < s.Len; i++ {
			add = append(add, it.load(st, it.sliceElemPtr(s, i), el))
		}
	case StrV:
		cs, ok := toCharsOf(it, s)
		if !ok {
			it.unsup("append of a string of unknown length")
			return OpaqueV{"append"}
		}
		for _, ch := range cs {
			add = append(add, BV{W: 8, B: ch.B})
		}
	default:
		it.unsup("append of unsupported value")
		return OpaqueV{"append"}
	}
	if base.Len < 0 && !base.Nil {
		it.unsup("append to a slice of unknown length")
		return OpaqueV{"append"}
	}
	if base.Len+len(add) > 2048 {
		it.unsup("append beyond 2048 elements (unbounded growth?)")
		it.Fuel = 0
		return OpaqueV{"append"}
	}
	// always reallocate (sound for provenance: the result holds old contents followed by the new ones)
	o := it.NewObj(fmt.Sprintf("append%d", it.nobj+1), false)
	st.mem[o] = map[string]Value{}
	n := 0
	if !base.Nil {
		for i := 0; i < base.Len; i++ {
			it.storeQuiet(st, Ptr{Obj: o, Path: fmt.Sprintf("[%d]", n)}, it.load(st, it.sliceElemPtr(base, i), el))
			n++
		}
	}
	for _, v := range add {
		it.storeQuiet(st, Ptr{Obj: o, Path: fmt.Sprintf("[%d]", n)}, v)
		n++
	}
	return SliceV{Obj: o, Len: n}
}

// stdModel: exact models of a few stdlib functions.
func (it *Interp) stdModel(st *state, name string, c *ssa.CallCommon, args []Value) (Value, bool) {
	byteAt := func(s SliceV, i int) (BV, bool) {
		if s.Nil || s.Obj == nil || (s.Len >= 0 && i >= s.Len) {
			return BV{}, false
		}
		v, ok := it.load(st, it.sliceElemPtr(s, i), types.Typ[types.Uint8]).(BV)
		return v, ok
	}
	little := strings.HasPrefix(name, "(encoding/binary.littleEndian).")
	if little {
		name = "(encoding/binary.bigEndian)." + strings.TrimPrefix(name, "(encoding/binary.littleEndian).")
	}
	// octet i of an n-octet word sits at bit 8*pos(i): most significant first for big endian
	pos := func(n, i int) int {
		if little {
			return i
		}
		return n - 1 - i
	}
	switch name {
	case "(encoding/binary.bigEndian).Uint16", "(encoding/binary.bigEndian).Uint32", "(encoding/binary.bigEndian).Uint64":
		n := map[string]int{"16": 2, "32": 4, "64": 8}[name[len(name)-2:]]
		s, ok := args[len(args)-1].(SliceV)
		if !ok {
			return nil, false
		}
		r := BV{W: 8 * n, B: make([]*Node, 8*n)}
		for i := 0; i < n; i++ {
			b, ok := byteAt(s, i)
			if !ok {
				it.unsup("%s on a slice shorter than %d", name, n)
				return it.topBV(8 * n), true
			}
			for k := 0; k < 8; k++ {
				r.B[8*pos(n, i)+k] = b.B[k]
			}
		}
		return r, true
	case "(encoding/binary.bigEndian).PutUint16", "(encoding/binary.bigEndian).PutUint32", "(encoding/binary.bigEndian).PutUint64":
		n := map[string]int{"16": 2, "32": 4, "64": 8}[name[len(name)-2:]]
		s, ok1 := args[len(args)-2].(SliceV)
		v, ok2 := args[len(args)-1].(BV)
		if !ok1 || !ok2 || s.Obj == nil {
			return nil, false
		}
		for i := 0; i < n; i++ {
			b := BV{W: 8, B: make([]*Node, 8)}
			for k := 0; k < 8; k++ {
				b.B[k] = v.B[8*pos(n, i)+k]
			}
			it.store(st, it.sliceElemPtr(s, i), b)
		}
		return nil, true
	case "(encoding/binary.bigEndian).AppendUint16", "(encoding/binary.bigEndian).AppendUint32", "(encoding/binary.bigEndian).AppendUint64":
		// append(b, octets of v...) in the byte order
		n := map[string]int{"16": 2, "32": 4, "64": 8}[name[len(name)-2:]]
		base, ok1 := args[len(args)-2].(SliceV)
		v, ok2 := args[len(args)-1].(BV)
		if !ok1 || !ok2 || (base.Len < 0 && !base.Nil) {
			return nil, false
		}
		o := it.NewObj(fmt.Sprintf("append%d", it.nobj+1), false)
		st.mem[o] = map[string]Value{}
		k := 0
		if !base.Nil {
			for i := 0; i < base.Len; i++ {
				it.storeQuiet(st, Ptr{Obj: o, Path: fmt.Sprintf("[%d]", k)}, it.load(st, it.sliceElemPtr(base, i), types.Typ[types.Uint8]))
				k++
			}
		}
		for i := 0; i < n; i++ {
			b := BV{W: 8, B: make([]*Node, 8)}
			for j := 0; j < 8; j++ {
				b.B[j] = v.B[8*pos(n, i)+j]
			}
			it.storeQuiet(st, Ptr{Obj: o, Path: fmt.Sprintf("[%d]", k)}, b)
			k++
		}
		return SliceV{Obj: o, Len: k}, true
	case "math/bits.RotateLeft32", "math/bits.RotateLeft8", "math/bits.RotateLeft16", "math/bits.RotateLeft64":
		v, ok1 := args[0].(BV)
		k, ok2 := it.concreteInt(args[1])
		if !ok1 || !ok2 {
			return nil, false
		}
		r := BV{W: v.W, B: make([]*Node, v.W)}
		for i := range r.B {
			r.B[i] = v.B[((i-k)%v.W+v.W)%v.W]
		}
		return r, true
	case "fmt.Errorf", "errors.New":
		return ErrV{it.T.zero}, true
	}
	if strings.HasPrefix(name, "(*github.com/sirupsen/logrus.Entry).") {
		return OpaqueV{"log"}, true
	}
	return nil, false
}

// ---------------------------------------------------------------------------------------------
// helpers for property code

// tableIndex returns the index bits of a lookup into a power-of-two sized array when the
// higher index bits are provably zero (so that the access cannot be out of range).
func (it *Interp) tableIndex(st *state, x *ssa.IndexAddr) ([]*Node, bool) {
	pt, ok := x.X.Type().Underlying().(*types.Pointer)
	if !ok {
		return nil, false
	}
	arr, ok := pt.Elem().Underlying().(*types.Array)
	if !ok {
		return nil, false
	}
	n := int(arr.Len())
	k := 0
	for 1<<uint(k) < n {
		k++
	}
	if 1<<uint(k) != n && !it.anyTableLen {
		return nil, false
	}
	idx, ok := it.val(st, x.Index).(BV)
	if !ok || idx.HasTop() {
		return nil, false
	}
	for i := k; i < idx.W; i++ {
		if idx.B[i].op != opZero {
			it.unsup("table index not provably below %d in %s", n, x.Parent().String())
			return nil, false
		}
	}
	if k > idx.W {
		k = idx.W
	}
	return idx.B[:k], true
}

// SymbolicReceiver creates a lazy object standing for *recv before the call.
func (it *Interp) SymbolicObj(name string) (*MemObj, Ptr) {
	o := it.NewObj(name, true)
	return o, Ptr{Obj: o}
}

func (it *Interp) NewState() *state {
	return &state{mem: map[*MemObj]map[string]Value{}, regs: map[ssa.Value]Value{}}
}

// ConcreteSlice builds a slice of n symbolic bytes named name[i].
func (it *Interp) SymbolicBytes(st *state, name string, n int) SliceV {
	o := it.NewObj(name, true)
	return SliceV{Obj: o, Len: n}
}

// CellsOf lists the cells of an object in the state, sorted.
func (st *state) CellsOf(o *MemObj) []string {
	var ks []string
	for k := range st.mem[o] {
		ks = append(ks, k)
	}
	sort.Strings(ks)
	return ks
}

func isStringT(t types.Type) bool {
	b, ok := t.Underlying().(*types.Basic)
	return ok && b.Info()&types.IsString != 0
}
