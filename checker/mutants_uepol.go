package main

func init() {
	const ins = "uePolicyContainer/UePolicyContainer_Instruction.go"
	addMutants(
		Mutant{Name: "c18-instruction-len-regression", Prop: "C18", File: ins, Old: "\tif instruction.Len < 2 {", New: "\tif instruction.Len < 1 {",
			Expect: "safe.stdlib-pre / uePolicyContainer.parseInstruction", Why: "Len 1: Buffer.Next(-1) panics"},
		Mutant{Name: "c18-sublist-len-stale", Prop: "C18", File: "uePolicyContainer/UePolicyContainer_UEPolicySectionManagementSubList.go", Old: "\tu.SetLen(uint16(1 + 1 + 1 + len(contentByte)))", New: "\tu.SetLen(uint16(1 + 1 + len(contentByte)))",
			Expect: "seq.len-covers / uePolicyContainer.(*UEPolicySectionManagementSubList).MarshalBinary", Why: "length does not count the third PLMN octet"},
		Mutant{Name: "c18-instruction-len-not-recomputed", Prop: "C18", File: ins, Old: "binary.Write(buf, binary.BigEndian, i.Len)", New: "binary.Write(buf, binary.BigEndian, i.Upsc)",
			Expect: "seq.dual / uePolicyContainer.(*Instruction).MarshalBinary", Why: "length field no longer written: parser reads Len where the serialiser wrote Upsc"},
		Mutant{Name: "c18-keep-len-expr", Prop: "C18", File: "uePolicyContainer/UePolicyContainer_UEPolicySectionManagementSubList.go", Old: "\tu.SetLen(uint16(1 + 1 + 1 + len(contentByte)))", New: "\tu.SetLen(uint16(len(contentByte) + 3))", Keep: true, Why: "same length"},
	)
}

func init() {
	addMutants(
		Mutant{Name: "c18-part-len-stale-regression", Prop: "C18", File: "uePolicyContainer/UePolicyContainer_UEPolicyParts.go", Old: "\t// len\n\t_ = u.SetLen_byContent()\n", New: "\t// len\n\tif u.Len == 0 {\n\t\t_ = u.SetLen_byContent()\n\t}\n",
			Expect: "seq.len-covers / uePolicyContainer.(*UEPolicyPart).MarshalBinary", Why: "the repaired stale-length defect returns"},
		Mutant{Name: "c18-reuse-command-struct", Prop: "C18", File: "uePolicyContainer/UePolicyContainer.go", Old: "\t\tu.ManageUEPolicyCommand = NewManageUEPolicyCommand(MsgTypeManageUEPolicyCommand)\n", New: "\t\tif u.ManageUEPolicyCommand == nil {\n\t\t\tu.ManageUEPolicyCommand = NewManageUEPolicyCommand(MsgTypeManageUEPolicyCommand)\n\t\t}\n",
			Expect: "dec.fresh-target", Why: "the command structure is reused across decodes: an optional classmark of an earlier message survives"},
	)
}
