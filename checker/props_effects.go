package main

// C10 (purity of decode/encode) and C19 (no hidden shared mutable state) — decided with E4.

import (
	"fmt"
	"go/token"
	"go/types"
	"sort"
	"strings"

	"golang.org/x/tools/go/ssa"
)

func init() {
	register("C10", func(w *World, r *Report, tier string) {
		propC10(w, r, tier)
		// deterministic function of the arguments: the result of a decode must not depend on what the
		// Message held before the call - the family struct and the body are allocated afresh (C05's rules)
		importRules(w, r, "C05", tier, []string{"dispatch.header-read", "dispatch.one-body"}, "decode is a function of its input only: nothing of an earlier decode into the same Message survives")
	})
	register("C19", propC19)
}

// mutableGlobals: repository package-level variables written outside package initialisation.
func mutableGlobals(w *World, e *Effects) (writes map[string][]ModSite, all []string) {
	writes = map[string][]ModSite{}
	fns := e.AllRepoFunctions()
	e.Summaries(fns)
	for _, p := range w.Pkgs {
		sp := w.SSA[p]
		if sp == nil || strings.HasPrefix(relPkg(p.Types), "internal") {
			continue
		}
		for _, m := range sp.Members {
			if g, ok := m.(*ssa.Global); ok && !strings.HasPrefix(g.Name(), "init$") {
				all = append(all, relPkg(p.Types)+"."+g.Name())
			}
		}
	}
	sort.Strings(all)
	for _, f := range fns {
		if f.Name() == "init" || strings.HasPrefix(f.Name(), "init#") || strings.HasPrefix(relPkg(f.Pkg.Pkg), "internal") {
			continue
		}
		// direct stores only (per function), so that the report names the writer
		for _, b := range f.Blocks {
			for _, ins := range b.Instrs {
				var addr ssa.Value
				what := ""
				switch x := ins.(type) {
				case *ssa.Store:
					addr, what = x.Addr, "store"
				case *ssa.MapUpdate:
					addr, what = x.Map, "map update"
				case *ssa.Call:
					if bi, ok := x.Call.Value.(*ssa.Builtin); ok && (bi.Name() == "copy" || bi.Name() == "append" || bi.Name() == "delete") {
						addr, what = x.Call.Args[0], bi.Name()
					}
				}
				if addr == nil {
					continue
				}
				for r := range e.rootsOf(addr, 0) {
					if r.Kind == "global" {
						writes[r.Name] = append(writes[r.Name], ModSite{Root: r, Pos: ins.Pos(), Fn: SSAFuncName(f), What: what})
					}
				}
			}
		}
	}
	return
}

func propC10(w *World, r *Report, tier string) {
	e := NewEffects(w)
	r.Explanation = "Mod/ref and alias summaries (E4: SSA root tracing, propagated to a fixpoint over the VTA call graph) of the three decode entry " +
		"points, all 45 Decode*/Encode* codecs and the three encode entry points. Decode: no write is rooted at the input slice (the bytes.Buffer wrapping " +
		"it is only read; binary.Read copies out), no pointer-like value rooted at the input is stored into message-reachable memory or returned, every " +
		"decoded byte lives in memory allocated during the call. Encode: the mod set contains no root at the message; the destination buffer is written " +
		"only through append-only operations. Determinism: no reachable function reads a repository global that is written after init, ranges over a map, " +
		"uses goroutines/channels/select, or calls into time/rand/os/runtime."
	r.Assumptions = []string{
		"stdlib effect contracts in checker/effects.go (binary.Read writes only its data argument by copy; bytes.Buffer read methods do not write the wrapped bytes; binary.Write only appends to its writer)",
		"the receiver Message and the input slice do not already alias each other when decode is called",
	}
	r.Trusted = []string{"go/ssa, VTA call graph (x/tools v0.29.0)", "stdlib effect contracts (effContracts table)"}
	r.Exhaustive = true

	mutW, _ := mutableGlobals(w, NewEffects(w))
	type entry struct {
		fn      *types.Func
		decode  bool
		msgIdx  int
		inIdx   int // input slice / destination buffer parameter index (-1: none)
	}
	var entries []entry
	for _, n := range []string{"PlainNasDecode", "GmmMessageDecode", "GsmMessageDecode"} {
		f := w.LookupFunc("", "Message."+n)
		if f == nil {
			panic(anchorError("nas.(*Message)." + n))
		}
		entries = append(entries, entry{f, true, 0, 1})
	}
	for _, n := range []string{"GmmMessageEncode", "GsmMessageEncode"} {
		f := w.LookupFunc("", "Message."+n)
		if f == nil {
			panic(anchorError("nas.(*Message)." + n))
		}
		entries = append(entries, entry{f, false, 0, 1})
	}
	if f := w.LookupFunc("", "Message.PlainNasEncode"); f != nil {
		entries = append(entries, entry{f, false, 0, -1})
	} else {
		panic(anchorError("nas.(*Message).PlainNasEncode"))
	}
	cs := ExtractCodecs(w)
	for _, c := range cs.Codecs {
		if c.DecObj != nil {
			entries = append(entries, entry{c.DecObj, true, 0, 1})
		}
		if c.EncObj != nil {
			entries = append(entries, entry{c.EncObj, false, 0, 1})
		}
	}
	var fns []*ssa.Function
	for _, en := range entries {
		if sf := w.SSAFunc(en.fn); sf != nil {
			fns = append(fns, sf)
		}
	}
	reach := e.Summaries(fns)
	for _, f := range reach {
		r.Fn(SSAFuncName(f))
	}
	for _, en := range entries {
		sf := w.SSAFunc(en.fn)
		name := FuncName(en.fn)
		s := e.Summary(sf)
		if s == nil {
			r.Fail("anchor", name, "summary", en.fn.Pos(), "no summary", nil)
			continue
		}
		r.Site("eff.entries")
		if en.decode {
			// input never written
			bad := false
			for root, site := range s.Mods {
				if root.Kind == "param" && root.Idx == en.inIdx && !root.Reader {
					bad = true
					r.Fail("eff.input-readonly", name, site.Fn+": "+site.What, site.Pos, "decode writes memory rooted at the input bytes ("+site.What+" in "+site.Fn+")", nil)
				}
				if root.Kind == "global" || root.Kind == "extglobal" || root.Kind == "unknown" || root.Kind == "freevar" {
					bad = true
					r.Fail("eff.input-readonly", name, root.String(), site.Pos, "decode writes "+root.String()+" ("+site.What+" in "+site.Fn+")", nil)
				}
			}
			// a write method applied - possibly inside a helper - to a buffer that wraps the input
			// stores into the input's backing array (behind its length, or over its start once the
			// buffer has been drained)
			for _, op := range s.WriteOps {
				if op.Root.Kind == "param" && op.Root.Idx == en.inIdx && strings.HasPrefix(op.What, "(*bytes.Buffer).Write") {
					bad = true
					r.Fail("eff.input-readonly", name, op.Fn+": "+op.What, op.Pos, "decode calls "+op.What+" on a buffer that wraps the input bytes (in "+op.Fn+"): the octets land in the caller's array", nil)
				}
			}
			if !bad {
				r.OK("eff.input-readonly")
			}
			// aliasing
			bad = false
			for _, rt := range s.Retains {
				if rt.Src.Kind == "param" && rt.Src.Idx == en.inIdx {
					bad = true
					r.Fail("alias.none", name, rt.Fn+" keeps "+rt.Src.String()+" in "+rt.Dst.String(), rt.Pos,
						"a value sharing memory with the input bytes is stored into "+rt.Dst.String()+" in "+rt.Fn, nil)
				}
			}
			for i, rs := range s.Results {
				if rs.hasParamAny(en.inIdx) {
					bad = true
					r.Fail("alias.none", name, fmt.Sprintf("result %d", i), en.fn.Pos(), "a returned value shares memory with the input bytes", nil)
				}
			}
			if !bad {
				r.OK("alias.none")
			}
			if len(r.Samples) < 3 {
				var ops []string
				for k := range s.ReaderOps {
					ops = append(ops, k)
				}
				sort.Strings(ops)
				var mods []string
				for root := range s.Mods {
					mods = append(mods, root.String())
				}
				sort.Strings(mods)
				r.Sample(map[string]any{"entry": name, "mod_roots": mods, "operations_on_the_input_reader": ops, "retains": len(s.Retains)})
			}
		} else {
			bad := false
			for root, site := range s.Mods {
				switch {
				case root.Kind == "param" && root.Idx == en.msgIdx:
					bad = true
					r.Fail("eff.encode-readonly", name, site.Fn+": "+site.What, site.Pos, "encoding writes memory reachable from the message ("+site.What+" in "+site.Fn+")", nil)
				case root.Kind == "param" && root.Idx == en.inIdx:
				default:
					bad = true
					r.Fail("eff.encode-readonly", name, root.String(), site.Pos, "encoding writes "+root.String()+" ("+site.What+" in "+site.Fn+")", nil)
				}
			}
			if !bad {
				r.OK("eff.encode-readonly")
			}
			// append-only on the destination buffer
			bad = false
			for k, op := range s.WriteOps {
				if op.Root.Kind == "param" && op.Root.Idx == en.inIdx {
					switch op.What {
					case "encoding/binary.Write", "(*bytes.Buffer).Write", "(*bytes.Buffer).WriteByte", "(*bytes.Buffer).WriteString":
					default:
						bad = true
						r.Fail("eff.append-only", name, k, op.Pos, "destination buffer is modified by "+op.What+", which is not append-only", nil)
					}
				}
			}
			// the message must not retain the buffer or vice versa
			for _, rt := range s.Retains {
				if rt.Dst.Kind == "param" && rt.Dst.Idx == en.msgIdx {
					bad = true
					r.Fail("eff.encode-readonly", name, rt.Fn+" stores into message", rt.Pos, "encoding stores a pointer into the message", nil)
				}
			}
			if !bad {
				r.OK("eff.append-only")
			}
			if len(r.Samples) < 6 && en.inIdx >= 0 {
				var ops []string
				for k := range s.WriteOps {
					ops = append(ops, k)
				}
				sort.Strings(ops)
				if len(ops) > 4 {
					ops = ops[:4]
				}
				r.Sample(map[string]any{"entry": name, "write_operations": ops})
			}
		}
		// determinism
		bad := false
		for k, pos := range s.Ambient {
			bad = true
			r.Fail("det.no-ambient", name, k, pos, "reachable code uses "+k, nil)
		}
		for g, pos := range s.GlobalRd {
			if ws := mutW[g]; len(ws) > 0 {
				bad = true
				r.Fail("det.no-ambient", name, "reads "+g, pos, "reachable code reads package variable "+g+", which is written outside init by "+ws[0].Fn, nil)
			}
		}
		if !bad {
			r.OK("det.no-ambient")
		}
	}
	r.Expect("eff.entries", 96)
	if len(e.Unknown) > 0 {
		sort.Strings(e.Unknown)
		for _, u := range e.Unknown {
			r.Fail("eff.contract-missing", "-", u, token.NoPos, "reachable callee without an effect contract: "+u, nil)
		}
	}
	r.Extra["reachable_functions"] = len(reach)
}

// ---------------------------------------------------------------------------------------------

func propC19(w *World, r *Report, tier string) {
	e := NewEffects(w)
	r.Explanation = "Effect summaries (E4) of every function and method of nas, nasMessage, nasType, nasConvert, security/**, uePolicyContainer and logger: " +
		"(1) no package-level variable, and no memory reachable from one, is written outside package initialisation; (2) no function stores a " +
		"caller-provided pointer into a package-level variable or hands out memory owned by one; (3) no goroutines, channels, select, unsafe or sync " +
		"primitives; (4) every Get* accessor and every Encode* function has a mod set without parameter roots (read-only use of a shared decoded " +
		"message). Hence two goroutines working on distinct values, or only reading a shared message, touch disjoint writable memory."
	r.Assumptions = []string{
		"logrus Entry/Logger methods are internally synchronised (contract); races inside logrus or the Go runtime are out of scope",
		"logger.SetLogLevel / SetReportCaller / GetLogger are the configuration API of shared logging state and are excluded by name",
	}
	r.Trusted = []string{"go/ssa, VTA call graph", "stdlib effect contracts (effContracts table)"}
	r.Exhaustive = true
	writes, globals := mutableGlobals(w, e)
	excluded := map[string]string{
		"logger.SetLogLevel":     "configuration API (writes logging level through logrus, internally synchronised)",
		"logger.SetReportCaller": "configuration API",
		"logger.GetLogger":       "hands out the shared logger by design",
	}
	for _, g := range globals {
		r.Site("glob.vars")
		if ws := writes[g]; len(ws) > 0 {
			for _, s := range ws {
				if _, ok := excluded[s.Fn]; ok {
					continue
				}
				r.Fail("glob.init-only", s.Fn, g, s.Pos, "package-level variable "+g+" (or memory reachable from it) is written outside init: "+s.What+" in "+s.Fn, nil)
			}
		} else {
			r.OK("glob.init-only")
		}
	}
	r.Expect("glob.vars", 10)
	r.Sample(map[string]any{"rule": "glob.init-only", "package_level_variables": globals})
	fns := e.AllRepoFunctions()
	nGet := 0
	reportedGlobal := map[string]bool{}
	for _, f := range fns {
		rel := relPkg(f.Pkg.Pkg)
		if strings.HasPrefix(rel, "internal") {
			continue
		}
		name := SSAFuncName(f)
		r.Fn(name)
		s := e.Summary(f)
		if s == nil {
			continue
		}
		if f.Name() == "init" || strings.HasPrefix(f.Name(), "init#") {
			continue
		}
		if _, ok := excluded[name]; ok {
			continue
		}
		r.Site("eff.functions")
		bad := false
		for root, site := range s.Mods {
			if root.Kind == "global" {
				// writes that reach a package-level variable through a callee (e.g. a method called on the global):
				// reported once, at the function whose call passes the global
				if _, ok := excluded[site.Fn]; ok {
					continue
				}
				if _, ok := excluded[name]; ok {
					continue
				}
				direct := false
				for _, dw := range writes[root.Name] {
					if dw.Fn == site.Fn {
						direct = true
					}
				}
				if !direct && !reportedGlobal[root.Name+"|"+site.Fn] {
					reportedGlobal[root.Name+"|"+site.Fn] = true
					bad = true
					r.Fail("glob.init-only", name, root.Name, site.Pos, "package-level variable "+root.Name+" (or memory reachable from it) is written outside init: "+site.What+" in "+site.Fn+", reached from "+name, nil)
				}
				continue
			}
			if root.Kind == "unknown" || root.Kind == "freevar" || root.Kind == "extglobal" {
				bad = true
				r.Fail("eff.no-static", name, root.String(), site.Pos, "writes memory of unknown or foreign origin ("+site.What+")", nil)
			}
		}
		for _, rt := range s.Retains {
			if rt.Dst.Kind == "global" {
				bad = true
				r.Fail("eff.no-static", name, "stores into "+rt.Dst.Name, rt.Pos, "a pointer is stored into package-level state "+rt.Dst.Name, nil)
			}
		}
		for i, rs := range s.Results {
			for root := range rs {
				if root.Kind == "global" {
					bad = true
					r.Fail("eff.no-static", name, fmt.Sprintf("result %d aliases %s", i, root.Name), f.Pos(), "a returned value shares memory with package-level variable "+root.Name, nil)
				}
			}
		}
		for k, pos := range s.Ambient {
			switch k {
			case "go statement", "channel send", "channel receive", "select":
				bad = true
				r.Fail("lang.no-conc", name, k, pos, "library code uses "+k, nil)
			}
			if strings.HasPrefix(k, "unsafe.") || strings.HasPrefix(k, "sync/atomic.") {
				bad = true
				r.Fail("lang.no-conc", name, k, pos, "library code uses "+k, nil)
			}
		}
		for c, pos := range s.Calls {
			if strings.HasPrefix(c, "(*sync.") || strings.HasPrefix(c, "sync.") {
				bad = true
				r.Fail("lang.no-conc", name, c, pos, "library code uses sync primitives; the lockset discipline of this rule (all accesses to the guarded global between Lock/Unlock of one package-level mutex) is not established for "+c, nil)
			}
		}
		if !bad {
			r.OK("eff.no-static")
		}
		// conversion helpers of nasConvert interpret their arguments: they must not write them
		if rel == "nasConvert" && f.Signature.Recv() == nil && f.Object() != nil && f.Object().Exported() {
			r.Site("eff.convert-readonly")
			clean := true
			for root, site := range s.Mods {
				if root.Kind == "param" {
					clean = false
					r.Fail("eff.convert-readonly", name, fmt.Sprintf("writes argument %d", root.Idx), site.Pos, fmt.Sprintf("conversion helper writes memory reachable from its argument %d (%s in %s): concurrent readers of the same decoded contents would race", root.Idx, site.What, site.Fn), nil)
				}
			}
			if clean {
				r.OK("eff.convert-readonly")
			}
		}
		// read-only use of a shared decoded message
		isGetter := rel == "nasType" && strings.HasPrefix(f.Name(), "Get") && f.Signature.Recv() != nil
		isEnc := rel == "nasMessage" && strings.HasPrefix(f.Name(), "Encode") && f.Signature.Recv() != nil
		// serialisers of the other packages: encoding a shared message only reads it
		if f.Signature.Recv() != nil && (rel == "nasType" || rel == "nasConvert" || rel == "uePolicyContainer") &&
			(f.Name() == "MarshalBinary" || f.Name() == "Marshal" || strings.HasPrefix(f.Name(), "Encode")) {
			isEnc = true
		}
		if isGetter || isEnc {
			nGet++
			r.Site("eff.getters-pure")
			pure := true
			for root, site := range s.Mods {
				if root.Kind == "param" && root.Idx == 0 {
					pure = false
					// one finding per distinct writer inside this function (a direct store to a
					// field, or a callee that writes what it is handed), so that a new write in a
					// function that already has a recorded one is still reported
					writers := receiverWriters(e, f)
					if len(writers) == 0 {
						writers = []recvWriter{{site.What, site.Pos}}
					}
					for _, wr := range writers {
						r.Fail("eff.getters-pure", name, wr.what, wr.pos, "a read-only operation on a decoded message writes its receiver ("+wr.what+")", nil)
					}
				}
			}
			if pure {
				r.OK("eff.getters-pure")
			}
		}
	}
	r.Expect("eff.functions", 1500)
	r.Expect("eff.getters-pure", 700)
	// unsafe imports
	for _, p := range w.Pkgs {
		if strings.HasPrefix(relPkg(p.Types), "internal") {
			continue
		}
		for _, imp := range p.Types.Imports() {
			if imp.Path() == "unsafe" {
				r.Fail("lang.no-conc", relPkg(p.Types), "import unsafe", token.NoPos, "package imports unsafe", nil)
			}
		}
	}
	r.OK("lang.no-conc")
	if len(e.Unknown) > 0 {
		sort.Strings(e.Unknown)
		r.Extra["callees_without_contract_assumed_to_write_their_arguments"] = e.Unknown
	}
	r.Extra["getters_and_encoders_checked"] = nGet
}


type recvWriter struct {
	what string
	pos  token.Pos
}

// receiverWriters lists the distinct ways in which f writes memory rooted at its receiver:
// direct stores (named by the field or element written) and calls to repository functions whose
// summary says they write the argument that carries receiver memory.
func receiverWriters(e *Effects, f *ssa.Function) []recvWriter {
	seen := map[string]bool{}
	var out []recvWriter
	add := func(what string, pos token.Pos) {
		if !seen[what] {
			seen[what] = true
			out = append(out, recvWriter{what, pos})
		}
	}
	fromRecv := func(v ssa.Value) bool {
		for root := range e.rootsOf(v, 0) {
			if root.Kind == "param" && root.Idx == 0 {
				return true
			}
		}
		return false
	}
	for _, b := range f.Blocks {
		for _, ins := range b.Instrs {
			switch x := ins.(type) {
			case *ssa.Store:
				if _, isAlloc := addrBase(x.Addr).(*ssa.Alloc); isAlloc {
					continue
				}
				if fromRecv(x.Addr) {
					add("store to "+addrText(x.Addr), x.Pos())
				}
			case ssa.CallInstruction:
				com := x.Common()
				args := e.callArgs(com)
				for _, callee := range e.callees(x) {
					cs := e.Summary(callee)
					if cs == nil {
						continue
					}
					for root := range cs.Mods {
						if root.Kind == "param" && root.Idx < len(args) && fromRecv(args[root.Idx]) {
							add("call of "+callee.Name()+" (writes its argument)", x.Pos())
						}
					}
				}
			}
		}
	}
	sort.Slice(out, func(i, j int) bool { return out[i].what < out[j].what })
	return out
}

// addrText names the field / element an address designates.
func addrText(v ssa.Value) string {
	switch x := v.(type) {
	case *ssa.FieldAddr:
		st := x.X.Type().Underlying().(*types.Pointer).Elem().Underlying().(*types.Struct)
		return addrText(x.X) + "." + st.Field(x.Field).Name()
	case *ssa.IndexAddr:
		return addrText(x.X) + "[i]"
	case *ssa.UnOp:
		return "*" + addrText(x.X)
	case *ssa.Parameter:
		return x.Name()
	}
	return "memory"
}
