package main

// C02, C03, C04, C05 — decided from E1 (codec slots), the dispatch extractor and the frozen
// TS 24.501 message table.

import (
	"fmt"
	"go/token"
	"sort"
	"strconv"
	"strings"
)

func init() {
	register("C02", withShared(propC02, true))
	register("C03", withShared(propC03, true))
	register("C04", withShared(propC04, false))
	register("C05", propC05)
}

// reportProblems turns extraction problems into findings (undecided construct = not proven).
func reportProblems(r *Report, cs *CodecSet, d *Dispatch) {
	for _, c := range cs.Codecs {
		for _, p := range c.Problems {
			r.Fail("codec.unclassified", p.Func, p.Msg, p.Pos, "construct not classified by the codec extractor — rules depending on this function are undecided: "+p.Msg, nil)
		}
		r.Fn(c.Name + ".Encode")
		r.Fn(c.Name + ".Decode")
	}
	if d != nil {
		for _, f := range d.Funcs {
			for _, p := range f.Problems {
				r.Fail("dispatch.unclassified", p.Func, p.Msg, p.Pos, p.Msg, nil)
			}
			r.Fn(f.Name)
		}
		if d.Plain != nil {
			for _, p := range d.Plain.Problems {
				r.Fail("dispatch.unclassified", p.Func, p.Msg, p.Pos, p.Msg, nil)
			}
		}
		if d.PEnc != nil {
			for _, p := range d.PEnc.Problems {
				r.Fail("dispatch.unclassified", p.Func, p.Msg, p.Pos, p.Msg, nil)
			}
		}
	}
}

// applyImages runs the wire-image rule (codec.image) for every message and takes the messages
// whose functions E1 cannot classify, but whose images are all decided and reproduced, out of the
// slot rules (their `codec.unclassified` problems are withdrawn with a note).
func applyImages(w *World, r *Report, cs *CodecSet) int {
	spec, err := loadSpecMessages()
	if err != nil {
		return 0
	}
	good := checkCodecImages(w, r, cs, spec, nil, true)
	r.Expect("codec.image", 900)
	skipped := 0
	var keep []*Codec
	for _, c := range cs.Codecs {
		if len(c.Problems) > 0 && good[c.Name] {
			c.ByImages = true
			skipped++
			r.Note("%s: %d statements outside the generator's forms (first: %s); every wire image of the message is decided by evaluation and reproduced, the slot rules of E1 are not applied to it", c.Name, len(c.Problems), c.Problems[0].Msg)
			c.Problems = nil
			continue
		}
		keep = append(keep, c)
	}
	cs.Codecs = keep
	cs.skipped = skipped
	return skipped
}

func codecVacuity(r *Report, cs *CodecSet) {
	if cs.skipped > 0 {
		r.Note("vacuity thresholds of the slot rules not applied: %d message(s) decided by wire images", cs.skipped)
		return
	}
	nslots := 0
	for _, c := range cs.Codecs {
		r.Site("codec.messages")
		if c.EncDecl != nil {
			r.Site("codec.functions")
		}
		if c.DecDecl != nil {
			r.Site("codec.functions")
		}
		nslots += len(c.DecMand)
		if c.DecLoop != nil {
			nslots += len(c.DecLoop.Cases)
		}
	}
	r.rule("codec.slots").Sites = nslots
	r.Expect("codec.messages", 45)
	r.Expect("codec.functions", 90)
	r.Expect("codec.slots", 350)
}

func itemsSig(items []WireItem) string {
	var p []string
	for _, it := range items {
		p = append(p, it.Kind+"/"+it.Ext+"/"+strconv.Itoa(it.Width))
	}
	return strings.Join(p, " ")
}

func encFn(c *Codec) string { return "nasMessage.(*" + c.Name + ").Encode" + c.Name }
func decFn(c *Codec) string { return "nasMessage.(*" + c.Name + ").Decode" + c.Name }

func (c *Codec) encSlot(ie string) *EncSlot {
	for i := range c.Enc {
		if c.Enc[i].IE == ie {
			return &c.Enc[i]
		}
	}
	return nil
}
func (c *Codec) decCase(ie string) *DecCase {
	if c.DecLoop == nil {
		return nil
	}
	for i := range c.DecLoop.Cases {
		if c.DecLoop.Cases[i].Slot.IE == ie {
			return &c.DecLoop.Cases[i]
		}
	}
	return nil
}
func (c *Codec) decMand(ie string) *DecSlot {
	for i := range c.DecMand {
		if c.DecMand[i].IE == ie {
			return &c.DecMand[i]
		}
	}
	return nil
}

// acceptedSet: the set of Len values the decoder accepts for a slot (full range if unguarded).
func acceptedSet(sl *DecSlot) (LenSet, bool) {
	lw := lenWidthOf(sl.Items)
	if lw == 0 {
		return LenSet{}, false
	}
	if sl.Guard != nil {
		return *sl.Guard, true
	}
	max := 255
	if lw == 2 {
		max = 65535
	}
	return LenSet{Iv: [][2]int{{0, max}}}, true
}

// ---------------------------------------------------------------------------------------------
// C02

func propC02(w *World, r *Report, tier string) {
	cs := ExtractCodecs(w)
	d := ExtractDispatch(w, cs)
	applyImages(w, r, cs)
	reportProblems(r, cs, d)
	codecVacuity(r, cs)
	spec, err := loadSpecMessages()
	if err != nil {
		r.Fail("spec", "-", "ts24501_messages.json", token.NoPos, err.Error(), nil)
		return
	}
	specIdx := map[string]*SpecSlot{}
	for i := range spec.Messages {
		for j := range spec.Messages[i].Slots {
			specIdx[spec.Messages[i].Name+"/"+spec.Messages[i].Slots[j].IE] = &spec.Messages[i].Slots[j]
		}
	}
	r.Explanation = "Encoder/decoder duality decided per message from the extracted slot sequences (E1): every struct field has " +
		"one encode slot and one decode slot; the wire items of the two slots agree in kind, width, extent and field path; " +
		"Buffer IEs are allocated to exactly Len octets (SetLen body analysed) and read/written whole; optional identifiers are " +
		"pairwise distinct under the decoder's evaluated identifier mapping (all 256 octets); the decoder accepts every length of the " +
		"well-formed range; decode and encode dispatch arms name the same body for the same message-type value. Holds for all lengths " +
		"and contents at once because the argument is on code shape, not on sampled messages."
	r.Assumptions = []string{
		"well-formed message (as in the property): Len == len(Buffer) for Buffer IEs, Len within the element's bounds, Iei of optional IEs = identifier of the message definition, type-1 IEs carry their identifier in the high nibble of Octet, header view = body header octets",
		"octets of a fixed array beyond Len are zero; unused Iei of mandatory IEs is zero (decoder leaves them zero)",
		"encoding/binary: Write emits exactly size(v) octets big-endian, Read consumes exactly that many or returns an error",
	}
	r.Trusted = []string{"go/types, go/parser (x/tools v0.29.0 loader)", "encoding/binary contract", "spec/ts24501_messages.json (well-formed ranges)"}
	r.Exhaustive = true
	for _, c := range cs.Codecs {
		ef, df := encFn(c), decFn(c)
		// mandatory duality, in order
		var encM []EncSlot
		for _, s := range c.Enc {
			if !s.Optional {
				encM = append(encM, s)
			}
		}
		if len(encM) != len(c.DecMand) {
			r.Fail("codec.dual.mandatory", df, "count", c.DecDecl.Pos(), fmt.Sprintf("encoder emits %d mandatory elements, decoder reads %d", len(encM), len(c.DecMand)), nil)
		}
		for i := 0; i < len(encM) && i < len(c.DecMand); i++ {
			e, dd := encM[i], c.DecMand[i]
			if e.IE != dd.IE {
				r.Fail("codec.dual.mandatory", df, dd.IE, dd.Pos, fmt.Sprintf("mandatory position %d: encoder writes %s, decoder reads %s", i, e.IE, dd.IE), nil)
				continue
			}
			if itemsSig(e.Items) != itemsSig(dd.Items) {
				r.Fail("codec.dual.mandatory", df, dd.IE, dd.Pos, fmt.Sprintf("wire items differ: encoder [%s] decoder [%s]", itemsSig(e.Items), itemsSig(dd.Items)), nil)
				continue
			}
			r.OK("codec.dual.mandatory")
			if len(r.Samples) < 3 {
				r.Sample(map[string]any{"rule": "codec.dual.mandatory", "message": c.Name, "ie": e.IE, "items": itemsSig(e.Items)})
			}
		}
		// every field covered, optional duality
		for _, f := range c.Fields {
			es := c.encSlot(f.IE)
			if es == nil {
				r.Fail("codec.dual.coverage", ef, f.IE, c.EncDecl.Pos(), "struct field "+f.IE+" is never encoded", nil)
				continue
			}
			if es.Optional != f.Optional {
				r.Fail("codec.dual.coverage", ef, f.IE, es.Pos, "presence guard does not match the field's optionality", nil)
				continue
			}
			if !f.Optional {
				if c.decMand(f.IE) == nil {
					r.Fail("codec.dual.coverage", df, f.IE, c.DecDecl.Pos(), "mandatory field "+f.IE+" is never decoded", nil)
				} else {
					r.OK("codec.dual.coverage")
				}
				checkStorageDual(r, c, f, c.decMand(f.IE), df)
				continue
			}
			dc := c.decCase(f.IE)
			if dc == nil {
				r.Fail("codec.dual.coverage", df, f.IE, c.DecDecl.Pos(), "optional field "+f.IE+" has no case in the decoder", nil)
				continue
			}
			r.OK("codec.dual.coverage")
			// items: encoder = [T] + decoder items (full octet), or encoder [V octet] vs StoreOctet (half octet)
			ds := &dc.Slot
			if ds.StoreOctet {
				if itemsSig(es.Items) != "V/octet/1" || len(ds.Items) != 0 {
					r.Fail("codec.dual.optional", df, f.IE, dc.Pos, "half-octet element: encoder ["+itemsSig(es.Items)+"] vs decoder storing the received octet plus ["+itemsSig(ds.Items)+"]", nil)
					continue
				}
			} else {
				want := "T/iei/1"
				if s := itemsSig(ds.Items); s != "" {
					want += " " + s
				}
				if itemsSig(es.Items) != want {
					r.Fail("codec.dual.optional", df, f.IE, dc.Pos, "wire items differ: encoder ["+itemsSig(es.Items)+"] decoder [identifier + "+itemsSig(ds.Items)+"]", nil)
					continue
				}
			}
			if !ds.New || !(ds.NewArgIeiN || (ds.StoreOctet && !f.Desc.HasIei)) || !f.Desc.NewOK {
				r.Fail("codec.dual.optional", df, f.IE, dc.Pos, "decoder does not allocate the element with the received identifier", nil)
				continue
			}
			r.OK("codec.dual.optional")
			if len(r.Samples) < 6 {
				r.Sample(map[string]any{"rule": "codec.dual.optional", "message": c.Name, "ie": f.IE, "encoder": itemsSig(es.Items), "decoder": "dispatch+" + itemsSig(ds.Items), "iei": dc.Consts})
			}
			checkStorageDual(r, c, f, ds, df)
			// identifier reaches its own case
			lp := c.DecLoop
			if lp.MapOK && len(dc.Consts) == 1 {
				k := int(dc.Consts[0])
				bad := ""
				if ds.StoreOctet {
					for x := 0; x < 16; x++ {
						o := (k<<4 | x) & 0xff
						if k > 15 || lp.Dispatch(o) < 0 || lp.Cases[lp.Dispatch(o)].Slot.IE != f.IE {
							bad = fmt.Sprintf("octet %#02x (identifier %X-) is not dispatched to %s", o, k, f.IE)
							break
						}
					}
				} else if k > 255 || lp.Dispatch(k) < 0 || lp.Cases[lp.Dispatch(k)].Slot.IE != f.IE {
					bad = fmt.Sprintf("identifier octet %#02x is not dispatched to %s", k, f.IE)
				}
				if bad != "" {
					r.Fail("codec.iei-distinct", df, f.IE, dc.Pos, bad, nil)
				} else {
					r.OK("codec.iei-distinct")
				}
			}
			// accepted ⊇ well-formed range
			if sp := specIdx[c.Name+"/"+f.IE]; sp != nil {
				checkSuperset(r, c, f, ds, sp, df)
			}
		}
		for _, f := range c.Fields {
			if !f.Optional {
				if sp := specIdx[c.Name+"/"+f.IE]; sp != nil && c.decMand(f.IE) != nil {
					checkSuperset(r, c, f, c.decMand(f.IE), sp, df)
				}
			}
		}
		// distinct constants
		if c.DecLoop != nil {
			seen := map[int64]string{}
			for _, dc := range c.DecLoop.Cases {
				for _, k := range dc.Consts {
					if o, dup := seen[k]; dup {
						r.Fail("codec.iei-distinct", df, dc.Slot.IE, dc.Pos, fmt.Sprintf("identifier %#x used for both %s and %s", k, o, dc.Slot.IE), nil)
					} else {
						seen[k] = dc.Slot.IE
						r.OK("codec.iei-distinct")
					}
				}
			}
			if !c.DecLoop.HasDefault {
				// harmless for round trip
			}
		}
	}
	checkDispatchDual(r, d, cs)
}

// checkStorageDual: value extents are consistent with the storage and the decoder's allocation.
func checkStorageDual(r *Report, c *Codec, f CField, ds *DecSlot, df string) {
	if ds == nil {
		return
	}
	for _, it := range ds.Items {
		switch it.Ext {
		case "buffer":
			if !ds.SetLen || !f.Desc.SetLenOK || !f.Desc.SetLenMk {
				r.Fail("codec.dual.buffer-exact", df, f.IE, it.Pos, "Buffer is read without first being allocated to exactly Len octets (SetLen: "+f.Desc.SetLenBad+")", nil)
			} else {
				r.OK("codec.dual.buffer-exact")
			}
		case "array-len":
			g, ok := acceptedSet(ds)
			if !ok || g.Max() > f.Desc.ArrayN {
				r.Fail("codec.dual.array-bound", df, f.IE, it.Pos, fmt.Sprintf("Octet[:Len] with Len up to %d exceeds the %d-octet array", g.Max(), f.Desc.ArrayN), nil)
			} else {
				r.OK("codec.dual.array-bound")
			}
		case "array-full", "octet":
			if lenWidthOf(ds.Items) > 0 {
				g, _ := acceptedSet(ds)
				if g.Min() != it.Width || g.Max() != it.Width {
					r.Fail("codec.dual.fixed-len", df, f.IE, it.Pos, fmt.Sprintf("fixed %d-octet value but the decoder accepts Len in {%s}", it.Width, g), nil)
				} else {
					r.OK("codec.dual.fixed-len")
				}
			}
		}
	}
}

func checkSuperset(r *Report, c *Codec, f CField, ds *DecSlot, sp *SpecSlot, df string) {
	g, ok := acceptedSet(ds)
	if !ok {
		return
	}
	want := sp.LenSet()
	missing := -1
	for _, iv := range want.Iv {
		for v := iv[0]; v <= iv[1]; v++ {
			if !g.Has(v) {
				missing = v
				break
			}
		}
		if missing >= 0 {
			break
		}
	}
	if missing >= 0 {
		r.Fail("codec.accept-superset", df, f.IE, ds.GuardPos, fmt.Sprintf("well-formed length %d (range %s) is rejected; decoder accepts {%s}", missing, want, g), nil)
	} else {
		r.OK("codec.accept-superset")
	}
}

func checkDispatchDual(r *Report, d *Dispatch, cs *CodecSet) {
	for _, fam := range []string{"Gmm", "Gsm"} {
		dec, enc := d.Funcs[fam+"MessageDecode"], d.Funcs[fam+"MessageEncode"]
		if dec == nil || enc == nil {
			r.Fail("dispatch.dual", "nas.(*Message)."+fam+"MessageDecode", "missing", token.NoPos, "dispatch function missing", nil)
			continue
		}
		em := map[int64]string{}
		for _, a := range enc.Arms {
			em[a.Value] = a.Body
		}
		for _, a := range dec.Arms {
			r.Site("dispatch.arms")
			if a.Body == "" || em[a.Value] != a.Body {
				r.Fail("dispatch.dual", dec.Name, fmt.Sprintf("%#02x", a.Value), a.Pos, fmt.Sprintf("message type %#02x decodes as %q but encodes as %q", a.Value, a.Body, em[a.Value]), nil)
			} else {
				r.OK("dispatch.dual")
			}
			delete(em, a.Value)
		}
		for v, b := range em {
			r.Fail("dispatch.dual", enc.Name, fmt.Sprintf("%#02x", v), enc.Decl.Pos(), fmt.Sprintf("message type %#02x (%s) is encodable but has no decode arm", v, b), nil)
		}
	}
	r.Expect("dispatch.arms", 44)
}

// ---------------------------------------------------------------------------------------------
// C03

func propC03(w *World, r *Report, tier string) {
	cs := ExtractCodecs(w)
	d := ExtractDispatch(w, cs)
	applyImages(w, r, cs)
	reportProblems(r, cs, d)
	codecVacuity(r, cs)
	r.Explanation = "Stability of re-encoding decided from code shape (E1): (1) the decoder stores the received identifier, length and value " +
		"verbatim in the fields the encoder emits (constructor, SetLen and GetLen/GetIei bodies analysed); (2) the encoder is one forward " +
		"sequence of slots in struct-field (= definition) order with no input-dependent control other than the presence test of each optional " +
		"element; (3) every decoded value is encodable: the encoder's only variable-extent slices Octet[:Len] are implied in range by the " +
		"decoder guard of the same slot; (4) the re-encoded identifier and length fall in the same decoder case and guard. From 1–4 " +
		"dec∘enc∘dec = dec and enc∘dec is idempotent; with each known element at most once in definition order, enc∘dec = id on bytes."
	r.Assumptions = []string{
		"decoding goes into a fresh Message (NewMessage()); Gmm/GsmMessageDecode replace only their own family pointer",
		"encoding/binary contract as for C02",
	}
	r.Trusted = []string{"go/types, go/parser", "encoding/binary contract"}
	r.Exhaustive = true
	for _, c := range cs.Codecs {
		ef, df := encFn(c), decFn(c)
		// (2) encoder order == struct field order
		var order []string
		for _, s := range c.Enc {
			order = append(order, s.IE)
		}
		var want []string
		for _, f := range c.Fields {
			want = append(want, f.IE)
		}
		if strings.Join(order, ",") != strings.Join(want, ",") {
			// find first difference
			k := 0
			for k < len(order) && k < len(want) && order[k] == want[k] {
				k++
			}
			got, exp := "<end>", "<end>"
			if k < len(order) {
				got = order[k]
			}
			if k < len(want) {
				exp = want[k]
			}
			r.Fail("codec.fixed-order", ef, exp, c.EncDecl.Pos(), fmt.Sprintf("encoder emits %s at position %d where the definition order has %s", got, k, exp), nil)
		} else {
			r.OK("codec.fixed-order")
		}
		// mandatory before optional
		seenOpt := false
		for _, s := range c.Enc {
			if s.Optional {
				seenOpt = true
			} else if seenOpt {
				r.Fail("codec.fixed-order", ef, s.IE, s.Pos, "mandatory element emitted after an optional one", nil)
			}
		}
		// (1) verbatim store
		for _, f := range c.Fields {
			var ds *DecSlot
			var pos token.Pos
			if f.Optional {
				dc := c.decCase(f.IE)
				if dc == nil {
					r.Fail("codec.verbatim-store", df, f.IE, c.DecDecl.Pos(), "optional element has no decoder case", nil)
					continue
				}
				ds, pos = &dc.Slot, dc.Pos
				if !ds.New || !(ds.NewArgIeiN || (ds.StoreOctet && !f.Desc.HasIei)) || !f.Desc.NewOK {
					r.Fail("codec.verbatim-store", df, f.IE, pos, "received identifier is not stored verbatim (constructor call with the received octet)", nil)
					continue
				}
				if ds.StoreOctet {
					// whole octet kept
				} else if f.Desc.Storage == "octet" && len(ds.Items) == 0 {
					r.Fail("codec.verbatim-store", df, f.IE, pos, "half-octet element does not keep the full received octet", nil)
					continue
				}
				es := c.encSlot(f.IE)
				if es != nil && !ds.StoreOctet {
					// encoder must emit the stored identifier
					if len(es.Items) == 0 || es.Items[0].Ext != "iei" || !f.Desc.GetIeiOK {
						r.Fail("codec.redecode", ef, f.IE, es.Pos, "encoder does not emit the stored identifier first", nil)
					} else {
						r.OK("codec.redecode")
					}
				}
			} else {
				ds = c.decMand(f.IE)
				if ds == nil {
					r.Fail("codec.verbatim-store", df, f.IE, c.DecDecl.Pos(), "mandatory element is not decoded", nil)
					continue
				}
				pos = ds.Pos
			}
			if lenWidthOf(ds.Items) > 0 {
				if !ds.SetLen && f.Desc.Storage == "buffer" {
					r.Fail("codec.verbatim-store", df, f.IE, pos, "Buffer element is read without SetLen", nil)
					continue
				}
				if ds.SetLen && !f.Desc.SetLenOK {
					r.Fail("codec.verbatim-store", df, f.IE, pos, "SetLen does not keep the received length: "+f.Desc.SetLenBad, nil)
					continue
				}
				if !f.Desc.GetLenOK {
					r.Fail("codec.verbatim-store", df, f.IE, pos, "GetLen does not return the stored length", nil)
					continue
				}
			}
			r.OK("codec.verbatim-store")
			if len(r.Samples) < 4 {
				r.Sample(map[string]any{"rule": "codec.verbatim-store", "message": c.Name, "ie": f.IE, "decoder_items": itemsSig(ds.Items), "constructor_stores_identifier": f.Desc.NewOK, "SetLen_keeps_len": f.Desc.SetLenOK})
			}
			// (3) encodable
			es := c.encSlot(f.IE)
			if es != nil {
				for _, it := range es.Items {
					if it.Ext == "array-len" {
						g, ok := acceptedSet(ds)
						if !ok || g.Max() > f.Desc.ArrayN {
							r.Fail("codec.encodable", ef, f.IE, it.Pos, fmt.Sprintf("encoder slices Octet[:Len] of a %d-octet array but the decoder accepts Len up to %d", f.Desc.ArrayN, g.Max()), nil)
						} else {
							r.OK("codec.encodable")
						}
					}
				}
				// duality of items (re-decode consumes exactly what was written)
				dsig := itemsSig(ds.Items)
				esig := itemsSig(es.Items)
				if f.Optional && !ds.StoreOctet {
					esig = strings.TrimPrefix(strings.TrimPrefix(esig, "T/iei/1"), " ")
				}
				if ds.StoreOctet {
					dsig = "V/octet/1"
				}
				if esig != dsig {
					r.Fail("codec.redecode", df, f.IE, pos, "re-encoded bytes ["+itemsSig(es.Items)+"] are not what the decoder consumes ["+itemsSig(ds.Items)+"]", nil)
				} else {
					r.OK("codec.redecode")
				}
			}
		}
		// encoder errors only from binary.Write: by grammar (any other statement is unclassified)
		if c.EncTail {
			r.OK("codec.encodable")
		}
		// last duplicate wins, unknown identifiers skipped without side effects
		if c.DecLoop != nil {
			if c.DecLoop.HasDefault && !c.DecLoop.DefaultNop {
				r.Fail("codec.redecode", df, "default", c.DecLoop.Pos, "default arm has side effects", nil)
			} else {
				r.OK("codec.redecode")
			}
		}
	}
	checkDispatchDual(r, d, cs)
}

// ---------------------------------------------------------------------------------------------
// C04

func propC04(w *World, r *Report, tier string) {
	cs := ExtractCodecs(w)
	applyImages(w, r, cs)
	reportProblems(r, cs, nil)
	codecVacuity(r, cs)
	spec, err := loadSpecMessages()
	if err != nil {
		r.Fail("spec", "-", "ts24501_messages.json", token.NoPos, err.Error(), nil)
		return
	}
	r.Explanation = "Each of the 90 generated functions is compared, slot by slot, with the frozen TS 24.501 message table " +
		"(spec/ts24501_messages.json: 45 messages, ordered slots with presence, format, IEI, min/max): order and V/LV/LV-E/T/TV/TLV/TLV-E " +
		"framing on encode and decode, IEI constants (evaluated), the decoder's evaluated identifier dispatch for every octet that denotes a " +
		"known element (half-octet on the high nibble), the decoder's accepted-length SET (evaluated from the guard expression, not pattern " +
		"matched) against the table range clipped to the storage, and error discipline: every read failure and every guard failure returns a " +
		"provably non-nil error. The table is cross-validated against the independently generated fixtures by a static parse."
	r.Assumptions = []string{
		"spec/ts24501_messages.json stands in for TS 24.501 8.2/8.3 (provenance recorded in the file and DESIGN.md C04)",
		"identifiers unknown to a message are outside the property's quantifier",
	}
	r.Trusted = []string{"go/types constant evaluation", "spec/ts24501_messages.json", "encoding/binary contract"}
	r.Exhaustive = true
	mt := msgTypeTable(w)
	fam := familyOf(w)
	seen := map[string]bool{}
	for _, sm := range spec.Messages {
		seen[sm.Name] = true
		c := cs.ByName[sm.Name]
		if c != nil && c.ByImages {
			continue
		}
		if c == nil {
			r.Fail("table.messages", "nasMessage."+sm.Name, "missing", token.NoPos, "message "+sm.Name+" of the table has no codec", nil)
			continue
		}
		ef, df := encFn(c), decFn(c)
		// message type / family
		if sm.Family != "envelope" && sm.Family != "" || sm.MsgType != "" {
			v, ok := mt[sm.Name]
			if sm.MsgType != "" && (!ok || fmt.Sprintf("0x%02X", v) != sm.MsgType) {
				r.Fail("table.msgtype", "nas.MsgType"+sm.Name, "value", token.NoPos, fmt.Sprintf("message type constant is %#02x, table says %s", v, sm.MsgType), nil)
			} else if fam[sm.Name] != sm.Family {
				r.Fail("table.msgtype", "nas."+sm.Name, "family", token.NoPos, fmt.Sprintf("message is in family %q, table says %q", fam[sm.Name], sm.Family), nil)
			} else {
				r.OK("table.msgtype")
			}
		}
		if c.EncDecl == nil || c.DecDecl == nil {
			continue
		}
		// order: encoder slots vs table
		var tblOrder, encOrder []string
		for _, s := range sm.Slots {
			tblOrder = append(tblOrder, s.IE)
		}
		for _, s := range c.Enc {
			encOrder = append(encOrder, s.IE)
		}
		if strings.Join(tblOrder, ",") != strings.Join(encOrder, ",") {
			k := 0
			for k < len(tblOrder) && k < len(encOrder) && tblOrder[k] == encOrder[k] {
				k++
			}
			got, exp := "<end>", "<end>"
			if k < len(encOrder) {
				got = encOrder[k]
			}
			if k < len(tblOrder) {
				exp = tblOrder[k]
			}
			r.Fail("table.order", ef, exp, c.EncDecl.Pos(), fmt.Sprintf("position %d: encoder emits %s, table has %s", k, got, exp), nil)
		} else {
			r.OK("table.order")
		}
		// decoder mandatory order
		var tblM, decM []string
		for _, s := range sm.Slots {
			if s.Presence == "M" {
				tblM = append(tblM, s.IE)
			}
		}
		for _, s := range c.DecMand {
			decM = append(decM, s.IE)
		}
		if strings.Join(tblM, ",") != strings.Join(decM, ",") {
			r.Fail("table.order", df, "mandatory", c.DecDecl.Pos(), "decoder mandatory order ["+strings.Join(decM, ",")+"] differs from table ["+strings.Join(tblM, ",")+"]", nil)
		} else {
			r.OK("table.order")
		}
		tblSet := map[string]*SpecSlot{}
		for i := range sm.Slots {
			sp := &sm.Slots[i]
			tblSet[sp.IE] = sp
			r.Site("table.slots")
			es := c.encSlot(sp.IE)
			var ds *DecSlot
			var dc *DecCase
			if sp.Presence == "M" {
				ds = c.decMand(sp.IE)
			} else if dc = c.decCase(sp.IE); dc != nil {
				ds = &dc.Slot
			}
			if es == nil || ds == nil {
				r.Fail("table.format", df, sp.IE, c.DecDecl.Pos(), "table element "+sp.IE+" is not handled by both encoder and decoder", nil)
				continue
			}
			f := c.Field(sp.IE)
			if f == nil || f.Optional != (sp.Presence == "O") {
				r.Fail("table.format", df, sp.IE, ds.Pos, "presence of "+sp.IE+" differs from the table ("+sp.Presence+")", nil)
				continue
			}
			// format
			if ef2 := encFormat(es); ef2 != sp.Format {
				r.Fail("table.format", ef, sp.IE, es.Pos, "encoder frames "+sp.IE+" as "+ef2+", table says "+sp.Format, nil)
			} else {
				r.OK("table.format")
			}
			if df2 := decFormat(ds, sp.Presence == "O"); df2 != sp.Format {
				r.Fail("table.format", df, sp.IE, ds.Pos, "decoder frames "+sp.IE+" as "+df2+", table says "+sp.Format, nil)
			} else {
				r.OK("table.format")
			}
			// IEI
			if sp.Presence == "O" {
				want, perr := strconv.ParseInt(strings.TrimSuffix(strings.TrimPrefix(sp.IEI, "0x"), "-"), 16, 64)
				if perr != nil || len(dc.Consts) != 1 || dc.Consts[0] != want {
					r.Fail("table.iei", df, sp.IE, dc.Pos, fmt.Sprintf("identifier constant %v, table says %s", dc.Consts, sp.IEI), nil)
				} else {
					r.OK("table.iei")
				}
				// dispatch of every octet that denotes this element
				if c.DecLoop.MapOK && perr == nil {
					var octets []int
					if sp.Format == "TV1" {
						for x := 0; x < 16; x++ {
							octets = append(octets, int(want)<<4|x)
						}
					} else {
						octets = []int{int(want)}
					}
					bad := ""
					for _, o := range octets {
						k := -1
						if o >= 0 && o < 256 {
							k = c.DecLoop.Dispatch(o)
						}
						if k < 0 || c.DecLoop.Cases[k].Slot.IE != sp.IE {
							bad = fmt.Sprintf("octet %#02x denotes %s in the table but is dispatched elsewhere", o, sp.IE)
							break
						}
					}
					if bad != "" {
						r.Fail("table.iei-dispatch", df, sp.IE, dc.Pos, bad, nil)
					} else {
						r.OK("table.iei-dispatch")
					}
					// half-octet dispatch exactly for octets >= 0x80
					if sp.Format == "TV1" && want < 8 {
						r.Fail("table.iei-dispatch", df, sp.IE, dc.Pos, "half-octet identifier below 8 cannot be distinguished from full-octet identifiers", nil)
					}
				}
			}
			// length bounds: accepted set == table range clipped to storage
			if g, ok := acceptedSet(ds); ok {
				want := sp.LenSet()
				if !g.Equal(want) {
					msg := fmt.Sprintf("decoder accepts Len in {%s}, table says {%s}", g, want)
					if g.Max() > want.Max() {
						msg += fmt.Sprintf(" — over-long %s (Len %d..%d) is not rejected", sp.IE, want.Max()+1, g.Max())
					}
					r.Fail("table.len-bounds", df, sp.IE, firstPos(ds.GuardPos, ds.Pos), msg, map[string]any{"accepted": g.String(), "table": want.String()})
				} else {
					r.OK("table.len-bounds")
					if len(r.Samples) < 5 {
						r.Sample(map[string]any{"rule": "table.len-bounds", "message": c.Name, "ie": sp.IE, "accepted": g.String(), "table": want.String(), "format": sp.Format, "iei": sp.IEI})
					}
				}
				// guard must sit between the length read and the value read
				if ds.Guard != nil {
					okOrder := false
					seenL := false
					for _, it := range ds.Items {
						if it.Kind == "L" && it.Pos < ds.GuardPos {
							seenL = true
						}
						if it.Kind == "V" && it.Pos > ds.GuardPos && seenL {
							okOrder = true
						}
					}
					if !okOrder {
						r.Fail("table.len-bounds", df, sp.IE+"/order", ds.GuardPos, "length guard is not placed between the length read and the value read", nil)
					}
				}
			} else {
				// fixed-size value: width must match the table
				wd := valueWidth(ds.Items)
				if sp.Format == "TV1" {
					wd = 0
				}
				if wd != sp.Min || wd != sp.Max {
					r.Fail("table.len-bounds", df, sp.IE, ds.Pos, fmt.Sprintf("fixed value of %d octets, table says %d..%d", wd, sp.Min, sp.Max), nil)
				} else {
					r.OK("table.len-bounds")
				}
			}
			// last duplicate wins: every occurrence starts from a freshly constructed element
			if sp.Presence == "O" {
				if !ds.New || !f.Desc.NewOK {
					r.Fail("table.last-duplicate-wins", df, sp.IE, ds.Pos, "the case for "+sp.IE+" does not start from a freshly constructed element: a repeated element is decoded into the state left by the earlier occurrence", nil)
				} else {
					r.OK("table.last-duplicate-wins")
				}
			}
			// value extent vs storage
			checkStorageDual(r, c, *f, ds, df)
			// error discipline
			if !ds.ErrOK {
				r.Fail("err.propagate", df, sp.IE, ds.Pos, "a read failure or length violation of "+sp.IE+" does not return a non-nil error: "+strings.Join(ds.ErrBad, "; "), nil)
			} else {
				r.OK("err.propagate")
			}
			if !es.ErrOK {
				r.Fail("err.propagate", ef, sp.IE, es.Pos, "a write failure of "+sp.IE+" does not return a non-nil error", nil)
			} else {
				r.OK("err.propagate")
			}
		}
		// no extra elements in code
		for _, fld := range c.Fields {
			if tblSet[fld.IE] == nil {
				r.Fail("table.order", df, fld.IE, c.DecDecl.Pos(), "element "+fld.IE+" is not in the table of "+c.Name, nil)
			}
		}
		if c.DecLoop != nil {
			for _, dc := range c.DecLoop.Cases {
				if tblSet[dc.Slot.IE] == nil || tblSet[dc.Slot.IE].Presence != "O" {
					r.Fail("table.iei", df, dc.Slot.IE, dc.Pos, "decoder case for an element that is not optional in the table", nil)
				}
			}
			if c.DecLoop.CondOK && c.DecLoop.FirstRead {
				r.OK("err.propagate")
			}
		}
	}
	for _, c := range cs.Codecs {
		if !seen[c.Name] {
			r.Fail("table.messages", "nasMessage."+c.Name, "extra", token.NoPos, "codec "+c.Name+" is not in the table", nil)
		}
	}
	if cs.skipped == 0 {
		r.Expect("table.slots", 350)
	}
	// fixture cross-validation of the frozen table (static parse; informational unless the table itself disagrees)
	if fx, err := readFixtures(); err == nil {
		agree, dis := crossValidateFixtures(spec.Messages, fx)
		r.Extra["fixture_cross_validation"] = map[string]any{"fixture_elements": len(fx), "agreeing_values": agree, "disagreements": dis}
		r.Note("frozen table vs fixtures (nas_generated_test.go): %d values agree, %d disagree", agree, len(dis))
	} else {
		r.Note("fixtures not readable: %v", err)
	}
}

func firstPos(a, b token.Pos) token.Pos {
	if a.IsValid() {
		return a
	}
	return b
}

// ---------------------------------------------------------------------------------------------
// C05

func propC05(w *World, r *Report, tier string) {
	cs := ExtractCodecs(w)
	d := ExtractDispatch(w, cs)
	for _, f := range d.Funcs {
		for _, p := range f.Problems {
			r.Fail("dispatch.unclassified", p.Func, p.Msg, p.Pos, p.Msg, nil)
		}
		r.Fn(f.Name)
	}
	spec, err := loadSpecMessages()
	if err != nil {
		r.Fail("spec", "-", "ts24501_messages.json", token.NoPos, err.Error(), nil)
		return
	}
	r.Explanation = "Dispatch decided from the switch structure of PlainNasDecode, Gmm/GsmMessageDecode and Gmm/GsmMessageEncode: a Go switch " +
		"over constants with a default arm is a total function on the octet, so comparing the evaluated case-value→body map with the frozen " +
		"message-type table decides all 256 values per family; every arm stores exactly one freshly constructed body — the one whose codec it " +
		"then calls on the same input — and the default arm and every guard return a provably non-nil error. Header view = body header follows " +
		"because header and body are read from offset 0 of the same slice and the body's leading slots up to the message-type octet are " +
		"single-octet V slots (from E1)."
	r.Assumptions = []string{
		"decoding goes into a fresh Message; 'exactly one body' is decided per family struct (each decode call allocates a fresh family struct)",
		"'a message with no body' = neither family pointer set (what PlainNasEncode guards); a family struct whose body pointer is nil is outside the stated guard",
	}
	r.Trusted = []string{"go/types constant evaluation", "spec/ts24501_messages.json message-type values (TS 24.501 Table 9.7.1/9.7.2, Appendix A of DESIGN.md)"}
	r.Exhaustive = true
	{
		var how []string
		for n, h := range d.Semantic {
			how = append(how, n+": "+h)
		}
		sort.Strings(how)
		r.Sample(map[string]any{"rule": "dispatch.decided-by", "functions": how})
	}
	// PlainNasDecode
	pd := d.Plain
	pn := "nas.(*Message).PlainNasDecode"
	if pd == nil {
		r.Fail("anchor", pn, "missing", token.NoPos, "PlainNasDecode not found", nil)
	} else {
		r.Fn(pn)
		for _, p := range pd.Problems {
			r.Fail("dispatch.unclassified", p.Func, p.Msg, p.Pos, p.Msg, nil)
		}
		chk := func(ok bool, construct, msg string) {
			if ok {
				r.OK("dispatch.epd")
			} else {
				r.Fail("dispatch.epd", pn, construct, token.NoPos, msg, nil)
			}
		}
		chk(pd.NilGuard, "nil-guard", "nil input is not rejected with an error before use")
		chk(pd.EmptyGuard, "empty-guard", "empty input is not rejected with an error before the first octet is read")
		chk(pd.GuardsDominate, "guards-dominate", "the nil/empty guards do not precede the first use of the input")
		chk(pd.EPDFromFirstOctet, "first-octet", "the discriminator is not taken from octet 0 of the input")
		want := map[int64]string{0x7E: "GmmMessageDecode", 0x2E: "GsmMessageDecode"}
		okMap := len(pd.Arms) == len(want)
		for v, c := range want {
			if pd.Arms[v] != c {
				okMap = false
			}
		}
		var got []string
		for v, c := range pd.Arms {
			got = append(got, fmt.Sprintf("%#02x→%s", v, c))
		}
		sort.Strings(got)
		chk(okMap, "epd-map", "discriminator map is {"+strings.Join(got, ", ")+"}, want {0x2e→GsmMessageDecode, 0x7e→GmmMessageDecode}")
		chk(pd.ArmsArgOK, "same-input", "a family decoder is not given the same input")
		chk(pd.TailErr, "other-epd-error", "a discriminator other than 0x7E/0x2E does not reach a non-nil error return")
		r.Sample(map[string]any{"rule": "dispatch.epd", "map": got, "nil_guard": pd.NilGuard, "empty_guard": pd.EmptyGuard})
	}
	// PlainNasEncode
	pe := d.PEnc
	en := "nas.(*Message).PlainNasEncode"
	if pe == nil {
		r.Fail("anchor", en, "missing", token.NoPos, "PlainNasEncode not found", nil)
	} else {
		r.Fn(en)
		for _, p := range pe.Problems {
			r.Fail("dispatch.unclassified", p.Func, p.Msg, p.Pos, p.Msg, nil)
		}
		if strings.Join(pe.Branches, ",") != "GmmMessage,GsmMessage" && strings.Join(pe.Branches, ",") != "GsmMessage,GmmMessage" {
			r.Fail("dispatch.encode", en, "families", token.NoPos, "PlainNasEncode does not test both family pointers: "+strings.Join(pe.Branches, ","), nil)
		} else {
			r.OK("dispatch.encode")
		}
		if !pe.CallOK {
			r.Fail("dispatch.encode", en, "family-call", token.NoPos, "a family branch does not return the matching family encoder's result", nil)
		} else {
			r.OK("dispatch.encode")
		}
		if !pe.TailErr {
			r.Fail("dispatch.encode", en, "no-body-error", token.NoPos, "a message with no body does not produce a non-nil error", nil)
		} else {
			r.OK("dispatch.encode")
		}
	}
	// family functions
	wantMap := map[string]map[int64]string{"gmm": {}, "gsm": {}}
	for _, m := range spec.Messages {
		if m.MsgType == "" || wantMap[m.Family] == nil {
			continue
		}
		v, _ := strconv.ParseInt(strings.TrimPrefix(m.MsgType, "0x"), 16, 64)
		wantMap[m.Family][v] = m.Name
	}
	for _, fam := range []string{"Gmm", "Gsm"} {
		for _, dir := range []string{"Decode", "Encode"} {
			f := d.Funcs[fam+"Message"+dir]
			name := "nas.(*Message)." + fam + "Message" + dir
			if f == nil {
				r.Fail("anchor", name, "missing", token.NoPos, "dispatch function not found", nil)
				continue
			}
			want := wantMap[strings.ToLower(fam)]
			got := map[int64]string{}
			for _, a := range f.Arms {
				r.Site("dispatch.arms")
				if _, dup := got[a.Value]; dup {
					r.Fail("dispatch.caseset", name, fmt.Sprintf("%#02x", a.Value), a.Pos, "duplicate case value", nil)
				}
				got[a.Value] = a.Body
				key := fmt.Sprintf("%#02x", a.Value)
				if want[a.Value] == "" {
					r.Fail("dispatch.caseset", name, key, a.Pos, fmt.Sprintf("message type %s is not in the %s table", key, fam), nil)
				} else if a.Body != want[a.Value] {
					r.Fail("dispatch.caseset", name, key, a.Pos, fmt.Sprintf("message type %s dispatches to %q, table says %s", key, a.Body, want[a.Value]), map[string]any{"problems": a.Bad})
				} else {
					r.OK("dispatch.caseset")
				}
				if dir == "Decode" {
					if !a.StoreOK || !a.CallOK {
						r.Fail("dispatch.one-body", name, key, a.Pos, "arm does not populate exactly the body named by its message type and decode it from the same input: "+strings.Join(a.Bad, "; "), nil)
					} else {
						r.OK("dispatch.one-body")
					}
				} else if !a.CallOK || len(a.Bad) > 0 {
					r.Fail("dispatch.encode", name, key, a.Pos, "arm does not encode the body named by its message type: "+strings.Join(a.Bad, "; "), nil)
				} else {
					r.OK("dispatch.encode")
				}
			}
			for v, n := range want {
				if _, ok := got[v]; !ok {
					r.Fail("dispatch.caseset", name, fmt.Sprintf("%#02x", v), f.Decl.Pos(), fmt.Sprintf("message type %#02x (%s) has no arm", v, n), nil)
				}
			}
			if !f.DefaultErr {
				r.Fail("dispatch.default-error", name, "default", f.Decl.Pos(), "unknown message types do not reach a provably non-nil error return", nil)
			} else {
				r.OK("dispatch.default-error")
			}
			if !f.TagOK {
				r.Fail("dispatch.header-view", name, "tag", f.Decl.Pos(), "the switch is not on the header's message-type octet", nil)
			} else {
				r.OK("dispatch.header-view")
			}
			if dir == "Decode" {
				if !f.InitOK {
					r.Fail("dispatch.header-read", name, "prologue", f.Decl.Pos(), "header is not read from offset 0 of the input with error propagation into a fresh family struct", nil)
				} else {
					r.OK("dispatch.header-read")
				}
				// header view == body header: body slots 0..HeaderIdx are single-octet V; header length == HeaderIdx+1
				for _, a := range f.Arms {
					c := cs.ByName[a.Body]
					if c == nil {
						continue
					}
					ok := f.HeaderIdx >= 0 && f.HeaderLen == f.HeaderIdx+1 && len(c.DecMand) > f.HeaderIdx
					if len(c.Problems) > 0 && f.HeaderIdx >= 0 && f.HeaderLen == f.HeaderIdx+1 {
						// a decoder E1 cannot read (written by hand in another style): the wire images of the
						// message begin with the header octets and are reproduced octet for octet, for all
						// values - so the body's leading octets are the header's
						if good := checkCodecImages(w, NewReport("C05", w), cs, spec, map[string]bool{a.Body: true}, true); good[a.Body] {
							r.OK("dispatch.header-view")
							r.Note("dispatch.header-view / %s: decided by the wire images of the message (its decoder is not in the generator's style)", a.Body)
							continue
						}
					}
					if ok {
						for k := 0; k <= f.HeaderIdx; k++ {
							if itemsSig(c.DecMand[k].Items) != "V/octet/1" {
								ok = false
							}
						}
					}
					if !ok {
						r.Fail("dispatch.header-view", name, a.Body, a.Pos, fmt.Sprintf("the first %d octets of %s are not %d single-octet header elements, so the header view can differ from the body's header", f.HeaderIdx+1, a.Body, f.HeaderIdx+1), nil)
					} else {
						r.OK("dispatch.header-view")
					}
				}
			}
			if len(r.Samples) < 8 && len(f.Arms) > 0 {
				a := f.Arms[0]
				r.Sample(map[string]any{"rule": "dispatch.caseset", "func": name, "value": fmt.Sprintf("%#02x", a.Value), "const": a.ConstName, "body": a.Body, "arms": len(f.Arms), "header_type_index": f.HeaderIdx})
			}
		}
	}
	r.Expect("dispatch.arms", 88)
}


// dispatchRules: the message-level rules of C05 that every codec property depends on - a message is
// encoded and decoded through PlainNasEncode/Decode and the family functions, so the discriminator
// and message-type routing, the header read, "exactly one body, freshly allocated on every decode
// (nothing of an earlier decode into the same Message survives)" and the symmetric encode dispatch
// are necessary conditions of the round trip (C02), of re-encoding stability (C03) and of the wire
// format (C04), and are reported under each.
var dispatchRules = []string{"dispatch.epd", "dispatch.caseset", "dispatch.header-read", "dispatch.header-view", "dispatch.one-body", "dispatch.encode", "dispatch.default-error", "dispatch.unclassified"}

// withShared wraps a codec property: its own rules first, then the shared ones.  ownMemory adds
// C10's alias.none ("the decoded message shares no memory with the input"): a message that aliases
// the caller's receive buffer equals the original only until that buffer is reused, so the equalities
// C02 and C03 state do not survive the next received frame.
func withShared(f PropFunc, ownMemory bool) PropFunc {
	return func(w *World, r *Report, tier string) {
		f(w, r, tier)
		importRules(w, r, "C05", tier, dispatchRules, "message-level dispatch and fresh bodies are necessary for every codec property")
		if ownMemory {
			importRules(w, r, "C10", tier, []string{"alias.none"}, "a decoded message that aliases the input stays equal to the original only until the input buffer is reused")
		}
	}
}
