package main

func init() {
	addMutants(
		Mutant{Name: "c12-amfid-regression", Prop: "C12", File: "nasConvert/AmfId.go", Old: "uint8(amfSetId&0x03)<<6 + amfPointer&0x3f", New: "uint8(amfSetId&0x03) + amfPointer&0x3f",
			Expect: "lay.amfid / nasConvert.AmfIdToModels", Why: "the repaired AMF identifier defect returns"},
		Mutant{Name: "c12-amfid-split", Prop: "C12", File: "nasConvert/AmfId.go", Old: "amfPointer = amfIdBytes[2] & 0x3f", New: "amfPointer = amfIdBytes[2] & 0x1f",
			Expect: "lay.amfid / nasConvert.AmfIdToNasWithError / pointer", Why: "pointer loses its top bit"},
		Mutant{Name: "c12-plmn-swap-mcc", Prop: "C12", File: "nasConvert/PlmnId.go", Old: "uint8((mccDigit2 << 4) | mccDigit1),", New: "uint8((mccDigit1 << 4) | mccDigit2),",
			Expect: "lay.plmn / nasConvert.PlmnIDToNas / octet 1", Why: "MCC digits 1 and 2 swapped"},
		Mutant{Name: "c12-plmn-filler", Prop: "C12", File: "nasConvert/PlmnId.go", Old: "\tmncDigit3 = 0x0f\n", New: "\tmncDigit3 = 0x00\n",
			Expect: "lay.plmn / nasConvert.PlmnIDToNas / octet 2 bits 8-5, 2-digit MNC", Why: "filler nibble 0 instead of 1111 for a 2-digit MNC"},
		Mutant{Name: "c12-plmn-text-order", Prop: "C12", File: "nasConvert/PlmnId.go", Old: "tmpBytes := []byte{(mccDigit1 << 4) | mccDigit2, (mccDigit3 << 4) | mncDigit1, (mncDigit2 << 4) | mncDigit3}", New: "tmpBytes := []byte{(mccDigit1 << 4) | mccDigit2, (mccDigit3 << 4) | mncDigit2, (mncDigit1 << 4) | mncDigit3}",
			Expect: "lay.plmn.text / nasConvert.PlmnIDToString", Why: "MNC digits rendered in the wrong order"},
		Mutant{Name: "c12-guti-tmsi-offset", Prop: "C12", File: "nasConvert/MobileIdentity5GS.go", Old: "copy(gutiNas.Octet[7:11], tmsiBytes[:])", New: "copy(gutiNas.Octet[6:10], tmsiBytes[:])",
			Expect: "lay.guti-offsets / nasConvert.GutiToNasWithError", Why: "TMSI written one octet early (over the AMF pointer octet)"},
		Mutant{Name: "c12-error-swallowed", Prop: "C12", File: "nasConvert/AmfId.go", Old: "\t\treturn 0, 0, 0, fmt.Errorf(\"amfId decode failed: %w\", err)", New: "\t\treturn 0, 0, 0, nil",
			Expect: "err.propagate.convert / nasConvert.AmfIdToNasWithError", Why: "invalid hex text accepted silently"},
		// text rules (props_ident_text.go)
		Mutant{Name: "c12-pei-even-kept", Prop: "C12", File: "nasConvert/MobileIdentity5GS.go", Old: "\tif oddIndication == 0 { // even digits", New: "\tif oddIndication == 0 && len(buf) > 8 { // even digits",
			Expect: "text.pei / nasConvert.PeiToStringWithError", Why: "the filler of an even digit count survives in identities of up to 8 octets"},
		Mutant{Name: "c12-pei-nibble-order", Prop: "C12", File: "nasType/NAS_MobileIdentity5GS.go", Old: "\t\ttmpBytes[len(tmpBytes)-1] += digitP\n\t\ttmpBytes = append(tmpBytes, digitP1)", New: "\t\ttmpBytes[len(tmpBytes)-1] += digitP1 >> 4\n\t\ttmpBytes = append(tmpBytes, digitP<<4)",
			Expect: "text.pei / nasType.(*MobileIdentity5GS).GetIME", Why: "digits p and p+1 of every octet swapped in the IMEI text"},
		Mutant{Name: "c12-suci-routing-trim", Prop: "C12", File: "nasConvert/MobileIdentity5GS.go", Old: "\t\troutingInd = routingInd[0:idx]", New: "\t\troutingInd = routingInd[0 : idx&^1]",
			Expect: "text.suci / nasConvert.SuciToStringWithError", Why: "routing indicators of 1 or 3 digits lose their last digit"},
		Mutant{Name: "c12-suci-msin-start", Prop: "C12", File: "nasType/NAS_MobileIdentity5GS.go", Old: "for i := 8; i < len(a.Buffer); i++ {", New: "for i := 9; i < len(a.Buffer); i++ {",
			Expect: "text.suci / nasType.(*MobileIdentity5GS).GetSUCI", Why: "first two MSIN digits dropped"},
		Mutant{Name: "c12-suci-keyid-hex", Prop: "C12", File: "nasConvert/MobileIdentity5GS.go", Old: "homeNetworkPublicKeyIdentifier = fmt.Sprintf(\"%d\", buf[7])", New: "homeNetworkPublicKeyIdentifier = fmt.Sprintf(\"%x\", buf[7])",
			Expect: "text.suci / nasConvert.SuciToStringWithError", Why: "key identifier rendered in hexadecimal (differs from 10 on)"},
		Mutant{Name: "c12-stmsi-offset", Prop: "C12", File: "nasType/NAS_MobileIdentity5GS.go", Old: "tmsi5G := a.Buffer[3:7]", New: "tmsi5G := a.Buffer[2:6]",
			Expect: "text.tmsi / nasType.(*MobileIdentity5GS).Get5G", Why: "5G-TMSI of a 5G-S-TMSI read one octet early"},
		Mutant{Name: "c12-amfset-decimal-bits", Prop: "C12", File: "nasType/NAS_MobileIdentity5GS.go", Old: "uint16(a.Buffer[amfSetStartPoint])<<2 + uint16((a.Buffer[amfSetStartPoint+1])&GetBitMask(8, 2))>>6", New: "uint16(a.Buffer[amfSetStartPoint])<<2 + uint16((a.Buffer[amfSetStartPoint+1])&GetBitMask(8, 2))>>7",
			Expect: "text.amf-decimal / nasType.(*MobileIdentity5GS).GetAmfSetID", Why: "lowest AMF set ID bit lost"},
		Mutant{Name: "c12-guti-text-tmsi-short", Prop: "C12", File: "nasConvert/MobileIdentity5GS.go", Old: "tmsi5G := hex.EncodeToString(buf[7:])", New: "tmsi5G := hex.EncodeToString(buf[7:10]) + \"00\"",
			Expect: "guti", Why: "last 5G-TMSI octet not rendered"},
		Mutant{Name: "c12-keep-suci-trimright", Prop: "C12", File: "nasType/NAS_MobileIdentity5GS.go", Old: "schemeOutput = schemeOutput[:len(schemeOutput)-1]", New: "schemeOutput = strings.TrimRight(schemeOutput, \"f\")", Keep: true, Why: "MSIN digits are decimal: only the trailing filler is trimmed"},
		Mutant{Name: "c12-keep-plmn-or-plus", Prop: "C12", File: "nasConvert/PlmnId.go", Old: "uint8((mccDigit2 << 4) | mccDigit1),", New: "uint8(mccDigit2<<4 + mccDigit1),", Keep: true, Why: "disjoint add equals or"},
	)
}
