package main

func init() {
	addMutants(
		Mutant{Name: "c12-amfid-regression", Prop: "C12", File: "nasConvert/AmfId.go", Old: "uint8(amfSetId&0x03)<<6 + amfPointer&0x3f", New: "uint8(amfSetId&0x03) + amfPointer&0x3f",
			Expect: "lay.amfid / nasConvert.AmfIdToModels", Why: "the repaired AMF identifier defect returns"},
		Mutant{Name: "c12-amfid-split", Prop: "C12", File: "nasConvert/AmfId.go", Old: "amfPointer = amfIdBytes[2] & 0x3f", New: "amfPointer = amfIdBytes[2] & 0x1f",
			Expect: "lay.amfid / nasConvert.AmfIdToNasWithError / pointer", Why: "pointer loses its top bit"},
		Mutant{Name: "c12-plmn-swap-mcc", Prop: "C12", File: "nasConvert/PlmnId.go", Old: "uint8((mccDigit2 << 4) | mccDigit1),", New: "uint8((mccDigit1 << 4) | mccDigit2),",
			Expect: "lay.plmn / nasConvert.PlmnIDToNas / octet 1", Why: "MCC digits 1 and 2 swapped"},
		Mutant{Name: "c12-plmn-filler", Prop: "C12", File: "nasConvert/PlmnId.go", Old: "\tmncDigit3 = 0x0f\n", New: "\tmncDigit3 = 0x00\n",
			Expect: "lay.plmn / nasConvert.PlmnIDToNas / octet 2 bits 8-5, 2-digit MNC", Why: "filler nibble 0 instead of 1111 for a 2-digit MNC"},
		Mutant{Name: "c12-plmn-text-order", Prop: "C12", File: "nasConvert/PlmnId.go", Old: "tmpBytes := []byte{(mccDigit1 << 4) | mccDigit2, (mccDigit3 << 4) | mncDigit1, (mncDigit2 << 4) | mncDigit3}", New: "tmpBytes := []byte{(mccDigit1 << 4) | mccDigit2, (mccDigit3 << 4) | mncDigit2, (mncDigit1 << 4) | mncDigit3}",
			Expect: "lay.plmn.text / nasConvert.PlmnIDToString", Why: "MNC digits rendered in the wrong order"},
		Mutant{Name: "c12-guti-tmsi-offset", Prop: "C12", File: "nasConvert/MobileIdentity5GS.go", Old: "copy(gutiNas.Octet[7:11], tmsiBytes[:])", New: "copy(gutiNas.Octet[6:10], tmsiBytes[:])",
			Expect: "lay.guti-offsets / nasConvert.GutiToNasWithError", Why: "TMSI written one octet early (over the AMF pointer octet)"},
		Mutant{Name: "c12-error-swallowed", Prop: "C12", File: "nasConvert/AmfId.go", Old: "\t\treturn 0, 0, 0, fmt.Errorf(\"amfId decode failed: %w\", err)", New: "\t\treturn 0, 0, 0, nil",
			Expect: "err.propagate.convert / nasConvert.AmfIdToNasWithError", Why: "invalid hex text accepted silently"},
		Mutant{Name: "c12-keep-plmn-or-plus", Prop: "C12", File: "nasConvert/PlmnId.go", Old: "uint8((mccDigit2 << 4) | mccDigit1),", New: "uint8(mccDigit2<<4 + mccDigit1),", Keep: true, Why: "disjoint add equals or"},
	)
}
