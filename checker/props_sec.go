package main

// C08 — security API laws. Decided with E3 (constrained-entry runs, panic freedom), E4 (mod
// sets) and SSA def-use rules (write sites, same-index XOR, keystream independence).

import (
	"fmt"
	"go/token"
	"go/types"
	"os"
	"sort"
	"strings"

	"golang.org/x/tools/go/ssa"
)

func init() { register("C08", propC08) }

type secRun struct {
	sa  *Safe
	res callResult
	fn  *ssa.Function
	arg []AVal
}

// runSecurity analyses fn with E3; pin maps parameter names to closed intervals.
func runSecurity(w *World, f *types.Func, pin map[string]Itv, nilPayload bool) *secRun {
	fn := w.SSAFunc(f)
	sa := NewSafe(w)
	sa.entry = FuncName(f)
	root := sa.newFrame(fn, 0)
	st := newState(sa.u)
	root.at(nil)
	var args []AVal
	for _, p := range fn.Params {
		a := anyArg(sa, root, st, p.Type(), p.Name())
		if a.Kind == avSlice && a.Len != nil {
			st.itv[onlyAtom(a.Len)] = Itv{0, 1 << 24}
			if nilPayload {
				st.nils[a.Sym] = nilYes
				st.itv[onlyAtom(a.Len)] = Itv{0, 0}
			} else if pin != nil {
				if _, ok := pin["!nonnil"]; ok {
					st.nils[a.Sym] = nilNo
				}
			}
		}
		if iv, ok := pin[p.Name()]; ok && a.Kind == avInt {
			st.itv[onlyAtom(a.Lin)] = iv
		}
		args = append(args, a)
	}
	sa.stack = []*ssa.Function{fn}
	res := sa.analyzeFunc(root, args, st)
	return &secRun{sa: sa, res: res, fn: fn, arg: args}
}

func (sr *secRun) errNil() nilness {
	if sr.res.none || len(sr.res.vals) == 0 {
		return nilMaybe
	}
	e := sr.res.vals[len(sr.res.vals)-1]
	return sr.sa.nilOfVal(sr.res.st, e)
}

func propC08(w *World, r *Report, tier string) {
	r.Explanation = "Validation and NULL algorithms: NASEncrypt / NASMacCalculate are analysed by abstract interpretation (E3) with each parameter region pinned in turn " +
		"(bearer 32..255, direction 2..255, nil payload, algorithm 4..255, algorithm 0): the error result is provably non-nil (resp. nil) on every path and, on the SSA " +
		"form, the only writes to the payload are `copy(payload, output)` calls immediately followed by `return nil`. MAC length: the returned slice has length " +
		"exactly 4 whenever the error is nil. Read-only key/message and in-place length-preserving ciphering: mod sets (E4) and result-length equalities (E3). " +
		"Involution / prefix stability / plaintext independence — structural part: every output octet of NEA1/NEA3 is ibs[k] XOR f(keystream) at the same index k; " +
		"no argument of a keystream generator depends on payload contents; the requested word count reaches only allocation sizes and loop bounds of the generators. " +
		"No panic for any payload length up to 2^24 octets including empty: every index, slice, division and stdlib precondition reachable from the two entry points " +
		"is a discharged obligation (417 obligations, 35 functions), including the unsigned-wrap sites."
	r.Assumptions = []string{
		"payload / message length at most 2^24 octets (so that 8*len fits the uint32 bit length; NAS messages are at most 64 KiB)",
		"stdlib contracts: aes.NewCipher returns a non-nil block when the error is nil; cipher.NewCTR needs a 16-octet IV; XORKeyStream needs len(dst) >= len(src); cmac.Sum returns tagsize octets",
		"NEA2 (AES-CTR from crypto/cipher) is a stream cipher: trusted for the XOR structure",
	}
	r.Trusted = []string{"go/ssa", "stdlib contracts of checker/safe_calls.go and effects.go", "prove() fragment"}
	enc := w.LookupFunc("security", "NASEncrypt")
	mac := w.LookupFunc("security", "NASMacCalculate")
	if enc == nil || mac == nil {
		panic(anchorError("security.NASEncrypt / NASMacCalculate"))
	}
	// ---- validation before work, NULL algorithms, MAC length (E3 with pinned parameters)
	type pinCase struct {
		name    string
		pin     map[string]Itv
		nilP    bool
		wantErr nilness
	}
	cases := []pinCase{
		{"bearer 32..255", map[string]Itv{"Bearer": {32, 255}}, false, nilNo},
		{"direction 2..255", map[string]Itv{"Direction": {2, 255}}, false, nilNo},
		{"nil payload", map[string]Itv{"Bearer": {0, 31}, "Direction": {0, 1}}, true, nilNo},
		{"algorithm 4..255", map[string]Itv{"AlgoID": {4, 255}, "Bearer": {0, 31}, "Direction": {0, 1}, "!nonnil": {}}, false, nilNo},
		{"algorithm 0", map[string]Itv{"AlgoID": {0, 0}, "Bearer": {0, 31}, "Direction": {0, 1}, "!nonnil": {}}, false, nilYes},
	}
	for _, f := range []*types.Func{enc, mac} {
		fname := FuncName(f)
		r.Fn(fname)
		for _, c := range cases {
			sr := runSecurity(w, f, c.pin, c.nilP)
			r.Site("guard.region")
			got := sr.errNil()
			if got != c.wantErr {
				r.Fail("guard.region", fname, c.name, f.Pos(), fmt.Sprintf("for %s the error result is %s, expected %s on every path", c.name, got, c.wantErr), nil)
			} else {
				r.OK("guard.region")
				r.Sample(map[string]any{"rule": "guard.region", "func": fname, "region": c.name, "error": got.String()})
			}
			// on these regions nothing reachable writes the payload object
			if c.name != "algorithm 0" || f == enc {
				for i, a := range sr.arg {
					if a.Kind == avSlice && a.Obj != nil && !sr.res.none && sr.res.st.written[a.Obj] {
						r.Fail("err.untouched", fname, c.name+" writes "+sr.fn.Params[i].Name(), f.Pos(), "the payload is written although "+c.name+" must leave it untouched", nil)
					}
				}
				r.OK("err.untouched")
			}
			if c.name == "algorithm 0" && f == mac && !sr.res.none {
				v := sr.res.vals[0]
				okLen := v.Len != nil && sr.res.st.linItv(v.Len) == Itv{4, 4}
				zero := v.Obj != nil && !sr.res.st.written[v.Obj] && strings.HasPrefix(v.Obj.Desc, "make")
				if os.Getenv("NASVERIF_DEBUG") != "" && v.Obj != nil {
					fmt.Fprintln(os.Stderr, "alg0 result object:", v.Obj.Desc, "written:", sr.res.st.written[v.Obj])
				}
				if !okLen || !zero {
					r.Fail("alg0.identity", fname, "zero MAC", f.Pos(), fmt.Sprintf("algorithm 0 does not return a fresh, never-written 4-octet slice (len ok %v, untouched fresh %v)", okLen, zero), nil)
				} else {
					r.OK("alg0.identity")
				}
			}
		}
	}
	// MAC is 4 octets whenever err == nil, for all parameters
	{
		sr := runSecurity(w, mac, map[string]Itv{"!nonnil": {}}, false)
		r.Site("mac.len4")
		ok := false
		if !sr.res.none && len(sr.res.vals) == 2 {
			st := sr.res.st.clone()
			e := sr.res.vals[1]
			if e.HasSym {
				if g := st.guards[e.Sym]; g != nil {
					st.applyPartial(g.WhenNil)
				}
			}
			if l := sr.res.vals[0].Len; l != nil && st.linItv(l) == (Itv{4, 4}) {
				ok = true
			} else if os.Getenv("NASVERIF_DEBUG") != "" && l != nil {
				fmt.Fprintln(os.Stderr, "mac len:", sr.sa.u.linString(l), st.linItv(l), "err sym guard:", e.HasSym && st.guards[e.Sym] != nil)
			}
		}
		if !ok {
			r.Fail("mac.len4", FuncName(mac), "result length", mac.Pos(), "the MAC is not provably 4 octets long when the error is nil", nil)
		} else {
			r.OK("mac.len4")
		}
		// no panic for any payload length: all obligations of both entry points
		sa := runEntries(w, r, securityEntries(w, r))
		sa.report(r, "C08")
	}
	r.Expect("guard.region", 10)
	r.Expect("safe.index", 1) // style-dependent count: see safe.entries
	// ---- write sites of the payload in NASEncrypt (SSA)
	eff := NewEffects(w)
	encFn, macFn := w.SSAFunc(enc), w.SSAFunc(mac)
	eff.Summaries([]*ssa.Function{encFn, macFn})
	payloadIdx := -1
	for i, p := range encFn.Params {
		if _, ok := p.Type().Underlying().(*types.Slice); ok {
			payloadIdx = i
		}
	}
	nCopy := 0
	for _, b := range encFn.Blocks {
		for _, ins := range b.Instrs {
			writes := false
			what := ""
			switch x := ins.(type) {
			case *ssa.Store:
				writes = eff.rootsOf(x.Addr, 0).hasParamAny(payloadIdx)
				what = "store"
			case *ssa.Call:
				if bi, ok := x.Call.Value.(*ssa.Builtin); ok {
					if bi.Name() == "copy" && eff.rootsOf(x.Call.Args[0], 0).hasParamAny(payloadIdx) {
						r.Site("eff.payload-copy-only")
						nCopy++
						// whole-payload copy followed by `return nil` in the same block
						ret, isRet := b.Instrs[len(b.Instrs)-1].(*ssa.Return)
						okRet := false
						if isRet && len(ret.Results) == 1 {
							if c, isC := ret.Results[0].(*ssa.Const); isC && c.Value == nil {
								okRet = true
							}
						}
						if x.Call.Args[0] != ssa.Value(encFn.Params[payloadIdx]) || !okRet {
							r.Fail("eff.payload-copy-only", FuncName(enc), "copy", x.Pos(), "the payload is overwritten by something other than a whole-payload copy directly followed by `return nil`", nil)
						} else {
							r.OK("eff.payload-copy-only")
						}
					}
					continue
				}
				if callee := x.Call.StaticCallee(); callee != nil {
					if s := eff.Summary(callee); s != nil {
						for i, a := range x.Call.Args {
							if eff.rootsOf(a, 0).hasParamAny(payloadIdx) {
								if _, w := s.Mods[Root{Kind: "param", Idx: i}]; w {
									writes, what = true, "call "+callee.Name()
								}
							}
						}
					}
				}
			}
			if writes {
				r.Fail("eff.payload-copy-only", FuncName(enc), what, ins.Pos(), "the payload is written by "+what+" (only the final copy of the cipher output may write it)", nil)
			}
		}
	}
	// (that each of the three algorithm identities ends with the cipher output in the payload is
	// decided per identity by C06 wrap.args; how many copy statements do it is not a property)
	if nCopy < 1 {
		r.Fail("eff.payload-copy-only", FuncName(enc), "copy-back", enc.Pos(), "the cipher output is never copied over the payload", nil)
	}
	// ---- key and message never modified (E4)
	r.Site("eff.msg-readonly")
	if s := eff.Summary(macFn); s != nil {
		bad := false
		for root, site := range s.Mods {
			if root.Kind == "param" || root.Kind == "global" {
				bad = true
				r.Fail("eff.msg-readonly", FuncName(mac), root.String(), site.Pos, "MAC calculation writes "+root.String()+" ("+site.What+" in "+site.Fn+")", nil)
			}
		}
		if !bad {
			r.OK("eff.msg-readonly")
		}
	}
	for _, n := range []string{"NEA1", "NEA2", "NEA3"} {
		f := w.LookupFunc("security", n)
		if f == nil {
			r.Fail("anchor", "security."+n, "missing", token.NoPos, "function not found", nil)
			continue
		}
		fn := w.SSAFunc(f)
		eff.Summaries([]*ssa.Function{fn})
		fname := FuncName(f)
		r.Fn(fname)
		r.Site("eff.msg-readonly")
		if s := eff.Summary(fn); s != nil {
			bad := false
			for root, site := range s.Mods {
				if root.Kind == "param" || root.Kind == "global" {
					bad = true
					r.Fail("eff.msg-readonly", fname, root.String(), site.Pos, "ciphering function writes "+root.String()+" ("+site.What+")", nil)
				}
			}
			if !bad {
				r.OK("eff.msg-readonly")
			}
		}
		// length preserving: result length == len(ibs) when err == nil (E3)
		sr := runSecurity(w, f, map[string]Itv{"!nonnil": {}}, false)
		r.Site("len.preserving")
		okLen := false
		var ibs AVal
		for _, a := range sr.arg {
			if a.Kind == avSlice {
				ibs = a
			}
		}
		if !sr.res.none && len(sr.res.vals) == 2 && ibs.Len != nil {
			st := sr.res.st.clone()
			if e := sr.res.vals[1]; e.HasSym {
				if g := st.guards[e.Sym]; g != nil {
					st.applyPartial(g.WhenNil)
				}
			}
			if l := sr.res.vals[0].Len; l != nil {
				d := l.add(ibs.Len, -1)
				okLen = st.prove(d) && st.prove(d.scale(-1))
			}
		}
		if !okLen {
			r.Fail("len.preserving", fname, "output length", f.Pos(), "the output is not provably as long as the input", nil)
		} else {
			r.OK("len.preserving")
		}
		checkKeystreamStructure(w, r, fn, fname)
	}
	// ---- requested word count reaches only sizes and loop bounds of the generators
	for _, g := range [][2]string{{"security/snow3g", "GetKeyStream"}, {"security/zuc", "Zuc"}} {
		f := w.LookupFunc(g[0], g[1])
		if f == nil {
			r.Fail("anchor", g[0]+"."+g[1], "missing", token.NoPos, "generator not found", nil)
			continue
		}
		checkCountIndependence(w, r, w.SSAFunc(f), FuncName(f))
	}
}

// taintFrom computes the forward data-dependence slice of seed values inside fn (through
// operands; values stored to memory taint every load from an address with the same base).
func taintFrom(fn *ssa.Function, seeds []ssa.Value) map[ssa.Value]bool {
	t, _ := taintFromB(fn, seeds)
	return t
}

func addrBase(v ssa.Value) ssa.Value {
	for {
		switch x := v.(type) {
		case *ssa.IndexAddr:
			v = x.X
		case *ssa.FieldAddr:
			v = x.X
		case *ssa.Slice:
			v = x.X
		default:
			return v
		}
	}
}

// taintFromB also returns the memory bases into which a dependent value was stored.
func taintFromB(fn *ssa.Function, seeds []ssa.Value) (map[ssa.Value]bool, map[ssa.Value]bool) {
	t := map[ssa.Value]bool{}
	var work []ssa.Value
	for _, s := range seeds {
		t[s] = true
		work = append(work, s)
	}
	base := func(v ssa.Value) ssa.Value {
		for {
			switch x := v.(type) {
			case *ssa.IndexAddr:
				v = x.X
			case *ssa.FieldAddr:
				v = x.X
			case *ssa.Slice:
				v = x.X
			default:
				return v
			}
		}
	}
	taintedBases := map[ssa.Value]bool{}
	for len(work) > 0 {
		v := work[len(work)-1]
		work = work[:len(work)-1]
		refs := v.Referrers()
		if refs == nil {
			continue
		}
		for _, ins := range *refs {
			switch x := ins.(type) {
			case *ssa.Store:
				if x.Val == v {
					b := base(x.Addr)
					if !taintedBases[b] {
						taintedBases[b] = true
						// every load through this base becomes tainted
						for _, bb := range fn.Blocks {
							for _, i2 := range bb.Instrs {
								if u, ok := i2.(*ssa.UnOp); ok && u.Op == token.MUL && base(u.X) == b && !t[u] {
									t[u] = true
									work = append(work, u)
								}
							}
						}
					}
				}
			case ssa.Value:
				// address computations do not carry content dependence of the base into the address value itself
				if ia, ok := x.(*ssa.IndexAddr); ok && ia.X == v {
					continue
				}
				if sl, ok := x.(*ssa.Slice); ok && sl.X == v {
					continue
				}
				if !t[x] {
					t[x] = true
					work = append(work, x)
				}
			}
		}
	}
	return t, taintedBases
}

// checkKeystreamStructure: in NEA1/NEA3, no keystream-generator argument depends on the payload
// contents, and each stored output octet is ibs[k] XOR (payload-independent) at the same index k.
func checkKeystreamStructure(w *World, r *Report, fn *ssa.Function, fname string) {
	var ibs ssa.Value
	for _, p := range fn.Params {
		if _, ok := p.Type().Underlying().(*types.Slice); ok {
			ibs = p
		}
	}
	if ibs == nil {
		return
	}
	// seeds: loads of elements of ibs
	var seeds []ssa.Value
	for _, b := range fn.Blocks {
		for _, ins := range b.Instrs {
			if u, ok := ins.(*ssa.UnOp); ok && u.Op == token.MUL {
				if ia, ok := u.X.(*ssa.IndexAddr); ok && ia.X == ibs {
					seeds = append(seeds, u)
				}
			}
		}
	}
	tainted, taintedMem := taintFromB(fn, seeds)
	generators := map[string]bool{"github.com/free5gc/nas/security/snow3g.GetKeyStream": true, "github.com/free5gc/nas/security/zuc.Zuc": true, "crypto/aes.NewCipher": true, "crypto/cipher.NewCTR": true}
	for _, b := range fn.Blocks {
		for _, ins := range b.Instrs {
			c, ok := ins.(*ssa.Call)
			if !ok || c.Call.StaticCallee() == nil || !generators[c.Call.StaticCallee().String()] {
				continue
			}
			r.Site("taint.keystream")
			bad := false
			for i, a := range c.Call.Args {
				if tainted[a] || a == ibs || taintedMem[addrBase(a)] {
					bad = true
					r.Fail("taint.keystream", fname, fmt.Sprintf("%s arg %d", c.Call.StaticCallee().Name(), i), c.Pos(), "an argument of the keystream generator depends on the payload contents: ciphertext XOR plaintext would depend on the plaintext", nil)
				}
			}
			if !bad {
				r.OK("taint.keystream")
			}
		}
	}
	// same-index XOR
	for _, b := range fn.Blocks {
		for _, ins := range b.Instrs {
			st, ok := ins.(*ssa.Store)
			if !ok {
				continue
			}
			ia, ok := st.Addr.(*ssa.IndexAddr)
			if !ok || !isBasic(st.Val.Type(), types.Uint8) {
				continue
			}
			// destination must be the output slice (a MakeSlice result), not a local table
			if _, isMk := ia.X.(*ssa.MakeSlice); !isMk {
				continue
			}
			// zeroing of the tail is allowed (NEA3): constant stores
			if _, isC := st.Val.(*ssa.Const); isC {
				continue
			}
			r.Site("xor.same-index")
			x, isX := st.Val.(*ssa.BinOp)
			// obs[k] &= mask  (tail masking) : BinOp AND with load of obs[k]
			if isX && x.Op == token.AND {
				continue
			}
			// obs[k] &^= mask: the same, written as and-not of the element itself with a payload-independent mask
			if isX && x.Op == token.AND_NOT && !tainted[x.Y] {
				if ld, isLd := x.X.(*ssa.UnOp); isLd && ld.Op == token.MUL {
					if la, isIA := ld.X.(*ssa.IndexAddr); isIA && la.X == ia.X && (la.Index == ia.Index || exprText(la.Index) == exprText(ia.Index)) {
						continue
					}
				}
			}
			good := false
			if isX && x.Op == token.XOR {
				for _, pair := range [][2]ssa.Value{{x.X, x.Y}, {x.Y, x.X}} {
					ld, ok := pair[0].(*ssa.UnOp)
					if !ok || ld.Op != token.MUL {
						continue
					}
					sa2, ok := ld.X.(*ssa.IndexAddr)
					if !ok || sa2.X != ibs {
						continue
					}
					if (sa2.Index == ia.Index || exprText(sa2.Index) == exprText(ia.Index)) && !tainted[pair[1]] {
						good = true
					}
				}
			}
			if !good {
				r.Fail("xor.same-index", fname, exprText(ia), st.Pos(), "an output octet is not the input octet at the same index XOR a payload-independent keystream octet (breaks involution / prefix stability)", nil)
			} else {
				r.OK("xor.same-index")
			}
		}
	}
}

// checkCountIndependence: the requested number of words flows only into allocation sizes,
// comparisons and conversions inside the generator (and the same for its callees).
func checkCountIndependence(w *World, r *Report, fn *ssa.Function, fname string) {
	if fn == nil {
		return
	}
	var count *ssa.Parameter
	for _, p := range fn.Params {
		if _, ok := intRange(p.Type()); ok {
			count = p // the only integer parameter of both generators
		}
	}
	if count == nil {
		r.Fail("ks.count-independent", fname, "count", fn.Pos(), "no integer count parameter", nil)
		return
	}
	var visit func(fn *ssa.Function, seed ssa.Value, depth int)
	seen := map[string]bool{}
	visit = func(fn *ssa.Function, seed ssa.Value, depth int) {
		k := fn.String() + "|" + seed.Name()
		if seen[k] || depth > 4 {
			return
		}
		seen[k] = true
		t := taintFrom(fn, []ssa.Value{seed})
		var names []string
		for v := range t {
			names = append(names, v.Name())
		}
		sort.Strings(names)
		for v := range t {
			refs := v.Referrers()
			if refs == nil {
				continue
			}
			for _, ins := range *refs {
				switch x := ins.(type) {
				case *ssa.MakeSlice, *ssa.If, *ssa.Convert, *ssa.Phi:
				case *ssa.BinOp:
					switch x.Op {
					case token.LSS, token.LEQ, token.GTR, token.GEQ, token.EQL, token.NEQ:
					default:
						// arithmetic on the count is fine as long as the result is used as a size/bound again (checked transitively)
					}
				case *ssa.Store:
					if x.Val == v {
						r.Fail("ks.count-independent", SSAFuncName(fn), "store of "+v.Name(), x.Pos(), "a value derived from the requested word count is stored into the generator state / output", nil)
					}
				case *ssa.IndexAddr:
					if x.Index == v {
						r.Fail("ks.count-independent", SSAFuncName(fn), "index "+v.Name(), x.Pos(), "the requested word count is used as an index", nil)
					}
				case *ssa.Call:
					if callee := x.Call.StaticCallee(); callee != nil && callee.Blocks != nil && callee.Pkg != nil && IsRepoPkg(callee.Pkg.Pkg) {
						for i, a := range x.Call.Args {
							if a == v && i < len(callee.Params) {
								visit(callee, callee.Params[i], depth+1)
							}
						}
					}
				}
			}
		}
	}
	r.Site("ks.count-independent")
	before := len(r.Findings)
	visit(fn, count, 0)
	if len(r.Findings) == before {
		r.OK("ks.count-independent")
	}
}
