package main

func init() {
	const g = "nasType/NAS_GUTI5G.go"
	const cnt = "security/counter.go"
	addMutants(
		// ---- C09
		Mutant{Name: "c09-getter-mask", Prop: "C09", File: g, Old: "return a.Octet[6] & GetBitMask(6, 0)", New: "return a.Octet[6] & GetBitMask(5, 0)",
			Expect: "bits.get / nasType.(*GUTI5G).GetAMFPointer", Why: "getter drops the top bit of the field"},
		Mutant{Name: "c09-setter-shift", Prop: "C09", File: g, Old: "a.Octet[0] = (a.Octet[0] & 15) + ((spare & 15) << 4)", New: "a.Octet[0] = (a.Octet[0] & 15) + ((spare & 15) << 3)",
			Expect: "nasType.(*GUTI5G).SetSpare2", Why: "setter places the field one bit too low (non-disjoint add)"},
		Mutant{Name: "c09-setter-clobber", Prop: "C09", File: g, Old: "a.Octet[3] = (a.Octet[3] & 240) + (mNCDigit1 & 15)", New: "a.Octet[3] = (a.Octet[3] & 224) + (mNCDigit1 & 15)",
			Expect: "bits.frame / nasType.(*GUTI5G).SetMNCDigit1 / MNCDigit1 clobbers MNCDigit2", Why: "setter clears one bit of the neighbouring digit"},
		Mutant{Name: "c09-copy-range", Prop: "C09", File: g, Old: "copy(a.Octet[7:11], tMSI5G[:])", New: "copy(a.Octet[6:10], tMSI5G[:])",
			Expect: "nasType.(*GUTI5G).SetTMSI5G", Why: "copy-based setter writes one octet early"},
		Mutant{Name: "c09-amfsetid-regression", Prop: "C09", File: "nasType/NAS_TMSI5GS.go", Old: "a.Octet[2]&GetBitMask(6, 0)", New: "a.Octet[2]&GetBitMask(6, 6)",
			Expect: "bits.frame / nasType.(*TMSI5GS).SetAMFSetID / AMFSetID clobbers AMFPointer", Why: "the repaired defect returns"},
		Mutant{Name: "c09-setiei-writes-len", Prop: "C09", File: "nasType/NAS_TAIList.go", Old: "\ta.Iei = iei\n", New: "\ta.Iei = iei\n\ta.Len = 0\n",
			Expect: "bits.frame / nasType.(*TAIList).SetIei", Why: "identifier setter resets the length"},
		Mutant{Name: "c09-getbitmask-body", Prop: "C09", File: "nasType/comm_util.go", Old: "bitMask = ((1<<(ub-lb) - 1) << (lb))", New: "bitMask = ((1<<(ub-lb) - 1) << (lb + 1))",
			Expect: "bits.get", Why: "the shared mask helper is wrong: every masked getter shifts"},
		Mutant{Name: "c09-keep-or-form", Prop: "C09", File: g, Old: "a.Octet[0] = (a.Octet[0] & 15) + ((spare & 15) << 4)", New: "a.Octet[0] = (a.Octet[0] & 0x0f) | ((spare << 4) & 0xf0)", Keep: true, Why: "same bits, different operators"},
		Mutant{Name: "c09-keep-comment-edit", Prop: "C09", File: g, Old: "// AMFPointer Row, sBit, len = [6, 6], 6 , 6\nfunc (a *GUTI5G) GetAMFPointer", New: "// AMFPointer Row, sBit, len = [6, 6], 7 , 7\nfunc (a *GUTI5G) GetAMFPointer", Keep: true,
			Why: "comment-only edit: the frozen layout is the oracle"},
		// ---- C11
		Mutant{Name: "c11-mask-25", Prop: "C11", File: cnt, Old: "counter.count &= 0x00ffffff", New: "counter.count &= 0x01ffffff",
			Expect: "security.(*Count).AddOne", Why: "increment can reach 2^24"},
		Mutant{Name: "c11-setsqn-clobber", Prop: "C11", File: cnt, Old: "(counter.count & 0xffffff00) | uint32(sqn)", New: "(counter.count & 0xffff0000) | uint32(sqn)",
			Expect: "security.(*Count).SetSQN", Why: "setting the sequence number clears the low overflow octet"},
		Mutant{Name: "c11-setovf-shift", Prop: "C11", File: cnt, Old: "(uint32(overflow) << 8)", New: "(uint32(overflow) << 7)",
			Expect: "security.(*Count).SetOverflow", Why: "overflow lands one bit low"},
		Mutant{Name: "c11-addone-nomask", Prop: "C11", File: cnt, Old: "\tcounter.count++\n\tcounter.maskTo24Bits()\n", New: "\tcounter.count++\n",
			Expect: "security.(*Count).AddOne", Why: "no wrap at 2^24"},
		Mutant{Name: "c11-addone-sqn-only", Prop: "C11", File: cnt, Old: "\tcounter.count++\n", New: "\tcounter.count = (counter.count & 0xffffff00) | uint32(uint8(counter.count)+1)\n",
			Expect: "security.(*Count).AddOne", Why: "sequence number rolls over without carrying into the overflow part"},
		Mutant{Name: "c11-keep-get-nomask", Prop: "C11", File: cnt, Old: "\tcounter.maskTo24Bits()\n\treturn counter.count\n", New: "\treturn counter.count\n", Keep: true,
			Why: "under the invariant the mask in Get is the identity"},
		Mutant{Name: "c11-keep-sqn-trunc", Prop: "C11", File: cnt, Old: "return uint8(counter.count & 0x000000ff)", New: "return uint8(counter.count)", Keep: true, Why: "same bits"},
	)
}
