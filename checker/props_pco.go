package main

// C16 — protocol configuration options and PDU session bitmaps.

import (
	"os"
	"strings"
	"fmt"
	"go/token"
	"go/types"

	"golang.org/x/tools/go/ssa"
)

func init() {
	register("C16", func(w *World, r *Report, tier string) {
		propC16(w, r, tier)
		importStateless(w, r, tier, []string{"nasConvert/ProtocolConfigurationOptions.go", "nasConvert/PSI.go", "nasConvert/PDUSessionReactivationResultErrorCause.go"}, "PCO and PSI conversions")
	})
}

func propC16(w *World, r *Report, tier string) {
	r.Explanation = "PDU session status bitmap (E2, loops unrolled by constant propagation, branches if-converted): PSIToBooleanArray maps bit i%8 of octet i/8 to entry i, " +
		"PSIToBuf is the inverse, and both compositions are the identity as Boolean functions — i.e. for all 65 536 values. PCO: totality of UnMarshal (E3 with trace " +
		"partitioning on the reader state: curContainer is non-nil in the length/content states, every read is error-checked, the loop is ranked by R-fsm: the remaining " +
		"octet count never increases and strictly decreases around every cycle of the three states); Marshal's first write is the constant 0x80 and the per-unit item order " +
		"(identifier 16 bits, length 8 bits, contents) is the order UnMarshal reads; the only writes into a unit's Contents are a make() of the declared length followed by " +
		"a read from the reader over the input. PDUSessionReactivationResultErrorCauseToBuf and the PSI helpers are panic-free (E3)."
	r.Assumptions = []string{"arbitrary input bytes for UnMarshal / PSIToBooleanArray; non-nil receiver",
		"not decided: equality of container lists after a round trip beyond the item duality (LengthOfContents is caller-maintained in Marshal)"}
	r.Trusted = []string{"go/ssa", "E2 interpreter + ROBDD equivalence", "E3 prover and stdlib contracts"}
	// ---- PSI (E2)
	fa := w.LookupFunc("nasConvert", "PSIToBooleanArray")
	fb := w.LookupFunc("nasConvert", "PSIToBuf")
	if fa == nil || fb == nil {
		panic(anchorError("nasConvert.PSIToBooleanArray / PSIToBuf"))
	}
	r.Fn(FuncName(fa))
	r.Fn(FuncName(fb))
	{
		it := NewInterp(w)
		st := it.NewState()
		buf := it.SymbolicBytes(st, "buf", 2)
		res := it.Call(w.SSAFunc(fa), []Value{buf}, st, 0)
		ag, ok := res.(AggV)
		r.Site("bits.psi")
		good := ok && len(it.Unsup) == 0
		why := fmt.Sprint(it.Unsup)
		for i := 0; good && i < 16; i++ {
			bv, ok := ag.Cells[fmt.Sprintf("[%d]", i)].(BV)
			want := it.T.Src(fmt.Sprintf("buf[%d]", i/8), i%8)
			if !ok || !it.T.Equiv(bv.B[0], want) {
				good = false
				why = fmt.Sprintf("entry %d is %v, specified bit %d of octet %d", i, bv, i%8, i/8)
			}
		}
		if !good {
			r.Fail("bits.psi", FuncName(fa), "map", fa.Pos(), "PSIToBooleanArray does not map bit i%8 of octet i/8 to entry i: "+why, nil)
		} else {
			r.OK("bits.psi")
			r.Sample(map[string]any{"rule": "bits.psi", "func": FuncName(fa), "entry[9]": ag.Cells["[9]"].(BV).String()})
		}
		// composition buf -> array -> buf
		if good {
			res2 := it.Call(w.SSAFunc(fb), []Value{ag}, st, 0)
			r.Site("bits.psi")
			sl, ok := res2.(SliceV)
			okc := ok && sl.Len == 2 && len(it.Unsup) == 0
			for k := 0; okc && k < 2; k++ {
				b, ok := it.load(st, it.sliceElemPtr(sl, k), types.Typ[types.Uint8]).(BV)
				if !ok || !it.T.EquivBV(b, it.SrcBV(fmt.Sprintf("buf[%d]", k), 8)) {
					okc = false
				}
			}
			if !okc {
				r.Fail("bits.psi", FuncName(fb), "buf→array→buf", fb.Pos(), "PSIToBuf(PSIToBooleanArray(b)) is not b for every two-octet b", nil)
			} else {
				r.OK("bits.psi")
			}
		}
	}
	{
		it := NewInterp(w)
		st := it.NewState()
		arr := AggV{Cells: map[string]Value{}}
		for i := 0; i < 16; i++ {
			arr.Cells[fmt.Sprintf("[%d]", i)] = it.SrcBV(fmt.Sprintf("a[%d]", i), 1)
		}
		res := it.Call(w.SSAFunc(fb), []Value{arr}, st, 0)
		sl, ok := res.(SliceV)
		r.Site("bits.psi")
		good := ok && sl.Len == 2 && len(it.Unsup) == 0
		why := fmt.Sprint(it.Unsup)
		for k := 0; good && k < 2; k++ {
			b, ok := it.load(st, it.sliceElemPtr(sl, k), types.Typ[types.Uint8]).(BV)
			for j := 0; ok && j < 8; j++ {
				if !it.T.Equiv(b.B[j], it.T.Src(fmt.Sprintf("a[%d]", 8*k+j), 0)) {
					good = false
					why = fmt.Sprintf("bit %d of octet %d is %s, specified entry %d", j, k, b.B[j], 8*k+j)
				}
			}
			if !ok {
				good = false
			}
		}
		if !good {
			r.Fail("bits.psi", FuncName(fb), "map", fb.Pos(), "PSIToBuf does not put entry i into bit i%8 of octet i/8: "+why, nil)
		} else {
			r.OK("bits.psi")
			// composition array -> buf -> array
			res2 := it.Call(w.SSAFunc(fa), []Value{sl}, st, 0)
			r.Site("bits.psi")
			ag, ok := res2.(AggV)
			okc := ok && len(it.Unsup) == 0
			for i := 0; okc && i < 16; i++ {
				bv, ok := ag.Cells[fmt.Sprintf("[%d]", i)].(BV)
				if !ok || !it.T.Equiv(bv.B[0], it.T.Src(fmt.Sprintf("a[%d]", i), 0)) {
					okc = false
				}
			}
			if !okc {
				r.Fail("bits.psi", FuncName(fa), "array→buf→array", fa.Pos(), "PSIToBooleanArray(PSIToBuf(a)) is not a for every 16-entry a", nil)
			} else {
				r.OK("bits.psi")
			}
		}
	}
	r.Expect("bits.psi", 4)
	// ---- totality (E3)
	sa := runEntries(w, r, totalityEntries(w, r, [][3]string{
		{"nasConvert", "ProtocolConfigurationOptions.UnMarshal", "recv"},
		{"nasConvert", "PSIToBooleanArray", ""},
		{"nasConvert", "PSIToBuf", ""},
		{"nasConvert", "PDUSessionReactivationResultErrorCauseToBuf", ""},
	}))
	sa.report(r, "C16")
	r.Expect("safe.entries", 4)
	r.Expect("safe.nil", 1) // how many obligations the code gives rise to depends on how it is written; the entry points above are the vacuity guard
	// ---- PCO Marshal: first octet and item order
	fm := w.LookupFunc("nasConvert", "ProtocolConfigurationOptions.Marshal")
	fu := w.LookupFunc("nasConvert", "ProtocolConfigurationOptions.UnMarshal")
	if fm == nil || fu == nil {
		panic(anchorError("nasConvert.(*ProtocolConfigurationOptions).Marshal / UnMarshal"))
	}
	r.Fn(FuncName(fm))
	// ---- UnMarshal at concrete unit layouts (values, order and non-aliasing decided by evaluation)
	shapesOK := checkPcoShapes(w, r, fu)
	marshalOK := checkPcoMarshalShapes(w, r, fm)
	{
		// the first write to the output buffer is one octet with the constant value 0x80 (E3)
		fn := w.SSAFunc(fm)
		s2 := NewSafe(w)
		s2.Quiet = true
		s2.entry = FuncName(fm)
		root := s2.newFrame(fn, 0)
		st := newState(s2.u)
		root.at(nil)
		recv := nonNilPtrArg(s2, root, st, fn.Params[0].Type(), "pco")
		s2.stack = []*ssa.Function{fn}
		res := s2.analyzeFunc(root, []AVal{recv}, st)
		r.Site("pco.first-octet")
		ok := false
		detail := "no modelled output buffer"
		if !res.none {
			for _, o := range root.bufs {
				if e, has := res.st.first[o]; has {
					detail = fmt.Sprintf("first item written: %s size %s value %s", e.Desc, s2.u.linString(e.Size), s2.u.linString(e.Val))
					sz, okS := constOf(res.st, e.Size)
					v, okV := constOf(res.st, e.Val)
					if okS && okV && sz == 1 && v == 0x80 {
						ok = true
					}
				}
			}
		}
		if !ok && marshalOK && detail == "no modelled output buffer" {
			// Marshal does not write through a bytes.Buffer: the write log has nothing to show; the
			// octets themselves were compared by pco.marshal (octet 0 is 0x80 at every layout)
			r.OK("pco.first-octet")
			r.Note("pco.first-octet: no bytes.Buffer in Marshal; decided by pco.marshal")
		} else if !ok {
			r.Fail("pco.first-octet", FuncName(fm), "0x80", fm.Pos(), "the first octet written is not provably the constant 0x80 (extension 1, configuration protocol 000): "+detail, nil)
		} else {
			r.OK("pco.first-octet")
			r.Sample(map[string]any{"rule": "pco.first-octet", "detail": detail})
		}
	}
	{
		r.Site("seq.dual")
		a, b := fieldSeq(w.SSAFunc(fm), true), fieldSeq(w.SSAFunc(fu), false)
		want := "ProtocolOrContainerID,LengthOfContents,Contents"
		ja, jb := joinStr(a), joinStr(b)
		if (ja == want || (ja == "" && marshalOK)) && (jb == want || (jb == "" && shapesOK)) && (ja == "" || jb == "") {
			// one side (or both) is not written as binary.Write / binary.Read calls field by field:
			// the call-shape rule has nothing to compare there; pco.marshal / pco.units decide it
			r.OK("seq.dual")
			r.Note("seq.dual: Marshal/UnMarshal not in field-by-field binary.Write/Read style (%q / %q); decided by pco.marshal / pco.units", ja, jb)
		} else if ja == want && jb == "" && shapesOK {
			// UnMarshal is not written as binary.Read calls field by field: the call-shape rule has
			// nothing to compare on its side; pco.units has decided it by evaluation
			r.OK("seq.dual")
			r.Note("seq.dual: UnMarshal does not read with binary.Read field by field; its side is decided by pco.units")
		} else if ja != want || jb != want {
			r.Fail("seq.dual", FuncName(fm), "unit items", fm.Pos(), "per-unit items: Marshal writes ["+ja+"], UnMarshal reads ["+jb+"], specified [identifier(16), length(8), contents]", nil)
		} else {
			r.OK("seq.dual")
		}
		// widths: identifier uint16, length uint8
		if tn, ok := w.Pkg("nasConvert").Types.Scope().Lookup("ProtocolOrContainerUnit").(*types.TypeName); ok {
			if stt, ok := tn.Type().Underlying().(*types.Struct); ok {
				wd := map[string]string{}
				for i := 0; i < stt.NumFields(); i++ {
					wd[stt.Field(i).Name()] = stt.Field(i).Type().String()
				}
				r.Site("seq.dual")
				if wd["ProtocolOrContainerID"] != "uint16" || wd["LengthOfContents"] != "uint8" || wd["Contents"] != "[]byte" {
					r.Fail("seq.dual", "nasConvert.ProtocolOrContainerUnit", "widths", tn.Pos(), fmt.Sprintf("unit fields are %v, specified identifier uint16, length uint8, contents []byte", wd), nil)
				} else {
					r.OK("seq.dual")
				}
			}
		}
	}
	// ---- contents come only from the input (SSA)
	{
		fn := w.SSAFunc(fu)
		r.Fn(FuncName(fu))
		data := fn.Params[1]
		var reader ssa.Value
		for _, b := range fn.Blocks {
			for _, ins := range b.Instrs {
				if c, ok := ins.(*ssa.Call); ok && c.Call.StaticCallee() != nil && c.Call.StaticCallee().String() == "bytes.NewReader" && c.Call.Args[0] == ssa.Value(data) {
					reader = c
				}
			}
		}
		r.Site("prov.contents")
		bad := ""
		if reader == nil {
			bad = "no reader over the input"
		}
		isContents := func(v ssa.Value) bool {
			for d := 0; d < 6; d++ {
				switch x := v.(type) {
				case *ssa.MakeInterface:
					v = x.X
				case *ssa.UnOp:
					v = x.X
				case *ssa.Slice:
					v = x.X
				case *ssa.FieldAddr:
					stt := x.X.Type().Underlying().(*types.Pointer).Elem().Underlying().(*types.Struct)
					return stt.Field(x.Field).Name() == "Contents"
				default:
					return false
				}
			}
			return false
		}
		nread := 0
		for _, b := range fn.Blocks {
			for _, ins := range b.Instrs {
				switch x := ins.(type) {
				case *ssa.Store:
					if isContents(x.Addr) {
						if _, ok := x.Val.(*ssa.MakeSlice); !ok {
							bad = "Contents is assigned something other than a fresh make()"
						}
					}
				case *ssa.Call:
					if bn, ok := x.Call.Value.(*ssa.Builtin); ok {
						if (bn.Name() == "copy" || bn.Name() == "append") && isContents(x.Call.Args[0]) {
							bad = "Contents is written by " + bn.Name()
						}
						continue
					}
					callee := x.Call.StaticCallee()
					if callee == nil {
						continue
					}
					for i, a := range x.Call.Args {
						if isContents(a) && !(callee.String() == "encoding/binary.Read" && i == 2) {
							if bi := callee.String(); bi != "encoding/binary.Read" {
								bad = "Contents is passed to " + bi
							}
						}
					}
					if callee.String() == "encoding/binary.Read" && isContents(x.Call.Args[2]) {
						nread++
						src := x.Call.Args[0]
						if mi, ok := src.(*ssa.MakeInterface); ok {
							src = mi.X
						}
						if src != reader {
							bad = "Contents is filled from something other than the reader over the input"
						}
					}
					if bn, ok := x.Call.Value.(*ssa.Builtin); ok && bn.Name() == "copy" && isContents(x.Call.Args[0]) {
						bad = "Contents is written by copy"
					}
				}
			}
		}
		if nread == 0 && bad == "" {
			bad = "Contents is never read from the input"
		}
		if reader == nil && shapesOK {
			// not the reader style this rule reads: that the contents are the input's octets, in a
			// slice of their own, is decided by pco.units (values and non-aliasing at 8 layouts)
			bad = ""
			r.Note("prov.contents: UnMarshal has no bytes.Reader over its input; decided by pco.units")
		}
		if bad != "" {
			r.Fail("prov.contents", FuncName(fu), "Contents", fu.Pos(), "parsed contents do not come only from the input: "+bad, nil)
		} else {
			r.OK("prov.contents")
		}
	}
	// ---- the serialisation is the caller's own: the returned octets are backed only by memory
	// allocated during this call (E4 roots), so a later Marshal cannot change them
	{
		r.Site("pco.fresh-result")
		e := NewEffects(w)
		fn := w.SSAFunc(fm)
		e.Summaries([]*ssa.Function{fn})
		s := e.Summary(fn)
		bad := ""
		if s == nil || len(s.Results) == 0 {
			bad = "no summary"
		} else {
			for root := range s.Results[0] {
				if root.Kind != "fresh" {
					bad = root.String()
				}
			}
		}
		if bad != "" {
			r.Fail("pco.fresh-result", FuncName(fm), "result 0", fm.Pos(), "the returned octets share memory with "+bad+" (not only with memory allocated by this call): a later call can overwrite an earlier result", nil)
		} else {
			r.OK("pco.fresh-result")
		}
	}
	// ---- Marshal serialises every unit of the list
	checkSerialiserLoops(w, r, "nasConvert", func(fn *ssa.Function) bool { return SSAFuncName(fn) == FuncName(fm) })
	r.Expect("seq.all-items", 1)
	_ = token.NoPos
}

func joinStr(a []string) string {
	s := ""
	for i, x := range a {
		if i > 0 {
			s += ","
		}
		s += x
	}
	return s
}

// eofValue: the error binary.Read returns on a short read: io.EOF when nothing was left,
// io.ErrUnexpectedEOF otherwise (both opaque non-nil objects with an identity).
func eofValue(nothingLeft bool) Value {
	if nothingLeft {
		return HandleV{"io.EOF", 0}
	}
	return HandleV{"io.ErrUnexpectedEOF", 0}
}

// seedIOErrors makes the package-level io.EOF / io.ErrUnexpectedEOF variables hold the objects
// eofValue returns, so that `err == io.EOF` is decided.
func seedIOErrors(it *Interp, st *state) {
	iop := it.w.Prog.ImportedPackage("io")
	if iop == nil {
		return
	}
	for name, h := range map[string]HandleV{"EOF": {"io.EOF", 0}, "ErrUnexpectedEOF": {"io.ErrUnexpectedEOF", 0}} {
		if g, ok := iop.Members[name].(*ssa.Global); ok {
			o := it.globalObj(g)
			if st.mem[o] == nil {
				st.mem[o] = map[string]Value{}
			}
			st.mem[o][""] = h
		}
	}
}

// readerModels: bytes.NewReader and binary.Read on a reader at a concrete position (E2).
func typeWidth2(t types.Type) (int, bool) {
	w, _, ok := typeWidth(t)
	return w, ok
}

// flattenAgg emits the integer cells of a struct / array value in declaration order.
func flattenAgg(v AggV, t types.Type, path string, emit func(BV) bool) bool {
	if _, _, isInt := typeWidth(t); isInt {
		c, ok := v.Cells[path].(BV)
		return ok && emit(c)
	}
	switch u := t.Underlying().(type) {
	case *types.Struct:
		for i := 0; i < u.NumFields(); i++ {
			if !flattenAgg(v, u.Field(i).Type(), path+"."+u.Field(i).Name(), emit) {
				return false
			}
		}
		return true
	case *types.Array:
		for i := 0; i < int(u.Len()); i++ {
			if !flattenAgg(v, u.Elem(), fmt.Sprintf("%s[%d]", path, i), emit) {
				return false
			}
		}
		return true
	}
	return false
}

// zeroBuffer: a bytes.Buffer / bytes.Reader that was not made by a modelled constructor
// (`new(bytes.Buffer)`, `var b bytes.Buffer`) is the empty buffer: give it the model's cells on first use.
func zeroBuffer(it *Interp, st *state, o *MemObj) {
	if o == nil {
		return
	}
	if st.mem[o] == nil {
		st.mem[o] = map[string]Value{}
	}
	if _, has := st.mem[o][".data"]; has {
		return
	}
	if !strings.HasPrefix(o.Name, "alloc") {
		return // only objects this run allocated itself are known to be empty
	}
	bk := it.NewObj(fmt.Sprintf("bufdata%d", it.nobj+1), false)
	st.mem[bk] = map[string]Value{}
	st.mem[o][".data"] = SliceV{Obj: bk, Len: 0}
	st.mem[o][".pos"] = it.constBV(0, 64)
}

func readerModels(it *Interp) {
	it.Models["bytes.NewReader"] = func(it *Interp, st *state, call *ssa.CallCommon, args []Value) (Value, bool) {
		sl, ok := args[0].(SliceV)
		if !ok || sl.Len < 0 {
			return nil, false
		}
		o := it.NewObj(fmt.Sprintf("reader%d", it.nobj+1), false)
		st.mem[o] = map[string]Value{".data": sl, ".pos": it.constBV(0, 64)}
		return Ptr{Obj: o}, true
	}
	// bytes.Buffer over a slice (reader) or over nothing (writer)
	it.Models["bytes.NewBuffer"] = func(it *Interp, st *state, call *ssa.CallCommon, args []Value) (Value, bool) {
		sl, ok := args[0].(SliceV)
		if !ok {
			return nil, false
		}
		o := it.NewObj(fmt.Sprintf("buffer%d", it.nobj+1), false)
		if sl.Nil || sl.Obj == nil {
			bk := it.NewObj(fmt.Sprintf("bufdata%d", it.nobj+1), false)
			st.mem[bk] = map[string]Value{}
			sl = SliceV{Obj: bk, Len: 0}
		}
		if sl.Len < 0 {
			return nil, false
		}
		st.mem[o] = map[string]Value{".data": sl, ".pos": it.constBV(0, 64)}
		return Ptr{Obj: o}, true
	}
	bufWrite := func(it *Interp, st *state, bp Ptr, bs []BV) bool {
		zeroBuffer(it, st, bp.Obj)
		data, ok := st.mem[bp.Obj][".data"].(SliceV)
		if !ok || data.Len < 0 || data.Len+len(bs) > 4096 {
			return false
		}
		for i, b := range bs {
			it.storeQuiet(st, it.sliceElemPtr(data, data.Len+i), b)
		}
		data.Len += len(bs)
		st.mem[bp.Obj][".data"] = data
		return true
	}
	it.Models["(*bytes.Buffer).Bytes"] = func(it *Interp, st *state, call *ssa.CallCommon, args []Value) (Value, bool) {
		bp, ok := args[0].(Ptr)
		if !ok {
			return nil, false
		}
		zeroBuffer(it, st, bp.Obj)
		data, ok1 := st.mem[bp.Obj][".data"].(SliceV)
		pos, ok2 := it.concreteInt(st.mem[bp.Obj][".pos"])
		if !ok1 || !ok2 {
			return nil, false
		}
		return SliceV{Obj: data.Obj, Path: data.Path, Lo: data.Lo + pos, Len: data.Len - pos}, true
	}
	it.Models["(*bytes.Buffer).Write"] = func(it *Interp, st *state, call *ssa.CallCommon, args []Value) (Value, bool) {
		bp, ok := args[0].(Ptr)
		src, ok2 := args[1].(SliceV)
		if !ok || !ok2 || src.Len < 0 {
			return nil, false
		}
		var bs []BV
		for i := 0; i < src.Len; i++ {
			b, ok := it.load(st, it.sliceElemPtr(src, i), u8T).(BV)
			if !ok {
				return nil, false
			}
			bs = append(bs, b)
		}
		if !bufWrite(it, st, bp, bs) {
			return nil, false
		}
		return TupleV{it.constBV(uint64(len(bs)), 64).signed(), NilV{}}, true
	}
	it.Models["(*bytes.Buffer).WriteByte"] = func(it *Interp, st *state, call *ssa.CallCommon, args []Value) (Value, bool) {
		bp, ok := args[0].(Ptr)
		b, ok2 := args[1].(BV)
		if !ok || !ok2 || !bufWrite(it, st, bp, []BV{b}) {
			return nil, false
		}
		return NilV{}, true
	}
	it.Models["encoding/binary.Write"] = func(it *Interp, st *state, call *ssa.CallCommon, args []Value) (Value, bool) {
		bp, ok := args[0].(Ptr)
		if !ok {
			return nil, false
		}
		var bs []BV
		split := func(v BV) bool {
			if v.W%8 != 0 {
				return false
			}
			for k := v.W/8 - 1; k >= 0; k-- { // big endian
				bs = append(bs, bvBits(v, 8*k, 8))
			}
			return true
		}
		switch v := args[2].(type) {
		case BV:
			if !split(v) {
				return nil, false
			}
		case Ptr:
			mi, ok := call.Args[2].(*ssa.MakeInterface)
			if !ok {
				return nil, false
			}
			pt, ok := mi.X.Type().Underlying().(*types.Pointer)
			if !ok {
				return nil, false
			}
			if sl, isSl := pt.Elem().Underlying().(*types.Slice); isSl {
				// a pointer to an octet string: its elements, as binary.Write emits them
				if b, isB := sl.Elem().Underlying().(*types.Basic); !isB || b.Kind() != types.Uint8 {
					return nil, false
				}
				sv, okS := it.load(st, v, pt.Elem()).(SliceV)
				if !okS || sv.Len < 0 {
					return nil, false
				}
				for i := 0; i < sv.Len; i++ {
					b, ok := it.load(st, it.sliceElemPtr(sv, i), u8T).(BV)
					if !ok {
						return nil, false
					}
					bs = append(bs, b)
				}
				break
			}
			if _, isInt := typeWidth2(pt.Elem()); !isInt {
				// a pointer to a struct / array of integers: its fields in declaration order
				ag, isAgg := it.load(st, v, pt.Elem()).(AggV)
				if !isAgg || !flattenAgg(ag, pt.Elem(), "", split) {
					return nil, false
				}
				break
			}
			lv, ok := it.load(st, v, pt.Elem()).(BV)
			if !ok || !split(lv) {
				return nil, false
			}
		case SliceV:
			if v.Len < 0 {
				return nil, false
			}
			for i := 0; i < v.Len; i++ {
				b, ok := it.load(st, it.sliceElemPtr(v, i), u8T).(BV)
				if !ok {
					return nil, false
				}
				bs = append(bs, b)
			}
		case AggV:
			// a struct / array of integers by value: its fields in declaration order, big endian
			mi, ok := call.Args[2].(*ssa.MakeInterface)
			if !ok {
				return nil, false
			}
			var lay func(t types.Type, path string) bool
			lay = func(t types.Type, path string) bool {
				if _, _, isInt := typeWidth(t); isInt {
					c, ok := v.Cells[path].(BV)
					return ok && split(c)
				}
				switch u := t.Underlying().(type) {
				case *types.Struct:
					for i := 0; i < u.NumFields(); i++ {
						if !lay(u.Field(i).Type(), path+"."+u.Field(i).Name()) {
							return false
						}
					}
					return true
				case *types.Array:
					for i := 0; i < int(u.Len()); i++ {
						if !lay(u.Elem(), fmt.Sprintf("%s[%d]", path, i)) {
							return false
						}
					}
					return true
				}
				return false
			}
			if !lay(mi.X.Type(), "") {
				return nil, false
			}
		default:
			return nil, false
		}
		if !bufWrite(it, st, bp, bs) {
			return nil, false
		}
		return NilV{}, true
	}
	it.Models["(*bytes.Buffer).ReadByte"] = func(it *Interp, st *state, call *ssa.CallCommon, args []Value) (Value, bool) {
		rp, ok := args[0].(Ptr)
		if !ok {
			return nil, false
		}
		zeroBuffer(it, st, rp.Obj)
		data, ok1 := st.mem[rp.Obj][".data"].(SliceV)
		pos, ok2 := it.concreteInt(st.mem[rp.Obj][".pos"])
		if !ok1 || !ok2 {
			return nil, false
		}
		if pos >= data.Len {
			return TupleV{it.constBV(0, 8), ErrV{it.T.zero}}, true
		}
		b, ok := it.load(st, it.sliceElemPtr(data, pos), u8T).(BV)
		if !ok {
			return nil, false
		}
		st.mem[rp.Obj][".pos"] = it.constBV(uint64(pos+1), 64)
		return TupleV{b, NilV{}}, true
	}
	// Read(p): copies min(len(p), unread) octets; (0, io.EOF) when nothing is unread and len(p) > 0
	bufRead := func(full bool) func(it *Interp, st *state, call *ssa.CallCommon, args []Value) (Value, bool) {
		return func(it *Interp, st *state, call *ssa.CallCommon, args []Value) (Value, bool) {
			rp, ok := args[0].(Ptr)
			dst, okD := args[1].(SliceV)
			if !ok || !okD || dst.Len < 0 {
				return nil, false
			}
			zeroBuffer(it, st, rp.Obj)
			data, ok1 := st.mem[rp.Obj][".data"].(SliceV)
			pos, ok2 := it.concreteInt(st.mem[rp.Obj][".pos"])
			if !ok1 || !ok2 || data.Len < 0 {
				return nil, false
			}
			n := dst.Len
			if pos+n > data.Len {
				n = data.Len - pos
			}
			if n < 0 {
				n = 0
			}
			for i := 0; i < n; i++ {
				b, ok := it.load(st, it.sliceElemPtr(data, pos+i), u8T).(BV)
				if !ok {
					return nil, false
				}
				it.storeQuiet(st, it.sliceElemPtr(dst, i), b)
			}
			st.mem[rp.Obj][".pos"] = it.constBV(uint64(pos+n), 64)
			cnt := it.constBV(uint64(n), 64)
			cnt.Signed = true
			switch {
			case dst.Len == 0:
				return TupleV{cnt, NilV{}}, true
			case n == 0, full && n < dst.Len:
				return TupleV{cnt, ErrV{it.T.zero}}, true // io.EOF / io.ErrUnexpectedEOF
			}
			return TupleV{cnt, NilV{}}, true
		}
	}
	it.Models["(*bytes.Buffer).Read"] = bufRead(false)
	it.Models["(*bytes.Reader).Read"] = bufRead(false)
	it.Models["io.ReadFull"] = func(it *Interp, st *state, call *ssa.CallCommon, args []Value) (Value, bool) {
		if rp, ok := args[0].(Ptr); ok {
			if _, isBuf := st.mem[rp.Obj][".data"]; isBuf {
				return bufRead(true)(it, st, call, args)
			}
		}
		return nil, false
	}
	it.Models["(*bytes.Buffer).Next"] = func(it *Interp, st *state, call *ssa.CallCommon, args []Value) (Value, bool) {
		rp, ok := args[0].(Ptr)
		if !ok {
			return nil, false
		}
		zeroBuffer(it, st, rp.Obj)
		data, ok1 := st.mem[rp.Obj][".data"].(SliceV)
		pos, ok2 := it.concreteInt(st.mem[rp.Obj][".pos"])
		n, ok3 := it.concreteInt(args[1])
		if !ok1 || !ok2 || !ok3 || n < 0 {
			return nil, false
		}
		if pos+n > data.Len {
			n = data.Len - pos
		}
		st.mem[rp.Obj][".pos"] = it.constBV(uint64(pos+n), 64)
		return SliceV{Obj: data.Obj, Path: data.Path, Lo: data.Lo + pos, Len: n}, true
	}
	it.Models["(*bytes.Buffer).Len"] = func(it *Interp, st *state, call *ssa.CallCommon, args []Value) (Value, bool) {
		rp, ok := args[0].(Ptr)
		if !ok {
			return nil, false
		}
		zeroBuffer(it, st, rp.Obj)
		data, ok1 := st.mem[rp.Obj][".data"].(SliceV)
		pos, ok2 := it.concreteInt(st.mem[rp.Obj][".pos"])
		if !ok1 || !ok2 {
			return nil, false
		}
		return it.constBV(uint64(data.Len-pos), 64).signed(), true
	}
	// dst.ReadFrom(src) with src a modelled buffer / reader: the unread octets of src are appended
	// to dst, src is drained; returns (n, nil)
	it.Models["(*bytes.Buffer).ReadFrom"] = func(it *Interp, st *state, call *ssa.CallCommon, args []Value) (Value, bool) {
		dp, ok1 := args[0].(Ptr)
		sp, ok2 := args[1].(Ptr)
		if !ok1 || !ok2 {
			return nil, false
		}
		zeroBuffer(it, st, sp.Obj)
		sdata, okD := st.mem[sp.Obj][".data"].(SliceV)
		spos, okP := it.concreteInt(st.mem[sp.Obj][".pos"])
		if !okD || !okP || sdata.Len < 0 {
			return nil, false
		}
		var bs []BV
		for i := spos; i < sdata.Len; i++ {
			b, ok := it.load(st, it.sliceElemPtr(sdata, i), u8T).(BV)
			if !ok {
				return nil, false
			}
			bs = append(bs, b)
		}
		if !bufWrite(it, st, dp, bs) {
			return nil, false
		}
		st.mem[sp.Obj][".pos"] = it.constBV(uint64(sdata.Len), 64)
		return TupleV{it.constBV(uint64(len(bs)), 64).signed(), NilV{}}, true
	}
	// a bytes.Reader over a slice has the same position/length model as a buffer used for reading
	it.Models["(*bytes.Reader).ReadByte"] = it.Models["(*bytes.Buffer).ReadByte"]
	it.Models["(*bytes.Reader).Len"] = it.Models["(*bytes.Buffer).Len"]
	it.Models["encoding/binary.Read"] = func(it *Interp, st *state, call *ssa.CallCommon, args []Value) (Value, bool) {
		rp, ok := args[0].(Ptr)
		if !ok {
			return nil, false
		}
		zeroBuffer(it, st, rp.Obj)
		data, ok1 := st.mem[rp.Obj][".data"].(SliceV)
		pos, ok2 := it.concreteInt(st.mem[rp.Obj][".pos"])
		if !ok1 || !ok2 {
			if os.Getenv("NASVERIF_DEBUG") == "read" {
				fmt.Fprintf(os.Stderr, "[e2] binary.Read: reader not modelled: obj=%s cells=%v\n", rp.Obj.Name, st.mem[rp.Obj])
			}
			return nil, false
		}
		take := func(n int) ([]BV, bool) {
			if pos+n > data.Len {
				return nil, false
			}
			var out []BV
			for i := 0; i < n; i++ {
				b, ok := it.load(st, it.sliceElemPtr(data, pos+i), u8T).(BV)
				if !ok {
					return nil, false
				}
				out = append(out, b)
			}
			st.mem[rp.Obj][".pos"] = it.constBV(uint64(pos+n), 64)
			return out, true
		}
		switch dst := args[2].(type) {
		case Ptr:
			// size from the static type of the pointer operand
			mi, ok := call.Args[2].(*ssa.MakeInterface)
			if !ok {
				return nil, false
			}
			pt, ok := mi.X.Type().Underlying().(*types.Pointer)
			if !ok {
				return nil, false
			}
			// fixed-size layout of the target: integers, arrays and structs of them, in order
			type cellT struct {
				path string
				w    int
			}
			var cells []cellT
			var lay func(t types.Type, path string) bool
			lay = func(t types.Type, path string) bool {
				if w, _, isInt := typeWidth(t); isInt {
					if w%8 != 0 {
						return false
					}
					cells = append(cells, cellT{path, w})
					return true
				}
				switch u := t.Underlying().(type) {
				case *types.Struct:
					for i := 0; i < u.NumFields(); i++ {
						if !lay(u.Field(i).Type(), path+"."+u.Field(i).Name()) {
							return false
						}
					}
					return true
				case *types.Array:
					for i := 0; i < int(u.Len()); i++ {
						if !lay(u.Elem(), fmt.Sprintf("%s[%d]", path, i)) {
							return false
						}
					}
					return true
				}
				return false
			}
			if !lay(pt.Elem(), "") {
				return nil, false
			}
			total := 0
			for _, c := range cells {
				total += c.w / 8
			}
			bs, ok := take(total)
			if !ok {
				return eofValue(pos >= data.Len), true
			}
			k := 0
			for _, c := range cells {
				v := BV{W: 0}
				for i := 0; i < c.w/8; i++ { // big endian: first octet is the most significant
					v = bvCat(v, bs[k])
					k++
				}
				it.store(st, Ptr{Obj: dst.Obj, Path: dst.Path + c.path}, v)
			}
			return NilV{}, true
		case SliceV:
			if dst.Len < 0 {
				return nil, false
			}
			bs, ok := take(dst.Len)
			if !ok {
				return eofValue(pos >= data.Len), true
			}
			for i, b := range bs {
				it.store(st, it.sliceElemPtr(dst, i), b)
			}
			return NilV{}, true
		}
		return nil, false
	}
}

// checkPcoShapes: UnMarshal on inputs with concrete identifier and length octets and symbolic
// contents returns exactly the units laid out in the octets, in order - including zero-length
// units in every position.
func checkPcoShapes(w *World, r *Report, fu *types.Func) bool {
	all := true
	fn := w.SSAFunc(fu)
	fname := FuncName(fu)
	for _, shape := range [][]int{{}, {0}, {3}, {0, 0}, {2, 0}, {0, 2}, {4, 0, 1}, {1, 5, 0}} {
		r.Site("pco.units")
		it := NewInterp(w)
		it.Fuel = 100000
		readerModels(it)
		st := it.NewState()
		bo := it.NewObj("data", true)
		st.mem[bo] = map[string]Value{"[0]": it.constBV(0x80, 8)}
		off := 1
		var offs []int
		for i, l := range shape {
			offs = append(offs, off)
			st.mem[bo][fmt.Sprintf("[%d]", off)] = it.constBV(0, 8)
			st.mem[bo][fmt.Sprintf("[%d]", off+1)] = it.constBV(uint64(0x0d+i), 8)
			st.mem[bo][fmt.Sprintf("[%d]", off+2)] = it.constBV(uint64(l), 8)
			off += 3 + l
		}
		ro, recv := it.SymbolicObj("pco")
		st.mem[ro] = map[string]Value{".ProtocolOrContainerList": SliceV{Nil: true, Len: 0}}
		res := it.Call(fn, []Value{recv, SliceV{Obj: bo, Len: off}}, st, 0)
		what := fmt.Sprintf("unit content lengths %v", shape)
		good, why := true, ""
		if len(it.Unsup) > 0 {
			good, why = false, fmt.Sprintf("undecided: %v", it.Unsup)
		}
		if _, isNil := res.(NilV); good && !isNil {
			good, why = false, "a well-formed list is rejected"
		}
		var list SliceV
		if good {
			l, ok := it.load(st, Ptr{Obj: ro, Path: ".ProtocolOrContainerList"}, types.NewSlice(types.Typ[types.Int])).(SliceV)
			n := l.Len
			if l.Nil {
				n = 0
			}
			if !ok || n != len(shape) {
				good, why = false, fmt.Sprintf("%d units returned, the octets hold %d", n, len(shape))
			}
			list = l
		}
		for i := 0; good && i < len(shape); i++ {
			up, ok := elemOf(it, st, list, i, nil).(Ptr)
			if !ok {
				good, why = false, fmt.Sprintf("unit %d not resolvable", i)
				break
			}
			id := it.load(st, Ptr{Obj: up.Obj, Path: up.Path + ".ProtocolOrContainerID"}, types.Typ[types.Uint16])
			ln := it.load(st, Ptr{Obj: up.Obj, Path: up.Path + ".LengthOfContents"}, u8T)
			if ok, m := sameBV(it, id, it.constBV(uint64(0x0d+i), 16)); !ok {
				good, why = false, fmt.Sprintf("unit %d identifier: %s", i, m)
				break
			}
			if ok, m := sameBV(it, ln, it.constBV(uint64(shape[i]), 8)); !ok {
				good, why = false, fmt.Sprintf("unit %d length: %s", i, m)
				break
			}
			cs, okc := it.load(st, Ptr{Obj: up.Obj, Path: up.Path + ".Contents"}, types.NewSlice(u8T)).(SliceV)
			bs, okb := sliceBytes(it, st, cs)
			if !okc || !okb || len(bs) != shape[i] {
				good, why = false, fmt.Sprintf("unit %d contents are not %d octets", i, shape[i])
				break
			}
			if shape[i] > 0 && cs.Obj == bo {
				good, why = false, fmt.Sprintf("unit %d contents alias the input octets instead of being a copy of them", i)
				break
			}
			for k := range bs {
				if ok, m := sameBV(it, bs[k], it.SrcBV(fmt.Sprintf("data[%d]", offs[i]+3+k), 8)); !ok {
					good, why = false, fmt.Sprintf("unit %d content octet %d: %s", i, k, m)
					break
				}
			}
		}
		if good {
			r.OK("pco.units")
		} else {
			all = false
			r.Fail("pco.units", fname, what, fu.Pos(), "UnMarshal does not return exactly the units laid out in the input ("+what+"): "+why, nil)
		}
	}
	r.Expect("pco.units", 8)
	return all
}


// checkPcoMarshalShapes (pco.marshal): Marshal evaluated (E2) on lists of units with symbolic
// identifiers, length octets and contents (contents at concrete lengths) writes 0x80 and then,
// for each unit in order, identifier (2 octets, big endian), the stored length octet and the
// contents — whatever the style it is written in.
func checkPcoMarshalShapes(w *World, r *Report, fm *types.Func) bool {
	fn := w.SSAFunc(fm)
	fname := FuncName(fm)
	all := true
	for _, shape := range [][]int{{}, {0}, {3}, {0, 0}, {2, 0}, {1, 5, 0}} {
		r.Site("pco.marshal")
		it := NewInterp(w)
		it.Fuel = 100000
		readerModels(it)
		st := it.NewState()
		ro, recv := it.SymbolicObj("pco")
		lo := it.NewObj("list", false)
		st.mem[lo] = map[string]Value{}
		var want []BV
		want = append(want, it.constBV(0x80, 8))
		for i, l := range shape {
			uo := it.NewObj(fmt.Sprintf("unit%d", i), false)
			id := it.SrcBV(fmt.Sprintf("unit%d.id", i), 16)
			ln := it.SrcBV(fmt.Sprintf("unit%d.len", i), 8)
			co := it.NewObj(fmt.Sprintf("unit%d.contents", i), true)
			st.mem[co] = map[string]Value{}
			st.mem[uo] = map[string]Value{".ProtocolOrContainerID": id, ".LengthOfContents": ln, ".Contents": SliceV{Obj: co, Len: l}}
			st.mem[lo][fmt.Sprintf("[%d]", i)] = Ptr{Obj: uo}
			want = append(want, bvBits(id, 8, 8), bvBits(id, 0, 8), ln)
			for k := 0; k < l; k++ {
				want = append(want, it.SrcBV(fmt.Sprintf("unit%d.contents[%d]", i, k), 8))
			}
		}
		st.mem[ro] = map[string]Value{".ProtocolOrContainerList": SliceV{Obj: lo, Len: len(shape)}}
		res := it.Call(fn, []Value{recv}, st, 0)
		what := fmt.Sprintf("unit content lengths %v", shape)
		good, why := true, ""
		got, okB := sliceBytes(it, st, res)
		switch {
		case len(it.Unsup) > 0:
			good, why = false, fmt.Sprintf("undecided: %v", it.Unsup)
		case !okB:
			good, why = false, "result not resolvable"
		case len(got) != len(want):
			good, why = false, fmt.Sprintf("%d octets written, the layout has %d", len(got), len(want))
		}
		for k := 0; good && k < len(want); k++ {
			if ok, m := sameBV(it, got[k], want[k]); !ok {
				good, why = false, fmt.Sprintf("octet %d: %s", k, m)
			}
		}
		for wk := range it.Writes {
			if good && (strings.HasPrefix(wk, "pco") || strings.HasPrefix(wk, "unit") || strings.HasPrefix(wk, "list")) {
				good, why = false, "Marshal writes "+wk
			}
		}
		if good {
			r.OK("pco.marshal")
		} else {
			all = false
			r.Fail("pco.marshal", fname, what, fm.Pos(), "Marshal does not write 0x80 followed by identifier, length octet and contents of every unit ("+what+"): "+why, nil)
		}
	}
	r.Expect("pco.marshal", 6)
	return all
}
