package main

// Properties decided (wholly or partly) by E3: C01 first; C14, C15, C16, C18 and the panic
// clause of C08 use the same runner.

import (
	"fmt"
	"go/token"
	"go/types"
	"os"
	"sort"
	"strings"
	"time"

	"golang.org/x/tools/go/ssa"
)

func init() {
	register("C01", propC01)
}

type entrySpec struct {
	Fn      *types.Func
	Name    string
	Args    func(sa *Safe, fr *frame, st *State, fn *ssa.Function) []AVal
	Premise string
}

// runEntries analyses each entry point and transfers obligations, loops and unsupported
// constructs into the report. keep filters which obligations belong to the property.
func runEntries(w *World, r *Report, entries []entrySpec) *Safe {
	sa := NewSafe(w)
	for _, e := range entries {
		fn := w.SSAFunc(e.Fn)
		if fn == nil {
			r.Fail("anchor", e.Name, "missing", token.NoPos, "entry point not found", nil)
			continue
		}
		sa.entry = e.Name
		root := sa.newFrame(fn, 0)
		st := newState(sa.u)
		root.at(nil)
		args := e.Args(sa, root, st, fn)
		sa.stack = []*ssa.Function{fn}
		t0 := time.Now()
		w0 := sa.work
		sa.analyzeFunc(root, args, st)
		if os.Getenv("NASVERIF_DEBUG") != "" {
			fmt.Fprintf(os.Stderr, "entry %-60s %6.2fs work=%d atoms=%d\n", e.Name, time.Since(t0).Seconds(), sa.work-w0, len(sa.u.atoms))
		}
		r.Site("safe.entries")
	}
	return sa
}

func (sa *Safe) report(r *Report, prefix string) {
	keys := append([]string{}, sa.order...)
	sort.Strings(keys)
	for _, k := range keys {
		o := sa.Obls[k]
		r.Site(o.Rule)
		if o.OK {
			r.OK(o.Rule)
			if len(r.Samples) < 10 && (o.Rule == "safe.slice" || o.Rule == "safe.index") {
				r.Sample(map[string]any{"rule": o.Rule, "func": o.Fn, "construct": o.What, "discharged": true})
			}
		} else {
			r.Fail(o.Rule, o.Fn, o.What, o.Pos, o.Detail+" [reachable from "+o.Entry+" via "+strings.Join(o.Path, " → ")+"]", map[string]any{"entry": o.Entry, "call_path": o.Path})
		}
	}
	var lk []string
	for k := range sa.Loops {
		lk = append(lk, k)
	}
	sort.Strings(lk)
	for _, k := range lk {
		li := sa.Loops[k]
		r.Site("safe.loop")
		if li.OK {
			r.OK("safe.loop")
		} else {
			r.Fail("safe.loop", li.Fn, strings.TrimPrefix(k, li.Fn+"#"), li.Pos, "loop matches no ranking rule: "+li.Why, nil)
		}
	}
	var uk []string
	for k := range sa.Unsup {
		uk = append(uk, k)
	}
	sort.Strings(uk)
	for _, k := range uk {
		r.Fail("safe.unsupported", "-", k, sa.Unsup[k], "construct outside the prover's fragment (no verdict can be given for code depending on it): "+k, nil)
	}
	for f := range sa.Funcs {
		r.Fn(f)
	}
}

// nonNilRecv builds a non-nil pointer argument to a fresh, precisely tracked object.
func nonNilPtrArg(sa *Safe, fr *frame, st *State, t types.Type, desc string) AVal {
	o := sa.mObj(fr, desc, false)
	return AVal{Kind: avPtr, Obj: o, NonNil: true, Type: t}
}

func propC01(w *World, r *Report, tier string) {
	r.Explanation = "Abstract interpretation (E3: linear expressions over immutable atoms with interval refinements, linear facts from dominating guards, " +
		"nil-ness symbols and an access-path store; context-sensitive over the call graph, callees analysed in the caller's abstract context) of the three " +
		"decode entry points and everything they reach. Every instruction that can panic (index, slice, nil dereference, division, make, type assertion, " +
		"explicit panic, stdlib preconditions) is an obligation that must be discharged on every path; every natural loop must match a ranking rule " +
		"(optional-part loops: R-consume — each iteration reads >= 1 octet from the same buffer and a failed read leaves the loop); every variable-size " +
		"allocation is bounded by the range of its length field (<= 65535 octets). The codec extractor (E1) independently re-checks that each fixed-array " +
		"read is guarded and that every buffer allocation is followed by a checked full read."
	r.Assumptions = []string{
		"PlainNasDecode: no assumption on the argument (nil and empty included); Gmm/GsmMessageDecode: the *[]byte argument is non-nil (the property quantifies over byte strings)",
		"the receiver *Message is non-nil",
		"stdlib contracts: binary.Read returns an error instead of panicking for fixed-size targets and byte slices and writes only its data argument; bytes.Buffer.Len() >= 0",
		"CPU time inside encoding/binary is linear in the octets transferred",
	}
	r.Trusted = []string{"go/ssa, VTA call graph (x/tools v0.29.0)", "stdlib contracts in checker/safe_calls.go", "the prove() fragment of checker/safe_domain.go"}
	msgT := w.LookupFunc("", "Message.PlainNasDecode")
	if msgT == nil {
		panic(anchorError("nas.(*Message).PlainNasDecode"))
	}
	mk := func(name string, inputNonNil bool) entrySpec {
		f := w.LookupFunc("", "Message."+name)
		if f == nil {
			panic(anchorError("nas.(*Message)." + name))
		}
		return entrySpec{Fn: f, Name: FuncName(f), Args: func(sa *Safe, fr *frame, st *State, fn *ssa.Function) []AVal {
			recv := nonNilPtrArg(sa, fr, st, fn.Params[0].Type(), "msg")
			in := nonNilPtrArg(sa, fr, st, fn.Params[1].Type(), "input")
			if !inputNonNil {
				in.NonNil = false
				in.Sym, in.HasSym = sa.mSym(fr, "byteArray"), true
			}
			return []AVal{recv, in}
		}}
	}
	entries := []entrySpec{mk("PlainNasDecode", false), mk("GmmMessageDecode", true), mk("GsmMessageDecode", true)}
	sa := runEntries(w, r, entries)
	sa.report(r, "C01")
	r.Expect("safe.entries", 3)
	r.ExpectCensus("safe.loop", sa.loopCensus(), 44)
	r.Expect("safe.slice", 1) // style-dependent count: see safe.entries
	// allocation bound
	var maxFixed int64
	nvar := 0
	for _, a := range sa.Allocs {
		r.Site("safe.alloc.bound")
		if a.Size == "fixed" {
			if a.Max > maxFixed {
				maxFixed = a.Max
			}
			r.OK("safe.alloc.bound")
			continue
		}
		nvar++
		if a.Max > 65535 {
			r.Fail("safe.alloc.bound", a.Fn, a.What, a.Pos, fmt.Sprintf("variable-size allocation %s is not bounded by 65535 octets (bound %d, size %s)", a.What, a.Max, a.Size), nil)
		} else {
			r.OK("safe.alloc.bound")
		}
	}
	r.Extra["allocation_bound"] = fmt.Sprintf("alloc <= c*len(input) + 65535 + c with c = %d octets (largest fixed-size allocation); %d variable-size allocation sites, each <= 65535", maxFixed, nvar)
	// E1 cross-check: array guards and alloc-then-read
	cs := ExtractCodecs(w)
	// every element with a heap buffer: SetLen(n) leaves Len == n and Buffer a slice freshly made
	// with exactly n octets (decided per element type, whatever the decoders look like)
	{
		var names []string
		for n := range cs.IEs {
			names = append(names, n)
		}
		sort.Strings(names)
		for _, n := range names {
			d := cs.IEs[n]
			if d == nil || d.Storage != "buffer" {
				continue
			}
			r.Site("codec.setlen-exact")
			if !d.SetLenOK || !d.SetLenMk {
				r.Fail("codec.setlen-exact", "nasType.(*"+n+").SetLen", n, token.NoPos, "SetLen does not leave Len = n and Buffer = a fresh slice of exactly n octets: "+d.SetLenBad, nil)
			} else {
				r.OK("codec.setlen-exact")
			}
		}
	}
	skipped := 0
	for _, c := range cs.Codecs {
		nprob := 0
		for _, p := range c.Problems {
			if strings.Contains(p.Func, "Decode") {
				nprob++
			}
		}
		if nprob > 0 {
			// E1 is the cross-check here, E3 the decider: a decoder whose statements E1 cannot read has no
			// cross-check; its obligations (index, slice, nil, make, loop ranking, allocation bound) are
			// all in the E3 report above
			skipped++
			r.Note("E1 cross-check not available for %s (%d statements outside the generator's forms): decided by E3 alone", decFn(c), nprob)
			continue
		}
		chk := func(ds *DecSlot) {
			f := c.Field(ds.IE)
			if f == nil {
				return
			}
			for _, it := range ds.Items {
				switch it.Ext {
				case "array-len":
					r.Site("codec.array-guard")
					g, ok := acceptedSet(ds)
					if !ok || g.Max() > f.Desc.ArrayN || !ds.ErrOK {
						r.Fail("codec.array-guard", decFn(c), ds.IE, it.Pos, fmt.Sprintf("Octet[:Len] with Len up to %d on a %d-octet array", g.Max(), f.Desc.ArrayN), nil)
					} else {
						r.OK("codec.array-guard")
					}
				case "buffer":
					r.Site("codec.alloc-then-read")
					if !ds.SetLen || !f.Desc.SetLenMk || !ds.ErrOK {
						r.Fail("codec.alloc-then-read", decFn(c), ds.IE, it.Pos, "buffer allocation is not followed by a checked full read (or SetLen does not allocate exactly Len)", nil)
					} else {
						r.OK("codec.alloc-then-read")
					}
				}
			}
		}
		for i := range c.DecMand {
			chk(&c.DecMand[i])
		}
		if c.DecLoop != nil {
			for i := range c.DecLoop.Cases {
				chk(&c.DecLoop.Cases[i].Slot)
			}
			r.Site("codec.loop-consumes")
			if !c.DecLoop.CondOK || !c.DecLoop.FirstRead {
				r.Fail("codec.loop-consumes", decFn(c), "optional loop", c.DecLoop.Pos, "the optional-part loop does not start each iteration with a checked 1-octet read", nil)
			} else {
				r.OK("codec.loop-consumes")
			}
		}
	}
	if skipped == 0 {
		r.Expect("codec.array-guard", 8)
	}
	r.Expect("codec.setlen-exact", 10)
	r.Extra["reachable_functions"] = len(sa.Funcs)
}

// ---------------------------------------------------------------------------------------------
// C14

func init() { register("C14", propC14) }

// anyBytes: a []byte / string argument of arbitrary length and content (nil allowed).
func anyArg(sa *Safe, fr *frame, st *State, t types.Type, desc string) AVal {
	v := sa.freshM(fr, st, t, desc, nilMaybe)
	if v.Obj != nil {
		v.Obj.Summary = false
	}
	return v
}

// ieArg: a non-nil pointer to an IE struct as the decoder produces it: len(Buffer) == Len.
func ieArg(sa *Safe, fr *frame, st *State, t types.Type, desc string) AVal {
	p := nonNilPtrArg(sa, fr, st, t, desc)
	pt, ok := t.Underlying().(*types.Pointer)
	if !ok {
		return p
	}
	stt, ok := pt.Elem().Underlying().(*types.Struct)
	if !ok {
		return p
	}
	var lenF, bufF *types.Var
	for i := 0; i < stt.NumFields(); i++ {
		switch stt.Field(i).Name() {
		case "Len":
			lenF = stt.Field(i)
		case "Buffer":
			bufF = stt.Field(i)
		}
	}
	if lenF != nil && bufF != nil {
		ln := sa.freshM(fr, st, lenF.Type(), desc+".Len", nilMaybe)
		sa.storePath(st, p.Obj, ".Len", ln)
		bo := sa.mObj(fr, desc+".Buffer", false)
		sa.storePath(st, p.Obj, ".Buffer", AVal{Kind: avSlice, Obj: bo, Len: ln.Lin, Sym: sa.mSym(fr, desc+".Buffer"), HasSym: true, Type: bufF.Type()})
	}
	return p
}

func propC14(w *World, r *Report, tier string) {
	r.Explanation = "Abstract interpretation (E3) of every conversion helper that interprets UE-supplied element contents, each entered with an arbitrary byte " +
		"string / string of any length (nil and empty included); receivers that are IE structs are assumed only to be as the decoder produces them " +
		"(len(Buffer) == Len). Every panic-capable instruction reachable from the entry is an obligation to be discharged on every path and every loop " +
		"must match a ranking rule. An obligation the prover cannot discharge is reported with the function, the expression and the bounds known."
	r.Assumptions = []string{
		"[]byte / string arguments: any length, any content, possibly nil",
		"IE struct receivers: non-nil, len(Buffer) == Len (established by SetLen in the decoder); any Len",
		"text getters of MobileIdentity5GS and DNN: Buffer is an arbitrary byte string (these getters never look at Len)",
		"stdlib contracts of checker/safe_calls.go (hex, strconv, strings, fmt never panic; hex.EncodeToString doubles the length)",
	}
	r.Trusted = []string{"go/ssa", "stdlib contracts in checker/safe_calls.go", "prove() fragment of checker/safe_domain.go"}
	var entries []entrySpec
	add := func(rel, name string, kinds ...string) {
		f := w.LookupFunc(rel, name)
		if f == nil {
			r.Fail("anchor", rel+"."+name, "missing", token.NoPos, "entry point "+rel+"."+name+" not found", nil)
			return
		}
		entries = append(entries, entrySpec{Fn: f, Name: FuncName(f), Args: func(sa *Safe, fr *frame, st *State, fn *ssa.Function) []AVal {
			var args []AVal
			for i, p := range fn.Params {
				k := "any"
				if i < len(kinds) {
					k = kinds[i]
				}
				switch k {
				case "ie":
					args = append(args, ieArg(sa, fr, st, p.Type(), p.Name()))
				case "recv":
					a := nonNilPtrArg(sa, fr, st, p.Type(), p.Name())
					args = append(args, a)
				default:
					args = append(args, anyArg(sa, fr, st, p.Type(), p.Name()))
				}
			}
			return args
		}})
	}
	for _, n := range []string{"SuciToString", "SuciToStringWithError", "NaiToString", "GutiToString", "GutiToStringWithError", "GutiToNas", "GutiToNasWithError",
		"PeiToString", "PeiToStringWithError", "AmfIdToNas", "AmfIdToNasWithError", "LadnToModels", "UESecurityCapabilityToByteArray", "PSIToBooleanArray",
		"UpuAckToModels", "GetTypeOfIdentity"} {
		add("nasConvert", n)
	}
	add("nasConvert", "RequestedNssaiToModels", "ie")
	for _, n := range []string{"DecodeUniversalTimeAndLocalTimeZone", "DecodeLocalTimeZone", "DecodeDaylightSavingTime"} {
		if w.LookupFunc("nasConvert", n) != nil {
			add("nasConvert", n, "recv")
		}
	}
	// text getters of MobileIdentity5GS and DNN
	for _, tn := range []string{"MobileIdentity5GS", "DNN"} {
		o, _ := w.Pkg("nasType").Types.Scope().Lookup(tn).(*types.TypeName)
		if o == nil {
			r.Fail("anchor", "nasType."+tn, "missing", token.NoPos, "type not found", nil)
			continue
		}
		ms := types.NewMethodSet(types.NewPointer(o.Type()))
		for i := 0; i < ms.Len(); i++ {
			m := ms.At(i).Obj().(*types.Func)
			if !strings.HasPrefix(m.Name(), "Get") || m.Name() == "GetIei" || m.Name() == "GetLen" {
				continue
			}
			add("nasType", tn+"."+m.Name(), "recv")
		}
	}
	sa := runEntries(w, r, entries)
	sa.report(r, "C14")
	r.Expect("safe.entries", 30)
	r.Extra["entry_points"] = len(entries)
	r.Extra["reachable_functions"] = len(sa.Funcs)
}

// ---------------------------------------------------------------------------------------------
// totality runs shared by C15, C16, C18

func totalityEntries(w *World, r *Report, specs [][3]string) []entrySpec {
	var entries []entrySpec
	for _, s := range specs {
		rel, name, kinds := s[0], s[1], strings.Split(s[2], ",")
		f := w.LookupFunc(rel, name)
		if f == nil {
			r.Fail("anchor", rel+"."+name, "missing", token.NoPos, "entry point "+rel+"."+name+" not found", nil)
			continue
		}
		entries = append(entries, entrySpec{Fn: f, Name: FuncName(f), Args: func(sa *Safe, fr *frame, st *State, fn *ssa.Function) []AVal {
			var args []AVal
			for i, p := range fn.Params {
				k := "any"
				if i < len(kinds) && kinds[i] != "" {
					k = kinds[i]
				}
				switch k {
				case "recv":
					args = append(args, nonNilPtrArg(sa, fr, st, p.Type(), p.Name()))
				default:
					args = append(args, anyArg(sa, fr, st, p.Type(), p.Name()))
				}
			}
			return args
		}})
	}
	return entries
}

// securityEntries: NASEncrypt / NASMacCalculate with arbitrary parameters and a payload of
// arbitrary content whose length is at most 2^24 octets (so that 8*len fits the uint32 bit length).
func securityEntries(w *World, r *Report) []entrySpec {
	var out []entrySpec
	for _, n := range []string{"NASEncrypt", "NASMacCalculate"} {
		f := w.LookupFunc("security", n)
		if f == nil {
			r.Fail("anchor", "security."+n, "missing", token.NoPos, "entry point not found", nil)
			continue
		}
		out = append(out, entrySpec{Fn: f, Name: FuncName(f), Args: func(sa *Safe, fr *frame, st *State, fn *ssa.Function) []AVal {
			var args []AVal
			for _, p := range fn.Params {
				a := anyArg(sa, fr, st, p.Type(), p.Name())
				if a.Kind == avSlice && a.Len != nil {
					st.itv[onlyAtom(a.Len)] = Itv{0, 1 << 24}
				}
				args = append(args, a)
			}
			return args
		}})
	}
	return out
}
