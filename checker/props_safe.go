package main

// Properties decided (wholly or partly) by E3: C01 first; C14, C15, C16, C18 and the panic
// clause of C08 use the same runner.

import (
	"fmt"
	"go/token"
	"go/types"
	"sort"
	"strings"

	"golang.org/x/tools/go/ssa"
)

func init() {
	register("C01", propC01)
}

type entrySpec struct {
	Fn      *types.Func
	Name    string
	Args    func(sa *Safe, fr *frame, st *State, fn *ssa.Function) []AVal
	Premise string
}

// runEntries analyses each entry point and transfers obligations, loops and unsupported
// constructs into the report. keep filters which obligations belong to the property.
func runEntries(w *World, r *Report, entries []entrySpec) *Safe {
	sa := NewSafe(w)
	for _, e := range entries {
		fn := w.SSAFunc(e.Fn)
		if fn == nil {
			r.Fail("anchor", e.Name, "missing", token.NoPos, "entry point not found", nil)
			continue
		}
		sa.entry = e.Name
		root := sa.newFrame(fn, 0)
		st := newState(sa.u)
		root.at(nil)
		args := e.Args(sa, root, st, fn)
		sa.stack = []*ssa.Function{fn}
		sa.analyzeFunc(root, args, st)
		r.Site("safe.entries")
	}
	return sa
}

func (sa *Safe) report(r *Report, prefix string) {
	keys := append([]string{}, sa.order...)
	sort.Strings(keys)
	for _, k := range keys {
		o := sa.Obls[k]
		r.Site(o.Rule)
		if o.OK {
			r.OK(o.Rule)
			if len(r.Samples) < 10 && (o.Rule == "safe.slice" || o.Rule == "safe.index") {
				r.Sample(map[string]any{"rule": o.Rule, "func": o.Fn, "construct": o.What, "discharged": true})
			}
		} else {
			r.Fail(o.Rule, o.Fn, o.What, o.Pos, o.Detail+" [reachable from "+o.Entry+" via "+strings.Join(o.Path, " → ")+"]", map[string]any{"entry": o.Entry, "call_path": o.Path})
		}
	}
	var lk []string
	for k := range sa.Loops {
		lk = append(lk, k)
	}
	sort.Strings(lk)
	for _, k := range lk {
		li := sa.Loops[k]
		r.Site("safe.loop")
		if li.OK {
			r.OK("safe.loop")
		} else {
			r.Fail("safe.loop", li.Fn, strings.TrimPrefix(k, li.Fn+"#"), li.Pos, "loop matches no ranking rule: "+li.Why, nil)
		}
	}
	var uk []string
	for k := range sa.Unsup {
		uk = append(uk, k)
	}
	sort.Strings(uk)
	for _, k := range uk {
		r.Fail("safe.unsupported", "-", k, sa.Unsup[k], "construct outside the prover's fragment (no verdict can be given for code depending on it): "+k, nil)
	}
	for f := range sa.Funcs {
		r.Fn(f)
	}
}

// nonNilRecv builds a non-nil pointer argument to a fresh, precisely tracked object.
func nonNilPtrArg(sa *Safe, fr *frame, st *State, t types.Type, desc string) AVal {
	o := sa.mObj(fr, desc, false)
	return AVal{Kind: avPtr, Obj: o, NonNil: true, Type: t}
}

func propC01(w *World, r *Report, tier string) {
	r.Explanation = "Abstract interpretation (E3: linear expressions over immutable atoms with interval refinements, linear facts from dominating guards, " +
		"nil-ness symbols and an access-path store; context-sensitive over the call graph, callees analysed in the caller's abstract context) of the three " +
		"decode entry points and everything they reach. Every instruction that can panic (index, slice, nil dereference, division, make, type assertion, " +
		"explicit panic, stdlib preconditions) is an obligation that must be discharged on every path; every natural loop must match a ranking rule " +
		"(optional-part loops: R-consume — each iteration reads >= 1 octet from the same buffer and a failed read leaves the loop); every variable-size " +
		"allocation is bounded by the range of its length field (<= 65535 octets). The codec extractor (E1) independently re-checks that each fixed-array " +
		"read is guarded and that every buffer allocation is followed by a checked full read."
	r.Assumptions = []string{
		"PlainNasDecode: no assumption on the argument (nil and empty included); Gmm/GsmMessageDecode: the *[]byte argument is non-nil (the property quantifies over byte strings)",
		"the receiver *Message is non-nil",
		"stdlib contracts: binary.Read returns an error instead of panicking for fixed-size targets and byte slices and writes only its data argument; bytes.Buffer.Len() >= 0",
		"CPU time inside encoding/binary is linear in the octets transferred",
	}
	r.Trusted = []string{"go/ssa, VTA call graph (x/tools v0.29.0)", "stdlib contracts in checker/safe_calls.go", "the prove() fragment of checker/safe_domain.go"}
	msgT := w.LookupFunc("", "Message.PlainNasDecode")
	if msgT == nil {
		panic(anchorError("nas.(*Message).PlainNasDecode"))
	}
	mk := func(name string, inputNonNil bool) entrySpec {
		f := w.LookupFunc("", "Message."+name)
		if f == nil {
			panic(anchorError("nas.(*Message)." + name))
		}
		return entrySpec{Fn: f, Name: FuncName(f), Args: func(sa *Safe, fr *frame, st *State, fn *ssa.Function) []AVal {
			recv := nonNilPtrArg(sa, fr, st, fn.Params[0].Type(), "msg")
			in := nonNilPtrArg(sa, fr, st, fn.Params[1].Type(), "input")
			if !inputNonNil {
				in.NonNil = false
				in.Sym, in.HasSym = sa.mSym(fr, "byteArray"), true
			}
			return []AVal{recv, in}
		}}
	}
	entries := []entrySpec{mk("PlainNasDecode", false), mk("GmmMessageDecode", true), mk("GsmMessageDecode", true)}
	sa := runEntries(w, r, entries)
	sa.report(r, "C01")
	r.Expect("safe.entries", 3)
	r.Expect("safe.loop", 44)
	r.Expect("safe.slice", 8)
	// allocation bound
	var maxFixed int64
	nvar := 0
	for _, a := range sa.Allocs {
		r.Site("safe.alloc.bound")
		if a.Size == "fixed" {
			if a.Max > maxFixed {
				maxFixed = a.Max
			}
			r.OK("safe.alloc.bound")
			continue
		}
		nvar++
		if a.Max > 65535 {
			r.Fail("safe.alloc.bound", a.Fn, a.What, a.Pos, fmt.Sprintf("variable-size allocation %s is not bounded by 65535 octets (bound %d, size %s)", a.What, a.Max, a.Size), nil)
		} else {
			r.OK("safe.alloc.bound")
		}
	}
	r.Extra["allocation_bound"] = fmt.Sprintf("alloc <= c*len(input) + 65535 + c with c = %d octets (largest fixed-size allocation); %d variable-size allocation sites, each <= 65535", maxFixed, nvar)
	// E1 cross-check: array guards and alloc-then-read
	cs := ExtractCodecs(w)
	for _, c := range cs.Codecs {
		for _, p := range c.Problems {
			if strings.Contains(p.Func, "Decode") {
				r.Fail("codec.unclassified", p.Func, p.Msg, p.Pos, p.Msg, nil)
			}
		}
		chk := func(ds *DecSlot) {
			f := c.Field(ds.IE)
			if f == nil {
				return
			}
			for _, it := range ds.Items {
				switch it.Ext {
				case "array-len":
					r.Site("codec.array-guard")
					g, ok := acceptedSet(ds)
					if !ok || g.Max() > f.Desc.ArrayN || !ds.ErrOK {
						r.Fail("codec.array-guard", decFn(c), ds.IE, it.Pos, fmt.Sprintf("Octet[:Len] with Len up to %d on a %d-octet array", g.Max(), f.Desc.ArrayN), nil)
					} else {
						r.OK("codec.array-guard")
					}
				case "buffer":
					r.Site("codec.alloc-then-read")
					if !ds.SetLen || !f.Desc.SetLenMk || !ds.ErrOK {
						r.Fail("codec.alloc-then-read", decFn(c), ds.IE, it.Pos, "buffer allocation is not followed by a checked full read (or SetLen does not allocate exactly Len)", nil)
					} else {
						r.OK("codec.alloc-then-read")
					}
				}
			}
		}
		for i := range c.DecMand {
			chk(&c.DecMand[i])
		}
		if c.DecLoop != nil {
			for i := range c.DecLoop.Cases {
				chk(&c.DecLoop.Cases[i].Slot)
			}
			r.Site("codec.loop-consumes")
			if !c.DecLoop.CondOK || !c.DecLoop.FirstRead {
				r.Fail("codec.loop-consumes", decFn(c), "optional loop", c.DecLoop.Pos, "the optional-part loop does not start each iteration with a checked 1-octet read", nil)
			} else {
				r.OK("codec.loop-consumes")
			}
		}
	}
	r.Expect("codec.array-guard", 8)
	r.Extra["reachable_functions"] = len(sa.Funcs)
}
