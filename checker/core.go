package main

// E0: loader, resolver, reporting, evidence, known findings.

import (
	"encoding/json"
	"fmt"
	"go/ast"
	"go/token"
	"go/types"
	"os"
	"path/filepath"
	"sort"
	"strings"
	"sync"
	"time"

	"golang.org/x/tools/go/callgraph"
	"golang.org/x/tools/go/callgraph/cha"
	"golang.org/x/tools/go/callgraph/vta"
	"golang.org/x/tools/go/packages"
	"golang.org/x/tools/go/ssa"
	"golang.org/x/tools/go/ssa/ssautil"
)

const modPath = "github.com/free5gc/nas"

var (
	verifDir = envOr("NASVERIF_HOME", "/verif")
	repoDir  = envOr("NASVERIF_REPO", "/repo")
)

func envOr(k, d string) string {
	if v := os.Getenv(k); v != "" {
		return v
	}
	return d
}

// World is the loaded, type-checked program.
type World struct {
	Fset  *token.FileSet
	Pkgs  []*packages.Package          // repository packages (library + generator), no tests
	ByRel map[string]*packages.Package // "nasType" -> pkg ; "" -> root package nas
	Prog  *ssa.Program
	SSA   map[*packages.Package]*ssa.Package
	Arch  string

	cgOnce   sync.Once
	cg       *callgraph.Graph
	allFuncs map[*ssa.Function]bool
}

// LoadWorld loads /repo's current working tree. overlay maps absolute file name to contents
// (used only by the self-test).
func LoadWorld(arch string, overlay map[string][]byte) (*World, error) {
	env := append(os.Environ(), "GOFLAGS=-mod=mod", "GOPROXY=off", "GOSUMDB=off", "GOWORK=off", "GOTOOLCHAIN=local")
	if arch != "" {
		env = append(env, "GOARCH="+arch)
	}
	cfg := &packages.Config{
		Mode:       packages.LoadAllSyntax,
		Dir:        repoDir,
		Env:        env,
		BuildFlags: []string{"-tags=verif"},
		Overlay:    overlay,
	}
	pkgs, err := packages.Load(cfg, "./...")
	if err != nil {
		return nil, fmt.Errorf("load: %w", err)
	}
	w := &World{ByRel: map[string]*packages.Package{}, SSA: map[*packages.Package]*ssa.Package{}, Arch: arch}
	var errs []string
	for _, p := range pkgs {
		if !strings.HasPrefix(p.PkgPath, modPath) {
			continue
		}
		for _, e := range p.Errors {
			errs = append(errs, e.Error())
		}
		rel := strings.TrimPrefix(strings.TrimPrefix(p.PkgPath, modPath), "/")
		w.ByRel[rel] = p
		w.Pkgs = append(w.Pkgs, p)
		w.Fset = p.Fset
	}
	packages.Visit(pkgs, nil, func(p *packages.Package) {
		if len(p.Errors) > 0 && !strings.HasPrefix(p.PkgPath, modPath) {
			for _, e := range p.Errors {
				errs = append(errs, e.Error())
			}
		}
	})
	if len(errs) > 0 {
		sort.Strings(errs)
		if len(errs) > 10 {
			errs = errs[:10]
		}
		return nil, fmt.Errorf("tree does not type-check: %s", strings.Join(errs, "; "))
	}
	lib := 0
	for rel := range w.ByRel {
		if !strings.HasPrefix(rel, "internal") {
			lib++
		}
	}
	if lib < 9 {
		return nil, fmt.Errorf("only %d library packages loaded (need >= 9)", lib)
	}
	prog, spkgs := ssautil.AllPackages(pkgs, ssa.InstantiateGenerics|ssa.SanityCheckFunctions)
	prog.Build()
	w.Prog = prog
	for i, p := range pkgs {
		if spkgs[i] != nil {
			w.SSA[p] = spkgs[i]
		}
	}
	return w, nil
}

func (w *World) CallGraph() *callgraph.Graph {
	w.cgOnce.Do(func() {
		w.cg = vta.CallGraph(ssautil.AllFunctions(w.Prog), cha.CallGraph(w.Prog))
	})
	return w.cg
}

func (w *World) Pkg(rel string) *packages.Package {
	p := w.ByRel[rel]
	if p == nil {
		panic(anchorError("package " + rel + " not found"))
	}
	return p
}

type anchorError string

func (e anchorError) Error() string { return string(e) }

// IsRepo reports whether obj belongs to the repository (library) code.
func IsRepoPkg(p *types.Package) bool {
	return p != nil && strings.HasPrefix(p.Path(), modPath)
}

func relPkg(p *types.Package) string {
	if p == nil {
		return ""
	}
	r := strings.TrimPrefix(strings.TrimPrefix(p.Path(), modPath), "/")
	if r == "" {
		return "nas"
	}
	return r
}

// FuncName gives a stable printable name: nasMessage.(*T).M or nasConvert.F.
func FuncName(f *types.Func) string {
	if f == nil {
		return "<nil>"
	}
	sig, _ := f.Type().(*types.Signature)
	if sig != nil && sig.Recv() != nil {
		t := sig.Recv().Type()
		ptr := ""
		if p, ok := t.(*types.Pointer); ok {
			t = p.Elem()
			ptr = "*"
		}
		n := "?"
		if nt, ok := t.(*types.Named); ok {
			n = nt.Obj().Name()
		}
		return fmt.Sprintf("%s.(%s%s).%s", relPkg(f.Pkg()), ptr, n, f.Name())
	}
	return relPkg(f.Pkg()) + "." + f.Name()
}

func SSAFuncName(f *ssa.Function) string {
	if f == nil {
		return "<nil>"
	}
	if o, ok := f.Object().(*types.Func); ok && o != nil {
		return FuncName(o)
	}
	if f.Parent() != nil {
		return SSAFuncName(f.Parent()) + "$" + f.Name()
	}
	return f.String()
}

func (w *World) Pos(p token.Pos) string {
	if !p.IsValid() {
		return "-"
	}
	pos := w.Fset.Position(p)
	fn := pos.Filename
	if r, err := filepath.Rel(repoDir, fn); err == nil && !strings.HasPrefix(r, "..") {
		fn = r
	}
	return fmt.Sprintf("%s:%d", fn, pos.Line)
}

// FuncDecls returns all function declarations of a package with their objects, sorted by name.
type FuncDecl struct {
	Decl *ast.FuncDecl
	Obj  *types.Func
	Pkg  *packages.Package
	File *ast.File
}

func (w *World) FuncDecls(p *packages.Package) []FuncDecl {
	var out []FuncDecl
	for _, f := range p.Syntax {
		for _, d := range f.Decls {
			fd, ok := d.(*ast.FuncDecl)
			if !ok {
				continue
			}
			obj, _ := p.TypesInfo.Defs[fd.Name].(*types.Func)
			if obj == nil {
				continue
			}
			out = append(out, FuncDecl{fd, obj, p, f})
		}
	}
	sort.Slice(out, func(i, j int) bool { return FuncName(out[i].Obj) < FuncName(out[j].Obj) })
	return out
}

// LookupFunc finds a package-level function or a method "T.M" in package rel; nil if absent.
func (w *World) LookupFunc(rel, name string) *types.Func {
	p := w.ByRel[rel]
	if p == nil {
		return nil
	}
	if i := strings.Index(name, "."); i >= 0 {
		tn, _ := p.Types.Scope().Lookup(name[:i]).(*types.TypeName)
		if tn == nil {
			return nil
		}
		obj, _, _ := types.LookupFieldOrMethod(types.NewPointer(tn.Type()), true, p.Types, name[i+1:])
		f, _ := obj.(*types.Func)
		return f
	}
	f, _ := p.Types.Scope().Lookup(name).(*types.Func)
	return f
}

func (w *World) SSAFunc(f *types.Func) *ssa.Function {
	if f == nil {
		return nil
	}
	return w.Prog.FuncValue(f)
}

func (w *World) DeclOf(f *types.Func) *FuncDecl {
	for _, p := range w.Pkgs {
		if p.Types != f.Pkg() {
			continue
		}
		for _, fd := range w.FuncDecls(p) {
			if fd.Obj == f {
				return &fd
			}
		}
	}
	return nil
}

// ---------------------------------------------------------------------------------------------
// Reports

type Finding struct {
	Rule  string         `json:"rule"`
	Key   string         `json:"key"` // rule / func / construct  (stable, no line numbers)
	Pos   string         `json:"pos"`
	Func  string         `json:"func"`
	Msg   string         `json:"msg"`
	Facts map[string]any `json:"facts,omitempty"`
}

type Report struct {
	Prop           string
	w              *World
	Rules          map[string]*RuleStat
	Findings       []Finding
	Samples        []any
	Funcs          map[string]bool
	Notes          []string
	Assumptions    []string
	Trusted        []string
	lastSampleRule string
	Explanation    string
	Exhaustive     bool
	Extra          map[string]any
}

type RuleStat struct {
	Obligations int `json:"obligations"`
	Discharged  int `json:"discharged"`
	Sites       int `json:"sites"`
}

func NewReport(prop string, w *World) *Report {
	return &Report{Prop: prop, w: w, Rules: map[string]*RuleStat{}, Funcs: map[string]bool{}, Extra: map[string]any{}}
}

func (r *Report) rule(rule string) *RuleStat {
	s := r.Rules[rule]
	if s == nil {
		s = &RuleStat{}
		r.Rules[rule] = s
	}
	return s
}

// OK records a discharged obligation.
func (r *Report) OK(rule string) { s := r.rule(rule); s.Obligations++; s.Discharged++ }

// Site counts an instance matched by a rule (vacuity guard).
func (r *Report) Site(rule string) { r.rule(rule).Sites++ }

func (r *Report) Fn(name string) { r.Funcs[name] = true }

// Fail records a failed obligation.
func (r *Report) Fail(rule, fn, construct string, pos token.Pos, msg string, facts map[string]any) {
	r.rule(rule).Obligations++
	key := rule + " / " + fn + " / " + construct
	for _, f := range r.Findings {
		if f.Key == key {
			return // one finding per key
		}
	}
	p := "-"
	if r.w != nil {
		p = r.w.Pos(pos)
	}
	r.Findings = append(r.Findings, Finding{Rule: rule, Key: key, Pos: p, Func: fn, Msg: msg, Facts: facts})
}

func (r *Report) Sample(v any) {
	if len(r.Samples) < 12 {
		r.Samples = append(r.Samples, v)
	}
}

func (r *Report) Note(format string, a ...any) { r.Notes = append(r.Notes, fmt.Sprintf(format, a...)) }

// Expect enforces the vacuity guard: rule must have matched at least n sites.
func (r *Report) Expect(rule string, n int) {
	s := r.rule(rule)
	if s.Sites < n {
		r.Fail("vacuity", "-", rule, token.NoPos,
			fmt.Sprintf("rule %s matched too few sites: %d < %d confirmed by hand", rule, s.Sites, n), nil)
	} else {
		r.OK("vacuity")
	}
}

// ExpectCensus: the rule must have covered at least as many sites as an independent census of the
// tree under test found (e.g. natural loops of the analysed functions counted on the SSA form,
// independently of the loop rules).  `confirmed` is the count confirmed by hand on the pinned
// tree: a smaller census is legitimate (code removed) and only noted; a rule that covers fewer
// sites than the census is the vacuity failure.
func (r *Report) ExpectCensus(rule string, census, confirmed int) {
	s := r.rule(rule)
	if s.Sites < census {
		r.Fail("vacuity", "-", rule, token.NoPos,
			fmt.Sprintf("rule %s covered %d sites, the tree has %d", rule, s.Sites, census), nil)
		return
	}
	r.OK("vacuity")
	if census < confirmed {
		r.Note("rule %s: the tree has %d sites, %d were confirmed by hand on the pinned tree (all %d are covered)", rule, census, confirmed, census)
	}
}

// ---------------------------------------------------------------------------------------------
// Known findings

type KnownFinding struct {
	Property string `json:"property"`
	Key      string `json:"key"`
	What     string `json:"what"`
	Witness  string `json:"witness,omitempty"`
}

type KnownFile struct {
	Findings []KnownFinding `json:"findings"`
	Fixed    []string       `json:"fixed"`
}

func loadKnown() KnownFile {
	var k KnownFile
	b, err := os.ReadFile(filepath.Join(verifDir, "known_findings.json"))
	if err == nil {
		if err := json.Unmarshal(b, &k); err != nil {
			fmt.Fprintln(os.Stderr, "known_findings.json:", err)
			os.Exit(2)
		}
	}
	return k
}

// Unlisted: the number of findings that are not listed in known_findings.json.
func (r *Report) Unlisted() int {
	known := loadKnown()
	n := 0
	for _, f := range r.Findings {
		listed := false
		for _, k := range known.Findings {
			if k.Property == r.Prop && k.Key == f.Key {
				listed = true
			}
		}
		if !listed {
			n++
		}
	}
	return n
}

// ---------------------------------------------------------------------------------------------
// Emit: evidence + verdict lines. Returns exit status.

func (r *Report) Emit(tier string, seed int, start time.Time, quiet bool) int {
	known := loadKnown()
	kset := map[string]KnownFinding{}
	for _, k := range known.Findings {
		if k.Property == r.Prop {
			kset[k.Key] = k
		}
	}
	sort.Slice(r.Findings, func(i, j int) bool { return r.Findings[i].Key < r.Findings[j].Key })
	var viol, kn []Finding
	for _, f := range r.Findings {
		if _, ok := kset[f.Key]; ok {
			kn = append(kn, f)
		} else {
			viol = append(viol, f)
		}
	}
	obl, dis, sites := 0, 0, 0
	var rules []string
	for n, s := range r.Rules {
		obl += s.Obligations
		dis += s.Discharged
		sites += s.Sites
		rules = append(rules, n)
	}
	sort.Strings(rules)
	var funcs []string
	for f := range r.Funcs {
		funcs = append(funcs, f)
	}
	sort.Strings(funcs)
	fsample := funcs
	if len(fsample) > 40 {
		fsample = fsample[:40]
	}
	if len(r.Samples) == 0 {
		if obl > 0 {
			r.Samples = append(r.Samples, map[string]any{"note": "no sample recorded; see the per-rule counts"})
		} else {
			r.Samples = append(r.Samples, map[string]any{"note": "no obligation was generated"})
		}
	}
	cov := map[string]any{
		"explanation":        r.Explanation,
		"obligations":        obl,
		"discharged":         dis,
		"rule_instances":     sites,
		"rules":              r.Rules,
		"functions_analysed": len(funcs),
		"functions_sample":   fsample,
		"samples":            r.Samples,
		"exhaustive":         r.Exhaustive,
		"trusted_base":       r.Trusted,
		"checker_cmd":        "bin/nasverif check " + r.Prop + " --tier " + tier,
		"notes":              r.Notes,
		"known_findings":     kn,
		"violations_found":   viol,
		"repo":               repoDir,
	}
	for k, v := range r.Extra {
		cov[k] = v
	}
	ev := map[string]any{
		"property_id": r.Prop,
		"tier":        tier,
		"seed":        seed,
		"level":       "other",
		"coverage":    cov,
		"assumptions": r.Assumptions,
		"wall_s":      time.Since(start).Seconds(),
		"violations":  len(viol),
	}
	if !quiet {
		os.MkdirAll(filepath.Join(verifDir, "evidence", "replay"), 0o755)
		b, _ := json.MarshalIndent(ev, "", " ")
		if err := os.WriteFile(filepath.Join(verifDir, "evidence", r.Prop+".json"), append(b, '\n'), 0o644); err != nil {
			fmt.Fprintln(os.Stderr, "write evidence:", err)
			return 2
		}
	}
	fmt.Printf("%s tier=%s rules=%d obligations=%d discharged=%d sites=%d functions=%d wall=%.1fs\n",
		r.Prop, tier, len(rules), obl, dis, sites, len(funcs), time.Since(start).Seconds())
	for _, f := range kn {
		fmt.Printf("KNOWN-FINDING: property=%s %s — %s (%s)\n", r.Prop, f.Key, kset[f.Key].What, f.Pos)
	}
	for i, f := range viol {
		path := filepath.Join("evidence", "replay", fmt.Sprintf("%s-%d.json", r.Prop, i+1))
		if !quiet {
			b, _ := json.MarshalIndent(map[string]any{"property": r.Prop, "finding": f, "tier": tier}, "", " ")
			os.WriteFile(filepath.Join(verifDir, path), append(b, '\n'), 0o644)
		}
		fmt.Printf("  %s: [%s] %s: %s\n", f.Pos, f.Rule, f.Key, f.Msg)
		fmt.Printf("VIOLATION property=%s replay=%s\n", r.Prop, path)
	}
	if len(viol) > 0 {
		return 1
	}
	return 0
}

// AllFuncs: every function of the program (cached).
func (w *World) AllFuncs() map[*ssa.Function]bool {
	if w.allFuncs == nil {
		w.allFuncs = ssautil.AllFunctions(w.Prog)
	}
	return w.allFuncs
}

// importRules runs another property's rules on the same program and adopts the findings and the
// statistics of the named rules (a name ending in '*' is a prefix).  A rule that is a necessary
// condition of several properties - the message-level dispatch for every codec property, "the decoded
// message owns its memory" for every round-trip property - is stated once and reported under each
// property it is necessary for.
func importRules(w *World, r *Report, from, tier string, rules []string, why string) {
	importRulesIf(w, r, from, tier, rules, why, nil)
}

// subReports caches the sub-report of a property within one process (several importers).
var subReports = map[string]*Report{}

// importRulesIf: as importRules, adopting only the findings that keep(finding) accepts (the rule
// statistics are adopted whole: they say what was examined).
func importRulesIf(w *World, r *Report, from, tier string, rules []string, why string, keep func(Finding) bool) {
	f := props[from]
	if f == nil {
		return
	}
	sub := subReports[from]
	if sub == nil {
		sub = NewReport(from, w)
		f(w, sub, "quick")
		subReports[from] = sub
	}
	match := func(rule string) bool {
		for _, p := range rules {
			if p == rule || (strings.HasSuffix(p, "*") && strings.HasPrefix(rule, strings.TrimSuffix(p, "*"))) {
				return true
			}
		}
		return false
	}
	var adopted []string
	for name, st := range sub.Rules {
		if !match(name) {
			continue
		}
		if _, dup := r.Rules[name]; dup {
			continue // the importing property states this rule itself
		}
		c := *st
		r.Rules[name] = &c
		adopted = append(adopted, name)
	}
	sort.Strings(adopted)
	for _, fd := range sub.Findings {
		if !match(fd.Rule) || (keep != nil && !keep(fd)) {
			continue
		}
		dup := false
		for _, have := range r.Findings {
			if have.Key == fd.Key {
				dup = true
			}
		}
		if !dup {
			r.Findings = append(r.Findings, fd)
		}
	}
	if keep == nil {
		for fn := range sub.Funcs {
			r.Funcs[fn] = true
		}
	}
	r.Note("rules shared with %s (%s): %s", from, why, strings.Join(adopted, ", "))
}


// importStateless adopts C19's "no hidden shared state" rules for the files a property is anchored
// in: a conversion or codec that caches results in, or hands out memory of, a package-level variable
// is not the function of its arguments the property describes (a second call changes or returns the
// result of the first), so these rules are necessary conditions of every "for all inputs / sequences"
// property over those functions.  Only findings located in the named files are adopted.
func importStateless(w *World, r *Report, tier string, files []string, what string) {
	importRulesIf(w, r, "C19", tier, []string{"glob.init-only", "eff.no-static", "lang.no-conc"}, "the "+what+" keep no state between calls and return memory of their own", func(f Finding) bool {
		for _, p := range files {
			if strings.HasPrefix(f.Pos, p) || strings.Contains(f.Msg, strings.TrimSuffix(p, ".go")) {
				return true
			}
		}
		return false
	})
}
