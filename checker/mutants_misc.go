package main

func init() {
	const t2 = "nasConvert/GPRSTimer2.go"
	const t3 = "nasConvert/GPRSTimer3.go"
	const am = "nasConvert/SessionAMBR.go"
	const nn = "nasConvert/NetWorkName.go"
	const tm = "nasConvert/Time.go"
	addMutants(
		Mutant{Name: "c17-timer3-threshold", Prop: "C17", File: t3, Old: "\t} else if timerValue <= 30*31 {", New: "\t} else if timerValue <= 30*32 {",
			Expect: "timer.exact / nasConvert.GPRSTimer3ToNas", Why: "960 s = 16 min overflows the 5-bit value in 30 s units"},
		Mutant{Name: "c17-timer3-unit-swapped", Prop: "C17", File: t3, Old: "\t\ttimerValueNas = (nasMessage.GPRSTimer3UnitMultiplesOf1Hour << 5) + t", New: "\t\ttimerValueNas = (nasMessage.GPRSTimer3UnitMultiplesOf10Hours << 5) + t",
			Expect: "nasConvert.GPRSTimer3ToNas", Why: "hours encoded with the 10-hour unit: decodes to ten times the request"},
		Mutant{Name: "c17-timer3-round-up", Prop: "C17", File: t3, Old: "\t\tt := uint8(timerValue / 600)", New: "\t\tt := uint8((timerValue + 599) / 600)",
			Expect: "timer.not-more / nasConvert.GPRSTimer3ToNas", Why: "rounding up: the timer decodes to more than requested"},
		Mutant{Name: "c17-timer2-decihour-divisor", Prop: "C17", File: t2, Old: "\t\t\tt = t / 6\n", New: "\t\t\tt = t / 5\n",
			Expect: "nasConvert.GPRSTimer2ToNas", Why: "decihours are 6 minutes"},
		Mutant{Name: "c17-timer2-minute-unit", Prop: "C17", File: t2, Old: "\t\t\ttimerValueNas = (timerValueNas | 0x20) + t", New: "\t\t\ttimerValueNas = (timerValueNas | 0x40) + t",
			Expect: "nasConvert.GPRSTimer2ToNas", Why: "minutes sent with the decihour unit"},
		Mutant{Name: "c17-ambr-signed-parse", Prop: "C17", File: am, Old: "strconv.ParseUint(uplink[0], 10, 16)", New: "strconv.ParseInt(uplink[0], 10, 16)",
			Expect: "ambr.layout", Why: "uplink values above 32767 dropped"},
		Mutant{Name: "c17-ambr-unit-code", Prop: "C17", File: am, Old: "\t\treturn nasMessage.SessionAMBRUnit1Gbps", New: "\t\treturn nasMessage.SessionAMBRUnit4Gbps",
			Expect: "ambr.layout", Why: "Gbps coded as 4 Gbps"},
		Mutant{Name: "c17-ambr-direction-swapped", Prop: "C17", File: am, Old: "\tsessAmbr.SetUnitForSessionAMBRForUplink(strToAMBRUnit(uplink[1]))", New: "\tsessAmbr.SetUnitForSessionAMBRForDownlink(strToAMBRUnit(uplink[1]))",
			Expect: "ambr.layout", Why: "uplink unit written to the downlink octet"},
		Mutant{Name: "c17-ambr-little-endian", Prop: "C17", File: am, Old: "\t\tbinary.BigEndian.PutUint16(bitRateBytes[:], uint16(bitRate))\n\t\tsessAmbr.SetSessionAMBRForDownlink", New: "\t\tbinary.LittleEndian.PutUint16(bitRateBytes[:], uint16(bitRate))\n\t\tsessAmbr.SetSessionAMBRForDownlink",
			Expect: "ambr.layout", Why: "value octets swapped"},
		Mutant{Name: "c17-name-no-new-group", Prop: "C17", File: nn, Old: "\t\tshift := uint(i % 8) //", New: "\t\tshift := uint(i % 7) //",
			Expect: "name.gsm7", Why: "septet groups of 7"},
		Mutant{Name: "c17-name-spare-bits", Prop: "C17", File: nn, Old: "\tnumOfSpareBits = 8*len(buf) - 7*len(chars)", New: "\tnumOfSpareBits = (7 * len(chars)) % 8",
			Expect: "name.gsm7", Why: "used bits of the last octet reported as spare bits"},
		Mutant{Name: "c17-name-extra-octet", Prop: "C17", File: nn, Old: "\t\tif shift < 7 {", New: "\t\tif shift <= 7 {",
			Expect: "name.gsm7", Why: "an eighth octet per group of 8 characters"},
		Mutant{Name: "c17-tz-sign-before-dst", Prop: "C17", File: tm, Old: "\tnegative := time < 0\n", New: "\tnegative := timezone[0] == '-'\n",
			Expect: "tz.encode", Why: "sign taken from the text although the adjustment crossed zero"},
		Mutant{Name: "c17-tz-minute-table", Prop: "C17", File: tm, Old: "\tcase \"45\":\n\t\ttime += 3", New: "\tcase \"45\":\n\t\ttime += 2",
			Expect: "tz.encode", Why: "45 minutes coded as 2 quarters"},
		Mutant{Name: "c17-tz-decode-sign-bit", Prop: "C17", File: tm, Old: "\tif timezone&0x08 == 0x08 {", New: "\tif timezone&0x80 == 0x80 {",
			Expect: "nasConvert.getTimeZoneOffset", Why: "sign read from the wrong semi-octet"},
		Mutant{Name: "c17-tz-decode-tens-mask", Prop: "C17", File: tm, Old: "(timezone&0x07)*10)", New: "(timezone&0x0f)*10)",
			Expect: "nasConvert.getTimeZoneOffset", Why: "sign bit counted as tens digit"},
		Mutant{Name: "c17-time-year-base", Prop: "C17", File: tm, Old: "\tyear := 2000 + int(", New: "\tyear := 1900 + int(",
			Expect: "time.decode", Why: "century"},
		Mutant{Name: "c17-time-month-zero-based", Prop: "C17", File: tm, Old: "toSemiOctet(toBinaryCodedDecimal(int(universalTime.Month())))", New: "toSemiOctet(toBinaryCodedDecimal(int(universalTime.Month()) - 1))",
			Expect: "time.encode", Why: "month sent zero-based"},
		Mutant{Name: "c17-dst-two", Prop: "C17", File: tm, Old: "\tif timezone[len(timezone)-2:] == \"+2\" {\n\t\tvalue = 2", New: "\tif timezone[len(timezone)-2:] == \"+2\" {\n\t\tvalue = 3",
			Expect: "tz.dst", Why: "+2 h coded as the reserved value"},
		Mutant{Name: "c17-keep-bcd-form", Prop: "C17", File: tm, Old: "\treturn ((val / 10) << 4) + (val % 10)", New: "\treturn ((val / 10) * 16) | (val % 10)", Keep: true, Why: "same BCD"},
		Mutant{Name: "c17-keep-timer3-form", Prop: "C17", File: t3, Old: "\tif timerValue <= 2*31 {", New: "\tif timerValue < 63 {", Keep: true, Why: "same threshold"},
	)
}
