package main

func init() {
	const s = "security/security.go"
	addMutants(
		Mutant{Name: "c08-nia1-empty-regression", Prop: "C08", File: s, Old: "\tif D > 1 { // an empty message", New: "\tif D > 0 { // an empty message",
			Expect: "security.NIA1", Why: "empty message: D-2 wraps around, block slice out of range"},
		Mutant{Name: "c08-bearer-guard-off-by-one", Prop: "C08", File: s, Old: "\tif Bearer > 0x1f {\n\t\treturn fmt.Errorf(\"Bearer is beyond 5 bits\")", New: "\tif Bearer > 0x3f {\n\t\treturn fmt.Errorf(\"Bearer is beyond 5 bits\")",
			Expect: "guard.region / security.NASEncrypt / bearer 32..255", Why: "bearers 32..63 accepted"},
		Mutant{Name: "c08-default-nil", Prop: "C08", File: s, Old: "\tdefault:\n\t\treturn fmt.Errorf(\"Unknown Algorithm Identity[%d]\", AlgoID)", New: "\tdefault:\n\t\treturn nil",
			Expect: "guard.region / security.NASEncrypt / algorithm 4..255", Why: "unknown algorithm silently accepted (payload sent in clear)"},
		Mutant{Name: "c08-nea0-scrubs", Prop: "C08", File: s, Old: "\t\tlogger.SecurityLog.Debugf(\"Use NEA0\")\n\t\treturn nil", New: "\t\tlogger.SecurityLog.Debugf(\"Use NEA0\")\n\t\tcopy(payload, make([]byte, len(payload)))\n\t\treturn nil",
			Expect: "security.NASEncrypt", Why: "NULL ciphering no longer leaves the payload unchanged"},
		Mutant{Name: "c08-mac-8-octets", Prop: "C08", File: s, Old: "\tmac = mac[:4]\n", New: "\tmac = mac[:8]\n",
			Expect: "mac.len4", Why: "NIA2 returns 8 octets"},
		Mutant{Name: "c08-copy-before-check", Prop: "C08", File: s, Old: "\t\toutput, err := NEA2(KnasEnc, Count, Bearer, Direction, payload)\n\t\tif err != nil {\n\t\t\treturn err\n\t\t}\n", New: "\t\toutput, err := NEA2(KnasEnc, Count, Bearer, Direction, payload)\n\t\tcopy(payload, output)\n\t\tif err != nil {\n\t\t\treturn err\n\t\t}\n",
			Expect: "eff.payload-copy-only", Why: "payload overwritten before the error check: an error no longer leaves it untouched"},
		Mutant{Name: "c08-keystream-from-payload", Prop: "C08", File: s, Old: "\tiv[4] = (bearer << 3) | (direction << 2)\n\n\tfor i := 0; i < 8; i++ {", New: "\tiv[4] = (bearer << 3) | (direction << 2)\n\tif len(ibs) > 0 {\n\t\tiv[5] = ibs[0] & 1\n\t}\n\n\tfor i := 0; i < 8; i++ {",
			Expect: "taint.keystream / security.NEA3", Why: "IV depends on the first plaintext octet: not an involution"},
		Mutant{Name: "c08-xor-shifted-index", Prop: "C08", File: s, Old: "\t\t\tobs[4*i+j] = ibs[4*i+j] ^ byte((ks[i]>>(8*(3-j)))&0xff)\n\t\t}\n\t}\n\tif r != 0 {", New: "\t\t\tobs[4*i+j] = ibs[4*i+(j^1)] ^ byte((ks[i]>>(8*(3-j)))&0xff)\n\t\t}\n\t}\n\tif r != 0 {",
			Expect: "xor.same-index / security.NEA1", Why: "octets swapped pairwise: ciphertext of a prefix is not the prefix of the ciphertext"},
		Mutant{Name: "c08-nea1-loop-bound", Prop: "C08", File: s, Old: "\tfor i = 0; i < length/32; i++ {", New: "\tfor i = 0; i <= length/32; i++ {",
			Expect: "security.NEA1", Why: "one word too many: index out of range when the length is a multiple of 32 bits"},
		Mutant{Name: "c08-msg-scratch", Prop: "C08", File: s, Old: "\tcopy(m[8:], msg)\n", New: "\tcopy(m[8:], msg)\n\tif len(msg) > 0 {\n\t\tmsg[0] ^= 0\n\t}\n",
			Expect: "eff.msg-readonly", Why: "MAC calculation writes the message"},
		Mutant{Name: "c08-keep-guard-form", Prop: "C08", File: s, Old: "\tif Bearer > 0x1f {\n\t\treturn fmt.Errorf(\"Bearer is beyond 5 bits\")", New: "\tif Bearer >= 32 {\n\t\treturn fmt.Errorf(\"Bearer is beyond 5 bits\")", Keep: true, Why: "same guard"},
	)
}
