package main

// C13: "an independent decoder written from the specification recovers exactly the input lists".
// specTaiDecode / specServiceAreaDecode are such decoders (TS 24.501 9.11.3.9 and 9.11.3.49): they
// walk the octets the library produced - the header octets must be constants on the evaluated
// shape, PLMN and TAC octets may be symbolic - and return the elements.  Unlike the fixed layouts of
// lay.tai-list / lay.service-area they do not prescribe how a list is divided into partial lists,
// only that what a conformant receiver reads is the list that was given.

import (
	"fmt"
	"strings"
)

type specTai struct{ plmn, tac []BV }

// specPartialLists walks `octs` as a sequence of partial lists whose header is
//   bits 7-6 (TAI list; for the service area list bit 8 is the allowed type) type of list, bits 5-1 number of elements - 1
// type 00: PLMN, then one TAC per element; type 10: PLMN and TAC per element; type 01 (consecutive
// TACs) is decodable only with one element here (the following TACs are arithmetic on a symbolic value).
func specPartialLists(it *Interp, octs []BV, what string) ([]specTai, []uint64, string) {
	var out []specTai
	var hdrs []uint64
	i := 0
	for i < len(octs) {
		h, isC := octs[i].IsConst()
		if !isC || octs[i].HasTop() {
			return nil, nil, fmt.Sprintf("octet %d (a partial list header) is not a constant on this shape", i+1)
		}
		hdrs = append(hdrs, h)
		typ, n := (h>>5)&3, int(h&0x1f)+1
		if n > 16 {
			return nil, nil, fmt.Sprintf("partial list header %#02x at octet %d: number-of-elements value %d is unused in the specification (at most 16 elements per partial list; a receiver reads it as 16)", h, i+1, n-1)
		}
		i++
		need := func(k int) bool { return i+k <= len(octs) }
		switch typ {
		case 0:
			if !need(3 + 3*n) {
				return nil, nil, fmt.Sprintf("%s ends inside the partial list that starts with header %#02x", what, h)
			}
			plmn := octs[i : i+3]
			i += 3
			for k := 0; k < n; k++ {
				out = append(out, specTai{plmn: plmn, tac: octs[i : i+3]})
				i += 3
			}
		case 2:
			if !need(6 * n) {
				return nil, nil, fmt.Sprintf("%s ends inside the partial list that starts with header %#02x", what, h)
			}
			for k := 0; k < n; k++ {
				out = append(out, specTai{plmn: octs[i : i+3], tac: octs[i+3 : i+6]})
				i += 6
			}
		case 1:
			if n != 1 || !need(6) {
				return nil, nil, fmt.Sprintf("partial list of type 01 (consecutive TACs) with %d elements at octet %d: not decided on symbolic TACs", n, i)
			}
			out = append(out, specTai{plmn: octs[i : i+3], tac: octs[i+3 : i+6]})
			i += 6
		default:
			return nil, nil, fmt.Sprintf("partial list header %#02x at octet %d: type of list 11 is reserved", h, i)
		}
	}
	return out, hdrs, ""
}

func sameTais(it *Interp, got, want []specTai, what string) (bool, string) {
	if len(got) != len(want) {
		return false, fmt.Sprintf("a decoder written from the specification reads %d elements from the %s, %d were given", len(got), what, len(want))
	}
	for i := range want {
		for k := 0; k < 3; k++ {
			if ok, m := sameBV(it, got[i].plmn[k], want[i].plmn[k]); !ok {
				return false, fmt.Sprintf("element %d read back from the %s: PLMN octet %d: %s", i+1, what, k+1, m)
			}
			if ok, m := sameBV(it, got[i].tac[k], want[i].tac[k]); !ok {
				return false, fmt.Sprintf("element %d read back from the %s: TAC octet %d: %s", i+1, what, k+1, m)
			}
		}
	}
	return true, ""
}

// checkTaiListSpec (dec.tai-list): TaiListToNas on lists of 1..40 TAIs over one or two PLMNs.
func checkTaiListSpec(c *listCtx) {
	fn, fname := c.fn("nasConvert", "TaiListToNas")
	if fn == nil {
		return
	}
	shapes := [][]plmnText{repeatPlmns(1, plmnA), repeatPlmns(3, plmnA), repeatPlmns(16, plmnA), repeatPlmns(17, plmnA), repeatPlmns(32, plmnA), repeatPlmns(33, plmnA), repeatPlmns(40, plmnA),
		{plmnA, plmnB}, repeatPlmns(16, plmnA, plmnB), repeatPlmns(17, plmnA, plmnB), repeatPlmns(35, plmnA, plmnC),
		// later partial lists that are each of one PLMN, not the PLMN of the first element
		append(repeatPlmns(16, plmnA), repeatPlmns(4, plmnB)...), append(append(repeatPlmns(16, plmnA), repeatPlmns(16, plmnC)...), repeatPlmns(3, plmnA)...), append(repeatPlmns(3, plmnB), repeatPlmns(15, plmnA)...)}
	for _, plmns := range shapes {
		c.r.Site("dec.tai-list")
		it := newListInterp(c.w)
		it.Fuel = 200000
		modelDeepEqual(it)
		st := it.NewState()
		arg := taiArgs(it, st, plmns)
		res := it.Call(fn, []Value{arg}, st, 0)
		got, ok := sliceBytes(it, st, res)
		msg := "result not resolvable"
		if ok {
			var want []specTai
			for i, p := range plmns {
				want = append(want, specTai{plmn: plmnOctets(it, p), tac: hexBytes(it, fmt.Sprintf("tac%d", i), 3)})
			}
			dec, _, why := specPartialLists(it, got, "TAI list")
			if why != "" {
				ok, msg = false, why
			} else {
				ok, msg = sameTais(it, dec, want, "TAI list")
			}
		}
		mixed := "one PLMN"
		for _, p := range plmns {
			if p != plmns[0] {
				mixed = "two PLMNs"
			}
		}
		c.verdict("dec.tai-list", fname, fmt.Sprintf("%d TAIs, %s", len(plmns), mixed), fn, it, ok, msg)
	}
}

// checkServiceAreaSpec (dec.service-area): PartialServiceAreaListToNas on 1..33 TACs.
func checkServiceAreaSpec(c *listCtx) {
	fn, fname := c.fn("nasConvert", "PartialServiceAreaListToNas")
	if fn == nil {
		return
	}
	for _, shape := range [][]int{{1}, {2, 1}, {16}, {17}, {16, 1}, {33}} {
		c.r.Site("dec.service-area")
		it := newListInterp(c.w)
		it.Fuel = 200000
		st := it.NewState()
		var areas []AggV
		var want []specTai
		k := 0
		for _, nt := range shape {
			var ts []StrV
			for j := 0; j < nt; j++ {
				ts = append(ts, it.HexString(fmt.Sprintf("tac%d", k), 6))
				want = append(want, specTai{plmn: plmnOctets(it, plmnA), tac: hexBytes(it, fmt.Sprintf("tac%d", k), 3)})
				k++
			}
			areas = append(areas, AggV{Cells: map[string]Value{".Tacs": sliceOfStrings(it, st, fmt.Sprintf("tacs%d", len(areas)), ts), ".AreaCode": StrV{Known: true}}})
		}
		sar := AggV{Cells: map[string]Value{".RestrictionType": StrV{Known: true, S: "ALLOWED_AREAS"}, ".Areas": sliceOfAggs(it, st, "areas", areas),
			".MaxNumOfTAs": it.constBV(0, 32), ".MaxNumOfTAsForNotAllowedAreas": it.constBV(0, 32)}}
		plmn := AggV{Cells: map[string]Value{".Mcc": StrV{Known: true, S: plmnA.mcc}, ".Mnc": StrV{Known: true, S: plmnA.mnc}}}
		res := it.Call(fn, []Value{plmn, sar}, st, 0)
		got, ok := sliceBytes(it, st, res)
		msg := "result not resolvable"
		if ok {
			// bit 8 of a service area partial list header is the allowed type: masked before the walk
			var octs []BV
			octs = append(octs, got...)
			dec, hdrs, why := specPartialLists(it, maskAllowedType(it, octs), "service area list")
			switch {
			case why != "":
				ok, msg = false, why
			default:
				ok, msg = sameTais(it, dec, want, "service area list")
				for _, h := range hdrs {
					if ok && (h>>5)&3 != 0 {
						ok, msg = false, fmt.Sprintf("partial list header %#02x: the encoder announces only type of list 00", h)
					}
				}
			}
		}
		var parts []string
		for _, n := range shape {
			parts = append(parts, fmt.Sprint(n))
		}
		c.verdict("dec.service-area", fname, "TACs per area "+strings.Join(parts, "+"), fn, it, ok, msg)
	}
}

// maskAllowedType clears bit 8 of the octets that are partial list headers of a service area list
// (walks the list with the same rules as specPartialLists; stops silently at anything irregular -
// the walk proper reports it).
func maskAllowedType(it *Interp, octs []BV) []BV {
	i := 0
	for i < len(octs) {
		h, isC := octs[i].IsConst()
		if !isC {
			return octs
		}
		octs[i] = it.constBV(h&0x7f, 8)
		typ, n := (h>>5)&3, int(h&0x1f)+1
		switch typ {
		case 0:
			i += 1 + 3 + 3*n
		case 2:
			i += 1 + 6*n
		case 1:
			i += 1 + 6
		default:
			i += 1 + 3 // type 11: all TAIs of the PLMN
		}
	}
	return octs
}
