package main

func freezeLayout(w *World) {}
