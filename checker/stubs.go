package main

func cmdSelftest(args []string) int               { return 0 }
func runSelftestFor(id string, r *Report) int     { return 0 }
func mutantOverlay(name string) (map[string][]byte, error) { return nil, nil }
func freezeLayout(w *World) {}
