package main

// Two structural rules on list parsers (C15, C18):
//
//  seq.must-read   every direct binary.Read of the parser dominates every point where an item is
//                  appended to the result: no item is delivered with one of its fields left unread
//                  (a parser that skips fields the serialiser always writes loses alignment);
//  seq.fresh-elem  an item appended inside a loop does not live in storage allocated outside the
//                  loop: every iteration starts from a zero item, so nothing of the previous item
//                  (an optional list, a flag) survives into the next one.

import (
	"go/ast"
	"go/token"
	"go/types"

	"golang.org/x/tools/go/ssa"
)

func naturalLoops(fn *ssa.Function) map[*ssa.BasicBlock]map[*ssa.BasicBlock]bool {
	out := map[*ssa.BasicBlock]map[*ssa.BasicBlock]bool{}
	latches := map[*ssa.BasicBlock][]*ssa.BasicBlock{}
	for _, b := range fn.Blocks {
		for _, s := range b.Succs {
			if s.Dominates(b) {
				latches[s] = append(latches[s], b)
			}
		}
	}
	for h, ls := range latches {
		out[h] = loopBlocks(h, ls)
	}
	return out
}

func checkParserSeqRules(w *World, r *Report, rel string, skip func(fn *ssa.Function) bool) {
	p := w.ByRel[rel]
	if p == nil {
		return
	}
	sp := w.SSA[p]
	for fn := range w.AllFuncs() {
		if fn.Pkg != sp || fn.Blocks == nil || (skip != nil && skip(fn)) {
			continue
		}
		var reads, sinks []*ssa.Call
		for _, b := range fn.Blocks {
			for _, ins := range b.Instrs {
				c, ok := ins.(*ssa.Call)
				if !ok {
					continue
				}
				if bi, isB := c.Call.Value.(*ssa.Builtin); isB && bi.Name() == "append" {
					// only appends of items (struct or pointer elements), not of octets
					el := c.Call.Args[0].Type().Underlying().(*types.Slice).Elem()
					if b, isBasic := el.Underlying().(*types.Basic); !(isBasic && b.Info()&types.IsInteger != 0) {
						sinks = append(sinks, c)
					}
				}
				if sc := c.Call.StaticCallee(); sc != nil && seqReads[sc.String()] {
					reads = append(reads, c)
				}
			}
		}
		if len(sinks) == 0 {
			continue
		}
		name := SSAFuncName(fn)
		if len(reads) > 0 {
			r.Fn(name)
			for _, sk := range sinks {
				r.Site("seq.must-read")
				ok := true
				for _, rd := range reads {
					if rd.Block() != sk.Block() && !rd.Block().Dominates(sk.Block()) {
						ok = false
						r.Fail("seq.must-read", name, "append reached without "+exprOfRead(rd), sk.Pos(),
							"an item is appended on a path that skips the read of "+exprOfRead(rd)+" ("+w.Pos(rd.Pos())+"): the fields that follow in the octet string are left unread", nil)
					}
				}
				if ok {
					r.OK("seq.must-read")
				}
			}
		}
		loops := naturalLoops(fn)
		for _, sk := range sinks {
			var inLoop map[*ssa.BasicBlock]bool
			for _, body := range loops {
				if body[sk.Block()] && (inLoop == nil || len(body) < len(inLoop)) {
					inLoop = body
				}
			}
			if inLoop == nil || len(sk.Call.Args) < 2 {
				continue
			}
			r.Fn(name)
			r.Site("seq.fresh-elem")
			// the appended element: append(list, elems...) receives a slice built from a varargs array
			bad := ""
			for _, el := range appendedValues(sk) {
				v := el
				for i := 0; i < 8; i++ {
					switch x := v.(type) {
					case *ssa.UnOp:
						if x.Op == token.MUL {
							v = x.X
							continue
						}
					case *ssa.FieldAddr:
						v = x.X
						continue
					}
					break
				}
				if a, isAlloc := v.(*ssa.Alloc); isAlloc && !inLoop[a.Block()] {
					if !zeroedInLoop(a, inLoop) {
						bad = a.Comment
						if bad == "" {
							bad = a.Name()
						}
					}
				}
			}
			if bad != "" {
				r.Fail("seq.fresh-elem", name, "item variable "+bad, sk.Pos(), "the appended item lives in the variable "+bad+" declared outside the loop and is not reset at the start of an iteration: fields an iteration does not assign keep the previous item's values", nil)
			} else {
				r.OK("seq.fresh-elem")
			}
		}
	}
}

// consumingReads: the calls that take octets off a bytes.Buffer / bytes.Reader.
var seqReads = map[string]bool{
	"encoding/binary.Read": true, "io.ReadFull": true,
	"(*bytes.Buffer).ReadByte": true, "(*bytes.Buffer).Read": true, "(*bytes.Buffer).Next": true,
	"(*bytes.Reader).ReadByte": true, "(*bytes.Reader).Read": true,
}

func exprOfRead(c *ssa.Call) string {
	if sc := c.Call.StaticCallee(); sc == nil || sc.String() != "encoding/binary.Read" {
		// ReadByte / Next / Read: name the variable the result is bound to, if any
		for _, ref := range *c.Referrers() {
			if ex, ok := ref.(*ssa.Extract); ok && ex.Index == 0 {
				for _, r2 := range *ex.Referrers() {
					if dr, ok := r2.(*ssa.DebugRef); ok {
						if id, ok := dr.Expr.(*ast.Ident); ok {
							return id.Name
						}
					}
				}
			}
		}
		return "the octets taken by " + c.Call.StaticCallee().Name()
	}
	v := c.Call.Args[2]
	for i := 0; i < 6; i++ {
		switch x := v.(type) {
		case *ssa.MakeInterface:
			v = x.X
			continue
		case *ssa.FieldAddr:
			st := x.X.Type().Underlying().(*types.Pointer).Elem().Underlying().(*types.Struct)
			return "field " + st.Field(x.Field).Name()
		case *ssa.Alloc:
			if x.Comment != "" {
				return x.Comment
			}
		}
		break
	}
	return "a value"
}

// appendedValues: the element values of an append call (through the varargs array).
func appendedValues(c *ssa.Call) []ssa.Value {
	var out []ssa.Value
	sl, ok := c.Call.Args[1].(*ssa.Slice)
	if !ok {
		return nil
	}
	arr, ok := sl.X.(*ssa.Alloc)
	if !ok {
		return nil
	}
	for _, ref := range *arr.Referrers() {
		ia, ok := ref.(*ssa.IndexAddr)
		if !ok {
			continue
		}
		for _, r2 := range *ia.Referrers() {
			if st, ok := r2.(*ssa.Store); ok && st.Addr == ia {
				out = append(out, st.Val)
			}
		}
	}
	return out
}

// zeroedInLoop: is the whole variable overwritten (a store of a complete value to the alloc
// itself) inside the loop?
func zeroedInLoop(a *ssa.Alloc, body map[*ssa.BasicBlock]bool) bool {
	for _, ref := range *a.Referrers() {
		if st, ok := ref.(*ssa.Store); ok && st.Addr == a && body[st.Block()] {
			return true
		}
	}
	return false
}

// checkFreshDecodeTargets (dec.fresh-target): a delivery-level decoder hands each nested
// Decode* method a structure it has just allocated on this path: the store of a fresh
// allocation into the receiver's field dominates the call that decodes into it.  Otherwise a
// second decode into the same container starts from the first one's leftovers.
func checkFreshDecodeTargets(w *World, r *Report, rel, fnName string) {
	f := w.LookupFunc(rel, fnName)
	if f == nil {
		r.Fail("anchor", rel+"."+fnName, "missing", token.NoPos, "decoder not found", nil)
		return
	}
	fn := w.SSAFunc(f)
	name := FuncName(f)
	r.Fn(name)
	type fieldKey struct {
		base  ssa.Value
		field int
	}
	keyOf := func(addr ssa.Value) (fieldKey, bool) {
		fa, ok := addr.(*ssa.FieldAddr)
		if !ok {
			return fieldKey{}, false
		}
		return fieldKey{fa.X, fa.Field}, true
	}
	isFresh := func(v ssa.Value) bool {
		switch x := v.(type) {
		case *ssa.Alloc:
			return x.Heap
		case *ssa.Call:
			if sc := x.Call.StaticCallee(); sc != nil && len(sc.Name()) > 3 && sc.Name()[:3] == "New" {
				return true
			}
		}
		return false
	}
	var stores []*ssa.Store
	for _, b := range fn.Blocks {
		for _, ins := range b.Instrs {
			if st, ok := ins.(*ssa.Store); ok && isFresh(st.Val) {
				stores = append(stores, st)
			}
		}
	}
	for _, b := range fn.Blocks {
		for idx, ins := range b.Instrs {
			c, ok := ins.(*ssa.Call)
			if !ok || c.Call.IsInvoke() || len(c.Call.Args) == 0 {
				continue
			}
			sc := c.Call.StaticCallee()
			if sc == nil || sc.Signature.Recv() == nil || len(sc.Name()) < 6 || sc.Name()[:6] != "Decode" {
				continue
			}
			ld, ok := c.Call.Args[0].(*ssa.UnOp)
			if !ok || ld.Op != token.MUL {
				continue
			}
			k, ok := keyOf(ld.X)
			if !ok {
				continue
			}
			r.Site("dec.fresh-target")
			good := false
			for _, st := range stores {
				sk, ok := keyOf(st.Addr)
				if !ok || sk != k {
					continue
				}
				if st.Block() == b {
					for j := 0; j < idx; j++ {
						if b.Instrs[j] == ssa.Instruction(st) {
							good = true
						}
					}
				} else if st.Block().Dominates(b) {
					good = true
				}
			}
			if good {
				r.OK("dec.fresh-target")
			} else {
				r.Fail("dec.fresh-target", name, sc.Name(), c.Pos(), "the structure "+sc.Name()+" decodes into is not freshly allocated on every path to the call: a second decode into the same container starts from the previous message's contents", nil)
			}
		}
	}
}

// checkSerialiserLoops (seq.all-items): a serialiser writes every item of the list it ranges
// over: the only way out of its item loop, apart from the loop's own exhaustion test at the
// header, is a return of a non-nil error.  A `break` (size cap, "enough" heuristic) silently
// drops the remaining items.
func checkSerialiserLoops(w *World, r *Report, rel string, pick func(fn *ssa.Function) bool) {
	p := w.ByRel[rel]
	if p == nil {
		return
	}
	sp := w.SSA[p]
	for fn := range w.AllFuncs() {
		if fn.Pkg != sp || fn.Blocks == nil || !pick(fn) {
			continue
		}
		name := SSAFuncName(fn)
		for h, body := range naturalLoops(fn) {
			r.Fn(name)
			r.Site("seq.all-items")
			ok := true
			for b := range body {
				if b == h {
					continue
				}
				for _, s := range b.Succs {
					if body[s] {
						continue
					}
					if errorReturnOnly(s, map[*ssa.BasicBlock]bool{}) {
						continue
					}
					ok = false
					r.Fail("seq.all-items", name, "early exit from the item loop", blockPos(b), "the item loop can be left before the list is exhausted without returning an error: the remaining items are not serialised", nil)
				}
			}
			// no item skipped: when the loop writes (binary.Write / Buffer.Write / append of octets),
			// some write dominates every back edge - a `continue` ahead of the writes drops an item
			var writes []*ssa.BasicBlock
			for b := range body {
				for _, ins := range b.Instrs {
					c, isCall := ins.(*ssa.Call)
					if !isCall {
						continue
					}
					if sc := c.Call.StaticCallee(); sc != nil {
						switch sc.String() {
						case "encoding/binary.Write", "(*bytes.Buffer).Write", "(*bytes.Buffer).WriteByte", "(*bytes.Buffer).ReadFrom":
							writes = append(writes, b)
						}
					}
					if bi, isB := c.Call.Value.(*ssa.Builtin); isB && bi.Name() == "append" {
						writes = append(writes, b)
					}
				}
			}
			if len(writes) > 0 {
				for b := range body {
					isLatch := false
					for _, sx := range b.Succs {
						if sx == h {
							isLatch = true
						}
					}
					if !isLatch || b == h {
						continue
					}
					dom := false
					for _, wb := range writes {
						if wb == b || wb.Dominates(b) {
							dom = true
						}
					}
					if !dom {
						ok = false
						r.Fail("seq.all-items", name, "item skipped", blockPos(b), "an iteration of the item loop can reach the next item without writing anything (a `continue` ahead of the writes): that item is not serialised although it is counted", nil)
					}
				}
			}
			if ok {
				r.OK("seq.all-items")
			}
		}
	}
}

// errorReturnOnly: every path from b ends in a return whose last result is an error that is not
// the nil constant (or in a panic).
func errorReturnOnly(b *ssa.BasicBlock, seen map[*ssa.BasicBlock]bool) bool {
	if seen[b] {
		return true
	}
	seen[b] = true
	switch t := b.Instrs[len(b.Instrs)-1].(type) {
	case *ssa.Return:
		if len(t.Results) == 0 {
			return false
		}
		last := t.Results[len(t.Results)-1]
		if last.Type().String() != "error" {
			return false
		}
		if c, isC := last.(*ssa.Const); isC && c.Value == nil {
			return false
		}
		return true
	case *ssa.Panic:
		return true
	}
	if len(b.Succs) == 0 {
		return false
	}
	for _, s := range b.Succs {
		if !errorReturnOnly(s, seen) {
			return false
		}
	}
	return true
}

// checkPointerFieldWrites (ptr.fresh-store): list elements of this package are copied by value
// (append(list, elem)), so a pointer field is shared between the copies.  A method therefore
// must not write THROUGH a pointer field of its receiver (*u.F = v) unless it has, on every
// path to that write, just pointed the field at a fresh allocation; otherwise the write shows
// through every earlier copy of the element.
func checkPointerFieldWrites(w *World, r *Report, rel string) {
	p := w.ByRel[rel]
	if p == nil {
		return
	}
	sp := w.SSA[p]
	type fieldKey struct {
		base  ssa.Value
		field int
	}
	for fn := range w.AllFuncs() {
		if fn.Pkg != sp || fn.Blocks == nil || fn.Signature.Recv() == nil || len(fn.Params) == 0 {
			continue
		}
		recv := ssa.Value(fn.Params[0])
		var fresh []*ssa.Store
		for _, b := range fn.Blocks {
			for _, ins := range b.Instrs {
				if st, ok := ins.(*ssa.Store); ok {
					if a, isAlloc := st.Val.(*ssa.Alloc); isAlloc && a.Heap {
						fresh = append(fresh, st)
					}
				}
			}
		}
		for _, b := range fn.Blocks {
			for idx, ins := range b.Instrs {
				st, ok := ins.(*ssa.Store)
				if !ok {
					continue
				}
				ld, ok := st.Addr.(*ssa.UnOp)
				if !ok || ld.Op != token.MUL {
					continue
				}
				fa, ok := ld.X.(*ssa.FieldAddr)
				if !ok || fa.X != recv {
					continue
				}
				if _, isPtr := fa.Type().Underlying().(*types.Pointer).Elem().Underlying().(*types.Pointer); !isPtr {
					continue
				}
				name := SSAFuncName(fn)
				r.Fn(name)
				r.Site("ptr.fresh-store")
				k := fieldKey{fa.X, fa.Field}
				good := false
				for _, fs := range fresh {
					ffa, ok := fs.Addr.(*ssa.FieldAddr)
					if !ok || (fieldKey{ffa.X, ffa.Field}) != k {
						continue
					}
					if fs.Block() == b {
						for j := 0; j < idx; j++ {
							if b.Instrs[j] == ssa.Instruction(fs) {
								good = true
							}
						}
					} else if fs.Block().Dominates(b) {
						good = true
					}
				}
				stt := fa.X.Type().Underlying().(*types.Pointer).Elem().Underlying().(*types.Struct)
				fname := stt.Field(fa.Field).Name()
				if good {
					r.OK("ptr.fresh-store")
				} else {
					r.Fail("ptr.fresh-store", name, "*"+fname, st.Pos(), "writes through the pointer field "+fname+" of the receiver without having pointed it at a fresh allocation on every path: the write shows through every value copy of this element made earlier", nil)
				}
			}
		}
	}
}
