package main

// Mutants for the rules added after the second seeding round.
func init() {
	const pco = "nasConvert/ProtocolConfigurationOptions.go"
	addMutants(
		Mutant{Name: "c16-marshal-size-cap", Prop: "C16", File: pco, Old: "\tfor _, containerUnit := range protocolConfigurationOptions.ProtocolOrContainerList {\n", New: "\tfor _, containerUnit := range protocolConfigurationOptions.ProtocolOrContainerList {\n\t\tif buffer.Len() > 251 {\n\t\t\tbreak\n\t\t}\n",
			Expect: "seq.all-items", Why: "units beyond 251 octets silently not serialised"},
		Mutant{Name: "c16-last-empty-unit-dropped", Prop: "C16", File: pco, Old: "\t\t\tif curContainer.LengthOfContents == 0 {\n", New: "\t\t\tif curContainer.LengthOfContents == 0 && numOfBytes > 0 {\n",
			Expect: "pco.units", Why: "a zero-length unit at the end of the list is not returned"},
		Mutant{Name: "c15-skip-fields-for-delete", Prop: "C15", File: "nasType/qos_rule.go", Old: "\t\tif err := binary.Read(buf, binary.BigEndian, &rule.Precedence); err != nil {", New: "\t\tif rule.Operation == OperationCodeDeleteExistingQoSRule {\n\t\t\t*q = append(*q, rule)\n\t\t\tcontinue\n\t\t}\n\t\tif err := binary.Read(buf, binary.BigEndian, &rule.Precedence); err != nil {",
			Expect: "seq.must-read", Why: "precedence and QFI octets left unread for one operation code"},
		Mutant{Name: "c20-offset-from-id", Prop: "C20", File: "uePolicyContainer/UPSC_Generator.go", Old: "\tidGenerator.setOffset(min)\n", New: "\tidGenerator.setOffset(min - idGenerator.minValue)\n",
			Expect: "alloc.bounds", Why: "negative dividend of the offset reduction for min below minValue"},
		Mutant{Name: "c12-suci-output-trimmed", Prop: "C12", File: "nasType/NAS_MobileIdentity5GS.go", Old: "\t\t\tschemeOutput = hex.EncodeToString(a.Buffer[8:])", New: "\t\t\tschemeOutput = strings.TrimSuffix(hex.EncodeToString(a.Buffer[8:]), \"f\")",
			Expect: "text.suci-output", Why: "a trailing f of a non-null scheme output is dropped"},
		Mutant{Name: "c12-guti-digit-folded", Prop: "C12", File: "nasConvert/MobileIdentity5GS.go", Old: "\tif mcc1Tmp, err := strconv.Atoi(string(guti[0])); err != nil {", New: "\tif mcc1Tmp, err := strconv.Atoi(string(guti[0]&0x0f | 0x30)); err != nil {",
			Expect: "err.reject.guti", Why: "letters whose low nibble is 0..9 are accepted as MCC digit 1"},
		Mutant{Name: "c06-cipher-state-cached", Prop: "C06", File: "security/snow3g/snow3g.go", Old: "func GetKeyStream(k, iv [4]uint32, n int) []uint32 {\n\ts := newSnow3g(k, iv)\n", New: "var lastState *snow3g\n\nfunc GetKeyStream(k, iv [4]uint32, n int) []uint32 {\n\ts := newSnow3g(k, iv)\n\tlastState = s\n",
			Expect: "pure.no-state", Why: "cipher state kept in a package-level variable"},
		Mutant{Name: "c06-extra-driver-entry", Prop: "C06", File: "security/snow3g/snow3g.go", Old: "func GetKeyStream(k, iv [4]uint32, n int) []uint32 {", New: "func MoreKeyStream(s *snow3g, n int) []uint32 {\n\tks := make([]uint32, n)\n\ts.generateKeystream(n, ks)\n\treturn ks\n}\n\nfunc GetKeyStream(k, iv [4]uint32, n int) []uint32 {",
			Expect: "drv.callers", Why: "the discarded first clock would be repeated by a second entry into generateKeystream"},
		Mutant{Name: "c18-plmn-written-in-place", Prop: "C18", File: "uePolicyContainer/UePolicyContainer_UEPolicySectionManagementSubList.go", Old: "\tu.Mcc = &mcc\n\tu.Mnc = &mnc\n", New: "\tif u.Mcc == nil {\n\t\tu.Mcc, u.Mnc = new(int), new(int)\n\t}\n\t*u.Mcc, *u.Mnc = mcc, mnc\n",
			Expect: "ptr.fresh-store", Why: "MCC/MNC overwritten in place: value copies of the sublist share the ints"},
		Mutant{Name: "c15-flow-label-mask", Prop: "C15", File: "nasType/qos_rule.go", Old: "\tp.Label = uint32(b[0])<<16 | uint32(b[1])<<8 | uint32(b[2])", New: "\tp.Label = uint32(b[0]&0x03)<<16 | uint32(b[1])<<8 | uint32(b[2])",
			Expect: "comp.roundtrip", Why: "labels of 2^18 and more serialise (below 2^19) but lose a bit on parse"},
		Mutant{Name: "c15-ipv4-mask-offset", Prop: "C15", File: "nasType/qos_rule.go", Old: "\tp.Mask = b[4:8]", New: "\tp.Mask = b[3:7]",
			Expect: "comp.roundtrip / nasType.PacketFilterIPv4", Why: "mask parsed one octet early (overlaps the address)"},
		Mutant{Name: "c15-mac-short", Prop: "C15", File: "nasType/qos_rule.go", Old: "\tp.MAC = b\n", New: "\tp.MAC = b[:5]\n",
			Expect: "comp.roundtrip / nasType.PacketFilter", Why: "last MAC address octet dropped on parse"},
		Mutant{Name: "c15-ipv4-order", Prop: "C15", File: "nasType/qos_rule.go", Old: "\tif err := binary.Write(buf, binary.BigEndian, p.Address); err != nil {\n\t\treturn nil, err\n\t}\n\n\tif err := binary.Write(buf, binary.BigEndian, p.Mask); err != nil {", New: "\tif err := binary.Write(buf, binary.BigEndian, p.Mask); err != nil {\n\t\treturn nil, err\n\t}\n\n\tif err := binary.Write(buf, binary.BigEndian, p.Address); err != nil {",
			Expect: "comp.roundtrip / nasType.PacketFilterIPv4", Why: "mask serialised before the address"},
		Mutant{Name: "c15-skip-repeated-parameter", Prop: "C15", File: "nasType/qos_flow_desc.go", Old: "\tfor _, parameter := range *l {\n\t\tif err := binary.Write(buf, binary.BigEndian, parameter.Identifier()); err != nil {", New: "\tfor i, parameter := range *l {\n\t\tif i > 0 && (*l)[i-1].Identifier() == parameter.Identifier() {\n\t\t\tcontinue\n\t\t}\n\t\tif err := binary.Write(buf, binary.BigEndian, parameter.Identifier()); err != nil {",
			Expect: "seq.all-items", Why: "a repeated parameter is counted but not written"},
		Mutant{Name: "c09-dnn-root-label-stops", Prop: "C09", File: "nasType/NAS_DNN.go", Old: "\t\t\tfqdn += string(rfc1035Reader.Next(int(labelLen))) + \".\"", New: "\t\t\tif labelLen == 0 {\n\t\t\t\tbreak\n\t\t\t}\n\t\t\tfqdn += string(rfc1035Reader.Next(int(labelLen))) + \".\"",
			Expect: "text.dnn", Why: "everything behind an empty label is dropped"},
		Mutant{Name: "c18-sublist-runs-on", Prop: "C18", File: "uePolicyContainer/UePolicyContainer_UEPolicySectionManagementSubList.go", Old: "buf.Next(int(u.Len - 3))", New: "buf.Next(int(u.Len - 1))",
			Expect: "walk.uepol", Why: "the sublist contents swallow two octets of the next sublist"},
		Mutant{Name: "c13-ladn-tai-length-formula", Prop: "C13", File: "nasConvert/Ladn.go", Old: "\tladnNas = append(ladnNas, uint8(len(taiListNas)))", New: "\tladnNas = append(ladnNas, uint8(1+3+3*len(taiLists)))",
			Expect: "lay.ladn", Why: "length right only for a TAI list of one PLMN"},
		Mutant{Name: "c12-plmn-filler-boundary", Prop: "C12", File: "nasConvert/PlmnId.go", Old: "\tif plmnID[5] == 'f' {", New: "\tif nasBuf[1] > 0xf0 {",
			Expect: "lay.plmn.text", Why: "the filler is kept when MCC digit 3 is 0"},
	)
}
