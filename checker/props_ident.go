package main

// C12 — identity conversions: PLMN digit order, AMF identifier split, GUTI field offsets
// (E2 digit / nibble provenance), error discipline of the *WithError variants.
// The PLMN part is shared with C18 (sibling cross-check of all PLMN encoders).

import (
	"fmt"
	"go/token"
	"go/types"
	"strings"

	"golang.org/x/tools/go/ssa"
)

func init() {
	register("C12", func(w *World, r *Report, tier string) {
		propC12(w, r, tier)
		importStateless(w, r, tier, []string{"nasConvert/MobileIdentity5GS.go", "nasConvert/PlmnId.go", "nasConvert/AmfId.go", "nasType/NAS_GUTI5G.go", "nasType/NAS_TMSI5GS.go", "nasType/NAS_MobileIdentity5GS.go"}, "identity conversions")
	})
}

type plmnDigits struct {
	m1, m2, m3, n1, n2, n3 []*Node // 4 nodes each (LSB first); n3 = filler 1111 for a 2-digit MNC
}

func nib(v BV) []*Node { return v.B[0:4] }

// wantPlmnOctets: TS 24.008 10.5.1.3 / TS 24.501 9.11.3.4: octet1 = MCC2|MCC1, octet2 = MNC3|MCC3, octet3 = MNC2|MNC1.
func wantPlmnOctets(d plmnDigits) [3][]*Node {
	mk := func(hi, lo []*Node) []*Node { return append(append([]*Node{}, lo...), hi...) }
	return [3][]*Node{mk(d.m2, d.m1), mk(d.n3, d.m3), mk(d.n2, d.n1)}
}

func cmpBits(it *Interp, got, want []*Node) (bool, string) {
	if len(got) != len(want) {
		return false, fmt.Sprintf("%d bits instead of %d", len(got), len(want))
	}
	for i := range got {
		if !it.EquivUnderPremise(got[i], want[i]) {
			return false, fmt.Sprintf("bit %d is %s, specified %s", i, trunc(got[i].Short(5), 60), trunc(want[i].Short(5), 60))
		}
	}
	return true, ""
}

func digitsFor(it *Interp, mncLen int) plmnDigits {
	d := plmnDigits{
		m1: it.SrcBV("mcc.d0", 4).B, m2: it.SrcBV("mcc.d1", 4).B, m3: it.SrcBV("mcc.d2", 4).B,
		n1: it.SrcBV("mnc.d0", 4).B, n2: it.SrcBV("mnc.d1", 4).B,
	}
	if mncLen == 3 {
		d.n3 = it.SrcBV("mnc.d2", 4).B
	} else {
		d.n3 = it.constBV(0xF, 4).B
	}
	return d
}

// checkPlmnEncoders runs every PLMN encoder of the library on symbolic decimal digits (2- and
// 3-digit MNC) and compares the three octets with the TS 24.008 layout.
func checkPlmnEncoders(w *World, r *Report, which map[string]bool) {
	type enc struct {
		key  string
		rel  string
		name string
		run  func(it *Interp, st *state, fn *ssa.Function, mncLen int) ([3]BV, bool)
	}
	setPlmn := func(it *Interp, st *state, fn *ssa.Function, mncLen int) ([3]BV, bool) {
		_, recv := it.SymbolicObj("recv")
		it.Call(fn, []Value{recv, it.SymbolicDecimal("mcc", 3), it.SymbolicDecimal("mnc", mncLen)}, st, 0)
		var out [3]BV
		for i, f := range []string{".PlmnDigit1", ".PlmnDigit2", ".PlmnDigit3"} {
			v, ok := st.mem[recv.Obj][f].(BV)
			if !ok {
				return out, false
			}
			out[i] = v
		}
		return out, true
	}
	encs := []enc{
		{"uePolicyContainer.SubList", "uePolicyContainer", "UEPolicySectionManagementSubList.SetPlmnDigit", setPlmn},
		{"uePolicyContainer.SubResult", "uePolicyContainer", "UEPolicySectionManagementSubResult.SetPlmnDigit", setPlmn},
		{"nasConvert.PlmnIDToNas", "nasConvert", "PlmnIDToNas", func(it *Interp, st *state, fn *ssa.Function, mncLen int) ([3]BV, bool) {
			arg := AggV{Cells: map[string]Value{".Mcc": it.DigitString("mcc", 3), ".Mnc": it.DigitString("mnc", mncLen)}}
			res := it.Call(fn, []Value{arg}, st, 0)
			var out [3]BV
			sl, ok := res.(SliceV)
			if !ok || sl.Len != 3 {
				return out, false
			}
			for i := 0; i < 3; i++ {
				v, ok := it.load(st, it.sliceElemPtr(sl, i), types.Typ[types.Uint8]).(BV)
				if !ok {
					return out, false
				}
				out[i] = v
			}
			return out, true
		}},
		{"nasConvert.GutiToNasWithError", "nasConvert", "GutiToNasWithError", func(it *Interp, st *state, fn *ssa.Function, mncLen int) ([3]BV, bool) {
			s := StrV{Sym: true}
			s.Chars = append(s.Chars, it.DigitString("mcc", 3).Chars...)
			s.Chars = append(s.Chars, it.DigitString("mnc", mncLen).Chars...)
			s.Chars = append(s.Chars, it.HexString("amf", 6).Chars...)
			s.Chars = append(s.Chars, it.HexString("tmsi", 8).Chars...)
			res := it.Call(fn, []Value{s}, st, 0)
			var out [3]BV
			tv, ok := res.(TupleV)
			if !ok || len(tv) != 2 {
				return out, false
			}
			ag, ok := tv[0].(AggV)
			if !ok {
				return out, false
			}
			for i := 0; i < 3; i++ {
				v, ok := ag.Cells[fmt.Sprintf(".Octet[%d]", i+1)].(BV)
				if !ok {
					return out, false
				}
				out[i] = v
			}
			return out, true
		}},
	}
	for _, e := range encs {
		if which != nil && !which[e.key] {
			continue
		}
		f := w.LookupFunc(e.rel, e.name)
		if f == nil {
			r.Fail("anchor", e.rel+"."+e.name, "missing", token.NoPos, "PLMN encoder not found", nil)
			continue
		}
		fname := FuncName(f)
		r.Fn(fname)
		for _, mncLen := range []int{2, 3} {
			r.Site("lay.plmn")
			it := NewInterp(w)
			st := it.NewState()
			got, ok := e.run(it, st, w.SSAFunc(f), mncLen)
			what := fmt.Sprintf("%d-digit MNC", mncLen)
			if !ok || len(it.Unsup) > 0 {
				r.Fail("lay.plmn", fname, what+" undecided", f.Pos(), fmt.Sprintf("encoder outside the modelled fragment: %v", it.Unsup), nil)
				continue
			}
			want := wantPlmnOctets(digitsFor(it, mncLen))
			good := true
			names := [3][2]string{{"MCC digit 1", "MCC digit 2"}, {"MCC digit 3", "MNC digit 3 / filler"}, {"MNC digit 1", "MNC digit 2"}}
			for i := 0; i < 3; i++ {
				for h := 0; h < 2; h++ { // low nibble, high nibble
					if ok, why := cmpBits(it, got[i].B[4*h:4*h+4], want[i][4*h:4*h+4]); !ok {
						good = false
						half := [2]string{"bits 4-1", "bits 8-5"}[h]
						r.Fail("lay.plmn", fname, fmt.Sprintf("octet %d %s, %s", i+1, half, what), f.Pos(),
							fmt.Sprintf("PLMN octet %d %s does not carry %s (digit 1 = most significant decimal digit) for a %s: %s; octet (msb first) %s", i+1, half, names[i][h], what, why, trunc(got[i].String(), 120)), nil)
					}
				}
			}
			if good {
				r.OK("lay.plmn")
				if len(r.Samples) < 20 {
					r.Sample(map[string]any{"rule": "lay.plmn", "func": fname, "mnc_digits": mncLen, "octet1_msb_first": got[0].String(), "octet2_msb_first": got[1].String(), "octet3_msb_first": got[2].String()})
				}
			}
		}
	}
}

// checkPlmnDecoders: text rendered from the three PLMN octets is MCC1 MCC2 MCC3 MNC1 MNC2 [MNC3].
func checkPlmnDecoders(w *World, r *Report) {
	type dec struct {
		rel, name string
		run       func(it *Interp, st *state, fn *ssa.Function, buf SliceV, recv Ptr) (Value, bool)
		offset    int // index of PLMN octet 1 inside the input
		total     int
	}
	asStr := func(v Value) (StrV, bool) {
		s, ok := v.(StrV)
		return s, ok && s.Sym
	}
	type pin struct {
		digit int // index into m1 m2 m3 n1 n2 n3, -1: none
		val   uint64
	}
	pins := []pin{{-1, 0}}
	for dgt := 0; dgt < 6; dgt++ {
		pins = append(pins, pin{dgt, 0}, pin{dgt, 9})
	}
	for _, mncLen := range []int{2, 3} {
		for _, pn := range pins {
			if pn.digit == 5 && mncLen == 2 {
				continue
			}
			dname := "PlmnIDToString"
			f := w.LookupFunc("nasConvert", dname)
			if f == nil {
				r.Fail("anchor", "nasConvert."+dname, "missing", token.NoPos, "decoder not found", nil)
				continue
			}
			fname := FuncName(f)
			r.Fn(fname)
			r.Site("lay.plmn.text")
			it := NewInterp(w)
			st := it.NewState()
			o := it.NewObj("plmn", false)
			st.mem[o] = map[string]Value{}
			d := digitsFor(it, mncLen)
			oct := wantPlmnOctets(d)
			for i := 0; i < 3; i++ {
				st.mem[o][fmt.Sprintf("[%d]", i)] = BV{W: 8, B: oct[i]}
			}
			if mncLen == 3 {
				// premise: MNC digit 3 is a decimal digit, i.e. not the filler 1111
				all := it.T.one
				for _, b := range d.n3 {
					all = it.T.And(all, b)
				}
				it.AndPremise(it.T.Not(all))
			}
			what := fmt.Sprintf("%d-digit MNC", mncLen)
			if pn.digit >= 0 {
				// boundary case: one digit pinned to 0 or 9 (decides comparisons that depend on it)
				bits := [][]*Node{d.m1, d.m2, d.m3, d.n1, d.n2, d.n3}[pn.digit]
				eq := it.T.one
				for k, b := range bits {
					if pn.val>>uint(k)&1 == 1 {
						eq = it.T.And(eq, b)
					} else {
						eq = it.T.And(eq, it.T.Not(b))
					}
				}
				it.AndPremise(eq)
				what += fmt.Sprintf(", %s = %d", []string{"MCC digit 1", "MCC digit 2", "MCC digit 3", "MNC digit 1", "MNC digit 2", "MNC digit 3"}[pn.digit], pn.val)
			}
			res := it.Call(w.SSAFunc(f), []Value{SliceV{Obj: o, Len: 3}}, st, 0)
			s, ok := asStr(res)
			if !ok || len(it.Unsup) > 0 {
				r.Fail("lay.plmn.text", fname, what+" undecided", f.Pos(), fmt.Sprintf("decoder outside the modelled fragment: %v %v", res, it.Unsup), nil)
				continue
			}
			want := [][]*Node{d.m1, d.m2, d.m3, d.n1, d.n2}
			if mncLen == 3 {
				want = append(want, d.n3)
			}
			good := len(s.Chars) == len(want)
			why := fmt.Sprintf("%d characters instead of %d", len(s.Chars), len(want))
			for i := 0; good && i < len(want); i++ {
				nb, ok := it.nibbleOfChar(s.Chars[i])
				if !ok {
					good, why = false, fmt.Sprintf("character %d is not a digit character", i)
					break
				}
				if ok2, w2 := cmpBits(it, nb, want[i]); !ok2 {
					good, why = false, fmt.Sprintf("character %d: %s", i, w2)
				}
			}
			if !good {
				r.Fail("lay.plmn.text", fname, what, f.Pos(), "the text is not MCC1 MCC2 MCC3 MNC1 MNC2 [MNC3] of the specified nibbles: "+why, nil)
			} else {
				r.OK("lay.plmn.text")
			}
		}
	}
}

// checkPlmnTextGetters: MobileIdentity5GS.GetMCC / GetMNC and GutiToStringWithError render the
// specified nibbles in digit order.
func checkPlmnTextGetters(w *World, r *Report) {
	for _, mncLen := range []int{2, 3} {
		what := fmt.Sprintf("%d-digit MNC", mncLen)
		mk := func() (*Interp, *state, plmnDigits, [3][]*Node) {
			it := NewInterp(w)
			st := it.NewState()
			d := digitsFor(it, mncLen)
			if mncLen == 3 {
				all := it.T.one
				for _, b := range d.n3 {
					all = it.T.And(all, b)
				}
				it.AndPremise(it.T.Not(all))
			}
			return it, st, d, wantPlmnOctets(d)
		}
		textIs := func(it *Interp, v Value, want [][]*Node) (bool, string) {
			s, ok := v.(StrV)
			if !ok || !s.Sym {
				return false, fmt.Sprintf("result is not symbolic text: %v", v)
			}
			if len(s.Chars) != len(want) {
				return false, fmt.Sprintf("%d characters instead of %d", len(s.Chars), len(want))
			}
			for i := range want {
				nb, ok := it.nibbleOfChar(s.Chars[i])
				if !ok {
					return false, fmt.Sprintf("character %d is not a digit / hex character", i)
				}
				if ok2, why := cmpBits(it, nb, want[i]); !ok2 {
					return false, fmt.Sprintf("character %d: %s", i, why)
				}
			}
			return true, ""
		}
		// nasType.(*MobileIdentity5GS).GetMCC / GetMNC: PLMN at Buffer[1..3]
		for _, g := range []string{"GetMCC", "GetMNC"} {
			f := w.LookupFunc("nasType", "MobileIdentity5GS."+g)
			if f == nil {
				r.Fail("anchor", "nasType.MobileIdentity5GS."+g, "missing", token.NoPos, "getter not found", nil)
				continue
			}
			r.Site("lay.plmn.text")
			it, st, d, oct := mk()
			ro := it.NewObj("recv", false)
			bo := it.NewObj("recv.Buffer", true)
			st.mem[ro] = map[string]Value{".Buffer": SliceV{Obj: bo, Len: 11}}
			st.mem[bo] = map[string]Value{}
			for i := 0; i < 3; i++ {
				st.mem[bo][fmt.Sprintf("[%d]", i+1)] = BV{W: 8, B: oct[i]}
			}
			res := it.Call(w.SSAFunc(f), []Value{Ptr{Obj: ro}}, st, 0)
			want := [][]*Node{d.m1, d.m2, d.m3}
			if g == "GetMNC" {
				want = [][]*Node{d.n1, d.n2}
				if mncLen == 3 {
					want = append(want, d.n3)
				}
			}
			if ok, why := textIs(it, res, want); !ok || len(it.Unsup) > 0 {
				r.Fail("lay.plmn.text", FuncName(f), what, f.Pos(), fmt.Sprintf("the text is not the specified digits in order: %s %v", why, it.Unsup), nil)
			} else {
				r.OK("lay.plmn.text")
			}
		}
		// nasConvert.GutiToStringWithError
		if f := w.LookupFunc("nasConvert", "GutiToStringWithError"); f != nil {
			r.Site("lay.guti-offsets")
			it, st, d, oct := mk()
			bo := it.NewObj("guti", true)
			st.mem[bo] = map[string]Value{}
			for i := 0; i < 3; i++ {
				st.mem[bo][fmt.Sprintf("[%d]", i+1)] = BV{W: 8, B: oct[i]}
			}
			res := it.Call(w.SSAFunc(f), []Value{SliceV{Obj: bo, Len: 11}}, st, 0)
			want := [][]*Node{d.m1, d.m2, d.m3, d.n1, d.n2}
			if mncLen == 3 {
				want = append(want, d.n3)
			}
			for i := 4; i < 11; i++ {
				b := it.SrcBV(fmt.Sprintf("guti[%d]", i), 8)
				want = append(want, b.B[4:8], b.B[0:4])
			}
			var text Value
			if tv, ok := res.(TupleV); ok && len(tv) == 3 {
				text = tv[1]
			}
			if ok, why := textIs(it, text, want); !ok || len(it.Unsup) > 0 {
				r.Fail("lay.guti-offsets", FuncName(f), what, f.Pos(), fmt.Sprintf("the GUTI text is not PLMN digits + octets 4..6 + octets 7..10 in hex: %s %v", why, it.Unsup), nil)
			} else {
				r.OK("lay.guti-offsets")
			}
		}
	}
}

func propC12(w *World, r *Report, tier string) {
	r.Explanation = "Digit / nibble provenance (E2): every PLMN encoder of the library is run on symbolic decimal digits (2- and 3-digit MNC) and its three octets are " +
		"compared — as Boolean functions — with the TS 24.008 / TS 24.501 9.11.3.4 layout (MCC2|MCC1, MNC3|MCC3, MNC2|MNC1, filler 1111); the PLMN text decoder is " +
		"run on the specified octets and must render MCC1 MCC2 MCC3 MNC1 MNC2 [MNC3]. AMF identifier: AmfIdToNasWithError on six symbolic hex characters must yield " +
		"region(8) | set(10) | pointer(6) and AmfIdToModels must be its inverse on all 24 bits. GUTI: GutiToNasWithError places PLMN, AMF id and TMSI at octets 1..3, 4..6, 7..10 " +
		"and GutiToStringWithError reads the same octets; text(wire) converted back is the same 11 octets for every well-formed 5G-GUTI. Identity texts (props_ident_text.go): the complete SUCI text " +
		"(2-/3-digit MNC x 1..4 routing indicator digits x null scheme with even / odd MSIN, non-null schemes), the IMEI / IMEISV texts (odd / even digit count, 1, 2, 8, 9 octets), the 5G-TMSI / 5G-S-TMSI / AMF id hexadecimal texts " +
		"and the numbers behind the decimal AMF set ID / pointer texts are compared character by character with the text TS 23.003 / TS 24.501 9.11.3.4 define for the symbolic octets. Error discipline: in every *WithError converter each error returned by strconv/hex and each length test leads to a non-nil error."
	r.Assumptions = []string{"MCC has three digits, MNC two or three; digit characters are '0'..'9'; hex text is lower case",
		"identity texts are decided at the listed element lengths (loops over the identity digits are unrolled there), not for every length; NAI-format SUCI text and the decimal rendering inside strconv are not decided"}
	r.Trusted = []string{"go/ssa", "E2 interpreter and ROBDD equivalence", "models of strconv.Atoi (one digit) and encoding/hex in checker/bitflow_text.go"}
	checkPlmnEncoders(w, r, map[string]bool{"nasConvert.PlmnIDToNas": true, "nasConvert.GutiToNasWithError": true})
	checkPlmnDecoders(w, r)
	checkPlmnTextGetters(w, r)
	checkAmfID(w, r)
	checkGutiOffsets(w, r)
	checkConvertErrors(w, r)
	checkGutiRejects(w, r)
	checkSuciSchemeOutput(w, r)
	checkPeiText(w, r)
	checkTmsiText(w, r)
	checkSuciText(w, r)
	checkGutiRoundTrip(w, r)
	r.Expect("lay.plmn", 4)
	r.Expect("text.pei", 14)
	r.Expect("text.suci", 24)
	r.Expect("text.tmsi", 5)
	r.Expect("text.amf-decimal", 4)
	r.Expect("text.guti-roundtrip", 2)
}

// checkAmfID: region(8) | set(10) | pointer(6)
func checkAmfID(w *World, r *Report) {
	f := w.LookupFunc("nasConvert", "AmfIdToNasWithError")
	g := w.LookupFunc("nasConvert", "AmfIdToModels")
	if f == nil || g == nil {
		r.Fail("anchor", "nasConvert.AmfIdToNasWithError/AmfIdToModels", "missing", token.NoPos, "AMF id converters not found", nil)
		return
	}
	it := NewInterp(w)
	st := it.NewState()
	hs := it.HexString("amf", 6)
	// the 24 identifier bits, most significant first: nibble 0 bit 3 ... nibble 5 bit 0
	var bits []*Node
	for i := 0; i < 6; i++ {
		for b := 3; b >= 0; b-- {
			bits = append(bits, hs.Chars[i].Hex[b])
		}
	}
	field := func(from, n int) []*Node { // LSB first
		var out []*Node
		for k := from + n - 1; k >= from; k-- {
			out = append(out, bits[k])
		}
		return out
	}
	res := it.Call(w.SSAFunc(f), []Value{hs}, st, 0)
	fname := FuncName(f)
	r.Fn(fname)
	r.Site("lay.amfid")
	tv, ok := res.(TupleV)
	if !ok || len(tv) != 4 || len(it.Unsup) > 0 {
		r.Fail("lay.amfid", fname, "undecided", f.Pos(), fmt.Sprintf("outside the modelled fragment: %v", it.Unsup), nil)
	} else {
		good := true
		for _, c := range []struct {
			name string
			v    Value
			from int
			n    int
		}{{"region", tv[0], 0, 8}, {"set", tv[1], 8, 10}, {"pointer", tv[2], 18, 6}} {
			bv, ok := c.v.(BV)
			want := field(c.from, c.n)
			for len(want) < bv.W {
				want = append(want, it.T.zero)
			}
			if ok2, why := cmpBits(it, bv.B, want); !ok || !ok2 {
				good = false
				r.Fail("lay.amfid", fname, c.name, f.Pos(), fmt.Sprintf("AMF %s is not bits %d..%d of the 24-bit identifier: %s", c.name, c.from, c.from+c.n-1, why), nil)
			}
		}
		if good {
			r.OK("lay.amfid")
		}
	}
	// text that is not exactly six hexadecimal characters is an error ("invalid text is reported")
	for _, n := range []int{0, 1, 2, 4, 5, 7, 8} {
		r.Site("err.reject.amfid")
		itn := NewInterp(w)
		stn := itn.NewState()
		resn := itn.Call(w.SSAFunc(f), []Value{itn.HexString("amf", n)}, stn, 0)
		what := fmt.Sprintf("%d hexadecimal characters", n)
		tvn, okn := resn.(TupleV)
		var nn *Node
		if okn && len(tvn) == 4 {
			nn, okn = itn.errNil(tvn[3])
		}
		if !okn || len(itn.Unsup) > 0 {
			r.Fail("err.reject.amfid", fname, what+" undecided", f.Pos(), fmt.Sprintf("the error result is outside the modelled fragment: %v", itn.Unsup), nil)
			continue
		}
		if !itn.EquivUnderPremise(nn, itn.T.zero) {
			r.Fail("err.reject.amfid", fname, what, f.Pos(), "an AMF identifier text of "+what+" (not six) is accepted without an error", nil)
			continue
		}
		r.OK("err.reject.amfid")
	}
	// inverse
	it2 := NewInterp(w)
	st2 := it2.NewState()
	region, set, ptr := it2.SrcBV("region", 8), it2.SrcBV("set", 16), it2.SrcBV("pointer", 8)
	res2 := it2.Call(w.SSAFunc(g), []Value{region, set, ptr}, st2, 0)
	gname := FuncName(g)
	r.Fn(gname)
	r.Site("lay.amfid")
	s, ok := res2.(StrV)
	if !ok || !s.Sym || len(s.Chars) != 6 || len(it2.Unsup) > 0 {
		r.Fail("lay.amfid", gname, "undecided", g.Pos(), fmt.Sprintf("outside the modelled fragment: %v %v", res2, it2.Unsup), nil)
		return
	}
	// expected 24 bits msb first: region[7..0] set[9..0] pointer[5..0]
	var want []*Node
	for b := 7; b >= 0; b-- {
		want = append(want, region.B[b])
	}
	for b := 9; b >= 0; b-- {
		want = append(want, set.B[b])
	}
	for b := 5; b >= 0; b-- {
		want = append(want, ptr.B[b])
	}
	good := true
	for i := 0; i < 6; i++ {
		nb, ok := it2.nibbleOfChar(s.Chars[i])
		var wn []*Node
		for b := 3; b >= 0; b-- {
			wn = append(wn, want[4*i+3-b])
		}
		// wn is MSB first here; make LSB first
		lsb := []*Node{want[4*i+3], want[4*i+2], want[4*i+1], want[4*i]}
		_ = wn
		if ok2, why := cmpBits(it2, nb, lsb); !ok || !ok2 {
			good = false
			r.Fail("lay.amfid", gname, fmt.Sprintf("hex digit %d", i), g.Pos(), fmt.Sprintf("hex digit %d of the AMF identifier is not bits %d..%d of region(8)|set(10)|pointer(6): %s", i, 4*i, 4*i+3, why), nil)
			break
		}
	}
	if good {
		r.OK("lay.amfid")
	}
}

// checkGutiOffsets: the GUTI text is PLMN(octets 1..3) + AMF id (4..6) + TMSI (7..10), and back.
func checkGutiOffsets(w *World, r *Report) {
	f := w.LookupFunc("nasConvert", "GutiToNasWithError")
	if f == nil {
		return
	}
	fname := FuncName(f)
	for _, mncLen := range []int{2, 3} {
		r.Site("lay.guti-offsets")
		it := NewInterp(w)
		st := it.NewState()
		s := StrV{Sym: true}
		s.Chars = append(s.Chars, it.DigitString("mcc", 3).Chars...)
		s.Chars = append(s.Chars, it.DigitString("mnc", mncLen).Chars...)
		amf, tmsi := it.HexString("amf", 6), it.HexString("tmsi", 8)
		s.Chars = append(s.Chars, amf.Chars...)
		s.Chars = append(s.Chars, tmsi.Chars...)
		res := it.Call(w.SSAFunc(f), []Value{s}, st, 0)
		tv, ok := res.(TupleV)
		what := fmt.Sprintf("%d-digit MNC", mncLen)
		if !ok || len(tv) != 2 || len(it.Unsup) > 0 {
			r.Fail("lay.guti-offsets", fname, what+" undecided", f.Pos(), fmt.Sprintf("outside the modelled fragment: %v", it.Unsup), nil)
			continue
		}
		ag, _ := tv[0].(AggV)
		if _, isNil := tv[1].(NilV); !isNil {
			r.Fail("lay.guti-offsets", fname, what+" error", f.Pos(), "a well-formed GUTI text is not accepted (error result not nil)", nil)
			continue
		}
		good := true
		chk := func(octet int, hi, lo []*Node, name string) {
			bv, ok := ag.Cells[fmt.Sprintf(".Octet[%d]", octet)].(BV)
			want := append(append([]*Node{}, lo...), hi...)
			if ok2, why := cmpBits(it, bv.B, want); !ok || !ok2 {
				good = false
				r.Fail("lay.guti-offsets", fname, fmt.Sprintf("octet %d", octet), f.Pos(), fmt.Sprintf("octet %d of the GUTI is not %s: %s", octet, name, why), nil)
			}
		}
		for i := 0; i < 3; i++ {
			chk(4+i, amf.Chars[2*i].Hex, amf.Chars[2*i+1].Hex, fmt.Sprintf("AMF identifier octet %d", i))
		}
		for i := 0; i < 4; i++ {
			chk(7+i, tmsi.Chars[2*i].Hex, tmsi.Chars[2*i+1].Hex, fmt.Sprintf("5G-TMSI octet %d", i))
		}
		if good {
			r.OK("lay.guti-offsets")
		}
	}
}

// checkSuciSchemeOutput: for a SUCI in IMSI format with a non-null protection scheme the text ends
// with the scheme output as lowercase hexadecimal, two characters per octet, nothing trimmed
// (TS 23.003 2.2B).  The header octets are concrete, the scheme output octets symbolic.
func checkSuciSchemeOutput(w *World, r *Report) {
	f := w.LookupFunc("nasType", "MobileIdentity5GS.GetSUCI")
	if f == nil {
		r.Fail("anchor", "nasType.MobileIdentity5GS.GetSUCI", "missing", token.NoPos, "getter not found", nil)
		return
	}
	fname := FuncName(f)
	r.Fn(fname)
	for _, scheme := range []uint64{1, 2} {
		for _, k := range []int{1, 4, 9} {
			r.Site("text.suci-output")
			it := NewInterp(w)
			it.Fuel = 100000
			st := it.NewState()
			bo := it.NewObj("buf", true)
			st.mem[bo] = map[string]Value{}
			hdr := []uint64{0x01, 0x02, 0xf8, 0x39, 0xf0, 0xff, scheme, 5}
			for i, v := range hdr {
				st.mem[bo][fmt.Sprintf("[%d]", i)] = it.constBV(v, 8)
			}
			var out []BV
			for i := 0; i < k; i++ {
				out = append(out, it.SrcBV(fmt.Sprintf("buf[%d]", 8+i), 8))
			}
			ro, recv := it.SymbolicObj("id")
			st.mem[ro] = map[string]Value{".Buffer": SliceV{Obj: bo, Len: 8 + k}, ".Len": it.constBV(uint64(8+k), 16)}
			res := it.Call(w.SSAFunc(f), []Value{recv}, st, 0)
			what := fmt.Sprintf("scheme %d, %d output octets", scheme, k)
			sv, ok := res.(StrV)
			if !ok || !sv.Sym || len(it.Unsup) > 0 {
				r.Fail("text.suci-output", fname, what+" undecided", f.Pos(), fmt.Sprintf("the SUCI text is outside the modelled fragment: %v", it.Unsup), nil)
				continue
			}
			last := -1
			for i, ch := range sv.Chars {
				if v, isC := ch.IsConst(); isC && ch.Hex == nil && v == '-' {
					last = i
				}
			}
			good, why := last >= 0, "no '-' separated scheme output"
			if good {
				good, why = hexOf(it, StrV{Sym: true, Chars: sv.Chars[last+1:]}, out)
			}
			if !good {
				r.Fail("text.suci-output", fname, what, f.Pos(), "the scheme output part of the SUCI text is not the hexadecimal text of octets 9.. (two characters per octet): "+why, nil)
				continue
			}
			r.OK("text.suci-output")
		}
	}
	r.Expect("text.suci-output", 6)
}

// checkGutiRejects: a GUTI text whose PLMN part holds a character that is not a decimal digit is
// reported as an error.  Position p carries a fully symbolic octet c, every other position a
// well-formed character; the nil-ness of the returned error is a Boolean function N of c (ErrV),
// and N must imply isdigit(c).
func checkGutiRejects(w *World, r *Report) {
	f := w.LookupFunc("nasConvert", "GutiToNasWithError")
	if f == nil {
		return
	}
	fname := FuncName(f)
	for _, mncLen := range []int{2, 3} {
		for p := 0; p < 3+mncLen; p++ {
			r.Site("err.reject.guti")
			it := NewInterp(w)
			st := it.NewState()
			s := StrV{Sym: true}
			s.Chars = append(s.Chars, it.DigitString("mcc", 3).Chars...)
			s.Chars = append(s.Chars, it.DigitString("mnc", mncLen).Chars...)
			c := it.SrcBV("c", 8)
			s.Chars[p] = c
			s.Chars = append(s.Chars, it.HexString("amf", 6).Chars...)
			s.Chars = append(s.Chars, it.HexString("tmsi", 8).Chars...)
			res := it.Call(w.SSAFunc(f), []Value{s}, st, 0)
			what := fmt.Sprintf("%d-digit MNC, character %d", mncLen, p)
			tv, ok := res.(TupleV)
			var n *Node
			if ok && len(tv) == 2 {
				n, ok = it.errNil(tv[1])
			}
			if !ok || len(it.Unsup) > 0 {
				r.Fail("err.reject.guti", fname, what+" undecided", f.Pos(), fmt.Sprintf("the error result is outside the modelled fragment: %v", it.Unsup), nil)
				continue
			}
			hi3 := it.T.And(it.T.And(it.T.Not(c.B[7]), it.T.Not(c.B[6])), it.T.And(c.B[5], c.B[4]))
			le9 := it.T.Not(it.T.And(c.B[3], it.T.Or(c.B[2], c.B[1])))
			isd := it.T.And(hi3, le9)
			// premise and N and not isdigit(c) must be unsatisfiable
			bad := it.T.And(n, it.T.Not(isd))
			if it.Premise != nil {
				bad = it.T.And(it.Premise, bad)
			}
			if !it.T.Equiv(bad, it.T.zero) {
				r.Fail("err.reject.guti", fname, what, f.Pos(), "some octet that is not a decimal digit is accepted at "+what+" of the GUTI text (no error returned)", nil)
				continue
			}
			// and digits are accepted
			good := it.T.And(it.T.Not(n), isd)
			if it.Premise != nil {
				good = it.T.And(it.Premise, good)
			}
			if !it.T.Equiv(good, it.T.zero) {
				r.Fail("err.reject.guti", fname, what+" digit", f.Pos(), "a decimal digit is rejected at "+what, nil)
				continue
			}
			r.OK("err.reject.guti")
		}
	}
	r.Expect("err.reject.guti", 11)
}

// checkConvertErrors: in the *WithError converters every error produced by strconv / hex and
// every failed length test reaches a non-nil error return (E3: error result non-nil on the
// failure branch).
func checkConvertErrors(w *World, r *Report) {
	for _, n := range []string{"SuciToStringWithError", "GutiToStringWithError", "GutiToNasWithError", "PeiToStringWithError", "AmfIdToNasWithError"} {
		f := w.LookupFunc("nasConvert", n)
		if f == nil {
			r.Fail("anchor", "nasConvert."+n, "missing", token.NoPos, "converter not found", nil)
			continue
		}
		fn := w.SSAFunc(f)
		fname := FuncName(f)
		r.Fn(fname)
		nres := fn.Signature.Results().Len()
		// every `if err != nil` on a callee's error result must have a failing arm that returns a non-nil error
		for _, b := range fn.Blocks {
			iff, ok := b.Instrs[len(b.Instrs)-1].(*ssa.If)
			if !ok {
				continue
			}
			cond, ok := iff.Cond.(*ssa.BinOp)
			if !ok || (cond.Op != token.NEQ && cond.Op != token.EQL) {
				continue
			}
			isErrVal := func(v ssa.Value) bool {
				ex, ok := v.(*ssa.Extract)
				if !ok {
					return false
				}
				c, ok := ex.Tuple.(*ssa.Call)
				return ok && c.Call.StaticCallee() != nil && ex.Type().String() == "error"
			}
			if !isErrVal(cond.X) && !isErrVal(cond.Y) {
				continue
			}
			r.Site("err.propagate.convert")
			fail := b.Succs[0]
			if cond.Op == token.EQL {
				fail = b.Succs[1]
			}
			ret, isRet := fail.Instrs[len(fail.Instrs)-1].(*ssa.Return)
			okErr := false
			if isRet {
				ev := ret.Results[nres-1]
				if c, isC := ev.(*ssa.Const); !(isC && c.Value == nil) {
					okErr = true
				}
			}
			if !okErr {
				r.Fail("err.propagate.convert", fname, exprText(cond), iff.Pos(), "a conversion error does not lead to a non-nil error return", nil)
			} else {
				r.OK("err.propagate.convert")
			}
		}
	}
	r.Expect("err.propagate.convert", 3)
}

var _ = strings.Join
