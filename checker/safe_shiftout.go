package main

// E3 (part 8): shift-out loops.
//
//	for ; b != 0; b, pos = b<<1, pos+1 { ... }
//
// A header variable b of an unsigned W-bit type that every back edge replaces by b<<k or b>>k
// (k a constant >= 1), in a loop whose header test leaves the loop when b == 0, is 0 after at
// most ceil(W/k) iterations: the body runs at most N = ceil(W/k) times (rule R-shiftout).  A
// header variable p that every back edge replaces by p+c therefore satisfies
// p0 <= p <= p0 + c*N at the header and p <= p0 + c*(N-1) inside the body (c > 0; mirrored for
// c < 0), p0 being its value at loop entry.  These bounds are what lets the index obligations
// in the body of such a loop be discharged; an interval domain cannot find them by itself.

import (
	"go/constant"
	"go/token"
	"go/types"

	"golang.org/x/tools/go/ssa"
)

type shiftOut struct {
	head  *ssa.BasicBlock
	b     *ssa.Phi
	n     int64 // maximal number of iterations of the body
	stay  int   // index of the header successor that stays in the loop
	steps map[*ssa.Phi]int64
}

var shiftOutCache = map[*ssa.BasicBlock]*shiftOut{}

func constInt(v ssa.Value) (int64, bool) {
	for {
		if c, ok := v.(*ssa.Convert); ok {
			v = c.X
			continue
		}
		break
	}
	c, ok := v.(*ssa.Const)
	if !ok || c.Value == nil || c.Value.Kind() != constant.Int {
		return 0, false
	}
	return c.Int64(), true
}

func findShiftOut(h *ssa.BasicBlock) *shiftOut {
	if so, ok := shiftOutCache[h]; ok {
		return so
	}
	shiftOutCache[h] = nil
	var latches []int
	for i, p := range h.Preds {
		if h.Dominates(p) {
			latches = append(latches, i)
		}
	}
	if len(latches) == 0 || len(h.Instrs) == 0 {
		return nil
	}
	iff, ok := h.Instrs[len(h.Instrs)-1].(*ssa.If)
	if !ok {
		return nil
	}
	// only phis (and the comparison) in the header: the test is evaluated on the header values
	cmp, ok := iff.Cond.(*ssa.BinOp)
	if !ok || cmp.Block() != h {
		return nil
	}
	phi, ok := cmp.X.(*ssa.Phi)
	if !ok || phi.Block() != h {
		return nil
	}
	if z, ok := constInt(cmp.Y); !ok || z != 0 {
		return nil
	}
	bt, ok := phi.Type().Underlying().(*types.Basic)
	if !ok || bt.Info()&types.IsUnsigned == 0 {
		return nil
	}
	w, _, okW := typeWidth(phi.Type())
	if !okW {
		return nil
	}
	stay := -1
	switch cmp.Op {
	case token.NEQ, token.GTR:
		stay = 0
	case token.EQL:
		stay = 1
	default:
		return nil
	}
	body := map[*ssa.BasicBlock]bool{}
	var ls []*ssa.BasicBlock
	for _, i := range latches {
		ls = append(ls, h.Preds[i])
	}
	body = loopBlocks(h, ls)
	if !body[h.Succs[stay]] || body[h.Succs[1-stay]] {
		return nil
	}
	kmin := int64(0)
	for _, i := range latches {
		sh, ok := phi.Edges[i].(*ssa.BinOp)
		if !ok || (sh.Op != token.SHL && sh.Op != token.SHR) || sh.X != ssa.Value(phi) {
			return nil
		}
		k, ok := constInt(sh.Y)
		if !ok || k < 1 {
			return nil
		}
		if kmin == 0 || k < kmin {
			kmin = k
		}
	}
	so := &shiftOut{head: h, b: phi, n: (int64(w) + kmin - 1) / kmin, stay: stay, steps: map[*ssa.Phi]int64{}}
	for _, ins := range h.Instrs {
		p, ok := ins.(*ssa.Phi)
		if !ok {
			break
		}
		if p == phi {
			continue
		}
		if _, isInt := intRange(p.Type()); !isInt {
			continue
		}
		step, good := int64(0), true
		for _, i := range latches {
			ad, ok := p.Edges[i].(*ssa.BinOp)
			if !ok || (ad.Op != token.ADD && ad.Op != token.SUB) || ad.X != ssa.Value(p) {
				good = false
				break
			}
			c, ok := constInt(ad.Y)
			if !ok {
				good = false
				break
			}
			if ad.Op == token.SUB {
				c = -c
			}
			if step != 0 && c != step {
				good = false
				break
			}
			step = c
		}
		if good && step != 0 {
			so.steps[p] = step
		}
	}
	shiftOutCache[h] = so
	return so
}

// shiftOutBound assumes lo <= p - p0 <= hi (in units of the step) on state st.
func shiftOutBound(st *State, p, p0 *Lin, step, iters int64) {
	d := p.add(p0, -1) // p - p0
	if step > 0 {
		st.assume(d.scale(-1))             // p0 - p <= 0
		st.assume(d.addConst(-step * iters)) // p - p0 - step*iters <= 0
	} else {
		st.assume(d)                                  // p - p0 <= 0
		st.assume(d.scale(-1).addConst(step * iters)) // p0 - p + step*iters <= 0  (step < 0)
	}
}
