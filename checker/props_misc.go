package main

// C17: timers, session AMBR, network names (time zone helpers: see propC17 notes).

import (
	"fmt"
	"go/token"
	"strings"

	"golang.org/x/tools/go/ssa"
)

func init() {
	register("C17", func(w *World, r *Report, tier string) {
		propC17(w, r, tier)
		importStateless(w, r, tier, []string{"nasConvert/GPRSTimer2.go", "nasConvert/GPRSTimer3.go", "nasConvert/SessionAMBR.go", "nasConvert/Time.go", "nasConvert/NetWorkName.go"}, "timer, rate, time and name conversions")
	})
}

type timerSpec struct {
	fn    string
	max   uint64            // largest duration of the property's range (seconds)
	units map[uint64]uint64 // unit code -> seconds per step; absent = deactivated / reserved
	other uint64            // multiplier for codes not in units (0: invalid)
}

// TS 24.008 10.5.7.4 (GPRS timer 2 uses the GPRS timer coding) and 10.5.7.4a (GPRS timer 3).
var timer2Spec = timerSpec{"GPRSTimer2ToNas", 11160, map[uint64]uint64{0: 2, 1: 60, 2: 360}, 60}
var timer3Spec = timerSpec{"GPRSTimer3ToNas", 1116000, map[uint64]uint64{0: 600, 1: 3600, 2: 36000, 3: 2, 4: 30, 5: 60, 6: 1152000}, 0}

// decodeTimer: the duration an octet stands for, as a 32-bit word, and whether it is a valid timer.
func decodeTimer(it *Interp, out BV, sp timerSpec) (BV, *Node) {
	unit := bvBits(out, 5, 3)
	v := bvZext(it, bvBits(out, 0, 5), 32)
	mulC := func(c uint64) BV {
		acc := it.constBV(0, 32)
		for i := 0; i < 32; i++ {
			if c>>uint(i)&1 == 1 {
				acc = bvAdd(it, acc, bvShl(it, v, i))
			}
		}
		return acc
	}
	val := it.constBV(0, 32)
	valid := it.T.zero
	for u := uint64(0); u < 8; u++ {
		m, ok := sp.units[u]
		if !ok {
			if u == 7 || sp.other == 0 {
				continue // deactivated
			}
			m = sp.other
		}
		is := it.T.one
		for k := 0; k < 3; k++ {
			b := unit.B[k]
			if u>>uint(k)&1 == 0 {
				b = it.T.Not(b)
			}
			is = it.T.And(is, b)
		}
		val = bvMux(it, is, mulC(m), val)
		valid = it.T.Or(valid, is)
	}
	return val, valid
}

func decideZero(it *Interp, n *Node) (bool, bool) {
	eq, dec := it.T.EquivBV3(BV{W: 1, B: []*Node{n}}, BV{W: 1, B: []*Node{it.T.zero}}, 4000000)
	return eq, dec
}

func checkTimers(c *listCtx) {
	for _, sp := range []timerSpec{timer2Spec, timer3Spec} {
		fn, fname := c.fn("nasConvert", sp.fn)
		if fn == nil {
			continue
		}
		nbits := 0
		for sp.max>>uint(nbits) != 0 {
			nbits++
		}
		// (a) every duration of the range: the octet is a valid timer that decodes to no more than requested
		{
			c.r.Site("timer.not-more")
			it := newListInterp(c.w)
			it.Premise = nil
			it.Fuel = 100000
			st := it.NewState()
			d := bvZext(it, it.SrcBV("d", nbits), 64)
			d.Signed = true
			out := it.Call(fn, []Value{d}, st, 0)
			ob, ok := out.(BV)
			msg := "result not resolvable"
			if ok && !ob.HasTop() {
				val, valid := decodeTimer(it, ob, sp)
				d32 := bvBits(d, 0, 32)
				inRange := it.T.Not(it.ult(it.constBV(sp.max, 32), d32)) // d <= max
				bad := it.T.And(inRange, it.T.Or(it.T.Not(valid), it.ult(d32, val)))
				z, dec := decideZero(it, bad)
				switch {
				case !dec:
					ok, msg = false, "undecided within the node budget"
				case !z:
					ok, msg = false, fmt.Sprintf("for some duration of 0..%d s the encoded octet is not a valid timer or decodes to more than was requested", sp.max)
				}
			} else {
				ok = false
			}
			c.verdict("timer.not-more", fname, fmt.Sprintf("0..%d s", sp.max), fn, it, ok, msg)
		}
		// (b) every representable duration m x unit is encoded exactly
		for u := uint64(0); u < 8; u++ {
			m, okU := sp.units[u]
			if !okU || m > sp.max {
				continue
			}
			c.r.Site("timer.exact")
			it := newListInterp(c.w)
			it.Premise = nil
			it.Fuel = 100000
			st := it.NewState()
			steps := bvZext(it, it.SrcBV("m", 5), 64)
			// d = steps * m
			d := it.constBV(0, 64)
			for i := 0; i < 40; i++ {
				if m>>uint(i)&1 == 1 {
					d = bvAdd(it, d, bvShl(it, steps, i))
				}
			}
			d.Signed = true
			out := it.Call(fn, []Value{d}, st, 0)
			ob, ok := out.(BV)
			msg := "result not resolvable"
			if ok && !ob.HasTop() {
				val, valid := decodeTimer(it, ob, sp)
				d32 := bvBits(d, 0, 32)
				inRange := it.T.Not(it.ult(it.constBV(sp.max, 32), d32))
				diff := it.T.zero
				for i := 0; i < 32; i++ {
					diff = it.T.Or(diff, it.T.Xor(val.B[i], d32.B[i]))
				}
				bad := it.T.And(inRange, it.T.Or(it.T.Not(valid), diff))
				z, dec := decideZero(it, bad)
				switch {
				case !dec:
					ok, msg = false, "undecided within the node budget"
				case !z:
					ok, msg = false, fmt.Sprintf("some multiple of %d s (unit code %03b, 0..31 steps) is not encoded to an octet that decodes to it", m, u)
				}
			} else {
				ok = false
			}
			c.verdict("timer.exact", fname, fmt.Sprintf("multiples of %d s", m), fn, it, ok, msg)
		}
	}
}

// TS 24.501 Table 9.11.4.14.1: unit octet
var ambrUnits = map[string]uint64{"Kbps": 0x01, "Mbps": 0x06, "Gbps": 0x0B, "Tbps": 0x10, "Pbps": 0x15}

func ambrText(it *Interp, name string, unit string) (StrV, BV) {
	s := it.DigitString(name, 5)
	// value of the five digits
	val := it.constBV(0, 32)
	for i := 0; i < 5; i++ {
		d := bvZext(it, it.SrcBV(fmt.Sprintf("%s.d%d", name, i), 4), 32)
		val = bvAdd(it, bvAdd(it, bvShl(it, val, 3), bvShl(it, val, 1)), d)
	}
	s.Chars = append(s.Chars, it.constBV(' ', 8))
	for i := 0; i < len(unit); i++ {
		s.Chars = append(s.Chars, it.constBV(uint64(unit[i]), 8))
	}
	return s, val
}

func checkSessionAMBR(c *listCtx) {
	fn, fname := c.fn("nasConvert", "ModelsToSessionAMBR")
	if fn == nil {
		return
	}
	units := []string{"Kbps", "Mbps", "Gbps", "Tbps", "Pbps"}
	for i, ul := range units {
		dl := units[(i+2)%len(units)]
		c.r.Site("ambr.layout")
		it := newListInterp(c.w)
		it.Fuel = 100000
		st := it.NewState()
		up, upV := ambrText(it, "up", ul)
		down, downV := ambrText(it, "down", dl)
		o := it.NewObj("ambr", false)
		st.mem[o] = map[string]Value{".Uplink": up, ".Downlink": down}
		// the property's range: 0..65535
		it.AndPremise(it.T.Not(it.ult(it.constBV(65535, 32), upV)))
		it.AndPremise(it.T.Not(it.ult(it.constBV(65535, 32), downV)))
		res := it.Call(fn, []Value{Ptr{Obj: o}}, st, 0)
		ag, ok := res.(AggV)
		msg := "result not resolvable"
		if ok {
			want := map[int]BV{0: it.constBV(ambrUnits[dl], 8), 1: bvBits(downV, 8, 8), 2: bvBits(downV, 0, 8),
				3: it.constBV(ambrUnits[ul], 8), 4: bvBits(upV, 8, 8), 5: bvBits(upV, 0, 8)}
			names := []string{"unit for downlink", "downlink value (high octet)", "downlink value (low octet)", "unit for uplink", "uplink value (high octet)", "uplink value (low octet)"}
			for k := 0; ok && k < 6; k++ {
				g, isBV := ag.Cells[fmt.Sprintf(".Octet[%d]", k)].(BV)
				if !isBV || g.HasTop() {
					ok, msg = false, fmt.Sprintf("%s not resolvable (%v; %v)", names[k], ag.Cells[fmt.Sprintf(".Octet[%d]", k)], it.Unsup)
					break
				}
				for b := 0; ok && b < 8; b++ {
					if !it.EquivUnderPremise(g.B[b], want[k].B[b]) {
						ok, msg = false, fmt.Sprintf("%s: bit %d is %s, specified %s (for some value 0..65535 with units %s up / %s down)", names[k], b, g.B[b].Short(4), want[k].B[b].Short(4), ul, dl)
					}
				}
			}
		}
		c.verdict("ambr.layout", fname, fmt.Sprintf("uplink %s, downlink %s", ul, dl), fn, it, ok, msg)
	}
}

// network names (TS 24.008 10.5.3.5a, GSM 7-bit default alphabet packing of TS 23.038 6.1.2.1):
// septet i occupies bits 7i .. 7i+6 of the octet string (bit 0 = least significant bit of the
// first text octet); ceil(7L/8) text octets; the spare-bit field is the number of unused bits in
// the last octet; octet 1 of the value is ext(1) | coding scheme 000 | add CI 0 | spare bits.
func checkNetworkNames(c *listCtx, tier string) {
	lens := []int{0, 1, 2, 6, 7, 8, 9, 10, 15, 16, 17, 24}
	if tier == "thorough" {
		lens = nil
		for l := 0; l <= 64; l++ {
			lens = append(lens, l)
		}
	}
	for _, name := range []string{"FullNetworkNameToNas", "ShortNetworkNameToNas"} {
		fn, fname := c.fn("nasConvert", name)
		if fn == nil {
			continue
		}
		for _, L := range lens {
			c.r.Site("name.gsm7")
			it := newListInterp(c.w)
			it.Fuel = 100000
			st := it.NewState()
			s := StrV{Sym: true}
			var chars []BV
			for i := 0; i < L; i++ {
				ch := bvZext(it, it.SrcBV(fmt.Sprintf("ch[%d]", i), 7), 8)
				s.Chars = append(s.Chars, ch)
				chars = append(chars, ch)
			}
			res := it.Call(fn, []Value{s}, st, 0)
			ag, ok := res.(AggV)
			msg := "result not resolvable"
			if ok {
				n := (7*L + 7) / 8
				spare := uint64(8*n - 7*L)
				want := []BV{it.constBV(0x80|spare, 8)}
				for k := 0; k < n; k++ {
					o := BV{W: 8, B: make([]*Node, 8)}
					for b := 0; b < 8; b++ {
						t := 8*k + b
						if t < 7*L {
							o.B[b] = chars[t/7].B[t%7]
						} else {
							o.B[b] = it.T.zero
						}
					}
					want = append(want, o)
				}
				got, okB := sliceBytes(it, st, ag.Cells[".Buffer"])
				if !okB {
					ok = false
				} else if ok, msg = sameOctets(it, fmt.Sprintf("network name of %d characters: value", L), got, want); ok {
					if ok, msg = sameBV(it, ag.Cells[".Len"], it.constBV(uint64(1+n), 8)); !ok {
						msg = "IE length is not 1 + the number of text octets: " + msg
					}
				}
			}
			c.verdict("name.gsm7", fname, fmt.Sprintf("%d characters", L), fn, it, ok, msg)
		}
	}
}

func propC17(w *World, r *Report, tier string) {
	c := &listCtx{w: w, r: r}
	r.Explanation = "Each helper is interpreted over go/ssa in the bit-term domain (E2, with circuits for multiplication and division by constants and models of strconv.ParseUint, " +
		"strings.Split, fmt.Sprintf(\"%02d:%02d\") and the time.Time accessors) on symbolic inputs, and the claim is decided as a Boolean function of all input bits by ROBDD: " +
		"timers: for EVERY duration of the range the octet is a valid timer that decodes (TS 24.008 unit table) to no more than requested, and every multiple 0..31 of every unit is " +
		"encoded exactly; session AMBR: for every five-digit value 0..65535 and unit the six octets are unit code (Table 9.11.4.14.1) and big-endian value; network names: for each " +
		"name length the value is ext|000|0|spare-bits followed by the TS 23.038 septet packing of the symbolic 7-bit characters; time zone: for every hour digit, minute, sign and " +
		"adjustment the octet stands for the signed quarter count (sign-and-BCD, semi-octets swapped), the decoder maps every valid octet to 900 s times it and to the +HH:MM text; " +
		"universal time: every field octet is the swapped BCD of the time.Time accessor (2000-2099) and the decoder hands the same values to time.Date / time.FixedZone."
	r.Assumptions = []string{"time.Time accessors, time.Date and time.FixedZone are modelled as uninterpreted (stdlib trusted)",
		"names are GSM 7-bit default alphabet characters (bit 8 clear); name lengths are specialised (0..24 quick, 0..64 thorough)",
		"AMBR text is '<five decimal digits> <unit>' (leading zeros allowed) - shorter digit strings are the same code path",
		"zone text is sign, two hour digits (first 0 or 1), ':', minutes 00/15/30/45 and an optional +1/+2, as GetTimeZone produces"}
	r.Trusted = []string{"go/ssa", "E2 interpreter, its arithmetic circuits and text models", "ROBDD package", "the checker's transcription of TS 24.008 10.5.7.4/10.5.7.4a/10.5.3.5a/10.5.3.8, TS 23.038 6.1.2.1, TS 24.501 9.11.4.14"}
	defer func() {
		r.Expect("timer.not-more", 2)
		r.Expect("timer.exact", 9)
		r.Expect("ambr.layout", 5)
		r.Expect("name.gsm7", 24)
		r.Expect("tz.encode", 48)
		r.Expect("tz.decode", 1)
		r.Expect("tz.dst", 6)
		r.Expect("tz.text", 1)
		r.Expect("time.encode", 2)
		r.Expect("time.decode", 1)
	}()
	checkTimers(c)
	checkSessionAMBR(c)
	checkNetworkNames(c, tier)
	checkTimeZone(c)
	checkUniversalTime(c)
}

var _ = strings.Join
var _ = token.NoPos
var _ *ssa.Function
