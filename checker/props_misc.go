package main

// C17: timers, session AMBR, network names (time zone helpers: see propC17 notes).

import (
	"fmt"
	"go/token"
	"strings"

	"golang.org/x/tools/go/ssa"
)

func init() { register("C17", propC17) }

type timerSpec struct {
	fn    string
	max   uint64            // largest duration of the property's range (seconds)
	units map[uint64]uint64 // unit code -> seconds per step; absent = deactivated / reserved
	other uint64            // multiplier for codes not in units (0: invalid)
}

// TS 24.008 10.5.7.4 (GPRS timer 2 uses the GPRS timer coding) and 10.5.7.4a (GPRS timer 3).
var timer2Spec = timerSpec{"GPRSTimer2ToNas", 11160, map[uint64]uint64{0: 2, 1: 60, 2: 360}, 60}
var timer3Spec = timerSpec{"GPRSTimer3ToNas", 1116000, map[uint64]uint64{0: 600, 1: 3600, 2: 36000, 3: 2, 4: 30, 5: 60, 6: 1152000}, 0}

// decodeTimer: the duration an octet stands for, as a 32-bit word, and whether it is a valid timer.
func decodeTimer(it *Interp, out BV, sp timerSpec) (BV, *Node) {
	unit := bvBits(out, 5, 3)
	v := bvZext(it, bvBits(out, 0, 5), 32)
	mulC := func(c uint64) BV {
		acc := it.constBV(0, 32)
		for i := 0; i < 32; i++ {
			if c>>uint(i)&1 == 1 {
				acc = bvAdd(it, acc, bvShl(it, v, i))
			}
		}
		return acc
	}
	val := it.constBV(0, 32)
	valid := it.T.zero
	for u := uint64(0); u < 8; u++ {
		m, ok := sp.units[u]
		if !ok {
			if u == 7 || sp.other == 0 {
				continue // deactivated
			}
			m = sp.other
		}
		is := it.T.one
		for k := 0; k < 3; k++ {
			b := unit.B[k]
			if u>>uint(k)&1 == 0 {
				b = it.T.Not(b)
			}
			is = it.T.And(is, b)
		}
		val = bvMux(it, is, mulC(m), val)
		valid = it.T.Or(valid, is)
	}
	return val, valid
}

func decideZero(it *Interp, n *Node) (bool, bool) {
	eq, dec := it.T.EquivBV3(BV{W: 1, B: []*Node{n}}, BV{W: 1, B: []*Node{it.T.zero}}, 4000000)
	return eq, dec
}

func checkTimers(c *listCtx) {
	for _, sp := range []timerSpec{timer2Spec, timer3Spec} {
		fn, fname := c.fn("nasConvert", sp.fn)
		if fn == nil {
			continue
		}
		nbits := 0
		for sp.max>>uint(nbits) != 0 {
			nbits++
		}
		// (a) every duration of the range: the octet is a valid timer that decodes to no more than requested
		{
			c.r.Site("timer.not-more")
			it := newListInterp(c.w)
			it.Premise = nil
			it.Fuel = 100000
			st := it.NewState()
			d := bvZext(it, it.SrcBV("d", nbits), 64)
			d.Signed = true
			out := it.Call(fn, []Value{d}, st, 0)
			ob, ok := out.(BV)
			msg := "result not resolvable"
			if ok && !ob.HasTop() {
				val, valid := decodeTimer(it, ob, sp)
				d32 := bvBits(d, 0, 32)
				inRange := it.T.Not(it.ult(it.constBV(sp.max, 32), d32)) // d <= max
				bad := it.T.And(inRange, it.T.Or(it.T.Not(valid), it.ult(d32, val)))
				z, dec := decideZero(it, bad)
				switch {
				case !dec:
					ok, msg = false, "undecided within the node budget"
				case !z:
					ok, msg = false, fmt.Sprintf("for some duration of 0..%d s the encoded octet is not a valid timer or decodes to more than was requested", sp.max)
				}
			} else {
				ok = false
			}
			c.verdict("timer.not-more", fname, fmt.Sprintf("0..%d s", sp.max), fn, it, ok, msg)
		}
		// (b) every representable duration m x unit is encoded exactly
		for u := uint64(0); u < 8; u++ {
			m, okU := sp.units[u]
			if !okU || m > sp.max {
				continue
			}
			c.r.Site("timer.exact")
			it := newListInterp(c.w)
			it.Premise = nil
			it.Fuel = 100000
			st := it.NewState()
			steps := bvZext(it, it.SrcBV("m", 5), 64)
			// d = steps * m
			d := it.constBV(0, 64)
			for i := 0; i < 40; i++ {
				if m>>uint(i)&1 == 1 {
					d = bvAdd(it, d, bvShl(it, steps, i))
				}
			}
			d.Signed = true
			out := it.Call(fn, []Value{d}, st, 0)
			ob, ok := out.(BV)
			msg := "result not resolvable"
			if ok && !ob.HasTop() {
				val, valid := decodeTimer(it, ob, sp)
				d32 := bvBits(d, 0, 32)
				inRange := it.T.Not(it.ult(it.constBV(sp.max, 32), d32))
				diff := it.T.zero
				for i := 0; i < 32; i++ {
					diff = it.T.Or(diff, it.T.Xor(val.B[i], d32.B[i]))
				}
				bad := it.T.And(inRange, it.T.Or(it.T.Not(valid), diff))
				z, dec := decideZero(it, bad)
				switch {
				case !dec:
					ok, msg = false, "undecided within the node budget"
				case !z:
					ok, msg = false, fmt.Sprintf("some multiple of %d s (unit code %03b, 0..31 steps) is not encoded to an octet that decodes to it", m, u)
				}
			} else {
				ok = false
			}
			c.verdict("timer.exact", fname, fmt.Sprintf("multiples of %d s", m), fn, it, ok, msg)
		}
	}
}

// TS 24.501 Table 9.11.4.14.1: unit octet
var ambrUnits = map[string]uint64{"Kbps": 0x01, "Mbps": 0x06, "Gbps": 0x0B, "Tbps": 0x10, "Pbps": 0x15}

func ambrText(it *Interp, name string, unit string) (StrV, BV) {
	s := it.DigitString(name, 5)
	// value of the five digits
	val := it.constBV(0, 32)
	for i := 0; i < 5; i++ {
		d := bvZext(it, it.SrcBV(fmt.Sprintf("%s.d%d", name, i), 4), 32)
		val = bvAdd(it, bvAdd(it, bvShl(it, val, 3), bvShl(it, val, 1)), d)
	}
	s.Chars = append(s.Chars, it.constBV(' ', 8))
	for i := 0; i < len(unit); i++ {
		s.Chars = append(s.Chars, it.constBV(uint64(unit[i]), 8))
	}
	return s, val
}

func checkSessionAMBR(c *listCtx) {
	fn, fname := c.fn("nasConvert", "ModelsToSessionAMBR")
	if fn == nil {
		return
	}
	units := []string{"Kbps", "Mbps", "Gbps", "Tbps", "Pbps"}
	for i, ul := range units {
		dl := units[(i+2)%len(units)]
		c.r.Site("ambr.layout")
		it := newListInterp(c.w)
		it.Fuel = 100000
		st := it.NewState()
		up, upV := ambrText(it, "up", ul)
		down, downV := ambrText(it, "down", dl)
		o := it.NewObj("ambr", false)
		st.mem[o] = map[string]Value{".Uplink": up, ".Downlink": down}
		// the property's range: 0..65535
		it.AndPremise(it.T.Not(it.ult(it.constBV(65535, 32), upV)))
		it.AndPremise(it.T.Not(it.ult(it.constBV(65535, 32), downV)))
		res := it.Call(fn, []Value{Ptr{Obj: o}}, st, 0)
		ag, ok := res.(AggV)
		msg := "result not resolvable"
		if ok {
			want := map[int]BV{0: it.constBV(ambrUnits[dl], 8), 1: bvBits(downV, 8, 8), 2: bvBits(downV, 0, 8),
				3: it.constBV(ambrUnits[ul], 8), 4: bvBits(upV, 8, 8), 5: bvBits(upV, 0, 8)}
			names := []string{"unit for downlink", "downlink value (high octet)", "downlink value (low octet)", "unit for uplink", "uplink value (high octet)", "uplink value (low octet)"}
			for k := 0; ok && k < 6; k++ {
				g, isBV := ag.Cells[fmt.Sprintf(".Octet[%d]", k)].(BV)
				if !isBV || g.HasTop() {
					ok, msg = false, fmt.Sprintf("%s not resolvable (%v; %v)", names[k], ag.Cells[fmt.Sprintf(".Octet[%d]", k)], it.Unsup)
					break
				}
				for b := 0; ok && b < 8; b++ {
					if !it.EquivUnderPremise(g.B[b], want[k].B[b]) {
						ok, msg = false, fmt.Sprintf("%s: bit %d is %s, specified %s (for some value 0..65535 with units %s up / %s down)", names[k], b, g.B[b].Short(4), want[k].B[b].Short(4), ul, dl)
					}
				}
			}
		}
		c.verdict("ambr.layout", fname, fmt.Sprintf("uplink %s, downlink %s", ul, dl), fn, it, ok, msg)
	}
}

func propC17(w *World, r *Report, tier string) {
	c := &listCtx{w: w, r: r}
	checkTimers(c)
	checkSessionAMBR(c)
}

var _ = strings.Join
var _ = token.NoPos
var _ *ssa.Function
