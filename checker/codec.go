package main

// E1: codec slot extractor for the generated Encode*/Decode* functions of nasMessage.
// Works on the type-checked AST. Everything that is compared later is a *semantic* fact:
// resolved field paths, evaluated constants, accepted-length sets, evaluated IEI mapping.
// A statement the extractor cannot classify is recorded in Codec.Problems and makes every
// rule that depends on that function undecided (= reported).

import (
	"fmt"
	"go/ast"
	"go/constant"
	"go/token"
	"go/types"
	"sort"
	"strings"

	"golang.org/x/tools/go/packages"
)

// IEDesc describes the storage of one nasType IE as found in its struct declaration and
// in the bodies of its tiny methods.
type IEDesc struct {
	Name      string
	Named     *types.Named
	HasIei    bool
	LenWidth  int    // 0 none, 1 uint8, 2 uint16
	Storage   string // "octet" | "array" | "buffer" | "empty"
	ArrayN    int
	GetLenOK  bool // GetLen returns a.Len
	GetIeiOK  bool // GetIei returns a.Iei
	SetLenOK  bool // SetLen stores its parameter into a.Len
	SetLenMk  bool // ... and allocates Buffer = make([]uint8, a.Len) (exactly Len octets)
	SetLenBad string
	NewOK     bool // NewX(iei) returns a fresh non-nil *X whose Iei == iei (if HasIei)
	NewBad    string
}

type WireItem struct {
	Kind  string `json:"kind"`  // T | L | V
	Ext   string `json:"ext"`   // iei | len8 | len16 | octet | array-full | array-len | buffer | struct0 | ieiN
	Width int    `json:"width"` // octets; -1 = variable (Len)
	IE    string `json:"ie"`
	Pos   token.Pos `json:"-"`
}

func (w WireItem) String() string { return fmt.Sprintf("%s:%s/%s(%d)", w.IE, w.Kind, w.Ext, w.Width) }

// LenSet is a set of accepted Len values, as a sorted list of closed intervals.
type LenSet struct {
	Iv [][2]int
}

func (s LenSet) String() string {
	var p []string
	for _, iv := range s.Iv {
		if iv[0] == iv[1] {
			p = append(p, fmt.Sprint(iv[0]))
		} else {
			p = append(p, fmt.Sprintf("%d..%d", iv[0], iv[1]))
		}
	}
	if len(p) == 0 {
		return "{}"
	}
	return strings.Join(p, ",")
}
func (s LenSet) Max() int {
	if len(s.Iv) == 0 {
		return -1
	}
	return s.Iv[len(s.Iv)-1][1]
}
func (s LenSet) Min() int {
	if len(s.Iv) == 0 {
		return -1
	}
	return s.Iv[0][0]
}
func (s LenSet) Has(v int) bool {
	for _, iv := range s.Iv {
		if v >= iv[0] && v <= iv[1] {
			return true
		}
	}
	return false
}
func (s LenSet) Equal(t LenSet) bool { return s.String() == t.String() }

func lenSetFromPred(max int, pred func(int) bool) LenSet {
	var s LenSet
	start := -1
	for v := 0; v <= max+1; v++ {
		in := v <= max && pred(v)
		if in && start < 0 {
			start = v
		}
		if !in && start >= 0 {
			s.Iv = append(s.Iv, [2]int{start, v - 1})
			start = -1
		}
	}
	return s
}

type DecSlot struct {
	IE           string
	Items        []WireItem // reads in order
	Guard        *LenSet    // accepted Len values (nil: no guard present)
	GuardPos     token.Pos
	GuardBeforeV bool // guard precedes SetLen and the value read
	New          bool // a.X = nasType.NewX(ieiN) with the received octet
	NewArgIeiN   bool
	NewArgConst  *int64 // constructor argument when it is a constant
	StoreOctet   bool // a.X.Octet = ieiN
	SetLen       bool // a.X.SetLen(a.X.GetLen())
	ErrOK        bool // every read failure and guard failure returns a provably non-nil error
	ErrBad       []string
	Pos          token.Pos
}

type DecCase struct {
	Consts    []int64
	ConstName string
	Slot      DecSlot
	Pos       token.Pos
}

type DecLoop struct {
	CondOK     bool // loop condition is buffer.Len() > 0 on the decode buffer
	FirstRead  bool // first statement of the body reads exactly one octet into ieiN, error -> return
	Map        [256]int // evaluated ieiN -> switch tag value (-1 if not evaluable)
	MapOK      bool
	Cases      []DecCase
	HasDefault bool
	DefaultNop bool
	Pos        token.Pos
}

type EncSlot struct {
	IE       string
	Optional bool // guarded by a.X != nil
	Items    []WireItem
	ErrOK    bool
	Pos      token.Pos
}

type CField struct {
	IE       string
	Optional bool
	Desc     *IEDesc
}

type Codec struct {
	Name     string
	Named    *types.Named
	Fields   []CField
	EncObj   *types.Func
	DecObj   *types.Func
	EncDecl  *ast.FuncDecl
	DecDecl  *ast.FuncDecl
	NewObj   *types.Func
	Enc      []EncSlot
	EncTail  bool // ends with return nil
	DecInit  bool // buffer := bytes.NewBuffer(*byteArray)
	DecMand  []DecSlot
	DecLoop  *DecLoop
	DecTail  bool
	Problems []Problem
	IEIConst map[string]int64 // IE -> value of <Msg><IE>Type constant, from the case clauses
	// ByImages: E1 could not classify this message's functions; every wire image of the message was
	// decided by evaluation and reproduced (codec_sem.go), which stands in for the slot rules
	ByImages bool
}

type Problem struct {
	Func string
	Pos  token.Pos
	Msg  string
}

type CodecSet struct {
	w      *World
	pkg    *packages.Package
	tpkg   *packages.Package
	info   *types.Info
	IEs    map[string]*IEDesc
	Codecs []*Codec
	ByName map[string]*Codec
	// encoder statements folded by foldPutUint
	writeOverride map[ast.Stmt]ast.Expr
	writeSkip     map[ast.Stmt]bool
	guardAlias    map[types.Object]ast.Expr
	skipped       int // messages taken out of the slot rules by applyImages
}

// ExtractCodecs finds every struct type M in nasMessage with methods EncodeM(*bytes.Buffer) error
// and DecodeM(*[]byte) error, and extracts slot sequences.
func ExtractCodecs(w *World) *CodecSet {
	cs := &CodecSet{w: w, pkg: w.Pkg("nasMessage"), tpkg: w.Pkg("nasType"), IEs: map[string]*IEDesc{}, ByName: map[string]*Codec{}}
	cs.info = cs.pkg.TypesInfo
	decls := map[*types.Func]*ast.FuncDecl{}
	for _, fd := range w.FuncDecls(cs.pkg) {
		decls[fd.Obj] = fd.Decl
	}
	scope := cs.pkg.Types.Scope()
	names := scope.Names()
	sort.Strings(names)
	for _, n := range names {
		tn, ok := scope.Lookup(n).(*types.TypeName)
		if !ok {
			continue
		}
		named, ok := tn.Type().(*types.Named)
		if !ok {
			continue
		}
		st, ok := named.Underlying().(*types.Struct)
		if !ok {
			continue
		}
		var enc, dec *types.Func
		for i := 0; i < named.NumMethods(); i++ {
			m := named.Method(i)
			sig := m.Type().(*types.Signature)
			if sig.Params().Len() != 1 || sig.Results().Len() != 1 || sig.Results().At(0).Type().String() != "error" {
				continue
			}
			pt := sig.Params().At(0).Type().String()
			if strings.HasPrefix(m.Name(), "Encode") && pt == "*bytes.Buffer" {
				enc = m
			}
			if strings.HasPrefix(m.Name(), "Decode") && pt == "*[]byte" {
				dec = m
			}
		}
		if enc == nil && dec == nil {
			continue
		}
		c := &Codec{Name: n, Named: named, EncObj: enc, DecObj: dec, IEIConst: map[string]int64{}}
		if enc == nil || dec == nil {
			c.Problems = append(c.Problems, Problem{n, tn.Pos(), "message type has only one of Encode/Decode"})
		}
		if f, ok := scope.Lookup("New" + n).(*types.Func); ok {
			c.NewObj = f
		}
		for i := 0; i < st.NumFields(); i++ {
			f := st.Field(i)
			t := f.Type()
			opt := false
			if p, ok := t.(*types.Pointer); ok {
				t = p.Elem()
				opt = true
			}
			nt, ok := t.(*types.Named)
			if !ok || !f.Embedded() {
				c.Problems = append(c.Problems, Problem{n, f.Pos(), "field " + f.Name() + " is not an embedded IE"})
				continue
			}
			c.Fields = append(c.Fields, CField{IE: f.Name(), Optional: opt, Desc: cs.ieDesc(nt)})
		}
		if enc != nil {
			c.EncDecl = decls[enc]
			cs.parseEncoder(c)
		}
		if dec != nil {
			c.DecDecl = decls[dec]
			cs.parseDecoder(c)
		}
		cs.Codecs = append(cs.Codecs, c)
		cs.ByName[n] = c
	}
	return cs
}

func (c *Codec) Field(ie string) *CField {
	for i := range c.Fields {
		if c.Fields[i].IE == ie {
			return &c.Fields[i]
		}
	}
	return nil
}

// ---------------------------------------------------------------------------------------------
// IE descriptions (struct shape + tiny-callee summaries, derived from bodies every run)

func (cs *CodecSet) ieDesc(nt *types.Named) *IEDesc {
	name := nt.Obj().Name()
	if d, ok := cs.IEs[name]; ok {
		return d
	}
	d := &IEDesc{Name: name, Named: nt, Storage: "empty"}
	cs.IEs[name] = d
	st, ok := nt.Underlying().(*types.Struct)
	if !ok {
		d.Storage = "?"
		return d
	}
	for i := 0; i < st.NumFields(); i++ {
		f := st.Field(i)
		switch f.Name() {
		case "Iei":
			if isBasic(f.Type(), types.Uint8) {
				d.HasIei = true
			}
		case "Len":
			if isBasic(f.Type(), types.Uint8) {
				d.LenWidth = 1
			} else if isBasic(f.Type(), types.Uint16) {
				d.LenWidth = 2
			}
		case "Octet":
			if isBasic(f.Type(), types.Uint8) {
				d.Storage = "octet"
			} else if a, ok := f.Type().(*types.Array); ok && isBasic(a.Elem(), types.Uint8) {
				d.Storage = "array"
				d.ArrayN = int(a.Len())
			} else {
				d.Storage = "?"
			}
		case "Buffer":
			if s, ok := f.Type().(*types.Slice); ok && isBasic(s.Elem(), types.Uint8) {
				d.Storage = "buffer"
			} else {
				d.Storage = "?"
			}
		default:
			d.Storage = "?"
		}
	}
	// method summaries from the AST of nasType
	tinfo := cs.tpkg.TypesInfo
	for _, fd := range cs.w.FuncDecls(cs.tpkg) {
		sig := fd.Obj.Type().(*types.Signature)
		if sig.Recv() == nil {
			if fd.Obj.Name() == "New"+name {
				d.NewOK, d.NewBad = summarizeNew(fd.Decl, tinfo, d)
				if !d.NewOK {
					// not the generator's `x := &X{}; x.SetIei(iei); return x`: decide the same facts by evaluation
					if ok, why := cs.semNew(fd.Obj, d); ok {
						d.NewOK, d.NewBad = true, ""
					} else if why != "" {
						d.NewBad += " (by evaluation: " + why + ")"
					}
				}
			}
			continue
		}
		rt := sig.Recv().Type()
		if p, ok := rt.(*types.Pointer); ok {
			rt = p.Elem()
		}
		if rt != types.Type(nt) {
			continue
		}
		body := fd.Decl.Body
		recv := recvName(fd.Decl)
		switch fd.Obj.Name() {
		case "GetLen":
			d.GetLenOK = returnsField(body, recv, "Len")
		case "GetIei":
			d.GetIeiOK = returnsField(body, recv, "Iei")
		case "SetLen":
			d.SetLenOK, d.SetLenMk, d.SetLenBad = summarizeSetLen(fd.Decl, tinfo, recv)
			if d.SetLenBad != "" {
				// not the generator's two statements: decide the same facts by evaluation
				if st, mk, why := cs.semSetLen(fd.Obj, d); why == "" {
					d.SetLenOK, d.SetLenMk, d.SetLenBad = st, mk, ""
				} else {
					d.SetLenBad += " (by evaluation: " + why + ")"
				}
			}
		}
	}
	return d
}

func isBasic(t types.Type, k types.BasicKind) bool {
	b, ok := t.Underlying().(*types.Basic)
	return ok && b.Kind() == k
}

func recvName(fd *ast.FuncDecl) string {
	if fd.Recv != nil && len(fd.Recv.List) == 1 && len(fd.Recv.List[0].Names) == 1 {
		return fd.Recv.List[0].Names[0].Name
	}
	return ""
}

func isSel(e ast.Expr, x, sel string) bool {
	s, ok := ast.Unparen(e).(*ast.SelectorExpr)
	if !ok || s.Sel.Name != sel {
		return false
	}
	id, ok := ast.Unparen(s.X).(*ast.Ident)
	return ok && id.Name == x
}

// returnsField: body is `return a.F` or `x = a.F; return x` (named result).
func returnsField(body *ast.BlockStmt, recv, field string) bool {
	if body == nil || recv == "" {
		return false
	}
	switch len(body.List) {
	case 1:
		r, ok := body.List[0].(*ast.ReturnStmt)
		return ok && len(r.Results) == 1 && isSel(r.Results[0], recv, field)
	case 2:
		as, ok := body.List[0].(*ast.AssignStmt)
		r, ok2 := body.List[1].(*ast.ReturnStmt)
		if !ok || !ok2 || len(as.Lhs) != 1 || len(as.Rhs) != 1 || !isSel(as.Rhs[0], recv, field) {
			return false
		}
		id, ok := as.Lhs[0].(*ast.Ident)
		if !ok {
			return false
		}
		if len(r.Results) == 0 {
			return true
		}
		rid, ok := r.Results[0].(*ast.Ident)
		return ok && len(r.Results) == 1 && rid.Name == id.Name
	}
	return false
}

// summarizeSetLen: `a.Len = p` optionally followed by `a.Buffer = make([]uint8, a.Len)` (or make(.., p)).
func summarizeSetLen(fd *ast.FuncDecl, info *types.Info, recv string) (stores, makes bool, bad string) {
	if fd.Body == nil || fd.Type.Params == nil || len(fd.Type.Params.List) != 1 || len(fd.Type.Params.List[0].Names) != 1 {
		return false, false, "unexpected signature"
	}
	p := fd.Type.Params.List[0].Names[0].Name
	// a parallel assignment `a.Len, a.Buffer = len, make([]uint8, len)` is the two assignments in
	// order, provided no right-hand side reads a field assigned by the same statement (the right-hand
	// sides are evaluated first)
	var body []ast.Stmt
	for _, s := range fd.Body.List {
		as, ok := s.(*ast.AssignStmt)
		if ok && as.Tok == token.ASSIGN && len(as.Lhs) == len(as.Rhs) && len(as.Lhs) > 1 {
			indep := true
			for _, r := range as.Rhs {
				ast.Inspect(r, func(n ast.Node) bool {
					if se, isSel := n.(*ast.SelectorExpr); isSel {
						for _, l := range as.Lhs {
							if ls, isL := ast.Unparen(l).(*ast.SelectorExpr); isL && types.ExprString(ls) == types.ExprString(se) {
								indep = false
							}
						}
					}
					return true
				})
			}
			if indep {
				for k := range as.Lhs {
					body = append(body, &ast.AssignStmt{Lhs: []ast.Expr{as.Lhs[k]}, Tok: token.ASSIGN, TokPos: as.TokPos, Rhs: []ast.Expr{as.Rhs[k]}})
				}
				continue
			}
		}
		body = append(body, s)
	}
	for i, s := range body {
		as, ok := s.(*ast.AssignStmt)
		if !ok || len(as.Lhs) != 1 || len(as.Rhs) != 1 || as.Tok != token.ASSIGN {
			return stores, makes, "unexpected statement in SetLen"
		}
		switch {
		case i == 0 && isSel(as.Lhs[0], recv, "Len"):
			id, ok := ast.Unparen(as.Rhs[0]).(*ast.Ident)
			if !ok || id.Name != p {
				return false, false, "SetLen does not store its parameter"
			}
			stores = true
		case i == 1 && stores && isSel(as.Lhs[0], recv, "Buffer"):
			call, ok := ast.Unparen(as.Rhs[0]).(*ast.CallExpr)
			if !ok || len(call.Args) != 2 {
				return stores, false, "Buffer is not assigned make([]uint8, Len)"
			}
			fn, ok := call.Fun.(*ast.Ident)
			if !ok || fn.Name != "make" || info.Uses[fn] != types.Universe.Lookup("make") {
				return stores, false, "Buffer is not assigned make([]uint8, Len)"
			}
			sz := ast.Unparen(call.Args[1])
			if id, ok := sz.(*ast.Ident); ok && id.Name == p {
				makes = true
			} else if isSel(sz, recv, "Len") {
				makes = true
			} else {
				return stores, false, "SetLen allocates a size other than Len: " + types.ExprString(sz)
			}
			if tv, ok := info.Types[call.Args[0]]; !ok || tv.Type.String() != "[]uint8" {
				return stores, false, "SetLen allocates a non-[]uint8"
			}
		default:
			return stores, makes, "unexpected statement in SetLen"
		}
	}
	return stores, makes, ""
}

// semSetLen decides on the SSA form (E2) that SetLen(n) leaves Len == n and, for elements with a
// heap buffer, Buffer a slice freshly made with exactly n elements; it writes nothing but its receiver.
func (cs *CodecSet) semSetLen(f *types.Func, d *IEDesc) (stores, makes bool, why string) {
	fn := cs.w.SSAFunc(f)
	if fn == nil || len(fn.Params) != 2 {
		return false, false, "unexpected signature"
	}
	wd, _, ok := typeWidth(fn.Params[1].Type())
	if !ok {
		return false, false, "parameter is not an integer"
	}
	it := NewInterp(cs.w)
	it.Fuel = 20000
	st := it.NewState()
	ro, recv := it.SymbolicObj("recv")
	n := it.SrcBV("n", wd)
	it.Call(fn, []Value{recv, n}, st, 0)
	if len(it.Unsup) > 0 {
		return false, false, strings.Join(it.Unsup, "; ")
	}
	for wk := range it.Writes {
		if !strings.HasPrefix(wk, "recv") {
			return false, false, "SetLen writes " + wk
		}
	}
	lv, isBV := st.mem[ro][".Len"].(BV)
	if !isBV {
		return false, false, "SetLen does not store Len"
	}
	if same, _ := sameBV(it, lv, n); !same {
		return false, false, "SetLen does not store its parameter into Len"
	}
	stores = true
	if bv, has := st.mem[ro][".Buffer"]; has {
		sl, isSl := bv.(SliceV)
		if !isSl || sl.Obj == nil || !strings.HasPrefix(sl.Obj.Name, "make") || sl.Lo != 0 || sl.Obj.MadeLen == nil {
			return stores, false, "Buffer is not assigned a freshly made slice"
		}
		ml := *sl.Obj.MadeLen
		want := bvZext(it, n, ml.W)
		if same, _ := sameBV(it, ml, want); !same {
			return stores, false, "SetLen allocates a size other than Len"
		}
		makes = true
	}
	return stores, makes, ""
}

// semNew decides the constructor facts on the SSA form (E2): NewX(iei) returns a pointer to an
// object allocated by this call, whose Iei cell (if the element has one) is the parameter and
// whose other integer cells are zero; it writes nothing else.
func (cs *CodecSet) semNew(f *types.Func, d *IEDesc) (bool, string) {
	fn := cs.w.SSAFunc(f)
	if fn == nil || len(fn.Params) > 1 {
		return false, "unexpected signature"
	}
	it := NewInterp(cs.w)
	it.Fuel = 20000
	st := it.NewState()
	var args []Value
	var iei BV
	if len(fn.Params) == 1 {
		wd, _, ok := typeWidth(fn.Params[0].Type())
		if !ok {
			return false, "parameter is not an integer"
		}
		iei = it.SrcBV("iei", wd)
		args = append(args, iei)
	}
	res := it.Call(fn, args, st, 0)
	if len(it.Unsup) > 0 {
		return false, strings.Join(it.Unsup, "; ")
	}
	p, ok := res.(Ptr)
	if !ok || p.Path != "" || !strings.HasPrefix(p.Obj.Name, "alloc") {
		return false, "the result is not a pointer to an object allocated by the constructor"
	}
	for wk := range it.Writes {
		if !strings.HasPrefix(wk, p.Obj.Name) {
			return false, "the constructor writes " + wk
		}
	}
	for path, v := range st.mem[p.Obj] {
		bv, isBV := v.(BV)
		if !isBV {
			continue
		}
		if path == ".Iei" && d.HasIei {
			if same, _ := sameBV(it, bv, iei); !same {
				return false, "the identifier stored is not the constructor's parameter"
			}
			continue
		}
		if c, isC := bv.IsConst(); !isC || c != 0 {
			return false, "field " + strings.TrimPrefix(path, ".") + " is not left zero"
		}
	}
	if d.HasIei {
		if _, has := st.mem[p.Obj][".Iei"]; !has {
			return false, "constructor does not store the identifier"
		}
	}
	return true, ""
}

// summarizeNew: x = &X{}; [x.SetIei(iei)]; return x
func summarizeNew(fd *ast.FuncDecl, info *types.Info, d *IEDesc) (bool, string) {
	if fd.Body == nil {
		return false, "no body"
	}
	var v string
	fresh, setIei := false, false
	param := ""
	if fd.Type.Params != nil && len(fd.Type.Params.List) == 1 && len(fd.Type.Params.List[0].Names) == 1 {
		param = fd.Type.Params.List[0].Names[0].Name
	}
	for _, s := range fd.Body.List {
		switch st := s.(type) {
		case *ast.AssignStmt:
			if len(st.Lhs) != 1 || len(st.Rhs) != 1 {
				return false, "unexpected assignment"
			}
			id, ok := st.Lhs[0].(*ast.Ident)
			u, ok2 := st.Rhs[0].(*ast.UnaryExpr)
			if !ok || !ok2 || u.Op != token.AND {
				return false, "unexpected assignment"
			}
			cl, ok := u.X.(*ast.CompositeLit)
			if !ok || len(cl.Elts) != 0 {
				return false, "constructor literal is not empty"
			}
			v = id.Name
			fresh = true
		case *ast.ExprStmt:
			call, ok := st.X.(*ast.CallExpr)
			if !ok || len(call.Args) != 1 || !isSel(call.Fun, v, "SetIei") {
				return false, "unexpected call in constructor"
			}
			id, ok := call.Args[0].(*ast.Ident)
			if !ok || id.Name != param {
				return false, "SetIei argument is not the constructor parameter"
			}
			setIei = true
		case *ast.ReturnStmt:
			if len(st.Results) == 1 {
				id, ok := st.Results[0].(*ast.Ident)
				if !ok || id.Name != v {
					return false, "returns something other than the fresh value"
				}
			} else if len(st.Results) != 0 {
				return false, "unexpected return"
			}
		default:
			return false, "unexpected statement in constructor"
		}
	}
	if !fresh {
		return false, "no fresh allocation"
	}
	if d.HasIei && !setIei {
		return false, "constructor does not store the identifier"
	}
	return true, ""
}

// ---------------------------------------------------------------------------------------------
// Expression classification

// ieField resolves expressions of the form a.<IE>.<Field> (also through promoted selectors)
// to (IE name, field name).
func (cs *CodecSet) ieField(c *Codec, recv string, e ast.Expr) (ie, field string, ok bool) {
	s, isSelE := ast.Unparen(e).(*ast.SelectorExpr)
	if !isSelE {
		return
	}
	inner, isSel2 := ast.Unparen(s.X).(*ast.SelectorExpr)
	if !isSel2 {
		return
	}
	id, isID := ast.Unparen(inner.X).(*ast.Ident)
	if !isID || id.Name != recv {
		return
	}
	if c.Field(inner.Sel.Name) == nil {
		return
	}
	// make sure the selection resolves to a field of that IE type (not a promoted one from elsewhere)
	if sel := cs.info.Selections[s]; sel != nil {
		if sel.Kind() != types.FieldVal || len(sel.Index()) != 1 {
			return
		}
	}
	return inner.Sel.Name, s.Sel.Name, true
}

// ieCall resolves a.<IE>.<Method>(args) to (IE, method object).
func (cs *CodecSet) ieCall(c *Codec, recv string, e ast.Expr) (ie string, fn *types.Func, args []ast.Expr, ok bool) {
	call, isCall := ast.Unparen(e).(*ast.CallExpr)
	if !isCall {
		return
	}
	s, isSelE := call.Fun.(*ast.SelectorExpr)
	if !isSelE {
		return
	}
	inner, isSel2 := ast.Unparen(s.X).(*ast.SelectorExpr)
	if !isSel2 {
		return
	}
	id, isID := ast.Unparen(inner.X).(*ast.Ident)
	if !isID || id.Name != recv || c.Field(inner.Sel.Name) == nil {
		return
	}
	sel := cs.info.Selections[s]
	if sel == nil || sel.Kind() != types.MethodVal {
		return
	}
	f, _ := sel.Obj().(*types.Func)
	if f == nil {
		return
	}
	return inner.Sel.Name, f, call.Args, true
}

// lenExpr: a.X.Len or a.X.GetLen() (with the GetLen summary verified)
func (cs *CodecSet) lenExpr(c *Codec, recv string, e ast.Expr) (string, bool) {
	e = ast.Unparen(e)
	// conversions int(a.X.Len)
	if call, ok := e.(*ast.CallExpr); ok && len(call.Args) == 1 {
		if tv, ok := cs.info.Types[call.Fun]; ok && tv.IsType() {
			return cs.lenExpr(c, recv, call.Args[0])
		}
	}
	if ie, f, ok := cs.ieField(c, recv, e); ok && f == "Len" {
		return ie, true
	}
	if ie, fn, args, ok := cs.ieCall(c, recv, e); ok && fn.Name() == "GetLen" && len(args) == 0 {
		if d := c.Field(ie).Desc; d != nil && d.GetLenOK {
			return ie, true
		}
	}
	return "", false
}

// classify a value passed to binary.Write (enc=true) or a target passed to binary.Read.
func (cs *CodecSet) classify(c *Codec, recv string, e ast.Expr, enc bool) (WireItem, string) {
	e = ast.Unparen(e)
	pos := e.Pos()
	if !enc {
		if u, ok := e.(*ast.UnaryExpr); ok && u.Op == token.AND {
			x := ast.Unparen(u.X)
			if id, ok := x.(*ast.Ident); ok {
				if tv, ok := cs.info.Types[id]; ok && isBasic(tv.Type, types.Uint8) {
					return WireItem{Kind: "T", Ext: "ieiN", Width: 1, IE: id.Name, Pos: pos}, ""
				}
			}
			if ie, f, ok := cs.ieField(c, recv, x); ok {
				d := c.Field(ie).Desc
				switch {
				case f == "Octet" && d.Storage == "octet":
					return WireItem{Kind: "V", Ext: "octet", Width: 1, IE: ie, Pos: pos}, ""
				case f == "Len" && d.LenWidth == 1:
					return WireItem{Kind: "L", Ext: "len8", Width: 1, IE: ie, Pos: pos}, ""
				case f == "Len" && d.LenWidth == 2:
					return WireItem{Kind: "L", Ext: "len16", Width: 2, IE: ie, Pos: pos}, ""
				case f == "Iei":
					return WireItem{Kind: "T", Ext: "iei", Width: 1, IE: ie, Pos: pos}, ""
				}
				return WireItem{}, "unsupported read target &" + types.ExprString(x)
			}
			// &a.X  (whole struct)
			if s, ok := x.(*ast.SelectorExpr); ok {
				if id, ok := ast.Unparen(s.X).(*ast.Ident); ok && id.Name == recv && c.Field(s.Sel.Name) != nil {
					d := c.Field(s.Sel.Name).Desc
					if d.Storage == "empty" && !d.HasIei && d.LenWidth == 0 {
						return WireItem{Kind: "V", Ext: "struct0", Width: 0, IE: s.Sel.Name, Pos: pos}, ""
					}
				}
			}
			return WireItem{}, "unsupported read target " + types.ExprString(e)
		}
	} else {
		if u, ok := e.(*ast.UnaryExpr); ok && u.Op == token.AND {
			if s, ok := ast.Unparen(u.X).(*ast.SelectorExpr); ok {
				if id, ok := ast.Unparen(s.X).(*ast.Ident); ok && id.Name == recv && c.Field(s.Sel.Name) != nil {
					d := c.Field(s.Sel.Name).Desc
					if d.Storage == "empty" && !d.HasIei && d.LenWidth == 0 {
						return WireItem{Kind: "V", Ext: "struct0", Width: 0, IE: s.Sel.Name, Pos: pos}, ""
					}
				}
			}
			return WireItem{}, "unsupported written value " + types.ExprString(e)
		}
		if ie, ok := cs.lenExpr(c, recv, e); ok {
			if _, isConv := e.(*ast.CallExpr); !isConv || func() bool { _, _, _, ok := cs.ieCall(c, recv, e); return ok }() {
				d := c.Field(ie).Desc
				if d.LenWidth == 1 {
					return WireItem{Kind: "L", Ext: "len8", Width: 1, IE: ie, Pos: pos}, ""
				} else if d.LenWidth == 2 {
					return WireItem{Kind: "L", Ext: "len16", Width: 2, IE: ie, Pos: pos}, ""
				}
			}
		}
		if ie, f, ok := cs.ieField(c, recv, e); ok {
			d := c.Field(ie).Desc
			switch {
			case f == "Octet" && d.Storage == "octet":
				return WireItem{Kind: "V", Ext: "octet", Width: 1, IE: ie, Pos: pos}, ""
			case f == "Iei" && d.HasIei:
				return WireItem{Kind: "T", Ext: "iei", Width: 1, IE: ie, Pos: pos}, ""
			case f == "Buffer" && d.Storage == "buffer":
				return WireItem{Kind: "V", Ext: "buffer", Width: -1, IE: ie, Pos: pos}, ""
			}
			return WireItem{}, "unsupported written value " + types.ExprString(e)
		}
		if ie, fn, args, ok := cs.ieCall(c, recv, e); ok && len(args) == 0 && fn.Name() == "GetIei" {
			d := c.Field(ie).Desc
			if d.HasIei && d.GetIeiOK {
				return WireItem{Kind: "T", Ext: "iei", Width: 1, IE: ie, Pos: pos}, ""
			}
			return WireItem{}, "GetIei of " + ie + " does not return the Iei field"
		}
	}
	// common to both directions: slices
	if ie, f, ok := cs.ieField(c, recv, e); ok && f == "Buffer" && c.Field(ie).Desc.Storage == "buffer" {
		return WireItem{Kind: "V", Ext: "buffer", Width: -1, IE: ie, Pos: pos}, ""
	}
	if sl, ok := e.(*ast.SliceExpr); ok && !sl.Slice3 {
		if ie, f, ok := cs.ieField(c, recv, sl.X); ok && f == "Octet" && c.Field(ie).Desc.Storage == "array" {
			d := c.Field(ie).Desc
			lowZero := sl.Low == nil
			if sl.Low != nil {
				if tv, ok := cs.info.Types[sl.Low]; ok && tv.Value != nil {
					if v, ok := constant.Int64Val(tv.Value); ok && v == 0 {
						lowZero = true
					}
				}
			}
			if lowZero {
				if sl.High == nil {
					return WireItem{Kind: "V", Ext: "array-full", Width: d.ArrayN, IE: ie, Pos: pos}, ""
				}
				if tv, ok := cs.info.Types[sl.High]; ok && tv.Value != nil {
					if v, ok := constant.Int64Val(tv.Value); ok && int(v) == d.ArrayN {
						return WireItem{Kind: "V", Ext: "array-full", Width: d.ArrayN, IE: ie, Pos: pos}, ""
					}
				}
				if ie2, ok := cs.lenExpr(c, recv, sl.High); ok && ie2 == ie {
					return WireItem{Kind: "V", Ext: "array-len", Width: -1, IE: ie, Pos: pos}, ""
				}
			}
		}
	}
	return WireItem{}, "unsupported wire operand " + types.ExprString(e)
}

// ---------------------------------------------------------------------------------------------
// Statement helpers

// calleeOf resolves the called function object of a call expression.
func calleeOf(info *types.Info, call *ast.CallExpr) *types.Func {
	switch f := ast.Unparen(call.Fun).(type) {
	case *ast.Ident:
		fn, _ := info.Uses[f].(*types.Func)
		return fn
	case *ast.SelectorExpr:
		if sel := info.Selections[f]; sel != nil {
			fn, _ := sel.Obj().(*types.Func)
			return fn
		}
		fn, _ := info.Uses[f.Sel].(*types.Func)
		return fn
	}
	return nil
}

func fullName(f *types.Func) string {
	if f == nil {
		return ""
	}
	return f.FullName()
}

// partialRead: does the statement read from a buffer with (*bytes.Buffer).Read / (*bytes.Reader).Read,
// which returns a short count with a nil error (not a full read)?
func (cs *CodecSet) partialRead(s ast.Stmt) bool {
	found := false
	ast.Inspect(s, func(n ast.Node) bool {
		if call, ok := n.(*ast.CallExpr); ok {
			switch fullName(calleeOf(cs.info, call)) {
			case "(*bytes.Buffer).Read", "(*bytes.Reader).Read", "(io.Reader).Read":
				found = true
			}
		}
		return !found
	})
	return found
}

func (cs *CodecSet) unclassified(c *Codec, fname string, s ast.Stmt) {
	if cs.partialRead(s) {
		cs.problem(c, fname, s.Pos(), "value read with a Read method that may return fewer octets than asked with a nil error (not a full read such as binary.Read): a truncated value would be accepted and zero-filled: %s", nodeSummary(cs.w.Fset, s))
		return
	}
	cs.problem(c, fname, s.Pos(), "unclassified statement: %s", nodeSummary(cs.w.Fset, s))
}

// ioStmt matches: if err := binary.Read|Write(buf, binary.BigEndian, X); err != nil { return <non-nil error> }
// It returns the I/O operand, whether the error arm provably returns a non-nil error, and ok.
// directWrite: `buffer.WriteByte(x)` / `buffer.Write(p)` on the message buffer as a statement
// (results unused or blank): appending to a bytes.Buffer cannot fail, so there is no error arm.
func (cs *CodecSet) directWrite(s ast.Stmt, bufName string) (operand ast.Expr, ok bool) {
	var call *ast.CallExpr
	switch st := s.(type) {
	case *ast.ExprStmt:
		call, _ = st.X.(*ast.CallExpr)
	case *ast.AssignStmt:
		if len(st.Rhs) == 1 {
			blank := true
			for _, l := range st.Lhs {
				if id, isID := l.(*ast.Ident); !isID || id.Name != "_" {
					blank = false
				}
			}
			if blank {
				call, _ = st.Rhs[0].(*ast.CallExpr)
			}
		}
	}
	if call == nil || len(call.Args) != 1 {
		return nil, false
	}
	se, isSel := call.Fun.(*ast.SelectorExpr)
	if !isSel {
		return nil, false
	}
	if id, isID := ast.Unparen(se.X).(*ast.Ident); !isID || id.Name != bufName {
		return nil, false
	}
	switch fullName(calleeOf(cs.info, call)) {
	case "(*bytes.Buffer).WriteByte", "(*bytes.Buffer).Write":
		if op, over := cs.writeOverride[s]; over {
			return op, true
		}
		return call.Args[0], true
	}
	return nil, false
}

// foldPutUint: `var t [n]byte; binary.BigEndian.PutUintN(t[:], X); buffer.Write(t[:])` writes X
// big-endian, as binary.Write(buffer, binary.BigEndian, X) does: the Write statement gets X as
// its operand and the two statements before it are skipped.
func (cs *CodecSet) foldPutUint(stmts []ast.Stmt, bufName string) {
	if cs.writeOverride == nil {
		cs.writeOverride = map[ast.Stmt]ast.Expr{}
		cs.writeSkip = map[ast.Stmt]bool{}
	}
	sliceOf := func(e ast.Expr) *ast.Ident {
		sl, ok := ast.Unparen(e).(*ast.SliceExpr)
		if !ok || sl.Low != nil || sl.High != nil || sl.Max != nil {
			return nil
		}
		id, _ := ast.Unparen(sl.X).(*ast.Ident)
		return id
	}
	for i := 0; i+2 < len(stmts); i++ {
		ds, ok := stmts[i].(*ast.DeclStmt)
		if !ok {
			continue
		}
		gd, ok := ds.Decl.(*ast.GenDecl)
		if !ok || gd.Tok != token.VAR || len(gd.Specs) != 1 {
			continue
		}
		vs := gd.Specs[0].(*ast.ValueSpec)
		if len(vs.Names) != 1 || len(vs.Values) != 0 {
			continue
		}
		obj := cs.info.Defs[vs.Names[0]]
		arr, isArr := obj.Type().Underlying().(*types.Array)
		if !isArr {
			continue
		}
		es, ok := stmts[i+1].(*ast.ExprStmt)
		if !ok {
			continue
		}
		put, ok := es.X.(*ast.CallExpr)
		if !ok || len(put.Args) != 2 {
			continue
		}
		name := fullName(calleeOf(cs.info, put))
		want := map[string]int64{"(encoding/binary.bigEndian).PutUint16": 2, "(encoding/binary.bigEndian).PutUint32": 4}[name]
		if want == 0 || arr.Len() != want {
			continue
		}
		if id := sliceOf(put.Args[0]); id == nil || cs.info.Uses[id] != obj {
			continue
		}
		op, isW := cs.directWrite(stmts[i+2], bufName)
		if !isW {
			continue
		}
		if id := sliceOf(op); id == nil || cs.info.Uses[id] != obj {
			continue
		}
		// the temporary must not be used anywhere else
		uses := 0
		for id, o := range cs.info.Uses {
			if o == obj {
				_ = id
				uses++
			}
		}
		if uses != 2 {
			continue
		}
		cs.writeOverride[stmts[i+2]] = put.Args[1]
		cs.writeSkip[stmts[i]] = true
		cs.writeSkip[stmts[i+1]] = true
	}
}

func (cs *CodecSet) ioStmt(s ast.Stmt, bufName string, write bool) (operand ast.Expr, errOK bool, why string, ok bool) {
	if write {
		if op, isW := cs.directWrite(s, bufName); isW {
			return op, true, "", true
		}
	}
	is, isIf := s.(*ast.IfStmt)
	if !isIf || is.Init == nil || is.Else != nil {
		return
	}
	as, isAs := is.Init.(*ast.AssignStmt)
	if !isAs || as.Tok != token.DEFINE || len(as.Lhs) != 1 || len(as.Rhs) != 1 {
		return
	}
	errID, isID := as.Lhs[0].(*ast.Ident)
	call, isCall := as.Rhs[0].(*ast.CallExpr)
	if !isID || !isCall || len(call.Args) != 3 {
		return
	}
	fn := fullName(calleeOf(cs.info, call))
	if (write && fn != "encoding/binary.Write") || (!write && fn != "encoding/binary.Read") {
		return
	}
	if id, isID := ast.Unparen(call.Args[0]).(*ast.Ident); !isID || id.Name != bufName {
		return
	}
	// byte order must be binary.BigEndian (object identity)
	if se, isSel := ast.Unparen(call.Args[1]).(*ast.SelectorExpr); !isSel || cs.info.Uses[se.Sel] == nil ||
		cs.info.Uses[se.Sel].Pkg() == nil || cs.info.Uses[se.Sel].Pkg().Path() != "encoding/binary" || se.Sel.Name != "BigEndian" {
		return nil, false, "byte order is not binary.BigEndian", false
	}
	// condition err != nil
	be, isBin := ast.Unparen(is.Cond).(*ast.BinaryExpr)
	if !isBin || be.Op != token.NEQ {
		return
	}
	l, lok := ast.Unparen(be.X).(*ast.Ident)
	r, rok := ast.Unparen(be.Y).(*ast.Ident)
	if !lok || !rok {
		return
	}
	if !((cs.info.Uses[l] == cs.info.Defs[errID] && r.Name == "nil") || (cs.info.Uses[r] == cs.info.Defs[errID] && l.Name == "nil")) {
		return
	}
	errOK, why = cs.returnsNonNilError(is.Body, cs.info.Defs[errID])
	return call.Args[2], errOK, why, true
}

// returnsNonNilError: the block's only effect is to return a value that is provably a non-nil
// error: fmt.Errorf(...), errors.New(...), or the err variable known to be non-nil here.
func (cs *CodecSet) returnsNonNilError(b *ast.BlockStmt, errObj types.Object) (bool, string) {
	if len(b.List) != 1 {
		return false, "error arm is not a single return"
	}
	r, ok := b.List[0].(*ast.ReturnStmt)
	if !ok || len(r.Results) != 1 {
		return false, "error arm does not return an error value"
	}
	e := ast.Unparen(r.Results[0])
	if id, ok := e.(*ast.Ident); ok {
		if errObj != nil && cs.info.Uses[id] == errObj {
			return true, ""
		}
		return false, "error arm returns " + id.Name
	}
	if call, ok := e.(*ast.CallExpr); ok {
		switch fullName(calleeOf(cs.info, call)) {
		case "fmt.Errorf", "errors.New":
			return true, ""
		}
	}
	return false, "error arm returns " + types.ExprString(e) + ", not provably non-nil"
}

// evalLenCond evaluates a guard condition for a given Len value; ie is set to the IE whose Len
// it talks about. lenOfBuffer: IEs for which len(a.X.Buffer) is known to equal Len here.
func (cs *CodecSet) evalLenCond(c *Codec, recv string, e ast.Expr, L int, ie *string, bufEq map[string]bool) (constant.Value, bool) {
	e = ast.Unparen(e)
	if tv, ok := cs.info.Types[e]; ok && tv.Value != nil {
		return tv.Value, true
	}
	// a local introduced by the guard's own init statement (`if l := a.X.GetLen(); ...`)
	if id, ok := e.(*ast.Ident); ok && cs.guardAlias != nil {
		if obj := cs.info.Uses[id]; obj != nil {
			if al, ok := cs.guardAlias[obj]; ok {
				e = ast.Unparen(al)
			}
		}
	}
	if x, ok := cs.lenExpr(c, recv, e); ok {
		if *ie == "" {
			*ie = x
		}
		if *ie != x {
			return nil, false
		}
		return constant.MakeInt64(int64(L)), true
	}
	switch n := e.(type) {
	case *ast.CallExpr:
		// len(a.X.Buffer) after SetLen
		if id, ok := n.Fun.(*ast.Ident); ok && id.Name == "len" && cs.info.Uses[id] == types.Universe.Lookup("len") && len(n.Args) == 1 {
			if x, f, ok := cs.ieField(c, recv, n.Args[0]); ok && f == "Buffer" && bufEq[x] {
				if *ie == "" {
					*ie = x
				}
				if *ie == x {
					return constant.MakeInt64(int64(L)), true
				}
			}
		}
		if tv, ok := cs.info.Types[n.Fun]; ok && tv.IsType() && len(n.Args) == 1 {
			return cs.evalLenCond(c, recv, n.Args[0], L, ie, bufEq) // widening int conversions only (Len fits)
		}
	case *ast.UnaryExpr:
		if n.Op == token.NOT {
			v, ok := cs.evalLenCond(c, recv, n.X, L, ie, bufEq)
			if ok && v.Kind() == constant.Bool {
				return constant.MakeBool(!constant.BoolVal(v)), true
			}
		}
	case *ast.BinaryExpr:
		x, ok1 := cs.evalLenCond(c, recv, n.X, L, ie, bufEq)
		y, ok2 := cs.evalLenCond(c, recv, n.Y, L, ie, bufEq)
		if !ok1 || !ok2 {
			return nil, false
		}
		switch n.Op {
		case token.LAND, token.LOR:
			if x.Kind() != constant.Bool || y.Kind() != constant.Bool {
				return nil, false
			}
			if n.Op == token.LAND {
				return constant.MakeBool(constant.BoolVal(x) && constant.BoolVal(y)), true
			}
			return constant.MakeBool(constant.BoolVal(x) || constant.BoolVal(y)), true
		case token.LSS, token.LEQ, token.GTR, token.GEQ, token.EQL, token.NEQ:
			if x.Kind() != constant.Int || y.Kind() != constant.Int {
				return nil, false
			}
			return constant.MakeBool(constant.Compare(x, n.Op, y)), true
		case token.ADD, token.SUB, token.MUL, token.REM, token.QUO, token.AND, token.OR, token.XOR:
			if x.Kind() != constant.Int || y.Kind() != constant.Int {
				return nil, false
			}
			op := n.Op
			if op == token.QUO {
				op = token.QUO_ASSIGN // integer division
			}
			if (op == token.QUO_ASSIGN || op == token.REM) && constant.Sign(y) == 0 {
				return nil, false
			}
			v := constant.BinaryOp(x, op, y)
			// wrap-around of fixed-width unsigned arithmetic
			if tv, ok := cs.info.Types[n]; ok {
				if b, ok := tv.Type.Underlying().(*types.Basic); ok && b.Info()&types.IsUnsigned != 0 {
					bits := map[types.BasicKind]uint{types.Uint8: 8, types.Uint16: 16, types.Uint32: 32}[b.Kind()]
					if bits > 0 {
						m := constant.Shift(constant.MakeInt64(1), token.SHL, bits)
						v = constant.BinaryOp(v, token.REM, m)
						if constant.Sign(v) < 0 {
							v = constant.BinaryOp(v, token.ADD, m)
						}
					}
				}
			}
			return v, true
		}
	}
	return nil, false
}

// guardStmt matches `if <cond over a.X.Len> { return <non-nil error> }` and returns the set of
// Len values for which the guard does NOT return.
func (cs *CodecSet) guardStmt(c *Codec, recv string, s ast.Stmt, bufEq map[string]bool) (ie string, set LenSet, errOK bool, why string, ok bool) {
	is, isIf := s.(*ast.IfStmt)
	if !isIf || is.Else != nil {
		return
	}
	cs.guardAlias = nil
	if is.Init != nil {
		// `if l := <expr>; cond(l)`: l stands for <expr> in the condition
		as, isAs := is.Init.(*ast.AssignStmt)
		if !isAs || as.Tok != token.DEFINE || len(as.Lhs) != 1 || len(as.Rhs) != 1 {
			return
		}
		id, isID := as.Lhs[0].(*ast.Ident)
		if !isID || cs.info.Defs[id] == nil {
			return
		}
		cs.guardAlias = map[types.Object]ast.Expr{cs.info.Defs[id]: as.Rhs[0]}
		defer func() { cs.guardAlias = nil }()
	}
	var name string
	if _, good := cs.evalLenCond(c, recv, is.Cond, 0, &name, bufEq); !good || name == "" {
		return
	}
	d := c.Field(name).Desc
	max := 255
	if d.LenWidth == 2 {
		max = 65535
	}
	bad := false
	set = lenSetFromPred(max, func(v int) bool {
		var n2 string
		r, good := cs.evalLenCond(c, recv, is.Cond, v, &n2, bufEq)
		if !good || r.Kind() != constant.Bool {
			bad = true
			return false
		}
		return !constant.BoolVal(r)
	})
	if bad {
		return
	}
	errOK, why = cs.returnsNonNilError(is.Body, nil)
	return name, set, errOK, why, true
}

// ---------------------------------------------------------------------------------------------
// Encoder

func (cs *CodecSet) problem(c *Codec, fn string, pos token.Pos, format string, a ...any) {
	c.Problems = append(c.Problems, Problem{Func: fn, Pos: pos, Msg: fmt.Sprintf(format, a...)})
}

func (cs *CodecSet) parseEncoder(c *Codec) {
	fd := c.EncDecl
	fname := FuncName(c.EncObj)
	if fd == nil || fd.Body == nil {
		cs.problem(c, fname, token.NoPos, "no body")
		return
	}
	recv := recvName(fd)
	buf := fd.Type.Params.List[0].Names[0].Name
	appendItem := func(slots *[]EncSlot, it WireItem, optional bool, errOK bool, pos token.Pos) {
		n := len(*slots)
		if n > 0 && (*slots)[n-1].IE == it.IE && (*slots)[n-1].Optional == optional {
			(*slots)[n-1].Items = append((*slots)[n-1].Items, it)
			(*slots)[n-1].ErrOK = (*slots)[n-1].ErrOK && errOK
			return
		}
		*slots = append(*slots, EncSlot{IE: it.IE, Optional: optional, Items: []WireItem{it}, ErrOK: errOK, Pos: pos})
	}
	stmts := fd.Body.List
	cs.foldPutUint(stmts, buf)
	for i, s := range stmts {
		if cs.writeSkip[s] {
			continue
		}
		if r, ok := s.(*ast.ReturnStmt); ok && i == len(stmts)-1 {
			if len(r.Results) == 1 {
				if id, ok := r.Results[0].(*ast.Ident); ok && id.Name == "nil" {
					c.EncTail = true
					continue
				}
			}
			cs.problem(c, fname, s.Pos(), "final return is not `return nil`")
			continue
		}
		if op, errOK, why, ok := cs.ioStmt(s, buf, true); ok {
			it, bad := cs.classify(c, recv, op, true)
			if bad != "" {
				cs.problem(c, fname, s.Pos(), "%s", bad)
				continue
			}
			if !errOK {
				cs.problem(c, fname, s.Pos(), "write error arm: %s", why)
			}
			appendItem(&c.Enc, it, false, errOK, s.Pos())
			continue
		} else if why != "" {
			cs.problem(c, fname, s.Pos(), "%s", why)
			continue
		}
		// if a.X != nil { writes }
		if is, ok := s.(*ast.IfStmt); ok && is.Init == nil && is.Else == nil {
			if be, ok := ast.Unparen(is.Cond).(*ast.BinaryExpr); ok && be.Op == token.NEQ {
				x, y := ast.Unparen(be.X), ast.Unparen(be.Y)
				if id, ok := x.(*ast.Ident); ok && id.Name == "nil" {
					x, y = y, x
				}
				if id, ok := y.(*ast.Ident); ok && id.Name == "nil" {
					if se, ok := x.(*ast.SelectorExpr); ok {
						if rid, ok := ast.Unparen(se.X).(*ast.Ident); ok && rid.Name == recv && c.Field(se.Sel.Name) != nil && c.Field(se.Sel.Name).Optional {
							ie := se.Sel.Name
							okAll := true
							first := true
							cs.foldPutUint(is.Body.List, buf)
							for _, bs := range is.Body.List {
								if cs.writeSkip[bs] {
									continue
								}
								op, errOK, why, ok := cs.ioStmt(bs, buf, true)
								if !ok {
									cs.problem(c, fname, bs.Pos(), "unclassified statement in optional block of %s %s", ie, why)
									okAll = false
									continue
								}
								it, bad := cs.classify(c, recv, op, true)
								if bad != "" {
									cs.problem(c, fname, bs.Pos(), "%s", bad)
									okAll = false
									continue
								}
								if it.IE != ie {
									cs.problem(c, fname, bs.Pos(), "optional block of %s writes %s", ie, it.IE)
									okAll = false
									continue
								}
								if !errOK {
									cs.problem(c, fname, bs.Pos(), "write error arm: %s", why)
								}
								if first {
									c.Enc = append(c.Enc, EncSlot{IE: ie, Optional: true, ErrOK: true, Pos: s.Pos()})
									first = false
								}
								appendItem(&c.Enc, it, true, errOK, s.Pos())
							}
							if first && okAll {
								cs.problem(c, fname, s.Pos(), "optional block of %s writes nothing", ie)
							}
							continue
						}
					}
				}
			}
		}
		cs.unclassified(c, fname, s)
	}
	if !c.EncTail {
		cs.problem(c, fname, fd.Body.Rbrace, "encoder does not end with `return nil`")
	}
}

func nodeSummary(fset *token.FileSet, n ast.Node) string {
	var sb strings.Builder
	switch x := n.(type) {
	case ast.Expr:
		return types.ExprString(x)
	case *ast.IfStmt:
		sb.WriteString("if ")
		if x.Init != nil {
			sb.WriteString("…; ")
		}
		sb.WriteString(types.ExprString(x.Cond))
	case *ast.AssignStmt:
		for i, l := range x.Lhs {
			if i > 0 {
				sb.WriteString(", ")
			}
			sb.WriteString(types.ExprString(l))
		}
		sb.WriteString(" " + x.Tok.String() + " ")
		for i, l := range x.Rhs {
			if i > 0 {
				sb.WriteString(", ")
			}
			sb.WriteString(types.ExprString(l))
		}
	case *ast.ExprStmt:
		return types.ExprString(x.X)
	case *ast.ReturnStmt:
		sb.WriteString("return")
		for _, r := range x.Results {
			sb.WriteString(" " + types.ExprString(r))
		}
	default:
		return fmt.Sprintf("%T", n)
	}
	return sb.String()
}

// ---------------------------------------------------------------------------------------------
// Decoder

func (cs *CodecSet) parseDecoder(c *Codec) {
	fd := c.DecDecl
	fname := FuncName(c.DecObj)
	if fd == nil || fd.Body == nil {
		cs.problem(c, fname, token.NoPos, "no body")
		return
	}
	recv := recvName(fd)
	param := fd.Type.Params.List[0].Names[0].Name
	stmts := fd.Body.List
	buf := ""
	// buffer := bytes.NewBuffer(*byteArray)
	if len(stmts) > 0 {
		if as, ok := stmts[0].(*ast.AssignStmt); ok && as.Tok == token.DEFINE && len(as.Lhs) == 1 && len(as.Rhs) == 1 {
			if call, ok := as.Rhs[0].(*ast.CallExpr); ok && fullName(calleeOf(cs.info, call)) == "bytes.NewBuffer" && len(call.Args) == 1 {
				if st, ok := ast.Unparen(call.Args[0]).(*ast.StarExpr); ok {
					if id, ok := ast.Unparen(st.X).(*ast.Ident); ok && id.Name == param {
						buf = as.Lhs[0].(*ast.Ident).Name
						c.DecInit = true
					}
				}
			}
		}
	}
	if !c.DecInit {
		cs.problem(c, fname, fd.Body.Lbrace, "decoder does not start with buffer := bytes.NewBuffer(*%s)", param)
		return
	}
	rest := stmts[1:]
	// mandatory part: everything before the for loop
	i := 0
	var mand []ast.Stmt
	for ; i < len(rest); i++ {
		if _, ok := rest[i].(*ast.ForStmt); ok {
			break
		}
		if _, ok := rest[i].(*ast.ReturnStmt); ok {
			break
		}
		mand = append(mand, rest[i])
	}
	c.DecMand = cs.parseSlots(c, fname, recv, buf, mand, "")
	if i < len(rest) {
		if fs, ok := rest[i].(*ast.ForStmt); ok {
			c.DecLoop = cs.parseLoop(c, fname, recv, buf, fs)
			i++
		}
	}
	for ; i < len(rest); i++ {
		if r, ok := rest[i].(*ast.ReturnStmt); ok && i == len(rest)-1 && len(r.Results) == 1 {
			if id, ok := r.Results[0].(*ast.Ident); ok && id.Name == "nil" {
				c.DecTail = true
				continue
			}
		}
		cs.problem(c, fname, rest[i].Pos(), "unclassified statement after the optional loop: %s", nodeSummary(cs.w.Fset, rest[i]))
	}
	if !c.DecTail {
		cs.problem(c, fname, fd.Body.Rbrace, "decoder does not end with `return nil`")
	}
}

// parseSlots parses a statement run into decode slots. ieiVar is the name of the received
// identifier variable inside a case clause ("" in the mandatory part).
func (cs *CodecSet) parseSlots(c *Codec, fname, recv, buf string, stmts []ast.Stmt, ieiVar string) []DecSlot {
	var slots []DecSlot
	cur := func(ie string, pos token.Pos) *DecSlot {
		n := len(slots)
		if n > 0 && slots[n-1].IE == ie {
			return &slots[n-1]
		}
		slots = append(slots, DecSlot{IE: ie, ErrOK: true, Pos: pos})
		return &slots[len(slots)-1]
	}
	bufEq := map[string]bool{}
	for _, s := range stmts {
		if op, errOK, why, ok := cs.ioStmt(s, buf, false); ok {
			it, bad := cs.classify(c, recv, op, false)
			if bad != "" {
				cs.problem(c, fname, s.Pos(), "%s", bad)
				continue
			}
			if it.Ext == "ieiN" {
				cs.problem(c, fname, s.Pos(), "read into local %s outside the loop header", it.IE)
				continue
			}
			sl := cur(it.IE, s.Pos())
			if it.Kind == "V" && sl.Guard != nil && len(sl.Items) > 0 {
				sl.GuardBeforeV = true
			}
			if it.Ext == "buffer" && sl.SetLen && c.Field(it.IE).Desc.SetLenMk {
				bufEq[it.IE] = true
			}
			sl.Items = append(sl.Items, it)
			if !errOK {
				sl.ErrOK = false
				sl.ErrBad = append(sl.ErrBad, "read of "+it.String()+": "+why)
			}
			continue
		} else if why != "" {
			cs.problem(c, fname, s.Pos(), "%s", why)
			continue
		}
		if ie, set, errOK, why, ok := cs.guardStmt(c, recv, s, bufEq); ok {
			sl := cur(ie, s.Pos())
			if sl.Guard == nil {
				g := set
				sl.Guard = &g
				sl.GuardPos = s.Pos()
				// the guard must come after the Len read and before SetLen/value read
				seenL, seenV := false, false
				for _, it := range sl.Items {
					if it.Kind == "L" {
						seenL = true
					}
					if it.Kind == "V" {
						seenV = true
					}
				}
				if !seenL || seenV || sl.SetLen {
					// a later, additional check (e.g. the redundant hand-written one) intersects
					if seenV {
						// acceptable only if it accepts everything the first guard accepts
					} else {
						cs.problem(c, fname, s.Pos(), "length guard of %s is not between the length read and the value read", ie)
					}
				}
			} else {
				// intersect
				a, b := *sl.Guard, set
				max := 65535
				g := lenSetFromPred(max, func(v int) bool { return a.Has(v) && b.Has(v) })
				sl.Guard = &g
			}
			if !errOK {
				sl.ErrOK = false
				sl.ErrBad = append(sl.ErrBad, "length guard: "+why)
			}
			continue
		}
		switch st := s.(type) {
		case *ast.ExprStmt:
			// a.X.SetLen(a.X.GetLen())
			if ie, fn, args, ok := cs.ieCall(c, recv, st.X); ok && fn.Name() == "SetLen" && len(args) == 1 {
				if ie2, ok := cs.lenExpr(c, recv, args[0]); ok && ie2 == ie {
					d := c.Field(ie).Desc
					if !d.SetLenOK {
						cs.problem(c, fname, s.Pos(), "SetLen of %s: %s", ie, d.SetLenBad)
					}
					cur(ie, s.Pos()).SetLen = true
					continue
				}
			}
		case *ast.AssignStmt:
			if len(st.Lhs) == 1 && len(st.Rhs) == 1 && st.Tok == token.ASSIGN && ieiVar != "" {
				// a.X = nasType.NewX(ieiN)
				if se, ok := ast.Unparen(st.Lhs[0]).(*ast.SelectorExpr); ok {
					if id, ok := ast.Unparen(se.X).(*ast.Ident); ok && id.Name == recv && c.Field(se.Sel.Name) != nil {
						ie := se.Sel.Name
						if call, ok := ast.Unparen(st.Rhs[0]).(*ast.CallExpr); ok && len(call.Args) == 1 {
							fn := calleeOf(cs.info, call)
							d := c.Field(ie).Desc
							if fn != nil && fn.Pkg() == cs.tpkg.Types && fn.Name() == "New"+d.Name {
								sl := cur(ie, s.Pos())
								sl.New = true
								if !d.NewOK {
									cs.problem(c, fname, s.Pos(), "constructor of %s: %s", ie, d.NewBad)
								}
								if a, ok := ast.Unparen(call.Args[0]).(*ast.Ident); ok && a.Name == ieiVar {
									sl.NewArgIeiN = true
								} else if tv, ok := cs.info.Types[call.Args[0]]; ok && tv.Value != nil {
									if v, ok := constant.Int64Val(constant.ToInt(tv.Value)); ok {
										sl.NewArgConst = &v
									}
								}
								continue
							}
						}
					}
				}
				// a.X.Octet = ieiN
				if ie, f, ok := cs.ieField(c, recv, st.Lhs[0]); ok && f == "Octet" && c.Field(ie).Desc.Storage == "octet" {
					if a, ok := ast.Unparen(st.Rhs[0]).(*ast.Ident); ok && a.Name == ieiVar {
						cur(ie, s.Pos()).StoreOctet = true
						continue
					}
				}
			}
		}
		cs.unclassified(c, fname, s)
	}
	return slots
}

// evalU8 evaluates a uint8-typed expression over one free identifier.
func (cs *CodecSet) evalU8(e ast.Expr, free string, v int) (int, bool) {
	e = ast.Unparen(e)
	if tv, ok := cs.info.Types[e]; ok && tv.Value != nil {
		if x, ok := constant.Int64Val(constant.ToInt(tv.Value)); ok {
			return int(x), true
		}
	}
	switch n := e.(type) {
	case *ast.Ident:
		if n.Name == free {
			return v, true
		}
	case *ast.BinaryExpr:
		x, ok1 := cs.evalU8(n.X, free, v)
		y, ok2 := cs.evalU8(n.Y, free, v)
		if !ok1 || !ok2 {
			return 0, false
		}
		switch n.Op {
		case token.AND:
			return x & y, true
		case token.OR:
			return x | y, true
		case token.XOR:
			return x ^ y, true
		case token.SHR:
			if y > 31 {
				return 0, true
			}
			return (x >> uint(y)) & 0xff, true
		case token.SHL:
			if y > 31 {
				return 0, true
			}
			return (x << uint(y)) & 0xff, true
		case token.ADD:
			return (x + y) & 0xff, true
		case token.SUB:
			return (x - y) & 0xff, true
		case token.GEQ:
			return b2i(x >= y), true
		case token.GTR:
			return b2i(x > y), true
		case token.LEQ:
			return b2i(x <= y), true
		case token.LSS:
			return b2i(x < y), true
		case token.EQL:
			return b2i(x == y), true
		case token.NEQ:
			return b2i(x != y), true
		case token.LAND:
			return b2i(x != 0 && y != 0), true
		case token.LOR:
			return b2i(x != 0 || y != 0), true
		}
	case *ast.CallExpr:
		if tv, ok := cs.info.Types[n.Fun]; ok && tv.IsType() && len(n.Args) == 1 && isBasic(tv.Type, types.Uint8) {
			x, ok := cs.evalU8(n.Args[0], free, v)
			return x & 0xff, ok
		}
	}
	return 0, false
}

func b2i(b bool) int {
	if b {
		return 1
	}
	return 0
}

func (cs *CodecSet) parseLoop(c *Codec, fname, recv, buf string, fs *ast.ForStmt) *DecLoop {
	lp := &DecLoop{Pos: fs.Pos()}
	for i := range lp.Map {
		lp.Map[i] = -1
	}
	// condition: buffer.Len() > 0   (or 0 < buffer.Len(), buffer.Len() != 0, buffer.Len() >= 1)
	if fs.Init == nil && fs.Post == nil && fs.Cond != nil {
		if be, ok := ast.Unparen(fs.Cond).(*ast.BinaryExpr); ok {
			isLen := func(e ast.Expr) bool {
				call, ok := ast.Unparen(e).(*ast.CallExpr)
				if !ok || len(call.Args) != 0 {
					return false
				}
				se, ok := call.Fun.(*ast.SelectorExpr)
				if !ok {
					return false
				}
				id, ok := ast.Unparen(se.X).(*ast.Ident)
				return ok && id.Name == buf && fullName(calleeOf(cs.info, call)) == "(*bytes.Buffer).Len"
			}
			cv := func(e ast.Expr) (int64, bool) {
				if tv, ok := cs.info.Types[e]; ok && tv.Value != nil {
					return constant.Int64Val(constant.ToInt(tv.Value))
				}
				return 0, false
			}
			if isLen(be.X) {
				if k, ok := cv(be.Y); ok {
					lp.CondOK = (be.Op == token.GTR && k == 0) || (be.Op == token.NEQ && k == 0) || (be.Op == token.GEQ && k == 1)
				}
			} else if isLen(be.Y) {
				if k, ok := cv(be.X); ok {
					lp.CondOK = (be.Op == token.LSS && k == 0) || (be.Op == token.NEQ && k == 0) || (be.Op == token.LEQ && k == 1)
				}
			}
		}
	}
	if !lp.CondOK {
		cs.problem(c, fname, fs.Pos(), "optional loop condition is not `%s.Len() > 0`", buf)
	}
	body := fs.Body.List
	// declarations
	ieiVar, tagVar := "", ""
	k := 0
	var locals []string
	for ; k < len(body); k++ {
		ds, ok := body[k].(*ast.DeclStmt)
		if !ok {
			break
		}
		gd, ok := ds.Decl.(*ast.GenDecl)
		if !ok || gd.Tok != token.VAR {
			break
		}
		for _, sp := range gd.Specs {
			vs := sp.(*ast.ValueSpec)
			if len(vs.Values) != 0 {
				cs.problem(c, fname, vs.Pos(), "initialised local in loop header")
			}
			for _, n := range vs.Names {
				locals = append(locals, n.Name)
			}
		}
	}
	// first read
	if k < len(body) {
		if op, errOK, why, ok := cs.ioStmt(body[k], buf, false); ok {
			it, bad := cs.classify(c, recv, op, false)
			if bad == "" && it.Ext == "ieiN" && it.Width == 1 && errOK {
				lp.FirstRead = true
				ieiVar = it.IE
			} else {
				cs.problem(c, fname, body[k].Pos(), "first statement of the loop body is not a checked 1-octet read of the identifier (%s %s)", bad, why)
			}
			k++
		}
	}
	if !lp.FirstRead {
		cs.problem(c, fname, fs.Body.Lbrace, "loop body does not begin by reading the identifier octet")
		return lp
	}
	// mapping statements up to the switch; evaluate for all 256 values
	var mapStmts []ast.Stmt
	var sw *ast.SwitchStmt
	for ; k < len(body); k++ {
		if s, ok := body[k].(*ast.SwitchStmt); ok {
			sw = s
			k++
			break
		}
		mapStmts = append(mapStmts, body[k])
	}
	if sw == nil {
		cs.problem(c, fname, fs.Body.Lbrace, "loop body has no switch")
		return lp
	}
	for ; k < len(body); k++ {
		cs.problem(c, fname, body[k].Pos(), "statement after the identifier switch: %s", nodeSummary(cs.w.Fset, body[k]))
	}
	if sw.Init != nil || sw.Tag == nil {
		cs.problem(c, fname, sw.Pos(), "unsupported switch form")
		return lp
	}
	var tagFn *types.Func // switch helper(arg): the key is computed by a one-argument function of this repository
	var tagArg ast.Expr
	if id, ok := ast.Unparen(sw.Tag).(*ast.Ident); ok {
		tagVar = id.Name
	} else if call, ok := ast.Unparen(sw.Tag).(*ast.CallExpr); ok && len(call.Args) == 1 && calleeOf(cs.info, call) != nil &&
		calleeOf(cs.info, call).Pkg() != nil && IsRepoPkg(calleeOf(cs.info, call).Pkg()) {
		tagFn, tagArg = calleeOf(cs.info, call), call.Args[0]
	} else {
		cs.problem(c, fname, sw.Pos(), "switch tag is neither a local variable nor a one-argument helper of this repository applied to one")
		return lp
	}
	lp.MapOK = true
	for v := 0; v < 256; v++ {
		env := map[string]int{ieiVar: v}
		for _, l := range locals {
			if l != ieiVar {
				env[l] = 0
			}
		}
		if !cs.execMap(mapStmts, ieiVar, env) {
			lp.MapOK = false
			break
		}
		var t int
		var ok bool
		if tagFn != nil {
			var a int
			if a, ok = cs.evalU8env(tagArg, env); ok {
				t, ok = cs.evalHelper(tagFn, a)
			}
		} else {
			t, ok = env[tagVar]
		}
		if !ok {
			lp.MapOK = false
			break
		}
		lp.Map[v] = t
	}
	if !lp.MapOK {
		cs.problem(c, fname, sw.Pos(), "identifier mapping before the switch is not evaluable")
	}
	for _, cl := range sw.Body.List {
		cc := cl.(*ast.CaseClause)
		if cc.List == nil {
			lp.HasDefault = true
			lp.DefaultNop = len(cc.Body) == 0
			if !lp.DefaultNop {
				cs.problem(c, fname, cc.Pos(), "default arm is not empty")
			}
			continue
		}
		dc := DecCase{Pos: cc.Pos()}
		for _, e := range cc.List {
			tv, ok := cs.info.Types[e]
			if !ok || tv.Value == nil {
				cs.problem(c, fname, e.Pos(), "case label is not a constant")
				continue
			}
			v, _ := constant.Int64Val(constant.ToInt(tv.Value))
			dc.Consts = append(dc.Consts, v)
			if id, ok := ast.Unparen(e).(*ast.Ident); ok {
				dc.ConstName = id.Name
			}
		}
		slots := cs.parseSlots(c, fname, recv, buf, cc.Body, ieiVar)
		if len(slots) != 1 {
			cs.problem(c, fname, cc.Pos(), "case %s handles %d elements (want exactly 1)", dc.ConstName, len(slots))
			if len(slots) == 0 {
				continue
			}
		}
		dc.Slot = slots[0]
		if k := dc.Slot.NewArgConst; k != nil && !dc.Slot.NewArgIeiN && lp.MapOK && len(dc.Consts) == 1 && *k == dc.Consts[0] {
			// the case is entered only for octets o with Map[o] == const; if that set is {const}, the constant IS the received octet
			only := true
			for o := 0; o < 256; o++ {
				if int64(lp.Map[o]) == dc.Consts[0] && int64(o) != *k {
					only = false
				}
			}
			if only {
				dc.Slot.NewArgIeiN = true
			}
		}
		if len(dc.Consts) == 1 {
			c.IEIConst[dc.Slot.IE] = dc.Consts[0]
		}
		lp.Cases = append(lp.Cases, dc)
	}
	return lp
}

// evalHelper evaluates a one-argument integer helper of the repository at a concrete argument, on
// the SSA form (E2); ok=false when the helper leaves the modelled fragment, writes memory or
// does not return a concrete integer.  Results are cached per helper.
var helperCache = map[*types.Func]map[int]int{}

func (cs *CodecSet) evalHelper(f *types.Func, a int) (int, bool) {
	if m := helperCache[f]; m != nil {
		if v, ok := m[a]; ok {
			return v, v >= 0
		}
	} else {
		helperCache[f] = map[int]int{}
	}
	res := -1
	defer func() { helperCache[f][a] = res }()
	fn := cs.w.SSAFunc(f)
	if fn == nil || len(fn.Params) != 1 {
		return 0, false
	}
	wd, _, okW := typeWidth(fn.Params[0].Type())
	if !okW {
		return 0, false
	}
	it := NewInterp(cs.w)
	it.Fuel = 5000
	st := it.NewState()
	out := it.Call(fn, []Value{it.constBV(uint64(a), wd)}, st, 0)
	bv, isBV := out.(BV)
	if !isBV || len(it.Unsup) > 0 || len(it.Writes) > 0 {
		return 0, false
	}
	c, isC := bv.IsConst()
	if !isC {
		return 0, false
	}
	res = int(c)
	return res, true
}

// execMap interprets the tiny mapping statements (assignments and if/else on uint8 expressions).
func (cs *CodecSet) execMap(stmts []ast.Stmt, free string, env map[string]int) bool {
	eval := func(e ast.Expr) (int, bool) { return cs.evalU8env(e, env) }
	for _, s := range stmts {
		switch st := s.(type) {
		case *ast.AssignStmt:
			if len(st.Lhs) != 1 || len(st.Rhs) != 1 || (st.Tok != token.ASSIGN && st.Tok != token.DEFINE) {
				return false
			}
			id, ok := st.Lhs[0].(*ast.Ident)
			if !ok {
				return false
			}
			v, ok := eval(st.Rhs[0])
			if !ok {
				return false
			}
			env[id.Name] = v
		case *ast.IfStmt:
			if st.Init != nil {
				return false
			}
			cnd, ok := eval(st.Cond)
			if !ok {
				return false
			}
			if cnd != 0 {
				if !cs.execMap(st.Body.List, free, env) {
					return false
				}
			} else if st.Else != nil {
				switch el := st.Else.(type) {
				case *ast.BlockStmt:
					if !cs.execMap(el.List, free, env) {
						return false
					}
				case *ast.IfStmt:
					if !cs.execMap([]ast.Stmt{el}, free, env) {
						return false
					}
				}
			}
		case *ast.EmptyStmt:
		default:
			return false
		}
	}
	return true
}

func (cs *CodecSet) evalU8env(e ast.Expr, env map[string]int) (int, bool) {
	e = ast.Unparen(e)
	if id, ok := e.(*ast.Ident); ok {
		if v, ok := env[id.Name]; ok {
			return v, true
		}
	}
	if be, ok := e.(*ast.BinaryExpr); ok {
		x, ok1 := cs.evalU8env(be.X, env)
		y, ok2 := cs.evalU8env(be.Y, env)
		if !ok1 || !ok2 {
			return 0, false
		}
		// reuse evalU8's operator table through a synthetic evaluation
		return evalOp(be.Op, x, y)
	}
	if call, ok := e.(*ast.CallExpr); ok {
		if tv, ok := cs.info.Types[call.Fun]; ok && tv.IsType() && len(call.Args) == 1 && isBasic(tv.Type, types.Uint8) {
			x, ok := cs.evalU8env(call.Args[0], env)
			return x & 0xff, ok
		}
	}
	return cs.evalU8(e, "", 0)
}

func evalOp(op token.Token, x, y int) (int, bool) {
	switch op {
	case token.AND:
		return x & y, true
	case token.OR:
		return x | y, true
	case token.XOR:
		return x ^ y, true
	case token.AND_NOT:
		return x &^ y, true
	case token.SHR:
		if y > 31 {
			return 0, true
		}
		return (x >> uint(y)) & 0xff, true
	case token.SHL:
		if y > 31 {
			return 0, true
		}
		return (x << uint(y)) & 0xff, true
	case token.ADD:
		return (x + y) & 0xff, true
	case token.SUB:
		return (x - y) & 0xff, true
	case token.QUO:
		if y == 0 {
			return 0, false
		}
		return x / y, true
	case token.REM:
		if y == 0 {
			return 0, false
		}
		return x % y, true
	case token.GEQ:
		return b2i(x >= y), true
	case token.GTR:
		return b2i(x > y), true
	case token.LEQ:
		return b2i(x <= y), true
	case token.LSS:
		return b2i(x < y), true
	case token.EQL:
		return b2i(x == y), true
	case token.NEQ:
		return b2i(x != y), true
	case token.LAND:
		return b2i(x != 0 && y != 0), true
	case token.LOR:
		return b2i(x != 0 || y != 0), true
	}
	return 0, false
}

// Dispatch returns, for a received identifier octet, the index into DecLoop.Cases that handles
// it, or -1 for the default arm.
func (lp *DecLoop) Dispatch(octet int) int {
	t := lp.Map[octet]
	for i, cse := range lp.Cases {
		for _, k := range cse.Consts {
			if int(k) == t {
				return i
			}
		}
	}
	return -1
}

// ProblemsOf returns the extraction problems of a function (by printable name).
func (c *Codec) ProblemsOf(fn string) []Problem {
	var out []Problem
	for _, p := range c.Problems {
		if p.Func == fn || p.Func == c.Name {
			out = append(out, p)
		}
	}
	return out
}
