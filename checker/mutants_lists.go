package main

func init() {
	const sn = "nasConvert/Snssai.go"
	const ns = "nasConvert/Nssai.go"
	const tl = "nasConvert/TaiList.go"
	const sa = "nasConvert/ServiceAreaList.go"
	const ld = "nasConvert/Ladn.go"
	addMutants(
		Mutant{Name: "c13-tai-partial-17", Prop: "C13", File: "nasConvert/TaiList.go", Old: "const maxNumOfElementsInPartialList = 16", New: "const maxNumOfElementsInPartialList = 17",
			Expect: "dec.tai-list / nasConvert.TaiListToNas / 17 TAIs", Why: "partial lists of 17 elements: the number-of-elements field takes the unused value 16"},
		Mutant{Name: "c13-tai-unsplit-regression", Prop: "C13", File: "nasConvert/TaiList.go", Old: "\t\tif len(partialList) > maxNumOfElementsInPartialList {", New: "\t\tif false {",
			Expect: "dec.tai-list / nasConvert.TaiListToNas", Why: "the repaired defect returns: more than 16 TAIs in one partial list"},
		Mutant{Name: "c13-tai-second-partial-plmn", Prop: "C13", File: "nasConvert/TaiList.go", Old: "\t\t\tplmnNas := PlmnIDToNas(*plmnId)\n\t\t\ttaiListNas = append(taiListNas, plmnNas...)\n", New: "\t\t\tif len(taiListNas) == 1 {\n\t\t\t\ttaiListNas = append(taiListNas, PlmnIDToNas(*plmnId)...)\n\t\t\t}\n",
			Expect: "dec.tai-list / nasConvert.TaiListToNas", Why: "the PLMN is written for the first partial list only"},
		Mutant{Name: "c13-snssai-length-octet", Prop: "C13", File: sn, Old: "\t\tbuf = append(buf, 0x04)", New: "\t\tbuf = append(buf, 0x03)",
			Expect: "lay.snssai / nasConvert.SnssaiToNas", Why: "length octet does not count the three SD octets plus SST"},
		Mutant{Name: "c13-rejected-length-nibble", Prop: "C13", File: sn, Old: "(0x04<<4)+rejectCause", New: "(0x04<<3)+rejectCause",
			Expect: "lay.snssai / nasConvert.RejectedSnssaiToNas", Why: "length placed one bit too low"},
		Mutant{Name: "c13-snssai-models-sd-only-4", Prop: "C13", File: sn, Old: "l == 4 || l == 5 || l == 8", New: "l == 4",
			Expect: "dec.snssai / nasConvert.SnssaiToModels", Why: "SD dropped for the forms with mapped HPLMN values"},
		Mutant{Name: "c13-mapped-sst-offset", Prop: "C13", File: ns, Old: "\t\t\tSst: int32(buf[5]),\n\t\t}\n\t\treturn snssai, nil\n\tcase 0x08", New: "\t\t\tSst: int32(buf[4]),\n\t\t}\n\t\treturn snssai, nil\n\tcase 0x08",
			Expect: "dec.snssai / nasConvert.snssaiToModels / length=5", Why: "mapped HPLMN SST read from the last SD octet"},
		Mutant{Name: "c13-short-contents-accepted", Prop: "C13", File: ns, Old: "alen < elen {", New: "alen < elen-1 {",
			Expect: "nasConvert.snssaiToModels", Why: "contents one octet short are no longer an error (and index out of range)"},
		Mutant{Name: "c13-length-3-accepted", Prop: "C13", File: ns, Old: "\tcase 0x02: // SST and mapped HPLMN SST", New: "\tcase 0x02, 0x03: // SST and mapped HPLMN SST",
			Expect: "dec.snssai / nasConvert.snssaiToModels / length=3", Why: "malformed length 3 decoded instead of rejected"},
		Mutant{Name: "c13-walker-advance", Prop: "C13", File: ns, Old: "\t\t\toffset += int(lengthOfSnssaiContents + 1)", New: "\t\t\toffset += int(lengthOfSnssaiContents)",
			Expect: "walk.nssai", Why: "walker advances by the length only"},
		Mutant{Name: "c13-rejected-cause-swapped", Prop: "C13", File: ns, Old: "\t\t\tnasMessage.RejectedSnssaiCauseNotAvailableInCurrentPlmn)...)", New: "\t\t\tnasMessage.RejectedSnssaiCauseNotAvailableInCurrentRegistrationArea)...)",
			Expect: "lay.rejected-nssai", Why: "PLMN-wide rejections carry the registration-area cause"},
		Mutant{Name: "c13-rejected-len", Prop: "C13", File: ns, Old: "\trejectedNssaiNas.SetLen(uint8(len(byteArray)))", New: "\trejectedNssaiNas.SetLen(uint8(len(rejectedNssaiInPlmn) + len(rejectedNssaiInTa)))",
			Expect: "lay.rejected-nssai", Why: "IE length counts entries, not octets"},
		Mutant{Name: "c13-tai-count", Prop: "C13", File: tl, Old: "\t\tnumOfElementsNas := uint8(len(partialList)) - 1", New: "\t\tnumOfElementsNas := uint8(len(partialList))",
			Expect: "lay.tai-list", Why: "number of elements not coded minus one"},
		Mutant{Name: "c13-tai-type-shift", Prop: "C13", File: tl, Old: "uint8(typeOfList<<5)+numOfElementsNas", New: "uint8(typeOfList<<6)+numOfElementsNas",
			Expect: "lay.tai-list", Why: "type of list one bit too high (only visible for several PLMNs)"},
		Mutant{Name: "c13-tai-type2-order", Prop: "C13", File: tl, Old: "\t\t\t\t\ttaiListNas = append(taiListNas, plmnNas...)\n\t\t\t\t\ttaiListNas = append(taiListNas, tacBytes...)", New: "\t\t\t\t\ttaiListNas = append(taiListNas, tacBytes...)\n\t\t\t\t\ttaiListNas = append(taiListNas, plmnNas...)",
			Expect: "lay.tai-list", Why: "TAC before PLMN in type 10 elements"},
		Mutant{Name: "c13-service-area-count", Prop: "C13", File: sa, Old: "uint8(numOfTacs-1)&0x1f", New: "uint8(numOfTacs)&0x1f",
			Expect: "lay.service-area", Why: "number of elements not coded minus one"},
		Mutant{Name: "c13-service-area-allowed-bit", Prop: "C13", File: sa, Old: "(allowedType<<7)&0x80", New: "(allowedType<<6)&0x80",
			Expect: "lay.service-area", Why: "allowed type lost"},
		Mutant{Name: "c13-ladn-walker", Prop: "C13", File: ld, Old: "\t\tbufOffset += 1 + lenOfDnn", New: "\t\tbufOffset += lenOfDnn",
			Expect: "walk.ladn", Why: "walker advances by the length only"},
		Mutant{Name: "c13-ladn-value-start", Prop: "C13", File: ld, Old: "string(buf[bufOffset+1 : bufOffset+1+lenOfDnn])", New: "string(buf[bufOffset : bufOffset+lenOfDnn])",
			Expect: "walk.ladn", Why: "value taken from the length octet"},
		Mutant{Name: "c13-ladn-tai-length", Prop: "C13", File: ld, Old: "\tladnNas = append(ladnNas, uint8(len(taiListNas)))", New: "\tladnNas = append(ladnNas, uint8(len(taiLists)))",
			Expect: "lay.ladn", Why: "TAI list length counts TAIs, not octets"},
		Mutant{Name: "c13-keep-sst-mask", Prop: "C13", File: sn, Old: "\t\tbuf = append(buf, 0x01)\n\t\tbuf = append(buf, uint8(snssai.Sst))", New: "\t\tbuf = append(buf, 0x01)\n\t\tbuf = append(buf, uint8(snssai.Sst&0xff))", Keep: true, Why: "same octet"},
		Mutant{Name: "c13-keep-walker-form", Prop: "C13", File: ns, Old: "\t\t\toffset += int(lengthOfSnssaiContents + 1)", New: "\t\t\toffset += int(lengthOfSnssaiContents) + 1", Keep: true, Why: "same advance for the accepted lengths"},
		Mutant{Name: "c13-keep-ladn-form", Prop: "C13", File: ld, Old: "\t\tbufOffset += 1 + lenOfDnn", New: "\t\tbufOffset = bufOffset + lenOfDnn + 1", Keep: true, Why: "same advance"},
	)
}
