package main

// E3 (part 3): per-function fixpoint, instruction transfer functions, branch refinement.

import (
	"fmt"
	"go/token"
	"go/types"
	"os"
	"sort"
	"strings"

	"golang.org/x/tools/go/ssa"
)

type memoKey struct {
	ins  ssa.Instruction
	slot int
	tag  string
}

type frame struct {
	id     int
	fn     *ssa.Function
	regs   map[ssa.Value]AVal
	atoms  map[memoKey]atomID
	syms   map[memoKey]symID
	objs   map[memoKey]*AObj
	child  map[memoKey]*frame
	curIns ssa.Instruction
	slot   int
	depth  int
	bufs   []*AObj
}

var frameCounter int

func (sa *Safe) newFrame(fn *ssa.Function, depth int) *frame {
	frameCounter++
	return &frame{id: frameCounter, fn: fn, regs: map[ssa.Value]AVal{}, atoms: map[memoKey]atomID{}, syms: map[memoKey]symID{}, objs: map[memoKey]*AObj{}, child: map[memoKey]*frame{}, depth: depth}
}

func (fr *frame) at(ins ssa.Instruction) {
	fr.curIns = ins
	fr.slot = 0
}

func (sa *Safe) mAtom(fr *frame, desc string, r Itv) atomID {
	fr.slot++
	k := memoKey{fr.curIns, fr.slot, desc}
	if a, ok := fr.atoms[k]; ok {
		return a
	}
	a := sa.u.newAtom(desc, r)
	sa.u.atoms[a].Where = fr.curIns
	fr.atoms[k] = a
	return a
}

func (sa *Safe) mSym(fr *frame, desc string) symID {
	fr.slot++
	k := memoKey{fr.curIns, fr.slot, desc}
	if a, ok := fr.syms[k]; ok {
		return a
	}
	a := sa.u.newSym(desc)
	fr.syms[k] = a
	return a
}

func (sa *Safe) mObj(fr *frame, desc string, summary bool) *AObj {
	fr.slot++
	k := memoKey{fr.curIns, fr.slot, desc}
	if a, ok := fr.objs[k]; ok {
		return a
	}
	a := sa.newObj(desc, summary)
	fr.objs[k] = a
	return a
}

// freshM: like fresh, with memoised atoms/symbols/objects (stable across fixpoint iterations).
func (sa *Safe) freshM(fr *frame, st *State, t types.Type, desc string, nn nilness) AVal {
	if r, ok := intRange(t); ok {
		return AVal{Kind: avInt, Lin: linAtom(sa.mAtom(fr, desc, r)), Type: t}
	}
	if isBoolType(t) {
		return AVal{Kind: avBool, Type: t}
	}
	if isStringType(t) {
		return AVal{Kind: avStr, Len: linAtom(sa.mAtom(fr, "len("+desc+")", Itv{0, posInf})), Type: t}
	}
	switch u := t.Underlying().(type) {
	case *types.Pointer:
		sy := sa.mSym(fr, desc)
		if nn != nilMaybe {
			st.nils[sy] = nn
		}
		return AVal{Kind: avPtr, Sym: sy, HasSym: true, Obj: sa.mObj(fr, "*"+desc, false), Type: t}
	case *types.Slice:
		sy := sa.mSym(fr, desc)
		if nn != nilMaybe {
			st.nils[sy] = nn
		}
		return AVal{Kind: avSlice, Sym: sy, HasSym: true, Obj: sa.mObj(fr, "elems("+desc+")", false), Len: linAtom(sa.mAtom(fr, "len("+desc+")", Itv{0, posInf})), Type: t}
	case *types.Interface:
		sy := sa.mSym(fr, desc)
		if nn != nilMaybe {
			st.nils[sy] = nn
		}
		return AVal{Kind: avIface, Sym: sy, HasSym: true, Type: t}
	case *types.Map:
		sy := sa.mSym(fr, desc)
		if nn != nilMaybe {
			st.nils[sy] = nn
		}
		return AVal{Kind: avMap, Sym: sy, HasSym: true, Type: t}
	case *types.Struct:
		v := AVal{Kind: avStruct, Fields: map[string]AVal{}, Type: t}
		for i := 0; i < u.NumFields(); i++ {
			v.Fields[u.Field(i).Name()] = sa.freshM(fr, st, u.Field(i).Type(), desc+"."+u.Field(i).Name(), nilMaybe)
		}
		return v
	case *types.Signature:
		return AVal{Kind: avFunc, Type: t}
	}
	return AVal{Kind: avUnknown, Type: t}
}

func (sa *Safe) loadM(fr *frame, st *State, o *AObj, path string, t types.Type, desc string) AVal {
	if o == nil {
		return sa.freshM(fr, st, t, desc, nilMaybe)
	}
	if m := st.mem[o]; m != nil {
		if v, ok := m[path]; ok {
			return v
		}
	}
	if s, ok := t.Underlying().(*types.Struct); ok {
		v := AVal{Kind: avStruct, Fields: map[string]AVal{}, Type: t}
		for i := 0; i < s.NumFields(); i++ {
			f := s.Field(i)
			v.Fields[f.Name()] = sa.loadM(fr, st, o, path+"."+f.Name(), f.Type(), desc+"."+f.Name())
		}
		return v
	}
	if _, ok := t.Underlying().(*types.Array); ok {
		return AVal{Kind: avUnknown, Type: t}
	}
	// reading an unknown element of an aggregate all of whose stored elements are known integers
	if rg, isInt := intRange(t); isInt && strings.HasSuffix(path, "[*]") && !o.Summary {
		pre := strings.TrimSuffix(path, "[*]")
		iv := Itv{posInf, negInf}
		n := 0
		for p, v := range st.mem[o] {
			if strings.HasPrefix(p, pre+"[") && !strings.Contains(p[len(pre):], "].") && !strings.Contains(p[len(pre)+1:], "[") {
				if v.Kind != avInt || v.Lin == nil {
					n = -1 << 30
					break
				}
				iv = iv.join(st.linItv(v.Lin))
				n++
			}
		}
		if n > 0 && sa.fullyInit[o] {
			a := sa.mAtom(fr, desc, rg)
			st.itv[a] = iv.meet(rg)
			return AVal{Kind: avInt, Lin: linAtom(a), Type: t}
		}
	}
	// reading an unknown element of a small pointer array all of whose elements are tracked:
	// non-nil if every one of them is
	if _, isPtr := t.Underlying().(*types.Pointer); isPtr && strings.Count(path, "[*]") == 1 && !o.Summary && sa.fullyInit[o] {
		// also a pointer FIELD of the elements of a fully initialised array of structs ("[*].octet")
		k := strings.Index(path, "[*]")
		pre, suf := path[:k], path[k+3:]
		matches := func(p string) bool {
			if !strings.HasPrefix(p, pre+"[") {
				return false
			}
			rest := p[len(pre)+1:]
			j := strings.IndexByte(rest, ']')
			if j <= 0 || rest[j+1:] != suf {
				return false
			}
			for _, c := range rest[:j] {
				if c < '0' || c > '9' {
					return false
				}
			}
			return true
		}
		n, allNonNil := 0, true
		for p, v := range st.mem[o] {
			if matches(p) {
				n++
				if sa.nilOfVal(st, v) != nilNo {
					allNonNil = false
				}
			}
		}
		if n > 0 && allNonNil {
			// the element read may be any of them, and may be stored through: forget what is known
			// about every possible target (a weak update in advance)
			for p, ev := range st.mem[o] {
				if matches(p) && ev.Obj != nil {
					sa.havoc(st, ev.Obj, ev.Path)
				}
			}
			v := sa.freshM(fr, st, t, desc, nilMaybe)
			v.NonNil = true
			return v
		}
	}
	v := sa.freshM(fr, st, t, desc, nilMaybe)
	if !o.Summary && !hasStar(path) {
		if st.mem[o] == nil {
			st.mem[o] = map[string]AVal{}
		}
		st.mem[o][path] = v
	}
	return v
}

func hasStar(p string) bool {
	for i := 0; i+2 < len(p); i++ {
		if p[i] == '[' && p[i+1] == '*' {
			return true
		}
	}
	return false
}

type retCase struct {
	st   *State
	vals []AVal
}

type callResult struct {
	st   *State
	vals []AVal
	none bool // no return reachable
}

// analyzeFunc runs the fixpoint for fn in frame fr starting from state st0 (not mutated).
// selector describes the trace partitioning of one loop by the value a small-valued phi has at
// the loop header (e.g. the state variable of a reader state machine).
type selector struct {
	head *ssa.BasicBlock
	phi  *ssa.Phi
	vals []int64 // possible values; partition index = position + 1 (0 = not in the loop)
	body map[*ssa.BasicBlock]bool
}

// findSelector: a loop-header integer phi all of whose incoming values come, through phis
// only, from constants (at most 8 distinct values).
func findSelector(fn *ssa.Function) *selector {
	for _, h := range fn.Blocks {
		var latches []*ssa.BasicBlock
		for _, p := range h.Preds {
			if h.Dominates(p) {
				latches = append(latches, p)
			}
		}
		if len(latches) == 0 {
			continue
		}
		for _, ins := range h.Instrs {
			phi, ok := ins.(*ssa.Phi)
			if !ok {
				break
			}
			if _, isInt := intRange(phi.Type()); !isInt {
				continue
			}
			vals := map[int64]bool{}
			seen := map[*ssa.Phi]bool{}
			okAll := true
			nonTrivial := false
			var walk func(v ssa.Value)
			walk = func(v ssa.Value) {
				switch x := v.(type) {
				case *ssa.Const:
					if x.Value == nil {
						okAll = false
						return
					}
					vals[x.Int64()] = true
				case *ssa.Phi:
					if seen[x] {
						return
					}
					seen[x] = true
					if x != phi {
						nonTrivial = true
					}
					for _, e := range x.Edges {
						walk(e)
					}
				default:
					okAll = false
				}
			}
			walk(phi)
			if !okAll || len(vals) < 2 || len(vals) > 8 {
				_ = nonTrivial
				continue
			}
			sel := &selector{head: h, phi: phi, body: loopBlocks(h, latches)}
			for v := range vals {
				sel.vals = append(sel.vals, v)
			}
			sort.Slice(sel.vals, func(i, j int) bool { return sel.vals[i] < sel.vals[j] })
			return sel
		}
	}
	return nil
}

type tagEdge struct {
	st   *State
	next int
}

func (sa *Safe) analyzeFunc(fr *frame, args []AVal, st0 *State) callResult {
	if fr.fn.Blocks != nil && !sa.noPaths && loopFree(fr.fn) && branchCount(fr.fn) >= 2 {
		// loop-free function: when the joined analysis leaves something open, decide it path by path
		snap := sa.snapshot()
		before := sa.failed()
		res, _ := sa.analyzeFuncSel(fr, args, st0, nil)
		if sa.failed() == before {
			return res
		}
		joinedFailed := sa.failed()
		sa.restore(snap)
		if pres, ok := sa.analyzeFuncPaths(fr, args, st0); ok && sa.failed() < joinedFailed {
			return pres
		}
		sa.restore(snap)
		res, _ = sa.analyzeFuncSel(fr, args, st0, nil)
		return res
	}
	res, ok := sa.analyzeFuncSel(fr, args, st0, findSelector(fr.fn))
	if !ok {
		// partitioning was not applicable after all (the selector was not constant on some edge)
		res, _ = sa.analyzeFuncSel(fr, args, st0, nil)
	}
	return res
}

func (sa *Safe) analyzeFuncSel(fr *frame, args []AVal, st0 *State, sel *selector) (callResult, bool) {
	fn := fr.fn
	sa.Funcs[SSAFuncName(fn)] = true
	if fn.Blocks == nil {
		sa.unsup(fn.Pos(), "function %s has no body", fn.String())
		return callResult{st: st0, none: false}, true
	}
	if fn.Recover != nil {
		sa.unsup(fn.Pos(), "function %s uses recover", fn.String())
	}
	T := 1
	if sel != nil {
		T = len(sel.vals) + 1
	}
	tagOf := func(v int64) int {
		for i, x := range sel.vals {
			if x == v {
				return i + 1
			}
		}
		return -1
	}
	regsT := make([]map[ssa.Value]AVal, T)
	regsT[0] = fr.regs
	for i, p := range fn.Params {
		if i < len(args) {
			fr.regs[p] = args[i]
		}
	}
	base := fr.regs
	defer func() { fr.regs = base }()
	nb := len(fn.Blocks)
	in := make([]*State, nb*T)
	visits := make([]int, nb*T)
	phiVals := make([]map[*ssa.Phi]AVal, nb*T)
	in[0] = st0.clone()
	work := map[int]bool{0: true}
	var rets []retCase
	retAt := map[int]retCase{}
	backEdge := map[[2]int]*State{}
	tagBack := map[[2]int][]tagEdge{} // (latch block, tag) -> outcomes
	soEntry := map[*ssa.Phi]*Lin{}    // shift-out loops: value of a stepping header variable at loop entry
	soBad := map[*ssa.Phi]bool{}
	steps := 0
	abort := false
	inBody := func(b *ssa.BasicBlock) bool { return sel != nil && sel.body[b] }
	for len(work) > 0 && !abort {
		node := -1
		for k := range work {
			if node < 0 || k < node {
				node = k
			}
		}
		delete(work, node)
		bi, tag := node/T, node%T
		steps++
		sa.work++
		if steps > 8000 || sa.work > 3000000 {
			sa.unsup(fn.Pos(), "fixpoint did not converge in %s", fn.String())
			break
		}
		b := fn.Blocks[bi]
		st := in[node].clone()
		if st.dead {
			continue
		}
		if regsT[tag] == nil {
			regsT[tag] = map[ssa.Value]AVal{}
			for k, v := range base {
				regsT[tag][k] = v
			}
		}
		fr.regs = regsT[tag]
		for p, v := range phiVals[node] {
			fr.regs[p] = v
		}
		propagate := func(to *ssa.BasicBlock, s *State) {
			if s == nil || s.dead || abort {
				return
			}
			ti := to.Index
			var pi = -1
			for k, p := range to.Preds {
				if p == b {
					pi = k
				}
			}
			// destination partition
			ntag := 0
			if sel != nil {
				switch {
				case to == sel.head:
					v := sa.val(fr, s, sel.phi.Edges[pi])
					c, isC := constOf(s, v.Lin)
					if v.Lin == nil || !isC || tagOf(c) < 0 {
						abort = true
						return
					}
					ntag = tagOf(c)
				case inBody(to):
					ntag = tag
				}
			}
			tnode := ti*T + ntag
			edge := s
			if to.Dominates(b) {
				k := [2]int{b.Index, ti}
				if old := backEdge[k]; old != nil {
					sa.u.joinSite = fmt.Sprintf("f%d.be%d.%d", fr.id, b.Index, ti)
					backEdge[k] = joinStates(old, s)
				} else {
					backEdge[k] = s.clone()
				}
				if sel != nil && to == sel.head {
					tk := [2]int{b.Index, tag}
					found := false
					for i := range tagBack[tk] {
						if tagBack[tk][i].next == ntag {
							sa.u.joinSite = fmt.Sprintf("f%d.tbe%d.%d.%d", fr.id, b.Index, tag, ntag)
							tagBack[tk][i].st = joinStates(tagBack[tk][i].st, s)
							found = true
						}
					}
					if !found {
						tagBack[tk] = append(tagBack[tk], tagEdge{s.clone(), ntag})
					}
				}
			}
			if phiVals[tnode] == nil {
				phiVals[tnode] = map[*ssa.Phi]AVal{}
			}
			newPhi := map[*ssa.Phi]AVal{}
			type phiBind struct {
				phi *ssa.Phi
				a   atomID
				inc AVal
				iv  Itv
			}
			var binds []phiBind
			phiAtoms := map[atomID]bool{}
			for _, ins := range to.Instrs {
				phi, ok := ins.(*ssa.Phi)
				if !ok {
					break
				}
				fr.at(phi)
				inc := sa.val(fr, edge, phi.Edges[pi])
				if _, isInt := intRange(phi.Type()); isInt {
					a := sa.mAtom(fr, "φ"+phi.Name()+":"+phi.Comment, mustRange(phi.Type()))
					iv := mustRange(phi.Type())
					if inc.Lin != nil {
						iv = edge.linItv(inc.Lin).meet(iv)
					}
					binds = append(binds, phiBind{phi, a, inc, iv})
					phiAtoms[a] = true
					newPhi[phi] = AVal{Kind: avInt, Lin: linAtom(a), Type: phi.Type()}
				} else if (inc.Kind == avSlice || inc.Kind == avStr) && inc.Len != nil {
					a := sa.mAtom(fr, "len(φ"+phi.Name()+":"+phi.Comment+")", Itv{0, posInf})
					iv := edge.linItv(inc.Len).meet(Itv{0, posInf})
					binds = append(binds, phiBind{phi, a, AVal{Kind: avInt, Lin: inc.Len}, iv})
					phiAtoms[a] = true
					v := inc
					v.Len = linAtom(a)
					newPhi[phi] = v
				} else {
					newPhi[phi] = inc
				}
			}
			if len(binds) > 0 {
				edge = s.clone()
				for _, bd := range binds {
					var shift *int64
					if bd.inc.Lin != nil && len(bd.inc.Lin.T) == 1 && bd.inc.Lin.T[bd.a] == 1 {
						c := bd.inc.Lin.C
						shift = &c
					}
					edge.renameAtom(bd.a, shift)
				}
				for _, bd := range binds {
					edge.itv[bd.a] = bd.iv
					if bd.inc.Lin != nil {
						mentions := false
						for a := range bd.inc.Lin.T {
							if phiAtoms[a] {
								mentions = true
							}
						}
						if !mentions {
							d := linAtom(bd.a).add(bd.inc.Lin, -1)
							edge.assume(d)
							edge.assume(d.scale(-1))
						}
					}
				}
				if len(binds) <= 6 {
					for i := 0; i < len(binds); i++ {
						for j := i + 1; j < len(binds); j++ {
							li, lj := binds[i].inc.Lin, binds[j].inc.Lin
							if li == nil || lj == nil {
								continue
							}
							mi, mj := false, false
							for a := range li.T {
								if phiAtoms[a] {
									mi = true
								}
							}
							for a := range lj.T {
								if phiAtoms[a] {
									mj = true
								}
							}
							if mi || mj {
								continue
							}
							if c, ok := li.add(lj, -1).isConst(); ok {
								d := linAtom(binds[i].a).add(linAtom(binds[j].a), -1).addConst(-c)
								edge.assume(d)
								edge.assume(d.scale(-1))
							}
						}
					}
				}
			}
			// shift-out loops (safe_shiftout.go): bounds on the stepping variables
			if so := findShiftOut(to); so != nil && len(so.steps) > 0 {
				if edge == s {
					edge = s.clone()
				}
				for p, step := range so.steps {
					inc := sa.val(fr, s, p.Edges[pi])
					if !to.Dominates(b) { // entry edge
						if inc.Lin == nil {
							soBad[p] = true
						} else if old, seen := soEntry[p]; seen && old.key() != inc.Lin.key() {
							soBad[p] = true
						} else {
							soEntry[p] = inc.Lin
						}
					}
					pv, okp := newPhi[p]
					if p0 := soEntry[p]; p0 != nil && !soBad[p] && okp && pv.Lin != nil {
						shiftOutBound(edge, pv.Lin, p0, step, so.n)
					}
				}
			}
			if so := findShiftOut(b); so != nil && to == b.Succs[so.stay] && len(so.steps) > 0 {
				if edge == s {
					edge = s.clone()
				}
				for p, step := range so.steps {
					pv, okp := fr.regs[p]
					if p0 := soEntry[p]; p0 != nil && !soBad[p] && okp && pv.Lin != nil {
						shiftOutBound(edge, pv.Lin, p0, step, so.n-1)
					}
				}
			}
			// leaving the partitioned loop: make values defined inside it visible to the code after it
			if tag != 0 && ntag == 0 {
				if regsT[0] == nil {
					regsT[0] = base
				}
				for k, v := range regsT[tag] {
					ki, isIns := k.(ssa.Instruction)
					if !isIns || ki.Block() == nil || !sel.body[ki.Block()] {
						continue
					}
					if ov, ok := base[k]; ok && in[tnode] != nil {
						if !sameVal(ov, v) {
							sa.u.joinSite = fmt.Sprintf("f%d.exit.%s", fr.id, k.Name())
							jn := joinStates(in[tnode], edge)
							jv, ok := joinVals(jn, in[tnode], edge, ov, v)
							if !ok {
								fr.at(ki)
								jv = sa.freshM(fr, edge, k.Type(), k.Name(), nilMaybe)
							}
							// carry the joined value's refinements into the edge state
							for a, iv := range jn.itv {
								if _, has := edge.itv[a]; !has {
									if edge == s {
										edge = s.clone()
									}
									edge.itv[a] = iv
								}
							}
							base[k] = jv
							work[tnode] = true
						}
					} else {
						base[k] = v
					}
				}
			}
			// entering / staying: values defined outside the loop stay those of the base register file
			if ntag != 0 {
				if regsT[ntag] == nil {
					regsT[ntag] = map[ssa.Value]AVal{}
				}
				if tag == 0 {
					for k, v := range base {
						ki, isIns := k.(ssa.Instruction)
						if isIns && ki.Block() != nil && sel.body[ki.Block()] {
							continue
						}
						regsT[ntag][k] = v
					}
				} else if tag != ntag {
					// a back edge into another partition: registers of the loop body travel along
					for k, v := range regsT[tag] {
						if _, has := regsT[ntag][k]; !has {
							regsT[ntag][k] = v
						}
					}
				}
			}
			if in[tnode] == nil {
				in[tnode] = edge.clone()
				for p, v := range newPhi {
					phiVals[tnode][p] = v
				}
				visits[tnode]++
				work[tnode] = true
				return
			}
			old := in[tnode]
			sa.u.joinSite = fmt.Sprintf("f%d.b%d.%d", fr.id, ti, ntag)
			j := joinStates(old, edge)
			for p, v := range newPhi {
				if ov, ok := phiVals[tnode][p]; ok {
					if _, isInt := intRange(p.Type()); isInt {
						phiVals[tnode][p] = v
					} else {
						sa.u.joinSite = fmt.Sprintf("f%d.b%d.%d.%s", fr.id, ti, ntag, p.Name())
						jv, ok := joinVals(j, old, edge, ov, v)
						if !ok {
							fr.at(p)
							jv = sa.freshM(fr, j, p.Type(), "φ"+p.Name(), nilMaybe)
						}
						if (v.Kind == avSlice || v.Kind == avStr) && v.Len != nil && ov.Len != nil && v.Len.key() == ov.Len.key() {
							jv.Len = v.Len
						}
						phiVals[tnode][p] = jv
					}
				} else {
					phiVals[tnode][p] = v
				}
			}
			visits[tnode]++
			if visits[tnode] > 4 && isLoopHead(to) {
				if visits[tnode] <= 12 && len(phiAtoms) > 0 {
					// first the loop's own header variables only; everything after a few more rounds
					j = widenStateOnly(old, j, phiAtoms)
				} else {
					j = widenState(old, j)
				}
			}
			if !equalStates(old, j) {
				in[tnode] = j
				work[tnode] = true
			}
		}
		done := false
		for _, ins := range b.Instrs {
			if _, ok := ins.(*ssa.Phi); ok {
				continue
			}
			fr.at(ins)
			switch x := ins.(type) {
			case *ssa.Jump:
				propagate(b.Succs[0], st)
				done = true
			case *ssa.If:
				c := sa.val(fr, st, x.Cond)
				sT := st.clone()
				sa.refine(sT, c.Cond, true)
				sF := st
				sa.refine(sF, c.Cond, false)
				propagate(b.Succs[0], sT)
				propagate(b.Succs[1], sF)
				done = true
			case *ssa.Return:
				var vals []AVal
				for _, r := range x.Results {
					vals = append(vals, sa.val(fr, st, r))
				}
				if old, ok := retAt[bi]; ok && tag != 0 {
					_ = old // a return inside a partitioned loop: keep one case per partition
				}
				retAt[node] = retCase{st, vals}
				if sa.LenRule {
					// only successful returns: an error return legitimately stops in the middle of the item sequence
					success := true
					if n := len(vals); n > 0 && fn.Signature.Results().At(n-1).Type().String() == "error" {
						success = sa.nilOfVal(st, vals[n-1]) == nilYes
					}
					// every serialiser is analysed as an entry point of its own (with the carrier premise on its
					// receiver); re-checking it in the context of a caller adds nothing and loses that premise
					if success && len(sa.stack) == 1 {
						sa.checkLenCovers(fr, st, x.Pos())
					}
				}
				done = true
			case *ssa.Panic:
				sa.oblige("safe.panic", fn, "panic("+exprText(x.X)+")", x.Pos(), st.dead, "explicit panic is reachable")
				done = true
			default:
				sa.step(fr, st, ins)
				if st.dead {
					done = true
				}
			}
			if done {
				break
			}
		}
	}
	if abort {
		return callResult{}, false
	}
	fr.regs = base
	// per-block view for the loop rules: join over partitions
	inB := make([]*State, nb)
	for n, s := range in {
		if s == nil {
			continue
		}
		bi := n / T
		if inB[bi] == nil {
			inB[bi] = s
		} else {
			sa.u.joinSite = fmt.Sprintf("f%d.inB%d", fr.id, bi)
			inB[bi] = joinStates(inB[bi], s)
		}
	}
	if sel != nil {
		// registers for the loop rules: the header phis as seen in any partition
		for t := 1; t < T; t++ {
			for k, v := range regsT[t] {
				if _, ok := base[k]; !ok {
					base[k] = v
				}
			}
		}
	}
	sa.checkLoopsSel(fr, inB, backEdge, sel, tagBack, regsT)
	var idx []int
	for k := range retAt {
		idx = append(idx, k)
	}
	sort.Ints(idx)
	for _, k := range idx {
		rets = append(rets, retAt[k])
	}
	return sa.joinReturns(fr, rets), true
}

func mustRange(t types.Type) Itv {
	r, ok := intRange(t)
	if !ok {
		return Itv{negInf, posInf}
	}
	return r
}

// joinReturns merges the return sites; for an error-typed last result it records guarded
// refinements (what holds when the error is nil / non-nil).
func (sa *Safe) joinReturns(fr *frame, rets []retCase) callResult {
	fr.at(fr.fn.Blocks[0].Instrs[0])
	return sa.joinCases(fr, fr.fn.Signature, fr.fn.Name(), rets)
}

// joinCases merges alternative outcomes (return sites of one function, or the callees of one
// dynamic call). The memo context (fr.at) must be set by the caller.
func (sa *Safe) joinCases(fr *frame, sig *types.Signature, name string, rets []retCase) callResult {
	if len(rets) == 0 {
		return callResult{none: true}
	}
	nres := sig.Results().Len()
	if len(rets) == 1 {
		return callResult{st: rets[0].st, vals: rets[0].vals}
	}
	errIdx := -1
	if nres > 0 && sig.Results().At(nres-1).Type().String() == "error" {
		errIdx = nres - 1
	}
	fr.slot = 1000
	// joined state
	var js *State
	for _, rc := range rets {
		if js == nil {
			js = rc.st.clone()
		} else {
			sa.u.joinSite = fmt.Sprintf("f%d.ret", fr.id)
			js = joinStates(js, rc.st)
		}
	}
	vals := make([]AVal, nres)
	type siteBind struct {
		a   atomID
		lin *Lin
	}
	binds := make([][]siteBind, len(rets))
	for i := 0; i < nres; i++ {
		t := sig.Results().At(i).Type()
		// identical everywhere?
		same := true
		for _, rc := range rets[1:] {
			if !sameVal(rc.vals[i], rets[0].vals[i]) {
				same = false
			}
		}
		if same {
			vals[i] = rets[0].vals[i]
			continue
		}
		fr.slot = 1000 + 10*i
		v := sa.freshM(fr, js, t, fmt.Sprintf("%s()#%d", name, i), nilMaybe)
		// joined interval / nil-ness / length, and per-site bindings for the guards
		switch v.Kind {
		case avInt:
			a := onlyAtom(v.Lin)
			iv := Itv{posInf, negInf}
			for _, rc := range rets {
				if rc.vals[i].Lin != nil {
					iv = iv.join(rc.st.linItv(rc.vals[i].Lin))
				} else {
					iv = mustRange(t)
				}
			}
			js.itv[a] = iv.meet(mustRange(t))
			for ri, rc := range rets {
				if rc.vals[i].Lin != nil {
					binds[ri] = append(binds[ri], siteBind{a, rc.vals[i].Lin})
					rc.st.itv[a] = rc.st.linItv(rc.vals[i].Lin).meet(mustRange(t))
					d := linAtom(a).add(rc.vals[i].Lin, -1)
					rc.st.assume(d)
					rc.st.assume(d.scale(-1))
				}
			}
		case avPtr, avSlice, avIface, avMap, avStr:
			first := true
			var nn nilness
			var obj *AObj
			path := ""
			sameObj := true
			for _, rc := range rets {
				n := rc.st.valNil(rc.vals[i])
				if rc.vals[i].NonNil {
					n = nilNo
				}
				if first {
					nn, obj, path = n, rc.vals[i].Obj, rc.vals[i].Path
					first = false
				} else {
					if n != nn {
						nn = nilMaybe
					}
					if rc.vals[i].Obj != obj || rc.vals[i].Path != path {
						// a nil value has no object: keep the other's
						if rc.st.valNil(rc.vals[i]) == nilYes {
						} else if obj == nil {
							obj, path = rc.vals[i].Obj, rc.vals[i].Path
						} else {
							sameObj = false
						}
					}
				}
				if v.HasSym {
					rc.st.nils[v.Sym] = n
				}
			}
			if v.HasSym && nn != nilMaybe {
				js.nils[v.Sym] = nn
			}
			if sameObj && obj != nil {
				v.Obj, v.Path = obj, path
			}
			if v.Len != nil {
				a := onlyAtom(v.Len)
				iv := Itv{posInf, negInf}
				for ri, rc := range rets {
					if rc.vals[i].Len != nil {
						binds[ri] = append(binds[ri], siteBind{a, rc.vals[i].Len})
						l := rc.st.linItv(rc.vals[i].Len)
						iv = iv.join(l)
						rc.st.itv[a] = l.meet(Itv{0, posInf})
						d := linAtom(a).add(rc.vals[i].Len, -1)
						rc.st.assume(d)
						rc.st.assume(d.scale(-1))
					} else {
						iv = Itv{0, posInf}
					}
				}
				js.itv[a] = iv.meet(Itv{0, posInf})
			}
			if v.Kind == avIface {
				var dts []types.Type
				known := true
				for _, rc := range rets {
					if rc.st.valNil(rc.vals[i]) == nilYes {
						continue
					}
					if rc.vals[i].DynT == nil {
						known = false
					}
					dts = append(dts, rc.vals[i].DynT...)
				}
				if known {
					v.DynT = dts
				}
			}
		}
		vals[i] = v
	}
	if errIdx >= 0 && vals[errIdx].HasSym {
		var nilS, nonS *State
		for ri, rc := range rets {
			ev := rc.vals[errIdx]
			n := rc.st.valNil(ev)
			if ev.NonNil {
				n = nilNo
			}
			if os.Getenv("NASVERIF_DEBUG") == "guards" {
				fmt.Fprintf(os.Stderr, "[e3] %s return %d: error nil-ness %v (NonNil=%v HasSym=%v) result0 nil-ness %v\n", name, ri, n, ev.NonNil, ev.HasSym, rc.st.valNil(rc.vals[0]))
			}
			retighten := func(p *State) {
				for _, b := range binds[ri] {
					p.itv[b.a] = p.atomItv(b.a).meet(p.linItv(b.lin))
				}
			}
			if n == nilYes || n == nilMaybe {
				part := rc.st
				if n == nilMaybe && ev.HasSym {
					// the site's own error value may be nil or not: take what is known when it is nil
					part = rc.st.clone()
					sa.refine(part, &Cond{Op: "nil", Sym: ev.Sym}, true)
					retighten(part)
				}
				if !part.dead {
					sa.u.joinSite = fmt.Sprintf("f%d.retnil", fr.id)
					nilS = joinStates(nilS, part)
				}
			}
			if n == nilNo || n == nilMaybe {
				part := rc.st
				if n == nilMaybe && ev.HasSym {
					part = rc.st.clone()
					sa.refine(part, &Cond{Op: "nil", Sym: ev.Sym}, false)
					retighten(part)
				}
				if !part.dead {
					sa.u.joinSite = fmt.Sprintf("f%d.retnon", fr.id)
					nonS = joinStates(nonS, part)
				}
			}
		}
		g := &Guard{WhenNil: partialOf(nilS), WhenNonNil: partialOf(nonS)}
		js.guards[vals[errIdx].Sym] = g
	}
	return callResult{st: js, vals: vals}
}

func onlyAtom(l *Lin) atomID {
	for a := range l.T {
		return a
	}
	return 0
}

// val evaluates an operand.
func (sa *Safe) val(fr *frame, st *State, v ssa.Value) AVal {
	switch x := v.(type) {
	case *ssa.Const:
		return sa.constValM(fr, st, x)
	case *ssa.Global:
		o := sa.globalObj(x)
		return AVal{Kind: avPtr, Obj: o, NonNil: true, Type: x.Type()}
	case *ssa.Function:
		return AVal{Kind: avFunc, Type: x.Type(), NonNil: true}
	case *ssa.Builtin:
		return AVal{Kind: avFunc}
	}
	if r, ok := fr.regs[v]; ok {
		return r
	}
	if fv, ok := v.(*ssa.FreeVar); ok {
		return sa.freshM(fr, st, fv.Type(), "freevar "+fv.Name(), nilMaybe)
	}
	sa.unsup(v.Pos(), "use of SSA value %s before its definition was analysed in %s", v.Name(), fr.fn.String())
	return sa.freshM(fr, st, v.Type(), v.Name(), nilMaybe)
}

var safeGlobals = map[*ssa.Global]*AObj{}

func (sa *Safe) globalObj(g *ssa.Global) *AObj {
	if o, ok := safeGlobals[g]; ok {
		return o
	}
	o := sa.newObj("global "+g.Name(), false)
	safeGlobals[g] = o
	return o
}

func (sa *Safe) constValM(fr *frame, st *State, c *ssa.Const) AVal {
	if c.Value != nil {
		return sa.constVal(st, c)
	}
	t := c.Type()
	// nil / zero constants: memoised symbols
	switch t.Underlying().(type) {
	case *types.Pointer, *types.Slice, *types.Interface, *types.Map, *types.Signature, *types.Chan:
		k := memoKey{nil, 0, "nil:" + t.String()}
		sy, ok := fr.syms[k]
		if !ok {
			sy = sa.u.newSym("nil")
			fr.syms[k] = sy
		}
		st.nils[sy] = nilYes
		kind := avPtr
		switch t.Underlying().(type) {
		case *types.Slice:
			kind = avSlice
		case *types.Interface:
			kind = avIface
		case *types.Map:
			kind = avMap
		case *types.Signature:
			kind = avFunc
		}
		v := AVal{Kind: kind, Sym: sy, HasSym: true, Type: t}
		if kind == avSlice {
			v.Len = linConst(0)
		}
		return v
	}
	return sa.zero(st, t)
}

// refine applies a branch condition.
func (sa *Safe) refine(st *State, c *Cond, branch bool) {
	if c == nil || st.dead {
		return
	}
	switch c.Op {
	case "const":
		if c.Const != branch {
			st.dead = true
		}
	case "not":
		sa.refine(st, c.A, !branch)
	case "le0":
		if branch {
			st.assume(c.L)
		} else {
			st.assume(c.L.scale(-1).addConst(1))
		}
	case "eq0":
		if branch {
			st.assume(c.L)
			st.assume(c.L.scale(-1))
		} else {
			iv := st.linItv(c.L)
			if iv.Lo == 0 {
				st.assume(c.L.scale(-1).addConst(1))
			} else if iv.Hi == 0 {
				st.assume(c.L.addConst(1))
			} else if iv.Lo == 0 && iv.Hi == 0 {
				st.dead = true
			}
		}
	case "nil":
		want := nilNo
		if branch {
			want = nilYes
		}
		cur := st.nilOf(c.Sym)
		if os.Getenv("NASVERIF_DEBUG") == "guards" {
			fmt.Fprintf(os.Stderr, "[e3] refine nil sym=%v want=%v cur=%v guard=%v\n", c.Sym, want, cur, st.guards[c.Sym] != nil)
		}
		if cur != nilMaybe && cur != want {
			st.dead = true
			return
		}
		st.nils[c.Sym] = want
		if g := st.guards[c.Sym]; g != nil {
			if branch {
				st.applyPartial(g.WhenNil)
			} else {
				st.applyPartial(g.WhenNonNil)
			}
		}
	case "and":
		if branch {
			sa.refine(st, c.A, true)
			sa.refine(st, c.B, true)
		}
	case "or":
		if !branch {
			sa.refine(st, c.A, false)
			sa.refine(st, c.B, false)
		}
	}
}

func (sa *Safe) nilOfVal(st *State, v AVal) nilness {
	if v.NonNil {
		return nilNo
	}
	return st.valNil(v)
}

// needNonNil records a nil-dereference obligation.
func (sa *Safe) needNonNil(fr *frame, st *State, v AVal, what string, pos token.Pos) {
	n := sa.nilOfVal(st, v)
	ok := n == nilNo || st.dead
	detail := ""
	if !ok {
		detail = "value may be nil here (" + n.String() + ")"
	}
	sa.oblige("safe.nil", fr.fn, what, pos, ok, detail)
	if v.HasSym && !st.dead {
		if n == nilYes {
			st.dead = true // dereference of nil always panics: nothing continues
		} else {
			st.nils[v.Sym] = nilNo
		}
	}
}

func (sa *Safe) needIndex(fr *frame, st *State, idx, length *Lin, what string, pos token.Pos) {
	if st.dead {
		sa.oblige("safe.index", fr.fn, what, pos, true, "")
		return
	}
	if idx == nil || length == nil {
		sa.oblige("safe.index", fr.fn, what, pos, false, "index or length not tracked")
		return
	}
	lo := st.prove(idx.scale(-1))                      // idx >= 0
	hi := st.prove(idx.add(length, -1).addConst(1))    // idx - len + 1 <= 0
	detail := ""
	if !lo || !hi {
		detail = fmt.Sprintf("cannot show 0 <= %s < %s ; index in %s, length in %s", sa.u.linString(idx), sa.u.linString(length), st.linItv(idx), st.linItv(length))
		if os.Getenv("NASVERIF_DEBUG") == "index" {
			fmt.Fprintf(os.Stderr, "INDEX %s: %s\n", what, detail)
			for _, f := range st.facts {
				fmt.Fprintf(os.Stderr, "    fact %s <= 0\n", sa.u.linString(f))
			}
			for a := range idx.add(length, -1).T {
				fmt.Fprintf(os.Stderr, "    atom %s in %s\n", sa.u.atoms[a].Desc, st.atomItv(a))
			}
		}
	}
	sa.oblige("safe.index", fr.fn, what, pos, lo && hi, detail)
	// after a successful access the bounds hold on the continuing path
	st.assume(idx.scale(-1))
	st.assume(idx.add(length, -1).addConst(1))
}

func (sa *Safe) needLE(fr *frame, st *State, rule string, a, b *Lin, what string, pos token.Pos, msg string) {
	if st.dead {
		sa.oblige(rule, fr.fn, what, pos, true, "")
		return
	}
	if a == nil || b == nil {
		sa.oblige(rule, fr.fn, what, pos, false, msg+": operand not tracked")
		return
	}
	ok := st.prove(a.add(b, -1))
	detail := ""
	if !ok {
		detail = fmt.Sprintf("%s: cannot show %s <= %s ; %s vs %s", msg, sa.u.linString(a), sa.u.linString(b), st.linItv(a), st.linItv(b))
	}
	sa.oblige(rule, fr.fn, what, pos, ok, detail)
	st.assume(a.add(b, -1))
}

func isLoopHead(b *ssa.BasicBlock) bool {
	for _, p := range b.Preds {
		if b.Dominates(p) {
			return true
		}
	}
	return false
}
