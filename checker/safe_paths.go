package main

// E3 (part 7): path-sensitive re-analysis of loop-free functions.
//
// The per-function fixpoint joins the states of the predecessors of a block.  Code that picks
// flags in a switch and acts on them later (`hasSd = true` ... `if hasSd { contents[:3] }`)
// relies on the correlation between the flags and the value switched on, which a join of
// intervals loses.  When the joined analysis of a loop-free function leaves an obligation
// undischarged, the function is analysed again path by path (no join: every acyclic path from
// entry to a return carries its own state, infeasible ones die at the refinement of a branch
// condition); the obligations of that second run replace those of the first.  The number of
// paths is bounded (pathBudget); beyond it the joined result stands.

import (
	"go/types"

	"golang.org/x/tools/go/ssa"
)

const pathBudget = 512

func loopFree(fn *ssa.Function) bool {
	for _, b := range fn.Blocks {
		for _, s := range b.Succs {
			if s.Dominates(b) {
				return false
			}
		}
	}
	return true
}

func branchCount(fn *ssa.Function) int {
	n := 0
	for _, b := range fn.Blocks {
		if len(b.Succs) == 2 {
			n++
		}
	}
	return n
}

type safeSnapshot struct {
	obls     map[string]Obligation
	order    []string
	unsup    map[string]int
	allocs   []AllocSite
	allocIdx map[string]int
}

func (sa *Safe) snapshot() *safeSnapshot {
	s := &safeSnapshot{obls: map[string]Obligation{}, unsup: map[string]int{}, allocIdx: map[string]int{}}
	for k, o := range sa.Obls {
		s.obls[k] = *o
	}
	s.order = append(s.order, sa.order...)
	for k, p := range sa.Unsup {
		s.unsup[k] = int(p)
	}
	s.allocs = append(s.allocs, sa.Allocs...)
	for k, v := range sa.allocIdx {
		s.allocIdx[k] = v
	}
	return s
}

func (sa *Safe) restore(s *safeSnapshot) {
	sa.Obls = map[string]*Obligation{}
	for k, o := range s.obls {
		c := o
		sa.Obls[k] = &c
	}
	sa.order = append([]string{}, s.order...)
	for k := range sa.Unsup {
		if _, ok := s.unsup[k]; !ok {
			delete(sa.Unsup, k)
		}
	}
	sa.Allocs = append([]AllocSite{}, s.allocs...)
	sa.allocIdx = map[string]int{}
	for k, v := range s.allocIdx {
		sa.allocIdx[k] = v
	}
}

func (sa *Safe) failed() int {
	n := len(sa.Unsup)
	for _, o := range sa.Obls {
		if !o.OK {
			n++
		}
	}
	return n
}

// analyzeFuncPaths: one state per acyclic path.  ok=false when the path budget is exceeded.
func (sa *Safe) analyzeFuncPaths(fr *frame, args []AVal, st0 *State) (callResult, bool) {
	fn := fr.fn
	sa.Funcs[SSAFuncName(fn)] = true
	for i, p := range fn.Params {
		if i < len(args) {
			fr.regs[p] = args[i]
		}
	}
	var rets []retCase
	paths := 0
	over := false
	var walk func(b, from *ssa.BasicBlock, st *State)
	walk = func(b, from *ssa.BasicBlock, st *State) {
		if over || st == nil || st.dead {
			return
		}
		if from != nil {
			pi := -1
			for k, p := range b.Preds {
				if p == from {
					pi = k
				}
			}
			// phis take the value of this path's edge (parallel assignment: read all, then write)
			var phis []*ssa.Phi
			var vals []AVal
			for _, ins := range b.Instrs {
				phi, ok := ins.(*ssa.Phi)
				if !ok {
					break
				}
				fr.at(phi)
				phis = append(phis, phi)
				vals = append(vals, sa.val(fr, st, phi.Edges[pi]))
			}
			for i, phi := range phis {
				fr.regs[phi] = vals[i]
			}
		}
		for _, ins := range b.Instrs {
			if _, ok := ins.(*ssa.Phi); ok {
				continue
			}
			fr.at(ins)
			switch x := ins.(type) {
			case *ssa.Jump:
				walk(b.Succs[0], b, st)
				return
			case *ssa.If:
				c := sa.val(fr, st, x.Cond)
				sT := st.clone()
				sa.refine(sT, c.Cond, true)
				sF := st.clone()
				sa.refine(sF, c.Cond, false)
				// registers written on the first arm are rewritten on the second before they are read
				// (SSA dominance), except phis of the join, which walk() binds per edge
				walk(b.Succs[0], b, sT)
				walk(b.Succs[1], b, sF)
				return
			case *ssa.Return:
				var vals []AVal
				for _, r := range x.Results {
					vals = append(vals, sa.val(fr, st, r))
				}
				rets = append(rets, retCase{st, vals})
				paths++
				if paths > pathBudget {
					over = true
				}
				if sa.LenRule {
					success := true
					if n := len(vals); n > 0 && fn.Signature.Results().At(n-1).Type().String() == "error" {
						success = sa.nilOfVal(st, vals[n-1]) == nilYes
					}
					if success && len(sa.stack) == 1 {
						sa.checkLenCovers(fr, st, x.Pos())
					}
				}
				return
			case *ssa.Panic:
				sa.oblige("safe.panic", fn, "panic("+exprText(x.X)+")", x.Pos(), st.dead, "explicit panic is reachable")
				return
			default:
				sa.step(fr, st, ins)
				if st.dead {
					return
				}
			}
		}
	}
	walk(fn.Blocks[0], nil, st0.clone())
	if over {
		return callResult{}, false
	}
	return sa.joinReturns(fr, rets), true
}

var _ = types.Typ
