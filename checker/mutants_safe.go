package main

func init() {
	const ra = "nasMessage/NAS_RegistrationAccept.go"
	addMutants(
		// ---- C01
		Mutant{Name: "c01-loosen-array-guard", Prop: "C01", File: ra, Old: "a.EquivalentPlmns.Len > 45", New: "a.EquivalentPlmns.Len > 46",
			Expect: "safe.slice / nasMessage.(*RegistrationAccept).DecodeRegistrationAccept", Why: "Len 46 slices a 45-octet array out of range"},
		Mutant{Name: "c01-delete-array-guard", Prop: "C01", File: "nasMessage/NAS_RegistrationRequest.go", Old: "\t\t\tif a.Capability5GMM.Len < 1 || a.Capability5GMM.Len > 13 {\n\t\t\t\treturn fmt.Errorf(\"invalid ie length (RegistrationRequest/Capability5GMM): %d\", a.Capability5GMM.Len)\n\t\t\t}\n", New: "",
			Expect: "safe.slice / nasMessage.(*RegistrationRequest).DecodeRegistrationRequest", Why: "unguarded Octet[:Len] on a 13-octet array"},
		Mutant{Name: "c01-no-empty-guard", Prop: "C01", File: "nas.go", Old: "\tif len(*byteArray) == 0 {\n\t\treturn errors.New(\"empty message\")\n\t}\n", New: "",
			Expect: "safe.index / nas.GetEPD", Why: "empty input indexes octet 0"},
		Mutant{Name: "c01-no-nil-guard", Prop: "C01", File: "nas.go", Old: "\tif byteArray == nil {\n\t\treturn errors.New(\"byteArray is nil\")\n\t}\n", New: "",
			Expect: "safe.nil / nas.(*Message).PlainNasDecode", Why: "nil input pointer dereferenced"},
		Mutant{Name: "c01-case-drops-ctor", Prop: "C01", File: ra, Old: "\t\t\ta.TAIList = nasType.NewTAIList(ieiN)\n", New: "",
			Expect: "safe.nil / nasMessage.(*RegistrationAccept).DecodeRegistrationAccept", Why: "optional element decoded through a nil pointer"},
		Mutant{Name: "c01-setlen-overalloc", Prop: "C01", File: "nasType/NAS_PayloadContainer.go", Old: "a.Buffer = make([]uint8, a.Len)", New: "a.Buffer = make([]uint8, int(a.Len)*1024)",
			Expect: "safe.alloc.bound", Why: "64 MiB allocation from a 2-octet length field"},
		Mutant{Name: "c01-loop-peek", Prop: "C01", File: "nasMessage/NAS_ServiceReject.go",
			Old: "\t\tif err := binary.Read(buffer, binary.BigEndian, &ieiN); err != nil {\n\t\t\treturn fmt.Errorf(\"NAS decode error (ServiceReject/iei): %w\", err)\n\t\t}\n",
			New: "\t\tieiN = buffer.Bytes()[0]\n",
			Expect: "nasMessage.(*ServiceReject).DecodeServiceReject", Why: "identifier peeked, not consumed: unknown identifier loops forever"},
		Mutant{Name: "c01-ctor-returns-nil", Prop: "C01", File: "nasType/NAS_TAIList.go", Old: "\ttAIList = &TAIList{}\n\ttAIList.SetIei(iei)\n\treturn tAIList", New: "\tif iei == 0 {\n\t\treturn nil\n\t}\n\ttAIList = &TAIList{}\n\ttAIList.SetIei(iei)\n\treturn tAIList",
			Expect: "safe.nil", Why: "constructor may return nil; decoder dereferences the result"},
		Mutant{Name: "c01-keep-guard-via-getlen", Prop: "C01", File: ra, Old: "a.EquivalentPlmns.Len < 3 || a.EquivalentPlmns.Len > 45", New: "a.EquivalentPlmns.GetLen() > 45 || a.EquivalentPlmns.GetLen() < 3", Keep: true, Why: "same guard through the getter"},
		Mutant{Name: "c01-keep-tighter-guard", Prop: "C01", File: ra, Old: "a.EquivalentPlmns.Len > 45", New: "a.EquivalentPlmns.Len > 44", Keep: true, Why: "tighter bound is still safe (C04 objects, C01 does not)"},
	)
}
