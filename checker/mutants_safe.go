package main

func init() {
	const ra = "nasMessage/NAS_RegistrationAccept.go"
	addMutants(
		// ---- C01
		Mutant{Name: "c01-loosen-array-guard", Prop: "C01", File: ra, Old: "a.EquivalentPlmns.Len > 45", New: "a.EquivalentPlmns.Len > 46",
			Expect: "safe.slice / nasMessage.(*RegistrationAccept).DecodeRegistrationAccept", Why: "Len 46 slices a 45-octet array out of range"},
		Mutant{Name: "c01-delete-array-guard", Prop: "C01", File: "nasMessage/NAS_RegistrationRequest.go", Old: "\t\t\tif a.Capability5GMM.Len < 1 || a.Capability5GMM.Len > 13 {\n\t\t\t\treturn fmt.Errorf(\"invalid ie length (RegistrationRequest/Capability5GMM): %d\", a.Capability5GMM.Len)\n\t\t\t}\n", New: "",
			Expect: "safe.slice / nasMessage.(*RegistrationRequest).DecodeRegistrationRequest", Why: "unguarded Octet[:Len] on a 13-octet array"},
		Mutant{Name: "c01-no-empty-guard", Prop: "C01", File: "nas.go", Old: "\tif len(*byteArray) == 0 {\n\t\treturn errors.New(\"empty message\")\n\t}\n", New: "",
			Expect: "safe.index / nas.GetEPD", Why: "empty input indexes octet 0"},
		Mutant{Name: "c01-no-nil-guard", Prop: "C01", File: "nas.go", Old: "\tif byteArray == nil {\n\t\treturn errors.New(\"byteArray is nil\")\n\t}\n", New: "",
			Expect: "safe.nil / nas.(*Message).PlainNasDecode", Why: "nil input pointer dereferenced"},
		Mutant{Name: "c01-case-drops-ctor", Prop: "C01", File: ra, Old: "\t\t\ta.TAIList = nasType.NewTAIList(ieiN)\n", New: "",
			Expect: "safe.nil / nasMessage.(*RegistrationAccept).DecodeRegistrationAccept", Why: "optional element decoded through a nil pointer"},
		Mutant{Name: "c01-setlen-overalloc", Prop: "C01", File: "nasType/NAS_PayloadContainer.go", Old: "a.Buffer = make([]uint8, a.Len)", New: "a.Buffer = make([]uint8, int(a.Len)*1024)",
			Expect: "safe.alloc.bound", Why: "64 MiB allocation from a 2-octet length field"},
		Mutant{Name: "c01-loop-peek", Prop: "C01", File: "nasMessage/NAS_ServiceReject.go",
			Old: "\t\tif err := binary.Read(buffer, binary.BigEndian, &ieiN); err != nil {\n\t\t\treturn fmt.Errorf(\"NAS decode error (ServiceReject/iei): %w\", err)\n\t\t}\n",
			New: "\t\tieiN = buffer.Bytes()[0]\n",
			Expect: "nasMessage.(*ServiceReject).DecodeServiceReject", Why: "identifier peeked, not consumed: unknown identifier loops forever"},
		Mutant{Name: "c01-ctor-returns-nil", Prop: "C01", File: "nasType/NAS_TAIList.go", Old: "\ttAIList = &TAIList{}\n\ttAIList.SetIei(iei)\n\treturn tAIList", New: "\tif iei == 0 {\n\t\treturn nil\n\t}\n\ttAIList = &TAIList{}\n\ttAIList.SetIei(iei)\n\treturn tAIList",
			Expect: "safe.nil", Why: "constructor may return nil; decoder dereferences the result"},
		Mutant{Name: "c01-keep-guard-via-getlen", Prop: "C01", File: ra, Old: "a.EquivalentPlmns.Len < 3 || a.EquivalentPlmns.Len > 45", New: "a.EquivalentPlmns.GetLen() > 45 || a.EquivalentPlmns.GetLen() < 3", Keep: true, Why: "same guard through the getter"},
		Mutant{Name: "c01-keep-tighter-guard", Prop: "C01", File: ra, Old: "a.EquivalentPlmns.Len > 45", New: "a.EquivalentPlmns.Len > 44", Keep: true, Why: "tighter bound is still safe (C04 objects, C01 does not)"},
	)
}

func init() {
	const mi = "nasType/NAS_MobileIdentity5GS.go"
	addMutants(
		// ---- C14 (each repaired defect must be re-found when it returns)
		Mutant{Name: "c14-type-of-identity-unguarded", Prop: "C14", File: mi, Old: "\tif len(a.Buffer) == 0 {\n\t\treturn \"\", errors.New(\"empty mobile identity\")\n\t}\n", New: "",
			Expect: "safe.index / nasType.(*MobileIdentity5GS).GetTypeOfIdentity", Why: "empty mobile identity indexes octet 0"},
		Mutant{Name: "c14-suci-short", Prop: "C14", File: mi, Old: "\t\tif len(a.Buffer) < 9 {\n\t\t\treturn \"\"\n\t\t}\n", New: "\t\tif len(a.Buffer) < 8 {\n\t\t\treturn \"\"\n\t\t}\n",
			Expect: "nasType.(*MobileIdentity5GS).GetSUCI", Why: "8-octet SUCI with null scheme: empty MSIN, index -1"},
		Mutant{Name: "c14-upuack-order", Prop: "C14", File: "nasConvert/UPUInfo.go", Old: "(len(buf) != 17) || (buf[0] != 0x01)", New: "(buf[0] != 0x01) || (len(buf) != 17)",
			Expect: "safe.index / nasConvert.UpuAckToModels", Why: "index before length test"},
		Mutant{Name: "c14-uesec-3", Prop: "C14", File: "nasConvert/UESecurityCapability.go", Old: "if len(buf) > 3 {", New: "if len(buf) > 2 {",
			Expect: "safe.index / nasConvert.UESecurityCapabilityToByteArray", Why: "3-octet capability reads octet 3"},
		Mutant{Name: "c14-amfid-len", Prop: "C14", File: "nasConvert/AmfId.go", Old: "if len(amfIdBytes) != 3 {", New: "if len(amfIdBytes) > 3 {",
			Expect: "safe.index / nasConvert.AmfIdToNasWithError", Why: "short AMF id indexes past the end"},
		Mutant{Name: "c14-ladn-zero-len", Prop: "C14", File: "nasConvert/Ladn.go", Old: "\t\tbufOffset += 1 + lenOfDnn", New: "\t\tbufOffset += lenOfDnn",
			Expect: "safe.loop / nasConvert.LadnToModels", Why: "a zero length octet never advances: endless loop"},
		Mutant{Name: "c14-ladn-overrun", Prop: "C14", File: "nasConvert/Ladn.go", Old: "\t\tif bufOffset+1+lenOfDnn > len(buf) {", New: "\t\tif bufOffset+lenOfDnn > len(buf) {",
			Expect: "safe.slice / nasConvert.LadnToModels", Why: "length one past the end of the buffer"},
		Mutant{Name: "c14-dnn-empty", Prop: "C14", File: "nasType/NAS_DNN.go", Old: "\tif len(fqdn) == 0 {\n\t\treturn \"\"\n\t}\n", New: "",
			Expect: "safe.slice / nasType.rfc1035tofqdn", Why: "empty DNN slices [:-1]"},
		Mutant{Name: "c14-nssai-wrap", Prop: "C14", File: "nasConvert/Nssai.go", Old: "\tdefault:\n\t\treturn snssai, fmt.Errorf(\"Invalid length of S-NSSAI contents: %d\", lengthOfSnssaiContents)", New: "\tdefault:\n\t\treturn snssai, nil",
			Keep: true, Why: "unknown lengths accepted (a C13 matter); for C14 this is harmless: the length test just before guarantees L+1 <= len(buf) <= 255, so uint8(L+1) cannot wrap to 0 and the walker still advances - the elimination prover establishes exactly that (an earlier, weaker E3 flagged it: a false alarm)"},
		Mutant{Name: "c14-suci-convert-short", Prop: "C14", File: "nasConvert/MobileIdentity5GS.go", Old: "\tif len(buf) < 9 {\n\t\treturn \"\", \"\", errors.New(\"too short SUCI\")\n\t}\n", New: "\tif len(buf) < 8 {\n\t\treturn \"\", \"\", errors.New(\"too short SUCI\")\n\t}\n",
			Expect: "nasConvert.SuciToStringWithError", Why: "empty MSIN indexes -1"},
		Mutant{Name: "c14-keep-guard-form", Prop: "C14", File: "nasConvert/UESecurityCapability.go", Old: "if len(buf) > 3 {", New: "if len(buf) >= 4 {", Keep: true, Why: "same guard"},
		Mutant{Name: "c14-keep-early-return", Prop: "C14", File: "nasConvert/UPUInfo.go", Old: "\tif (len(buf) != 17) || (buf[0] != 0x01) {", New: "\tif len(buf) != 17 {\n\t\treturn \"\", fmt.Errorf(\"NAS UPU Ack is not valid\")\n\t}\n\tif buf[0] != 0x01 {", Keep: true, Why: "guard split in two"},
	)
}
