package main

func init() {
	const g = "uePolicyContainer/UPSC_Generator.go"
	addMutants(
		Mutant{Name: "c20-no-modulo", Prop: "C20", File: g, Old: "\tidGenerator.offset++\n\tidGenerator.offset = idGenerator.offset % idGenerator.valueRange\n", New: "\tidGenerator.offset++\n",
			Expect: "alloc.bounds / uePolicyContainer.(*IDGenerator).updateOffset", Why: "scan offset leaves [0, range): identifiers above maxValue after wrap-around"},
		Mutant{Name: "c20-id-after-advance", Prop: "C20", File: g, Old: "\tid := idGenerator.offset + idGenerator.minValue\n\tidGenerator.updateOffset()\n\treturn id, nil\n}\n\n// Allocate and return an id in from", New: "\tidGenerator.updateOffset()\n\tid := idGenerator.offset + idGenerator.minValue\n\treturn id, nil\n}\n\n// Allocate and return an id in from",
			Expect: "alloc.fresh / uePolicyContainer.(*IDGenerator).Allocate", Why: "returns the next offset, which may be live, while marking the previous one"},
		Mutant{Name: "c20-fail-early", Prop: "C20", File: g, Old: "\t\t\tif idGenerator.offset == offsetBegin {", New: "\t\t\tif idGenerator.offset == offsetBegin || idGenerator.offset == 0 {",
			Expect: "alloc.fail-only-full", Why: "allocation fails when the scan passes offset 0 although free identifiers remain"},
		Mutant{Name: "c20-free-wrong-key", Prop: "C20", File: g, Old: "delete(idGenerator.usedMap, id-idGenerator.minValue)", New: "delete(idGenerator.usedMap, id)",
			Expect: "alloc.free", Why: "frees a different identifier when minValue != 0"},
		Mutant{Name: "c20-mark-unconditional", Prop: "C20", File: g, Old: "\t\tif _, ok := idGenerator.usedMap[idGenerator.offset]; ok {\n\t\t\tidGenerator.updateOffset()\n\n\t\t\tif idGenerator.offset == offsetBegin || idGenerator.offset == max {", New: "\t\tif used, ok := idGenerator.usedMap[idGenerator.offset]; ok && used && idGenerator.offset != max {\n\t\t\tidGenerator.updateOffset()\n\n\t\t\tif idGenerator.offset == offsetBegin || idGenerator.offset == max {",
			Expect: "alloc.fresh / uePolicyContainer.(*IDGenerator).Allocate_inRange", Why: "the upper end of the range is handed out even when live"},
		Mutant{Name: "c20-keep-operand-order", Prop: "C20", File: g, Old: "\tid := idGenerator.offset + idGenerator.minValue\n\tidGenerator.updateOffset()\n\treturn id, nil\n}\n\n// Allocate and return an id in from", New: "\tid := idGenerator.minValue + idGenerator.offset\n\tidGenerator.updateOffset()\n\treturn id, nil\n}\n\n// Allocate and return an id in from", Keep: true, Why: "commuted addition"},
	)
}
