package main

// E3 (part 4): transfer functions of non-call instructions.

import (
	"go/constant"
	"fmt"
	"go/token"
	"go/types"
	"os"
	"strings"

	"golang.org/x/tools/go/ssa"
)

func constOf(st *State, l *Lin) (int64, bool) {
	if l == nil {
		return 0, false
	}
	if c, ok := l.isConst(); ok {
		return c, true
	}
	iv := st.linItv(l)
	if iv.Lo == iv.Hi {
		return iv.Lo, true
	}
	return 0, false
}

func (sa *Safe) step(fr *frame, st *State, ins ssa.Instruction) {
	switch x := ins.(type) {
	case *ssa.DebugRef:
	case *ssa.Alloc:
		o := sa.mObj(fr, exprText(x), false)
		elem := x.Type().(*types.Pointer).Elem()
		// (re-)initialise to the zero value
		sa.initialising = true
		defer func() { sa.initialising = false }()
		delete(st.written, o)
		sa.havoc(st, o, "")
		z := sa.zero(st, elem)
		if z.Kind == avStruct {
			sa.storePath(st, o, "", z)
		} else if z.Kind != avUnknown {
			sa.storePath(st, o, "", z)
		}
		if arr, ok := elem.Underlying().(*types.Array); ok && arr.Len() <= 64 {
			if _, isPtr := arr.Elem().Underlying().(*types.Pointer); isPtr {
				// small arrays of pointers (varargs of addresses): every element starts nil and is
				// tracked, so that an element read at an unknown index is nil only if one of them is
				for k := int64(0); k < arr.Len(); k++ {
					sa.storePath(st, o, fmt.Sprintf("[%d]", k), sa.zero(st, arr.Elem()))
				}
				if sa.fullyInit == nil {
					sa.fullyInit = map[*AObj]bool{}
				}
				sa.fullyInit[o] = true
			}
			if es, isStruct := arr.Elem().Underlying().(*types.Struct); isStruct {
				// small arrays of structs with pointer fields (a table of (name, address) rows): every
				// pointer field of every element starts nil and is tracked
				tracked := false
				for k := int64(0); k < arr.Len(); k++ {
					for fi := 0; fi < es.NumFields(); fi++ {
						if _, isPtr := es.Field(fi).Type().Underlying().(*types.Pointer); isPtr {
							sa.storePath(st, o, fmt.Sprintf("[%d].%s", k, es.Field(fi).Name()), sa.zero(st, es.Field(fi).Type()))
							tracked = true
						}
						if _, isInt := intRange(es.Field(fi).Type()); isInt {
							sa.storePath(st, o, fmt.Sprintf("[%d].%s", k, es.Field(fi).Name()), AVal{Kind: avInt, Lin: linConst(0), Type: es.Field(fi).Type()})
							tracked = true
						}
					}
				}
				if tracked {
					if sa.fullyInit == nil {
						sa.fullyInit = map[*AObj]bool{}
					}
					sa.fullyInit[o] = true
				}
			}
			if _, isInt := intRange(arr.Elem()); isInt {
				for k := int64(0); k < arr.Len(); k++ {
					sa.storePath(st, o, fmt.Sprintf("[%d]", k), AVal{Kind: avInt, Lin: linConst(0), Type: arr.Elem()})
				}
				if sa.fullyInit == nil {
					sa.fullyInit = map[*AObj]bool{}
				}
				sa.fullyInit[o] = true
			}
		}
		fr.regs[x] = AVal{Kind: avPtr, Obj: o, Path: "", NonNil: true, Type: x.Type()}
		if isReaderType(x.Type()) {
			sa.setBufLen(st, fr.regs[x], linConst(0))
			st.logs[o] = []logEntry{}
			sa.noteBuffer(fr, o)
		}
		if x.Heap {
			sa.addAlloc(AllocSite{Fn: SSAFuncName(fr.fn), Pos: x.Pos(), What: "new " + elem.String(), Size: "fixed", Max: sa.w.sizeOf(elem)})
		}
	case *ssa.FieldAddr:
		p := sa.val(fr, st, x.X)
		sa.needNonNil(fr, st, p, exprText(x.X), x.Pos())
		stt := x.X.Type().Underlying().(*types.Pointer).Elem().Underlying().(*types.Struct)
		fr.regs[x] = AVal{Kind: avPtr, Obj: p.Obj, Path: p.Path + "." + stt.Field(x.Field).Name(), NonNil: true, Type: x.Type()}
	case *ssa.Field:
		v := sa.val(fr, st, x.X)
		stt := x.X.Type().Underlying().(*types.Struct)
		if f, ok := v.Fields[stt.Field(x.Field).Name()]; ok && v.Kind == avStruct {
			fr.regs[x] = f
		} else {
			fr.regs[x] = sa.freshM(fr, st, x.Type(), exprText(x), nilMaybe)
		}
	case *ssa.IndexAddr:
		b := sa.val(fr, st, x.X)
		idx := sa.val(fr, st, x.Index)
		var length *Lin
		switch t := x.X.Type().Underlying().(type) {
		case *types.Pointer: // *array
			sa.needNonNil(fr, st, b, exprText(x.X), x.Pos())
			length = linConst(t.Elem().Underlying().(*types.Array).Len())
		case *types.Slice:
			length = b.Len
		}
		sa.needIndex(fr, st, idx.Lin, length, exprText(x), x.Pos())
		seg := "[*]"
		if c, ok := constOf(st, idx.Lin); ok {
			seg = fmt.Sprintf("[%d]", c)
		}
		fr.regs[x] = AVal{Kind: avPtr, Obj: b.Obj, Path: b.Path + seg, NonNil: true, Type: x.Type()}
	case *ssa.Index:
		b := sa.val(fr, st, x.X)
		idx := sa.val(fr, st, x.Index)
		var length *Lin
		switch t := x.X.Type().Underlying().(type) {
		case *types.Array:
			length = linConst(t.Len())
		case *types.Basic:
			length = b.Len
		}
		sa.needIndex(fr, st, idx.Lin, length, exprText(x), x.Pos())
		if _, isPtr := x.Type().Underlying().(*types.Pointer); isPtr && b.Kind == avUnknown && b.Fields != nil {
			if _, ok := b.Fields["*nonnil"]; ok {
				v := sa.freshM(fr, st, x.Type(), exprText(x), nilMaybe)
				v.NonNil = true
				fr.regs[x] = v
				return
			}
		}
		if stt, isStruct := x.Type().Underlying().(*types.Struct); isStruct && b.Kind == avUnknown && b.Fields != nil {
			v := AVal{Kind: avStruct, Fields: map[string]AVal{}, Type: x.Type()}
			for i := 0; i < stt.NumFields(); i++ {
				f := stt.Field(i)
				if sv, ok := b.Fields[f.Name()]; ok {
					v.Fields[f.Name()] = sv
				} else {
					v.Fields[f.Name()] = sa.freshM(fr, st, f.Type(), exprText(x)+"."+f.Name(), nilMaybe)
				}
			}
			fr.regs[x] = v
			return
		}
		if g := sa.tableByPath[b.Path]; g != nil && strings.HasPrefix(b.Path, "table:") {
			fr.regs[x] = sa.tableElem(fr, st, g, "", x.Type(), exprText(x))
			return
		}
		fr.regs[x] = sa.freshM(fr, st, x.Type(), exprText(x), nilMaybe)
	case *ssa.Lookup:
		b := sa.val(fr, st, x.X)
		idx := sa.val(fr, st, x.Index)
		if mt, isMap := x.X.Type().Underlying().(*types.Map); isMap {
			v := sa.freshM(fr, st, x.Type(), exprText(x), nilMaybe)
			if rg, isInt := intRange(mt.Elem()); isInt {
				// a lookup table of integers (a package-level map written only by its initialiser with
				// constant values): the value read is one of them, or the zero value for a missing key
				if iv, ok := sa.intTable(x.X); ok {
					mk := func() AVal {
						a := sa.mAtom(fr, exprText(x), rg)
						st.itv[a] = iv.meet(rg)
						return AVal{Kind: avInt, Lin: linAtom(a), Type: mt.Elem()}
					}
					if x.CommaOk {
						fr.regs[x] = AVal{Kind: avTuple, Elts: []AVal{mk(), {Kind: avBool}}, Type: x.Type()}
					} else {
						fr.regs[x] = mk()
					}
					return
				}
			}
			if x.CommaOk {
				tv := x.Type().(*types.Tuple)
				elt := sa.freshM(fr, st, tv.At(0).Type(), exprText(x), nilMaybe)
				okv := AVal{Kind: avBool}
				if elt.Kind == avFunc && !elt.HasSym {
					elt.Sym, elt.HasSym = sa.mSym(fr, exprText(x)), true
				}
				if sa.nonNilTable(x.X) && elt.HasSym {
					// a lookup table (a package-level map written only by its initialiser) all of whose
					// values are non-nil: the value is non-nil exactly when the key was found
					okv.Cond = &Cond{Op: "not", A: &Cond{Op: "nil", Sym: elt.Sym}}
				}
				v = AVal{Kind: avTuple, Elts: []AVal{elt, okv}, Type: x.Type()}
			}
			fr.regs[x] = v
		} else {
			sa.needIndex(fr, st, idx.Lin, b.Len, exprText(x), x.Pos())
			fr.regs[x] = sa.freshM(fr, st, x.Type(), exprText(x), nilMaybe)
		}
	case *ssa.UnOp:
		sa.unop(fr, st, x)
	case *ssa.BinOp:
		fr.regs[x] = sa.binop(fr, st, x)
	case *ssa.Convert:
		fr.regs[x] = sa.convert(fr, st, x)
	case *ssa.ChangeType:
		v := sa.val(fr, st, x.X)
		v.Type = x.Type()
		fr.regs[x] = v
	case *ssa.ChangeInterface:
		fr.regs[x] = sa.val(fr, st, x.X)
	case *ssa.MakeInterface:
		v := sa.val(fr, st, x.X)
		r := AVal{Kind: avIface, NonNil: true, DynT: []types.Type{x.X.Type()}, Inner: &v, Type: x.Type()}
		fr.regs[x] = r
	case *ssa.TypeAssert:
		v := sa.val(fr, st, x.X)
		var res AVal
		if v.Inner != nil && len(v.DynT) == 1 && types.Identical(v.DynT[0], x.AssertedType) {
			res = *v.Inner
		} else {
			res = sa.freshM(fr, st, x.AssertedType, exprText(x), nilMaybe)
		}
		if x.CommaOk {
			fr.regs[x] = AVal{Kind: avTuple, Elts: []AVal{res, {Kind: avBool}}, Type: x.Type()}
		} else {
			ok := false
			if v.DynT != nil && sa.nilOfVal(st, v) == nilNo {
				ok = true
				for _, d := range v.DynT {
					if !types.Identical(d, x.AssertedType) && !(types.IsInterface(x.AssertedType) && types.Implements(d, x.AssertedType.Underlying().(*types.Interface))) {
						ok = false
					}
				}
			}
			sa.oblige("safe.typeassert", fr.fn, exprText(x), x.Pos(), ok || st.dead, "type assertion without comma-ok may fail")
			fr.regs[x] = res
		}
	case *ssa.Store:
		p := sa.val(fr, st, x.Addr)
		sa.needNonNil(fr, st, p, exprText(x.Addr), x.Pos())
		v := sa.val(fr, st, x.Val)
		sa.storePath(st, p.Obj, p.Path, v)
	case *ssa.Slice:
		fr.regs[x] = sa.sliceOp(fr, st, x)
	case *ssa.MakeSlice:
		n := sa.val(fr, st, x.Len)
		what := "make(" + exprText(x.Len) + ")"
		if n.Lin != nil {
			ok := st.prove(n.Lin.scale(-1)) || st.dead
			sa.oblige("safe.makeslice", fr.fn, what, x.Pos(), ok, "length may be negative: "+st.linItv(n.Lin).String())
			st.assume(n.Lin.scale(-1))
		} else {
			sa.oblige("safe.makeslice", fr.fn, what, x.Pos(), false, "length not tracked")
		}
		o := sa.mObj(fr, what, false)
		delete(st.written, o)
		sy := sa.mSym(fr, what)
		st.nils[sy] = nilNo
		var max int64 = posInf
		if n.Lin != nil {
			max = st.linItv(n.Lin).Hi
		}
		esz := sa.w.sizeOf(x.Type().Underlying().(*types.Slice).Elem())
		sa.addAlloc(AllocSite{Fn: SSAFuncName(fr.fn), Pos: x.Pos(), What: what, Size: sa.u.linString(n.Lin), Max: satMul(max, esz)})
		ln := n.Lin
		if ln == nil {
			ln = linAtom(sa.mAtom(fr, "len("+what+")", Itv{0, posInf}))
		}
		fr.regs[x] = AVal{Kind: avSlice, Obj: o, Sym: sy, HasSym: true, Len: ln, Type: x.Type()}
	case *ssa.MakeMap:
		fr.regs[x] = AVal{Kind: avMap, NonNil: true, Type: x.Type()}
	case *ssa.MakeChan, *ssa.MakeClosure:
		v := AVal{Kind: avFunc, NonNil: true, Type: ins.(ssa.Value).Type()}
		if mc, ok := x.(*ssa.MakeClosure); ok {
			if f, isFn := mc.Fn.(*ssa.Function); isFn && repoFn(f) {
				clo := &aClosure{fn: f}
				for _, b := range mc.Bindings {
					clo.bind = append(clo.bind, sa.val(fr, st, b))
				}
				v.Clo = clo
			} else {
				sa.unsup(ins.Pos(), "closure in %s", fr.fn.String())
			}
		}
		fr.regs[ins.(ssa.Value)] = v
	case *ssa.MapUpdate:
		m := sa.val(fr, st, x.Map)
		sa.needNonNil(fr, st, m, exprText(x.Map), x.Pos())
	case *ssa.Extract:
		t := sa.val(fr, st, x.Tuple)
		if t.Kind == avTuple && x.Index < len(t.Elts) && t.Elts[x.Index].Kind != avUnknown {
			fr.regs[x] = t.Elts[x.Index]
		} else {
			fr.regs[x] = sa.freshM(fr, st, x.Type(), exprText(x), nilMaybe)
		}
	case *ssa.Range:
		fr.regs[x] = AVal{Kind: avUnknown, Type: x.Type()}
	case *ssa.Next:
		tv := x.Type().(*types.Tuple)
		var el []AVal
		for i := 0; i < tv.Len(); i++ {
			if i == 0 {
				el = append(el, AVal{Kind: avBool})
			} else {
				el = append(el, sa.freshM(fr, st, tv.At(i).Type(), fmt.Sprintf("range#%d", i), nilMaybe))
			}
		}
		fr.regs[x] = AVal{Kind: avTuple, Elts: el, Type: x.Type()}
	case *ssa.Call:
		sa.call(fr, st, x)
	case *ssa.Defer:
		sa.unsup(x.Pos(), "defer in %s", fr.fn.String())
	case *ssa.Go:
		sa.unsup(x.Pos(), "go statement in %s", fr.fn.String())
	case *ssa.RunDefers:
	case *ssa.Send, *ssa.Select:
		sa.unsup(ins.Pos(), "channel operation in %s", fr.fn.String())
	default:
		sa.unsup(ins.Pos(), "unsupported instruction %T in %s", ins, fr.fn.String())
		if v, ok := ins.(ssa.Value); ok {
			fr.regs[v] = sa.freshM(fr, st, v.Type(), v.Name(), nilMaybe)
		}
	}
}

func (w *World) sizeOf(t types.Type) int64 {
	defer func() { recover() }()
	sz := types.SizesFor("gc", "amd64")
	if w.Arch == "386" {
		sz = types.SizesFor("gc", "386")
	}
	return sz.Sizeof(t)
}

func (sa *Safe) unop(fr *frame, st *State, x *ssa.UnOp) {
	v := sa.val(fr, st, x.X)
	switch x.Op {
	case token.MUL:
		sa.needNonNil(fr, st, v, exprText(x.X), x.Pos())
		if g, pat := tableAddr(x.X); g != nil && pat != "" && sa.readOnlyTable(g) {
			// a load through an address inside a read-only table
			if rg, isInt := intRange(x.Type()); isInt {
				if iv, ok := sa.tableInfo[g][pat]; ok {
					a := sa.mAtom(fr, exprText(x), rg)
					st.itv[a] = iv.meet(rg)
					fr.regs[x] = AVal{Kind: avInt, Lin: linAtom(a), Type: x.Type()}
					return
				}
			}
		}
		lv := sa.loadM(fr, st, v.Obj, v.Path, x.Type(), exprText(x))
		if arr, isArr := x.Type().Underlying().(*types.Array); isArr && lv.Kind == avUnknown && v.Obj != nil && !v.Obj.Summary && sa.fullyInit[v.Obj] {
			// the value of a small, fully tracked array of structs (a local table): a snapshot of the
			// ranges of its integer fields, so that an element read from the copy at an unknown index
			// is known to lie in the range of that field over all elements
			if _, isPtr := arr.Elem().Underlying().(*types.Pointer); isPtr && arr.Len() <= 64 {
				// an array of addresses copied by a range loop: every element non-nil -> the element read is
				allNonNil := arr.Len() > 0
				for k := int64(0); k < arr.Len(); k++ {
					c, has := st.mem[v.Obj][fmt.Sprintf("%s[%d]", v.Path, k)]
					if !has || sa.nilOfVal(st, c) != nilNo {
						allNonNil = false
					}
				}
				if allNonNil {
					lv.Fields = map[string]AVal{"*nonnil": {Kind: avBool}}
					for k := int64(0); k < arr.Len(); k++ {
						if c := st.mem[v.Obj][fmt.Sprintf("%s[%d]", v.Path, k)]; c.Obj != nil {
							sa.havoc(st, c.Obj, c.Path) // it may be stored through
						}
					}
				}
			}
			if es, isStruct := arr.Elem().Underlying().(*types.Struct); isStruct && arr.Len() <= 64 {
				snap := map[string]AVal{}
				for fi := 0; fi < es.NumFields(); fi++ {
					f := es.Field(fi)
					rg, isInt := intRange(f.Type())
					if !isInt {
						continue
					}
					iv, okAll := Itv{posInf, negInf}, true
					for k := int64(0); k < arr.Len(); k++ {
						c, has := st.mem[v.Obj][fmt.Sprintf("%s[%d].%s", v.Path, k, f.Name())]
						if !has || c.Kind != avInt || c.Lin == nil {
							okAll = false
							break
						}
						iv = iv.join(st.linItv(c.Lin))
					}
					if okAll {
						a := sa.mAtom(fr, exprText(x)+"[*]."+f.Name(), rg)
						st.itv[a] = iv.meet(rg)
						snap[f.Name()] = AVal{Kind: avInt, Lin: linAtom(a), Type: f.Type()}
					}
				}
				if len(snap) > 0 {
					lv.Fields = snap
				}
			}
		}
		if g, ok := x.X.(*ssa.Global); ok && lv.Kind == avUnknown {
			if _, isArr := x.Type().Underlying().(*types.Array); isArr && sa.readOnlyTable(g) {
				// the value of a read-only table: remembered, so that an element read from the copy is
				// known to be one of the table's elements
				lv.Obj, lv.Path = v.Obj, "table:"+g.Pkg.Pkg.Path()+"."+g.Name()
				sa.tableOf(lv.Path, g)
			}
		}
		if g, ok := x.X.(*ssa.Global); ok && g.Pkg != nil && relPkg(g.Pkg.Pkg) == "logger" && lv.Kind == avPtr {
			// premise: the logger handles are set once by logger.init from logrus.WithFields (never nil) and never written again (C19)
			lv.NonNil = true
		}
		if g, ok := x.X.(*ssa.Global); ok && stdSentinelError(g) {
			// premise: the sentinel errors of the standard library (io.EOF, io.ErrUnexpectedEOF, ...) are never nil
			lv.NonNil = true
		}
		fr.regs[x] = lv
	case token.NOT:
		r := AVal{Kind: avBool, Type: x.Type()}
		if v.Cond != nil {
			if v.Cond.Op == "const" {
				r.Cond = &Cond{Op: "const", Const: !v.Cond.Const}
			} else {
				r.Cond = &Cond{Op: "not", A: v.Cond}
			}
		}
		fr.regs[x] = r
	case token.SUB:
		if v.Lin != nil {
			n := v.Lin.scale(-1)
			if rg, ok := intRange(x.Type()); ok && st.linItv(n).Lo >= rg.Lo && st.linItv(n).Hi <= rg.Hi {
				fr.regs[x] = AVal{Kind: avInt, Lin: n, Type: x.Type()}
				return
			}
		}
		fr.regs[x] = sa.freshM(fr, st, x.Type(), exprText(x), nilMaybe)
	default:
		fr.regs[x] = sa.freshM(fr, st, x.Type(), exprText(x), nilMaybe)
	}
}

// fit returns l as the value if its interval fits the type's range, otherwise a fresh atom
// (wrap-around possible).
func (sa *Safe) fit(fr *frame, st *State, l *Lin, t types.Type, desc string) AVal {
	rg, ok := intRange(t)
	if !ok {
		return AVal{Kind: avUnknown, Type: t}
	}
	if l != nil {
		iv := st.linItv(l)
		if iv.Lo >= rg.Lo && iv.Hi <= rg.Hi {
			return AVal{Kind: avInt, Lin: l, Type: t}
		}
		// the interval alone does not exclude wrap-around: try the known facts
		loOK := iv.Lo >= rg.Lo || st.prove(l.scale(-1).addConst(rg.Lo))
		hiOK := iv.Hi <= rg.Hi || (rg.Hi < posInf && st.prove(l.addConst(-rg.Hi)))
		if loOK && hiOK {
			return AVal{Kind: avInt, Lin: l, Type: t}
		}
		if os.Getenv("NASVERIF_DEBUG") == "fit" {
			fmt.Fprintf(os.Stderr, "fit fails for %s : %s in %s lo=%v hi=%v\n", desc, sa.u.linString(l), iv, loOK, hiOK)
			for _, f := range st.facts {
				fmt.Fprintf(os.Stderr, "    fact %s <= 0\n", sa.u.linString(f))
			}
			for a := range l.T {
				fmt.Fprintf(os.Stderr, "    atom %s in %s\n", sa.u.atoms[a].Desc, st.atomItv(a))
			}
		}
	}
	if l != nil {
		// wrap-around possible: the same expression wraps to the same value, so it gets one atom
		if sa.wrapAtoms == nil {
			sa.wrapAtoms = map[string]atomID{}
		}
		k := t.String() + "|" + l.key()
		a, ok := sa.wrapAtoms[k]
		if !ok {
			a = sa.u.newAtom("wrap("+desc+")", rg)
			for at := range l.T {
				sa.u.atoms[a].Deps = append(sa.u.atoms[a].Deps, at)
			}
			sa.wrapAtoms[k] = a
			if sa.wrapSrc == nil {
				sa.wrapSrc = map[atomID]*Lin{}
			}
			sa.wrapSrc[a] = l
		}
		return AVal{Kind: avInt, Lin: linAtom(a), Type: t}
	}
	return AVal{Kind: avInt, Lin: linAtom(sa.mAtom(fr, desc, rg)), Type: t}
}

func (sa *Safe) boundedAtom(fr *frame, st *State, t types.Type, desc string, iv Itv) AVal {
	rg := mustRange(t)
	a := sa.mAtom(fr, desc, rg)
	st.itv[a] = iv.meet(rg)
	return AVal{Kind: avInt, Lin: linAtom(a), Type: t}
}

func (sa *Safe) binop(fr *frame, st *State, x *ssa.BinOp) AVal {
	a, b := sa.val(fr, st, x.X), sa.val(fr, st, x.Y)
	t := x.Type()
	desc := exprText(x)
	switch x.Op {
	case token.EQL, token.NEQ, token.LSS, token.LEQ, token.GTR, token.GEQ:
		r := AVal{Kind: avBool, Type: t}
		var c *Cond
		switch {
		case a.Kind == avInt && b.Kind == avInt && a.Lin != nil && b.Lin != nil:
			d := a.Lin.add(b.Lin, -1) // a - b
			switch x.Op {
			case token.EQL:
				c = &Cond{Op: "eq0", L: d}
			case token.NEQ:
				c = &Cond{Op: "not", A: &Cond{Op: "eq0", L: d}}
			case token.LSS:
				c = &Cond{Op: "le0", L: d.addConst(1)}
			case token.LEQ:
				c = &Cond{Op: "le0", L: d}
			case token.GTR:
				c = &Cond{Op: "le0", L: d.scale(-1).addConst(1)}
			case token.GEQ:
				c = &Cond{Op: "le0", L: d.scale(-1)}
			}
			// fold when decided by intervals
			iv := st.linItv(d)
			switch x.Op {
			case token.EQL, token.NEQ:
				if iv.Lo == 0 && iv.Hi == 0 {
					c = &Cond{Op: "const", Const: x.Op == token.EQL}
				} else if iv.Lo > 0 || iv.Hi < 0 {
					c = &Cond{Op: "const", Const: x.Op == token.NEQ}
				}
			default:
				if st.prove(c.L) {
					c = &Cond{Op: "const", Const: true}
				} else if st.prove(c.L.scale(-1).addConst(1)) {
					c = &Cond{Op: "const", Const: false}
				}
			}
		case (a.Kind == avPtr || a.Kind == avIface || a.Kind == avSlice || a.Kind == avMap || a.Kind == avFunc) && (x.Op == token.EQL || x.Op == token.NEQ):
			na, nb := sa.nilOfVal(st, a), sa.nilOfVal(st, b)
			var other AVal
			found := false
			if nb == nilYes {
				other, found = a, true
			} else if na == nilYes {
				other, found = b, true
			}
			if found {
				switch n := sa.nilOfVal(st, other); {
				case n == nilYes:
					c = &Cond{Op: "const", Const: true}
				case n == nilNo:
					c = &Cond{Op: "const", Const: false}
				case other.HasSym:
					c = &Cond{Op: "nil", Sym: other.Sym}
				}
				if c != nil && x.Op == token.NEQ {
					if c.Op == "const" {
						c = &Cond{Op: "const", Const: !c.Const}
					} else {
						c = &Cond{Op: "not", A: c}
					}
				}
			}
		case a.Kind == avStr && b.Kind == avStr && (x.Op == token.EQL || x.Op == token.NEQ):
			// s == "" <=> len(s) == 0
			var d *Lin
			if lb, ok := constOf(st, b.Len); ok && lb == 0 && a.Len != nil {
				d = a.Len
			} else if la, ok := constOf(st, a.Len); ok && la == 0 && b.Len != nil {
				d = b.Len
			}
			if d != nil {
				c = &Cond{Op: "eq0", L: d}
				if x.Op == token.NEQ {
					c = &Cond{Op: "not", A: c}
				}
			}
		case a.Kind == avBool && b.Kind == avBool && a.Cond != nil && b.Cond != nil && b.Cond.Op == "const":
			c = a.Cond
			if (x.Op == token.EQL) != b.Cond.Const {
				c = &Cond{Op: "not", A: c}
			}
		}
		r.Cond = c
		return r
	}
	if a.Kind == avStr || b.Kind == avStr {
		if x.Op == token.ADD && a.Len != nil && b.Len != nil {
			return AVal{Kind: avStr, Len: a.Len.add(b.Len, 1), Type: t}
		}
		return sa.freshM(fr, st, t, desc, nilMaybe)
	}
	rg, isInt := intRange(t)
	if !isInt {
		if isBoolType(t) {
			return AVal{Kind: avBool, Type: t}
		}
		return sa.freshM(fr, st, t, desc, nilMaybe)
	}
	if a.Lin == nil || b.Lin == nil {
		return sa.freshM(fr, st, t, desc, nilMaybe)
	}
	ia, ib := st.linItv(a.Lin), st.linItv(b.Lin)
	ca, aConst := constOf(st, a.Lin)
	cb, bConst := constOf(st, b.Lin)
	if aConst && bConst {
		// exact folding of bitwise operators on constants
		switch x.Op {
		case token.AND:
			return sa.fit(fr, st, linConst(ca&cb), t, desc)
		case token.OR:
			return sa.fit(fr, st, linConst(ca|cb), t, desc)
		case token.XOR:
			return sa.fit(fr, st, linConst(ca^cb), t, desc)
		case token.AND_NOT:
			return sa.fit(fr, st, linConst(ca&^cb), t, desc)
		}
	}
	switch x.Op {
	case token.ADD:
		return sa.fit(fr, st, a.Lin.add(b.Lin, 1), t, desc)
	case token.SUB:
		return sa.fit(fr, st, a.Lin.add(b.Lin, -1), t, desc)
	case token.MUL:
		if bConst {
			return sa.fit(fr, st, a.Lin.scale(cb), t, desc)
		}
		if aConst {
			return sa.fit(fr, st, b.Lin.scale(ca), t, desc)
		}
		lo, hi := posInf, negInf
		for _, p := range []int64{satMul(ia.Lo, ib.Lo), satMul(ia.Lo, ib.Hi), satMul(ia.Hi, ib.Lo), satMul(ia.Hi, ib.Hi)} {
			if p < lo {
				lo = p
			}
			if p > hi {
				hi = p
			}
		}
		if lo >= rg.Lo && hi <= rg.Hi {
			return sa.boundedAtom(fr, st, t, desc, Itv{lo, hi})
		}
		return sa.freshM(fr, st, t, desc, nilMaybe)
	case token.QUO, token.REM:
		// division by zero
		nz := ib.Lo > 0 || ib.Hi < 0
		sa.oblige("safe.divzero", fr.fn, desc, x.Pos(), nz || st.dead, "divisor may be zero: "+ib.String())
		if bConst && cb > 0 {
			// exact division: every coefficient of the dividend is a multiple of the divisor
			exact := a.Lin.C%cb == 0
			for _, k := range a.Lin.T {
				if k%cb != 0 {
					exact = false
				}
			}
			if exact {
				if x.Op == token.REM {
					return AVal{Kind: avInt, Lin: linConst(0), Type: t}
				}
				q := &Lin{C: a.Lin.C / cb, T: map[atomID]int64{}}
				for at, k := range a.Lin.T {
					q.T[at] = k / cb
				}
				return sa.fit(fr, st, q, t, desc)
			}
		}
		if bConst && cb > 0 && ia.Lo >= 0 {
			// quotient and remainder of the same dividend share their unknowns: a == cb*q + r, 0 <= r < cb
			if sa.divMemo == nil {
				sa.divMemo = map[string][2]atomID{}
			}
			key := fmt.Sprintf("%s|%d", a.Lin.key(), cb)
			qr, ok := sa.divMemo[key]
			if !ok {
				// the quotient of a value of type t by cb cannot exceed max(t)/cb: its declared range
				// (what widening falls back to) says so
				qhi := int64(posInf)
				if rgT, okT := intRange(t); okT && rgT.Hi < posInf {
					qhi = rgT.Hi / cb
				}
				qa := sa.u.newAtom(exprText(x.X)+"/"+fmt.Sprint(cb), Itv{0, qhi})
				ra := sa.u.newAtom(exprText(x.X)+"%"+fmt.Sprint(cb), Itv{0, cb - 1})
				for at := range a.Lin.T {
					sa.u.atoms[qa].Deps = append(sa.u.atoms[qa].Deps, at)
					sa.u.atoms[ra].Deps = append(sa.u.atoms[ra].Deps, at)
				}
				qr = [2]atomID{qa, ra}
				sa.divMemo[key] = qr
			}
			q, r := linAtom(qr[0]), linAtom(qr[1])
			st.itv[qr[0]] = Itv{ia.Lo / cb, satDiv(ia.Hi, cb)}.meet(st.atomItv(qr[0]))
			hi := cb - 1
			if ia.Hi < hi {
				hi = ia.Hi
			}
			st.itv[qr[1]] = Itv{0, hi}.meet(st.atomItv(qr[1]))
			id := a.Lin.add(q, -cb).add(r, -1) // a - cb*q - r == 0
			st.assume(id)
			st.assume(id.scale(-1))
			if x.Op == token.QUO {
				return sa.fit(fr, st, q, t, desc)
			}
			return sa.fit(fr, st, r, t, desc)
		}
		if x.Op == token.REM && ib.Lo > 0 && ia.Lo >= 0 {
			return sa.boundedAtom(fr, st, t, desc, Itv{0, ib.Hi - 1})
		}
		return sa.freshM(fr, st, t, desc, nilMaybe)
	case token.AND:
		hi := posInf
		if ia.Lo >= 0 && ia.Hi < hi {
			hi = ia.Hi
		}
		if ib.Lo >= 0 && ib.Hi < hi {
			hi = ib.Hi
		}
		if hi < posInf && (ia.Lo >= 0 || ib.Lo >= 0) {
			r := sa.boundedAtom(fr, st, t, desc, Itv{0, hi})
			if ia.Lo >= 0 {
				st.assume(r.Lin.add(a.Lin, -1))
			}
			if ib.Lo >= 0 {
				st.assume(r.Lin.add(b.Lin, -1))
			}
			return r
		}
		return sa.freshM(fr, st, t, desc, nilMaybe)
	case token.OR, token.XOR:
		if ia.Lo >= 0 && ib.Lo >= 0 && ia.Hi < posInf && ib.Hi < posInf {
			m := ia.Hi
			if ib.Hi > m {
				m = ib.Hi
			}
			p := int64(1)
			for p <= m {
				p <<= 1
			}
			lo := int64(0)
			if x.Op == token.OR {
				lo = ia.Lo
				if ib.Lo > lo {
					lo = ib.Lo
				}
			}
			return sa.boundedAtom(fr, st, t, desc, Itv{lo, p - 1})
		}
		return sa.freshM(fr, st, t, desc, nilMaybe)
	case token.SHL:
		if bConst && cb >= 0 && cb < 62 {
			return sa.fit(fr, st, a.Lin.scale(1<<uint(cb)), t, desc)
		}
		return sa.freshM(fr, st, t, desc, nilMaybe)
	case token.SHR:
		if bConst && cb >= 0 && cb < 62 && ia.Lo >= 0 {
			d := int64(1) << uint(cb)
			q := sa.boundedAtom(fr, st, t, desc, Itv{ia.Lo / d, satDiv(ia.Hi, d)})
			st.assume(q.Lin.scale(d).add(a.Lin, -1))
			st.assume(a.Lin.add(q.Lin, -d).addConst(-(d - 1)))
			return q
		}
		if ia.Lo >= 0 {
			return sa.boundedAtom(fr, st, t, desc, Itv{0, ia.Hi})
		}
		return sa.freshM(fr, st, t, desc, nilMaybe)
	case token.AND_NOT:
		if ia.Lo >= 0 {
			return sa.boundedAtom(fr, st, t, desc, Itv{0, ia.Hi})
		}
	}
	return sa.freshM(fr, st, t, desc, nilMaybe)
}

func satDiv(a, b int64) int64 {
	if a >= posInf {
		return posInf
	}
	return a / b
}

func (sa *Safe) convert(fr *frame, st *State, x *ssa.Convert) AVal {
	v := sa.val(fr, st, x.X)
	t := x.Type()
	if _, ok := intRange(t); ok {
		if v.Kind == avInt && v.Lin != nil {
			return sa.fit(fr, st, v.Lin, t, exprText(x))
		}
		return sa.freshM(fr, st, t, exprText(x), nilMaybe)
	}
	// string <-> []byte: same length, fresh storage
	if isStringType(t) {
		if v.Kind == avSlice && v.Len != nil {
			if isBasic(x.X.Type().Underlying().(*types.Slice).Elem(), types.Uint8) {
				return AVal{Kind: avStr, Len: v.Len, Type: t}
			}
		}
		if v.Kind == avStr {
			v.Type = t
			return v
		}
		return sa.freshM(fr, st, t, exprText(x), nilMaybe)
	}
	if sl, ok := t.Underlying().(*types.Slice); ok {
		if v.Kind == avStr && v.Len != nil && isBasic(sl.Elem(), types.Uint8) {
			o := sa.mObj(fr, exprText(x), false)
			return AVal{Kind: avSlice, Obj: o, Len: v.Len, NonNil: false, Sym: sa.mSym(fr, exprText(x)), HasSym: true, Type: t}
		}
		if v.Kind == avSlice {
			v.Type = t
			return v
		}
	}
	if v.Kind == avPtr {
		v.Type = t
		return v
	}
	return sa.freshM(fr, st, t, exprText(x), nilMaybe)
}

func (sa *Safe) sliceOp(fr *frame, st *State, x *ssa.Slice) AVal {
	b := sa.val(fr, st, x.X)
	what := exprText(x)
	var capLen *Lin // bound for the high index
	isStr := false
	switch t := x.X.Type().Underlying().(type) {
	case *types.Pointer:
		sa.needNonNil(fr, st, b, exprText(x.X), x.Pos())
		capLen = linConst(t.Elem().Underlying().(*types.Array).Len())
	case *types.Slice:
		capLen = b.Len // conservative: len, not cap
	case *types.Basic:
		capLen = b.Len
		isStr = true
	}
	lo := linConst(0)
	if x.Low != nil {
		lo = sa.val(fr, st, x.Low).Lin
	}
	hi := capLen
	if x.High != nil {
		hi = sa.val(fr, st, x.High).Lin
	}
	if x.Max != nil {
		sa.unsup(x.Pos(), "3-index slice in %s", fr.fn.String())
	}
	if lo == nil || hi == nil || capLen == nil {
		sa.oblige("safe.slice", fr.fn, what, x.Pos(), st.dead, "slice bound not tracked")
	} else if st.dead {
		sa.oblige("safe.slice", fr.fn, what, x.Pos(), true, "")
	} else {
		ok1 := st.prove(lo.scale(-1))        // 0 <= lo
		ok2 := st.prove(lo.add(hi, -1))      // lo <= hi
		ok3 := st.prove(hi.add(capLen, -1))  // hi <= len
		detail := ""
		if !(ok1 && ok2 && ok3) {
			detail = fmt.Sprintf("cannot show 0 <= %s <= %s <= %s ; low %s high %s length %s", sa.u.linString(lo), sa.u.linString(hi), sa.u.linString(capLen), st.linItv(lo), st.linItv(hi), st.linItv(capLen))
		}
		sa.oblige("safe.slice", fr.fn, what, x.Pos(), ok1 && ok2 && ok3, detail)
		st.assume(lo.scale(-1))
		st.assume(lo.add(hi, -1))
		st.assume(hi.add(capLen, -1))
	}
	var ln *Lin
	if lo != nil && hi != nil {
		ln = hi.add(lo, -1)
	} else {
		ln = linAtom(sa.mAtom(fr, "len("+what+")", Itv{0, posInf}))
	}
	if isStr {
		return AVal{Kind: avStr, Len: ln, Type: x.Type()}
	}
	r := AVal{Kind: avSlice, Obj: b.Obj, Len: ln, Type: x.Type()}
	if c, ok := constOf(st, lo); ok && c == 0 {
		r.Path = b.Path
	} else {
		// elements shift: element paths are no longer aligned, use a summary view
		r.Path = b.Path + "[*]"
		if lo != nil {
			if c, ok := lo.isConst(); ok {
				r.Path = fmt.Sprintf("%s[+%d]", b.Path, c)
			}
		}
	}
	if _, isArr := x.X.Type().Underlying().(*types.Pointer); isArr {
		r.NonNil = true
	} else {
		switch sa.nilOfVal(st, b) {
		case nilNo:
			r.NonNil = true
		case nilYes:
			sy := sa.mSym(fr, what)
			st.nils[sy] = nilYes
			r.Sym, r.HasSym = sy, true
		default:
			r.Sym, r.HasSym = sa.mSym(fr, what), true
		}
	}
	return r
}


// stdSentinelError: a package-level error variable of a standard-library package named EOF or Err...
// (initialised by errors.New and, by convention, never assigned again).
func stdSentinelError(g *ssa.Global) bool {
	if g.Pkg == nil || g.Pkg.Pkg == nil || IsRepoPkg(g.Pkg.Pkg) || strings.Contains(g.Pkg.Pkg.Path(), ".") {
		return false
	}
	pt, ok := g.Type().(*types.Pointer)
	if !ok || pt.Elem().String() != "error" {
		return false
	}
	return g.Name() == "EOF" || strings.HasPrefix(g.Name(), "Err")
}


// repoFn: a function of this repository whose body is analysed in place — including generic
// instances (their package is that of the generic function) and synthetic wrappers (bound methods,
// thunks) of repository methods.
func repoFn(f *ssa.Function) bool {
	if f == nil || f.Blocks == nil {
		return false
	}
	if f.Pkg != nil {
		return IsRepoPkg(f.Pkg.Pkg)
	}
	if o := f.Origin(); o != nil && o.Pkg != nil {
		return IsRepoPkg(o.Pkg.Pkg)
	}
	if f.Synthetic != "" && f.Object() != nil && f.Object().Pkg() != nil {
		return IsRepoPkg(f.Object().Pkg())
	}
	return false
}


// nonNilTable: v is a load of a package-level map variable that is stored and updated only in its
// package initialiser, and every value put into it there is a non-nil function or address.
func (sa *Safe) nonNilTable(v ssa.Value) bool {
	ld, ok := v.(*ssa.UnOp)
	if !ok || ld.Op != token.MUL {
		return false
	}
	g, ok := ld.X.(*ssa.Global)
	if !ok || g.Pkg == nil || !IsRepoPkg(g.Pkg.Pkg) {
		return false
	}
	if sa.tableMemo == nil {
		sa.tableMemo = map[*ssa.Global]bool{}
	}
	if r, done := sa.tableMemo[g]; done {
		return r
	}
	good, updates := true, 0
	for fn := range sa.w.AllFuncs() {
		if fn.Blocks == nil {
			continue
		}
		inInit := fn.Pkg == g.Pkg && fn.Name() == "init"
		for _, b := range fn.Blocks {
			for _, ins := range b.Instrs {
				switch x := ins.(type) {
				case *ssa.Store:
					if x.Addr == ssa.Value(g) {
						if !inInit {
							good = false
						} else if _, isMake := x.Val.(*ssa.MakeMap); !isMake {
							good = false
						}
					}
				case *ssa.MapUpdate:
					fromG := false
					switch m := x.Map.(type) {
					case *ssa.UnOp:
						fromG = m.Op == token.MUL && m.X == ssa.Value(g)
					case *ssa.MakeMap:
						// the literal being built: it is this table if it is what init stores into g
						for _, r := range *m.Referrers() {
							if st, isSt := r.(*ssa.Store); isSt && st.Addr == ssa.Value(g) {
								fromG = true
							}
						}
					}
					if !fromG {
						continue
					}
					if !inInit {
						good = false
						continue
					}
					updates++
					switch x.Value.(type) {
					case *ssa.MakeClosure, *ssa.Function, *ssa.Alloc:
					default:
						good = false
					}
				default:
					// the address of the variable taken, or the map handed to something that could write it
					if inInit {
						continue
					}
					for _, op := range ins.Operands(nil) {
						if *op == ssa.Value(g) {
							if u, isLoad := ins.(*ssa.UnOp); !isLoad || u.Op != token.MUL {
								good = false
							}
						}
					}
				}
			}
		}
	}
	good = good && updates > 0
	sa.tableMemo[g] = good
	return good
}


// ---- read-only package-level tables (arrays of integers or of structs of integers) ----

func (sa *Safe) tableOf(path string, g *ssa.Global) {
	if sa.tableByPath == nil {
		sa.tableByPath = map[string]*ssa.Global{}
	}
	sa.tableByPath[path] = g
}

// readOnlyTable: the package-level variable is written only by its package initialiser, with
// constant integers stored into constant positions, and its address is not taken elsewhere.
func (sa *Safe) readOnlyTable(g *ssa.Global) bool {
	if g.Pkg == nil || !IsRepoPkg(g.Pkg.Pkg) {
		return false
	}
	if sa.tableInfo == nil {
		sa.tableInfo = map[*ssa.Global]map[string]Itv{}
	}
	if info, done := sa.tableInfo[g]; done {
		return info != nil
	}
	info := map[string]Itv{}
	good := true
	// resolve an address to (rooted at g, path with every constant index replaced by [*])
	var rooted func(v ssa.Value) (string, bool, bool)
	rooted = func(v ssa.Value) (path string, atG bool, constIdx bool) {
		switch a := v.(type) {
		case *ssa.Global:
			return "", a == g, true
		case *ssa.IndexAddr:
			p, ok, ci := rooted(a.X)
			_, isC := a.Index.(*ssa.Const)
			return p + "[*]", ok, ci && isC
		case *ssa.FieldAddr:
			p, ok, ci := rooted(a.X)
			st, _ := a.X.Type().Underlying().(*types.Pointer).Elem().Underlying().(*types.Struct)
			if st == nil {
				return "", false, false
			}
			return p + "." + st.Field(a.Field).Name(), ok, ci
		}
		return "", false, false
	}
	for fn := range sa.w.AllFuncs() {
		if fn.Blocks == nil {
			continue
		}
		inInit := fn.Pkg == g.Pkg && fn.Name() == "init"
		for _, b := range fn.Blocks {
			for _, ins := range b.Instrs {
				switch x := ins.(type) {
				case *ssa.Store:
					p, atG, constIdx := rooted(x.Addr)
					if !atG {
						if x.Val == ssa.Value(g) {
							good = false // the address of the table is stored somewhere
						}
						continue
					}
					c, isC := x.Val.(*ssa.Const)
					if !inInit || !constIdx || !isC || c.Value == nil || c.Value.Kind() != constant.Int {
						good = false
						continue
					}
					n, exact := constant.Int64Val(c.Value)
					if !exact {
						good = false
						continue
					}
					iv, has := info[p]
					if !has {
						iv = Itv{n, n}
					} else {
						iv = iv.join(Itv{n, n})
					}
					info[p] = iv
				case *ssa.UnOp, *ssa.IndexAddr, *ssa.FieldAddr, *ssa.DebugRef:
					// loads and address computations: fine (stores through them are seen above)
				default:
					if inInit {
						continue
					}
					for _, op := range ins.Operands(nil) {
						if *op == ssa.Value(g) {
							good = false // handed to a call, converted, ...
						}
					}
				}
			}
		}
	}
	// an address derived from the table that escapes (slice of it, passed on) is not followed: require
	// that every IndexAddr / FieldAddr rooted at g is used only by loads, further address steps or stores in init
	if good {
		for fn := range sa.w.AllFuncs() {
			if fn.Blocks == nil || (fn.Pkg == g.Pkg && fn.Name() == "init") {
				continue
			}
			for _, b := range fn.Blocks {
				for _, ins := range b.Instrs {
					v, isV := ins.(ssa.Value)
					if !isV {
						continue
					}
					if _, atG, _ := rooted(v); !atG || v == ssa.Value(g) {
						continue
					}
					for _, r := range *v.Referrers() {
						switch u := r.(type) {
						case *ssa.UnOp, *ssa.IndexAddr, *ssa.FieldAddr, *ssa.DebugRef:
						case *ssa.Store:
							if u.Addr == v {
								good = false
							} else {
								good = false
							}
						default:
							good = false
						}
					}
				}
			}
		}
	}
	if !good || len(info) == 0 {
		sa.tableInfo[g] = nil
		return false
	}
	// elements never stored hold the zero value
	for p, iv := range info {
		info[p] = iv.join(Itv{0, 0})
	}
	sa.tableInfo[g] = info
	return true
}

// tableElem: an element (or, with sub, a part of an element) of a read-only table at an unknown
// index: integers get the range of the values the initialiser stores, structs are assembled field by field.
func (sa *Safe) tableElem(fr *frame, st *State, g *ssa.Global, sub string, t types.Type, desc string) AVal {
	info := sa.tableInfo[g]
	path := "[*]" + sub
	if rg, isInt := intRange(t); isInt {
		if iv, ok := info[path]; ok {
			a := sa.mAtom(fr, desc, rg)
			st.itv[a] = iv.meet(rg)
			return AVal{Kind: avInt, Lin: linAtom(a), Type: t}
		}
		return sa.freshM(fr, st, t, desc, nilMaybe)
	}
	if stt, isStruct := t.Underlying().(*types.Struct); isStruct {
		v := AVal{Kind: avStruct, Fields: map[string]AVal{}, Type: t}
		for i := 0; i < stt.NumFields(); i++ {
			f := stt.Field(i)
			v.Fields[f.Name()] = sa.tableElem(fr, st, g, sub+"."+f.Name(), f.Type(), desc+"."+f.Name())
		}
		return v
	}
	return sa.freshM(fr, st, t, desc, nilMaybe)
}


// tableAddr: the package-level variable an address is computed from, with the path pattern
// ("[*].cell"); nil when the address is not a chain of index / field steps from a global.
func tableAddr(v ssa.Value) (*ssa.Global, string) {
	switch a := v.(type) {
	case *ssa.Global:
		return a, ""
	case *ssa.IndexAddr:
		if g, p := tableAddr(a.X); g != nil {
			return g, p + "[*]"
		}
	case *ssa.FieldAddr:
		if g, p := tableAddr(a.X); g != nil {
			if st, ok := a.X.Type().Underlying().(*types.Pointer).Elem().Underlying().(*types.Struct); ok {
				return g, p + "." + st.Field(a.Field).Name()
			}
		}
	}
	return nil, ""
}


// intTable: v is a load of a package-level map that only its package initialiser writes, with
// constant integer values; returns the range of those values joined with the zero value.
func (sa *Safe) intTable(v ssa.Value) (Itv, bool) {
	ld, ok := v.(*ssa.UnOp)
	if !ok || ld.Op != token.MUL {
		return Itv{}, false
	}
	g, ok := ld.X.(*ssa.Global)
	if !ok || g.Pkg == nil || !IsRepoPkg(g.Pkg.Pkg) {
		return Itv{}, false
	}
	if sa.intTableMemo == nil {
		sa.intTableMemo = map[*ssa.Global]*Itv{}
	}
	if r, done := sa.intTableMemo[g]; done {
		if r == nil {
			return Itv{}, false
		}
		return *r, true
	}
	good, iv, n := true, Itv{0, 0}, 0
	for fn := range sa.w.AllFuncs() {
		if fn.Blocks == nil {
			continue
		}
		inInit := fn.Pkg == g.Pkg && fn.Name() == "init"
		for _, b := range fn.Blocks {
			for _, ins := range b.Instrs {
				switch x := ins.(type) {
				case *ssa.Store:
					if x.Addr == ssa.Value(g) {
						if _, isMake := x.Val.(*ssa.MakeMap); !inInit || !isMake {
							good = false
						}
					} else if x.Val == ssa.Value(g) {
						good = false
					}
				case *ssa.MapUpdate:
					fromG := false
					switch m := x.Map.(type) {
					case *ssa.UnOp:
						fromG = m.Op == token.MUL && m.X == ssa.Value(g)
					case *ssa.MakeMap:
						for _, r := range *m.Referrers() {
							if st, isSt := r.(*ssa.Store); isSt && st.Addr == ssa.Value(g) {
								fromG = true
							}
						}
					}
					if !fromG {
						continue
					}
					c, isC := x.Value.(*ssa.Const)
					if !inInit || !isC || c.Value == nil || c.Value.Kind() != constant.Int {
						good = false
						continue
					}
					if cv, exact := constant.Int64Val(c.Value); exact {
						iv = iv.join(Itv{cv, cv})
						n++
					} else {
						good = false
					}
				case *ssa.UnOp:
					if x.Op == token.MUL && x.X == ssa.Value(g) && !inInit {
						// the loaded map must only be looked up (or ranged over / measured)
						for _, r := range *x.Referrers() {
							switch u := r.(type) {
							case *ssa.Lookup, *ssa.Range, *ssa.DebugRef:
							case *ssa.Call:
								if bi, isB := u.Call.Value.(*ssa.Builtin); !isB || bi.Name() != "len" {
									good = false
								}
							default:
								good = false
							}
						}
					}
				default:
					if inInit {
						continue
					}
					for _, op := range ins.Operands(nil) {
						if *op == ssa.Value(g) {
							good = false
						}
					}
				}
			}
		}
	}
	if !good || n == 0 {
		sa.intTableMemo[g] = nil
		return Itv{}, false
	}
	sa.intTableMemo[g] = &iv
	return iv, true
}
