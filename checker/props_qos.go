package main

// C15 — QoS rules / QoS flow descriptions: totality (E3), factory agreement (SSA + E3),
// length-from-content rule (SSA).

import (
	"fmt"
	"go/constant"
	"go/token"
	"go/types"
	"sort"
	"strings"

	"golang.org/x/tools/go/ssa"
)

func init() {
	register("C15", func(w *World, r *Report, tier string) {
		propC15(w, r, tier)
		importStateless(w, r, tier, []string{"nasType/qos_rule.go", "nasType/qos_flow_desc.go"}, "QoS codecs")
	})
}

type factoryArm struct {
	K   int64
	T   *types.Named
	Pos token.Pos
}

// factoryArms extracts `case K: return &T{}` arms of a factory func(id) Iface from its SSA.
func factoryArms(fn *ssa.Function) (arms []factoryArm, nilDefault bool) {
	if fn == nil || len(fn.Params) != 1 {
		return nil, false
	}
	id := fn.Params[0]
	// result value of a block reachable by straight jumps: (type, ok)
	var resultOf func(b *ssa.BasicBlock, from *ssa.BasicBlock, depth int) (types.Type, bool, bool)
	resultOf = func(b, from *ssa.BasicBlock, depth int) (types.Type, bool, bool) { // type, isNil, ok
		if depth > 4 {
			return nil, false, false
		}
		last := b.Instrs[len(b.Instrs)-1]
		switch x := last.(type) {
		case *ssa.Return:
			if len(x.Results) != 1 {
				return nil, false, false
			}
			v := x.Results[0]
			if phi, ok := v.(*ssa.Phi); ok && phi.Block() == b {
				for i, p := range b.Preds {
					if p == from {
						v = phi.Edges[i]
					}
				}
			}
			switch r := v.(type) {
			case *ssa.MakeInterface:
				return r.X.Type(), false, true
			case *ssa.Const:
				return nil, r.Value == nil, r.Value == nil
			}
		case *ssa.Jump:
			return resultOf(b.Succs[0], b, depth+1)
		}
		return nil, false, false
	}
	for _, b := range fn.Blocks {
		iff, ok := b.Instrs[len(b.Instrs)-1].(*ssa.If)
		if !ok {
			continue
		}
		cond, ok := iff.Cond.(*ssa.BinOp)
		if !ok || cond.Op != token.EQL {
			continue
		}
		var c *ssa.Const
		if cond.X == ssa.Value(id) {
			c, _ = cond.Y.(*ssa.Const)
		} else if cond.Y == ssa.Value(id) {
			c, _ = cond.X.(*ssa.Const)
		}
		if c == nil || c.Value == nil {
			continue
		}
		k, _ := constant.Int64Val(constant.ToInt(c.Value))
		t, _, ok := resultOf(b.Succs[0], b, 0)
		if !ok || t == nil {
			continue
		}
		if p, ok := t.(*types.Pointer); ok {
			if nt, ok := p.Elem().(*types.Named); ok {
				arms = append(arms, factoryArm{K: k, T: nt, Pos: iff.Pos()})
			}
		}
	}
	// default arm returns nil?
	for _, b := range fn.Blocks {
		if r, ok := b.Instrs[len(b.Instrs)-1].(*ssa.Return); ok && len(r.Results) == 1 {
			if c, ok := r.Results[0].(*ssa.Const); ok && c.Value == nil {
				nilDefault = true
			}
			if phi, ok := r.Results[0].(*ssa.Phi); ok {
				for _, e := range phi.Edges {
					if c, ok := e.(*ssa.Const); ok && c.Value == nil {
						nilDefault = true
					}
				}
			}
		}
	}
	sort.Slice(arms, func(i, j int) bool { return arms[i].K < arms[j].K })
	return
}

// constResult analyses a niladic method of *T with E3 and returns its constant int result.
func constMethodResult(w *World, nt *types.Named, method string) (int64, bool, *Safe, AVal) {
	obj, _, _ := types.LookupFieldOrMethod(types.NewPointer(nt), true, nt.Obj().Pkg(), method)
	f, _ := obj.(*types.Func)
	if f == nil {
		return 0, false, nil, AVal{}
	}
	fn := w.SSAFunc(f)
	if fn == nil {
		return 0, false, nil, AVal{}
	}
	sa := NewSafe(w)
	root := sa.newFrame(fn, 0)
	st := newState(sa.u)
	root.at(nil)
	recv := nonNilPtrArg(sa, root, st, fn.Params[0].Type(), "recv")
	sa.stack = []*ssa.Function{fn}
	res := sa.analyzeFunc(root, []AVal{recv}, st)
	if res.none || len(res.vals) == 0 {
		return 0, false, sa, AVal{}
	}
	v := res.vals[0]
	// for (value, error) results: what holds when the error is nil
	if n := len(res.vals); n > 1 && res.vals[n-1].HasSym {
		if g := res.st.guards[res.vals[n-1].Sym]; g != nil && g.WhenNil != nil && !g.WhenNil.dead {
			res.st = res.st.clone()
			res.st.applyPartial(g.WhenNil)
		}
	}
	if v.Lin != nil {
		if c, ok := constOf(res.st, v.Lin); ok {
			return c, true, sa, v
		}
	}
	if v.Len != nil {
		if c, ok := constOf(res.st, v.Len); ok {
			return c, true, sa, v
		}
	}
	return 0, false, sa, v
}

func propC15(w *World, r *Report, tier string) {
	r.Explanation = "Totality: abstract interpretation (E3) of QoSRules.UnmarshalBinary and QoSFlowDescs.UnmarshalBinary on an arbitrary byte string, through all 18 + 7 " +
		"component / parameter implementations (VTA callees): every index, slice, BigEndian.UintN precondition, Buffer.Next count and nil-interface call is a " +
		"discharged obligation, every loop matches a ranking rule (R-consume, interprocedurally: the callee consumes >= 1 octet whenever it succeeds). " +
		"Factory agreement: each factory arm `case K: return &T{}` is paired with (*T).Type()/Identifier() evaluated to K, and (*T).Length() with the length of " +
		"(*T).MarshalBinary()'s result where that is a compile-time constant. Length-from-content: every length octet written by a Marshal function is len() of the " +
		"bytes written next."
	r.Assumptions = []string{"arbitrary input bytes (nil and empty included); non-nil receivers",
		"stdlib contracts of checker/safe_calls.go (binary.Read errors instead of panicking; Buffer.Next(n) needs n >= 0 and returns at most n octets)"}
	r.Trusted = []string{"go/ssa, VTA call graph", "stdlib contracts", "prove() fragment"}
	sa := runEntries(w, r, totalityEntries(w, r, [][3]string{{"nasType", "QoSRules.UnmarshalBinary", "recv"}, {"nasType", "QoSFlowDescs.UnmarshalBinary", "recv"}}))
	sa.report(r, "C15")
	r.Expect("safe.entries", 2)
	r.ExpectCensus("safe.loop", sa.loopCensus(), 5)
	r.Expect("safe.stdlib-pre", 1) // style-dependent count: see safe.entries
	// list parsers: no item delivered with a field unread, no item state carried between iterations
	checkParserSeqRules(w, r, "nasType", func(fn *ssa.Function) bool {
		file := w.Fset.Position(fn.Pos()).Filename
		return !strings.HasSuffix(file, "qos_rule.go") && !strings.HasSuffix(file, "qos_flow_desc.go")
	})
	checkSerialiserLoops(w, r, "nasType", func(fn *ssa.Function) bool {
		file := w.Fset.Position(fn.Pos()).Filename
		if !strings.HasSuffix(file, "qos_rule.go") && !strings.HasSuffix(file, "qos_flow_desc.go") {
			return false
		}
		return fn.Name() == "MarshalBinary" || strings.HasPrefix(fn.Name(), "build")
	})
	r.Expect("seq.all-items", 1)
	checkComponentRoundTrip(w, r)
	checkQoSRuleRoundTrip(w, r)
	r.Expect("seq.must-read", 1)
	r.Expect("seq.fresh-elem", 1)
	// factories
	for _, fc := range []struct{ factory, idMethod, iface string; min int }{
		{"newPacketFilterComponent", "Type", "PacketFilterComponent", 18},
		{"newQoSFlowParameters", "Identifier", "QoSFlowParameter", 7},
	} {
		f := w.LookupFunc("nasType", fc.factory)
		if f == nil {
			r.Fail("anchor", "nasType."+fc.factory, "missing", token.NoPos, "factory not found", nil)
			continue
		}
		arms, nilDef := factoryArms(w.SSAFunc(f))
		if len(arms) < fc.min {
			// not written as `switch id { case K: return &T{} }` (a constructor table, say): decided by
			// evaluating the factory at each of the 256 identifier values
			if sa, sn, ok := factoryArmsSem(w, w.SSAFunc(f)); ok {
				arms, nilDef = sa, sn
				r.Note("%s: identifier → type map obtained by evaluating the factory at all 256 identifier values (not a switch over constants)", FuncName(f))
			}
		}
		fname := FuncName(f)
		r.Fn(fname)
		if !nilDef {
			r.Note("%s has no nil default arm", fname)
		}
		seen := map[int64]bool{}
		for _, a := range arms {
			r.Site("factory.agree." + fc.factory)
			key := fmt.Sprintf("%#02x", a.K)
			if seen[a.K] {
				r.Fail("factory.agree", fname, key, a.Pos, "identifier handled twice", nil)
			}
			seen[a.K] = true
			k, ok, _, _ := constMethodResult(w, a.T, fc.idMethod)
			if !ok || k != a.K {
				r.Fail("factory.agree", fname, key+" → "+a.T.Obj().Name(), a.Pos, fmt.Sprintf("factory returns %s for identifier %#02x but (*%s).%s() evaluates to %#02x (ok=%v): serialise and parse disagree on the identifier", a.T.Obj().Name(), a.K, a.T.Obj().Name(), fc.idMethod, k, ok), nil)
			} else {
				r.OK("factory.agree")
			}
			// Length() == len(MarshalBinary()) where constant
			if fc.idMethod == "Type" {
				l, okL, _, _ := constMethodResult(w, a.T, "Length")
				m, okM, _, _ := constMethodResult(w, a.T, "MarshalBinary")
				switch {
				case !okL:
					r.Fail("factory.agree", fname, key+" Length", a.Pos, "(*"+a.T.Obj().Name()+").Length() is not a compile-time constant", nil)
				case okM && m != l:
					r.Fail("factory.agree", fname, key+" Length vs Marshal", a.Pos, fmt.Sprintf("(*%s).Length() = %d but MarshalBinary() produces %d octets: the parser would mis-frame what the serialiser wrote", a.T.Obj().Name(), l, m), nil)
				case okM:
					r.OK("factory.agree")
					if len(r.Samples) < 12 {
						r.Sample(map[string]any{"rule": "factory.agree", "identifier": key, "type": a.T.Obj().Name(), "Length": l, "len(MarshalBinary)": m})
					}
				default:
					r.Note("%s: length of MarshalBinary() depends on field lengths (premise: well-formed value); Length() = %d", a.T.Obj().Name(), l)
				}
			}
		}
		r.Expect("factory.agree."+fc.factory, fc.min)
		// every implementation of the interface is reachable from the factory
		if tn, ok := w.Pkg("nasType").Types.Scope().Lookup(fc.iface).(*types.TypeName); ok {
			if it, ok := tn.Type().Underlying().(*types.Interface); ok {
				sc := w.Pkg("nasType").Types.Scope()
				for _, n := range sc.Names() {
					o, ok := sc.Lookup(n).(*types.TypeName)
					if !ok || types.IsInterface(o.Type()) {
						continue
					}
					if types.Implements(types.NewPointer(o.Type()), it) {
						found := false
						for _, a := range arms {
							if a.T.Obj() == o {
								found = true
							}
						}
						if !found {
							r.Fail("factory.agree", fname, "unreachable "+n, o.Pos(), "type "+n+" implements "+fc.iface+" but no factory arm creates it: values of this type serialise but never parse back", nil)
						} else {
							r.OK("factory.agree")
						}
					}
				}
			}
		}
	}
	serialiserRuns(w, r, "nasType", func(f *types.Func) bool {
		file := w.Fset.Position(f.Pos()).Filename
		if !strings.HasSuffix(file, "/qos_rule.go") && !strings.HasSuffix(file, "/qos_flow_desc.go") {
			return false
		}
		return f.Name() == "MarshalBinary" || strings.HasPrefix(f.Name(), "build")
	})
	lenFromContent(w, r, "nasType", func(name string) bool {
		return strings.Contains(name, "MarshalBinary") || strings.HasPrefix(name, "build")
	}, []string{"qos_rule.go", "qos_flow_desc.go"})
}

// lenFromContent: in the selected functions, a length written as uint8/uint16(len(X)) or
// uintN(B.Len()) must be followed (next write on the same buffer) by writing X / draining B.
func lenFromContent(w *World, r *Report, rel string, sel func(string) bool, files []string) {
	p := w.Pkg(rel)
	sp := w.SSA[p]
	if sp == nil {
		return
	}
	eff := NewEffects(w)
	for _, fn := range eff.AllRepoFunctions() {
		if fn.Pkg != sp || !sel(fn.Name()) {
			continue
		}
		file := w.Fset.Position(fn.Pos()).Filename
		okFile := false
		for _, f := range files {
			if strings.HasSuffix(file, "/"+f) {
				okFile = true
			}
		}
		if !okFile {
			continue
		}
		name := SSAFuncName(fn)
		// collect buffer writes in program order per block chain (dominance order by block index)
		type wr struct {
			buf  ssa.Value
			data ssa.Value
			call *ssa.Call
			kind string
		}
		var writes []wr
		for _, b := range fn.Blocks {
			for _, ins := range b.Instrs {
				c, ok := ins.(*ssa.Call)
				if !ok || c.Call.StaticCallee() == nil {
					continue
				}
				strip := func(v ssa.Value) ssa.Value {
					for {
						switch x := v.(type) {
						case *ssa.MakeInterface:
							v = x.X
						case *ssa.ChangeType:
							v = x.X
						default:
							return v
						}
					}
				}
				switch c.Call.StaticCallee().String() {
				case "encoding/binary.Write":
					writes = append(writes, wr{strip(c.Call.Args[0]), strip(c.Call.Args[2]), c, "write"})
				case "(*bytes.Buffer).Write":
					writes = append(writes, wr{strip(c.Call.Args[0]), strip(c.Call.Args[1]), c, "write"})
				case "(*bytes.Buffer).ReadFrom":
					writes = append(writes, wr{strip(c.Call.Args[0]), strip(c.Call.Args[1]), c, "readfrom"})
				}
			}
		}
		// does an integer value derive from a len()/Len() measurement? returns the measured values
		var lenRoots func(v ssa.Value, depth int) (roots []ssa.Value, exact bool)
		lenRoots = func(v ssa.Value, depth int) ([]ssa.Value, bool) {
			if depth > 6 {
				return nil, false
			}
			switch x := v.(type) {
			case *ssa.Convert:
				return lenRoots(x.X, depth+1)
			case *ssa.Call:
				if b, ok := x.Call.Value.(*ssa.Builtin); ok && b.Name() == "len" {
					return []ssa.Value{x.Call.Args[0]}, true
				}
				if f := x.Call.StaticCallee(); f != nil && f.String() == "(*bytes.Buffer).Len" {
					return []ssa.Value{x.Call.Args[0]}, true
				}
			case *ssa.BinOp:
				a, _ := lenRoots(x.X, depth+1)
				b, _ := lenRoots(x.Y, depth+1)
				return append(a, b...), false
			case *ssa.Phi:
				var all []ssa.Value
				for _, e := range x.Edges {
					r, _ := lenRoots(e, depth+1)
					all = append(all, r...)
				}
				return all, false
			}
			return nil, false
		}
		for i, y := range writes {
			// y writes a variable-length byte string
			isVar := y.kind == "readfrom"
			if sl, ok := y.data.Type().Underlying().(*types.Slice); ok && isBasic(sl.Elem(), types.Uint8) {
				isVar = true
			}
			if !isVar || i == 0 {
				continue
			}
			// previous write on the same buffer
			var x *wr
			for k := i - 1; k >= 0; k-- {
				if writes[k].buf == y.buf {
					x = &writes[k]
					break
				}
			}
			if x == nil {
				continue
			}
			if _, isInt := intRange(x.data.Type()); !isInt {
				continue
			}
			roots, exact := lenRoots(x.data, 0)
			if len(roots) == 0 {
				continue // not a length field
			}
			r.Site("seq.len-from-content")
			// a count field: number of elements of the collection the following bytes were built from
			isCount := !exact || roots[0] != y.data
			if isCount {
				var derives func(v ssa.Value, want string, depth int) bool
				derives = func(v ssa.Value, want string, depth int) bool {
					if depth > 5 {
						return false
					}
					switch d := v.(type) {
					case *ssa.Phi:
						for _, e := range d.Edges {
							if !derives(e, want, depth+1) {
								return false
							}
						}
						return len(d.Edges) > 0
					case *ssa.Extract:
						return derives(d.Tuple, want, depth+1)
					case *ssa.Call:
						for _, a := range d.Call.Args {
							if exprText(a) == want || exprText(a) == "&"+want {
								return true
							}
						}
					}
					return false
				}
				okCount := true
				for _, rt := range roots {
					sl, isSl := rt.Type().Underlying().(*types.Slice)
					if !isSl || isBasic(sl.Elem(), types.Uint8) || !derives(y.data, exprText(rt), 0) {
						okCount = false
					}
				}
				if okCount {
					r.OK("seq.count-from-content")
					r.Site("seq.count-from-content")
					continue
				}
			}
			if exact && len(roots) == 1 && roots[0] == y.data {
				r.OK("seq.len-from-content")
				if len(r.Samples) < 14 {
					r.Sample(map[string]any{"rule": "seq.len-from-content", "func": name, "length_of": exprText(y.data)})
				}
			} else {
				r.Fail("seq.len-from-content", name, "length before "+exprText(y.data), x.call.Pos(), "the length field written before "+exprText(y.data)+" is "+exprText(x.data)+", not exactly the length of the bytes that follow", nil)
			}
		}
	}
}

// scalarFields lists the integer fields of a struct type (embedded structs flattened) as access
// paths with their widths; ok is false when the type has a field of another kind.
func scalarFields(t types.Type, prefix string) (paths []string, widths []int, ok bool) {
	st, isSt := t.Underlying().(*types.Struct)
	if !isSt {
		return nil, nil, false
	}
	for i := 0; i < st.NumFields(); i++ {
		f := st.Field(i)
		p := prefix + "." + f.Name()
		if w, _, isInt := typeWidth(f.Type()); isInt {
			paths = append(paths, p)
			widths = append(widths, w)
			continue
		}
		if _, isStruct := f.Type().Underlying().(*types.Struct); isStruct {
			ps, ws, ok2 := scalarFields(f.Type(), p)
			if !ok2 {
				return nil, nil, false
			}
			paths = append(paths, ps...)
			widths = append(widths, ws...)
			continue
		}
		return nil, nil, false
	}
	return paths, widths, true
}

// addrField: an octet-string field of a component with its specified length.
type addrField struct {
	path string
	n    int
}

// addrFields: like scalarFields, but octet-string fields with a known name are allowed
// (Address / Mask: 4 octets, MAC: 6 octets).
func addrFields(t types.Type) (paths []string, widths []int, addrs []addrField, ok bool) {
	st, isSt := t.Underlying().(*types.Struct)
	if !isSt {
		return nil, nil, nil, false
	}
	known := map[string]int{"Address": 4, "Mask": 4, "MAC": 6}
	for i := 0; i < st.NumFields(); i++ {
		f := st.Field(i)
		if w, _, isInt := typeWidth(f.Type()); isInt {
			paths = append(paths, "."+f.Name())
			widths = append(widths, w)
			continue
		}
		if sl, isSl := f.Type().Underlying().(*types.Slice); isSl {
			if b, isB := sl.Elem().Underlying().(*types.Basic); isB && b.Kind() == types.Uint8 {
				if n, okN := known[f.Name()]; okN {
					addrs = append(addrs, addrField{"." + f.Name(), n})
					continue
				}
			}
		}
		return nil, nil, nil, false
	}
	return paths, widths, addrs, true
}

// checkComponentRoundTrip (comp.roundtrip): for every implementation of the two component
// interfaces whose fields are all integers, UnmarshalBinary(MarshalBinary(v)) == v for EVERY value
// v that MarshalBinary accepts: both methods are interpreted by E2 on symbolic fields, the
// parser's error must be nil and each field equal, decided by ROBDD under the premise "the
// serialiser returned no error".
func checkComponentRoundTrip(w *World, r *Report) {
	pkg := w.Pkg("nasType").Types
	sc := pkg.Scope()
	for _, ifn := range []string{"PacketFilterComponent", "QoSFlowParameter"} {
		tn, ok := sc.Lookup(ifn).(*types.TypeName)
		if !ok {
			continue
		}
		iface, ok := tn.Type().Underlying().(*types.Interface)
		if !ok {
			continue
		}
		for _, n := range sc.Names() {
			o, ok := sc.Lookup(n).(*types.TypeName)
			if !ok || types.IsInterface(o.Type()) || !types.Implements(types.NewPointer(o.Type()), iface) {
				continue
			}
			paths, widths, scalar := scalarFields(o.Type(), "")
			var addrs []addrField
			if !scalar {
				// address components: octet-string fields of the well-formed length (IPv4 address and
				// mask 4 octets each, MAC address 6: TS 24.501 9.11.4.13) beside integer fields
				var okA bool
				paths, widths, addrs, okA = addrFields(o.Type())
				if !okA {
					r.Note("comp.roundtrip: %s has fields that are neither integers nor known octet strings: not covered by this rule", n)
					continue
				}
			}
			fm := w.LookupFunc("nasType", n+".MarshalBinary")
			fu := w.LookupFunc("nasType", n+".UnmarshalBinary")
			if fm == nil || fu == nil {
				continue
			}
			r.Site("comp.roundtrip")
			name := "nasType." + n
			r.Fn(FuncName(fm))
			r.Fn(FuncName(fu))
			it := NewInterp(w)
			it.Fuel = 100000
			it.PreferNonNilSlice = true
			readerModels(it)
			st := it.NewState()
			a, ra := it.SymbolicObj("a")
			st.mem[a] = map[string]Value{}
			var orig []BV
			for i, p := range paths {
				v := it.SrcBV("a"+p, widths[i])
				st.mem[a][p] = v
				orig = append(orig, v)
			}
			var origA [][]BV
			for _, af := range addrs {
				ao := it.NewObj("a"+af.path, false)
				st.mem[ao] = map[string]Value{}
				var bs []BV
				for k := 0; k < af.n; k++ {
					v := it.SrcBV(fmt.Sprintf("a%s[%d]", af.path, k), 8)
					st.mem[ao][fmt.Sprintf("[%d]", k)] = v
					bs = append(bs, v)
				}
				st.mem[a][af.path] = SliceV{Obj: ao, Len: af.n}
				origA = append(origA, bs)
			}
			res := it.Call(w.SSAFunc(fm), []Value{ra}, st, 0)
			tv, ok := res.(TupleV)
			var n1 *Node
			var out SliceV
			if ok && len(tv) == 2 {
				out, ok = tv[0].(SliceV)
				if ok {
					n1, ok = it.errNil(tv[1])
				}
			}
			if !ok || len(it.Unsup) > 0 {
				r.Fail("comp.roundtrip", name, "serialiser undecided", fm.Pos(), fmt.Sprintf("MarshalBinary is outside the modelled fragment: %v", it.Unsup), nil)
				continue
			}
			if out.Nil || out.Len < 0 {
				// the accepting path returns the octets; a nil slice only comes with an error
				r.Fail("comp.roundtrip", name, "serialiser output", fm.Pos(), "the serialised octets have no fixed length", nil)
				continue
			}
			// comp.accepts: the serialiser must not refuse a well-formed value.  Where the specification
			// gives the range (TS 24.501 9.11.4.13: a port range has low limit <= high limit, a flow label
			// is 20 bits) that range must be accepted, for all values in it.
			{
				field := func(name string) (BV, bool) {
					for i, p := range paths {
						if p == "."+name {
							return orig[i], true
						}
					}
					return BV{}, false
				}
				var wellFormed *Node
				what := ""
				if lo, ok1 := field("LowLimit"); ok1 {
					if hi, ok2 := field("HighLimit"); ok2 {
						wellFormed, what = it.T.Not(it.ult(hi, lo)), "a port range with low limit <= high limit (equal limits included)"
					}
				}
				if lb, okL := field("Label"); okL && strings.Contains(n, "FlowLabel") {
					wellFormed, what = it.ult(lb, it.constBV(1<<20, lb.W)), "a flow label below 2^20 (the field is 20 bits wide)"
				}
				if wellFormed != nil {
					r.Site("comp.accepts")
					bad := it.T.And(wellFormed, it.T.Not(n1))
					if it.Premise != nil {
						bad = it.T.And(it.Premise, bad)
					}
					if it.T.Equiv(bad, it.T.zero) {
						r.OK("comp.accepts")
					} else {
						r.Fail("comp.accepts", name, "well-formed value refused", fm.Pos(), "MarshalBinary returns an error for "+what, nil)
					}
				}
			}
			it.AndPremise(n1)
			b, rb := it.SymbolicObj("b")
			st.mem[b] = map[string]Value{}
			res2 := it.Call(w.SSAFunc(fu), []Value{rb, out}, st, 0)
			n2, ok := it.errNil(res2)
			if !ok || len(it.Unsup) > 0 {
				r.Fail("comp.roundtrip", name, "parser undecided", fu.Pos(), fmt.Sprintf("UnmarshalBinary is outside the modelled fragment: %v", it.Unsup), nil)
				continue
			}
			good, why := true, ""
			if !underPremiseZero(it, it.T.Not(n2)) {
				good, why = false, "the parser rejects octets the serialiser produced without error"
			}
			for i, p := range paths {
				if !good {
					break
				}
				got, isBV := st.mem[b][p].(BV)
				if !isBV {
					got, isBV = it.load(st, Ptr{Obj: b, Path: p}, nil).(BV)
				}
				if !isBV || got.W != orig[i].W || !underPremiseZero(it, neqBV(it, got, orig[i])) {
					good, why = false, "field "+strings.TrimPrefix(p, ".")+" does not come back with the value that was serialised, for some value the serialiser accepts"
				}
			}
			for i, af := range addrs {
				if !good {
					break
				}
				sl, isSl := it.load(st, Ptr{Obj: b, Path: af.path}, types.NewSlice(u8T)).(SliceV)
				if !isSl || sl.Nil || sl.Len != af.n {
					good, why = false, fmt.Sprintf("field %s does not come back as the %d octets that were serialised", strings.TrimPrefix(af.path, "."), af.n)
					break
				}
				for k := 0; k < af.n; k++ {
					got, isBV := it.load(st, it.sliceElemPtr(sl, k), u8T).(BV)
					if !isBV || got.W != 8 || !underPremiseZero(it, neqBV(it, got, origA[i][k])) {
						good, why = false, fmt.Sprintf("octet %d of field %s does not come back with the value that was serialised", k, strings.TrimPrefix(af.path, "."))
						break
					}
				}
			}
			if good && len(addrs) > 0 && !underPremiseZero(it, it.T.Not(n1)) {
				good, why = false, "the serialiser rejects a component whose octet strings have the specified lengths"
			}
			if good {
				r.OK("comp.roundtrip")
			} else {
				r.Fail("comp.roundtrip", name, "Unmarshal(Marshal(v)) == v", fm.Pos(), why, nil)
			}
		}
	}
	r.Expect("comp.roundtrip", 16)
}

// checkQoSRuleRoundTrip (rule.roundtrip): QoSRules.MarshalBinary followed by UnmarshalBinary,
// evaluated (E2) on a one-rule list for each operation code 1..6 and 0 or 2 packet filters (no
// components), returns the rule that was serialised: identifier, operation, DQR, precedence,
// segregation, QFI (6 bits), the number of packet filters and each filter's identifier (4 bits)
// and — except for the delete-filters operation, which carries identifiers only — direction
// (2 bits), for all values of those fields.  A count octet that does not describe what follows
// it, a filter list dropped for some operation, or a field packed into the wrong bits breaks it.
func checkQoSRuleRoundTrip(w *World, r *Report) {
	fm := w.LookupFunc("nasType", "QoSRules.MarshalBinary")
	fu := w.LookupFunc("nasType", "QoSRules.UnmarshalBinary")
	if fm == nil || fu == nil {
		r.Fail("anchor", "nasType.QoSRules", "MarshalBinary/UnmarshalBinary", token.NoPos, "serialiser or parser not found", nil)
		return
	}
	r.Fn(FuncName(fm))
	r.Fn(FuncName(fu))
	zext := func(it *Interp, name string, bits, w int) BV {
		v := it.SrcBV(name, bits)
		out := BV{W: w, B: make([]*Node, w)}
		for i := 0; i < w; i++ {
			if i < bits {
				out.B[i] = v.B[i]
			} else {
				out.B[i] = it.T.Const(false)
			}
		}
		return out
	}
	for op := 1; op <= 6; op++ {
		nfs := []int{0, 2}
		if op == 1 {
			nfs = append(nfs, 15) // the largest count the four-bit field holds
		}
		for _, nf := range nfs {
			r.Site("rule.roundtrip")
			what := fmt.Sprintf("operation %d, %d packet filters", op, nf)
			it := NewInterp(w)
			it.Fuel = 200000
			it.PreferNonNilSlice = true
			it.CheckBounds = true
			readerModels(it)
			st := it.NewState()
			seedIOErrors(it, st)
			// the list object: *QoSRules -> slice of one rule
			lo := it.NewObj("rules", false)
			ro := it.NewObj("rule", false)
			fo := it.NewObj("filters", false)
			st.mem[fo] = map[string]Value{}
			type filt struct{ id, dir BV }
			var fs []filt
			for k := 0; k < nf; k++ {
				f := filt{id: zext(it, fmt.Sprintf("f%d.id", k), 4, 8), dir: zext(it, fmt.Sprintf("f%d.dir", k), 2, 8)}
				fs = append(fs, f)
				co := it.NewObj(fmt.Sprintf("f%d.components", k), false)
				st.mem[co] = map[string]Value{}
				st.mem[fo][fmt.Sprintf("[%d].Identifier", k)] = f.id
				st.mem[fo][fmt.Sprintf("[%d].Direction", k)] = f.dir
				st.mem[fo][fmt.Sprintf("[%d].Components", k)] = SliceV{Obj: co, Len: 0}
			}
			want := map[string]BV{
				".Identifier": it.SrcBV("rule.id", 8),
				".Operation":  it.constBV(uint64(op), 8),
				".DQR":        it.SrcBV("rule.dqr", 1),
				".Precedence": it.SrcBV("rule.prec", 8),
				".Segregation": it.SrcBV("rule.seg", 1),
				".QFI":        zext(it, "rule.qfi", 6, 8),
			}
			st.mem[ro] = map[string]Value{}
			for k, v := range want {
				st.mem[ro]["[0]"+k] = v
			}
			st.mem[ro]["[0].PacketFilterList"] = SliceV{Obj: fo, Len: nf}
			st.mem[lo] = map[string]Value{"": SliceV{Obj: ro, Len: 1}}
			res := it.Call(w.SSAFunc(fm), []Value{Ptr{Obj: lo}}, st, 0)
			tv, isT := res.(TupleV)
			good, why := true, ""
			var out SliceV
			if len(it.Unsup) > 0 || !isT || len(tv) != 2 {
				good, why = false, fmt.Sprintf("undecided (serialiser): %v", it.Unsup)
			} else {
				var okS bool
				out, okS = tv[0].(SliceV)
				n1, okE := it.errNil(tv[1])
				if !okS || !okE || out.Nil || out.Len < 0 {
					good, why = false, "the serialised octets have no fixed length"
				} else if n1 != it.T.one {
					good, why = false, "the serialiser returns an error for a well-formed rule"
				}
			}
			var po *MemObj
			if good {
				po = it.NewObj("parsed", false)
				st.mem[po] = map[string]Value{"": SliceV{Nil: true, Len: 0}}
				res2 := it.Call(w.SSAFunc(fu), []Value{Ptr{Obj: po}, out}, st, 0)
				n2, okE := it.errNil(res2)
				switch {
				case len(it.Unsup) > 0 || !okE:
					good, why = false, fmt.Sprintf("undecided (parser): %v", it.Unsup)
					for _, u := range it.Unsup {
						if strings.Contains(u, "(*bytes.Buffer).Next") {
							why += " — the parser takes a length or count from an octet that holds a field value: a count or length the serialiser wrote does not describe what follows it"
							break
						}
					}
				case n2 != it.T.one:
					good, why = false, "the parser rejects (for some field values) the octets the serialiser produced: error is nil iff "+n2.Short(4)
				}
			}
			if good {
				pl, isSl := st.mem[po][""].(SliceV)
				if !isSl || pl.Nil || pl.Len != 1 {
					n := 0
					if isSl && !pl.Nil {
						n = pl.Len
					}
					good, why = false, fmt.Sprintf("%d rules come back, 1 was serialised", n)
				} else {
					base := it.sliceElemPtr(pl, 0)
					for _, k := range []string{".Identifier", ".Operation", ".DQR", ".Precedence", ".Segregation", ".QFI"} {
						t := types.Type(u8T)
						if want[k].W == 1 {
							t = types.Typ[types.Bool]
						}
						got := it.load(st, Ptr{Obj: base.Obj, Path: base.Path + k}, t)
						if same, m := sameBV(it, got, want[k]); !same {
							good, why = false, "field "+strings.TrimPrefix(k, ".")+" does not come back as serialised: "+m
							break
						}
					}
					if good {
						fl, isF := it.load(st, Ptr{Obj: base.Obj, Path: base.Path + ".PacketFilterList"}, types.NewSlice(u8T)).(SliceV)
						n := 0
						if isF && !fl.Nil {
							n = fl.Len
						}
						if !isF || n != nf {
							good, why = false, fmt.Sprintf("%d packet filters come back, %d were serialised", n, nf)
						}
						for k := 0; good && k < nf; k++ {
							ep := it.sliceElemPtr(fl, k)
							gid := it.load(st, Ptr{Obj: ep.Obj, Path: ep.Path + ".Identifier"}, u8T)
							if same, m := sameBV(it, gid, fs[k].id); !same {
								good, why = false, fmt.Sprintf("packet filter %d identifier does not come back: %s", k, m)
							}
							if good && op != 5 {
								gd := it.load(st, Ptr{Obj: ep.Obj, Path: ep.Path + ".Direction"}, u8T)
								if same, m := sameBV(it, gd, fs[k].dir); !same {
									good, why = false, fmt.Sprintf("packet filter %d direction does not come back: %s", k, m)
								}
							}
						}
					}
				}
			}
			if good {
				r.OK("rule.roundtrip")
			} else {
				r.Fail("rule.roundtrip", FuncName(fm), what, fm.Pos(), "Unmarshal(Marshal(rule)) is not the rule ("+what+"): "+why, nil)
			}
		}
	}
	r.Expect("rule.roundtrip", 13)
}


// factoryArmsSem evaluates a factory func(id uint8-like) Iface (E2, package initialiser values for
// lookup tables) at every identifier 0..255: the dynamic type of the value it returns, or nil.
func factoryArmsSem(w *World, fn *ssa.Function) (arms []factoryArm, nilDefault bool, ok bool) {
	if fn == nil || len(fn.Params) != 1 {
		return nil, false, false
	}
	wd, _, isInt := typeWidth(fn.Params[0].Type())
	if !isInt {
		return nil, false, false
	}
	for id := 0; id < 256; id++ {
		it := NewInterp(w)
		it.UseInitValues = true
		st := it.NewState()
		it.LastIfaceType = nil
		res := it.Call(fn, []Value{it.constBV(uint64(id), wd)}, st, 0)
		if len(it.Unsup) > 0 {
			return nil, false, false
		}
		switch v := res.(type) {
		case NilV:
			nilDefault = true
		case Ptr:
			_ = v
			pt, isP := it.LastIfaceType.(*types.Pointer)
			if !isP {
				return nil, false, false
			}
			nt, isN := pt.Elem().(*types.Named)
			if !isN {
				return nil, false, false
			}
			arms = append(arms, factoryArm{K: int64(id), T: nt, Pos: fn.Pos()})
		default:
			return nil, false, false
		}
	}
	return arms, nilDefault, true
}
