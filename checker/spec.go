package main

// Frozen oracles under /verif/spec and the `freeze` sub-command that seeds them.

import (
	"encoding/json"
	"fmt"
	"go/ast"
	"go/constant"
	"go/parser"
	"go/token"
	"go/types"
	"os"
	"path/filepath"
	"sort"
	"strconv"
	"strings"
)

type SpecSlot struct {
	IE       string `json:"ie"`       // field name in the message
	Type     string `json:"type"`     // nasType name
	Presence string `json:"presence"` // M | O
	Format   string `json:"format"`   // V | LV | LV-E | TV1 (half-octet) | TV | TLV | TLV-E
	IEI      string `json:"iei,omitempty"`
	Min      int    `json:"min"`           // content octets (value part)
	Max      int    `json:"max"`
	Lens     string `json:"lens,omitempty"` // accepted set when it is not an interval, e.g. "7,11,15"
	Source   string `json:"source,omitempty"`
}

type SpecMessage struct {
	Name    string     `json:"name"`
	Family  string     `json:"family"` // gmm | gsm | envelope
	MsgType string     `json:"msg_type,omitempty"`
	Slots   []SpecSlot `json:"slots"`
}

type SpecMessages struct {
	Provenance string        `json:"provenance"`
	Messages   []SpecMessage `json:"messages"`
}

func specPath(name string) string { return filepath.Join(verifDir, "spec", name) }

func loadSpecMessages() (*SpecMessages, error) {
	b, err := os.ReadFile(specPath("ts24501_messages.json"))
	if err != nil {
		return nil, err
	}
	var s SpecMessages
	if err := json.Unmarshal(b, &s); err != nil {
		return nil, err
	}
	return &s, nil
}

func (s SpecSlot) LenSet() LenSet {
	if s.Lens != "" {
		var ls LenSet
		for _, p := range strings.Split(s.Lens, ",") {
			p = strings.TrimSpace(p)
			if i := strings.Index(p, ".."); i >= 0 {
				a, _ := strconv.Atoi(p[:i])
				b, _ := strconv.Atoi(p[i+2:])
				ls.Iv = append(ls.Iv, [2]int{a, b})
			} else {
				a, _ := strconv.Atoi(p)
				ls.Iv = append(ls.Iv, [2]int{a, a})
			}
		}
		return ls
	}
	return LenSet{Iv: [][2]int{{s.Min, s.Max}}}
}

// canonicalItemOrder: within one element the identifier comes first, then the length, then the
// value octets (TS 24.007 11.2.1.1); each of T and L at most once.
func canonicalItemOrder(items []WireItem) bool {
	stage := 0 // 0: nothing yet, 1: T seen, 2: L seen, 3: value octets
	for _, it := range items {
		switch it.Ext {
		case "iei":
			if stage != 0 {
				return false
			}
			stage = 1
		case "len8", "len16":
			if stage >= 2 {
				return false
			}
			stage = 2
		default:
			if it.Kind == "V" {
				stage = 3
			}
		}
	}
	return true
}

// slotFormat derives the wire format of a decoder slot.
func decFormat(sl *DecSlot, optional bool) string {
	if !canonicalItemOrder(sl.Items) {
		return "items out of order (" + itemsSig(sl.Items) + ")"
	}
	hasL8, hasL16, hasV := false, false, false
	for _, it := range sl.Items {
		switch it.Ext {
		case "len8":
			hasL8 = true
		case "len16":
			hasL16 = true
		default:
			if it.Kind == "V" {
				hasV = true
			}
		}
	}
	switch {
	case optional && sl.StoreOctet && !hasV && !hasL8 && !hasL16:
		return "TV1"
	case optional && hasL16:
		return "TLV-E"
	case optional && hasL8:
		return "TLV"
	case optional && hasV:
		return "TV"
	case optional:
		return "T"
	case hasL16:
		return "LV-E"
	case hasL8:
		return "LV"
	}
	return "V"
}

func encFormat(sl *EncSlot) string {
	if !canonicalItemOrder(sl.Items) {
		return "items out of order (" + itemsSig(sl.Items) + ")"
	}
	hasT, hasL8, hasL16, hasV := false, false, false, false
	for _, it := range sl.Items {
		switch it.Ext {
		case "iei":
			hasT = true
		case "len8":
			hasL8 = true
		case "len16":
			hasL16 = true
		default:
			if it.Kind == "V" {
				hasV = true
			}
		}
	}
	switch {
	case sl.Optional && !hasT && hasV && !hasL8 && !hasL16:
		return "TV1"
	case sl.Optional && hasT && hasL16:
		return "TLV-E"
	case sl.Optional && hasT && hasL8:
		return "TLV"
	case sl.Optional && hasT && hasV:
		return "TV"
	case sl.Optional && hasT:
		return "T"
	case !sl.Optional && hasL16 && !hasT:
		return "LV-E"
	case !sl.Optional && hasL8 && !hasT:
		return "LV"
	case !sl.Optional && hasV && !hasT:
		return "V"
	}
	return "?"
}

// valueWidth: fixed width of the value part of a slot (or -1)
func valueWidth(items []WireItem) int {
	for _, it := range items {
		if it.Kind == "V" {
			return it.Width
		}
	}
	return 0
}

func lenWidthOf(items []WireItem) int {
	for _, it := range items {
		if it.Kind == "L" {
			return it.Width
		}
	}
	return 0
}

// msgTypeTable evaluates the MsgType<Name> constants of package nas.
func msgTypeTable(w *World) map[string]int64 {
	out := map[string]int64{}
	sc := w.Pkg("").Types.Scope()
	for _, n := range sc.Names() {
		if c, ok := sc.Lookup(n).(*types.Const); ok && strings.HasPrefix(n, "MsgType") {
			if v, ok := constant.Int64Val(constant.ToInt(c.Val())); ok {
				out[strings.TrimPrefix(n, "MsgType")] = v
			}
		}
	}
	return out
}

// codeMessages derives the table from the current code (used by freeze and compared by C04).
func codeMessages(w *World, cs *CodecSet) []SpecMessage {
	mt := msgTypeTable(w)
	fam := familyOf(w)
	var out []SpecMessage
	for _, c := range cs.Codecs {
		m := SpecMessage{Name: c.Name, Family: fam[c.Name]}
		if v, ok := mt[c.Name]; ok {
			m.MsgType = fmt.Sprintf("0x%02X", v)
		}
		add := func(sl *DecSlot, optional bool, iei int64) {
			f := c.Field(sl.IE)
			s := SpecSlot{IE: sl.IE, Presence: "M", Format: decFormat(sl, optional)}
			if f != nil && f.Desc != nil {
				s.Type = f.Desc.Name
			}
			if optional {
				s.Presence = "O"
				if s.Format == "TV1" {
					s.IEI = fmt.Sprintf("0x%X-", iei)
				} else {
					s.IEI = fmt.Sprintf("0x%02X", iei)
				}
			}
			if sl.Guard != nil {
				s.Min, s.Max = sl.Guard.Min(), sl.Guard.Max()
				if len(sl.Guard.Iv) != 1 {
					s.Lens = sl.Guard.String()
				}
			} else if lw := lenWidthOf(sl.Items); lw > 0 {
				// no guard at all: every value of the length field is accepted
				s.Min, s.Max = 0, 255
				if lw == 2 {
					s.Max = 65535
				}
			} else {
				wd := valueWidth(sl.Items)
				if s.Format == "TV1" {
					wd = 0
				}
				s.Min, s.Max = wd, wd
			}
			m.Slots = append(m.Slots, s)
		}
		for i := range c.DecMand {
			add(&c.DecMand[i], false, 0)
		}
		if c.DecLoop != nil {
			// order optional slots by struct field order (= table order)
			idx := map[string]int{}
			for i, f := range c.Fields {
				idx[f.IE] = i
			}
			cases := append([]DecCase(nil), c.DecLoop.Cases...)
			sort.SliceStable(cases, func(i, j int) bool { return idx[cases[i].Slot.IE] < idx[cases[j].Slot.IE] })
			for i := range cases {
				iei := int64(-1)
				if len(cases[i].Consts) == 1 {
					iei = cases[i].Consts[0]
				}
				add(&cases[i].Slot, true, iei)
			}
		}
		out = append(out, m)
	}
	return out
}

// familyOf: which family struct (GmmMessage / GsmMessage) embeds *nasMessage.<Name>.
func familyOf(w *World) map[string]string {
	out := map[string]string{}
	sc := w.Pkg("").Types.Scope()
	for fam, tn := range map[string]string{"gmm": "GmmMessage", "gsm": "GsmMessage"} {
		o, _ := sc.Lookup(tn).(*types.TypeName)
		if o == nil {
			continue
		}
		st, _ := o.Type().Underlying().(*types.Struct)
		if st == nil {
			continue
		}
		for i := 0; i < st.NumFields(); i++ {
			f := st.Field(i)
			if p, ok := f.Type().(*types.Pointer); ok {
				if nt, ok := p.Elem().(*types.Named); ok && nt.Obj().Pkg() != nil && nt.Obj().Pkg().Name() == "nasMessage" {
					out[nt.Obj().Name()] = fam
				}
			}
		}
	}
	return out
}

// ---------------------------------------------------------------------------------------------
// Fixture reading (static parse of nas_generated_test.go: names, Iei and Len literals only;
// no library code is executed).

type FixtureIE struct {
	Msg  string
	Kind string // Max | Min
	IE   string
	Iei  int64
	Len  int64
	HasI bool
	HasL bool
}

func readFixtures() ([]FixtureIE, error) {
	fset := token.NewFileSet()
	f, err := parser.ParseFile(fset, filepath.Join(repoDir, "nas_generated_test.go"), nil, 0)
	if err != nil {
		return nil, err
	}
	var out []FixtureIE
	ast.Inspect(f, func(n ast.Node) bool {
		cl, ok := n.(*ast.CompositeLit)
		if !ok {
			return true
		}
		// test entry: {name: "MaxX", want: Message{...}}
		var name string
		var want ast.Expr
		for _, e := range cl.Elts {
			kv, ok := e.(*ast.KeyValueExpr)
			if !ok {
				return true
			}
			k, _ := kv.Key.(*ast.Ident)
			if k == nil {
				return true
			}
			if k.Name == "name" {
				if bl, ok := kv.Value.(*ast.BasicLit); ok {
					name, _ = strconv.Unquote(bl.Value)
				}
			}
			if k.Name == "want" {
				want = kv.Value
			}
		}
		if name == "" || want == nil {
			return true
		}
		kind := ""
		for _, k := range []string{"Max", "Min"} {
			if strings.HasPrefix(name, k) {
				kind = k
			}
		}
		if kind == "" {
			return false
		}
		msg := strings.TrimPrefix(name, kind)
		// find the message body literal: a KeyValue whose key == msg
		ast.Inspect(want, func(n ast.Node) bool {
			kv, ok := n.(*ast.KeyValueExpr)
			if !ok {
				return true
			}
			k, _ := kv.Key.(*ast.Ident)
			if k == nil || k.Name != msg {
				return true
			}
			body := kv.Value
			if u, ok := body.(*ast.UnaryExpr); ok {
				body = u.X
			}
			bl, ok := body.(*ast.CompositeLit)
			if !ok {
				return false
			}
			for _, e := range bl.Elts {
				ie, ok := e.(*ast.KeyValueExpr)
				if !ok {
					continue
				}
				ik, _ := ie.Key.(*ast.Ident)
				v := ie.Value
				if u, ok := v.(*ast.UnaryExpr); ok {
					v = u.X
				}
				il, ok := v.(*ast.CompositeLit)
				if ik == nil || !ok {
					continue
				}
				fx := FixtureIE{Msg: msg, Kind: kind, IE: ik.Name}
				for _, fe := range il.Elts {
					fkv, ok := fe.(*ast.KeyValueExpr)
					if !ok {
						continue
					}
					fk, _ := fkv.Key.(*ast.Ident)
					lit, _ := fkv.Value.(*ast.BasicLit)
					if fk == nil || lit == nil || lit.Kind != token.INT {
						continue
					}
					val, err := strconv.ParseInt(lit.Value, 0, 64)
					if err != nil {
						continue
					}
					switch fk.Name {
					case "Iei":
						fx.Iei, fx.HasI = val, true
					case "Len":
						fx.Len, fx.HasL = val, true
					}
				}
				out = append(out, fx)
			}
			return false
		})
		return false
	})
	return out, nil
}

// crossValidateFixtures compares a message table with the fixtures; returns disagreement lines.
func crossValidateFixtures(msgs []SpecMessage, fx []FixtureIE) (agree int, dis []string) {
	idx := map[string]*SpecSlot{}
	for i := range msgs {
		for j := range msgs[i].Slots {
			idx[msgs[i].Name+"/"+msgs[i].Slots[j].IE] = &msgs[i].Slots[j]
		}
	}
	for _, f := range fx {
		s := idx[f.Msg+"/"+f.IE]
		if s == nil {
			dis = append(dis, fmt.Sprintf("%s/%s: in fixture %s but not in table", f.Msg, f.IE, f.Kind))
			continue
		}
		if f.HasI && s.Presence == "O" && s.Format != "TV1" {
			want, _ := strconv.ParseInt(strings.TrimPrefix(s.IEI, "0x"), 16, 64)
			if want != f.Iei {
				dis = append(dis, fmt.Sprintf("%s/%s: fixture IEI %#x, table %s", f.Msg, f.IE, f.Iei, s.IEI))
			} else {
				agree++
			}
		}
		if f.HasL {
			ls := s.LenSet()
			want := ls.Max()
			if f.Kind == "Min" {
				want = ls.Min()
			}
			if int64(want) != f.Len {
				dis = append(dis, fmt.Sprintf("%s/%s: fixture %s Len %d, table %s=%d", f.Msg, f.IE, f.Kind, f.Len, strings.ToLower(f.Kind), want))
			} else {
				agree++
			}
		}
	}
	sort.Strings(dis)
	return
}

func cmdFreeze(args []string) {
	if len(args) < 1 {
		fmt.Fprintln(os.Stderr, "freeze messages|layout|fixture-diff")
		os.Exit(2)
	}
	w, err := LoadWorld("", nil)
	if err != nil {
		fmt.Fprintln(os.Stderr, err)
		os.Exit(2)
	}
	switch args[0] {
	case "messages":
		cs := ExtractCodecs(w)
		doc := SpecMessages{
			Provenance: "extracted from the generated codecs at the pinned commit by E1, then reconciled by hand with the generated fixtures (nas_generated_test.go) and TS 24.501 v15 8.2/8.3; see DESIGN.md C04",
			Messages:   codeMessages(w, cs),
		}
		b, _ := json.MarshalIndent(doc, "", " ")
		fmt.Println(string(b))
	case "tables":
		// ZUC S-boxes: frozen from the tree after validating that each is a permutation of
		// 0..255 with the corner values of the ZUC specification (S0: 3E 72 … 60, S1: 55 C2 … F2).
		out := map[string][]uint64{}
		for _, t := range []struct{ key, name string; first, second, last uint64 }{{"zuc.S0", "sbox0", 0x3E, 0x72, 0x60}, {"zuc.S1", "sbox1", 0x55, 0xC2, 0xF2}} {
			v, _, ok := constTable(w, "security/zuc", t.name)
			seen := map[uint64]bool{}
			for _, x := range v {
				seen[x] = true
			}
			if !ok || len(v) != 256 || len(seen) != 256 || v[0] != t.first || v[1] != t.second || v[255] != t.last {
				fmt.Fprintln(os.Stderr, "table", t.name, "fails validation; not frozen")
				os.Exit(2)
			}
			out[t.key] = v
		}
		b, _ := json.MarshalIndent(map[string]any{
			"provenance": "ZUC specification v1.6 section 3.4.1 tables S0 and S1; frozen from security/zuc at the pinned commit after validating bijectivity and the corner entries, cross-checked by the published EEA3/EIA3 test vectors in the repository's tests",
			"tables":     out}, "", " ")
		fmt.Println(string(b))
	case "fixture-diff":
		cs := ExtractCodecs(w)
		fx, err := readFixtures()
		if err != nil {
			fmt.Fprintln(os.Stderr, err)
			os.Exit(2)
		}
		msgs := codeMessages(w, cs)
		if len(args) > 1 && args[1] == "spec" {
			s, err := loadSpecMessages()
			if err != nil {
				fmt.Fprintln(os.Stderr, err)
				os.Exit(2)
			}
			msgs = s.Messages
		}
		agree, dis := crossValidateFixtures(msgs, fx)
		fmt.Println("fixture IEs:", len(fx), "agreeing values:", agree, "disagreements:", len(dis))
		for _, d := range dis {
			fmt.Println("  ", d)
		}
	case "layout":
		freezeLayout(w)
	default:
		fmt.Fprintln(os.Stderr, "unknown freeze target")
		os.Exit(2)
	}
}
