package main

func init() {
	const p = "nasConvert/ProtocolConfigurationOptions.go"
	addMutants(
		Mutant{Name: "c16-psi-bit-order", Prop: "C16", File: "nasConvert/PSI.go", Old: "if (buf[i/8] & (1 << (i % 8))) > 0 {", New: "if (buf[i/8] & (0x80 >> (i % 8))) > 0 {",
			Expect: "bits.psi / nasConvert.PSIToBooleanArray", Why: "bits taken most-significant first"},
		Mutant{Name: "c16-psi-octet-order", Prop: "C16", File: "nasConvert/PSI.go", Old: "\t\t\tbuf[i/8] |= (1 << (i % 8))", New: "\t\t\tbuf[1-i/8] |= (1 << (i % 8))",
			Expect: "bits.psi / nasConvert.PSIToBuf", Why: "octets swapped"},
		Mutant{Name: "c16-psi-guard", Prop: "C16", File: "nasConvert/PSI.go", Old: "\tif len(buf) < 2 {", New: "\tif len(buf) < 1 {",
			Expect: "safe.index / nasConvert.PSIToBooleanArray", Why: "one-octet status indexes octet 1"},
		Mutant{Name: "c16-pco-first-octet", Prop: "C16", File: p, Old: "\tvar extension uint8 = 1\n", New: "\tvar extension uint8 = 0\n",
			Expect: "pco.first-octet", Why: "extension bit not set: first octet 0x00"},
		Mutant{Name: "c16-pco-order", Prop: "C16", File: p, Old: "\t\tif err := binary.Write(buffer, binary.BigEndian, &containerUnit.ProtocolOrContainerID); err != nil {\n\t\t\tlogger.ConvertLog.Warnf(\"Write protocolOrContainerID failed: %+v\", err)\n\t\t}\n\t\tif err := binary.Write(buffer, binary.BigEndian, &containerUnit.LengthOfContents); err != nil {\n\t\t\tlogger.ConvertLog.Warnf(\"Write length of contents failed: %+v\", err)\n\t\t}\n",
			New:    "\t\tif err := binary.Write(buffer, binary.BigEndian, &containerUnit.LengthOfContents); err != nil {\n\t\t\tlogger.ConvertLog.Warnf(\"Write length of contents failed: %+v\", err)\n\t\t}\n\t\tif err := binary.Write(buffer, binary.BigEndian, &containerUnit.ProtocolOrContainerID); err != nil {\n\t\t\tlogger.ConvertLog.Warnf(\"Write protocolOrContainerID failed: %+v\", err)\n\t\t}\n",
			Expect: "seq.dual", Why: "length written before the identifier"},
		Mutant{Name: "c16-pco-nil-container", Prop: "C16", File: p, Old: "\treadingState := ReadingID\n", New: "\treadingState := ReadingLength\n",
			Expect: "safe.nil / nasConvert.(*ProtocolConfigurationOptions).UnMarshal", Why: "reader starts in the length state with no container allocated"},
		Mutant{Name: "c16-pco-no-progress", Prop: "C16", File: p, Old: "\t\t\tnumOfBytes = numOfBytes - int(curContainer.LengthOfContents)\n\t\t\treadingState = ReadingID\n", New: "\t\t\tnumOfBytes = numOfBytes - int(curContainer.LengthOfContents)\n\t\t\treadingState = ReadingContent\n",
			Expect: "safe.loop / nasConvert.(*ProtocolConfigurationOptions).UnMarshal", Why: "the content state never leaves: a zero-length unit spins forever without consuming input"},
		Mutant{Name: "c16-pco-contents-prefill", Prop: "C16", File: p, Old: "\t\t\t\tcurContainer.Contents = make([]uint8, curContainer.LengthOfContents)\n", New: "\t\t\t\tcurContainer.Contents = make([]uint8, curContainer.LengthOfContents)\n\t\t\t\tcopy(curContainer.Contents, \"unset\")\n",
			Expect: "prov.contents", Why: "contents pre-filled with bytes that are not in the input"},
		Mutant{Name: "c16-pco-shared-scratch", Prop: "C16", File: p, Old: "\tbuffer := new(bytes.Buffer)\n", New: "\tbuffer := &pcoScratch\n\tbuffer.Reset()\n", Also: [][2]string{{"func (protocolConfigurationOptions *ProtocolConfigurationOptions) Marshal() []byte {", "var pcoScratch bytes.Buffer\n\nfunc (protocolConfigurationOptions *ProtocolConfigurationOptions) Marshal() []byte {"}},
			Expect: "pco.fresh-result", Why: "result aliases a package-level scratch buffer: the next Marshal overwrites an earlier result"},
		Mutant{Name: "c16-keep-psi-shift-form", Prop: "C16", File: "nasConvert/PSI.go", Old: "if (buf[i/8] & (1 << (i % 8))) > 0 {", New: "if (buf[i>>3]>>(i&7))&1 != 0 {", Keep: true, Why: "same bit, different arithmetic"},
	)
}
