package main

func init() {
	const qr = "nasType/qos_rule.go"
	const qf = "nasType/qos_flow_desc.go"
	addMutants(
		Mutant{Name: "c15-param-nil-regression", Prop: "C15", File: qf, Old: "\t\tif parameter == nil {\n\t\t\treturn nil, errors.New(\"QoS flow parameter identifier unknown\")\n\t\t}\n", New: "\t\t_ = errors.New\n",
			Expect: "safe.nil / nasType.parseQoSFlowParameterList", Why: "unknown parameter identifier: method call on a nil interface"},
		Mutant{Name: "c15-component-nil", Prop: "C15", File: qr, Old: "\t\tif component == nil {\n\t\t\treturn errors.New(\"packet filter component type unknown\")\n\t\t}\n", New: "",
			Expect: "safe.nil / nasType.(*PacketFilterComponentList).UnmarshalBinary", Why: "unknown component type: method call on a nil interface"},
		Mutant{Name: "c15-factory-wrong-type", Prop: "C15", File: qr, Old: "\tcase PacketFilterComponentTypeSingleLocalPort:\n\t\treturn &PacketFilterSingleLocalPort{}", New: "\tcase PacketFilterComponentTypeSingleLocalPort:\n\t\treturn &PacketFilterSingleRemotePort{}",
			Expect: "factory.agree / nasType.newPacketFilterComponent / 0x40", Why: "parsed component re-serialises with a different identifier"},
		Mutant{Name: "c15-length-mismatch", Prop: "C15", File: qr, Old: "func (p *pfPortRange) Length() int {\n\treturn 4\n}", New: "func (p *pfPortRange) Length() int {\n\treturn 3\n}",
			Expect: "factory.agree / nasType.newPacketFilterComponent", Why: "parser frames 3 octets where the serialiser wrote 4"},
		Mutant{Name: "c15-no-length-check", Prop: "C15", File: qr, Old: "func (p *pfVID) UnmarshalBinary(b []byte) error {\n\tif len(b) != p.Length() {\n\t\treturn fmt.Errorf(\"length of \\\"vid\\\" should be %d\", p.Length())\n\t}\n", New: "func (p *pfVID) UnmarshalBinary(b []byte) error {\n",
			Expect: "safe.stdlib-pre / nasType.(*pfVID).UnmarshalBinary", Why: "truncated component: BigEndian.Uint16 on a short slice panics"},
		Mutant{Name: "c15-len-field-off", Prop: "C15", File: qr, Old: "binary.Write(buf, binary.BigEndian, uint8(len(pfBuf)))", New: "binary.Write(buf, binary.BigEndian, uint8(len(pfBuf)+1))",
			Expect: "seq.len-from-content / nasType.buildPacketFilterList", Why: "length octet not derived from the content written"},
		Mutant{Name: "c15-eof-loop", Prop: "C15", File: qr, Old: "\t\t\tif err == io.EOF {\n\t\t\t\tbreak\n\t\t\t}\n\t\t\treturn err\n\t\t}\n\n\t\tvar ruleLen uint16", New: "\t\t\tif err == io.EOF {\n\t\t\t\tcontinue\n\t\t\t}\n\t\t\treturn err\n\t\t}\n\n\t\tvar ruleLen uint16",
			Expect: "safe.loop / nasType.(*QoSRules).UnmarshalBinary", Why: "end of input no longer leaves the loop: hang"},
		Mutant{Name: "c15-keep-errorf", Prop: "C15", File: qr, Old: "\t\t\treturn errors.New(\"packet filter component type unknown\")", New: "\t\t\treturn fmt.Errorf(\"packet filter component type %d unknown\", componentType)", Keep: true, Why: "different error text"},
	)
}
