package main

// C12, text side: the identity texts of TS 23.003 / TS 24.501 9.11.3.4 assembled from wire octets.
// Every rule runs the library function (E2) on an element of concrete length whose octets are
// symbolic (the bits that select a layout - type of identity, odd/even indication, fillers - are
// concrete per case) and compares the returned text, character by character, with the text the
// specification defines for those octets: constant characters must be the constants, digit /
// hexadecimal characters must denote the specified nibble as a Boolean function of the input.

import (
	"fmt"
	"go/token"
	"go/types"

	"golang.org/x/tools/go/ssa"
)

// wantCh: one expected character - either a constant, or the (hex / decimal) digit of a nibble.
type wantCh struct {
	c   byte
	nib []*Node // LSB first; nil: constant c
}

func wantConst(s string) []wantCh {
	var out []wantCh
	for i := 0; i < len(s); i++ {
		out = append(out, wantCh{c: s[i]})
	}
	return out
}

func hiNib(b BV) []*Node { return b.B[4:8] }
func loNib(b BV) []*Node { return b.B[0:4] }

// textMatches compares a returned string with the expected characters.
func textMatches(it *Interp, v Value, want []wantCh) (bool, string) {
	s, ok := v.(StrV)
	if !ok {
		return false, fmt.Sprintf("result is not text (%T)", v)
	}
	if s.Known {
		cs := StrV{Sym: true}
		for i := 0; i < len(s.S); i++ {
			cs.Chars = append(cs.Chars, it.constBV(uint64(s.S[i]), 8))
		}
		s = cs
	}
	if !s.Sym {
		return false, "result is not a text the evaluation can follow"
	}
	if len(s.Chars) != len(want) {
		return false, fmt.Sprintf("%d characters instead of %d", len(s.Chars), len(want))
	}
	for i, w := range want {
		ch := s.Chars[i]
		if w.nib == nil {
			if v, isC := ch.IsConst(); !(isC && ch.Hex == nil && byte(v) == w.c) {
				// a hex-tagged character whose nibble is a constant is that constant character
				if ch.Hex != nil {
					if nv, ok := (BV{W: 4, B: ch.Hex}).IsConst(); ok && "0123456789abcdef"[nv] == w.c {
						continue
					}
				}
				return false, fmt.Sprintf("character %d is not %q", i, string(w.c))
			}
			continue
		}
		nb, ok := it.nibbleOfChar(ch)
		if !ok {
			return false, fmt.Sprintf("character %d is not a digit / hexadecimal character", i)
		}
		if ok2, why := cmpBits(it, nb, w.nib); !ok2 {
			return false, fmt.Sprintf("character %d: %s", i, why)
		}
	}
	return true, ""
}

// identityOctets builds a buffer object of n octets: octet 0 has the given low nibble (type of
// identity and odd/even indication) and a symbolic high nibble, the others are symbolic.
func identityOctets(it *Interp, st *state, name string, n int, low0 uint64) (*MemObj, []BV) {
	bo := it.NewObj(name, true)
	st.mem[bo] = map[string]Value{}
	var bs []BV
	for i := 0; i < n; i++ {
		b := it.SrcBV(fmt.Sprintf("%s[%d]", name, i), 8)
		if i == 0 {
			c := it.constBV(low0, 4)
			nb := make([]*Node, 8)
			copy(nb[0:4], c.B)
			copy(nb[4:8], b.B[4:8])
			b = BV{W: 8, B: nb}
		}
		st.mem[bo][fmt.Sprintf("[%d]", i)] = b
		bs = append(bs, b)
	}
	return bo, bs
}

// peiDigits: identity digit 1 is the high nibble of octet 1; octet k carries digit p (bits 4-1)
// and digit p+1 (bits 8-5); with the even indication the last high nibble is the filler.
func peiDigits(bs []BV, odd bool) []wantCh {
	out := []wantCh{{nib: hiNib(bs[0])}}
	for _, b := range bs[1:] {
		out = append(out, wantCh{nib: loNib(b)}, wantCh{nib: hiNib(b)})
	}
	if !odd && len(out) > 0 {
		out = out[:len(out)-1]
	}
	return out
}

func checkPeiText(w *World, r *Report) {
	type tc struct {
		typ  uint64
		odd  bool
		n    int
		what string
	}
	cases := []tc{
		{3, true, 8, "IMEI, 15 digits"},
		{5, false, 9, "IMEISV, 16 digits"},
		{3, false, 8, "IMEI, even indication"},
		{5, true, 9, "IMEISV, odd indication"},
		{3, true, 2, "IMEI, 2 octets"},
		{5, false, 2, "IMEISV, 2 octets"},
		{3, true, 1, "IMEI, 1 octet"},
	}
	// nasConvert.PeiToStringWithError
	if f := w.LookupFunc("nasConvert", "PeiToStringWithError"); f == nil {
		r.Fail("anchor", "nasConvert.PeiToStringWithError", "missing", token.NoPos, "converter not found", nil)
	} else {
		fname := FuncName(f)
		r.Fn(fname)
		for _, c := range cases {
			r.Site("text.pei")
			it := NewInterp(w)
			it.UseInitValues = true
			it.Fuel = 200000
			st := it.NewState()
			low0 := c.typ
			if c.odd {
				low0 |= 8
			}
			bo, bs := identityOctets(it, st, "buf", c.n, low0)
			res := it.Call(w.SSAFunc(f), []Value{SliceV{Obj: bo, Len: c.n}}, st, 0)
			tv, ok := res.(TupleV)
			if !ok || len(tv) != 2 || len(it.Unsup) > 0 {
				r.Fail("text.pei", fname, c.what+" undecided", f.Pos(), fmt.Sprintf("outside the modelled fragment: %v", it.Unsup), nil)
				continue
			}
			if n, ok := it.errNil(tv[1]); !ok || n != it.T.one {
				r.Fail("text.pei", fname, c.what+" error", f.Pos(), "a well-formed PEI is not accepted (error result not nil)", nil)
				continue
			}
			prefix := "imei-"
			if c.typ == 5 {
				prefix = "imeisv-"
			}
			want := append(wantConst(prefix), peiDigits(bs, c.odd)...)
			if ok, why := textMatches(it, tv[0], want); !ok {
				r.Fail("text.pei", fname, c.what, f.Pos(), "the PEI text is not "+prefix+"<identity digits in order: digit 1 = bits 8-5 of octet 1, then bits 4-1 and bits 8-5 of every following octet, the filler dropped when the digit count is even>: "+why, nil)
				continue
			}
			r.OK("text.pei")
		}
	}
	// nasType.(*MobileIdentity5GS).GetIMEI / GetIMEISV
	for _, g := range []struct {
		name   string
		typ    uint64
		prefix string
	}{{"GetIMEI", 3, "imei-"}, {"GetIMEISV", 5, "imeisv-"}} {
		f := w.LookupFunc("nasType", "MobileIdentity5GS."+g.name)
		if f == nil {
			r.Fail("anchor", "nasType.MobileIdentity5GS."+g.name, "missing", token.NoPos, "getter not found", nil)
			continue
		}
		fname := FuncName(f)
		r.Fn(fname)
		for _, c := range cases {
			if c.typ != g.typ {
				continue
			}
			r.Site("text.pei")
			it := NewInterp(w)
			it.UseInitValues = true
			it.Fuel = 200000
			st := it.NewState()
			low0 := c.typ
			if c.odd {
				low0 |= 8
			}
			bo, bs := identityOctets(it, st, "buf", c.n, low0)
			ro, recv := it.SymbolicObj("id")
			st.mem[ro] = map[string]Value{".Buffer": SliceV{Obj: bo, Len: c.n}, ".Len": it.constBV(uint64(c.n), 16)}
			res := it.Call(w.SSAFunc(f), []Value{recv}, st, 0)
			if len(it.Unsup) > 0 {
				r.Fail("text.pei", fname, c.what+" undecided", f.Pos(), fmt.Sprintf("outside the modelled fragment: %v", it.Unsup), nil)
				continue
			}
			want := append(wantConst(g.prefix), peiDigits(bs, c.odd)...)
			if ok, why := textMatches(it, res, want); !ok {
				r.Fail("text.pei", fname, c.what, f.Pos(), "the PEI text is not "+g.prefix+"<identity digits in order>: "+why, nil)
				continue
			}
			r.OK("text.pei")
		}
	}
}

// checkTmsiText: the hexadecimal texts of the 5G-GUTI / 5G-S-TMSI parts.
//   5G-GUTI   (type 2, 11 octets): PLMN 1..3, AMF region 4, set 5 + bits 8-7 of 6, pointer bits 6-1 of 6, 5G-TMSI 7..10
//   5G-S-TMSI (type 4,  7 octets): set 1 + bits 8-7 of 2, pointer bits 6-1 of 2, 5G-TMSI 3..6
func checkTmsiText(w *World, r *Report) {
	hexOfOctets := func(bs []BV) []wantCh {
		var out []wantCh
		for _, b := range bs {
			out = append(out, wantCh{nib: hiNib(b)}, wantCh{nib: loNib(b)})
		}
		return out
	}
	type getter struct {
		name string
		typ  uint64
		n    int
		want func(bs []BV) []wantCh
		res  int // index into a tuple result, -1: plain
	}
	gs := []getter{
		{"Get5GTMSI", 2, 11, func(bs []BV) []wantCh { return hexOfOctets(bs[7:11]) }, -1},
		{"Get5GTMSI", 4, 7, func(bs []BV) []wantCh { return hexOfOctets(bs[3:7]) }, -1},
		{"GetAmfID", 2, 11, func(bs []BV) []wantCh { return hexOfOctets(bs[4:7]) }, -1},
		{"GetAmfRegionID", 2, 11, func(bs []BV) []wantCh { return hexOfOctets(bs[4:5]) }, -1},
		{"Get5GSTMSI", 4, 7, func(bs []BV) []wantCh { return hexOfOctets(bs[1:7]) }, 0},
	}
	for _, g := range gs {
		f := w.LookupFunc("nasType", "MobileIdentity5GS."+g.name)
		if f == nil {
			r.Fail("anchor", "nasType.MobileIdentity5GS."+g.name, "missing", token.NoPos, "getter not found", nil)
			continue
		}
		fname := FuncName(f)
		r.Fn(fname)
		r.Site("text.tmsi")
		what := map[uint64]string{2: "5G-GUTI", 4: "5G-S-TMSI"}[g.typ]
		it := NewInterp(w)
		it.UseInitValues = true
		it.Fuel = 200000
		st := it.NewState()
		bo, bs := identityOctets(it, st, "buf", g.n, 0)
		// octet 0 of a GUTI / S-TMSI: 1111 0 type
		st.mem[bo]["[0]"] = it.constBV(0xf0|g.typ, 8)
		ro, recv := it.SymbolicObj("id")
		st.mem[ro] = map[string]Value{".Buffer": SliceV{Obj: bo, Len: g.n}, ".Len": it.constBV(uint64(g.n), 16)}
		res := it.Call(w.SSAFunc(f), []Value{recv}, st, 0)
		if g.res >= 0 {
			if tv, ok := res.(TupleV); ok && g.res < len(tv) {
				if n, ok := it.errNil(tv[len(tv)-1]); !ok || n != it.T.one {
					r.Fail("text.tmsi", fname, what+" error", f.Pos(), "a well-formed identity is not accepted (error result not nil)", nil)
					continue
				}
				res = tv[g.res]
			}
		}
		if len(it.Unsup) > 0 {
			r.Fail("text.tmsi", fname, what+" undecided", f.Pos(), fmt.Sprintf("outside the modelled fragment: %v", it.Unsup), nil)
			continue
		}
		if ok, why := textMatches(it, res, g.want(bs)); !ok {
			r.Fail("text.tmsi", fname, what, f.Pos(), "the text is not the lowercase hexadecimal text of the specified octets of the "+what+": "+why, nil)
			continue
		}
		r.OK("text.tmsi")
	}
	// decimal getters: AMF set ID (10 bits) and AMF pointer (6 bits)
	for _, g := range []struct {
		name string
		typ  uint64
		n    int
		val  func(it *Interp, bs []BV) []*Node // LSB first
	}{
		{"GetAmfSetID", 2, 11, func(it *Interp, bs []BV) []*Node { return append(append([]*Node{}, bs[6].B[6:8]...), bs[5].B...) }},
		{"GetAmfSetID", 4, 7, func(it *Interp, bs []BV) []*Node { return append(append([]*Node{}, bs[2].B[6:8]...), bs[1].B...) }},
		{"GetAmfPointer", 2, 11, func(it *Interp, bs []BV) []*Node { return append([]*Node{}, bs[6].B[0:6]...) }},
		{"GetAmfPointer", 4, 7, func(it *Interp, bs []BV) []*Node { return append([]*Node{}, bs[2].B[0:6]...) }},
	} {
		f := w.LookupFunc("nasType", "MobileIdentity5GS."+g.name)
		if f == nil {
			r.Fail("anchor", "nasType.MobileIdentity5GS."+g.name, "missing", token.NoPos, "getter not found", nil)
			continue
		}
		fname := FuncName(f)
		r.Fn(fname)
		r.Site("text.amf-decimal")
		what := map[uint64]string{2: "5G-GUTI", 4: "5G-S-TMSI"}[g.typ]
		it := NewInterp(w)
		it.UseInitValues = true
		it.Fuel = 200000
		st := it.NewState()
		bo, bs := identityOctets(it, st, "buf", g.n, 0)
		st.mem[bo]["[0]"] = it.constBV(0xf0|g.typ, 8)
		ro, recv := it.SymbolicObj("id")
		st.mem[ro] = map[string]Value{".Buffer": SliceV{Obj: bo, Len: g.n}, ".Len": it.constBV(uint64(g.n), 16)}
		// the value handed to the decimal formatter is recorded
		var seen []BV
		if it.Models == nil {
			it.Models = map[string]func(it *Interp, st *state, call *ssa.CallCommon, args []Value) (Value, bool){}
		}
		for _, fn := range []string{"strconv.FormatUint", "strconv.FormatInt", "strconv.Itoa"} {
			it.Models[fn] = func(it *Interp, st *state, call *ssa.CallCommon, args []Value) (Value, bool) {
				if bv, ok := args[0].(BV); ok {
					seen = append(seen, bv)
				}
				if len(args) > 1 {
					if b, ok := args[1].(BV); ok {
						if v, isC := b.IsConst(); !isC || v != 10 {
							it.unsup("number formatted in a base other than 10")
						}
					}
				}
				return StrV{Known: true, S: "<decimal>"}, true
			}
		}
		res := it.Call(w.SSAFunc(f), []Value{recv}, st, 0)
		if s, ok := res.(StrV); !ok || !s.Known || s.S != "<decimal>" {
			r.Fail("text.amf-decimal", fname, what+" text", f.Pos(), "the getter does not return the decimal text of the number it formats, unchanged", nil)
			continue
		}
		if len(it.Unsup) > 0 || len(seen) != 1 {
			r.Fail("text.amf-decimal", fname, what+" undecided", f.Pos(), fmt.Sprintf("the getter does not format exactly one number in decimal (%d formatted) or leaves the modelled fragment: %v", len(seen), it.Unsup), nil)
			continue
		}
		want := g.val(it, bs)
		for len(want) < seen[0].W {
			want = append(want, it.T.zero)
		}
		if ok, why := cmpBits(it, seen[0].B, want[:seen[0].W]); !ok {
			r.Fail("text.amf-decimal", fname, what, f.Pos(), "the number rendered is not the specified bits of the "+what+": "+why, nil)
			continue
		}
		r.OK("text.amf-decimal")
	}
	_ = types.Typ
}

// checkSuciText: the complete SUCI text of an IMSI-format SUCI (TS 23.003 2.2B, TS 24.501 figure
// 9.11.3.4.3): "suci-0-<MCC>-<MNC>-<routing indicator>-<scheme>-<key id>-<scheme output>".
// Shapes: 2-/3-digit MNC x 1..4 routing indicator digits (the unused ones are the filler 1111) x
// null scheme with an MSIN of even / odd digit count (trailing filler), resp. a non-null scheme.
// All digits are symbolic decimal digits, the scheme output octets of a non-null scheme are
// arbitrary octets.
func checkSuciText(w *World, r *Report) {
	type shape struct {
		mncLen, rDigits int
		scheme          uint64
		key             uint64
		out             int  // octets of scheme output
		filler          bool // null scheme: the last high nibble is the filler
	}
	var shapes []shape
	for _, mncLen := range []int{2, 3} {
		for rd := 1; rd <= 4; rd++ {
			shapes = append(shapes, shape{mncLen, rd, 0, 0, 5, rd%2 == 0})
		}
	}
	shapes = append(shapes, shape{2, 1, 0, 255, 1, true}, shape{3, 4, 0, 17, 4, false}, shape{2, 2, 1, 9, 3, false}, shape{3, 3, 2, 100, 2, false})
	type target struct {
		fn   *types.Func
		call func(it *Interp, st *state, bo *MemObj, n int) Value
	}
	var targets []target
	if f := w.LookupFunc("nasConvert", "SuciToStringWithError"); f == nil {
		r.Fail("anchor", "nasConvert.SuciToStringWithError", "missing", token.NoPos, "converter not found", nil)
	} else {
		targets = append(targets, target{f, func(it *Interp, st *state, bo *MemObj, n int) Value {
			res := it.Call(w.SSAFunc(f), []Value{SliceV{Obj: bo, Len: n}}, st, 0)
			tv, ok := res.(TupleV)
			if !ok || len(tv) != 3 {
				return nil
			}
			if e, ok := it.errNil(tv[2]); !ok || e != it.T.one {
				return OpaqueV{"error"}
			}
			return TupleV{tv[0], tv[1]}
		}})
	}
	if f := w.LookupFunc("nasType", "MobileIdentity5GS.GetSUCI"); f == nil {
		r.Fail("anchor", "nasType.MobileIdentity5GS.GetSUCI", "missing", token.NoPos, "getter not found", nil)
	} else {
		targets = append(targets, target{f, func(it *Interp, st *state, bo *MemObj, n int) Value {
			ro, recv := it.SymbolicObj("id")
			st.mem[ro] = map[string]Value{".Buffer": SliceV{Obj: bo, Len: n}, ".Len": it.constBV(uint64(n), 16)}
			return it.Call(w.SSAFunc(f), []Value{recv}, st, 0)
		}})
	}
	for _, tg := range targets {
		fname := FuncName(tg.fn)
		r.Fn(fname)
		for _, sh := range shapes {
			r.Site("text.suci")
			what := fmt.Sprintf("%d-digit MNC, %d routing indicator digits, scheme %d, key %d, %d output octets", sh.mncLen, sh.rDigits, sh.scheme, sh.key, sh.out)
			if sh.scheme == 0 && sh.filler {
				what += " (odd MSIN)"
			}
			it := NewInterp(w)
			it.UseInitValues = true
			it.Fuel = 400000
			st := it.NewState()
			bo := it.NewObj("buf", true)
			st.mem[bo] = map[string]Value{}
			set := func(i int, b BV) { st.mem[bo][fmt.Sprintf("[%d]", i)] = b }
			set(0, it.constBV(0x01, 8))
			d := digitsFor(it, sh.mncLen)
			for _, nb := range [][]*Node{d.m1, d.m2, d.m3, d.n1, d.n2} {
				it.assumeDecimal(BV{W: 4, B: nb})
			}
			if sh.mncLen == 3 {
				it.assumeDecimal(BV{W: 4, B: d.n3})
			}
			oct := wantPlmnOctets(d)
			for i := 0; i < 3; i++ {
				set(1+i, BV{W: 8, B: oct[i]})
			}
			// routing indicator: digit 1 = bits 4-1 of octet 5, digit 2 = bits 8-5, digit 3 / 4 in octet 6
			var rdig [][]*Node
			for k := 0; k < 4; k++ {
				if k < sh.rDigits {
					nb := it.SrcBV(fmt.Sprintf("ri.d%d", k), 4)
					it.assumeDecimal(nb)
					rdig = append(rdig, nb.B)
				} else {
					rdig = append(rdig, it.constBV(0xf, 4).B)
				}
			}
			mk := func(hi, lo []*Node) BV { return BV{W: 8, B: append(append([]*Node{}, lo...), hi...)} }
			set(4, mk(rdig[1], rdig[0]))
			set(5, mk(rdig[3], rdig[2]))
			set(6, it.constBV(sh.scheme, 8))
			set(7, it.constBV(sh.key, 8))
			want := wantConst("suci-0-")
			plmn := []wantCh{{nib: d.m1}, {nib: d.m2}, {nib: d.m3}}
			want = append(want, plmn...)
			want = append(want, wantCh{c: '-'})
			mnc := []wantCh{{nib: d.n1}, {nib: d.n2}}
			if sh.mncLen == 3 {
				mnc = append(mnc, wantCh{nib: d.n3})
			}
			want = append(want, mnc...)
			want = append(want, wantCh{c: '-'})
			for k := 0; k < sh.rDigits; k++ {
				want = append(want, wantCh{nib: rdig[k]})
			}
			want = append(want, wantConst(fmt.Sprintf("-%x-%d-", sh.scheme, sh.key))...)
			for i := 0; i < sh.out; i++ {
				if sh.scheme == 0 {
					lo, hi := it.SrcBV(fmt.Sprintf("msin.d%d", 2*i), 4), it.SrcBV(fmt.Sprintf("msin.d%d", 2*i+1), 4)
					it.assumeDecimal(lo)
					want = append(want, wantCh{nib: lo.B})
					if i == sh.out-1 && sh.filler {
						hi = it.constBV(0xf, 4)
					} else {
						it.assumeDecimal(hi)
						want = append(want, wantCh{nib: hi.B})
					}
					set(8+i, mk(hi.B, lo.B))
				} else {
					b := it.SrcBV(fmt.Sprintf("out[%d]", i), 8)
					set(8+i, b)
					want = append(want, wantCh{nib: hiNib(b)}, wantCh{nib: loNib(b)})
				}
			}
			res := tg.call(it, st, bo, 8+sh.out)
			if res == nil || len(it.Unsup) > 0 {
				r.Fail("text.suci", fname, what+" undecided", tg.fn.Pos(), fmt.Sprintf("the SUCI text is outside the modelled fragment: %v", it.Unsup), nil)
				continue
			}
			if _, isErr := res.(OpaqueV); isErr {
				r.Fail("text.suci", fname, what+" error", tg.fn.Pos(), "a well-formed SUCI is not accepted (error result not nil)", nil)
				continue
			}
			text := res
			if tv, ok := res.(TupleV); ok {
				text = tv[0]
				// the second result is the PLMN text MCC MNC
				if ok, why := textMatches(it, tv[1], append(append([]wantCh{}, plmn...), mnc...)); !ok {
					r.Fail("text.suci", fname, what+" plmn", tg.fn.Pos(), "the PLMN text returned with the SUCI is not MCC digits then MNC digits: "+why, nil)
					continue
				}
			}
			if ok, why := textMatches(it, text, want); !ok {
				r.Fail("text.suci", fname, what, tg.fn.Pos(), "the SUCI text is not suci-0-<MCC>-<MNC>-<routing indicator digits>-<scheme>-<key id>-<MSIN digits / scheme output in hexadecimal>: "+why, nil)
				continue
			}
			r.OK("text.suci")
		}
	}
}

// checkGutiRoundTrip: wire -> text -> wire is the identity on a well-formed 5G-GUTI (octet 0 is
// 1111 0 010, PLMN digits decimal, everything else arbitrary), and the GUAMI returned with the
// text carries the PLMN digits and the AMF identifier octets.
func checkGutiRoundTrip(w *World, r *Report) {
	f := w.LookupFunc("nasConvert", "GutiToStringWithError")
	g := w.LookupFunc("nasConvert", "GutiToNasWithError")
	if f == nil || g == nil {
		return
	}
	fname := FuncName(f) + " -> " + FuncName(g)
	for _, mncLen := range []int{2, 3} {
		r.Site("text.guti-roundtrip")
		what := fmt.Sprintf("%d-digit MNC", mncLen)
		it := NewInterp(w)
		it.Fuel = 400000
		st := it.NewState()
		bo := it.NewObj("guti", true)
		st.mem[bo] = map[string]Value{}
		d := digitsFor(it, mncLen)
		for _, nb := range [][]*Node{d.m1, d.m2, d.m3, d.n1, d.n2} {
			it.assumeDecimal(BV{W: 4, B: nb})
		}
		if mncLen == 3 {
			it.assumeDecimal(BV{W: 4, B: d.n3})
		}
		oct := wantPlmnOctets(d)
		in := make([]BV, 11)
		in[0] = it.constBV(0xf2, 8)
		for i := 0; i < 3; i++ {
			in[1+i] = BV{W: 8, B: oct[i]}
		}
		for i := 4; i < 11; i++ {
			in[i] = it.SrcBV(fmt.Sprintf("guti[%d]", i), 8)
		}
		for i, b := range in {
			st.mem[bo][fmt.Sprintf("[%d]", i)] = b
		}
		res := it.Call(w.SSAFunc(f), []Value{SliceV{Obj: bo, Len: 11}}, st, 0)
		tv, ok := res.(TupleV)
		if !ok || len(tv) != 3 || len(it.Unsup) > 0 {
			r.Fail("text.guti-roundtrip", fname, what+" undecided", f.Pos(), fmt.Sprintf("outside the modelled fragment: %v", it.Unsup), nil)
			continue
		}
		res2 := it.Call(w.SSAFunc(g), []Value{tv[1]}, st, 0)
		tv2, ok := res2.(TupleV)
		if !ok || len(tv2) != 2 || len(it.Unsup) > 0 {
			r.Fail("text.guti-roundtrip", fname, what+" undecided", g.Pos(), fmt.Sprintf("outside the modelled fragment: %v", it.Unsup), nil)
			continue
		}
		if e, ok := it.errNil(tv2[1]); !ok || !it.EquivUnderPremise(e, it.T.one) {
			r.Fail("text.guti-roundtrip", fname, what+" error", g.Pos(), "the text rendered from a well-formed 5G-GUTI is not accepted back (error result not nil)", nil)
			continue
		}
		ag, _ := tv2[0].(AggV)
		good := true
		for i := 0; i < 11; i++ {
			bv, ok := ag.Cells[fmt.Sprintf(".Octet[%d]", i)].(BV)
			if !ok {
				good = false
				r.Fail("text.guti-roundtrip", fname, what+fmt.Sprintf(" octet %d", i), g.Pos(), "octet not resolvable", nil)
				break
			}
			if ok2, why := cmpBits(it, bv.B, in[i].B); !ok2 {
				good = false
				r.Fail("text.guti-roundtrip", fname, what+fmt.Sprintf(" octet %d", i), g.Pos(), fmt.Sprintf("octet %d of the 5G-GUTI does not come back from its text: %s", i, why), nil)
				break
			}
		}
		if l, ok := ag.Cells[".Len"].(BV); good && (!ok || !func() bool { v, c := l.IsConst(); return c && v == 11 }()) {
			good = false
			r.Fail("text.guti-roundtrip", fname, what+" length", g.Pos(), "the length of the 5G-GUTI built from text is not 11", nil)
		}
		if good {
			r.OK("text.guti-roundtrip")
		}
	}
}
