package main

func init() {
	const ra = "nasMessage/NAS_RegistrationAccept.go"
	const sr = "nasMessage/NAS_ServiceReject.go"
	const decRA = "DecodeRegistrationAccept"
	addMutants(
		// ---- C04
		Mutant{Name: "c04-loosen-array-bound", Prop: "C04", File: ra, Old: "a.EquivalentPlmns.Len > 45", New: "a.EquivalentPlmns.Len > 46",
			Expect: decRA + " / EquivalentPlmns", Why: "upper bound loosened by one (also overruns the 45-octet array)"},
		Mutant{Name: "c04-delete-upper-bound", Prop: "C04", File: ra, Old: "a.TAIList.Len < 7 || a.TAIList.Len > 112", New: "a.TAIList.Len < 7",
			Expect: "table.len-bounds / nasMessage.(*RegistrationAccept)." + decRA + " / TAIList", Why: "upper bound deleted"},
		Mutant{Name: "c04-guard-returns-nil", Prop: "C04", File: "nasMessage/NAS_AuthenticationRequest.go",
			Old: `return fmt.Errorf("invalid ie length (AuthenticationRequest/ABBA): %d", a.ABBA.Len)`, New: "return nil", Nth: 1,
			Expect: "err.propagate / nasMessage.(*AuthenticationRequest).DecodeAuthenticationRequest / ABBA", Why: "length violation silently accepted"},
		Mutant{Name: "c04-read-error-returns-nil", Prop: "C04", File: ra,
			Old: `return fmt.Errorf("NAS decode error (RegistrationAccept/TAIList): %w", err)`, New: "return nil", Nth: 2,
			Expect: "err.propagate / nasMessage.(*RegistrationAccept)." + decRA + " / TAIList", Why: "truncated value accepted"},
		Mutant{Name: "c04-iei-const", Prop: "C04", File: ra, Old: "RegistrationAcceptTAIListType                                  uint8 = 0x54", New: "RegistrationAcceptTAIListType                                  uint8 = 0x55",
			Expect: "table.iei / nasMessage.(*RegistrationAccept)." + decRA + " / TAIList", Why: "identifier changed"},
		Mutant{Name: "c04-encode-swap", Prop: "C04", File: sr, Old: srPDU + srT3346, New: srT3346 + srPDU,
			Expect: "table.order / nasMessage.(*ServiceReject).EncodeServiceReject", Why: "two optional elements emitted in the wrong order"},
		Mutant{Name: "c04-half-octet-mapping", Prop: "C04", File: ra, Old: "tmpIeiN = (ieiN & 0xf0) >> 4", New: "tmpIeiN = (ieiN & 0x70) >> 4",
			Expect: "table.iei-dispatch / nasMessage.(*RegistrationAccept)." + decRA, Why: "high-nibble mapping broken: type-1 identifiers no longer dispatched"},
		Mutant{Name: "c04-keep-hex-const", Prop: "C04", File: ra, Old: "a.TAIList.Len > 112", New: "a.TAIList.Len > 0x70", Keep: true, Why: "same bound, hex literal"},
		Mutant{Name: "c04-keep-operand-order", Prop: "C04", File: ra, Old: "a.TAIList.Len < 7 || a.TAIList.Len > 112", New: "112 < a.TAIList.GetLen() || 7 > a.TAIList.Len", Keep: true, Why: "same accepted set, different syntax"},
		Mutant{Name: "c04-keep-negated-form", Prop: "C04", File: ra, Old: "a.TAIList.Len < 7 || a.TAIList.Len > 112", New: "!(a.TAIList.Len >= 7 && a.TAIList.Len <= 112)", Keep: true, Why: "De Morgan form of the same guard"},
		Mutant{Name: "c04-keep-modular-guard", Prop: "C04", File: "nasMessage/NAS_PDUSessionEstablishmentAccept.go", Old: "a.PDUAddress.Len != 5 && a.PDUAddress.Len != 9 && a.PDUAddress.Len != 13", New: "a.PDUAddress.Len < 5 || a.PDUAddress.Len > 13 || (a.PDUAddress.Len-5)%4 != 0", Keep: true, Why: "same accepted set {5,9,13} written with modular arithmetic"},
		Mutant{Name: "c04-modular-guard-wrong-step", Prop: "C04", File: "nasMessage/NAS_PDUSessionEstablishmentAccept.go", Old: "a.PDUAddress.Len != 5 && a.PDUAddress.Len != 9 && a.PDUAddress.Len != 13", New: "a.PDUAddress.Len < 5 || a.PDUAddress.Len > 13 || (a.PDUAddress.Len-5)%8 != 0",
			Expect: "table.len-bounds / nasMessage.(*PDUSessionEstablishmentAccept).DecodePDUSessionEstablishmentAccept / PDUAddress", Why: "step 8 instead of 4: legal length 9 rejected"},
		// ---- C02
		Mutant{Name: "c02-setlen-overalloc", Prop: "C02", File: "nasType/NAS_ABBA.go", Old: "a.Buffer = make([]uint8, a.Len)", New: "a.Buffer = make([]uint8, a.Len+1)",
			Expect: "codec.dual.buffer-exact", Why: "decoder allocates one octet more than declared: consumes the next element's identifier"},
		Mutant{Name: "c02-encode-full-array", Prop: "C02", File: ra, Old: "binary.Write(buffer, binary.BigEndian, a.EquivalentPlmns.Octet[:a.EquivalentPlmns.GetLen()])", New: "binary.Write(buffer, binary.BigEndian, a.EquivalentPlmns.Octet[:])",
			Expect: "codec.dual.optional / nasMessage.(*RegistrationAccept)." + decRA + " / EquivalentPlmns", Why: "encoder writes all 45 octets, decoder reads Len"},
		Mutant{Name: "c02-encode-drops-field", Prop: "C02", File: sr, Old: srT3346, New: "",
			Expect: "codec.dual.coverage / nasMessage.(*ServiceReject).EncodeServiceReject / T3346Value", Why: "optional element never encoded"},
		Mutant{Name: "c02-dispatch-cross", Prop: "C02", File: "nas_generated.go", Old: "return a.GmmMessage.DecodeServiceAccept(byteArray)", New: "return a.GmmMessage.DecodeServiceReject(byteArray)",
			Expect: "dispatch.dual", Why: "decode arm decodes a different body than the encode arm emits"},
		Mutant{Name: "c02-reject-wellformed", Prop: "C02", File: ra, Old: "a.TAIList.Len < 7 ||", New: "a.TAIList.Len < 8 ||",
			Expect: "codec.accept-superset / nasMessage.(*RegistrationAccept)." + decRA + " / TAIList", Why: "minimum well-formed length rejected"},
		Mutant{Name: "c02-keep-const-ctor-arg", Prop: "C02", File: ra, Old: "a.GUTI5G = nasType.NewGUTI5G(ieiN)", New: "a.GUTI5G = nasType.NewGUTI5G(RegistrationAcceptGUTI5GType)", Keep: true,
			Why: "for a full-octet identifier the case constant is the received octet"},
		// ---- C03
		Mutant{Name: "c03-half-octet-not-kept", Prop: "C03", File: ra, Old: "\t\t\ta.MICOIndication.Octet = ieiN\n", New: "",
			Expect: "MICOIndication", Why: "type-1 element loses the received octet"},
		Mutant{Name: "c03-ctor-drops-iei", Prop: "C03", File: "nasType/NAS_TAIList.go", Old: "\ttAIList.SetIei(iei)\n", New: "",
			Expect: "codec.verbatim-store", Why: "constructor no longer stores the received identifier: re-encoding emits 0"},
		Mutant{Name: "c03-setlen-changes-len", Prop: "C03", File: "nasType/NAS_TAIList.go", Old: "\ta.Len = len\n", New: "\ta.Len = len - 1\n",
			Expect: "codec.verbatim-store", Why: "SetLen alters the stored length"},
		Mutant{Name: "c03-encode-swap", Prop: "C03", File: sr, Old: srPDU + srT3346, New: srT3346 + srPDU,
			Expect: "codec.fixed-order / nasMessage.(*ServiceReject).EncodeServiceReject", Why: "encoder order differs from definition order: canonical input not reproduced"},
		Mutant{Name: "c03-half-octet-const-ctor", Prop: "C03", File: ra, Old: "a.MICOIndication = nasType.NewMICOIndication(ieiN)", New: "a.MICOIndication = nasType.NewMICOIndication(RegistrationAcceptMICOIndicationType)", Keep: true,
			Why: "the Iei field of a type-1 element is never emitted (Octet carries it); still, Octet = ieiN keeps the octet"},
		// ---- C05
		Mutant{Name: "c05-epd-cross", Prop: "C05", File: "nas.go", Old: "case nasMessage.Epd5GSMobilityManagementMessage:\n\t\treturn a.GmmMessageDecode(byteArray)", New: "case nasMessage.Epd5GSMobilityManagementMessage:\n\t\treturn a.GsmMessageDecode(byteArray)",
			Expect: "dispatch.epd / nas.(*Message).PlainNasDecode / epd-map", Why: "discriminator routed to the wrong family"},
		Mutant{Name: "c05-no-empty-guard", Prop: "C05", File: "nas.go", Old: "\tif len(*byteArray) == 0 {\n\t\treturn errors.New(\"empty message\")\n\t}\n", New: "",
			Expect: "empty-guard", Why: "empty input indexes octet 0"},
		Mutant{Name: "c05-default-nil", Prop: "C05", File: "nas_generated.go", Old: "return fmt.Errorf(\"NAS decode Fail: MsgType[%d] doesn't exist in GMM Message\",\n\t\t\ta.GmmMessage.GmmHeader.GetMessageType())", New: "return nil",
			Expect: "dispatch.default-error / nas.(*Message).GmmMessageDecode", Why: "unknown message type accepted"},
		Mutant{Name: "c05-header-index", Prop: "C05", File: "nas.go", Old: "messageType = a.Octet[2]", New: "messageType = a.Octet[1]",
			Expect: "dispatch.header-view", Why: "message type taken from the wrong header octet"},
		Mutant{Name: "c05-msgtype-const", Prop: "C05", File: "nas_generated.go", Old: "MsgTypeServiceAccept                                    uint8 = 78", New: "MsgTypeServiceAccept                                    uint8 = 79",
			Expect: "dispatch.caseset", Why: "message-type value changed"},
		Mutant{Name: "c05-arm-wrong-body", Prop: "C05", File: "nas_generated.go", Old: "a.GmmMessage.ServiceAccept = nasMessage.NewServiceAccept(MsgTypeServiceAccept)\n\t\treturn a.GmmMessage.DecodeServiceAccept(byteArray)", New: "a.GmmMessage.ServiceReject = nasMessage.NewServiceReject(MsgTypeServiceAccept)\n\t\treturn a.GmmMessage.DecodeServiceReject(byteArray)",
			Expect: "0x4e", Why: "arm populates and decodes a different body"},
		Mutant{Name: "c05-encode-no-body-nil", Prop: "C05", File: "nas.go", Old: "return nil, fmt.Errorf(\"Gmm/Gsm Message are both empty in Nas Message Encode\")", New: "return data.Bytes(), nil",
			Expect: "no-body-error", Why: "a message with no body encodes to nothing without error"},
		Mutant{Name: "c05-keep-empty-guard-form", Prop: "C05", File: "nas.go", Old: "if len(*byteArray) == 0 {", New: "if len(*byteArray) < 1 {", Keep: true, Why: "same guard"},
		Mutant{Name: "c04-optional-item-order", Prop: "C04", File: "nasMessage/NAS_ULNASTransport.go",
			Old: "\t\tif err := binary.Write(buffer, binary.BigEndian, a.DNN.GetIei()); err != nil {\n\t\t\treturn fmt.Errorf(\"NAS encode error (ULNASTransport/DNN): %w\", err)\n\t\t}\n\t\tif err := binary.Write(buffer, binary.BigEndian, a.DNN.GetLen()); err != nil {",
			New: "\t\tif err := binary.Write(buffer, binary.BigEndian, a.DNN.GetLen()); err != nil {\n\t\t\treturn fmt.Errorf(\"NAS encode error (ULNASTransport/DNN): %w\", err)\n\t\t}\n\t\tif err := binary.Write(buffer, binary.BigEndian, a.DNN.GetIei()); err != nil {",
			Expect: "table.format / nasMessage.(*ULNASTransport).EncodeULNASTransport / DNN", Why: "length octet emitted before the identifier of an optional TLV element (found while testing a behaviour-preserving variant broken on purpose; the format rule looked at which items a slot has, not at their order)"},
	)
}

const srPDU = `	if a.PDUSessionStatus != nil {
		if err := binary.Write(buffer, binary.BigEndian, a.PDUSessionStatus.GetIei()); err != nil {
			return fmt.Errorf("NAS encode error (ServiceReject/PDUSessionStatus): %w", err)
		}
		if err := binary.Write(buffer, binary.BigEndian, a.PDUSessionStatus.GetLen()); err != nil {
			return fmt.Errorf("NAS encode error (ServiceReject/PDUSessionStatus): %w", err)
		}
		if err := binary.Write(buffer, binary.BigEndian, a.PDUSessionStatus.Buffer); err != nil {
			return fmt.Errorf("NAS encode error (ServiceReject/PDUSessionStatus): %w", err)
		}
	}
`
const srT3346 = `	if a.T3346Value != nil {
		if err := binary.Write(buffer, binary.BigEndian, a.T3346Value.GetIei()); err != nil {
			return fmt.Errorf("NAS encode error (ServiceReject/T3346Value): %w", err)
		}
		if err := binary.Write(buffer, binary.BigEndian, a.T3346Value.GetLen()); err != nil {
			return fmt.Errorf("NAS encode error (ServiceReject/T3346Value): %w", err)
		}
		if err := binary.Write(buffer, binary.BigEndian, a.T3346Value.Octet); err != nil {
			return fmt.Errorf("NAS encode error (ServiceReject/T3346Value): %w", err)
		}
	}
`
