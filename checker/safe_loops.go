package main

// E3 (part 6): termination — every natural loop of an analysed function must match a
// ranking rule, otherwise it is reported.
//
//  R-rank    a header phi strictly increases (decreases) along every back edge and an exit
//            test compares a monotone linear function of it with loop-invariant quantities
//            (covers counted loops, range-over-slice loops and offset walkers)
//  R-range   range over map / string (ssa.Next): terminates by the language definition
//  R-consume every cycle passes a read of >= 1 octet from one loop-invariant bytes.Buffer /
//            Reader whose failure leaves the loop; no Unread/Write/Reset on it inside the loop
//  R-fsm     handled by the property that needs it (PCO reader)

import (
	"fmt"
	"os"
	"go/token"
	"go/types"
	"sort"
	"strings"

	"golang.org/x/tools/go/ssa"
)

type LoopInfo struct {
	Fn   string
	Head int
	Pos  token.Pos
	Rule string
	OK   bool
	Why  string
	Seen int
}

func loopBlocks(h *ssa.BasicBlock, latches []*ssa.BasicBlock) map[*ssa.BasicBlock]bool {
	in := map[*ssa.BasicBlock]bool{h: true}
	var stack []*ssa.BasicBlock
	for _, l := range latches {
		if !in[l] {
			in[l] = true
			stack = append(stack, l)
		}
	}
	for len(stack) > 0 {
		b := stack[len(stack)-1]
		stack = stack[:len(stack)-1]
		for _, p := range b.Preds {
			if !in[p] {
				in[p] = true
				stack = append(stack, p)
			}
		}
	}
	return in
}

func blockPos(b *ssa.BasicBlock) token.Pos {
	for _, ins := range b.Instrs {
		if ins.Pos().IsValid() {
			return ins.Pos()
		}
	}
	for _, s := range b.Succs {
		for _, ins := range s.Instrs {
			if ins.Pos().IsValid() {
				return ins.Pos()
			}
		}
	}
	return token.NoPos
}

func (sa *Safe) checkLoops(fr *frame, in []*State, backEdge map[[2]int]*State) {
	fn := fr.fn
	heads := map[*ssa.BasicBlock][]*ssa.BasicBlock{}
	for _, b := range fn.Blocks {
		for _, s := range b.Succs {
			if s.Dominates(b) {
				heads[s] = append(heads[s], b)
			}
		}
	}
	var hs []*ssa.BasicBlock
	for h := range heads {
		hs = append(hs, h)
	}
	sort.Slice(hs, func(i, j int) bool { return hs[i].Index < hs[j].Index })
	for _, h := range hs {
		if in[h.Index] == nil {
			continue // unreachable in this context
		}
		latches := heads[h]
		body := loopBlocks(h, latches)
		rule, ok, why := sa.rankLoop(fr, h, latches, body, in, backEdge)
		key := fmt.Sprintf("%s#loop%d", SSAFuncName(fn), loopOrdinal(fn, h))
		li := sa.Loops[key]
		if li == nil {
			li = &LoopInfo{Fn: SSAFuncName(fn), Head: h.Index, Pos: blockPos(h), OK: true}
			sa.Loops[key] = li
		}
		li.Seen++
		if ok && li.OK {
			li.Rule = rule
		}
		if !ok && li.OK {
			li.OK, li.Why, li.Rule = false, why, ""
		}
	}
}

// loopOrdinal: position of the loop among the function's loops (stable under unrelated edits).
func loopOrdinal(fn *ssa.Function, h *ssa.BasicBlock) int {
	n := 0
	for _, b := range fn.Blocks {
		isHead := false
		for _, p := range b.Preds {
			if b.Dominates(p) {
				isHead = true
			}
		}
		if isHead {
			n++
			if b == h {
				return n
			}
		}
	}
	return 0
}

type selCtx struct {
	sel     *selector
	tagBack map[[2]int][]tagEdge
	regsT   []map[ssa.Value]AVal
}

func (sa *Safe) checkLoopsSel(fr *frame, in []*State, backEdge map[[2]int]*State, sel *selector, tagBack map[[2]int][]tagEdge, regsT []map[ssa.Value]AVal) {
	if sel != nil {
		sa.curSel = &selCtx{sel, tagBack, regsT}
	}
	sa.checkLoops(fr, in, backEdge)
	sa.curSel = nil
}

// rankFSM: the loop is partitioned by the header value of a state variable. A header phi n is
// a ranking function if it never increases along any (state -> next state) back edge, strictly
// decreases on enough of them that every cycle of the state graph contains a strict edge, and
// the loop's exit test bounds it from below by loop-invariant quantities.
func (sa *Safe) rankFSM(fr *frame, h *ssa.BasicBlock, latches []*ssa.BasicBlock, body map[*ssa.BasicBlock]bool, in []*State) (string, bool, string) {
	sc := sa.curSel
	T := len(sc.sel.vals) + 1
	why := "no header variable decreases around every cycle of the state machine"
	for _, ins := range h.Instrs {
		phi, ok := ins.(*ssa.Phi)
		if !ok {
			break
		}
		if phi == sc.sel.phi {
			continue
		}
		if _, isInt := intRange(phi.Type()); !isInt {
			continue
		}
		pv, ok := fr.regs[phi]
		if !ok || pv.Lin == nil {
			continue
		}
		pa := onlyAtom(pv.Lin)
		for _, dir := range []int64{-1, 1} {
			weakOnly := map[int][]int{} // edges that are not strict
			okAll := true
			nEdges := 0
			for _, l := range latches {
				pi := -1
				for k, p := range h.Preds {
					if p == l {
						pi = k
					}
				}
				for t := 1; t < T; t++ {
					for _, te := range sc.tagBack[[2]int{l.Index, t}] {
						nEdges++
						save := fr.regs
						if sc.regsT[t] != nil {
							fr.regs = sc.regsT[t]
						}
						inc := sa.val(fr, te.st, phi.Edges[pi])
						fr.regs = save
						if inc.Lin == nil {
							okAll = false
							continue
						}
						d := inc.Lin.add(pv.Lin, -1).scale(-dir) // dir=-1: inc - phi ; want <= 0 (weak), <= -1 (strict)
						if dir == -1 {
							d = inc.Lin.add(pv.Lin, -1)
						} else {
							d = pv.Lin.add(inc.Lin, -1)
						}
						if !te.st.prove(d) {
							okAll = false
							continue
						}
						if !te.st.prove(d.addConst(1)) {
							weakOnly[t] = append(weakOnly[t], te.next)
						}
					}
				}
			}
			if !okAll || nEdges == 0 {
				continue
			}
			// the non-strict edges must form an acyclic graph
			color := map[int]int{}
			var cyc func(v int) bool
			cyc = func(v int) bool {
				color[v] = 1
				for _, w := range weakOnly[v] {
					if color[w] == 1 || (color[w] == 0 && cyc(w)) {
						return true
					}
				}
				color[v] = 2
				return false
			}
			cyclic := false
			for t := 1; t < T; t++ {
				if color[t] == 0 && cyc(t) {
					cyclic = true
				}
			}
			if cyclic {
				why = phiName(phi) + " stays unchanged around a cycle of states"
				continue
			}
			// exit test bounding the phi (same criterion as R-rank)
			for b := range body {
				iff, ok := b.Instrs[len(b.Instrs)-1].(*ssa.If)
				if !ok {
					continue
				}
				inT, inF := body[b.Succs[0]], body[b.Succs[1]]
				if inT == inF {
					continue
				}
				c := sa.val(fr, in[h.Index], iff.Cond).Cond
				neg := false
				for c != nil && c.Op == "not" {
					c, neg = c.A, !neg
				}
				if c == nil || c.Op != "le0" {
					continue
				}
				stayOnTrue := inT != neg
				k := c.L.T[pa]
				if k == 0 {
					continue
				}
				inv := true
				for a := range c.L.T {
					if a != pa && !sa.atomInvariant(a, pa, fr.fn, body, 0) {
						inv = false
					}
				}
				if !inv {
					continue
				}
				if (stayOnTrue && k*dir > 0) || (!stayOnTrue && k*dir < 0) {
					return "R-fsm(" + phiName(phi) + " over states of " + phiName(sc.sel.phi) + ")", true, ""
				}
			}
			why = "no exit test bounds " + phiName(phi)
		}
	}
	return "", false, why
}

func (sa *Safe) rankLoop(fr *frame, h *ssa.BasicBlock, latches []*ssa.BasicBlock, body map[*ssa.BasicBlock]bool, in []*State, backEdge map[[2]int]*State) (string, bool, string) {
	if sa.curSel != nil && sa.curSel.sel.head == h {
		if rule, ok, _ := sa.rankFSM(fr, h, latches, body, in); ok {
			return rule, true, ""
		}
	}
	// R-range
	for b := range body {
		for _, ins := range b.Instrs {
			if n, ok := ins.(*ssa.Next); ok {
				// the loop exits when Next reports !ok
				_ = n
				return "R-range", true, ""
			}
		}
	}
	// no back edge is ever taken in the abstract semantics (a sound over-approximation): no second iteration
	taken := false
	for _, l := range latches {
		if backEdge[[2]int{l.Index, h.Index}] != nil {
			taken = true
		}
	}
	if !taken {
		return "R-none(back edge unreachable)", true, ""
	}
	if so := findShiftOut(h); so != nil {
		return fmt.Sprintf("R-shiftout(%s is 0 after at most %d shifts)", phiName(so.b), so.n), true, ""
	}
	var whyRank []string
	// R-rank
	for _, ins := range h.Instrs {
		phi, ok := ins.(*ssa.Phi)
		if !ok {
			break
		}
		_, isInt := intRange(phi.Type())
		pv, ok := fr.regs[phi]
		// a slice-typed header variable ranks the loop by its length (a loop that consumes a slice:
		// `for len(rest) > 0 { ...; rest = rest[k:] }`)
		isSl := ok && !isInt && pv.Kind == avSlice && pv.Len != nil && len(pv.Len.T) == 1
		if !isInt && !isSl {
			continue
		}
		if isSl {
			pv = AVal{Kind: avInt, Lin: pv.Len, Type: types.Typ[types.Int]}
		}
		if !ok || pv.Lin == nil {
			continue
		}
		pa := onlyAtom(pv.Lin)
		dir := 0
		good := true
		var maxStep int64
		for _, l := range latches {
			es := backEdge[[2]int{l.Index, h.Index}]
			if es == nil {
				continue // back edge never taken
			}
			pi := -1
			for k, p := range h.Preds {
				if p == l {
					pi = k
				}
			}
			inc := sa.val(fr, es, phi.Edges[pi])
			if isSl {
				inc = AVal{Kind: avInt, Lin: inc.Len}
			}
			if inc.Lin == nil {
				good = false
				break
			}
			// the edge state binds the phi atom to the incoming value, so compare with the
			// value the phi had at the header: recorded as the `pre` relation below
			d := sa.deltaOnEdgeLin(es, pv.Lin, inc.Lin)
			if os.Getenv("NASVERIF_DEBUG") != "" {
				fmt.Fprintf(os.Stderr, "loop %s phi %s inc=%s delta=%d itv(inc)=%s\n", fr.fn.Name(), phiName(phi), sa.u.linString(inc.Lin), d, es.linItv(inc.Lin))
			}
			if st := es.linItv(inc.Lin.add(pv.Lin, -1)); d > 0 && st.Hi > maxStep {
				maxStep = st.Hi
			} else if d < 0 && -st.Lo > maxStep {
				maxStep = -st.Lo
			}
			switch {
			case d > 0 && dir >= 0:
				dir = 1
			case d < 0 && dir <= 0:
				dir = -1
			default:
				good = false
			}
			if !good {
				break
			}
		}
		if !good || dir == 0 {
			whyRank = append(whyRank, fmt.Sprintf("%s is not strictly monotone along every back edge", phiName(phi)))
			continue
		}
		// exit test
		for b := range body {
			iff, ok := b.Instrs[len(b.Instrs)-1].(*ssa.If)
			if !ok {
				continue
			}
			inT, inF := body[b.Succs[0]], body[b.Succs[1]]
			if inT == inF {
				continue
			}
			c := sa.val(fr, in[h.Index], iff.Cond).Cond
			neg := false
			for c != nil && c.Op == "not" {
				c, neg = c.A, !neg
			}
			if c == nil || c.Op != "le0" {
				continue
			}
			stayOnTrue := inT != neg // loop continues when (L <= 0) holds?
			k := c.L.T[pa]
			if k == 0 {
				continue
			}
			// other atoms must be loop-invariant
			inv := true
			for a := range c.L.T {
				if a == pa {
					continue
				}
				if !sa.atomInvariant(a, pa, fr.fn, body, 0) {
					inv = false
				}
			}
			if !inv {
				whyRank = append(whyRank, "exit test of "+phiName(phi)+" involves a quantity computed inside the loop")
				continue
			}
			// staying requires L<=0 (stayOnTrue) : L must grow with the phi => k*dir > 0
			// staying requires L>=1 (!stayOnTrue): L must shrink => k*dir < 0
			if (stayOnTrue && k*int64(dir) > 0) || (!stayOnTrue && k*int64(dir) < 0) {
				// no wrap-around before the bound is passed: the phi's type must be able to hold bound+step
				if rg, ok := intRange(phi.Type()); ok && rg.Hi < posInf && !isSl {
					st := in[h.Index]
					rest := c.L.add(linAtom(pa), -k) // L - k*phi
					// phi can reach about -rest/k ; require that within the type range with slack 255
					bound := st.linItv(rest.scale(-1))
					lim := bound.Hi
					if k < 0 {
						lim = -bound.Lo
					}
					if k != 1 && k != -1 {
						lim = posInf
					}
					if dir > 0 && satAdd(lim, maxStep) > rg.Hi {
						whyRank = append(whyRank, fmt.Sprintf("%s (%s) may wrap around before reaching its bound (bound up to %d)", phiName(phi), phi.Type(), lim))
						continue
					}
				}
				return "R-rank(" + phiName(phi) + ")", true, ""
			}
		}
		whyRank = append(whyRank, "no exit test bounds "+phiName(phi)+" by loop-invariant quantities")
	}
	// R-consume
	if ok, why := sa.consumeLoop(fr, h, latches, body); ok {
		return "R-consume", true, ""
	} else if why != "" {
		whyRank = append(whyRank, why)
	}
	if len(whyRank) == 0 {
		whyRank = append(whyRank, "no ranking rule matches")
	}
	return "", false, strings.Join(whyRank, "; ")
}

func phiName(p *ssa.Phi) string {
	if p.Comment != "" {
		return p.Comment
	}
	return p.Name()
}

// deltaOnEdge: sign of (incoming - phi) along a back edge: +1 if provably >= 1, -1 if <= -1, 0 unknown.
// On the edge state the phi atom already equals the incoming value, so the comparison is
// made against the phi's value *before* the edge, which the incoming expression mentions.
// deltaOnEdgeLin: as deltaOnEdge, for a ranking quantity given as a linear form (the length of a slice variable).
func (sa *Safe) deltaOnEdgeLin(es *State, base, inc *Lin) int {
	d := inc.add(base, -1)
	if es.prove(d.scale(-1).addConst(1)) {
		return 1
	}
	if es.prove(d.addConst(1)) {
		return -1
	}
	return 0
}

func (sa *Safe) deltaOnEdge(fr *frame, es *State, phi *ssa.Phi, inc *Lin) int {
	pv := fr.regs[phi]
	if pv.Lin == nil {
		return 0
	}
	d := inc.add(pv.Lin, -1) // inc - phi, in the latch's out-state (before the phi is rebound)
	if es.prove(d.scale(-1).addConst(1)) {
		return 1
	}
	if es.prove(d.addConst(1)) {
		return -1
	}
	return 0
}

var consumingReads = map[string]bool{
	"encoding/binary.Read": true, "(*bytes.Buffer).ReadByte": true, "(*bytes.Reader).ReadByte": true,
}

var rewindingOps = map[string]bool{
	"(*bytes.Buffer).UnreadByte": true, "(*bytes.Buffer).UnreadRune": true, "(*bytes.Buffer).Reset": true, "(*bytes.Buffer).Truncate": true,
	"(*bytes.Buffer).Write": true, "(*bytes.Buffer).WriteByte": true, "(*bytes.Buffer).WriteString": true, "(*bytes.Buffer).ReadFrom": true,
	"(*bytes.Reader).UnreadByte": true, "(*bytes.Reader).Seek": true, "(*bytes.Reader).Reset": true, "encoding/binary.Write": true,
}

func (sa *Safe) consumeLoop(fr *frame, h *ssa.BasicBlock, latches []*ssa.BasicBlock, body map[*ssa.BasicBlock]bool) (bool, string) {
	type cand struct {
		blk *ssa.BasicBlock
		buf ssa.Value
	}
	var cands []cand
	for b := range body {
		for _, ins := range b.Instrs {
			call, ok := ins.(*ssa.Call)
			if !ok {
				continue
			}
			callee := call.Call.StaticCallee()
			if callee == nil {
				continue
			}
			var bufv ssa.Value
			if consumingReads[callee.String()] {
				bufv = call.Call.Args[0]
			} else if callee.Pkg != nil && IsRepoPkg(callee.Pkg.Pkg) {
				// a repository callee that consumes >= 1 octet from one of its reader arguments whenever it succeeds
				for i, a := range call.Call.Args {
					if isReaderType(a.Type()) && sa.consumesOnSuccess(callee, i, 0) {
						bufv = a
					}
				}
				if bufv == nil {
					continue
				}
			} else {
				continue
			}
			if mi, ok := bufv.(*ssa.MakeInterface); ok {
				bufv = mi.X
			}
			// loop-invariant reader
			if bi, ok := bufv.(ssa.Instruction); ok && bi.Block() != nil && body[bi.Block()] {
				continue
			}
			// consumes at least one octet on success
			if callee.String() == "encoding/binary.Read" {
				d := call.Call.Args[2]
				if mi, ok := d.(*ssa.MakeInterface); ok {
					d = mi.X
				}
				pt, ok := d.Type().Underlying().(*types.Pointer)
				if !ok || sa.w.sizeOf(pt.Elem()) < 1 {
					continue
				}
			}
			// failure leaves the loop: no path on which the error may still be non-nil comes back to the
			// header.  From the call, follow the loop's edges; a test of the error against nil ends the
			// walk on its "error is nil" arm (the read succeeded there: that path consumed); any other
			// test (e.g. err == io.EOF) is followed on both arms.
			isErr := func(v ssa.Value) bool {
				if v == ssa.Value(call) {
					return true
				}
				if ex, ok := v.(*ssa.Extract); ok && ex.Tuple == ssa.Value(call) {
					return true
				}
				return false
			}
			isNilConst := func(v ssa.Value) bool {
				c, ok := v.(*ssa.Const)
				return ok && c.IsNil()
			}
			tested := false
			comesBack := false
			seenB := map[*ssa.BasicBlock]bool{}
			var follow func(blk *ssa.BasicBlock)
			follow = func(blk *ssa.BasicBlock) {
				if comesBack {
					return
				}
				next := blk.Succs
				if iff, ok := blk.Instrs[len(blk.Instrs)-1].(*ssa.If); ok {
					if cond, ok := iff.Cond.(*ssa.BinOp); ok && (cond.Op == token.NEQ || cond.Op == token.EQL) &&
						((isErr(cond.X) && isNilConst(cond.Y)) || (isErr(cond.Y) && isNilConst(cond.X))) {
						tested = true
						if cond.Op == token.NEQ {
							next = blk.Succs[:1] // err != nil: only the true arm still carries a possible error
						} else {
							next = blk.Succs[1:]
						}
					}
				}
				for _, s := range next {
					if !body[s] {
						continue
					}
					if s == h {
						comesBack = true
						return
					}
					if !seenB[s] {
						seenB[s] = true
						follow(s)
					}
				}
			}
			follow(b)
			if !tested || comesBack {
				continue
			}
			cands = append(cands, cand{b, bufv})
		}
	}
	if len(cands) == 0 {
		return false, ""
	}
	sort.Slice(cands, func(i, j int) bool { return cands[i].blk.Index < cands[j].blk.Index })
	for _, c := range cands {
		// every cycle passes c.blk: header cannot reach a latch inside the loop avoiding c.blk
		if c.blk != h {
			seen := map[*ssa.BasicBlock]bool{h: true}
			stack := []*ssa.BasicBlock{h}
			reach := false
			for len(stack) > 0 && !reach {
				b := stack[len(stack)-1]
				stack = stack[:len(stack)-1]
				for _, s := range b.Succs {
					if s == h {
						reach = true
						break
					}
					if !body[s] || s == c.blk || seen[s] {
						continue
					}
					seen[s] = true
					stack = append(stack, s)
				}
			}
			if reach {
				continue
			}
		}
		// no rewinding operation on the same reader inside the loop (directly or in callees)
		bad := ""
		for b := range body {
			for _, ins := range b.Instrs {
				call, ok := ins.(ssa.CallInstruction)
				if !ok {
					continue
				}
				uses := -1
				for i, a := range call.Common().Args {
					av := a
					if mi, ok := av.(*ssa.MakeInterface); ok {
						av = mi.X
					}
					if av == c.buf {
						uses = i
					}
				}
				if uses < 0 {
					continue
				}
				callee := call.Common().StaticCallee()
				if callee == nil {
					bad = "reader passed to a dynamic call"
					continue
				}
				if rewindingOps[callee.String()] && uses == 0 {
					bad = callee.String() + " on the reader inside the loop"
				}
				if callee.Pkg != nil && IsRepoPkg(callee.Pkg.Pkg) {
					sa.eff.Summaries([]*ssa.Function{callee})
					if s := sa.eff.Summary(callee); s != nil {
						for _, op := range s.WriteOps {
							if op.Root.Kind == "param" && op.Root.Idx == uses && rewindingOps[op.What] {
								bad = op.What + " on the reader in callee " + callee.Name()
							}
						}
					}
				}
			}
		}
		if bad != "" {
			return false, bad
		}
		return true, ""
	}
	return false, "a cycle of the loop avoids every checked read"
}

func isReaderType(t types.Type) bool {
	s := t.String()
	return s == "*bytes.Buffer" || s == "*bytes.Reader"
}

// consumesOnSuccess: every nil-error return of fn is preceded (dominated) by a read of >= 1
// octet from parameter pi whose failure makes fn return a non-nil error.
// nextConsumes: the slice returned by buf.Next(..) is tested for its length, and every return of
// a nil error is dominated by the arm on which that length is at least 1 (`len(f) == 2`,
// `len(f) >= 1`, `len(f) > 0`, `len(f) != 0`): a successful call has consumed an octet.
func (sa *Safe) nextConsumes(fn *ssa.Function, next *ssa.Call, nres int) bool {
	var lens []ssa.Value
	for _, ref := range *next.Referrers() {
		if c, ok := ref.(*ssa.Call); ok {
			if b, isB := c.Call.Value.(*ssa.Builtin); isB && b.Name() == "len" && c.Call.Args[0] == ssa.Value(next) {
				lens = append(lens, c)
			}
		}
	}
	if len(lens) == 0 {
		return false
	}
	isLen := func(v ssa.Value) bool {
		for _, l := range lens {
			if l == v {
				return true
			}
		}
		return false
	}
	var okArms []*ssa.BasicBlock
	for _, b := range fn.Blocks {
		iff, ok := b.Instrs[len(b.Instrs)-1].(*ssa.If)
		if !ok {
			continue
		}
		cond, ok := iff.Cond.(*ssa.BinOp)
		if !ok || !isLen(cond.X) {
			continue
		}
		c, okc := constInt(cond.Y)
		if !okc {
			continue
		}
		arm := -1
		switch cond.Op {
		case token.EQL:
			if c >= 1 {
				arm = 0
			} else if c == 0 {
				arm = 1
			}
		case token.NEQ:
			if c == 0 {
				arm = 0
			}
		case token.GEQ:
			if c >= 1 {
				arm = 0
			}
		case token.GTR:
			if c >= 0 {
				arm = 0
			}
		case token.LSS:
			if c >= 1 {
				arm = 1
			}
		case token.LEQ:
			if c >= 0 {
				arm = 1
			}
		}
		if arm >= 0 && len(b.Succs[arm].Preds) == 1 {
			okArms = append(okArms, b.Succs[arm])
		}
	}
	if len(okArms) == 0 {
		return false
	}
	for _, rb := range fn.Blocks {
		ret, isRet := rb.Instrs[len(rb.Instrs)-1].(*ssa.Return)
		if !isRet {
			continue
		}
		if c, isC := ret.Results[nres-1].(*ssa.Const); !isC || c.Value != nil {
			continue // an error return
		}
		dominated := false
		for _, a := range okArms {
			if a.Dominates(rb) {
				dominated = true
			}
		}
		if !dominated {
			return false
		}
	}
	return true
}

func (sa *Safe) consumesOnSuccess(fn *ssa.Function, pi int, depth int) bool {
	if fn.Blocks == nil || pi >= len(fn.Params) || depth > 4 {
		return false
	}
	nres := fn.Signature.Results().Len()
	if nres == 0 || fn.Signature.Results().At(nres-1).Type().String() != "error" {
		return false
	}
	param := fn.Params[pi]
	for _, b := range fn.Blocks {
		for _, ins := range b.Instrs {
			call, ok := ins.(*ssa.Call)
			if !ok {
				continue
			}
			callee := call.Call.StaticCallee()
			if callee == nil {
				continue
			}
			okRead := false
			if callee.String() == "(*bytes.Buffer).Next" && call.Call.Args[0] == ssa.Value(param) && sa.nextConsumes(fn, call, nres) {
				// field := buf.Next(k); every nil-error return lies behind a test that field has >= 1 octets
				return true
			}
			if consumingReads[callee.String()] {
				a0 := call.Call.Args[0]
				if mi, ok := a0.(*ssa.MakeInterface); ok {
					a0 = mi.X
				}
				if a0 != ssa.Value(param) {
					continue
				}
				okRead = true
				if callee.String() == "encoding/binary.Read" {
					d := call.Call.Args[2]
					if mi, ok := d.(*ssa.MakeInterface); ok {
						d = mi.X
					}
					pt, ok := d.Type().Underlying().(*types.Pointer)
					if !ok || sa.w.sizeOf(pt.Elem()) < 1 {
						okRead = false
					}
				}
			} else if callee.Pkg != nil && IsRepoPkg(callee.Pkg.Pkg) {
				for i, a := range call.Call.Args {
					if a == ssa.Value(param) && sa.consumesOnSuccess(callee, i, depth+1) {
						okRead = true
					}
				}
			}
			if !okRead {
				continue
			}
			// failure arm returns a non-nil error
			iff, ok := b.Instrs[len(b.Instrs)-1].(*ssa.If)
			if !ok {
				continue
			}
			cond, ok := iff.Cond.(*ssa.BinOp)
			if !ok || (cond.Op != token.NEQ && cond.Op != token.EQL) {
				continue
			}
			isErr := func(v ssa.Value) bool {
				if v == ssa.Value(call) {
					return true
				}
				ex, ok := v.(*ssa.Extract)
				return ok && ex.Tuple == ssa.Value(call)
			}
			if !isErr(cond.X) && !isErr(cond.Y) {
				continue
			}
			fail := b.Succs[0]
			if cond.Op == token.EQL {
				fail = b.Succs[1]
			}
			ret, ok := fail.Instrs[len(fail.Instrs)-1].(*ssa.Return)
			if !ok {
				continue
			}
			if c, isC := ret.Results[nres-1].(*ssa.Const); isC && c.Value == nil {
				continue
			}
			// the read dominates every return
			dom := true
			for _, rb := range fn.Blocks {
				if _, isRet := rb.Instrs[len(rb.Instrs)-1].(*ssa.Return); isRet && !b.Dominates(rb) {
					dom = false
				}
			}
			if dom {
				return true
			}
		}
	}
	return false
}

// pureOfInvariants: the instruction computes a pure arithmetic function of values defined
// outside the loop (so it denotes the same value in every iteration).
func pureOfInvariants(ins ssa.Instruction, body map[*ssa.BasicBlock]bool, depth int) bool {
	if depth > 6 {
		return false
	}
	switch ins.(type) {
	case *ssa.BinOp, *ssa.Convert, *ssa.ChangeType:
	case *ssa.UnOp:
		if ins.(*ssa.UnOp).Op == token.MUL {
			return false // a load
		}
	default:
		if c, ok := ins.(*ssa.Call); ok {
			if b, ok := c.Call.Value.(*ssa.Builtin); ok && b.Name() == "len" {
				break
			}
		}
		return false
	}
	for _, op := range ins.Operands(nil) {
		switch v := (*op).(type) {
		case *ssa.Const, *ssa.Parameter, *ssa.Builtin:
		case ssa.Instruction:
			if v.Block() != nil && body[v.Block()] {
				if _, isPhi := v.(*ssa.Phi); isPhi {
					return false
				}
				if !pureOfInvariants(v, body, depth+1) {
					return false
				}
			}
		default:
			return false
		}
	}
	return true
}

// atomInvariant: the unknown denotes the same value in every iteration of the loop.
func (sa *Safe) atomInvariant(a, rankAtom atomID, fn *ssa.Function, body map[*ssa.BasicBlock]bool, depth int) bool {
	if a == rankAtom || depth > 6 {
		return false
	}
	if wi, ok := sa.u.atoms[a].Where.(ssa.Instruction); ok && wi != nil && wi.Block() != nil && wi.Parent() == fn && body[wi.Block()] {
		if !pureOfInvariants(wi, body, 0) {
			return false
		}
	}
	for _, d := range sa.u.atoms[a].Deps {
		if !sa.atomInvariant(d, rankAtom, fn, body, depth+1) {
			return false
		}
	}
	return true
}


// loopCensus counts the natural loops (distinct headers of back edges, on the dominator tree) of
// every function the analysis entered — independently of the ranking rules.
func (sa *Safe) loopCensus() int {
	n := 0
	for fn := range sa.w.AllFuncs() {
		if fn.Blocks == nil || !sa.Funcs[SSAFuncName(fn)] {
			continue
		}
		for _, h := range fn.Blocks {
			for _, p := range h.Preds {
				if h.Dominates(p) {
					n++
					break
				}
			}
		}
	}
	return n
}
