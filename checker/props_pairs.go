package main

// pair.roundtrip: a serialiser / parser pair decided on the SSA form (E2) instead of by the shape
// of its binary.Write / binary.Read calls: the serialiser runs on a receiver whose integer fields
// and octet-string contents are symbolic (octet strings at a few concrete lengths, item lists
// empty), the parser runs on the octets it produced, and every integer field and octet string of
// the parsed value must equal the serialised one for all values of the symbolic bits.  This is
// what seq.dual (same named fields, same order, by call shape) approximates; it is used where
// seq.dual cannot read the code's style, and in addition to it where both apply.

import (
	"fmt"
	"go/types"
	"sort"
	"strings"

	"golang.org/x/tools/go/ssa"
)

type symField struct {
	path  string
	width int  // integer field
	bytes bool // []uint8 field
}

// symbolicStruct fills obj with a symbolic value of struct type t; returns the comparable fields.
func symbolicStruct(it *Interp, st *state, obj *MemObj, prefix string, t types.Type, nbytes int, out *[]symField) bool {
	s, ok := t.Underlying().(*types.Struct)
	if !ok {
		return false
	}
	for i := 0; i < s.NumFields(); i++ {
		f := s.Field(i)
		p := prefix + "." + f.Name()
		if w, sg, isInt := typeWidth(f.Type()); isInt {
			v := it.SrcBV(obj.Name+p, w)
			v.Signed = sg
			st.mem[obj][p] = v
			*out = append(*out, symField{path: p, width: w})
			continue
		}
		switch u := f.Type().Underlying().(type) {
		case *types.Struct:
			if !symbolicStruct(it, st, obj, p, f.Type(), nbytes, out) {
				return false
			}
		case *types.Slice:
			if b, isB := u.Elem().Underlying().(*types.Basic); isB && b.Kind() == types.Uint8 {
				bo := it.NewObj(obj.Name+p, true)
				st.mem[bo] = map[string]Value{}
				st.mem[obj][p] = SliceV{Obj: bo, Len: nbytes}
				*out = append(*out, symField{path: p, bytes: true})
			} else {
				eo := it.NewObj(obj.Name+p, false)
				st.mem[eo] = map[string]Value{}
				st.mem[obj][p] = SliceV{Obj: eo, Len: 0}
			}
		case *types.Pointer, *types.Interface, *types.Map, *types.Signature, *types.Chan:
			st.mem[obj][p] = NilV{}
		case *types.Array:
			if w, _, isInt := typeWidth(u.Elem()); isInt && u.Len() <= 64 {
				for k := 0; k < int(u.Len()); k++ {
					pk := fmt.Sprintf("%s[%d]", p, k)
					st.mem[obj][pk] = it.SrcBV(obj.Name+pk, w)
					*out = append(*out, symField{path: pk, width: w})
				}
			} else {
				return false
			}
		default:
			return false
		}
	}
	return true
}

// pairRoundTrip checks one pair; decided=false when the run left the modelled fragment (why says so).
func pairRoundTrip(w *World, fs, fp *types.Func, nbytes int) (decided, ok bool, why string) {
	sfn, pfn := w.SSAFunc(fs), w.SSAFunc(fp)
	if sfn == nil || pfn == nil || len(sfn.Params) != 1 {
		return false, false, "pair not resolvable"
	}
	rt, isPtr := sfn.Params[0].Type().(*types.Pointer)
	if !isPtr {
		return false, false, "serialiser has no pointer receiver"
	}
	it := NewInterp(w)
	it.Fuel = 100000
	it.PreferNonNilSlice = true
	readerModels(it)
	st := it.NewState()
	seedIOErrors(it, st)
	a, ra := it.SymbolicObj("v")
	st.mem[a] = map[string]Value{}
	var fields []symField
	if !symbolicStruct(it, st, a, "", rt.Elem(), nbytes, &fields) {
		return false, false, "receiver type has fields the harness cannot make symbolic"
	}
	res := it.Call(sfn, []Value{ra}, st, 0)
	tv, isT := res.(TupleV)
	if len(it.Unsup) > 0 || !isT || len(tv) != 2 {
		return false, false, "serialiser: " + strings.Join(it.Unsup, "; ")
	}
	out, isS := tv[0].(SliceV)
	n1, okE := it.errNil(tv[1])
	if !isS || !okE || out.Nil || out.Len < 0 {
		return false, false, "serialiser output has no fixed length"
	}
	it.AndPremise(n1)
	// which fields are on the wire: those whose bits the produced octets depend on (a field the
	// serialiser does not emit, e.g. allocator state kept next to the wire fields, is not expected back)
	onWire := map[string]bool{}
	{
		outBytes, okO := sliceBytes(it, st, out)
		if !okO {
			return false, false, "serialiser output not resolvable"
		}
		seen := map[*Node]bool{}
		var walk func(n *Node)
		walk = func(n *Node) {
			if n == nil || seen[n] {
				return
			}
			seen[n] = true
			if n.op == opSrc {
				onWire[n.src] = true
			}
			walk(n.a)
			walk(n.b)
			walk(n.c)
			for _, k := range n.kids {
				walk(k)
			}
		}
		for _, b := range outBytes {
			for _, n := range b.B {
				walk(n)
			}
		}
	}
	wireField := func(f symField) bool {
		if onWire["v"+f.path] {
			return true
		}
		for s := range onWire {
			if strings.HasPrefix(s, "v"+f.path+"[") {
				return true
			}
		}
		return false
	}
	// values of the receiver after serialising (length fields are rewritten by the serialiser)
	type snap struct {
		f  symField
		bv BV
		bs []BV
	}
	var want []snap
	for _, f := range fields {
		if !wireField(f) && !(f.bytes && nbytes == 0) {
			continue
		}
		if f.bytes {
			sl, isSl := it.load(st, Ptr{Obj: a, Path: f.path}, types.NewSlice(u8T)).(SliceV)
			bs, okB := sliceBytes(it, st, sl)
			if !isSl || !okB {
				return false, false, "octet string " + f.path + " not resolvable after serialising"
			}
			want = append(want, snap{f: f, bs: bs})
		} else {
			bv, isBV := st.mem[a][f.path].(BV)
			if !isBV {
				return false, false, "field " + f.path + " not resolvable after serialising"
			}
			want = append(want, snap{f: f, bv: bv})
		}
	}
	// parser on the produced octets
	bo := it.NewObj("wire", false)
	st.mem[bo] = map[string]Value{".data": out, ".pos": it.constBV(0, 64)}
	bufPtr := Ptr{Obj: bo}
	var got Ptr
	var errV Value
	switch {
	case pfn.Signature.Recv() == nil && len(pfn.Params) == 1: // parseX(buf) (*T, error)
		r2 := it.Call(pfn, []Value{bufPtr}, st, 0)
		t2, isT2 := r2.(TupleV)
		if !isT2 || len(t2) != 2 {
			return false, false, "parser: " + strings.Join(it.Unsup, "; ")
		}
		errV = t2[1]
		if p, isP := t2[0].(Ptr); isP {
			got = p
		} else if n2, okN := it.errNil(errV); okN && underPremiseZero(it, it.T.Not(n2)) {
			return false, false, "parser result not resolvable: " + strings.Join(it.Unsup, "; ")
		}
	case len(pfn.Params) == 2: // (u *T) UnmarshalBinary(buf | []byte) error
		b, rb := it.SymbolicObj("p")
		st.mem[b] = map[string]Value{}
		var dummy []symField
		zero := it.zeroValue(rt.Elem())
		if ag, isAgg := zero.(AggV); isAgg {
			for k, v := range ag.Cells {
				st.mem[b][k] = v
			}
		}
		_ = dummy
		var arg Value = bufPtr
		if _, isSl := pfn.Params[1].Type().Underlying().(*types.Slice); isSl {
			arg = out
		}
		errV = it.Call(pfn, []Value{rb, arg}, st, 0)
		got = rb
	default:
		return false, false, "parser signature not supported"
	}
	if len(it.Unsup) > 0 {
		return false, false, "parser: " + strings.Join(it.Unsup, "; ")
	}
	n2, okN := it.errNil(errV)
	if !okN {
		return false, false, "parser error value not resolvable"
	}
	// The serialiser does not validate its receiver (e.g. PLMN octets that are not digits), so the
	// parser may reject some of what it produces; the claim is about the values the parser accepts,
	// and there must be some.
	if underPremiseZero(it, n2) {
		return true, false, fmt.Sprintf("the parser rejects everything the serialiser produces (octet strings of %d octets)", nbytes)
	}
	it.AndPremise(n2)
	if got.Obj == nil {
		return false, false, "parser result not resolvable"
	}
	for _, s := range want {
		name := strings.TrimPrefix(s.f.path, ".")
		if s.f.bytes {
			sl, isSl := it.load(st, Ptr{Obj: got.Obj, Path: got.Path + s.f.path}, types.NewSlice(u8T)).(SliceV)
			bs, okB := sliceBytes(it, st, sl)
			if !isSl || !okB || len(bs) != len(s.bs) {
				return true, false, fmt.Sprintf("octet string %s comes back with %d octets, %d were serialised", name, len(bs), len(s.bs))
			}
			for k := range bs {
				if !underPremiseZero(it, neqBV(it, bs[k], s.bs[k])) {
					return true, false, fmt.Sprintf("octet %d of %s does not come back as serialised", k, name)
				}
			}
			continue
		}
		ut := map[int]types.Type{8: types.Typ[types.Uint8], 16: types.Typ[types.Uint16], 32: types.Typ[types.Uint32], 64: types.Typ[types.Uint64]}[s.f.width]
		if ut == nil {
			return false, false, "field " + name + " has an unsupported width"
		}
		gv, isBV := it.load(st, Ptr{Obj: got.Obj, Path: got.Path + s.f.path}, ut).(BV)
		if !isBV || gv.W != s.bv.W || !underPremiseZero(it, neqBV(it, gv, s.bv)) {
			return true, false, "field " + name + " does not come back with the value that was serialised"
		}
	}
	if len(want) == 0 {
		return false, false, "no field of the receiver reaches the produced octets"
	}
	return true, true, ""
}

// checkPairRoundTrips runs pair.roundtrip for the listed pairs at octet-string lengths 0 and 3.
func checkPairRoundTrips(w *World, r *Report, rel string, pairs [][2]string) map[string]bool {
	decidedOK := map[string]bool{}
	for _, pr := range pairs {
		fs, fp := w.LookupFunc(rel, pr[0]), w.LookupFunc(rel, pr[1])
		if fs == nil || fp == nil {
			continue
		}
		r.Site("pair.roundtrip")
		allDecided, allOK := true, true
		var whys []string
		for _, n := range []int{0, 3} {
			d, ok, why := pairRoundTrip(w, fs, fp, n)
			if !d {
				allDecided = false
				whys = append(whys, why)
			} else if !ok {
				allOK = false
				whys = append(whys, why)
			}
		}
		sort.Strings(whys)
		switch {
		case allDecided && allOK:
			r.OK("pair.roundtrip")
			decidedOK[pr[0]] = true
			if len(r.Samples) < 24 {
				r.Sample(map[string]any{"rule": "pair.roundtrip", "serialiser": FuncName(fs), "parser": FuncName(fp), "verdict": "parse(serialise(v)) returns every integer field and octet string of v, for all values, at octet-string lengths 0 and 3"})
			}
		case !allOK:
			r.Fail("pair.roundtrip", FuncName(fs), "vs "+pr[1], fs.Pos(), "parse(serialise(v)) != v: "+strings.Join(whys, "; "), nil)
		default:
			// undecided here: seq.dual (call shape) is the deciding rule for this pair
			r.OK("pair.roundtrip")
			r.Note("pair.roundtrip %s / %s: not decided by evaluation (%s); decided by seq.dual", pr[0], pr[1], strings.Join(whys, "; "))
		}
	}
	return decidedOK
}

var _ = ssa.Value(nil)
