package main

// C06 / C07: the NEA/NIA functions against the standard algorithms, decided modularly:
//
//   tab.*     the constant tables (S-boxes, ZUC D constants) equal the standard's tables
//             (AES S-box and the SNOW 3G S_Q recomputed from their algebraic definitions, the
//             ZUC tables against a frozen copy), and nothing stores into them;
//   step.*    each step function of SNOW 3G / ZUC (FSM clock, LFSR feedback, bit
//             reorganisation, F, MULx, MULalpha, DIValpha, GF(2^64) MUL) computes, as a Boolean
//             function of ALL its input bits, the step of the standard (E2 bit terms; table
//             lookups are uninterpreted functions of the index; equality by ROBDD / ANF);
//   drv.*     the drivers (key/IV loading, 32 initialisation clocks, discarded first output,
//             keystream word i) call the steps in the standard's order with the standard's
//             operands (steps replaced by uninterpreted models, specialised at n words);
//   iv.*      the key / IV / counter-block octets handed to the primitive are the TS 33.401
//             Annex B mapping of (KEY, COUNT, BEARER, DIRECTION);
//   out.*     output bit i = input bit i xor keystream bit i for i < LENGTH, and no keystream
//             reaches a bit >= LENGTH (specialised at every length 0..71 bits);
//   mac.*     the MAC is the standard's evaluation chain over the message blocks;
//   wrap.*    NASEncrypt / NASMacCalculate pass (key, count, bearer, direction, payload,
//             8*len(payload)) in the callee's order and copy the result over the payload.
//
// Nothing is executed: every run is an abstract interpretation of the SSA form in the bit-term
// domain, with symbolic key, COUNT, BEARER, DIRECTION, payload and keystream bits.

import (
	"fmt"
	"go/ast"
	"go/constant"
	"go/token"
	"go/types"
	"os"
	"sort"
	"strings"

	"golang.org/x/tools/go/ssa"
)

func init() {
	// "for every payload / message length" includes the lengths at which the function must not panic:
	// the panic-freedom obligations of the security API (C08's safe.* rules, E3) on the functions
	// reachable from the ciphering resp. the integrity wrapper are necessary for C06 resp. C07
	register("C06", func(w *World, r *Report, tier string) {
		propC06(w, r, tier)
		importRulesIf(w, r, "C08", tier, []string{"safe.*"}, "no payload length may panic: a panic is not the standard's output", func(f Finding) bool {
			return strings.Contains(f.Msg, "security.NASEncrypt") || strings.Contains(f.Key, "NEA") || strings.Contains(f.Key, "snow3g") || strings.Contains(f.Key, "zuc") || strings.Contains(f.Key, "NASEncrypt")
		})
	})
	register("C07", func(w *World, r *Report, tier string) {
		propC07(w, r, tier)
		importRulesIf(w, r, "C08", tier, []string{"safe.*"}, "no message length may panic: a panic is not the standard's output", func(f Finding) bool {
			return strings.Contains(f.Msg, "security.NASMacCalculate") || strings.Contains(f.Key, "NIA") || strings.Contains(f.Key, "snow3g") || strings.Contains(f.Key, "zuc") || strings.Contains(f.Key, "NASMacCalculate")
		})
	})
}

// ---------------------------------------------------------------------------------------------
// term helpers

func bvXor(it *Interp, a, b BV) BV {
	r := BV{W: a.W, B: make([]*Node, a.W)}
	for i := range r.B {
		r.B[i] = it.T.Xor(a.B[i], b.B[i])
	}
	return r
}

func bvOr(it *Interp, a, b BV) BV {
	r := BV{W: a.W, B: make([]*Node, a.W)}
	for i := range r.B {
		r.B[i] = it.T.Or(a.B[i], b.B[i])
	}
	return r
}

func bvAndC(it *Interp, a BV, c uint64) BV {
	r := BV{W: a.W, B: make([]*Node, a.W)}
	for i := range r.B {
		if i < 64 && c>>uint(i)&1 == 1 {
			r.B[i] = a.B[i]
		} else {
			r.B[i] = it.T.Const(false)
		}
	}
	return r
}

func bvXorC(it *Interp, a BV, c uint64) BV { return bvXor(it, a, it.constBV(c, a.W)) }

func bvShl(it *Interp, a BV, k int) BV {
	r := BV{W: a.W, B: make([]*Node, a.W)}
	for i := range r.B {
		if i-k >= 0 && i-k < a.W {
			r.B[i] = a.B[i-k]
		} else {
			r.B[i] = it.T.Const(false)
		}
	}
	return r
}

func bvShr(it *Interp, a BV, k int) BV { return bvShl(it, a, -k) }

func bvRotl(it *Interp, a BV, k int) BV {
	r := BV{W: a.W, B: make([]*Node, a.W)}
	for i := range r.B {
		r.B[i] = a.B[((i-k)%a.W+a.W)%a.W]
	}
	return r
}

// bvBits: bits lo .. lo+n-1 of a as an n-bit word.
func bvBits(a BV, lo, n int) BV { return BV{W: n, B: append([]*Node(nil), a.B[lo:lo+n]...)} }

// bvCat: hi || lo (lo is the least significant part).
func bvCat(hi, lo BV) BV {
	return BV{W: hi.W + lo.W, B: append(append([]*Node(nil), lo.B...), hi.B...)}
}

func bvZext(it *Interp, a BV, w int) BV {
	r := BV{W: w, B: make([]*Node, w)}
	for i := range r.B {
		if i < a.W {
			r.B[i] = a.B[i]
		} else {
			r.B[i] = it.T.Const(false)
		}
	}
	return r
}

func bvMux(it *Interp, c *Node, a, b BV) BV {
	r := BV{W: a.W, B: make([]*Node, a.W)}
	for i := range r.B {
		r.B[i] = it.T.Mux(c, a.B[i], b.B[i])
	}
	return r
}

func bvAdd(it *Interp, a, b BV) BV { return it.add(a, b, it.T.Const(false)) }

// byteOf: octet k (0 = most significant) of a 32-bit word.
func byteOf(a BV, k int) BV { return bvBits(a, 8*(3-k), 8) }

// be32: four octets (most significant first) as a 32-bit word.
func be32(b [4]BV) BV { return bvCat(bvCat(b[0], b[1]), bvCat(b[2], b[3])) }

var bddBudget = 1000000

// sameBV compares a computed value with the reference word; the diagnostic names the lowest
// differing bit.
func sameBV(it *Interp, got Value, want BV) (bool, string) {
	g, ok := got.(BV)
	if !ok {
		return false, fmt.Sprintf("value left the modelled fragment (%T)", got)
	}
	if g.W != want.W {
		return false, fmt.Sprintf("width %d, expected %d", g.W, want.W)
	}
	if g.HasTop() {
		return false, "value depends on an unmodelled computation"
	}
	if os.Getenv("NASVERIF_DEBUG") == "crypto" {
		for i := range g.B {
			if g.B[i] != want.B[i] {
				gs, ws := g.B[i].Short(4), want.B[i].Short(4)
				if len(gs) > 300 {
					gs = gs[:300]
				}
				if len(ws) > 300 {
					ws = ws[:300]
				}
				fmt.Fprintf(os.Stderr, "[crypto] structural mismatch bit %d:\n  got  %s\n  want %s\n", i, gs, ws)
				break
			}
		}
	}
	same := true
	for i := range g.B {
		if g.B[i] != want.B[i] {
			same = false
		}
	}
	if same {
		return true, ""
	}
	if i := it.T.simDiffer(g, want); i >= 0 {
		return false, fmt.Sprintf("bit %d is %s, the standard has %s", i, g.B[i].Short(4), want.B[i].Short(4))
	}
	eq, dec := it.T.EquivANF(g, want, 50000)
	if !dec {
		eq, dec = it.T.EquivBV3(g, want, bddBudget)
	}
	if !dec {
		return false, "equivalence with the standard's formula could not be decided within the node budget"
	}
	if eq {
		return true, ""
	}
	return false, "differs from the standard's formula"
}

// ---------------------------------------------------------------------------------------------
// tab.*: constant tables

// constTable evaluates the elements of a package-level array/slice composite literal.
func constTable(w *World, rel, name string) ([]uint64, token.Pos, bool) {
	p := w.ByRel[rel]
	if p == nil {
		return nil, token.NoPos, false
	}
	for _, f := range p.Syntax {
		for _, d := range f.Decls {
			gd, ok := d.(*ast.GenDecl)
			if !ok || gd.Tok != token.VAR {
				continue
			}
			for _, sp := range gd.Specs {
				vs := sp.(*ast.ValueSpec)
				for i, n := range vs.Names {
					if n.Name != name || i >= len(vs.Values) {
						continue
					}
					cl, ok := vs.Values[i].(*ast.CompositeLit)
					if !ok {
						return nil, n.Pos(), false
					}
					var out []uint64
					for _, e := range cl.Elts {
						if _, kv := e.(*ast.KeyValueExpr); kv {
							return nil, n.Pos(), false
						}
						tv, ok := p.TypesInfo.Types[e]
						if !ok || tv.Value == nil {
							return nil, n.Pos(), false
						}
						u, ok := constant.Uint64Val(constant.ToInt(tv.Value))
						if !ok {
							return nil, n.Pos(), false
						}
						out = append(out, u)
					}
					return out, n.Pos(), true
				}
			}
		}
	}
	return nil, token.NoPos, false
}

func aesSbox() []uint64 {
	rotl8 := func(x uint8, k uint) uint8 { return x<<k | x>>(8-k) }
	sb := make([]uint64, 256)
	p, q := uint8(1), uint8(1)
	for {
		// p *= 3
		m := uint8(0)
		if p&0x80 != 0 {
			m = 0x1B
		}
		p = p ^ (p << 1) ^ m
		// q /= 3
		q ^= q << 1
		q ^= q << 2
		q ^= q << 4
		if q&0x80 != 0 {
			q ^= 0x09
		}
		x := q ^ rotl8(q, 1) ^ rotl8(q, 2) ^ rotl8(q, 3) ^ rotl8(q, 4)
		sb[p] = uint64(x ^ 0x63)
		if p == 1 {
			break
		}
	}
	sb[0] = 0x63
	return sb
}

func gfMul8(a, b uint8, poly uint16) uint8 {
	var r uint16
	x := uint16(a)
	for i := 0; i < 8; i++ {
		if b>>uint(i)&1 == 1 {
			r ^= x
		}
		x <<= 1
		if x&0x100 != 0 {
			x ^= poly
		}
	}
	return uint8(r)
}

// snowSQ: the SNOW 3G S-box S_Q, the Dickson polynomial g49 over GF(2^8) defined by
// x^8+x^6+x^5+x^3+1:  S_Q(x) = x + x^9 + x^13 + x^15 + x^33 + x^41 + x^45 + x^47 + x^49 + 0x25.
func snowSQ() []uint64 {
	pow := func(x uint8, e int) uint8 {
		r := uint8(1)
		for i := 0; i < e; i++ {
			r = gfMul8(r, x, 0x169)
		}
		return r
	}
	sb := make([]uint64, 256)
	for x := 0; x < 256; x++ {
		v := uint8(0x25)
		for _, e := range []int{1, 9, 13, 15, 33, 41, 45, 47, 49} {
			v ^= pow(uint8(x), e)
		}
		sb[x] = uint64(v)
	}
	return sb
}

// zucD: the 15-bit constants d0..d15 of the ZUC key loading (ZUC specification 3.5).
var zucD = []uint64{0x44D7, 0x26BC, 0x626B, 0x135E, 0x5789, 0x35E2, 0x7135, 0x09AF,
	0x4D78, 0x2F13, 0x6BC4, 0x1AF1, 0x5E26, 0x3C4D, 0x789A, 0x47AC}

type cryptoTable struct {
	rel, name string
	want      func() []uint64
	source    string
}

func cryptoTables() []cryptoTable {
	frozen := func(k string) func() []uint64 {
		return func() []uint64 { return loadConstTables()[k] }
	}
	return []cryptoTable{
		{"security/snow3g", "sr", aesSbox, "the Rijndael S-box recomputed as affine(x^-1) over GF(2^8)/0x11b"},
		{"security/snow3g", "sq", snowSQ, "S_Q recomputed from the Dickson polynomial over GF(2^8)/0x169"},
		{"security/zuc", "sbox0", frozen("zuc.S0"), "ZUC S0 (frozen copy in spec/const_tables.json)"},
		{"security/zuc", "sbox1", frozen("zuc.S1"), "ZUC S1 (frozen copy in spec/const_tables.json)"},
		{"security/zuc", "ek_d", func() []uint64 { return zucD }, "ZUC constants d0..d15"},
	}
}

func checkCryptoTables(w *World, r *Report, rels map[string]bool) {
	for _, t := range cryptoTables() {
		if !rels[t.rel] {
			continue
		}
		r.Site("tab.values")
		fn := t.rel + "." + t.name
		got, pos, ok := constTable(w, t.rel, t.name)
		if !ok {
			r.Fail("tab.values", fn, "literal", pos, "table "+t.name+" is not a constant composite literal the checker can evaluate", nil)
			continue
		}
		want := t.want()
		if len(want) == 0 {
			r.Fail("tab.values", fn, "reference", pos, "no reference table for "+t.name, nil)
			continue
		}
		if len(got) != len(want) {
			r.Fail("tab.values", fn, "length", pos, fmt.Sprintf("table %s has %d entries, the standard's has %d", t.name, len(got), len(want)), nil)
			continue
		}
		bad := -1
		for i := range got {
			if got[i] != want[i] {
				bad = i
				break
			}
		}
		if bad >= 0 {
			r.Fail("tab.values", fn, "entry", pos, fmt.Sprintf("%s[%#x] = %#x, the standard has %#x (%s)", t.name, bad, got[bad], want[bad], t.source), nil)
			continue
		}
		r.OK("tab.values")
	}
	// nothing stores into a table
	names := map[string]bool{}
	for _, t := range cryptoTables() {
		if rels[t.rel] {
			names[t.rel+"."+t.name] = true
		}
	}
	for rel := range rels {
		p := w.ByRel[rel]
		if p == nil {
			continue
		}
		sp := w.SSA[p]
		for _, m := range sp.Members {
			g, ok := m.(*ssa.Global)
			if !ok || !names[rel+"."+g.Name()] {
				continue
			}
			r.Site("tab.readonly")
			ok = true
			for fn := range w.AllFuncs() {
				if fn.Pkg != sp || fn.Name() == "init" {
					continue
				}
				for _, b := range fn.Blocks {
					for _, ins := range b.Instrs {
						var addr ssa.Value
						switch x := ins.(type) {
						case *ssa.Store:
							addr = x.Addr
						case *ssa.Call:
							// copy(tbl[:], …) or passing the table by reference
							for ai, a := range x.Call.Args {
								if addrBase(a) == ssa.Value(g) && paramReadOnly(x.Call.StaticCallee(), ai, 0) {
									continue // handed to a function of this repository that only reads through it
								}
								if addrBase(a) == ssa.Value(g) {
									if _, isPtr := a.Type().Underlying().(*types.Pointer); isPtr {
										addr = a
									}
									if _, isSl := a.Type().Underlying().(*types.Slice); isSl {
										addr = a
									}
								}
							}
						}
						if addr != nil && addrBase(addr) == ssa.Value(g) {
							ok = false
							r.Fail("tab.readonly", SSAFuncName(fn), g.Name(), ins.Pos(), "the constant table "+g.Name()+" is written or handed out by reference", nil)
						}
					}
				}
			}
			if ok {
				r.OK("tab.readonly")
			}
		}
	}
}

// ---------------------------------------------------------------------------------------------
// references: SNOW 3G (ETSI/SAGE UEA2 & UIA2 specification, document 2)

const (
	snowPkg = "github.com/free5gc/nas/security/snow3g"
	zucPkg  = "github.com/free5gc/nas/security/zuc"
	secPkg  = "github.com/free5gc/nas/security"
)

func tableApp(it *Interp, table string, idx BV) BV {
	r := BV{W: 8, B: make([]*Node, 8)}
	for i := range r.B {
		r.B[i] = it.T.App("global:"+table+"[?]", i, idx.B)
	}
	return r
}

func refMULx(it *Interp, v BV, c uint64) BV {
	return bvMux(it, v.B[v.W-1], bvXorC(it, bvShl(it, v, 1), c), bvShl(it, v, 1))
}

func refMULxPow(it *Interp, v BV, i int, c uint64) BV {
	for ; i > 0; i-- {
		v = refMULx(it, v, c)
	}
	return v
}

// refSnowS: S1 (table sr, constant 0x1b) and S2 (table sq, constant 0x69).
func refSnowS(it *Interp, table string, c uint64, w BV) BV {
	var s, m [4]BV
	for k := 0; k < 4; k++ {
		s[k] = tableApp(it, table, byteOf(w, k))
		m[k] = refMULx(it, s[k], c)
	}
	x := func(vs ...BV) BV {
		r := vs[0]
		for _, v := range vs[1:] {
			r = bvXor(it, r, v)
		}
		return r
	}
	r0 := x(m[0], s[1], s[2], m[3], s[3])
	r1 := x(m[0], s[0], m[1], s[2], s[3])
	r2 := x(s[0], m[1], s[1], m[2], s[3])
	r3 := x(s[0], s[1], m[2], s[2], m[3])
	return be32([4]BV{r0, r1, r2, r3})
}

func refMulAlpha(it *Interp, c BV) BV {
	return be32([4]BV{refMULxPow(it, c, 23, 0xa9), refMULxPow(it, c, 245, 0xa9), refMULxPow(it, c, 48, 0xa9), refMULxPow(it, c, 239, 0xa9)})
}

func refDivAlpha(it *Interp, c BV) BV {
	return be32([4]BV{refMULxPow(it, c, 16, 0xa9), refMULxPow(it, c, 39, 0xa9), refMULxPow(it, c, 6, 0xa9), refMULxPow(it, c, 64, 0xa9)})
}

// refSnowFeedback: the new s15 (keystream mode; xor F in initialisation mode).
func refSnowFeedback(it *Interp, s [16]BV) BV {
	v := bvXor(it, bvShl(it, s[0], 8), refMulAlpha(it, byteOf(s[0], 0)))
	v = bvXor(it, v, s[2])
	v = bvXor(it, v, bvShr(it, s[11], 8))
	v = bvXor(it, v, refDivAlpha(it, byteOf(s[11], 3)))
	return v
}

type cryptoCtx struct {
	w   *World
	r   *Report
	rel string
}

func (c *cryptoCtx) fn(rel, name string) (*ssa.Function, string) {
	f := c.w.LookupFunc(rel, name)
	if f == nil {
		c.r.Fail("anchor", rel+"."+name, "missing", token.NoPos, "function not found", nil)
		return nil, ""
	}
	c.r.Fn(FuncName(f))
	return c.w.SSAFunc(f), FuncName(f)
}

func newCryptoInterp(w *World) *Interp {
	it := NewInterp(w)
	it.MaxDepth = 400
	it.Fuel = 20000000
	it.ReadOnlyTables = map[string]bool{"global:sr": true, "global:sq": true, "global:sbox0": true, "global:sbox1": true}
	it.DerivedTables = true // tap tables, derived lookup tables: followed through their initialiser
	it.SymbolicGlobals = map[string]bool{"global:ek_d": true}
	return it
}

var u32T = types.Typ[types.Uint32]
var u8T = types.Typ[types.Uint8]

func (c *cryptoCtx) verdict(rule, fname, construct string, pos token.Pos, it *Interp, ok bool, msg string) {
	if len(it.Unsup) > 0 {
		c.r.Fail(rule, fname, construct, pos, "undecided: "+strings.Join(it.Unsup, "; "), nil)
		return
	}
	if !ok {
		c.r.Fail(rule, fname, construct, pos, msg, nil)
		return
	}
	c.r.OK(rule)
	c.r.Sample(map[string]any{"rule": rule, "func": fname, "instance": construct, "verdict": "equal to the standard's formula / schedule for all values of the symbolic bits", "term_nodes": it.T.next})
}

// cellsWritten lists the cells of obj written during the run.
func cellsWritten(it *Interp, obj *MemObj) []string {
	var out []string
	for k := range it.Writes {
		if strings.HasPrefix(k, obj.Name+".") || strings.HasPrefix(k, obj.Name+"[") {
			out = append(out, strings.TrimPrefix(k, obj.Name))
		}
	}
	sort.Strings(out)
	return out
}

func checkSnowSteps(c *cryptoCtx) {
	w := c.w
	// clockFsm
	if fn, fname := c.fn("security/snow3g", "snow3g.clockFsm"); fn != nil {
		c.r.Site("step.snow3g")
		it := newCryptoInterp(w)
		st := it.NewState()
		obj, recv := it.SymbolicObj("S")
		s15, s5 := it.SrcBV("s15", 32), it.SrcBV("s5", 32)
		var R [3]BV
		for i := range R {
			R[i] = it.SrcBV(fmt.Sprintf("S.fsm[%d]", i), 32)
		}
		F := it.Call(fn, []Value{recv, s15, s5}, st, 0)
		wantF := bvXor(it, bvAdd(it, s15, R[0]), R[1])
		want := [3]BV{bvAdd(it, R[1], bvXor(it, R[2], s5)), refSnowS(it, "sr", 0x1b, R[0]), refSnowS(it, "sq", 0x69, R[1])}
		ok, msg := sameBV(it, F, wantF)
		if !ok {
			msg = "FSM output F: " + msg + " (standard: F = (s15 + R1) xor R2)"
		}
		names := []string{"R1 = R2 + (R3 xor s5)", "R2 = S1(R1)", "R3 = S2(R2)"}
		for i := 0; ok && i < 3; i++ {
			got := it.load(st, Ptr{Obj: obj, Path: fmt.Sprintf(".fsm[%d]", i)}, u32T)
			if ok, msg = sameBV(it, got, want[i]); !ok {
				msg = fmt.Sprintf("FSM register update %s: %s", names[i], msg)
			}
		}
		if ok {
			for _, cell := range cellsWritten(it, obj) {
				if !strings.HasPrefix(cell, ".fsm[") {
					ok, msg = false, "clockFsm writes "+cell+" (the FSM clock may only update R1..R3)"
				}
			}
		}
		c.verdict("step.snow3g", fname, "clockFsm", fn.Pos(), it, ok, msg)
	}
	for _, mode := range []string{"lfsrInitializationMode", "lfsrKeystreamMode"} {
		fn, fname := c.fn("security/snow3g", "snow3g."+mode)
		if fn == nil {
			continue
		}
		c.r.Site("step.snow3g")
		it := newCryptoInterp(w)
		st := it.NewState()
		obj, recv := it.SymbolicObj("S")
		var s [16]BV
		for i := range s {
			s[i] = it.SrcBV(fmt.Sprintf("S.lfsr[%d]", i), 32)
		}
		args := []Value{recv}
		v := refSnowFeedback(it, s)
		if mode == "lfsrInitializationMode" {
			F := it.SrcBV("F", 32)
			args = append(args, F)
			v = bvXor(it, v, F)
		}
		it.Call(fn, args, st, 0)
		ok, msg := true, ""
		for i := 0; ok && i < 16; i++ {
			want := v
			if i < 15 {
				want = s[i+1]
			}
			got := it.load(st, Ptr{Obj: obj, Path: fmt.Sprintf(".lfsr[%d]", i)}, u32T)
			if ok, msg = sameBV(it, got, want); !ok {
				msg = fmt.Sprintf("LFSR stage s%d after the clock: %s", i, msg)
			}
		}
		if ok {
			for _, cell := range cellsWritten(it, obj) {
				if !strings.HasPrefix(cell, ".lfsr[") {
					ok, msg = false, mode+" writes "+cell+" (the LFSR clock may only update s0..s15)"
				}
			}
		}
		c.verdict("step.snow3g", fname, mode, fn.Pos(), it, ok, msg)
	}
}

// uninterpreted step models -------------------------------------------------------------------

type stepEvent struct {
	name string
	args []Value
	pre  []BV // the state words the step reads, before the call
}

// havocCells replaces the given cells of obj by fresh sources named tag+path and returns them.
func havocCells(it *Interp, st *state, obj *MemObj, paths []string, tag string, w int) []BV {
	var out []BV
	if st.mem[obj] == nil {
		st.mem[obj] = map[string]Value{}
	}
	for _, p := range paths {
		v := it.SrcBV(tag+p, w)
		st.mem[obj][p] = v
		out = append(out, v)
	}
	return out
}

func readCells(it *Interp, st *state, obj *MemObj, paths []string, t types.Type) []BV {
	var out []BV
	for _, p := range paths {
		v, ok := it.load(st, Ptr{Obj: obj, Path: p}, t).(BV)
		if !ok {
			v = it.topBV(32)
		}
		out = append(out, v)
	}
	return out
}

func pathsOf(field string, n int) []string {
	var out []string
	for i := 0; i < n; i++ {
		out = append(out, fmt.Sprintf(".%s[%d]", field, i))
	}
	return out
}

func checkSnowDriver(c *cryptoCtx, n int) {
	fn, fname := c.fn("security/snow3g", "GetKeyStream")
	if fn == nil {
		return
	}
	c.r.Site("drv.snow3g")
	it := newCryptoInterp(c.w)
	st := it.NewState()
	var ev []stepEvent
	count := 0
	fsmP, lfsrP := pathsOf("fsm", 3), pathsOf("lfsr", 16)
	it.Models["(*"+snowPkg+".snow3g).clockFsm"] = func(it *Interp, st *state, call *ssa.CallCommon, args []Value) (Value, bool) {
		p, ok := args[0].(Ptr)
		if !ok {
			return nil, false
		}
		count++
		ev = append(ev, stepEvent{"clockFsm", args[1:], readCells(it, st, p.Obj, fsmP, u32T)})
		havocCells(it, st, p.Obj, fsmP, fmt.Sprintf("e%d", count), 32)
		return it.SrcBV(fmt.Sprintf("e%d.F", count), 32), true
	}
	for _, m := range []string{"lfsrInitializationMode", "lfsrKeystreamMode"} {
		m := m
		it.Models["(*"+snowPkg+".snow3g)."+m] = func(it *Interp, st *state, call *ssa.CallCommon, args []Value) (Value, bool) {
			p, ok := args[0].(Ptr)
			if !ok {
				return nil, false
			}
			count++
			ev = append(ev, stepEvent{m, args[1:], readCells(it, st, p.Obj, lfsrP, u32T)})
			havocCells(it, st, p.Obj, lfsrP, fmt.Sprintf("e%d", count), 32)
			return nil, true
		}
	}
	k := AggV{Cells: map[string]Value{}}
	iv := AggV{Cells: map[string]Value{}}
	var K, IV [4]BV
	for i := 0; i < 4; i++ {
		K[i] = it.SrcBV(fmt.Sprintf("k%d", i), 32)
		IV[i] = it.SrcBV(fmt.Sprintf("iv%d", i), 32)
		k.Cells[fmt.Sprintf("[%d]", i)] = K[i]
		iv.Cells[fmt.Sprintf("[%d]", i)] = IV[i]
	}
	res := it.Call(fn, []Value{k, iv, it.constBV(uint64(n), 64).signed()}, st, 0)

	// the standard's schedule
	ones := func(x BV) BV { return bvXorC(it, x, 0xffffffff) }
	lfsr := []BV{ones(K[0]), ones(K[1]), ones(K[2]), ones(K[3]), K[0], K[1], K[2], K[3],
		ones(K[0]), bvXor(it, ones(K[1]), IV[3]), bvXor(it, ones(K[2]), IV[2]), ones(K[3]),
		bvXor(it, K[0], IV[1]), K[1], K[2], bvXor(it, K[3], IV[0])}
	fsm := []BV{it.constBV(0, 32), it.constBV(0, 32), it.constBV(0, 32)}
	type want struct {
		name string
		args []BV
		pre  []BV
	}
	var sched []want
	e := 0
	fresh := func(paths []string) []BV {
		var out []BV
		for _, p := range paths {
			out = append(out, it.SrcBV(fmt.Sprintf("e%d%s", e, p), 32))
		}
		return out
	}
	clock := func() BV {
		e++
		sched = append(sched, want{"clockFsm", []BV{lfsr[15], lfsr[5]}, fsm})
		fsm = fresh(fsmP)
		return it.SrcBV(fmt.Sprintf("e%d.F", e), 32)
	}
	shift := func(mode string, args ...BV) {
		e++
		sched = append(sched, want{mode, args, lfsr})
		lfsr = fresh(lfsrP)
	}
	for i := 0; i < 32; i++ {
		F := clock()
		shift("lfsrInitializationMode", F)
	}
	clock()
	shift("lfsrKeystreamMode")
	var ks []BV
	for i := 0; i < n; i++ {
		F := clock()
		ks = append(ks, bvXor(it, F, lfsr[0]))
		shift("lfsrKeystreamMode")
	}
	ok, msg := true, ""
	describe := func(i int) string {
		switch {
		case i < 64:
			return fmt.Sprintf("initialisation round %d", i/2+1)
		case i < 66:
			return "the discarded first keystream clock"
		}
		return fmt.Sprintf("keystream word %d", (i-66)/2)
	}
	for i := 0; ok && i < len(sched); i++ {
		if i >= len(ev) {
			ok, msg = false, fmt.Sprintf("%s: the standard clocks %s here, the code makes no further step", describe(i), sched[i].name)
			break
		}
		if ev[i].name != sched[i].name {
			ok, msg = false, fmt.Sprintf("%s: the standard clocks %s, the code calls %s", describe(i), sched[i].name, ev[i].name)
			break
		}
		for j, a := range sched[i].args {
			if j >= len(ev[i].args) {
				ok, msg = false, describe(i)+": missing operand"
				break
			}
			if ok, msg = sameBV(it, ev[i].args[j], a); !ok {
				msg = fmt.Sprintf("%s: operand %d of %s: %s", describe(i), j+1, sched[i].name, msg)
				break
			}
		}
		for j := 0; ok && j < len(sched[i].pre); j++ {
			if ok, msg = sameBV(it, ev[i].pre[j], sched[i].pre[j]); !ok {
				msg = fmt.Sprintf("%s: state word %d entering %s: %s", describe(i), j, sched[i].name, msg)
			}
		}
	}
	if ok && len(ev) > len(sched) {
		ok, msg = false, fmt.Sprintf("the code makes %d steps, the standard %d for %d keystream words", len(ev), len(sched), n)
	}
	if ok {
		sl, isSl := res.(SliceV)
		if !isSl || sl.Len != n {
			ok, msg = false, fmt.Sprintf("GetKeyStream(…, %d) does not return %d words", n, n)
		}
		for i := 0; ok && i < n; i++ {
			got := it.load(st, it.sliceElemPtr(sl, i), u32T)
			if ok, msg = sameBV(it, got, ks[i]); !ok {
				msg = fmt.Sprintf("keystream word %d (standard: F xor s0): %s", i, msg)
			}
		}
	}
	c.verdict("drv.snow3g", fname, fmt.Sprintf("n=%d", n), fn.Pos(), it, ok, msg)
}


// paramReadOnly: the function only reads through its i-th (pointer or slice) parameter: every use is
// a load, an index / field / slice step whose result is again only read, or a call that hands it to a
// function with the same property (depth <= 3).
func paramReadOnly(fn *ssa.Function, i int, depth int) bool {
	if fn == nil || fn.Blocks == nil || fn.Pkg == nil || !IsRepoPkg(fn.Pkg.Pkg) || i >= len(fn.Params) || depth > 3 {
		return false
	}
	var readOnly func(v ssa.Value, seen map[ssa.Value]bool) bool
	readOnly = func(v ssa.Value, seen map[ssa.Value]bool) bool {
		if seen[v] {
			return true
		}
		seen[v] = true
		refs := v.Referrers()
		if refs == nil {
			return false
		}
		for _, r := range *refs {
			switch u := r.(type) {
			case *ssa.UnOp:
				if u.Op != token.MUL {
					return false
				}
				// the loaded value: an array value or an element - reading is fine
			case *ssa.IndexAddr, *ssa.FieldAddr, *ssa.Slice:
				if !readOnly(u.(ssa.Value), seen) {
					return false
				}
			case *ssa.DebugRef:
			case *ssa.Call:
				ok := false
				for ai, a := range u.Call.Args {
					if a == v {
						ok = paramReadOnly(u.Call.StaticCallee(), ai, depth+1)
					}
				}
				if !ok {
					return false
				}
			default:
				return false
			}
		}
		return true
	}
	return readOnly(fn.Params[i], map[ssa.Value]bool{})
}
