package main

// C17, time helpers: time zone octet (TS 24.008 10.5.3.8 / TS 23.040 9.2.3.11), daylight saving
// time and the universal time fields.

import (
	"fmt"
	"os"

	"golang.org/x/tools/go/ssa"
)

// refZoneQuarters: the signed number of quarters of an hour a time zone octet stands for, and
// whether its digits are valid: low nibble = tens (3 bits) with bit 3 = sign, high nibble = units.
func refZoneQuarters(it *Interp, oct BV) (BV, *Node) {
	tens := bvZext(it, bvBits(oct, 0, 3), 16)
	units := bvZext(it, bvBits(oct, 4, 4), 16)
	sign := oct.B[3]
	mag := bvAdd(it, bvAdd(it, bvShl(it, tens, 3), bvShl(it, tens, 1)), units)
	neg := it.sub(it.constBV(0, 16), mag)
	valid := it.T.Not(it.T.And(oct.B[7], it.T.Or(oct.B[6], oct.B[5]))) // units <= 9
	return bvMux(it, sign, neg, mag), valid
}

func underPremiseZero(it *Interp, n *Node) bool {
	if it.Premise != nil {
		n = it.T.And(it.Premise, n)
	}
	z, dec := decideZero(it, n)
	return z && dec
}

func neqBV(it *Interp, a, b BV) *Node {
	d := it.T.zero
	for i := range a.B {
		d = it.T.Or(d, it.T.Xor(a.B[i], b.B[i]))
	}
	return d
}

func obligationsHold(it *Interp) bool {
	for _, o := range it.Obligations {
		if !underPremiseZero(it, it.T.Not(o)) {
			return false
		}
	}
	return true
}

func checkTimeZone(c *listCtx) {
	// (a) text -> octet
	if fn, fname := c.fn("nasConvert", "parseTimeZoneToNas"); fn != nil {
		for _, sign := range []byte{'+', '-'} {
			for h1 := 0; h1 < 2; h1++ {
				for _, mm := range []string{"00", "15", "30", "45"} {
					for dst := 0; dst <= 2; dst++ {
						c.r.Site("tz.encode")
						it := newListInterp(c.w)
						it.Fuel = 100000
						st := it.NewState()
						h2s := it.DigitString("h2", 1)
						tz := StrV{Sym: true}
						tz.Chars = append(tz.Chars, it.constBV(uint64(sign), 8), it.constBV(uint64('0'+h1), 8), h2s.Chars[0], it.constBV(':', 8),
							it.constBV(uint64(mm[0]), 8), it.constBV(uint64(mm[1]), 8))
						if dst > 0 {
							tz.Chars = append(tz.Chars, it.constBV('+', 8), it.constBV(uint64('0'+dst), 8))
						}
						res := it.Call(fn, []Value{tz}, st, 0)
						text := fmt.Sprintf("%c%dh:%s", sign, h1, mm)
						if dst > 0 {
							text += fmt.Sprintf("+%d", dst)
						}
						rb, ok := res.(BV)
						msg := "result not resolvable"
						if ok && !rb.HasTop() {
							oct := bvBits(rb, 0, 8)
							got, valid := refZoneQuarters(it, oct)
							h2 := bvZext(it, it.SrcBV("h2.d0", 4), 16)
							m := uint64((int(mm[0]-'0')*10 + int(mm[1]-'0')) / 15)
							mag := bvAdd(it, it.constBV(uint64(40*h1)+m, 16), bvShl(it, h2, 2))
							q := mag
							if sign == '-' {
								q = it.sub(it.constBV(0, 16), mag)
							}
							q = bvAdd(it, q, it.constBV(uint64(4*dst), 16)) // local time zone includes the DST adjustment
							// the octet has 3 bits for the tens digit: |q| <= 79
							inRange := it.T.And(it.T.Not(cmpSignedLess(it, it.constBV(79, 16), q)), it.T.Not(cmpSignedLess(it, q, it.constBV(uint64(0x10000-79), 16))))
							bad := it.T.And(inRange, it.T.Or(it.T.Not(valid), neqBV(it, got, q)))
							if !underPremiseZero(it, bad) {
								if os.Getenv("NASVERIF_DEBUG") != "" {
									fmt.Fprintf(os.Stderr, "[tz] %s oct.bit3(sign)=%s oct.bit0=%s unsup=%v\n", text, oct.B[3].Short(6), oct.B[0].Short(6), it.Unsup)
								}
								ok, msg = false, "for some hour digit h the octet does not stand for the zone's offset from GMT in quarters of an hour (sign-and-BCD, semi-octets swapped), DST adjustment included"
							}
						} else {
							ok = false
						}
						c.verdict("tz.encode", fname, text, fn, it, ok, msg)
					}
				}
			}
		}
	}
	// (b) octet -> seconds
	if fn, fname := c.fn("nasConvert", "getTimeZoneOffset"); fn != nil {
		c.r.Site("tz.decode")
		it := newListInterp(c.w)
		it.Premise = nil
		st := it.NewState()
		oct := it.SrcBV("tz", 8)
		res := it.Call(fn, []Value{oct}, st, 0)
		rb, ok := res.(BV)
		msg := "result not resolvable"
		if ok && !rb.HasTop() {
			q, valid := refZoneQuarters(it, oct)
			// 900 * q as a 64-bit signed value
			q64 := BV{W: 64, B: make([]*Node, 64)}
			for i := range q64.B {
				if i < 16 {
					q64.B[i] = q.B[i]
				} else {
					q64.B[i] = q.B[15]
				}
			}
			want := it.constBV(0, 64)
			for i := 0; i < 16; i++ {
				if 900>>uint(i)&1 == 1 {
					want = bvAdd(it, want, bvShl(it, q64, i))
				}
			}
			bad := it.T.And(valid, neqBV(it, rb, want))
			if !underPremiseZero(it, bad) {
				ok, msg = false, "for some valid time zone octet the offset is not 900 s times the signed BCD quarter count"
			}
		} else {
			ok = false
		}
		c.verdict("tz.decode", fname, "all octets with decimal digits", fn, it, ok, msg)
	}
	// (c) daylight saving time
	if fn, fname := c.fn("nasConvert", "EncodeDaylightSavingTimeToNas"); fn != nil {
		for dst := 0; dst <= 2; dst++ {
			c.r.Site("tz.dst")
			it := newListInterp(c.w)
			st := it.NewState()
			s := "+08:00"
			if dst > 0 {
				s += fmt.Sprintf("+%d", dst)
			}
			res := it.Call(fn, []Value{StrV{Known: true, S: s}}, st, 0)
			ag, ok := res.(AggV)
			msg := "result not resolvable"
			if ok {
				if ok, msg = sameBV(it, ag.Cells[".Octet"], it.constBV(uint64(dst), 8)); ok {
					ok, msg = sameBV(it, ag.Cells[".Len"], it.constBV(1, 8))
				}
			}
			c.verdict("tz.dst", fname, fmt.Sprintf("adjustment %d h", dst), fn, it, ok, msg)
		}
	}
	if fn, fname := c.fn("nasConvert", "DecodeDaylightSavingTime"); fn != nil {
		for dst, want := range []string{"", "+1", "+2"} {
			c.r.Site("tz.dst")
			it := newListInterp(c.w)
			st := it.NewState()
			arg := AggV{Cells: map[string]Value{".Iei": it.constBV(0, 8), ".Len": it.constBV(1, 8), ".Octet": bvCat(it.SrcBV("spare", 6), it.constBV(uint64(dst), 2))}}
			res := it.Call(fn, []Value{arg}, st, 0)
			s, ok := res.(StrV)
			msg := "result not resolvable"
			if ok && !(s.Known && s.S == want) {
				ok, msg = false, fmt.Sprintf("value %d decodes to %q, expected %q", dst, s.S, want)
			}
			c.verdict("tz.dst", fname, fmt.Sprintf("value %d", dst), fn, it, ok, msg)
		}
	}
}

// semiBCD: the octet holding the two decimal digits of v (< 100), semi-octets swapped: the low
// nibble is the tens digit.
func semiBCD(it *Interp, v BV) BV {
	q, r := it.udivConst(bvZext(it, v, 16), 10)
	return bvCat(bvBits(r, 0, 4), bvBits(q, 0, 4))
}

func leC(it *Interp, v BV, c uint64) *Node { return it.T.Not(it.ult(it.constBV(c, v.W), v)) }
func geC(it *Interp, v BV, c uint64) *Node { return it.T.Not(it.ult(v, it.constBV(c, v.W))) }

func sext(it *Interp, v BV, w int) BV {
	r := BV{W: w, B: make([]*Node, w), Signed: true}
	for i := range r.B {
		if i < v.W {
			r.B[i] = v.B[i]
		} else {
			r.B[i] = v.B[v.W-1]
		}
	}
	return r
}

func mulConst(it *Interp, v BV, c uint64) BV {
	acc := it.constBV(0, v.W)
	for i := 0; i < v.W && i < 64; i++ {
		if c>>uint(i)&1 == 1 {
			acc = bvAdd(it, acc, bvShl(it, v, i))
		}
	}
	return acc
}

func checkUniversalTime(c *listCtx) {
	fields := []struct {
		method string
		lo, hi uint64
		base   uint64 // Year() is 2000 + the symbolic two-digit year
	}{{"Year", 0, 99, 2000}, {"Month", 1, 12, 0}, {"Day", 1, 31, 0}, {"Hour", 0, 23, 0}, {"Minute", 0, 59, 0}, {"Second", 0, 59, 0}}
	// encode
	for _, dstOn := range []bool{false, true} {
		fn, fname := c.fn("nasConvert", "EncodeUniversalTimeAndLocalTimeZoneToNas")
		if fn == nil {
			break
		}
		c.r.Site("time.encode")
		it := newListInterp(c.w)
		it.Fuel = 200000
		st := it.NewState()
		vals := map[string]BV{}
		for _, f := range fields {
			f := f
			v := bvZext(it, it.SrcBV("t."+f.method, 7), 64)
			vals[f.method] = v
			it.AndPremise(it.T.And(geC(it, v, f.lo), leC(it, v, f.hi)))
			it.Models["(time.Time)."+f.method] = func(it *Interp, st *state, call *ssa.CallCommon, args []Value) (Value, bool) {
				r := bvAdd(it, v, it.constBV(f.base, 64))
				r.Signed = true
				return r, true
			}
		}
		// local offset in quarters of an hour (signed), daylight saving flag
		Z := sext(it, it.SrcBV("zone", 8), 64)
		dst := it.T.Const(dstOn) // the text has a different length with the adjustment: one run each
		it.AndPremise(it.T.And(it.T.Not(cmpSignedLess(it, it.constBV(79, 64), Z)), it.T.Not(cmpSignedLess(it, Z, it.constBV(^uint64(78), 64)))))
		// the zone without the adjustment must be representable too
		base := bvMux(it, dst, it.sub(Z, it.constBV(4, 64)), Z)
		it.AndPremise(it.T.And(it.T.Not(cmpSignedLess(it, it.constBV(79, 64), base)), it.T.Not(cmpSignedLess(it, base, it.constBV(^uint64(78), 64)))))
		it.Models["(time.Time).Zone"] = func(it *Interp, st *state, call *ssa.CallCommon, args []Value) (Value, bool) {
			off := mulConst(it, Z, 900)
			off.Signed = true
			return TupleV{StrV{Known: true, S: "X"}, off}, true
		}
		it.Models["(time.Time).IsDST"] = func(it *Interp, st *state, call *ssa.CallCommon, args []Value) (Value, bool) {
			return BV{W: 1, B: []*Node{dst}}, true
		}
		res := it.Call(fn, []Value{OpaqueV{"time"}}, st, 0)
		ag, ok := res.(AggV)
		msg := "result not resolvable"
		if ok {
			for i, f := range fields {
				g, isBV := ag.Cells[fmt.Sprintf(".Octet[%d]", i)].(BV)
				if !isBV || g.HasTop() {
					ok, msg = false, f.method+" octet not resolvable"
					break
				}
				want := semiBCD(it, bvBits(vals[f.method], 0, 8))
				if !underPremiseZero(it, neqBV(it, g, want)) {
					ok, msg = false, fmt.Sprintf("octet %d is not the swapped BCD of %s() for every value %d..%d", i+1, f.method, f.lo, f.hi)
					break
				}
			}
			if ok {
				g, isBV := ag.Cells[".Octet[6]"].(BV)
				if !isBV || g.HasTop() {
					ok, msg = false, fmt.Sprintf("time zone octet not resolvable %v", it.Unsup)
				} else {
					got, valid := refZoneQuarters(it, g)
					if !underPremiseZero(it, it.T.Or(it.T.Not(valid), neqBV(it, got, bvBits(Z, 0, 16)))) {
						ok, msg = false, "the time zone octet does not stand for the local offset (daylight saving included) for every quarter-hour zone"
					} else if !obligationsHold(it) {
						ok, msg = false, "the zone text may have more than two digits per field"
					}
				}
			}
		}
		c.verdict("time.encode", fname, fmt.Sprintf("all instants 2000-2099 x zones, DST=%v", dstOn), fn, it, ok, msg)
	}
	// decode
	if fn, fname := c.fn("nasConvert", "DecodeUniversalTimeAndLocalTimeZone"); fn != nil {
		c.r.Site("time.decode")
		it := newListInterp(c.w)
		it.Premise = nil
		it.Fuel = 200000
		st := it.NewState()
		arg := AggV{Cells: map[string]Value{".Iei": it.constBV(0, 8)}}
		var vals []BV
		for i, f := range fields {
			v := it.SrcBV("v."+f.method, 7)
			it.AndPremise(it.T.And(geC(it, v, f.lo), leC(it, v, f.hi)))
			vals = append(vals, v)
			arg.Cells[fmt.Sprintf(".Octet[%d]", i)] = semiBCD(it, bvZext(it, v, 8))
		}
		tz := it.SrcBV("tz", 8)
		arg.Cells[".Octet[6]"] = tz
		var dateArgs []Value
		var zoneOff Value
		it.Models["time.FixedZone"] = func(it *Interp, st *state, call *ssa.CallCommon, args []Value) (Value, bool) {
			zoneOff = args[1]
			return HandleV{"zone", 1}, true
		}
		it.Models["time.Date"] = func(it *Interp, st *state, call *ssa.CallCommon, args []Value) (Value, bool) {
			dateArgs = args
			return OpaqueV{"time"}, true
		}
		it.Call(fn, []Value{arg}, st, 0)
		ok, msg := len(dateArgs) == 8 && zoneOff != nil, "time.Date / time.FixedZone not reached"
		if ok {
			for i, f := range fields {
				g, isBV := dateArgs[i].(BV)
				if !isBV || g.HasTop() {
					ok, msg = false, f.method+" argument not resolvable"
					break
				}
				want := bvAdd(it, bvZext(it, vals[i], g.W), it.constBV(f.base, g.W))
				if !underPremiseZero(it, neqBV(it, g, want)) {
					ok, msg = false, fmt.Sprintf("the %s passed to time.Date is not the two BCD digits of octet %d", f.method, i+1)
					break
				}
			}
			if ok {
				if ns, isBV := dateArgs[6].(BV); !isBV || !underPremiseZero(it, neqBV(it, ns, it.constBV(0, ns.W))) {
					ok, msg = false, "nanoseconds are not zero"
				}
			}
			if ok {
				if h, isH := dateArgs[7].(HandleV); !isH || h.Kind != "zone" {
					ok, msg = false, "the location is not the fixed zone of the time zone octet"
				}
			}
			if ok {
				q, valid := refZoneQuarters(it, tz)
				want := mulConst(it, sext(it, q, 64), 900)
				g, isBV := zoneOff.(BV)
				if !isBV || g.HasTop() || !underPremiseZero(it, it.T.And(valid, neqBV(it, g, want))) {
					ok, msg = false, "the zone offset is not 900 s times the signed quarter count of the time zone octet"
				}
			}
		}
		c.verdict("time.decode", fname, "all field values x zone octets", fn, it, ok, msg)
	}
	// octet -> text
	if fn, fname := c.fn("nasConvert", "DecodeLocalTimeZone"); fn != nil {
		c.r.Site("tz.text")
		it := newListInterp(c.w)
		it.Premise = nil
		st := it.NewState()
		tz := it.SrcBV("tz", 8)
		q, valid := refZoneQuarters(it, tz)
		it.AndPremise(valid)
		res := it.Call(fn, []Value{AggV{Cells: map[string]Value{".Iei": it.constBV(0, 8), ".Octet": tz}}}, st, 0)
		s, ok := res.(StrV)
		msg := "result not resolvable"
		if ok && s.Sym && len(s.Chars) == 6 {
			neg := q.B[15]
			mag := bvMux(it, neg, it.sub(it.constBV(0, 16), q), q)
			hh, qq := it.udivConst(mag, 4)
			mm := mulConst(it, qq, 15)
			h1, h0 := it.udivConst(hh, 10)
			m1, m0 := it.udivConst(mm, 10)
			digit := func(d BV) BV { ch := it.constBV(0x30, 8); copy(ch.B[0:4], d.B[0:4]); return ch }
			want := []BV{bvMux(it, neg, it.constBV('-', 8), it.constBV('+', 8)), digit(h1), digit(h0), it.constBV(':', 8), digit(m1), digit(m0)}
			for i := range want {
				if !underPremiseZero(it, neqBV(it, BV{W: 8, B: s.Chars[i].B}, want[i])) {
					ok, msg = false, fmt.Sprintf("character %d of the zone text is wrong for some valid octet", i)
					break
				}
			}
			if ok && !obligationsHold(it) {
				ok, msg = false, "hours or minutes may need more than two digits"
			}
		} else {
			ok = false
		}
		c.verdict("tz.text", fname, "all valid octets", fn, it, ok, msg)
	}
}

// cmpSignedLess: a < b for two's complement words.
func cmpSignedLess(it *Interp, a, b BV) *Node {
	a2 := BV{W: a.W, B: append([]*Node(nil), a.B...)}
	b2 := BV{W: b.W, B: append([]*Node(nil), b.B...)}
	a2.B[a.W-1] = it.T.Not(a2.B[a.W-1])
	b2.B[b.W-1] = it.T.Not(b2.B[b.W-1])
	return it.ult(a2, b2)
}

var _ *ssa.Function
