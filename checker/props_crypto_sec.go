package main

// C06 / C07, security.go level: parameter mapping (iv.*), keystream application (out.*), MAC
// evaluation chains (mac.*) and the byte-length wrappers (wrap.*).  The primitives below
// security.go (snow3g.GetKeyStream, zuc.Zuc, AES, CTR, CMAC, the GF(2^64) MUL) are replaced by
// uninterpreted models that record their operands and return fresh symbolic words.

import (
	"fmt"
	"go/types"
	"strings"

	"golang.org/x/tools/go/ssa"
)

type secSym struct {
	it     *Interp
	st     *state
	key    [16]BV
	count  BV
	bearer BV // 5 bits
	dir    BV // 1 bit
	in     SliceV
	nbytes int
}

func newSecSym(w *World, nbytes int) *secSym {
	it := newCryptoInterp(w)
	it.T.Max = 3000000

	s := &secSym{it: it, st: it.NewState(), nbytes: nbytes}
	for i := range s.key {
		s.key[i] = it.SrcBV(fmt.Sprintf("key[%d]", i), 8)
	}
	s.count = it.SrcBV("count", 32)
	s.bearer = it.SrcBV("bearer", 5)
	s.dir = it.SrcBV("dir", 1)
	s.in = it.SymbolicBytes(s.st, "in", nbytes)
	return s
}

func (s *secSym) keyAgg() AggV {
	a := AggV{Cells: map[string]Value{}}
	for i, b := range s.key {
		a.Cells[fmt.Sprintf("[%d]", i)] = b
	}
	return a
}

func (s *secSym) inBit(j int) *Node {
	b := s.it.SrcBV(fmt.Sprintf("in[%d]", j/8), 8)
	return b.B[7-j%8]
}

// args builds the argument list of a security function from its parameter names.
func (s *secSym) args(fn *ssa.Function, length int) ([]Value, bool) {
	var out []Value
	for _, p := range fn.Params {
		w, _, isInt := typeWidth(p.Type())
		n := strings.ToLower(p.Name())
		switch {
		case n == "ck" || n == "ik" || n == "key" || strings.HasPrefix(n, "knas"):
			out = append(out, s.keyAgg())
		case strings.HasPrefix(n, "count") && isInt:
			out = append(out, bvZext(s.it, s.count, w))
		case n == "bearer" && isInt:
			out = append(out, bvZext(s.it, s.bearer, w))
		case n == "direction" && isInt:
			out = append(out, bvZext(s.it, s.dir, w))
		case n == "ibs" || n == "msg" || n == "payload":
			out = append(out, s.in)
		case n == "length" && isInt:
			out = append(out, s.it.constBV(uint64(length), w))
		default:
			return nil, false
		}
	}
	return out, true
}

func (s *secSym) bytesOf(v Value, n int) ([]BV, bool) {
	sl, ok := v.(SliceV)
	if !ok || sl.Nil || sl.Obj == nil || (n >= 0 && sl.Len != n) {
		return nil, false
	}
	out := []BV{}
	for i := 0; i < sl.Len; i++ {
		b, ok := s.it.load(s.st, s.it.sliceElemPtr(sl, i), u8T).(BV)
		if !ok {
			return nil, false
		}
		out = append(out, b)
	}
	return out, true
}

func aggWordsOf(v Value, n int) ([]BV, bool) {
	a, ok := v.(AggV)
	if !ok {
		return nil, false
	}
	var out []BV
	for i := 0; i < n; i++ {
		b, ok := a.Cells[fmt.Sprintf("[%d]", i)].(BV)
		if !ok {
			return nil, false
		}
		out = append(out, b)
	}
	return out, true
}

// dependsOn: does the term mention a source whose name starts with prefix?
func dependsOn(n *Node, prefix string, seen map[*Node]bool) bool {
	if n == nil || seen[n] {
		return false
	}
	seen[n] = true
	if n.op == opSrc && strings.HasPrefix(n.src, prefix) {
		return true
	}
	if dependsOn(n.a, prefix, seen) || dependsOn(n.b, prefix, seen) || dependsOn(n.c, prefix, seen) {
		return true
	}
	for _, k := range n.kids {
		if dependsOn(k, prefix, seen) {
			return true
		}
	}
	return false
}

// standard parameter blocks ------------------------------------------------------------------

// snowKey: K0..K3 as passed to snow3g.GetKeyStream (k[i] = K_i; K3 = CK[0..31], ..., K0 = CK[96..127]).
func (s *secSym) snowKey() []BV {
	var out []BV
	for i := 0; i < 4; i++ {
		o := 4 * (3 - i)
		out = append(out, be32([4]BV{s.key[o], s.key[o+1], s.key[o+2], s.key[o+3]}))
	}
	return out
}

func (s *secSym) bearerDirWord() BV { // BEARER || DIRECTION || 0^26
	it := s.it
	return bvOr(it, bvShl(it, bvZext(it, s.bearer, 32), 27), bvShl(it, bvZext(it, s.dir, 32), 26))
}

func (s *secSym) countBytes() [4]BV {
	return [4]BV{byteOf(s.count, 0), byteOf(s.count, 1), byteOf(s.count, 2), byteOf(s.count, 3)}
}

func (s *secSym) bearerDirOctet() BV { // BEARER(5) || DIRECTION(1) || 00
	it := s.it
	return bvOr(it, bvShl(it, bvZext(it, s.bearer, 8), 3), bvShl(it, bvZext(it, s.dir, 8), 2))
}

// compare lists ------------------------------------------------------------------------------

func (c *cryptoCtx) sameList(it *Interp, what string, got, want []BV) (bool, string) {
	if len(got) != len(want) {
		return false, fmt.Sprintf("%s has %d elements, the standard %d", what, len(got), len(want))
	}
	for i := range want {
		if ok, msg := sameBV(it, got[i], want[i]); !ok {
			return false, fmt.Sprintf("%s[%d]: %s", what, i, msg)
		}
	}
	return true, ""
}

// ---------------------------------------------------------------------------------------------
// NEA

type primCall struct {
	key, iv []BV
	n       int
	ok      bool
	calls   int
}

func (s *secSym) modelKeystream(pc *primCall) {
	it := s.it
	it.Models[snowPkg+".GetKeyStream"] = func(it *Interp, st *state, call *ssa.CallCommon, args []Value) (Value, bool) {
		pc.calls++
		k, ok1 := aggWordsOf(args[0], 4)
		iv, ok2 := aggWordsOf(args[1], 4)
		n, ok3 := it.concreteInt(args[2])
		pc.key, pc.iv, pc.n, pc.ok = k, iv, n, ok1 && ok2 && ok3
		o := it.NewObj("ks", true)
		return SliceV{Obj: o, Len: n}, true
	}
	it.Models[zucPkg+".Zuc"] = func(it *Interp, st *state, call *ssa.CallCommon, args []Value) (Value, bool) {
		pc.calls++
		k, ok1 := s.bytesOf(args[0], 16)
		iv, ok2 := s.bytesOf(args[1], 16)
		n, ok3 := it.concreteInt(args[2])
		pc.key, pc.iv, pc.n, pc.ok = k, iv, n, ok1 && ok2 && ok3
		o := it.NewObj("ks", true)
		return SliceV{Obj: o, Len: n}, true
	}
}

type aesCalls struct {
	key    []BV
	keyOK  bool
	iv     []BV
	ivOK   bool
	block  int
	stream int
	xor    int
	xorOK  bool
	// CMAC
	msg     []BV
	msgOK   bool
	tagSize int
	sumBlk  bool
}

func (s *secSym) modelAES(ac *aesCalls) {
	it := s.it
	it.Models["crypto/aes.NewCipher"] = func(it *Interp, st *state, call *ssa.CallCommon, args []Value) (Value, bool) {
		ac.key, ac.keyOK = s.bytesOf(args[0], 16)
		ac.block++
		return TupleV{HandleV{"aes.Block", ac.block}, NilV{}}, true
	}
	it.Models["crypto/cipher.NewCTR"] = func(it *Interp, st *state, call *ssa.CallCommon, args []Value) (Value, bool) {
		h, isH := args[0].(HandleV)
		ac.iv, ac.ivOK = s.bytesOf(args[1], 16)
		ac.ivOK = ac.ivOK && isH && h.Kind == "aes.Block"
		ac.stream++
		return HandleV{"ctr", ac.stream}, true
	}
	it.Models["invoke:(crypto/cipher.Stream).XORKeyStream"] = func(it *Interp, st *state, call *ssa.CallCommon, args []Value) (Value, bool) {
		h, isH := args[0].(HandleV)
		dst, ok1 := args[1].(SliceV)
		src, ok2 := s.bytesOf(args[2], -1)
		ac.xor++
		ac.xorOK = isH && h.Kind == "ctr" && ok1 && ok2 && dst.Len >= len(src) && ac.xor == 1
		if !ac.xorOK {
			return nil, true
		}
		for i, b := range src {
			it.store(st, it.sliceElemPtr(dst, i), bvXor(it, b, it.SrcBV(fmt.Sprintf("ks[%d]", i), 8)))
		}
		return nil, true
	}
	it.Models["github.com/aead/cmac.Sum"] = func(it *Interp, st *state, call *ssa.CallCommon, args []Value) (Value, bool) {
		ac.msg, ac.msgOK = s.bytesOf(args[0], -1)
		h, isH := args[1].(HandleV)
		ac.sumBlk = isH && h.Kind == "aes.Block"
		ac.tagSize, _ = it.concreteInt(args[2])
		o := it.NewObj("cmac", true)
		return TupleV{SliceV{Obj: o, Len: 16}, NilV{}}, true
	}
}

// resultBytes: the (bytes, nil error) result of an NEA / NIA function.
func (s *secSym) resultBytes(res Value, n int) ([]BV, string) {
	t, ok := res.(TupleV)
	if !ok || len(t) != 2 {
		return nil, "the function did not return (bytes, error) on the modelled path"
	}
	if _, isNil := t[1].(NilV); !isNil {
		return nil, "the function returns a non-nil error for valid parameters"
	}
	b, ok := s.bytesOf(t[0], n)
	if !ok {
		sl, _ := t[0].(SliceV)
		return nil, fmt.Sprintf("the result has %d octets, expected %d", sl.Len, n)
	}
	return b, ""
}

func cdiv(a, b int) int { return (a + b - 1) / b }

// every residue modulo 8, the octet positions inside a 32-bit keystream word, the word borders
var neaLengthsQuick = []int{0, 1, 2, 3, 4, 5, 6, 7, 8, 9, 12, 13, 15, 16, 17, 20, 21, 23, 24, 25, 31, 32, 33, 40, 45, 48, 63, 64, 65}

func neaLengths(tier string) []int {
	if tier != "thorough" {
		return neaLengthsQuick
	}
	var out []int
	for l := 0; l <= 72; l++ {
		out = append(out, l)
	}
	return append(out, 95, 96, 97, 127, 128, 129)
}

func checkNEA(c *cryptoCtx, tier string) {
	w := c.w
	for _, alg := range []string{"NEA1", "NEA3"} {
		fn, fname := c.fn("security", alg)
		if fn == nil {
			continue
		}
		ivDone := false
		for _, L := range neaLengths(tier) {
			nb := cdiv(L, 8)
			s := newSecSym(w, nb)
			it := s.it
			pc := &primCall{}
			s.modelKeystream(pc)
			args, ok := s.args(fn, L)
			if !ok {
				c.r.Fail("anchor", fname, "params", fn.Pos(), "unexpected parameter list", nil)
				break
			}
			res := it.Call(fn, args, s.st, 0)
			if !ivDone && L >= 32 {
				ivDone = true
				c.r.Site("iv.nea")
				ok, msg := pc.ok && pc.calls == 1, "the keystream generator is not called exactly once with resolvable key and IV"
				if ok {
					if alg == "NEA1" {
						if ok, msg = c.sameList(it, "key word k", pc.key, s.snowKey()); ok {
							bd := s.bearerDirWord()
							ok, msg = c.sameList(it, "IV word", pc.iv, []BV{bd, s.count, bd, s.count})
						}
					} else {
						if ok, msg = c.sameList(it, "key octet", pc.key, s.key[:]); ok {
							cb := s.countBytes()
							z := it.constBV(0, 8)
							half := []BV{cb[0], cb[1], cb[2], cb[3], s.bearerDirOctet(), z, z, z}
							ok, msg = c.sameList(it, "IV octet", pc.iv, append(append([]BV(nil), half...), half...))
						}
					}
				}
				c.verdict("iv.nea", fname, "key/IV", fn.Pos(), it, ok, msg)
			}
			c.r.Site("out.nea")
			ok, msg := true, ""
			if !pc.ok || pc.calls != 1 {
				ok, msg = false, fmt.Sprintf("LENGTH=%d: the keystream does not come from exactly one call of the verified generator (%d calls)", L, pc.calls)
			} else if pc.n != cdiv(L, 32) {
				ok, msg = false, fmt.Sprintf("LENGTH=%d: %d keystream words requested, the standard needs %d", L, pc.n, cdiv(L, 32))
			}
			var out []BV
			if ok {
				if out, msg = s.resultBytes(res, nb); out == nil {
					ok = false
				}
			}
			for j := 0; ok && j < 8*nb; j++ {
				got := out[j/8].B[7-j%8]
				if j < L {
					ks := it.SrcBV(fmt.Sprintf("ks[%d]", j/32), 32).B[31-j%32]
					want := it.T.Xor(s.inBit(j), ks)
					if ok, msg = sameBV(it, BV{W: 1, B: []*Node{got}}, BV{W: 1, B: []*Node{want}}); !ok {
						msg = fmt.Sprintf("LENGTH=%d: output bit %d is not input bit xor keystream bit %d: %s", L, j, j, msg)
					}
				} else if dependsOn(got, "ks[", map[*Node]bool{}) {
					ok, msg = false, fmt.Sprintf("LENGTH=%d: keystream reaches output bit %d, beyond the message", L, j)
				}
			}
			c.verdict("out.nea", fname, fmt.Sprintf("LENGTH=%d", L), fn.Pos(), it, ok, msg)
		}
	}
	// NEA2: AES-128-CTR with T1 = COUNT || BEARER || DIRECTION || 0^26 || 0^64
	if fn, fname := c.fn("security", "NEA2"); fn != nil {
		for _, nb := range []int{0, 1, 5, 16, 17} {
			s := newSecSym(w, nb)
			it := s.it
			ac := &aesCalls{}
			s.modelAES(ac)
			args, ok := s.args(fn, 0)
			if !ok {
				c.r.Fail("anchor", fname, "params", fn.Pos(), "unexpected parameter list", nil)
				break
			}
			res := it.Call(fn, args, s.st, 0)
			if nb == 5 {
				c.r.Site("iv.nea")
				ok, msg := ac.keyOK && ac.ivOK && ac.block == 1 && ac.stream == 1, "AES key / CTR counter block not resolvable, or more than one cipher set up"
				if ok {
					if ok, msg = c.sameList(it, "AES key octet", ac.key, s.key[:]); ok {
						cb := s.countBytes()
						z := it.constBV(0, 8)
						ok, msg = c.sameList(it, "counter block octet", ac.iv, []BV{cb[0], cb[1], cb[2], cb[3], s.bearerDirOctet(), z, z, z, z, z, z, z, z, z, z, z})
					}
				}
				c.verdict("iv.nea", fname, "key/counter block", fn.Pos(), it, ok, msg)
			}
			c.r.Site("out.nea")
			ok, msg := ac.xorOK, "the CTR stream is not applied exactly once from the input to the output"
			var out []BV
			if ok {
				if out, msg = s.resultBytes(res, nb); out == nil {
					ok = false
				}
			}
			for i := 0; ok && i < nb; i++ {
				want := bvXor(it, it.SrcBV(fmt.Sprintf("in[%d]", i), 8), it.SrcBV(fmt.Sprintf("ks[%d]", i), 8))
				if ok, msg = sameBV(it, out[i], want); !ok {
					msg = fmt.Sprintf("%d octets: output octet %d is not input xor CTR keystream: %s", nb, i, msg)
				}
			}
			c.verdict("out.nea", fname, fmt.Sprintf("octets=%d", nb), fn.Pos(), it, ok, msg)
		}
	}
}

// ---------------------------------------------------------------------------------------------
// wrappers

type wrapCall struct {
	name string
	args []Value
}

func checkWrapper(c *cryptoCtx, wrapper string, algs map[int]string, macLen int) {
	w := c.w
	fn, fname := c.fn("security", wrapper)
	if fn == nil {
		return
	}
	for id := 1; id <= 3; id++ {
		alg := algs[id]
		callee, _ := c.fn("security", alg)
		if callee == nil {
			continue
		}
		for _, nb := range []int{0, 1, 5, 33} {
			c.r.Site("wrap.args")
			s := newSecSym(w, nb)
			it := s.it
			var calls []wrapCall
			for _, a := range []string{"NEA1", "NEA2", "NEA3", "NIA1", "NIA2", "NIA3"} {
				a := a
				it.Models[secPkg+"."+a] = func(it *Interp, st *state, call *ssa.CallCommon, args []Value) (Value, bool) {
					calls = append(calls, wrapCall{a, args})
					n := nb
					if macLen > 0 {
						n = macLen
					}
					o := it.NewObj("res", true)
					return TupleV{SliceV{Obj: o, Len: n}, NilV{}}, true
				}
			}
			var args []Value
			okArgs := true
			for _, p := range fn.Params {
				wd, _, isInt := typeWidth(p.Type())
				switch strings.ToLower(p.Name()) {
				case "algoid":
					args = append(args, it.constBV(uint64(id), wd))
				default:
					one, ok := s.args(&ssa.Function{Params: []*ssa.Parameter{p}}, 0)
					if !ok {
						okArgs = false
					} else {
						args = append(args, one[0])
					}
				}
				_ = isInt
			}
			if !okArgs {
				c.r.Fail("anchor", fname, "params", fn.Pos(), "unexpected parameter list", nil)
				return
			}
			res := it.Call(fn, args, s.st, 0)
			construct := fmt.Sprintf("%s/octets=%d", alg, nb)
			ok, msg := true, ""
			if len(calls) != 1 || calls[0].name != alg {
				ok, msg = false, fmt.Sprintf("algorithm identity %d does not reach exactly one call of %s", id, alg)
			}
			if ok {
				got := calls[0].args
				for i, p := range callee.Params {
					if i >= len(got) {
						ok, msg = false, "too few arguments"
						break
					}
					wd, _, _ := typeWidth(p.Type())
					n := strings.ToLower(p.Name())
					switch {
					case n == "ck" || n == "ik" || n == "key":
						ks, okK := aggWordsOf(got[i], 16)
						if !okK {
							ok, msg = false, "key argument not resolvable"
						} else if ok, msg = c.sameList(it, "key octet passed to "+alg, ks, s.key[:]); !ok {
						}
					case strings.HasPrefix(n, "count"):
						if ok, msg = sameBV(it, got[i], bvZext(it, s.count, wd)); !ok {
							msg = "COUNT passed to " + alg + ": " + msg
						}
					case n == "bearer":
						if ok, msg = sameBV(it, got[i], bvZext(it, s.bearer, wd)); !ok {
							msg = "BEARER passed to " + alg + ": " + msg
						}
					case n == "direction":
						if ok, msg = sameBV(it, got[i], bvZext(it, s.dir, wd)); !ok {
							msg = "DIRECTION passed to " + alg + ": " + msg
						}
					case n == "ibs" || n == "msg":
						sl, isSl := got[i].(SliceV)
						if !isSl || sl.Obj != s.in.Obj || sl.Lo != s.in.Lo || sl.Len != nb || sl.Path != s.in.Path {
							ok, msg = false, "the payload handed to "+alg+" is not the caller's whole payload"
						}
					case n == "length":
						if ok, msg = sameBV(it, got[i], it.constBV(uint64(8*nb), wd)); !ok {
							msg = fmt.Sprintf("bit LENGTH passed to %s for a %d-octet payload: %s (expected %d)", alg, nb, msg, 8*nb)
						}
					}
					if !ok {
						break
					}
				}
			}
			if ok {
				if macLen == 0 {
					// result copied over the payload, nil error
					if _, isNil := res.(NilV); !isNil {
						ok, msg = false, fmt.Sprintf("the wrapper does not return nil after a successful %s (%T %v)", alg, res, res)
					}
					pb, okB := s.bytesOf(s.in, nb)
					if ok && !okB {
						ok, msg = false, "payload not resolvable after the call"
					}
					for i := 0; ok && i < nb; i++ {
						if ok, msg = sameBV(it, pb[i], it.SrcBV(fmt.Sprintf("res[%d]", i), 8)); !ok {
							msg = fmt.Sprintf("payload octet %d after the call is not %s's output octet %d: %s", i, alg, i, msg)
						}
					}
				} else {
					out, m := s.resultBytes(res, macLen)
					if out == nil {
						ok, msg = false, m
					}
					for i := 0; ok && i < macLen; i++ {
						if ok, msg = sameBV(it, out[i], it.SrcBV(fmt.Sprintf("res[%d]", i), 8)); !ok {
							msg = fmt.Sprintf("MAC octet %d is not %s's octet %d: %s", i, alg, i, msg)
						}
					}
				}
			}
			c.verdict("wrap.args", fname, construct, fn.Pos(), it, ok, msg)
		}
	}
}

var _ = types.Typ

// checkCipherCallers (drv.callers): the state-advancing functions of SNOW 3G and ZUC are entered
// only along the verified driver: key/IV loading and the one-off discarded clock happen exactly
// once per (key, IV) because nothing else can call them.
func checkCipherCallers(c *cryptoCtx) {
	// A function is *protected* when it works on a cipher state object: its receiver, a parameter or
	// a result is (a pointer to) one of the package's state structs — found by type, not by name.
	// Every call of a protected function must come from a protected function of the same package or
	// from the package's driver (GetKeyStream / Zuc): then the state is created, loaded with key and IV
	// and clocked only along the schedule the driver rules compare with the standard.
	for _, pk := range []struct{ rel, pkg, root string }{{"security/snow3g", snowPkg, "GetKeyStream"}, {"security/zuc", zucPkg, "Zuc"}} {
		p := c.w.ByRel[pk.rel]
		if p == nil {
			c.r.Fail("anchor", pk.rel, "missing", 0, "package not found", nil)
			continue
		}
		// state structs: unexported-or-exported named structs of the package holding word arrays
		state := map[*types.Named]bool{}
		sc := p.Types.Scope()
		for _, n := range sc.Names() {
			tn, ok := sc.Lookup(n).(*types.TypeName)
			if !ok {
				continue
			}
			nt, ok := tn.Type().(*types.Named)
			if !ok {
				continue
			}
			st, ok := nt.Underlying().(*types.Struct)
			if !ok {
				continue
			}
			for i := 0; i < st.NumFields(); i++ {
				if a, ok := st.Field(i).Type().Underlying().(*types.Array); ok {
					if b, ok := a.Elem().Underlying().(*types.Basic); ok && b.Kind() == types.Uint32 {
						state[nt] = true
					}
				}
			}
		}
		if len(state) == 0 {
			c.r.Fail("anchor", pk.rel, "state", 0, "no cipher state struct found in "+pk.rel, nil)
			continue
		}
		isState := func(t types.Type) bool {
			n := namedOf(t)
			return n != nil && state[n]
		}
		protected := func(f *ssa.Function) bool {
			if f == nil || f.Pkg == nil || f.Pkg.Pkg != p.Types {
				return false
			}
			sig := f.Signature
			if sig.Recv() != nil && isState(sig.Recv().Type()) {
				return true
			}
			for i := 0; i < sig.Params().Len(); i++ {
				if isState(sig.Params().At(i).Type()) {
					return true
				}
			}
			for i := 0; i < sig.Results().Len(); i++ {
				if isState(sig.Results().At(i).Type()) {
					return true
				}
			}
			return false
		}
		rootName := pk.pkg + "." + pk.root
		nsites := 0
		for fn := range c.w.AllFuncs() {
			if fn.Pkg == nil || !IsRepoPkg(fn.Pkg.Pkg) || fn.Blocks == nil {
				continue
			}
			outer := fn
			for outer.Parent() != nil {
				outer = outer.Parent()
			}
			callerOK := protected(outer) || outer.String() == rootName
			if callerOK && outer.String() != rootName && outer.Object() != nil && outer.Object().Exported() {
				// an exported function working on the cipher state is a second way in, next to the driver
				callerOK = false
			}
			for _, b := range fn.Blocks {
				for _, ins := range b.Instrs {
					var callee *ssa.Function
					if ci, ok := ins.(ssa.CallInstruction); ok {
						callee = ci.Common().StaticCallee()
					}
					// a protected function taken as a value escapes the rule
					for _, op := range ins.Operands(nil) {
						if f, ok := (*op).(*ssa.Function); ok && f != callee && protected(f) {
							c.r.Site("drv.callers")
							c.r.Fail("drv.callers", SSAFuncName(fn), f.Name()+" as value", ins.Pos(), "the cipher step "+f.Name()+" is taken as a function value: its callers can no longer be enumerated", nil)
						}
					}
					if callee == nil || !protected(callee) {
						continue
					}
					nsites++
					c.r.Site("drv.callers")
					if !callerOK {
						c.r.Fail("drv.callers", SSAFuncName(fn), callee.Name(), ins.Pos(), "the cipher state function "+callee.Name()+" is entered from "+fn.Name()+", outside the verified driver (key/IV loading and the discarded first clock must happen exactly once per key and IV)", nil)
					} else {
						c.r.OK("drv.callers")
					}
				}
			}
		}
		if nsites == 0 {
			c.r.Fail("drv.callers", pk.rel, "anchor", 0, "no call of a cipher state function found in "+pk.rel+": the driver cannot be the only way in", nil)
		}
	}
}

// checkCipherPurity (pure.no-state): the output of a cipher / MAC function is a function of its
// arguments alone: it writes no package-level (or unknown) memory, keeps no pointer in
// package-level state and returns nothing that shares memory with it (E4 root tracing over the
// transitive callees).  A cached cipher context that survives the call is the typical violation.
func checkCipherPurity(c *cryptoCtx, names [][2]string) {
	e := NewEffects(c.w)
	var fns []*ssa.Function
	for _, n := range names {
		if fn, _ := c.fn(n[0], n[1]); fn != nil {
			fns = append(fns, fn)
		}
	}
	e.Summaries(fns)
	for _, fn := range fns {
		c.r.Site("pure.no-state")
		s := e.Summary(fn)
		name := SSAFuncName(fn)
		if s == nil {
			c.r.Fail("pure.no-state", name, "summary", fn.Pos(), "no effect summary", nil)
			continue
		}
		bad := false
		for root, site := range s.Mods {
			switch root.Kind {
			case "global", "extglobal", "unknown", "freevar":
				bad = true
				c.r.Fail("pure.no-state", name, "writes "+root.String(), site.Pos, "writes memory that outlives the call: "+root.String()+" ("+site.What+" in "+site.Fn+")", nil)
			}
		}
		for _, rt := range s.Retains {
			if rt.Dst.Kind == "global" {
				bad = true
				c.r.Fail("pure.no-state", name, "stores into "+rt.Dst.Name, rt.Pos, "a pointer is kept in package-level state "+rt.Dst.Name, nil)
			}
		}
		for i, rs := range s.Results {
			for root := range rs {
				if root.Kind == "global" {
					bad = true
					c.r.Fail("pure.no-state", name, fmt.Sprintf("result %d aliases %s", i, root.Name), fn.Pos(), "a result shares memory with package-level state "+root.Name, nil)
				}
			}
		}
		if !bad {
			c.r.OK("pure.no-state")
		}
	}
}

// checkDriverLength (drv.length): the keystream drivers return exactly the requested number of
// words for EVERY requested count (E3, count symbolic in 0..2^22).  The driver checks evaluate
// the drivers at a few concrete counts; a cap or a rounding of the count elsewhere in its range
// (e.g. nil beyond some maximum) would be invisible to them and silently truncates the keystream
// of long payloads.
func checkDriverLength(c *cryptoCtx) {
	for _, g := range [][3]string{{"security/snow3g", "GetKeyStream", "n"}, {"security/zuc", "Zuc", "wlength"}} {
		f := c.w.LookupFunc(g[0], g[1])
		c.r.Site("drv.length")
		if f == nil {
			c.r.Fail("anchor", g[0]+"."+g[1], "missing", 0, "generator not found", nil)
			continue
		}
		sr := runSecurity(c.w, f, map[string]Itv{g[2]: {0, 1 << 22}, "!nonnil": {}}, false)
		ok, why := false, "the result length is not resolvable"
		var cnt AVal
		found := false
		for i, p := range sr.fn.Params {
			if p.Name() == g[2] {
				cnt, found = sr.arg[i], true
			}
		}
		if !found || cnt.Kind != avInt || cnt.Lin == nil {
			why = "the word-count parameter " + g[2] + " is not an integer parameter any more"
		} else if !sr.res.none && len(sr.res.vals) == 1 && sr.res.vals[0].Len != nil {
			d := sr.res.vals[0].Len.add(cnt.Lin, -1)
			if sr.res.st.prove(d) && sr.res.st.prove(d.scale(-1)) {
				ok = true
			} else {
				why = fmt.Sprintf("cannot show len(result) == %s for every %s in 0..2^22: length in %v", g[2], g[2], sr.res.st.linItv(sr.res.vals[0].Len))
			}
		}
		if ok {
			c.r.OK("drv.length")
		} else {
			c.r.Fail("drv.length", FuncName(f), "result length", f.Pos(), "the keystream driver does not return exactly the requested number of words: "+why, nil)
		}
	}
	c.r.Expect("drv.length", 2)
}
