package main

// Self-validation of the checkers: overlay mutants (in memory, via packages.Config.Overlay).
// Each mutant replaces one text fragment of one file of /repo; the mutated tree must still
// type-check; a "break" mutant must make the named property report a finding whose key
// contains Expect; a "keep" mutant (behaviour-preserving edit) must leave the verdict clean.
// A mutant whose anchor fragment no longer exists in the tree under test is skipped and counted.

import (
	"bytes"
	"fmt"
	"os"
	"os/exec"
	"path/filepath"
	"sort"
	"strings"
	"sync"
)

type Mutant struct {
	Name   string
	Prop   string
	File   string // relative to the repository root
	Old    string
	New    string
	Nth    int         // which occurrence of Old (0 = must be unique; k>0 = k-th, 1-based)
	Expect string      // substring of the finding key expected ("" for keep-mutants)
	Keep   bool        // behaviour-preserving: verdict must stay clean
	Also   [][2]string // further (old, new) fragment replacements in the same file, each unique
	Why    string
}

var mutants []Mutant

func addMutants(ms ...Mutant) { mutants = append(mutants, ms...) }

func findMutant(name string) *Mutant {
	for i := range mutants {
		if mutants[i].Name == name {
			return &mutants[i]
		}
	}
	return nil
}

// mutantOverlay builds the overlay; error "anchor" if the fragment is absent.
func mutantOverlay(name string) (map[string][]byte, error) {
	m := findMutant(name)
	if m == nil {
		return nil, fmt.Errorf("unknown mutant %s", name)
	}
	path := filepath.Join(repoDir, m.File)
	src, err := os.ReadFile(path)
	if err != nil {
		return nil, fmt.Errorf("anchor: %v", err)
	}
	n := bytes.Count(src, []byte(m.Old))
	if n == 0 || (m.Nth == 0 && n != 1) || m.Nth > n {
		return nil, fmt.Errorf("anchor: fragment occurs %d times in %s", n, m.File)
	}
	k := m.Nth
	if k == 0 {
		k = 1
	}
	idx := -1
	from := 0
	for i := 0; i < k; i++ {
		j := bytes.Index(src[from:], []byte(m.Old))
		idx = from + j
		from = idx + len(m.Old)
	}
	out := append([]byte{}, src[:idx]...)
	out = append(out, []byte(m.New)...)
	out = append(out, src[idx+len(m.Old):]...)
	for _, a := range m.Also {
		if bytes.Count(out, []byte(a[0])) != 1 {
			return nil, fmt.Errorf("anchor: additional fragment not unique in %s", m.File)
		}
		out = bytes.Replace(out, []byte(a[0]), []byte(a[1]), 1)
	}
	return map[string][]byte{path: out}, nil
}

type mutResult struct {
	m      Mutant
	status string // caught | missed | clean | false-alarm | skipped | nocompile
	detail string
}

func runMutant(m Mutant) mutResult {
	if _, err := mutantOverlay(m.Name); err != nil {
		return mutResult{m, "skipped", err.Error()}
	}
	cmd := exec.Command(os.Args[0], "check", m.Prop, "--tier", "quick", "--mutant", m.Name)
	cmd.Env = append(os.Environ(), "NASVERIF_NO_SELFTEST=1")
	var out bytes.Buffer
	cmd.Stdout = &out
	cmd.Stderr = &out
	err := cmd.Run()
	code := 0
	if ee, ok := err.(*exec.ExitError); ok {
		code = ee.ExitCode()
	} else if err != nil {
		return mutResult{m, "nocompile", err.Error()}
	}
	s := out.String()
	switch {
	case code == 3:
		return mutResult{m, "nocompile", lastLines(s, 3)}
	case code == 2:
		return mutResult{m, "nocompile", "checker failure: " + lastLines(s, 5)}
	}
	if m.Keep {
		if code == 0 {
			return mutResult{m, "clean", ""}
		}
		return mutResult{m, "false-alarm", lastLines(s, 6)}
	}
	if code == 1 {
		for _, ln := range strings.Split(s, "\n") {
			if strings.Contains(ln, "] ") && strings.Contains(ln, m.Expect) {
				return mutResult{m, "caught", strings.TrimSpace(ln)}
			}
		}
		return mutResult{m, "missed", "violation reported but not for the expected instance '" + m.Expect + "': " + lastLines(s, 6)}
	}
	return mutResult{m, "missed", "no violation reported"}
}

func lastLines(s string, n int) string {
	ls := strings.Split(strings.TrimSpace(s), "\n")
	if len(ls) > n {
		ls = ls[len(ls)-n:]
	}
	return strings.Join(ls, " | ")
}

func runMutants(ms []Mutant, par int) []mutResult {
	res := make([]mutResult, len(ms))
	var wg sync.WaitGroup
	sem := make(chan struct{}, par)
	for i := range ms {
		wg.Add(1)
		go func(i int) {
			defer wg.Done()
			sem <- struct{}{}
			res[i] = runMutant(ms[i])
			<-sem
		}(i)
	}
	wg.Wait()
	return res
}

// runSelftestFor runs the catalogue of one property (thorough tier). Returns 0 when every
// break-mutant is caught and every keep-mutant stays clean; 2 otherwise (checker is wrong).
func runSelftestFor(id string, r *Report) int {
	var ms []Mutant
	for _, m := range mutants {
		if m.Prop == id {
			ms = append(ms, m)
		}
	}
	if len(ms) == 0 {
		return 0
	}
	// mutants whose expected key is already violated on the tree under test are skipped
	var run []Mutant
	pre := 0
	for _, m := range ms {
		already := false
		if !m.Keep {
			for _, f := range r.Findings {
				if strings.Contains(f.Key, m.Expect) {
					already = true
				}
			}
		}
		if already {
			pre++
			continue
		}
		run = append(run, m)
	}
	res := runMutants(run, 4)
	counts := map[string]int{}
	var bad []string
	var rows []map[string]string
	for _, x := range res {
		counts[x.status]++
		rows = append(rows, map[string]string{"mutant": x.m.Name, "status": x.status, "detail": x.detail, "why": x.m.Why})
		if x.status == "missed" || x.status == "false-alarm" || x.status == "nocompile" {
			bad = append(bad, x.m.Name+": "+x.status+" — "+x.detail)
		}
	}
	r.Extra["selftest"] = map[string]any{"mutants": len(ms), "already_violated_skipped": pre, "counts": counts, "results": rows}
	r.Note("self-test: %d mutants, %v", len(ms), counts)
	if len(bad) > 0 {
		sort.Strings(bad)
		for _, b := range bad {
			fmt.Fprintln(os.Stderr, "SELFTEST-FAIL", id, b)
		}
		return 2
	}
	return 0
}

func cmdSelftest(args []string) int {
	if len(args) > 0 && (args[0] == "--seeds" || args[0] == "--neutral") {
		filter := ""
		if len(args) > 1 {
			filter = args[1]
		}
		if args[0] == "--seeds" {
			return cmdPatchSelftest("seeded", false, filter)
		}
		return cmdPatchSelftest("neutral", true, filter)
	}
	var ms []Mutant
	for _, m := range mutants {
		if len(args) == 0 || m.Prop == args[0] || m.Name == args[0] {
			ms = append(ms, m)
		}
	}
	res := runMutants(ms, 5)
	fail := 0
	for _, x := range res {
		fmt.Printf("%-12s %-4s %-50s %s\n", x.status, x.m.Prop, x.m.Name, x.detail)
		if x.status == "missed" || x.status == "false-alarm" || x.status == "nocompile" {
			fail++
		}
	}
	fmt.Printf("%d mutants, %d failures\n", len(res), fail)
	if fail > 0 {
		return 2
	}
	return 0
}
